import Chewing.Proofs.EditorCommit
import Chewing.Proofs.EditorRevalidate
/-!
# The buffer stays bounded — in every state (round 2, `linkH`)

C05 / C18 prove the bound `len ≤ auto_commit_threshold` after the keys that end in `Entering`.  This file
proves a bound for EVERY state of all four kinds and every public operation, and says exactly which
histories it covers (before the FX3/FX4 repair it was FALSE for the others — unbounded growth under prefix lookup
and through `cancel_selecting`, see `Props/C05Bound.lean`; since the repair the auto-commit runs in both editing
states, neither lookup strategy nor layout is restricted any more, and `EditorLinkBound3.lean` proves the slightly
weaker invariant `Within1` for ALL histories):

* `Within B K e`: thresholds `≤ B`, every easy-symbol expansion `≤ K` characters,
  and `len ≤ B` — `≤ B + 1` while a candidate list is open (the simple engine
  opens its one-word list BEFORE the auto-commit runs);
* `within_apply`: every operation keeps `Within` — all keys in all four states, `select`, `start_selecting`,
  `commit`, `clear`, …; the calls that may close a list WITHOUT an auto-commit (`cancel_selecting`, and the
  `revalidate_selecting` at the end of the option / layout / learn / unlearn calls) are covered when the open
  list is not the over-full one (`Quiet`);
* `mid_len`: the states INSIDE a step, where the auto-commit converts (`Mid`), hold at most
  `B + max 2 K` symbols.

The only fact about the conversion that is used is `ACBound` at the state the auto-commit runs in ("the
auto-commit leaves at most `threshold` symbols"); C05 derives it from a tiling conversion, `EditorLinkBound2`
from C01's invariant.
-/
namespace Chewing.Bound
open Chewing Chewing.C06 Chewing.C05

variable {D L : Type} (env : Env D L)

/-! ## lengths after the composition-editor calls -/

theorem len_eq (c : CompEditor) : c.len = c.symbols.length := rfl

theorem insert_len {c c' : CompEditor} {x : Sym} (h : c.insert x = .ok c') : c'.len = c.len + 1 := by
  obtain ⟨h1, _, _, h4⟩ := insert_at_cursor c x c' h
  rw [len_eq, len_eq, h1]
  simp only [List.length_append, List.length_take, List.length_drop, List.length_cons, List.length_nil]
  omega

theorem insertChars_len {c c' : CompEditor} {cs : List Nat} (h : insertChars c cs = .ok c') :
    c'.len = c.len + cs.length := by
  obtain ⟨h1, _, _⟩ := insertChars_frame cs c c' h
  rw [len_eq, len_eq, h1]
  simp only [List.length_append, List.length_take, List.length_drop, List.length_map]
  omega

theorem removeBefore_len {c c' : CompEditor} (h : c.removeBeforeCursor = .ok c') : c'.len ≤ c.len := by
  obtain ⟨h0, h1⟩ := backspace_frame c c' h
  by_cases hc : c.cursor = 0
  · rw [h0 hc]; exact Nat.le_refl _
  · obtain ⟨hs, _, _, _⟩ := h1 (by omega)
    rw [len_eq, len_eq, hs]
    simp only [List.length_append, List.length_take, List.length_drop]
    omega

theorem removeAfter_len {c c' : CompEditor} (h : c.removeAfterCursor = .ok c') : c'.len ≤ c.len := by
  obtain ⟨_, hs, _, _⟩ := delete_frame c c' h
  rw [len_eq, len_eq, hs]
  simp only [List.length_append, List.length_take, List.length_drop]
  omega

theorem replace_len {c c' : CompEditor} {x : Sym} (h : c.replace x = .ok c') : c'.len = c.len := by
  obtain ⟨hlt, hs, _, _⟩ := replace_frame c x c' h
  rw [len_eq, len_eq, hs]
  simp only [List.length_append, List.length_take, List.length_drop, List.length_cons, List.length_nil]
  omega

theorem insertGlue_len {c c' : CompEditor} (h : c.insertGlue = .ok c') : c'.len = c.len := by
  rw [len_eq, len_eq, (gap_select_frame c .insertGlue c' (.inl rfl) h).1]

theorem insertBreak_len {c c' : CompEditor} (h : c.insertBreak = .ok c') : c'.len = c.len := by
  rw [len_eq, len_eq, (gap_select_frame c .insertBreak c' (.inr (.inl rfl)) h).1]

theorem select_len {c c' : CompEditor} {iv : Interval} (h : c.select iv = .ok c') : c'.len = c.len := by
  rw [len_eq, len_eq, (gap_select_frame c (.select iv) c' (.inr (.inr ⟨iv, rfl⟩)) h).1]

theorem popCursor_len (c : CompEditor) : c.popCursor.len = c.len := by
  unfold CompEditor.popCursor
  split <;> rfl

theorem clampCursor_len (c : CompEditor) : c.clampCursor.len = c.len := by
  show c.clampCursor.inner.len = c.inner.len
  rw [clampCursor_inner]

theorem clear_len (c : CompEditor) : c.clear.len = 0 := by
  rw [len_eq, (clear_frame c).1]; rfl

theorem removeFront_len {c c' : CompEditor} {n : Nat} (h : c.removeFront n = .ok c') : c'.len ≤ c.len := by
  obtain ⟨_, hs, _, _⟩ := remove_front_frame c n c' h
  rw [len_eq, len_eq, hs, List.length_drop]
  omega

/-! ## what no key and no auto-commit changes -/

/-- the easy-symbol table, the auto-commit threshold and the lookup strategy are the same -/
def Keep (sh0 sh' : Shared D L) : Prop :=
  sh'.abbr = sh0.abbr ∧ sh'.options.autoCommitThreshold = sh0.options.autoCommitThreshold ∧
  sh'.options.lookupStrategy = sh0.options.lookupStrategy ∧
  sh'.options.conversionEngine = sh0.options.conversionEngine

theorem Keep.refl (sh : Shared D L) : Keep sh sh := ⟨rfl, rfl, rfl, rfl⟩

theorem Keep.trans {a b c : Shared D L} (h1 : Keep a b) (h2 : Keep b c) : Keep a c :=
  ⟨h2.1.trans h1.1, h2.2.1.trans h1.2.1, h2.2.2.1.trans h1.2.2.1, h2.2.2.2.trans h1.2.2.2⟩

theorem Keep.of_eq {a b : Shared D L} (h1 : b.abbr = a.abbr) (h2 : b.options = a.options) : Keep a b :=
  ⟨h1, by rw [h2], by rw [h2], by rw [h2]⟩

theorem keep_learnFrame {a b : Shared D L} (h : C02.LearnFrame a b) : Keep a b ∧ b.com = a.com := by
  obtain ⟨h1, _, _, h4, _, _, _, _, _, h10, _⟩ := h.fields
  exact ⟨Keep.of_eq h10 h4, h1⟩

theorem learnInRangeQuiet_keep (sh : Shared D L) (a b : Nat) :
    OutAll (fun x => Keep sh x.1 ∧ x.1.com = sh.com) (Shared.learnInRangeQuiet env sh a b) := by
  unfold Shared.learnInRangeQuiet
  repeat' (first | split | (dsimp only; split))
  all_goals first | exact ⟨⟨rfl, rfl, rfl, rfl⟩, rfl⟩ | trivial

theorem learnInRangeNotify_keep (sh : Shared D L) (a b : Nat) :
    OutAll (fun x => Keep sh x.1 ∧ x.1.com = sh.com) (Shared.learnInRangeNotify env sh a b) := by
  unfold Shared.learnInRangeNotify
  split
  · rename_i sh1 phrase hq; exact (learnInRangeQuiet_keep env sh a b).elim hq
  · rename_i sh1 msg hq; exact (learnInRangeQuiet_keep env sh a b).elim hq
  · trivial
  · trivial

theorem commit_keep (sh : Shared D L) :
    OutAll (fun x => Keep sh x ∧ x.com = sh.com.clear) (Shared.commit env sh) := by
  unfold Shared.commit
  split
  · trivial
  · trivial
  · rename_i ivs hc
    dsimp only
    split
    · rename_i sh1 hq
      split at hq
      · obtain ⟨hk, hcom⟩ := keep_learnFrame ((C02.autoLearn_frame env { sh with commitBuf := [] } ivs).elim hq)
        refine ⟨⟨hk.1, hk.2.1, hk.2.2.1, hk.2.2.2⟩, ?_⟩
        show sh1.com.clear = sh.com.clear
        rw [hcom]
      · cases hq; exact ⟨⟨rfl, rfl, rfl, rfl⟩, rfl⟩
    · trivial
    · trivial

theorem tryAutoCommit_keep (sh : Shared D L) :
    OutAll (fun x => Keep sh x ∧ x.com.len ≤ sh.com.len) (Shared.tryAutoCommit env sh) := by
  unfold Shared.tryAutoCommit
  dsimp only
  split
  · exact ⟨Keep.refl _, Nat.le_refl _⟩
  · split
    · trivial
    · trivial
    · split
      · split
        · rename_i com hq
          exact ⟨⟨rfl, rfl, rfl, rfl⟩, removeFront_len hq⟩
        · trivial
        · trivial
      · trivial
      · trivial

/-! ## the arms of `Entering` -/

/-- an arm of `Entering` called at `sh0`: nothing configured changes, at most `K` symbols are added, and
    growth is answered *absorb* (the auto-commit follows) -/
def GStep (K : Nat) (sh0 : Shared D L) (r : StepRes D L) : Prop :=
  ∀ sh' t, r = .ok (sh', t) →
    Keep sh0 sh' ∧ sh'.com.len ≤ sh0.com.len + K ∧ (t = .spin .absorb ∨ sh'.com.len ≤ sh0.com.len)

macro "gstep_leaf" : tactic =>
  `(tactic| (intro sh' t h; injection h with h; injection h with h1 h2; subst h1 h2;
             exact ⟨⟨rfl, rfl, rfl, rfl⟩, Nat.le_add_right _ _, .inr (Nat.le_refl _)⟩))

theorem gstep_ite {K : Nat} {sh0 : Shared D L} {c : Prop} [Decidable c] {a b : StepRes D L}
    (h1 : GStep K sh0 a) (h2 : GStep K sh0 b) : GStep K sh0 (if c then a else b) := by
  split <;> assumption

theorem gstep_panic (K : Nat) (sh0 : Shared D L) (p : String) : GStep K sh0 (.panic p) := by
  intro sh' t h; cases h

theorem gstep_fuel (K : Nat) (sh0 : Shared D L) : GStep K sh0 .outOfFuel := by
  intro sh' t h; cases h

theorem GStep.mono {K K' : Nat} {sh0 : Shared D L} {r : StepRes D L} (h : GStep K sh0 r) (hk : K ≤ K') :
    GStep K' sh0 r := by
  intro sh' t e
  obtain ⟨h1, h2, h3⟩ := h sh' t e
  exact ⟨h1, by omega, h3⟩

/-- the arm was called on a copy of `sh0` that differs in fields the bound does not read -/
theorem GStep.of_same {K : Nat} {sh0 sh : Shared D L} {r : StepRes D L} (h : GStep K sh r)
    (hk : Keep sh0 sh) (hc : sh.com = sh0.com) : GStep K sh0 r := by
  intro sh' t e
  obtain ⟨h1, h2, h3⟩ := h sh' t e
  rw [hc] at h2 h3
  exact ⟨hk.trans h1, h2, h3⟩

/-- `withCom` on an editing call that adds at most `k ≤ K` symbols, answered *absorb* -/
theorem gstep_withCom_absorb {K : Nat} (sh : Shared D L) (r : Outcome CompEditor) (k : Nat) (hk : k ≤ K)
    (hr : ∀ c, r = .ok c → c.len ≤ sh.com.len + k) :
    GStep K sh (withCom sh r fun sh => .ok (sh, .spin .absorb)) := by
  unfold withCom
  cases r with
  | ok c =>
    intro sh' t h; injection h with h; injection h with h1 h2; subst h1 h2
    have := hr c rfl
    exact ⟨⟨rfl, rfl, rfl, rfl⟩, (by show c.len ≤ _; omega), .inl rfl⟩
  | panic p => exact gstep_panic _ _ p
  | outOfFuel => exact gstep_fuel _ _

theorem gstep_insert {K : Nat} (hK : 1 ≤ K) (sh : Shared D L) (x : Sym) :
    GStep K sh (withCom sh (sh.com.insert x) fun sh => .ok (sh, .spin .absorb)) :=
  gstep_withCom_absorb sh _ 1 hK (fun c hc => Nat.le_of_eq (insert_len hc))

theorem gstep_commitOrInsert {K : Nat} (hK : 1 ≤ K) (sh : Shared D L) (ch : Nat) :
    GStep K sh (commitOrInsert sh ch) := by
  unfold commitOrInsert
  split
  · gstep_leaf
  · exact gstep_insert hK sh _

theorem gstep_inputChar {K : Nat} (hK : 1 ≤ K) (sh : Shared D L) (ev : KeyEvent) : GStep K sh (inputChar sh ev) := by
  unfold inputChar fullOrBell
  repeat' split
  all_goals first
    | exact gstep_commitOrInsert hK _ _
    | gstep_leaf

theorem gstep_chineseFallback {K : Nat} (hK : 1 ≤ K) (sh : Shared D L) (ev : KeyEvent) :
    GStep K sh (chineseFallback sh ev) := by
  unfold chineseFallback
  repeat' split
  all_goals first
    | exact gstep_insert hK _ _
    | exact gstep_inputChar hK _ _
    | gstep_leaf

theorem gstep_newPhrase {K : Nat} (sh : Shared D L) : GStep K sh (newPhrase env sh) := by
  unfold newPhrase
  simp only
  split
  · intro sh' t h; injection h with h; injection h with h1 h2; subst h1 h2
    refine ⟨⟨rfl, rfl, rfl, rfl⟩, ?_, .inr ?_⟩
    · show sh.com.pushCursor.clampCursor.len ≤ _
      rw [clampCursor_len]; exact Nat.le_add_right _ _
    · show sh.com.pushCursor.clampCursor.len ≤ _
      rw [clampCursor_len]; exact Nat.le_refl _
  · exact gstep_panic _ _ _
  · exact gstep_fuel _ _

theorem gstep_openPhrase {K : Nat} (sh : Shared D L) : GStep K sh (openPhrase env sh) := by
  intro sh' t h
  rcases openPhrase_cases env h with ⟨h1, _⟩ | ⟨rfl, _⟩
  · exact gstep_newPhrase env sh sh' t h1
  · rename_i h2; subst h2
    have hl : (Shared.cancelSelecting { sh with com := sh.com.pushCursor.clampCursor }).com.len = sh.com.len := by
      show sh.com.pushCursor.clampCursor.popCursor.len = _
      rw [popCursor_len, clampCursor_len]; rfl
    exact ⟨⟨rfl, rfl, rfl, rfl⟩, by omega, .inr (by omega)⟩

theorem gstep_newSpecialSymbol {K : Nat} (sh : Shared D L) (sym : Sym) : GStep K sh (newSpecialSymbol sh sym) := by
  unfold newSpecialSymbol
  simp only
  split
  · intro sh' t h; injection h with h; injection h with h1 h2; subst h1 h2
    refine ⟨⟨rfl, rfl, rfl, rfl⟩, ?_, .inr ?_⟩
    · show sh.com.pushCursor.clampCursor.len ≤ _
      rw [clampCursor_len]; exact Nat.le_add_right _ _
    · show sh.com.pushCursor.clampCursor.len ≤ _
      rw [clampCursor_len]; exact Nat.le_refl _
  · intro sh' t h; injection h with h; injection h with h1 h2; subst h1 h2
    refine ⟨⟨rfl, rfl, rfl, rfl⟩, ?_, .inr ?_⟩
    · show sh.com.pushCursor.clampCursor.len ≤ _
      rw [clampCursor_len]; exact Nat.le_add_right _ _
    · show sh.com.pushCursor.clampCursor.len ≤ _
      rw [clampCursor_len]; exact Nat.le_refl _
  · exact gstep_panic _ _ _
  · exact gstep_fuel _ _

theorem gstep_openSymbol {K : Nat} (sh : Shared D L) : GStep K sh (openSymbol env sh) := by
  intro sh' t h
  obtain ⟨rfl, _⟩ := openSymbol_cases env h
  exact ⟨⟨rfl, rfl, rfl, rfl⟩, Nat.le_add_right _ _, .inr (Nat.le_refl _)⟩

theorem gstep_openSpecialSymbol {K : Nat} (sh : Shared D L) (sym : Sym) :
    GStep K sh (openSpecialSymbol env sh sym) := by
  intro sh' t h
  rcases openSpecialSymbol_cases env h with ⟨h1, _⟩ | ⟨rfl, _⟩
  · exact gstep_newSpecialSymbol sh sym sh' t h1
  · rename_i h2; subst h2
    have hl : (Shared.cancelSelecting { sh with com := sh.com.pushCursor.clampCursor }).com.len = sh.com.len := by
      show sh.com.pushCursor.clampCursor.popCursor.len = _
      rw [popCursor_len, clampCursor_len]; rfl
    exact ⟨⟨rfl, rfl, rfl, rfl⟩, by omega, .inr (by omega)⟩

theorem gstep_startSelecting {K : Nat} (sh : Shared D L) : GStep K sh (startSelecting env sh) := by
  unfold startSelecting
  repeat' split
  all_goals first
    | exact gstep_openPhrase env _
    | exact gstep_openSpecialSymbol env _ _
    | gstep_leaf

theorem gstep_startSelectingOrInputSpace {K : Nat} (sh : Shared D L) :
    GStep K sh (startSelectingOrInputSpace env sh) := by
  unfold startSelectingOrInputSpace
  repeat' split
  all_goals first
    | exact gstep_openPhrase env _
    | exact gstep_openSpecialSymbol env _ _
    | gstep_leaf

theorem gstep_learnTrans {K : Nat} (sh : Shared D L) (a b : Nat) :
    GStep K sh (learnTrans (Shared.learnInRangeNotify env sh a b)) := by
  unfold learnTrans
  split
  · rename_i sh1 okk hq
    obtain ⟨hk, hc⟩ := (learnInRangeNotify_keep env sh a b).elim hq
    intro sh' t h; injection h with h; injection h with h1 h2; subst h1 h2
    exact ⟨hk, by rw [hc]; exact Nat.le_add_right _ _, .inr (by rw [hc]; exact Nat.le_refl _)⟩
  · exact gstep_panic _ _ _
  · exact gstep_fuel _ _

/-- every easy-symbol expansion has at most `K` characters -/
def AbbrLe (K : Nat) (abbr : List (Nat × Text)) : Prop := ∀ p ∈ abbr, p.2.length ≤ K

theorem gstep_enteringDefault {K : Nat} (hK : 1 ≤ K) (sh : Shared D L) (ha : AbbrLe K sh.abbr) (ev : KeyEvent) :
    GStep K sh (enteringDefault env sh ev) := by
  unfold enteringDefault
  split
  · split
    · exact gstep_openSymbol env _
    · split
      · exact gstep_inputChar hK _ _
      · split
        · split
          · rename_i expanded hf
            obtain ⟨p, hp, rfl⟩ := Option.map_eq_some_iff.mp hf
            have hle := ha p (List.mem_of_find?_eq_some hp)
            exact gstep_withCom_absorb sh _ p.2.length hle
              (fun _ hc => Nat.le_of_eq (insertChars_len hc))
          · split
            · exact gstep_insert hK _ _
            · split
              · split <;> gstep_leaf
              · gstep_leaf
        · split
          · split
            · gstep_leaf
            · exact (gstep_chineseFallback hK _ ev).of_same ⟨rfl, rfl, rfl, rfl⟩ rfl
          · exact gstep_chineseFallback hK _ _
  · exact gstep_inputChar hK _ _

theorem gstep_enteringCtrlDigit {K : Nat} (sh : Shared D L) (c : Nat) : GStep K sh (enteringCtrlDigit env sh c) := by
  unfold enteringCtrlDigit
  repeat' (first | split | (dsimp only; split))
  all_goals first
    | exact gstep_learnTrans env _ _ _
    | exact gstep_openSymbol env _
    | gstep_leaf

theorem gstep_enteringTabInside {K : Nat} (sh : Shared D L) : GStep K sh (enteringTabInside env sh) := by
  unfold enteringTabInside
  repeat' split
  all_goals first
    | exact gstep_withCom_absorb sh _ 0 (Nat.zero_le _) (fun c hc => Nat.le_of_eq (insertGlue_len hc))
    | exact gstep_withCom_absorb sh _ 0 (Nat.zero_le _) (fun c hc => Nat.le_of_eq (insertBreak_len hc))
    | exact gstep_panic _ _ _
    | exact gstep_fuel _ _

theorem gstep_enteringEnter {K : Nat} (sh : Shared D L) : GStep K sh (enteringEnter env sh) := by
  unfold enteringEnter
  split
  · rename_i sh1 hq
    obtain ⟨hk, hc⟩ := (commit_keep env sh).elim hq
    intro sh' t h; injection h with h; injection h with h1 h2; subst h1 h2
    have h0 : sh1.com.len = 0 := by rw [hc]; exact clear_len _
    exact ⟨hk, by omega, .inr (by omega)⟩
  · exact gstep_panic _ _ _
  · exact gstep_fuel _ _

/-- **`Entering::next`**: at most `K` symbols more (one, or an easy-symbol expansion), and any growth is
    answered *absorb* -/
theorem gstep_enteringNext {K : Nat} (hK : 1 ≤ K) (sh : Shared D L) (ha : AbbrLe K sh.abbr) (ev : KeyEvent) :
    GStep K sh (enteringNext env sh ev) := by
  unfold enteringNext
  repeat' (with_reducible apply gstep_ite)
  all_goals first
    | exact gstep_enteringCtrlDigit env _ _
    | exact gstep_enteringTabInside env _
    | exact gstep_enteringEnter env _
    | exact gstep_commitOrInsert hK _ _
    | exact gstep_enteringDefault env hK _ ha _
    | exact gstep_startSelecting env _
    | exact gstep_startSelectingOrInputSpace env _
    | (unfold enteringBackspace; split
       · gstep_leaf
       · exact gstep_withCom_absorb sh _ 0 (Nat.zero_le _) (fun c hc => removeBefore_len hc))
    | (unfold enteringDel; split
       · gstep_leaf
       · exact gstep_withCom_absorb sh _ 0 (Nat.zero_le _) (fun c hc => removeAfter_len hc))
    | (unfold enteringShiftLeft; split <;> gstep_leaf)
    | (unfold enteringShiftRight; split <;> gstep_leaf)
    | (unfold enteringEsc; split
       · (intro sh' t h; injection h with h; injection h with h1 h2; subst h1 h2
          exact ⟨⟨rfl, rfl, rfl, rfl⟩, (by show sh.com.clear.len ≤ _; rw [clear_len]; omega), .inl rfl⟩)
       · gstep_leaf)
    | gstep_leaf

/-! ## `EnteringSyllable` -/

/-- the layout never answers `Fuzzy` to `key_press` (true of the real layouts: only `fuzzy_key_press`, which
    is used under `LookupStrategy::FuzzyPartialPrefix`, does).  No longer a hypothesis of anything below (FX3 repair) -/
def NoFuzzy : Prop := ∀ l ev s, (env.keyPress l ev).1 ≠ .fuzzy s

/-- an arm of `EnteringSyllable`: at most one symbol more, and then the key ends in `Entering` or stays in
    `EnteringSyllable` with *absorb* (the `Fuzzy` arm; in both cases the auto-commit follows — since the FX3
    repair it runs in both editing states) or in the simple engine's one-word list -/
def SStep (sh0 : Shared D L) (r : StepRes D L) : Prop :=
  ∀ sh' t, r = .ok (sh', t) →
    Keep sh0 sh' ∧ sh'.com.len ≤ sh0.com.len + 1 ∧
    ((∃ s, t = .toState (.selecting s)) ∨ t = .toState .entering ∨ t = .spin .absorb ∨
      (sh'.com.len ≤ sh0.com.len ∧ ∀ s, t ≠ .toState s ∨ s = .entering))

macro "sstep_leaf" : tactic =>
  `(tactic| (intro sh' t h; injection h with h; injection h with h1 h2; subst h1 h2;
             first
              | exact ⟨⟨rfl, rfl, rfl, rfl⟩, Nat.le_add_right _ _, .inr (.inl rfl)⟩
              | exact ⟨⟨rfl, rfl, rfl, rfl⟩, Nat.le_add_right _ _, .inr (.inr (.inr ⟨Nat.le_refl _, fun s => .inl (by intro c; cases c)⟩))⟩))

theorem sstep_newPhraseSimple (sh0 sh : Shared D L) (hk : Keep sh0 sh) (hl : sh.com.len ≤ sh0.com.len + 1) :
    SStep sh0 (newPhraseSimple sh) := by
  unfold newPhraseSimple
  dsimp only
  split
  · intro sh' t h; injection h with h; injection h with h1 h2; subst h1 h2
    exact ⟨hk, hl, .inl ⟨_, rfl⟩⟩
  · intro sh' t h; cases h
  · intro sh' t h; cases h

theorem sstep_syllableAnswer (sh : Shared D L) (beh : LayoutBeh) :
    SStep sh (syllableAnswer env sh beh) := by
  unfold syllableAnswer
  split
  · split <;> sstep_leaf
  · split
    · unfold withCom
      split
      · rename_i c hc
        have hl := insert_len hc
        intro sh' t h; injection h with h; injection h with h1 h2; subst h1 h2
        exact ⟨⟨rfl, rfl, rfl, rfl⟩, (by show c.len ≤ _; omega), .inr (.inr (.inl rfl))⟩
      · intro sh' t h; cases h
      · intro sh' t h; cases h
    · sstep_leaf
  · split
    · unfold withCom
      split
      · rename_i c hc
        have hl := insert_len hc
        dsimp only
        split
        · exact sstep_newPhraseSimple sh _ ⟨rfl, rfl, rfl, rfl⟩ (by show c.len ≤ _; omega)
        · intro sh' t h; injection h with h; injection h with h1 h2; subst h1 h2
          exact ⟨⟨rfl, rfl, rfl, rfl⟩, (by show c.len ≤ _; omega), .inr (.inl rfl)⟩
      · intro sh' t h; cases h
      · intro sh' t h; cases h
    · sstep_leaf
  · sstep_leaf

/-- **`EnteringSyllable::next`**, either lookup strategy -/
theorem sstep_enteringSyllableNext (sh : Shared D L)
    (ev : KeyEvent) : SStep sh (enteringSyllableNext env sh ev) := by
  unfold enteringSyllableNext
  split
  · split <;> sstep_leaf
  · split
    · sstep_leaf
    · split
      · split
        · intro sh' t h; injection h with h; injection h with h1 h2; subst h1 h2
          exact ⟨⟨rfl, rfl, rfl, rfl⟩, (by show sh.com.clear.len ≤ _; rw [clear_len]; omega), .inr (.inl rfl)⟩
        · sstep_leaf
      · split
        · intro sh' t h
          obtain ⟨h1, h2, h3⟩ := sstep_syllableAnswer env { sh with syl := (env.fuzzyKeyPress sh.syl ev).2 }
            (env.fuzzyKeyPress sh.syl ev).1 sh' t h
          exact ⟨h1, h2, h3⟩
        · intro sh' t h
          obtain ⟨h1, h2, h3⟩ := sstep_syllableAnswer env { sh with syl := (env.keyPress sh.syl ev).2 }
            (env.keyPress sh.syl ev).1 sh' t h
          exact ⟨h1, h2, h3⟩

/-! ## `Selecting` -/

/-- a transition that keeps a candidate list open -/
def StaysSel : Trans → Prop
  | .spin _ => True
  | .toState (.selecting _) => True
  | _ => False

/-- an arm of `Selecting`: at most one symbol more (a chosen symbol is INSERTED by the symbol table opened with
    `` ` ``), and then the list closes into `Entering` (the auto-commit follows) -/
def SelStep (sh0 : Shared D L) (r : Outcome (SelRes D L)) : Prop :=
  ∀ x, r = .ok x →
    Keep sh0 x.shared ∧ x.shared.com.len ≤ sh0.com.len + 1 ∧
    (x.trans = .toState .entering ∨ (x.shared.com.len ≤ sh0.com.len ∧ StaysSel x.trans))

theorem selstep_ite {sh0 : Shared D L} {c : Prop} [Decidable c] {a b : Outcome (SelRes D L)}
    (h1 : SelStep sh0 a) (h2 : SelStep sh0 b) : SelStep sh0 (if c then a else b) := by
  split <;> assumption

macro "selstep_leaf" : tactic =>
  `(tactic| (intro x h; injection h with h; subst h;
             first
              | exact ⟨⟨rfl, rfl, rfl, rfl⟩, Nat.le_add_right _ _, .inr ⟨Nat.le_refl _, trivial⟩⟩
              | exact ⟨⟨rfl, rfl, rfl, rfl⟩, (by simp only [Shared.cancelSelecting, Shared.switchLanguageMode, popCursor_len]; omega), .inl rfl⟩))

/-- `Selecting::select` -/
theorem select_growth (s : Selecting) (sh : Shared D L) (n : Nat) :
    OutAll (fun x => Keep sh x.2.1 ∧ x.2.1.com.len ≤ sh.com.len + 1 ∧
      (x.2.2 = .toState .entering ∨ (x.2.1.com.len ≤ sh.com.len ∧ StaysSel x.2.2)))
      (Selecting.select env s sh n) := by
  have hfin : ∀ (sh1 : Shared D L) (sym : Sym) (r : Outcome CompEditor),
      (∀ c, r = .ok c → c.len ≤ sh.com.len + 1) →
      OutAll (fun x : Selecting × Shared D L × Trans => Keep sh x.2.1 ∧ x.2.1.com.len ≤ sh.com.len + 1 ∧
        (x.2.2 = .toState .entering ∨ (x.2.1.com.len ≤ sh.com.len ∧ StaysSel x.2.2)))
        (match r with
          | .ok com => .ok (s, { sh with com := com.popCursor }, .toState .entering)
          | .panic p => .panic p
          | .outOfFuel => .outOfFuel) := by
    intro sh1 sym r hr
    cases r with
    | ok c => exact ⟨⟨rfl, rfl, rfl, rfl⟩, (by show c.popCursor.len ≤ _; rw [popCursor_len]; exact hr c rfl), .inl rfl⟩
    | panic p => trivial
    | outOfFuel => trivial
  have hact : ∀ (sym : Sym) c, (match s.action with
        | .insert => sh.com.insert sym
        | .replace => sh.com.replace sym) = .ok c → c.len ≤ sh.com.len + 1 := by
    intro sym c hc
    split at hc
    · rw [insert_len hc]; exact Nat.le_refl _
    · rw [replace_len hc]; exact Nat.le_add_right _ _
  unfold Selecting.select
  dsimp only
  split
  · trivial
  · trivial
  · split
    · exact ⟨Keep.refl _, Nat.le_add_right _ _, .inr ⟨Nat.le_refl _, trivial⟩⟩
    · split
      · split
        · split
          · split
            · rename_i com hq
              refine ⟨⟨rfl, rfl, rfl, rfl⟩, ?_, .inl rfl⟩
              have h1 := select_len hq
              split
              · show com.popCursor.moveRight.len ≤ _
                show com.popCursor.len ≤ _
                rw [popCursor_len]; omega
              · show com.popCursor.len ≤ _
                rw [popCursor_len]; omega
            · trivial
            · trivial
          · exact ⟨Keep.refl _, Nat.le_add_right _ _, .inr ⟨Nat.le_refl _, trivial⟩⟩
        · trivial
        · trivial
      · split
        · rename_i sym y' hq
          exact OutAll.map (hfin sh sym _ (hact sym))
        · split
          · exact ⟨⟨rfl, rfl, rfl, rfl⟩, (by simp only [Shared.cancelSelecting, popCursor_len]; omega), .inl rfl⟩
          · exact ⟨Keep.refl _, Nat.le_add_right _ _, .inr ⟨Nat.le_refl _, trivial⟩⟩
          · trivial
          · trivial
        · trivial
        · trivial
      · split
        · rename_i out hq
          exact hfin sh out _ (hact out)
        · exact ⟨Keep.refl _, Nat.le_add_right _ _, .inr ⟨Nat.le_refl _, trivial⟩⟩
        · trivial
        · trivial


theorem selstep_panic (sh0 : Shared D L) (p : String) : SelStep sh0 (.panic p) := by
  intro x h; cases h

theorem selstep_fuel (sh0 : Shared D L) : SelStep sh0 .outOfFuel := by
  intro x h; cases h

theorem selstep_selDownSpace (s : Selecting) (sh : Shared D L) : SelStep sh (selDownSpace env s sh) := by
  unfold selDownSpace
  repeat' split
  all_goals first
    | exact selstep_panic _ _
    | exact selstep_fuel _
    | selstep_leaf

theorem retarget_keep (s : Selecting) (sh : Shared D L) :
    OutAll (fun x => x.1 = sh ∧ ∃ s', x.2 = .toState (.selecting s')) (retarget env s sh) := by
  unfold retarget
  repeat' split
  all_goals first | exact ⟨rfl, _, rfl⟩ | trivial

theorem selstep_closeIfEmpty (sh0 : Shared D L) (r : SelRes D L) (hk : Keep sh0 r.shared)
    (hl : r.shared.com.len = sh0.com.len) (ht : r.trans = .spin .absorb) : SelStep sh0 (closeIfEmpty env r) := by
  intro x h
  rcases closeIfEmpty_cases env h with rfl | rfl
  · exact ⟨hk, by omega, .inr ⟨by omega, by rw [ht]; trivial⟩⟩
  · refine ⟨hk, ?_, .inl rfl⟩
    show r.shared.com.popCursor.len ≤ _
    rw [popCursor_len]; omega

theorem selstep_selMove (s : Selecting) (sh : Shared D L) (isJ : Bool) : SelStep sh (selMove env s sh isJ) := by
  unfold selMove
  split
  · selstep_leaf
  · dsimp only
    have hl : (if isJ = true then sh.com.moveCursor ((match s.sel with
        | .phrase p => p.begin_
        | _ => sh.com.cursor) - 1)
        else (sh.com.moveCursor ((match s.sel with
        | .phrase p => p.begin_
        | _ => sh.com.cursor) + 1)).clampCursor).len = sh.com.len := by
      split
      · rfl
      · rw [clampCursor_len]; rfl
    split
    · rename_i sh' s' hq
      obtain ⟨h1, _⟩ := (retarget_keep env s _).elim hq
      dsimp only at h1
      refine selstep_closeIfEmpty env _ _ ?_ ?_ rfl
      · show Keep sh sh'; rw [h1]; exact ⟨rfl, rfl, rfl, rfl⟩
      · show sh'.com.len = _; rw [h1]; exact hl
    · rename_i sh' t _ hq
      obtain ⟨h1, _⟩ := (retarget_keep env s _).elim hq
      dsimp only at h1
      refine selstep_closeIfEmpty env _ _ ?_ ?_ rfl
      · show Keep sh sh'; rw [h1]; exact ⟨rfl, rfl, rfl, rfl⟩
      · show sh'.com.len = _; rw [h1]; exact hl
    · exact selstep_panic _ _
    · exact selstep_fuel _

theorem selstep_selPrevPage (s : Selecting) (sh : Shared D L) : SelStep sh (selPrevPage env s sh) := by
  unfold selPrevPage
  repeat' split
  all_goals first
    | exact selstep_panic _ _
    | exact selstep_fuel _
    | selstep_leaf

theorem selstep_selNextPage (s : Selecting) (sh : Shared D L) : SelStep sh (selNextPage env s sh) := by
  unfold selNextPage
  repeat' split
  all_goals first
    | exact selstep_panic _ _
    | exact selstep_fuel _
    | selstep_leaf

theorem selstep_selDigit (s : Selecting) (sh : Shared D L) (c : Nat) : SelStep sh (selDigit env s sh c) := by
  unfold selDigit
  split
  · rename_i s' sh' t hq
    have h := (select_growth env s sh (c - 1)).elim hq
    intro x hx; injection hx with hx; subst hx
    exact h
  · exact selstep_panic _ _
  · exact selstep_fuel _

/-- **`Selecting::next`** -/
theorem selstep_selectingNext (s : Selecting) (sh : Shared D L) (ev : KeyEvent) :
    SelStep sh (selectingNext env s sh ev) := by
  unfold selectingNext
  repeat' (with_reducible apply selstep_ite)
  all_goals first
    | exact selstep_selDownSpace env _ _
    | exact selstep_selMove env _ _ _
    | exact selstep_selPrevPage env _ _
    | exact selstep_selNextPage env _ _
    | exact selstep_selDigit env _ _ _
    | selstep_leaf

/-! ## `Highlighting` -/

theorem highlighting_growth (m : Nat) (sh : Shared D L) (ev : KeyEvent) :
    OutAll (fun x => Keep sh x.1 ∧ x.1.com.len = sh.com.len ∧
      (x.2.2 = .toState .entering ∨ ∃ b, x.2.2 = .spin b)) (highlightingNext env m sh ev) := by
  unfold highlightingNext
  dsimp only
  split
  · exact ⟨⟨rfl, rfl, rfl, rfl⟩, rfl, .inl rfl⟩
  · split
    · exact ⟨Keep.refl _, rfl, .inr ⟨_, rfl⟩⟩
    · split
      · exact ⟨Keep.refl _, rfl, .inr ⟨_, rfl⟩⟩
      · split
        · split
          · rename_i sh' b hq
            obtain ⟨hk, hc⟩ := (learnInRangeNotify_keep env _ _ _).elim hq
            exact ⟨⟨hk.1, hk.2.1, hk.2.2.1, hk.2.2.2⟩, by rw [hc]; rfl, .inl rfl⟩
          · trivial
          · trivial
        · exact ⟨Keep.refl _, rfl, .inl rfl⟩

/-! ## the invariant -/

/-- what is configured: thresholds within `B`, easy-symbol expansions within `K` (either lookup strategy) -/
structure Cfg (B K : Nat) (sh : Shared D L) : Prop where
  thr : sh.options.autoCommitThreshold ≤ B
  abbr : AbbrLe K sh.abbr

theorem Cfg.keep {B K : Nat} {a b : Shared D L} (h : Cfg B K a) (hk : Keep a b) : Cfg B K b :=
  ⟨by rw [hk.2.1]; exact h.thr, by rw [hk.1]; exact h.abbr⟩

/-- the bound of a state: `B`, one more while a candidate list is open -/
def lenCap (B : Nat) : St → Nat
  | .selecting _ => B + 1
  | _ => B

theorem le_lenCap (B : Nat) (st : St) : B ≤ lenCap B st := by
  cases st <;> simp [lenCap]

theorem lenCap_le (B : Nat) (st : St) : lenCap B st ≤ B + 1 := by
  cases st <;> simp [lenCap]

/-- **the invariant**: configuration within `B` / `K`, and the buffer within the bound of the state -/
structure Within (B K : Nat) (e : Editor D L) : Prop where
  cfg : Cfg B K e.shared
  len : e.shared.com.len ≤ lenCap B e.state

/-- the auto-commit at `sh` leaves at most `threshold` symbols (C05 `tryAutoCommit_bound_at`: true when the
    conversion answer tiles the buffer) -/
def ACBound (sh : Shared D L) : Prop :=
  ∀ sh2, Shared.tryAutoCommit env sh = .ok sh2 → sh2.com.len ≤ sh.options.autoCommitThreshold

/-- the shared state INSIDE an operation at which the auto-commit (hence the conversion) may run: after the
    state machine's part of a key, after the `Selecting::select` of the `select` call -/
def Mid (e : Editor D L) : Op L → Shared D L → Prop
  | .key ev, sh => ∃ st, dispatch env e ev = .ok (sh, st)
  | .select n, sh => ∃ s s' sh0 t, e.state = .selecting s ∧ Selecting.select env s e.shared n = .ok (s', sh0, t) ∧
      sh = (applyTrans sh0 (.selecting s') t).1
  | _, _ => False

theorem applyTrans_keep (sh : Shared D L) (st : St) (t : Trans) :
    Keep sh (applyTrans sh st t).1 ∧ (applyTrans sh st t).1.com = sh.com := by
  cases t <;> exact ⟨⟨rfl, rfl, rfl, rfl⟩, rfl⟩

theorem preamble_keep (sh : Shared D L) : Keep sh (preamble sh) ∧ (preamble sh).com = sh.com :=
  ⟨⟨rfl, rfl, rfl, rfl⟩, rfl⟩

/-- **the state machine's part of a key, all four states**: the configuration is kept, at most `max 1 K`
    symbols are added, and either the auto-commit follows (`Entering`, *absorb*) or the buffer is within the bound of
    the new state -/
theorem dispatch_growth {B K : Nat} {e : Editor D L} (hw : Within B K e) {ev : KeyEvent}
    {sh : Shared D L} {st : St} (hd : dispatch env e ev = .ok (sh, st)) :
    Keep e.shared sh ∧ sh.com.len ≤ e.shared.com.len + max 1 K ∧
    (((st = .entering ∨ st = .enteringSyllable) ∧ sh.last = .absorb) ∨ sh.com.len ≤ lenCap B st) := by
  have hpk := preamble_keep e.shared
  have hcfg : Cfg B K (preamble e.shared) := hw.cfg.keep hpk.1
  have hlen := hw.len
  unfold dispatch at hd
  split at hd
  · next hs =>
    rw [hs] at hlen
    obtain ⟨⟨sh', t⟩, hr, hx⟩ := map_ok hd
    dsimp only at hx
    obtain ⟨h1, h2, h3⟩ := gstep_enteringNext env (K := max 1 K) (Nat.le_max_left _ _) (preamble e.shared)
      (fun p hp => Nat.le_trans (hcfg.abbr p hp) (Nat.le_max_right _ _)) ev sh' t hr
    have ha := applyTrans_keep sh' .entering t
    have e1 : sh = (applyTrans sh' .entering t).1 := by rw [hx]
    have e2 : st = (applyTrans sh' .entering t).2 := by rw [hx]
    rw [hpk.2] at h2 h3
    refine ⟨hpk.1.trans (h1.trans (e1 ▸ ha.1)), by rw [e1, ha.2]; exact h2, ?_⟩
    rcases h3 with rfl | h3
    · exact .inl ⟨.inl (by rw [e2]; rfl), by rw [e1]; rfl⟩
    · refine .inr ?_
      rw [e1, ha.2]
      exact Nat.le_trans h3 (Nat.le_trans hlen (le_lenCap B st))
  · next hs =>
    rw [hs] at hlen
    obtain ⟨⟨sh', t⟩, hr, hx⟩ := map_ok hd
    dsimp only at hx
    obtain ⟨h1, h2, h3⟩ := sstep_enteringSyllableNext env (preamble e.shared) ev sh' t hr
    have ha := applyTrans_keep sh' .enteringSyllable t
    have e1 : sh = (applyTrans sh' .enteringSyllable t).1 := by rw [hx]
    have e2 : st = (applyTrans sh' .enteringSyllable t).2 := by rw [hx]
    rw [hpk.2] at h2 h3
    refine ⟨hpk.1.trans (h1.trans (e1 ▸ ha.1)), ?_, ?_⟩
    · rw [e1, ha.2]; exact Nat.le_trans h2 (Nat.add_le_add_left (Nat.le_max_left _ _) _)
    · rcases h3 with ⟨s, rfl⟩ | rfl | rfl | ⟨h3, h4⟩
      · refine .inr ?_
        rw [e1, ha.2, e2]
        show sh'.com.len ≤ B + 1
        simp only [lenCap] at hlen
        omega
      · exact .inl ⟨.inl (by rw [e2]; rfl), by rw [e1]; rfl⟩
      · exact .inl ⟨.inr (by rw [e2]; rfl), by rw [e1]; rfl⟩
      · cases t with
        | spin b =>
          refine .inr ?_
          rw [e1, ha.2, e2]
          show sh'.com.len ≤ B
          simp only [lenCap] at hlen
          omega
        | toState s =>
          rcases h4 s with h5 | rfl
          · exact absurd rfl h5
          · exact .inl ⟨.inl (by rw [e2]; rfl), by rw [e1]; rfl⟩
  · next s hs =>
    rw [hs] at hlen
    obtain ⟨x, hr, hx⟩ := map_ok hd
    obtain ⟨h1, h2, h3⟩ := selstep_selectingNext env s (preamble e.shared) ev x hr
    have ha := applyTrans_keep x.shared (.selecting x.sel) x.trans
    have e1 : sh = (applyTrans x.shared (.selecting x.sel) x.trans).1 := by rw [hx]
    have e2 : st = (applyTrans x.shared (.selecting x.sel) x.trans).2 := by rw [hx]
    rw [hpk.2] at h2 h3
    refine ⟨hpk.1.trans (h1.trans (e1 ▸ ha.1)), ?_, ?_⟩
    · rw [e1, ha.2]; exact Nat.le_trans h2 (Nat.add_le_add_left (Nat.le_max_left _ _) _)
    · rcases h3 with h3 | ⟨h3, h4⟩
      · exact .inl ⟨.inl (by rw [e2, h3]; rfl), by rw [e1, h3]; rfl⟩
      · refine .inr ?_
        rw [e1, ha.2, e2]
        simp only [lenCap] at hlen
        cases ht : x.trans with
        | spin b => show x.shared.com.len ≤ B + 1; omega
        | toState s' =>
          rw [ht] at h4
          cases s' with
          | selecting s'' => show x.shared.com.len ≤ B + 1; omega
          | entering => exact absurd h4 (by simp [StaysSel])
          | enteringSyllable => exact absurd h4 (by simp [StaysSel])
          | highlighting m => exact absurd h4 (by simp [StaysSel])
  · next m hs =>
    rw [hs] at hlen
    obtain ⟨⟨sh', m', t⟩, hr, hx⟩ := map_ok hd
    dsimp only at hx
    obtain ⟨h1, h2, h3⟩ := (highlighting_growth env m (preamble e.shared) ev).elim hr
    have ha := applyTrans_keep sh' (.highlighting m') t
    have e1 : sh = (applyTrans sh' (.highlighting m') t).1 := by rw [hx]
    have e2 : st = (applyTrans sh' (.highlighting m') t).2 := by rw [hx]
    rw [hpk.2] at h2
    dsimp only at h1 h2 h3
    refine ⟨hpk.1.trans (h1.trans (e1 ▸ ha.1)), ?_, ?_⟩
    · rw [e1, ha.2, h2]; exact Nat.le_add_right _ _
    · rcases h3 with rfl | ⟨b, rfl⟩
      · exact .inl ⟨.inl (by rw [e2]; rfl), by rw [e1]; rfl⟩
      · refine .inr ?_
        rw [e1, ha.2, e2, h2]
        exact hlen

/-- the auto-commit / flush tail of a key or a `select` call -/
theorem tail_within {B K : Nat} {sh0 sh sh2 : Shared D L} {st : St} (hc : Cfg B K sh0) (hk : Keep sh0 sh)
    (hcase : ((st = .entering ∨ st = .enteringSyllable) ∧ sh.last = .absorb) ∨ sh.com.len ≤ lenCap B st) (hac : ACBound env sh)
    (h : (if (st == .entering || st == .enteringSyllable) && sh.last == .absorb then Shared.tryAutoCommit env sh else .ok sh) = .ok sh2) :
    Cfg B K sh2 ∧ sh2.com.len ≤ lenCap B st := by
  have hc1 : Cfg B K sh := hc.keep hk
  split at h
  · next hcond =>
    obtain ⟨hk2, _⟩ := (tryAutoCommit_keep env sh).elim h
    refine ⟨hc1.keep hk2, ?_⟩
    have := hac sh2 h
    exact Nat.le_trans this (Nat.le_trans hc1.thr (le_lenCap B st))
  · next hcond =>
    cases h
    refine ⟨hc1, ?_⟩
    rcases hcase with ⟨h1, h2⟩ | h1
    · exact absurd (by rw [h2]; rcases h1 with h1 | h1 <;> rw [h1] <;> rfl) hcond
    · exact h1

/-- **keys, in every state** -/
theorem within_key {B K : Nat} {e e' : Editor D L} (hw : Within B K e) {ev : KeyEvent} {b : KB}
    (hac : ∀ sh, Mid env e (.key ev) sh → ACBound env sh) (h : e.processKey env ev = .ok (e', b)) :
    Within B K e' := by
  obtain ⟨sh, st, hd, h2⟩ := processKey_split env h
  obtain ⟨hk, _, hcase⟩ := dispatch_growth env hw hd
  obtain ⟨hst, _, sh2, h3, h4⟩ := tail_spec env h2
  obtain ⟨c1, c2⟩ := tail_within env hw.cfg hk hcase (hac sh ⟨st, hd⟩) h3
  have e1 : Keep sh2 e'.shared ∧ e'.shared.com = sh2.com := by
    rw [h4]; split <;> exact ⟨⟨rfl, rfl, rfl, rfl⟩, rfl⟩
  exact ⟨c1.keep e1.1, by rw [e1.2, hst]; exact c2⟩


/-! ## the other public operations -/

/-- no candidate list is open over a buffer beyond `B` (the simple engine's one-word list over a full buffer is
    the one case where it is) -/
def Quiet (B : Nat) (e : Editor D L) : Prop := ∀ s, e.state = .selecting s → e.shared.com.len ≤ B

/-- the side conditions of the operations: new options stay within `B` and exact lookup; the calls that can close a
    candidate list without an auto-commit (`cancel_selecting`; the `revalidate_selecting` of the option / layout /
    learn / unlearn calls) are not made over the over-full one-word list -/
def SafeOp (B : Nat) (e : Editor D L) : Op L → Prop
  | .setOptions o => o.autoCommitThreshold ≤ B ∧ Quiet B e
  | .cancelSelecting => Quiet B e
  | .setLayout _ => Quiet B e
  | .learn _ _ => Quiet B e
  | .unlearn _ _ => Quiet B e
  | _ => True

theorem within_of_state {B K : Nat} {sh : Shared D L} {st : St} (hc : Cfg B K sh) (hl : sh.com.len ≤ B) :
    Within B K { shared := sh, state := st } :=
  ⟨hc, Nat.le_trans hl (le_lenCap B st)⟩

theorem leaveIfEmpty_within {B K : Nat} {e : Editor D L} (hw : Within B K e) : Within B K (Editor.leaveIfEmpty env e) := by
  unfold Editor.leaveIfEmpty
  split
  · next hc =>
    have hs : e.state = .enteringSyllable := by
      have := (Bool.and_eq_true _ _).mp hc
      exact eq_of_beq this.2
    have hl := hw.len
    rw [hs] at hl
    exact ⟨hw.cfg, hl⟩
  · exact hw

theorem leaveIfEmpty_shared (e : Editor D L) : (Editor.leaveIfEmpty env e).shared = e.shared := by
  unfold Editor.leaveIfEmpty; split <;> rfl

theorem leaveIfEmpty_sel {e : Editor D L} {s : Selecting} (h : (Editor.leaveIfEmpty env e).state = .selecting s) :
    e.state = .selecting s := by
  unfold Editor.leaveIfEmpty at h
  split at h
  · cases h
  · exact h

theorem revalidate_within {B K : Nat} {e e' : Editor D L} (hw : Within B K e) (hq : Quiet B e)
    (h : e.revalidate env = .ok e') : Within B K e' := by
  rcases revalidate_cases env h with rfl | ⟨s, tp, hs, _, _, _, rfl⟩ | ⟨s, hs, _, rfl⟩
  · exact hw
  · have hl := hw.len
    rw [hs] at hl
    exact ⟨hw.cfg, hl⟩
  · refine ⟨hw.cfg.keep ⟨rfl, rfl, rfl, rfl⟩, ?_⟩
    show e.shared.com.popCursor.len ≤ B
    rw [popCursor_len]
    exact hq s hs

/-- `Editor::select(n)` -/
theorem within_select {B K : Nat} {e e' : Editor D L} (hw : Within B K e) {n : Nat} {b : Bool}
    (hac : ∀ sh, Mid env e (.select n) sh → ACBound env sh) (h : e.select env n = .ok (e', b)) : Within B K e' := by
  unfold Editor.select at h
  split at h
  · next s hs =>
    split at h
    · next s' sh0 t hq =>
      obtain ⟨h1, h2, h3⟩ := (select_growth env s e.shared n).elim hq
      dsimp only at h1 h2 h3
      have ha := applyTrans_keep sh0 (.selecting s') t
      have hm : Mid env e (.select n) (applyTrans sh0 (.selecting s') t).1 := ⟨s, s', sh0, t, hs, hq, rfl⟩
      have hlen := hw.len
      rw [hs] at hlen
      simp only [lenCap] at hlen
      have hcase : (((applyTrans sh0 (.selecting s') t).2 = .entering ∨ (applyTrans sh0 (.selecting s') t).2 = .enteringSyllable) ∧
            (applyTrans sh0 (.selecting s') t).1.last = .absorb) ∨
          (applyTrans sh0 (.selecting s') t).1.com.len ≤ lenCap B (applyTrans sh0 (.selecting s') t).2 := by
        rcases h3 with rfl | ⟨h3, h4⟩
        · exact .inl ⟨.inl rfl, rfl⟩
        · refine .inr ?_
          rw [ha.2]
          cases t with
          | spin b => show sh0.com.len ≤ B + 1; omega
          | toState s'' =>
            cases s'' with
            | selecting x => show sh0.com.len ≤ B + 1; omega
            | entering => exact absurd h4 (by simp [StaysSel])
            | enteringSyllable => exact absurd h4 (by simp [StaysSel])
            | highlighting m => exact absurd h4 (by simp [StaysSel])
      dsimp only at h
      split at h
      · next sh2 hr =>
        injection h with h; injection h with h5 h6
        obtain ⟨c1, c2⟩ := tail_within env hw.cfg (h1.trans ha.1) hcase (hac _ hm) hr
        rw [← h5]
        exact ⟨c1, c2⟩
      · cases h
      · cases h
    · cases h
    · cases h
  · injection h with h; injection h with h1 h2
    rw [← h1]; exact hw

/-- `Editor::start_selecting` -/
theorem within_startSelecting {B K : Nat} {e e' : Editor D L} (hw : Within B K e) {b : Bool}
    (h : e.startSelecting env = .ok (e', b)) : Within B K e' := by
  unfold Editor.startSelecting at h
  dsimp only at h
  split at h
  · next sh t hr =>
    injection h with h; injection h with h1 h2
    rw [← h1]
    apply leaveIfEmpty_within
    have ha := applyTrans_keep sh e.state t
    have hlen := hw.len
    split at hr
    · next hs =>
      obtain ⟨g1, g2, _⟩ := gstep_startSelecting env (K := 0) e.shared sh t hr
      rw [hs] at hlen
      refine ⟨hw.cfg.keep (g1.trans ha.1), ?_⟩
      show (applyTrans sh e.state t).1.com.len ≤ lenCap B (applyTrans sh e.state t).2
      rw [ha.2]
      simp only [lenCap] at hlen
      exact Nat.le_trans (by omega) (le_lenCap B _)
    · next hs =>
      obtain ⟨g1, g2, _⟩ := gstep_startSelecting env (K := 0) { e.shared with syl := env.clearSyl e.shared.syl } sh t hr
      rw [hs] at hlen
      refine ⟨hw.cfg.keep (Keep.trans ⟨rfl, rfl, rfl, rfl⟩ (g1.trans ha.1)), ?_⟩
      show (applyTrans sh e.state t).1.com.len ≤ lenCap B (applyTrans sh e.state t).2
      rw [ha.2]
      simp only [lenCap] at hlen
      have g2' : sh.com.len ≤ e.shared.com.len + 0 := g2
      exact Nat.le_trans (by omega) (le_lenCap B _)
    · injection hr with hr; injection hr with h3 h4
      subst h3 h4
      exact ⟨hw.cfg.keep ⟨rfl, rfl, rfl, rfl⟩, hlen⟩
  · cases h
  · cases h

/-- the `jump_to_*_selection_point` calls -/
theorem within_jump {B K : Nat} {e e' : Editor D L} (hw : Within B K e) {which : Nat} {b : Bool}
    (h : e.jump env which = .ok (e', b)) : Within B K e' := by
  have key : e'.shared = e.shared ∧ (e'.state = e.state ∨ ∃ s s', e.state = .selecting s ∧ e'.state = .selecting s') := by
    unfold Editor.jump at h
    repeat' (first | split at h | (dsimp only at h; split at h))
    all_goals first
      | (injection h with h; injection h with h1 h2; subst h1
         first
          | exact ⟨rfl, .inl rfl⟩
          | exact ⟨rfl, .inr ⟨_, _, ‹_›, rfl⟩⟩)
      | cases h
  obtain ⟨h1, h2⟩ := key
  have hlen := hw.len
  refine ⟨by rw [h1]; exact hw.cfg, ?_⟩
  rw [h1]
  rcases h2 with h2 | ⟨s, s', hs, hs'⟩
  · rw [h2]; exact hlen
  · rw [hs] at hlen; rw [hs']; exact hlen

/-- **every public operation keeps the invariant** — under the side conditions `SafeOp`, with the auto-commit's
    own bound at the state(s) it runs in -/
theorem within_apply {B K : Nat} {e e' : Editor D L} (hw : Within B K e) (op : Op L)
    (hs : SafeOp B e op) (hac : ∀ sh, Mid env e op sh → ACBound env sh) (h : e.apply env op = .ok e') :
    Within B K e' := by
  cases op with
  | key ev =>
    simp only [Editor.apply] at h
    obtain ⟨⟨e1, b⟩, h1, h2⟩ := map_ok h
    subst h2
    exact within_key env hw hac h1
  | select n =>
    simp only [Editor.apply] at h
    obtain ⟨⟨e1, b⟩, h1, h2⟩ := map_ok h
    subst h2
    exact within_select env hw hac h1
  | startSelecting =>
    simp only [Editor.apply] at h
    obtain ⟨⟨e1, b⟩, h1, h2⟩ := map_ok h
    subst h2
    exact within_startSelecting env hw h1
  | cancelSelecting =>
    simp only [Editor.apply] at h
    injection h with h; subst h
    unfold Editor.cancelSelecting
    split
    · next s hst =>
      refine ⟨hw.cfg.keep ⟨rfl, rfl, rfl, rfl⟩, ?_⟩
      show e.shared.com.popCursor.len ≤ B
      rw [popCursor_len]
      exact hs s hst
    · exact hw
  | commit =>
    simp only [Editor.apply] at h
    obtain ⟨⟨e1, b⟩, h1, h2⟩ := map_ok h
    subst h2
    unfold Editor.commit at h1
    split at h1
    · injection h1 with h1; injection h1 with h3 h4; rw [← h3]; exact hw
    · split at h1
      · next sh hq =>
        injection h1 with h1; injection h1 with h3 h4
        obtain ⟨hk, hc⟩ := (commit_keep env e.shared).elim hq
        rw [← h3]
        refine ⟨hw.cfg.keep hk, ?_⟩
        show sh.com.len ≤ _
        rw [hc, clear_len]; exact Nat.zero_le _
      · cases h1
      · cases h1
  | clear =>
    simp only [Editor.apply] at h
    injection h with h; subst h
    refine ⟨hw.cfg.keep ⟨rfl, rfl, rfl, rfl⟩, ?_⟩
    show e.shared.com.clear.len ≤ _
    rw [clear_len]; exact Nat.zero_le _
  | ack =>
    simp only [Editor.apply] at h
    injection h with h; subst h
    exact ⟨hw.cfg.keep ⟨rfl, rfl, rfl, rfl⟩, hw.len⟩
  | clearSyl =>
    simp only [Editor.apply] at h
    injection h with h; subst h
    exact leaveIfEmpty_within env ⟨hw.cfg.keep ⟨rfl, rfl, rfl, rfl⟩, hw.len⟩
  | setOptions o =>
    simp only [Editor.apply] at h
    obtain ⟨h1, h3⟩ := hs
    have hw1 : Within B K (e.setOptions env o) := by
      unfold Editor.setOptions
      dsimp only
      apply leaveIfEmpty_within
      split
      · exact ⟨⟨h1, hw.cfg.abbr⟩, hw.len⟩
      · exact ⟨⟨h1, hw.cfg.abbr⟩, hw.len⟩
    have hq1 : Quiet B (e.setOptions env o) := by
      intro s hst
      have e1 : (e.setOptions env o).shared.com = e.shared.com := by
        unfold Editor.setOptions
        dsimp only
        rw [leaveIfEmpty_shared]
        split <;> rfl
      have e2 : e.state = .selecting s := by
        unfold Editor.setOptions at hst
        dsimp only at hst
        have h' := leaveIfEmpty_sel env hst
        exact h'
      rw [e1]; exact h3 s e2
    exact revalidate_within env hw1 hq1 h
  | setLayout l =>
    simp only [Editor.apply] at h
    have hw1 : Within B K (e.setLayout env l) := by
      unfold Editor.setLayout
      exact leaveIfEmpty_within env ⟨hw.cfg.keep ⟨rfl, rfl, rfl, rfl⟩, hw.len⟩
    have hq1 : Quiet B (e.setLayout env l) := by
      intro s hst
      have e1 : (e.setLayout env l).shared.com = e.shared.com := by
        unfold Editor.setLayout
        rw [leaveIfEmpty_shared]
      have e2 : e.state = .selecting s := by
        unfold Editor.setLayout at hst
        have h' := leaveIfEmpty_sel env hst
        exact h'
      rw [e1]; exact hs s e2
    exact revalidate_within env hw1 hq1 h
  | setEngine k =>
    simp only [Editor.apply] at h
    injection h with h; subst h
    exact ⟨hw.cfg.keep ⟨rfl, rfl, rfl, rfl⟩, hw.len⟩
  | learn k p =>
    simp only [Editor.apply] at h
    split at h
    · next sh b hq =>
      obtain ⟨hk, hc⟩ := keep_learnFrame ((C02.learnPhrase_frame env e.shared k p).elim hq)
      refine revalidate_within env (e := { e with shared := sh }) ⟨hw.cfg.keep hk, ?_⟩ ?_ h
      · show sh.com.len ≤ lenCap B e.state
        rw [hc]; exact hw.len
      · intro s hst
        show sh.com.len ≤ B
        rw [hc]; exact hs s hst
    · cases h
    · cases h
  | unlearn k p =>
    simp only [Editor.apply] at h
    exact revalidate_within env (e := { e with shared := Shared.unlearnPhrase env e.shared k p })
      ⟨hw.cfg.keep ⟨rfl, rfl, rfl, rfl⟩, hw.len⟩ (fun s hst => hs s hst) h
  | jump which =>
    simp only [Editor.apply] at h
    obtain ⟨⟨e1, b⟩, h1, h2⟩ := map_ok h
    subst h2
    exact within_jump env hw h1

/-- **the states inside a step**: where the auto-commit converts, the buffer holds at most `B + max 2 K` symbols
    (and the configuration is the pre-state's) -/
theorem mid_len {B K : Nat} {e : Editor D L} (hw : Within B K e) {op : Op L} {sh : Shared D L}
    (hm : Mid env e op sh) : Cfg B K sh ∧ sh.com.len ≤ B + max 2 K := by
  have hlen := Nat.le_trans hw.len (lenCap_le B e.state)
  cases op with
  | key ev =>
    obtain ⟨st, hd⟩ := hm
    obtain ⟨hk, hl, hcase⟩ := dispatch_growth env hw hd
    refine ⟨hw.cfg.keep hk, ?_⟩
    rcases hcase with ⟨hst, _⟩ | hcase
    · -- ends in `Entering`: only `Entering` itself adds more than one symbol, and there `len ≤ B`
      by_cases hs : e.state = .entering
      · have := hw.len; rw [hs] at this; simp only [lenCap] at this; omega
      · -- from the other states at most one symbol is added
        have h1 : sh.com.len ≤ e.shared.com.len + 1 := by
          unfold dispatch at hd
          split at hd
          · next h => exact absurd h hs
          · obtain ⟨⟨sh', t⟩, hr, hx⟩ := map_ok hd
            dsimp only at hx
            obtain ⟨_, h2, _⟩ := sstep_enteringSyllableNext env (preamble e.shared) ev sh' t hr
            have ha := applyTrans_keep sh' .enteringSyllable t
            have e1 : sh = (applyTrans sh' .enteringSyllable t).1 := by rw [hx]
            rw [e1, ha.2]; exact h2
          · next s _ =>
            obtain ⟨x, hr, hx⟩ := map_ok hd
            obtain ⟨_, h2, _⟩ := selstep_selectingNext env s (preamble e.shared) ev x hr
            have ha := applyTrans_keep x.shared (.selecting x.sel) x.trans
            have e1 : sh = (applyTrans x.shared (.selecting x.sel) x.trans).1 := by rw [hx]
            rw [e1, ha.2]; exact h2
          · next m _ =>
            obtain ⟨⟨sh', m', t⟩, hr, hx⟩ := map_ok hd
            dsimp only at hx
            obtain ⟨_, h2, _⟩ := (highlighting_growth env m (preamble e.shared) ev).elim hr
            have ha := applyTrans_keep sh' (.highlighting m') t
            have e1 : sh = (applyTrans sh' (.highlighting m') t).1 := by rw [hx]
            rw [e1, ha.2]
            dsimp only at h2
            rw [h2]; exact Nat.le_add_right _ _
        omega
    · have := lenCap_le B st; omega
  | select n =>
    obtain ⟨s, s', sh0, t, hs, hq, rfl⟩ := hm
    obtain ⟨h1, h2, _⟩ := (select_growth env s e.shared n).elim hq
    dsimp only at h1 h2
    have ha := applyTrans_keep sh0 (.selecting s') t
    refine ⟨hw.cfg.keep (h1.trans ha.1), ?_⟩
    rw [ha.2]; omega
  | startSelecting => exact hm.elim
  | cancelSelecting => exact hm.elim
  | commit => exact hm.elim
  | clear => exact hm.elim
  | ack => exact hm.elim
  | clearSyl => exact hm.elim
  | setOptions o => exact hm.elim
  | setLayout l => exact hm.elim
  | setEngine k => exact hm.elim
  | learn k p => exact hm.elim
  | unlearn k p => exact hm.elim
  | jump w => exact hm.elim

/-! ## histories -/

/-- the side conditions along a history -/
def SafeAlong (B : Nat) : Editor D L → List (Op L) → Prop
  | _, [] => True
  | e, op :: ops => SafeOp B e op ∧ ∀ e', e.apply env op = .ok e' → SafeAlong B e' ops

/-- the auto-commit's own bound at every state inside the history where it runs -/
def ACAlong : Editor D L → List (Op L) → Prop
  | _, [] => True
  | e, op :: ops => (∀ sh, Mid env e op sh → ACBound env sh) ∧ ∀ e', e.apply env op = .ok e' → ACAlong e' ops

/-- **`Within` along every history** -/
theorem within_run {B K : Nat} (ops : List (Op L)) :
    ∀ e e' : Editor D L, Within B K e → SafeAlong env B e ops → ACAlong env e ops → e.run env ops = .ok e' →
      Within B K e' := by
  induction ops with
  | nil => intro e e' hw _ _ h; simp only [Editor.run] at h; cases h; exact hw
  | cons op ops ih =>
    intro e e' hw hs ha h
    simp only [Editor.run] at h
    split at h
    · next e1 h1 =>
      exact ih e1 e' (within_apply env hw op hs.1 ha.1 h1) (hs.2 e1 h1) (ha.2 e1 h1) h
    · cases h
    · cases h

/-- a history of keys needs no side condition -/
theorem safeAlong_keys (B : Nat) (keys : List KeyEvent) : ∀ e : Editor D L, SafeAlong env B e (keys.map .key) := by
  induction keys with
  | nil => intro e; trivial
  | cons k ks ih => intro e; exact ⟨trivial, fun e' _ => ih e'⟩

end Chewing.Bound
