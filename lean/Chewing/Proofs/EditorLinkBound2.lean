import Chewing.Proofs.EditorLinkBound
import Chewing.Proofs.EditorLink
/-!
# The global buffer bound, linked to C01 (round 2, `linkH`)

`Proofs/EditorLinkBound.lean` keeps the invariant `Within` along a history given the auto-commit's own bound
(`ACBound`) at the states inside the steps.  Here that premise is discharged from C01: the states inside a step
satisfy the shared-state invariant (`mid_shInv`), there the conversion answer tiles the buffer
(`Link.tilingAt_of_shInv`, from `EnvOK.convert_ok` = C03), hence the auto-commit leaves at most `threshold`
symbols.  Result (`within_run_linked`): for every environment satisfying `EnvOK` (either lookup strategy, since the FX3 repair), from every state
satisfying C01's safety invariant and `Within`, every history of valid operations under `SafeAlong` RUNS (no panic)
and ends in a state satisfying both; and every conversion the editor asks for inside those steps is over at most
`B + max 2 K` symbols (`mid_len_linked`).
-/
namespace Chewing.Bound
open Chewing Chewing.C01 Chewing.C06

variable {D L : Type} {env : Env D L} {G : D → Prop} {w : Prop}

/-- the auto-commit's bound at a state satisfying C01's shared-state invariant -/
theorem acBound_of_shInv (hE : EnvOK env G) {sh : Shared D L} (h : ShInv env G w sh) : ACBound env sh := by
  intro sh2 h2
  obtain ⟨h1, h3, _⟩ := C05.tryAutoCommit_bound_at env (Link.tilingAt_of_shInv hE h) h2
  rw [← h3]; exact h1

/-- the states inside a step satisfy C01's shared-state invariant -/
theorem mid_shInv (hE : EnvOK env G) {e : Editor D L} (hi : EditorInv env G w e) {op : Op L} {sh : Shared D L}
    (hm : Mid env e op sh) : ShInv env G w sh := by
  cases op with
  | key ev =>
    obtain ⟨st, hd⟩ := hm
    exact Link.dispatch_shInv hE hi ev hd
  | select n =>
    obtain ⟨s, s', sh0, t, hs, hq, rfl⟩ := hm
    have hsi : SelInv env w e.shared s := by have := hi.st; rw [hs] at this; exact this
    obtain ⟨x, hq', h1, _, _⟩ := select_ok hE hi.sh hsi n
    rw [hq] at hq'
    injection hq' with hq'
    subst hq'
    exact Link.applyTrans_shInv h1 _ _
  | startSelecting => exact hm.elim
  | cancelSelecting => exact hm.elim
  | commit => exact hm.elim
  | clear => exact hm.elim
  | ack => exact hm.elim
  | clearSyl => exact hm.elim
  | setOptions o => exact hm.elim
  | setLayout l => exact hm.elim
  | setEngine k => exact hm.elim
  | learn k p => exact hm.elim
  | unlearn k p => exact hm.elim
  | jump wh => exact hm.elim

/-- **one operation, no premise on the conversion**: it returns, C01's invariant and `Within` hold afterwards -/
theorem within_apply_linked {B K : Nat} (hE : EnvOK env G) {e : Editor D L}
    (hi : EditorInv env G w e) (hw : Within B K e) (op : Op L) (hv : OpValid op) (hk : w → ¬ Known env e op)
    (hs : SafeOp B e op) : ∃ e', e.apply env op = .ok e' ∧ EditorInv env G w e' ∧ Within B K e' := by
  obtain ⟨e', h, hi'⟩ := apply_ok hE hi op hv hk
  exact ⟨e', h, hi', within_apply env hw op hs (fun sh hm => acBound_of_shInv hE (mid_shInv hE hi hm)) h⟩

/-- **every history**: valid operations (C01's `OpValid`), side conditions `SafeAlong` — the run returns and both
    invariants hold at the end (strength `False` of C01's invariant: no exclusion of a known class) -/
theorem within_run_linked {B K : Nat} (hE : EnvOK env G) (ops : List (Op L)) :
    ∀ e : Editor D L, SafeInv env G e → Within B K e → (∀ op ∈ ops, OpValid op) → SafeAlong env B e ops →
      ∃ e', e.run env ops = .ok e' ∧ SafeInv env G e' ∧ Within B K e' := by
  induction ops with
  | nil => intro e hi hw _ _; exact ⟨e, rfl, hi, hw⟩
  | cons op ops ih =>
    intro e hi hw hv hs
    obtain ⟨e1, h1, hi1, hw1⟩ := within_apply_linked hE hi hw op (hv op (List.mem_cons_self ..))
      (fun hf => hf.elim) hs.1
    obtain ⟨e2, h2, hi2, hw2⟩ := ih e1 hi1 hw1 (fun o ho => hv o (List.mem_cons_of_mem _ ho)) (hs.2 e1 h1)
    exact ⟨e2, by simp only [Editor.run]; rw [h1]; exact h2, hi2, hw2⟩

/-- **every conversion asked for inside a step is short**: at most `B + max 2 K` symbols -/
theorem mid_len_linked {B K : Nat} {e : Editor D L} (hw : Within B K e) {op : Op L}
    {sh : Shared D L} (hm : Mid env e op sh) : sh.com.inner.symbols.length ≤ B + max 2 K :=
  (mid_len env hw hm).2

end Chewing.Bound
