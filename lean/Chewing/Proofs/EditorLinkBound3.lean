import Chewing.Proofs.EditorLinkBound2
/-!
# The buffer bound with the threshold as the only side condition

Since the auto-commit runs in the tail of a key / of `select` in BOTH editing states (`Entering`,
`EnteringSyllable`), a slightly different invariant needs a weaker side condition than `SafeOp`:

* `Within1 B K e`: configuration within `B` / `K`, and `len ≤ B` while a syllable is being entered, `len ≤ B + 1` in
  the three other kinds of state;
* `within1_apply`: every operation keeps `Within1`; the only side condition is that new options keep the threshold
  within `B` (`ThrOp`) — no `Quiet`: closing a candidate list goes to `Entering`, whose bound is `B + 1` too;
* `within1_apply_linked` / `within1_run_linked`: the auto-commit's own bound discharged from C01's invariant.
-/
namespace Chewing.Bound

section invariant
open Chewing Chewing.C06 Chewing.C05

variable {D L : Type} (env : Env D L)

/-- B while a syllable is being entered, B + 1 in the three other kinds of state -/
def cap1 (B : Nat) : St → Nat
  | .enteringSyllable => B
  | _ => B + 1

theorem le_cap1 (B : Nat) (st : St) : B ≤ cap1 B st := by
  cases st <;> simp [cap1]

theorem cap1_le (B : Nat) (st : St) : cap1 B st ≤ B + 1 := by
  cases st <;> simp [cap1]

structure Within1 (B K : Nat) (e : Editor D L) : Prop where
  cfg : Cfg B K e.shared
  len : e.shared.com.len ≤ cap1 B e.state

/-- the only side condition left: new options keep the threshold within B -/
def ThrOp (B : Nat) : Op L → Prop
  | .setOptions o => o.autoCommitThreshold ≤ B
  | _ => True

/-- **the state machine's part of a key, all four states**: the configuration is kept, and either the auto-commit
    follows (an editing state, *absorb*) or the buffer is within the bound of the new state -/
theorem dispatch_growth1 {B K : Nat} {e : Editor D L} (hw : Within1 B K e) {ev : KeyEvent}
    {sh : Shared D L} {st : St} (hd : dispatch env e ev = .ok (sh, st)) :
    Keep e.shared sh ∧
    (((st = .entering ∨ st = .enteringSyllable) ∧ sh.last = .absorb) ∨ sh.com.len ≤ cap1 B st) := by
  have hpk := preamble_keep e.shared
  have hcfg : Cfg B K (preamble e.shared) := hw.cfg.keep hpk.1
  have hlen := hw.len
  unfold dispatch at hd
  split at hd
  · next hs =>
    rw [hs] at hlen
    simp only [cap1] at hlen
    obtain ⟨⟨sh', t⟩, hr, hx⟩ := map_ok hd
    dsimp only at hx
    obtain ⟨h1, h2, h3⟩ := gstep_enteringNext env (K := max 1 K) (Nat.le_max_left _ _) (preamble e.shared)
      (fun p hp => Nat.le_trans (hcfg.abbr p hp) (Nat.le_max_right _ _)) ev sh' t hr
    have ha := applyTrans_keep sh' .entering t
    have e1 : sh = (applyTrans sh' .entering t).1 := by rw [hx]
    have e2 : st = (applyTrans sh' .entering t).2 := by rw [hx]
    rw [hpk.2] at h2 h3
    refine ⟨hpk.1.trans (h1.trans (e1 ▸ ha.1)), ?_⟩
    rcases h3 with rfl | h3
    · exact .inl ⟨.inl (by rw [e2]; rfl), by rw [e1]; rfl⟩
    · cases t with
      | spin b =>
        refine .inr ?_
        rw [e1, ha.2, e2]
        show sh'.com.len ≤ B + 1
        omega
      | toState s =>
        have hl : sh.last = .absorb := by rw [e1]; rfl
        have hst : st = s := by rw [e2]; rfl
        cases s with
        | entering => exact .inl ⟨.inl hst, hl⟩
        | enteringSyllable => exact .inl ⟨.inr hst, hl⟩
        | selecting s'' =>
          refine .inr ?_
          rw [e1, ha.2, hst]
          show sh'.com.len ≤ B + 1
          omega
        | highlighting m =>
          refine .inr ?_
          rw [e1, ha.2, hst]
          show sh'.com.len ≤ B + 1
          omega
  · next hs =>
    rw [hs] at hlen
    simp only [cap1] at hlen
    obtain ⟨⟨sh', t⟩, hr, hx⟩ := map_ok hd
    dsimp only at hx
    obtain ⟨h1, h2, h3⟩ := sstep_enteringSyllableNext env (preamble e.shared) ev sh' t hr
    have ha := applyTrans_keep sh' .enteringSyllable t
    have e1 : sh = (applyTrans sh' .enteringSyllable t).1 := by rw [hx]
    have e2 : st = (applyTrans sh' .enteringSyllable t).2 := by rw [hx]
    rw [hpk.2] at h2 h3
    refine ⟨hpk.1.trans (h1.trans (e1 ▸ ha.1)), ?_⟩
    rcases h3 with ⟨s, rfl⟩ | rfl | rfl | ⟨h3, h4⟩
    · refine .inr ?_
      rw [e1, ha.2, e2]
      show sh'.com.len ≤ B + 1
      omega
    · exact .inl ⟨.inl (by rw [e2]; rfl), by rw [e1]; rfl⟩
    · exact .inl ⟨.inr (by rw [e2]; rfl), by rw [e1]; rfl⟩
    · cases t with
      | spin b =>
        refine .inr ?_
        rw [e1, ha.2, e2]
        show sh'.com.len ≤ B
        omega
      | toState s =>
        rcases h4 s with h5 | rfl
        · exact absurd rfl h5
        · exact .inl ⟨.inl (by rw [e2]; rfl), by rw [e1]; rfl⟩
  · next s hs =>
    rw [hs] at hlen
    simp only [cap1] at hlen
    obtain ⟨x, hr, hx⟩ := map_ok hd
    obtain ⟨h1, h2, h3⟩ := selstep_selectingNext env s (preamble e.shared) ev x hr
    have ha := applyTrans_keep x.shared (.selecting x.sel) x.trans
    have e1 : sh = (applyTrans x.shared (.selecting x.sel) x.trans).1 := by rw [hx]
    have e2 : st = (applyTrans x.shared (.selecting x.sel) x.trans).2 := by rw [hx]
    rw [hpk.2] at h2 h3
    refine ⟨hpk.1.trans (h1.trans (e1 ▸ ha.1)), ?_⟩
    rcases h3 with h3 | ⟨h3, h4⟩
    · exact .inl ⟨.inl (by rw [e2, h3]; rfl), by rw [e1, h3]; rfl⟩
    · refine .inr ?_
      rw [e1, ha.2, e2]
      cases ht : x.trans with
      | spin b => show x.shared.com.len ≤ B + 1; omega
      | toState s' =>
        rw [ht] at h4
        cases s' with
        | selecting s'' => show x.shared.com.len ≤ B + 1; omega
        | entering => exact absurd h4 (by simp [StaysSel])
        | enteringSyllable => exact absurd h4 (by simp [StaysSel])
        | highlighting m => exact absurd h4 (by simp [StaysSel])
  · next m hs =>
    rw [hs] at hlen
    simp only [cap1] at hlen
    obtain ⟨⟨sh', m', t⟩, hr, hx⟩ := map_ok hd
    dsimp only at hx
    obtain ⟨h1, h2, h3⟩ := (highlighting_growth env m (preamble e.shared) ev).elim hr
    have ha := applyTrans_keep sh' (.highlighting m') t
    have e1 : sh = (applyTrans sh' (.highlighting m') t).1 := by rw [hx]
    have e2 : st = (applyTrans sh' (.highlighting m') t).2 := by rw [hx]
    rw [hpk.2] at h2
    dsimp only at h1 h2 h3
    refine ⟨hpk.1.trans (h1.trans (e1 ▸ ha.1)), ?_⟩
    rcases h3 with rfl | ⟨b, rfl⟩
    · exact .inl ⟨.inl (by rw [e2]; rfl), by rw [e1]; rfl⟩
    · refine .inr ?_
      rw [e1, ha.2, e2, h2]
      show e.shared.com.len ≤ B + 1
      exact hlen

/-- the auto-commit / flush tail of a key or a `select` call -/
theorem tail_within1 {B K : Nat} {sh0 sh sh2 : Shared D L} {st : St} (hc : Cfg B K sh0) (hk : Keep sh0 sh)
    (hcase : ((st = .entering ∨ st = .enteringSyllable) ∧ sh.last = .absorb) ∨ sh.com.len ≤ cap1 B st)
    (hac : ACBound env sh)
    (h : (if (st == .entering || st == .enteringSyllable) && sh.last == .absorb then Shared.tryAutoCommit env sh
          else .ok sh) = .ok sh2) :
    Cfg B K sh2 ∧ sh2.com.len ≤ cap1 B st := by
  have hc1 : Cfg B K sh := hc.keep hk
  split at h
  · next hcond =>
    obtain ⟨hk2, _⟩ := (tryAutoCommit_keep env sh).elim h
    refine ⟨hc1.keep hk2, ?_⟩
    have := hac sh2 h
    exact Nat.le_trans this (Nat.le_trans hc1.thr (le_cap1 B st))
  · next hcond =>
    cases h
    refine ⟨hc1, ?_⟩
    rcases hcase with ⟨h1, h2⟩ | h1
    · exact absurd (by rw [h2]; rcases h1 with h1 | h1 <;> rw [h1] <;> rfl) hcond
    · exact h1

/-- **keys, in every state** -/
theorem within1_key {B K : Nat} {e e' : Editor D L} (hw : Within1 B K e) {ev : KeyEvent} {b : KB}
    (hac : ∀ sh, Mid env e (.key ev) sh → ACBound env sh) (h : e.processKey env ev = .ok (e', b)) :
    Within1 B K e' := by
  obtain ⟨sh, st, hd, h2⟩ := processKey_split env h
  obtain ⟨hk, hcase⟩ := dispatch_growth1 env hw hd
  obtain ⟨hst, _, sh2, h3, h4⟩ := tail_spec env h2
  obtain ⟨c1, c2⟩ := tail_within1 env hw.cfg hk hcase (hac sh ⟨st, hd⟩) h3
  have e1 : Keep sh2 e'.shared ∧ e'.shared.com = sh2.com := by
    rw [h4]; split <;> exact ⟨⟨rfl, rfl, rfl, rfl⟩, rfl⟩
  exact ⟨c1.keep e1.1, by rw [e1.2, hst]; exact c2⟩

/-! ## the other public operations -/

theorem leaveIfEmpty_within1 {B K : Nat} {e : Editor D L} (hw : Within1 B K e) :
    Within1 B K (Editor.leaveIfEmpty env e) := by
  unfold Editor.leaveIfEmpty
  split
  · next hc =>
    have hs : e.state = .enteringSyllable := by
      have := (Bool.and_eq_true _ _).mp hc
      exact eq_of_beq this.2
    have hl := hw.len
    rw [hs] at hl
    simp only [cap1] at hl
    refine ⟨hw.cfg, ?_⟩
    show e.shared.com.len ≤ B + 1
    omega
  · exact hw

/-- `revalidate_selecting`: no side condition — a list that is closed goes to `Entering`, whose bound is the
    one of `Selecting` -/
theorem revalidate_within1 {B K : Nat} {e e' : Editor D L} (hw : Within1 B K e)
    (h : e.revalidate env = .ok e') : Within1 B K e' := by
  rcases revalidate_cases env h with rfl | ⟨s, tp, hs, _, _, _, rfl⟩ | ⟨s, hs, _, rfl⟩
  · exact hw
  · have hl := hw.len
    rw [hs] at hl
    exact ⟨hw.cfg, hl⟩
  · refine ⟨hw.cfg.keep ⟨rfl, rfl, rfl, rfl⟩, ?_⟩
    have hl := hw.len
    rw [hs] at hl
    simp only [cap1] at hl
    show e.shared.com.popCursor.len ≤ B + 1
    rw [popCursor_len]
    exact hl

/-- `Editor::select(n)` -/
theorem within1_select {B K : Nat} {e e' : Editor D L} (hw : Within1 B K e) {n : Nat} {b : Bool}
    (hac : ∀ sh, Mid env e (.select n) sh → ACBound env sh) (h : e.select env n = .ok (e', b)) :
    Within1 B K e' := by
  unfold Editor.select at h
  split at h
  · next s hs =>
    split at h
    · next s' sh0 t hq =>
      obtain ⟨h1, h2, h3⟩ := (select_growth env s e.shared n).elim hq
      dsimp only at h1 h2 h3
      have ha := applyTrans_keep sh0 (.selecting s') t
      have hm : Mid env e (.select n) (applyTrans sh0 (.selecting s') t).1 := ⟨s, s', sh0, t, hs, hq, rfl⟩
      have hlen := hw.len
      rw [hs] at hlen
      simp only [cap1] at hlen
      have hcase : (((applyTrans sh0 (.selecting s') t).2 = .entering ∨
              (applyTrans sh0 (.selecting s') t).2 = .enteringSyllable) ∧
            (applyTrans sh0 (.selecting s') t).1.last = .absorb) ∨
          (applyTrans sh0 (.selecting s') t).1.com.len ≤ cap1 B (applyTrans sh0 (.selecting s') t).2 := by
        rcases h3 with rfl | ⟨h3, h4⟩
        · exact .inl ⟨.inl rfl, rfl⟩
        · refine .inr ?_
          rw [ha.2]
          cases t with
          | spin b => show sh0.com.len ≤ B + 1; omega
          | toState s'' =>
            cases s'' with
            | selecting x => show sh0.com.len ≤ B + 1; omega
            | entering => exact absurd h4 (by simp [StaysSel])
            | enteringSyllable => exact absurd h4 (by simp [StaysSel])
            | highlighting m => exact absurd h4 (by simp [StaysSel])
      dsimp only at h
      split at h
      · next sh2 hr =>
        injection h with h; injection h with h5 h6
        obtain ⟨c1, c2⟩ := tail_within1 env hw.cfg (h1.trans ha.1) hcase (hac _ hm) hr
        rw [← h5]
        exact ⟨c1, c2⟩
      · cases h
      · cases h
    · cases h
    · cases h
  · injection h with h; injection h with h1 h2
    rw [← h1]; exact hw

/-- `Entering::start_selecting` opens a list or stays -/
theorem startSelecting_trans {sh sh' : Shared D L} {t : Trans} (h : startSelecting env sh = .ok (sh', t)) :
    (∃ s, t = .toState (.selecting s)) ∨ ∃ b, t = .spin b := by
  unfold startSelecting at h
  split at h
  · split at h
    · rcases openPhrase_cases env h with ⟨_, hs⟩ | ⟨ht, _⟩
      · exact .inl hs
      · exact .inr ⟨_, ht⟩
    · rcases openSpecialSymbol_cases env h with ⟨_, hs⟩ | ⟨ht, _⟩
      · exact .inl hs
      · exact .inr ⟨_, ht⟩
  · injection h with h; injection h with h1 h2
    exact .inr ⟨_, h2.symm⟩

/-- `Editor::start_selecting` -/
theorem within1_startSelecting {B K : Nat} {e e' : Editor D L} (hw : Within1 B K e) {b : Bool}
    (h : e.startSelecting env = .ok (e', b)) : Within1 B K e' := by
  unfold Editor.startSelecting at h
  dsimp only at h
  split at h
  · next sh t hr =>
    injection h with h; injection h with h1 h2
    rw [← h1]
    apply leaveIfEmpty_within1
    have ha := applyTrans_keep sh e.state t
    have hlen := hw.len
    split at hr
    · next hs =>
      obtain ⟨g1, g2, _⟩ := gstep_startSelecting env (K := 0) e.shared sh t hr
      have g2' : sh.com.len ≤ e.shared.com.len + 0 := g2
      rw [hs] at hlen
      simp only [cap1] at hlen
      refine ⟨hw.cfg.keep (g1.trans ha.1), ?_⟩
      show (applyTrans sh e.state t).1.com.len ≤ cap1 B (applyTrans sh e.state t).2
      rw [ha.2]
      rcases startSelecting_trans env hr with ⟨s, rfl⟩ | ⟨b', rfl⟩
      · show sh.com.len ≤ B + 1
        omega
      · show sh.com.len ≤ cap1 B e.state
        rw [hs]
        show sh.com.len ≤ B + 1
        omega
    · next hs =>
      obtain ⟨g1, g2, _⟩ := gstep_startSelecting env (K := 0) { e.shared with syl := env.clearSyl e.shared.syl } sh t hr
      rw [hs] at hlen
      refine ⟨hw.cfg.keep (Keep.trans ⟨rfl, rfl, rfl, rfl⟩ (g1.trans ha.1)), ?_⟩
      show (applyTrans sh e.state t).1.com.len ≤ cap1 B (applyTrans sh e.state t).2
      rw [ha.2]
      simp only [cap1] at hlen
      have g2' : sh.com.len ≤ e.shared.com.len + 0 := g2
      exact Nat.le_trans (by omega) (le_cap1 B _)
    · injection hr with hr; injection hr with h3 h4
      subst h3 h4
      exact ⟨hw.cfg.keep ⟨rfl, rfl, rfl, rfl⟩, hlen⟩
  · cases h
  · cases h

/-- the `jump_to_*_selection_point` calls -/
theorem within1_jump {B K : Nat} {e e' : Editor D L} (hw : Within1 B K e) {which : Nat} {b : Bool}
    (h : e.jump env which = .ok (e', b)) : Within1 B K e' := by
  have key : e'.shared = e.shared ∧
      (e'.state = e.state ∨ ∃ s s', e.state = .selecting s ∧ e'.state = .selecting s') := by
    unfold Editor.jump at h
    repeat' (first | split at h | (dsimp only at h; split at h))
    all_goals first
      | (injection h with h; injection h with h1 h2; subst h1
         first
          | exact ⟨rfl, .inl rfl⟩
          | exact ⟨rfl, .inr ⟨_, _, ‹_›, rfl⟩⟩)
      | cases h
  obtain ⟨h1, h2⟩ := key
  have hlen := hw.len
  refine ⟨by rw [h1]; exact hw.cfg, ?_⟩
  rw [h1]
  rcases h2 with h2 | ⟨s, s', hs, hs'⟩
  · rw [h2]; exact hlen
  · rw [hs] at hlen; rw [hs']; exact hlen

/-- **every public operation keeps the invariant** — the only side condition is the threshold of new options,
    with the auto-commit's own bound at the state(s) it runs in -/
theorem within1_apply {B K : Nat} {e e' : Editor D L} (hw : Within1 B K e) (op : Op L)
    (hs : ThrOp B op) (hac : ∀ sh, Mid env e op sh → ACBound env sh) (h : e.apply env op = .ok e') :
    Within1 B K e' := by
  cases op with
  | key ev =>
    simp only [Editor.apply] at h
    obtain ⟨⟨e1, b⟩, h1, h2⟩ := map_ok h
    subst h2
    exact within1_key env hw hac h1
  | select n =>
    simp only [Editor.apply] at h
    obtain ⟨⟨e1, b⟩, h1, h2⟩ := map_ok h
    subst h2
    exact within1_select env hw hac h1
  | startSelecting =>
    simp only [Editor.apply] at h
    obtain ⟨⟨e1, b⟩, h1, h2⟩ := map_ok h
    subst h2
    exact within1_startSelecting env hw h1
  | cancelSelecting =>
    simp only [Editor.apply] at h
    injection h with h; subst h
    unfold Editor.cancelSelecting
    split
    · next s hst =>
      refine ⟨hw.cfg.keep ⟨rfl, rfl, rfl, rfl⟩, ?_⟩
      have hl := hw.len
      rw [hst] at hl
      simp only [cap1] at hl
      show e.shared.com.popCursor.len ≤ B + 1
      rw [popCursor_len]
      exact hl
    · exact hw
  | commit =>
    simp only [Editor.apply] at h
    obtain ⟨⟨e1, b⟩, h1, h2⟩ := map_ok h
    subst h2
    unfold Editor.commit at h1
    split at h1
    · injection h1 with h1; injection h1 with h3 h4; rw [← h3]; exact hw
    · split at h1
      · next sh hq =>
        injection h1 with h1; injection h1 with h3 h4
        obtain ⟨hk, hc⟩ := (commit_keep env e.shared).elim hq
        rw [← h3]
        refine ⟨hw.cfg.keep hk, ?_⟩
        show sh.com.len ≤ _
        rw [hc, clear_len]; exact Nat.zero_le _
      · cases h1
      · cases h1
  | clear =>
    simp only [Editor.apply] at h
    injection h with h; subst h
    refine ⟨hw.cfg.keep ⟨rfl, rfl, rfl, rfl⟩, ?_⟩
    show e.shared.com.clear.len ≤ _
    rw [clear_len]; exact Nat.zero_le _
  | ack =>
    simp only [Editor.apply] at h
    injection h with h; subst h
    exact ⟨hw.cfg.keep ⟨rfl, rfl, rfl, rfl⟩, hw.len⟩
  | clearSyl =>
    simp only [Editor.apply] at h
    injection h with h; subst h
    exact leaveIfEmpty_within1 env ⟨hw.cfg.keep ⟨rfl, rfl, rfl, rfl⟩, hw.len⟩
  | setOptions o =>
    simp only [Editor.apply] at h
    have h1 : o.autoCommitThreshold ≤ B := hs
    have hw1 : Within1 B K (e.setOptions env o) := by
      unfold Editor.setOptions
      dsimp only
      apply leaveIfEmpty_within1
      split
      · exact ⟨⟨h1, hw.cfg.abbr⟩, hw.len⟩
      · exact ⟨⟨h1, hw.cfg.abbr⟩, hw.len⟩
    exact revalidate_within1 env hw1 h
  | setLayout l =>
    simp only [Editor.apply] at h
    have hw1 : Within1 B K (e.setLayout env l) := by
      unfold Editor.setLayout
      exact leaveIfEmpty_within1 env ⟨hw.cfg.keep ⟨rfl, rfl, rfl, rfl⟩, hw.len⟩
    exact revalidate_within1 env hw1 h
  | setEngine k =>
    simp only [Editor.apply] at h
    injection h with h; subst h
    exact ⟨hw.cfg.keep ⟨rfl, rfl, rfl, rfl⟩, hw.len⟩
  | learn k p =>
    simp only [Editor.apply] at h
    split at h
    · next sh b hq =>
      obtain ⟨hk, hc⟩ := keep_learnFrame ((C02.learnPhrase_frame env e.shared k p).elim hq)
      refine revalidate_within1 env (e := { e with shared := sh }) ⟨hw.cfg.keep hk, ?_⟩ h
      show sh.com.len ≤ cap1 B e.state
      rw [hc]; exact hw.len
    · cases h
    · cases h
  | unlearn k p =>
    simp only [Editor.apply] at h
    exact revalidate_within1 env (e := { e with shared := Shared.unlearnPhrase env e.shared k p })
      ⟨hw.cfg.keep ⟨rfl, rfl, rfl, rfl⟩, hw.len⟩ h
  | jump which =>
    simp only [Editor.apply] at h
    obtain ⟨⟨e1, b⟩, h1, h2⟩ := map_ok h
    subst h2
    exact within1_jump env hw h1

/-- some `K` bounds every easy-symbol expansion of a table -/
theorem abbrLe_exists (abbr : List (Nat × Text)) : ∃ K, AbbrLe K abbr := by
  induction abbr with
  | nil => exact ⟨0, fun p hp => by cases hp⟩
  | cons a l ih =>
    obtain ⟨K, hK⟩ := ih
    refine ⟨max a.2.length K, fun p hp => ?_⟩
    rcases List.mem_cons.mp hp with rfl | hp
    · exact Nat.le_max_left _ _
    · exact Nat.le_trans (hK p hp) (Nat.le_max_right _ _)

end invariant

/-! ## linked to C01 -/

section linked
open Chewing Chewing.C01 Chewing.C06

variable {D L : Type} {env : Env D L} {G : D → Prop} {w : Prop}

/-- **one operation, no premise on the conversion**: it returns, C01's invariant and `Within1` hold afterwards -/
theorem within1_apply_linked {B K : Nat} (hE : EnvOK env G) {e : Editor D L}
    (hi : EditorInv env G w e) (hw : Within1 B K e) (op : Op L) (hv : OpValid op) (hk : w → ¬ Known env e op)
    (hs : ThrOp B op) : ∃ e', e.apply env op = .ok e' ∧ EditorInv env G w e' ∧ Within1 B K e' := by
  obtain ⟨e', h, hi'⟩ := apply_ok hE hi op hv hk
  exact ⟨e', h, hi', within1_apply env hw op hs (fun sh hm => acBound_of_shInv hE (mid_shInv hE hi hm)) h⟩

/-- **every history**: valid operations (C01's `OpValid`) whose new options keep the threshold within `B` — the run
    returns and both invariants hold at the end -/
theorem within1_run_linked {B K : Nat} (hE : EnvOK env G) (ops : List (Op L)) :
    ∀ e : Editor D L, SafeInv env G e → Within1 B K e → (∀ op ∈ ops, OpValid op) → (∀ op ∈ ops, ThrOp B op) →
      ∃ e', e.run env ops = .ok e' ∧ SafeInv env G e' ∧ Within1 B K e' := by
  induction ops with
  | nil => intro e hi hw _ _; exact ⟨e, rfl, hi, hw⟩
  | cons op ops ih =>
    intro e hi hw hv hs
    obtain ⟨e1, h1, hi1, hw1⟩ := within1_apply_linked hE hi hw op (hv op (List.mem_cons_self ..))
      (fun hf => hf.elim) (hs op (List.mem_cons_self ..))
    obtain ⟨e2, h2, hi2, hw2⟩ := ih e1 hi1 hw1 (fun o ho => hv o (List.mem_cons_of_mem _ ho))
      (fun o ho => hs o (List.mem_cons_of_mem _ ho))
    exact ⟨e2, by simp only [Editor.run]; rw [h1]; exact h2, hi2, hw2⟩

end linked

end Chewing.Bound
