import Chewing.Proofs.EditorPure
import Chewing.Proofs.EditorFrame
/-!
Frame proof for C17: the estimator clock (`Shared.time`) and the pending flush level (`Shared.dirty`)
are unobservable, for environments in which time stamps and flushing are unobservable (`MetaBlindEnv`).

`MetaEq a b`: the shared states `a` and `b` agree on every field except (possibly) `time` and `dirty`.
`ORel R`: two outcomes are both `ok` with `R`-related values, or the same panic, or both out of fuel.
One lemma per arm of the editor state machine (`Model/Editor.lean`): related inputs give related
results.  This file: the shared-state level and the four states' `next`; `EditorLinkMeta2.lean`:
`processKey` and the API entry points.
-/
namespace Chewing

variable {D L : Type} (env : Env D L)

/-- environments in which time stamps and flushing are unobservable -/
structure MetaBlindEnv (env : Env D L) : Prop where
  estimate_clock : ∀ t t' f m, env.estimate t f m = env.estimate t' f m
  update_clock : ∀ d k p f t t', env.updatePhrase d k p f t = env.updatePhrase d k p f t'
  flush_id : ∀ d, env.reopenFlush d = d

/-- set the clock and the flush level -/
def sm (sh : Shared D L) (t k : Nat) : Shared D L := { sh with time := t, dirty := k }

/-- equal up to the clock and the flush level -/
def MetaEq (a b : Shared D L) : Prop := b = { a with time := b.time, dirty := b.dirty }

theorem MetaEq.out {a b : Shared D L} (h : MetaEq a b) : ∃ t k, b = sm a t k := ⟨b.time, b.dirty, h⟩

theorem MetaEq.of_sm (a : Shared D L) (t k : Nat) : MetaEq a (sm a t k) := rfl

theorem MetaEq.refl (a : Shared D L) : MetaEq a a := by cases a; rfl

theorem MetaEq.symm {a b : Shared D L} (h : MetaEq a b) : MetaEq b a := by
  obtain ⟨t, k, rfl⟩ := h.out; cases a; rfl

theorem MetaEq.trans {a b c : Shared D L} (h1 : MetaEq a b) (h2 : MetaEq b c) : MetaEq a c := by
  obtain ⟨t, k, rfl⟩ := h1.out; obtain ⟨t', k', rfl⟩ := h2.out; rfl

section proj
variable (sh : Shared D L) (t k : Nat)
theorem sm_com : (sm sh t k).com = sh.com := rfl
theorem sm_syl : (sm sh t k).syl = sh.syl := rfl
theorem sm_engine : (sm sh t k).engine = sh.engine := rfl
theorem sm_dict : (sm sh t k).dict = sh.dict := rfl
theorem sm_abbr : (sm sh t k).abbr = sh.abbr := rfl
theorem sm_symSel : (sm sh t k).symSel = sh.symSel := rfl
theorem sm_time : (sm sh t k).time = t := rfl
theorem sm_options : (sm sh t k).options = sh.options := rfl
theorem sm_last : (sm sh t k).last = sh.last := rfl
theorem sm_dirty : (sm sh t k).dirty = k := rfl
theorem sm_nth : (sm sh t k).nth = sh.nth := rfl
theorem sm_commitBuf : (sm sh t k).commitBuf = sh.commitBuf := rfl
theorem sm_noticeBuf : (sm sh t k).noticeBuf = sh.noticeBuf := rfl
end proj

/-! ### readers: functions of fields other than the clock and the flush level -/

theorem conversion_sm (sh : Shared D L) (t k : Nat) : Shared.conversion env (sm sh t k) = Shared.conversion env sh := rfl
theorem display_sm (sh : Shared D L) (t k : Nat) : Shared.display env (sm sh t k) = Shared.display env sh := rfl
theorem candidates_sm (s : Selecting) (sh : Shared D L) (t k : Nat) :
    Selecting.candidates env s (sm sh t k) = Selecting.candidates env s sh := rfl
theorem totalPage_sm (s : Selecting) (sh : Shared D L) (t k : Nat) :
    Selecting.totalPage env s (sm sh t k) = Selecting.totalPage env s sh := rfl
theorem offset_sm (s : Selecting) (sh : Shared D L) (t k n : Nat) :
    Selecting.offset s (sm sh t k) n = Selecting.offset s sh n := rfl
theorem newSymbol_sm (sh : Shared D L) (t k : Nat) : newSymbol (sm sh t k) = newSymbol sh := rfl

/-- normalise the projections of `sm sh t k` (so that both sides test the same conditions) -/
macro "sm_norm" : tactic =>
  `(tactic| try dsimp only [sm_com, sm_syl, sm_engine, sm_dict, sm_abbr, sm_symSel, sm_time, sm_options, sm_last,
      sm_dirty, sm_nth, sm_commitBuf, sm_noticeBuf, conversion_sm, display_sm, candidates_sm, totalPage_sm,
      offset_sm, newSymbol_sm])

/-- `split`, then resolve the same test on the other side with the new hypothesis -/
macro "split2" : tactic => `(tactic| (split <;> (try (rename_i hsplit; simp only [hsplit, Bool.false_eq_true, Bool.true_eq_false, ↓reduceIte]))))

/-- closes `MetaEq x y` for concrete structure instances -/
macro "meq" : tactic => `(tactic| first | exact MetaEq.of_sm _ _ _ | exact MetaEq.refl _ | exact (rfl : _ = _) | assumption)

/-- both `ok` with related values, or the same panic, or both out of fuel -/
def ORel {α : Type} (R : α → α → Prop) : Outcome α → Outcome α → Prop
  | .ok a, .ok b => R a b
  | .panic p, .panic q => p = q
  | .outOfFuel, .outOfFuel => True
  | _, _ => False

theorem ORel.cases {α : Type} {R : α → α → Prop} {r₁ r₂ : Outcome α} (h : ORel R r₁ r₂) :
    (∃ a b, r₁ = .ok a ∧ r₂ = .ok b ∧ R a b) ∨ (∃ p, r₁ = .panic p ∧ r₂ = .panic p) ∨
      (r₁ = .outOfFuel ∧ r₂ = .outOfFuel) := by
  cases r₁ <;> cases r₂ <;> simp only [ORel] at h <;> first
    | exact h.elim
    | exact Or.inl ⟨_, _, rfl, rfl, h⟩
    | (subst h; exact Or.inr (Or.inl ⟨_, rfl, rfl⟩))
    | exact Or.inr (Or.inr ⟨rfl, rfl⟩)

theorem orel_ite {α : Type} {R : α → α → Prop} {c : Prop} [Decidable c] {a a' b b' : Outcome α}
    (h1 : c → ORel R a a') (h2 : ¬c → ORel R b b') : ORel R (if c then a else b) (if c then a' else b') := by
  split
  · exact h1 ‹_›
  · exact h2 ‹_›

theorem orel_panic {α : Type} {R : α → α → Prop} (p : String) : ORel R (.panic p) (.panic p) := rfl
theorem orel_fuel {α : Type} {R : α → α → Prop} : ORel R (.outOfFuel : Outcome α) .outOfFuel := trivial

theorem orel_eq {α : Type} {R : α → α → Prop} (hR : ∀ a, R a a) (r : Outcome α) : ORel R r r := by
  cases r with
  | ok a => exact hR a
  | panic p => rfl
  | outOfFuel => trivial

theorem orel_map {α β : Type} {R : α → α → Prop} {S : β → β → Prop} {f g : α → β} {r₁ r₂ : Outcome α}
    (h : ORel R r₁ r₂) (hf : ∀ a b, R a b → S (f a) (g b)) : ORel S (r₁.map f) (r₂.map g) := by
  rcases h.cases with ⟨a, b, h1, h2, hr⟩ | ⟨p, h1, h2⟩ | ⟨h1, h2⟩ <;> rw [h1, h2]
  · exact hf a b hr
  · rfl
  · trivial

/-- related shared states, equal second components -/
def PRel {β : Type} (x y : Shared D L × β) : Prop := MetaEq x.1 y.1 ∧ x.2 = y.2

/-- step results of `Entering` / `EnteringSyllable` -/
abbrev StepRel (r₁ r₂ : StepRes D L) : Prop := ORel PRel r₁ r₂

/-- closes `ORel PRel (.ok (x, t)) (.ok (y, t))` -/
macro "prel_leaf" : tactic => `(tactic| exact (⟨by meq, rfl⟩ : PRel _ _))

/-! ### leaf arms -/

theorem withCom_rel {a b : Shared D L} (h : MetaEq a b) (r : Outcome CompEditor) {k₁ k₂ : Shared D L → StepRes D L}
    (hk : ∀ x y, MetaEq x y → StepRel (k₁ x) (k₂ y)) : StepRel (withCom a r k₁) (withCom b r k₂) := by
  obtain ⟨t, k, rfl⟩ := h.out
  unfold withCom
  cases r with
  | ok c => exact hk _ _ (by meq)
  | panic p => rfl
  | outOfFuel => trivial

theorem withCom_absorb_rel {a b : Shared D L} (h : MetaEq a b) (r : Outcome CompEditor) :
    StepRel (withCom a r fun sh => .ok (sh, .spin .absorb)) (withCom b r fun sh => .ok (sh, .spin .absorb)) :=
  withCom_rel h r fun _ _ hxy => ⟨hxy, rfl⟩

theorem commitOrInsert_rel {a b : Shared D L} (h : MetaEq a b) (ch : Nat) :
    StepRel (commitOrInsert a ch) (commitOrInsert b ch) := by
  obtain ⟨t, k, rfl⟩ := h.out
  unfold commitOrInsert
  refine orel_ite (fun _ => ?_) fun _ => ?_
  · prel_leaf
  · exact withCom_absorb_rel (by meq) _

theorem inputChar_rel {a b : Shared D L} (h : MetaEq a b) (ev : KeyEvent) :
    StepRel (inputChar a ev) (inputChar b ev) := by
  obtain ⟨t, k, rfl⟩ := h.out
  unfold inputChar fullOrBell
  sm_norm
  repeat' split2
  all_goals first
    | exact commitOrInsert_rel (by meq) _
    | prel_leaf

theorem chineseFallback_rel {a b : Shared D L} (h : MetaEq a b) (ev : KeyEvent) :
    StepRel (chineseFallback a ev) (chineseFallback b ev) := by
  obtain ⟨t, k, rfl⟩ := h.out
  unfold chineseFallback
  sm_norm
  repeat' split2
  all_goals first
    | exact withCom_absorb_rel (by meq) _
    | exact inputChar_rel (by meq) _
    | prel_leaf

/-! ### opening a candidate list -/

theorem newPhrase_rel {a b : Shared D L} (h : MetaEq a b) : StepRel (newPhrase env a) (newPhrase env b) := by
  obtain ⟨t, k, rfl⟩ := h.out
  unfold newPhrase
  sm_norm
  split
  · prel_leaf
  · rfl
  · trivial

theorem openPhrase_rel {a b : Shared D L} (h : MetaEq a b) : StepRel (openPhrase env a) (openPhrase env b) := by
  have hn := newPhrase_rel env h
  unfold openPhrase
  rcases hn.cases with ⟨⟨x, u⟩, ⟨y, v⟩, h1, h2, hm, hv⟩ | ⟨p, h1, h2⟩ | ⟨h1, h2⟩ <;> rw [h1, h2]
  · dsimp only at hm hv
    subst hv
    obtain ⟨t, k, rfl⟩ := hm.out
    cases u with
    | toState st =>
      cases st with
      | selecting s =>
        dsimp only
        rw [candidates_sm]
        cases Selecting.candidates env s x with
        | ok cs =>
          cases cs with
          | nil => exact (⟨(rfl : _ = _), rfl⟩ : PRel _ _)
          | cons c cs => prel_leaf
        | panic p => rfl
        | outOfFuel => trivial
      | _ => prel_leaf
    | spin b => prel_leaf
  · rfl
  · trivial

theorem newPhraseSimple_rel {a b : Shared D L} (h : MetaEq a b) : StepRel (newPhraseSimple a) (newPhraseSimple b) := by
  obtain ⟨t, k, rfl⟩ := h.out
  unfold newPhraseSimple
  sm_norm
  split
  · prel_leaf
  · rfl
  · trivial

theorem newSpecialSymbol_rel {a b : Shared D L} (h : MetaEq a b) (sym : Sym) :
    StepRel (newSpecialSymbol a sym) (newSpecialSymbol b sym) := by
  obtain ⟨t, k, rfl⟩ := h.out
  unfold newSpecialSymbol
  sm_norm
  split
  · prel_leaf
  · prel_leaf
  · rfl
  · trivial

theorem openSymbol_rel {a b : Shared D L} (h : MetaEq a b) : StepRel (openSymbol env a) (openSymbol env b) := by
  obtain ⟨t, k, rfl⟩ := h.out
  unfold openSymbol
  rw [newSymbol_sm, candidates_sm]
  cases Selecting.candidates env (newSymbol a) a with
  | ok cs =>
    cases cs with
    | nil => prel_leaf
    | cons c cs => prel_leaf
  | panic p => rfl
  | outOfFuel => trivial

theorem openSpecialSymbol_rel {a b : Shared D L} (h : MetaEq a b) (sym : Sym) :
    StepRel (openSpecialSymbol env a sym) (openSpecialSymbol env b sym) := by
  have hn := newSpecialSymbol_rel h sym
  unfold openSpecialSymbol
  rcases hn.cases with ⟨⟨x, u⟩, ⟨y, v⟩, h1, h2, hm, hv⟩ | ⟨p, h1, h2⟩ | ⟨h1, h2⟩ <;> rw [h1, h2]
  · dsimp only at hm hv
    subst hv
    obtain ⟨t, k, rfl⟩ := hm.out
    cases u with
    | toState st =>
      cases st with
      | selecting s =>
        dsimp only
        rw [candidates_sm]
        cases Selecting.candidates env s x with
        | ok cs =>
          cases cs with
          | nil => exact (⟨(rfl : _ = _), rfl⟩ : PRel _ _)
          | cons c cs => prel_leaf
        | panic p => rfl
        | outOfFuel => trivial
      | _ => prel_leaf
    | spin b => prel_leaf
  · rfl
  · trivial

theorem startSelecting_rel {a b : Shared D L} (h : MetaEq a b) : StepRel (startSelecting env a) (startSelecting env b) := by
  obtain ⟨t, k, rfl⟩ := h.out
  unfold startSelecting
  sm_norm
  repeat' split2
  all_goals first
    | exact openPhrase_rel env (by meq)
    | exact openSpecialSymbol_rel env (by meq) _
    | prel_leaf

theorem startSelectingOrInputSpace_rel {a b : Shared D L} (h : MetaEq a b) :
    StepRel (startSelectingOrInputSpace env a) (startSelectingOrInputSpace env b) := by
  obtain ⟨t, k, rfl⟩ := h.out
  unfold startSelectingOrInputSpace
  sm_norm
  repeat' split2
  all_goals first
    | exact openPhrase_rel env (by meq)
    | exact openSpecialSymbol_rel env (by meq) _
    | prel_leaf

/-! ### learning: the only readers of the clock, the only writers of the flush level -/

theorem ORel.of_eqs {α : Type} {R : α → α → Prop} {r₁ r₂ c₁ c₂ : Outcome α} (h : ORel R r₁ r₂)
    (h1 : r₁ = c₁) (h2 : r₂ = c₂) : ORel R c₁ c₂ := h1 ▸ h2 ▸ h

/-- `learn_phrase`: the estimate does not depend on the clock, the stored time stamp is unobservable -/
theorem learnPhrase_rel (hE : MetaBlindEnv env) {a b : Shared D L} (h : MetaEq a b) (syls : List Nat) (phrase : Text) :
    ORel PRel (Shared.learnPhrase env a syls phrase) (Shared.learnPhrase env b syls phrase) := by
  obtain ⟨t, k, rfl⟩ := h.out
  unfold Shared.learnPhrase
  sm_norm
  simp only [hE.estimate_clock t a.time, fun d k p f => hE.update_clock d k p f t a.time]
  repeat' split2
  all_goals first
    | prel_leaf
    | rfl
    | trivial

theorem unlearnPhrase_rel {a b : Shared D L} (h : MetaEq a b) (syls : List Nat) (phrase : Text) :
    MetaEq (Shared.unlearnPhrase env a syls phrase) (Shared.unlearnPhrase env b syls phrase) := by
  obtain ⟨t, k, rfl⟩ := h.out
  rfl

theorem learnInRangeQuiet_rel {a b : Shared D L} (h : MetaEq a b) (start stop : Nat) :
    ORel PRel (Shared.learnInRangeQuiet env a start stop) (Shared.learnInRangeQuiet env b start stop) := by
  obtain ⟨t, k, rfl⟩ := h.out
  unfold Shared.learnInRangeQuiet
  sm_norm
  repeat' split2
  all_goals first
    | prel_leaf
    | rfl
    | trivial

theorem MetaEq.setNotice {a b : Shared D L} (h : MetaEq a b) (m : Text) :
    MetaEq { a with noticeBuf := m } { b with noticeBuf := m } := by
  obtain ⟨t, k, rfl⟩ := h.out; rfl

theorem learnInRangeNotify_rel {a b : Shared D L} (h : MetaEq a b) (start stop : Nat) :
    ORel PRel (Shared.learnInRangeNotify env a start stop) (Shared.learnInRangeNotify env b start stop) := by
  have hq := learnInRangeQuiet_rel env h start stop
  unfold Shared.learnInRangeNotify
  repeat' split2
  all_goals (have hh := ORel.of_eqs hq (by assumption) (by assumption))
  all_goals first
    | exact False.elim hh
    | rfl
    | trivial
    | skip
  all_goals
    obtain ⟨hm, hv⟩ : PRel _ _ := hh
    dsimp only at hm hv
    first
      | (injection hv with hv; subst hv; exact ⟨hm.setNotice _, rfl⟩)
      | (injection hv)

theorem learnTrans_rel {r₁ r₂ : Outcome (Shared D L × Bool)} (h : ORel PRel r₁ r₂) :
    StepRel (learnTrans r₁) (learnTrans r₂) := by
  unfold learnTrans
  rcases h.cases with ⟨⟨x, u⟩, ⟨y, v⟩, h1, h2, hm, hv⟩ | ⟨p, h1, h2⟩ | ⟨h1, h2⟩ <;> subst h1 h2
  · dsimp only at hm hv; subst hv; exact ⟨hm, rfl⟩
  · rfl
  · trivial

theorem enteringCtrlDigit_rel {a b : Shared D L} (h : MetaEq a b) (c : Nat) :
    StepRel (enteringCtrlDigit env a c) (enteringCtrlDigit env b c) := by
  obtain ⟨t, k, rfl⟩ := h.out
  unfold enteringCtrlDigit
  sm_norm
  repeat' split2
  all_goals first
    | exact learnTrans_rel (learnInRangeNotify_rel env (by meq) _ _)
    | exact openSymbol_rel env (by meq)
    | prel_leaf

theorem autoLearn_flush_rel (hE : MetaBlindEnv env) {a b : Shared D L} (h : MetaEq a b) (pending : Text) (syls : List Sym) :
    ORel MetaEq (Shared.autoLearn.flush env a pending syls) (Shared.autoLearn.flush env b pending syls) := by
  have hq := learnPhrase_rel env hE h (sylPrefix syls) pending
  unfold Shared.autoLearn.flush
  split
  · exact h
  · repeat' split2
    all_goals (have hh := ORel.of_eqs hq (by assumption) (by assumption))
    all_goals first
      | exact False.elim hh
      | exact hh.1
      | rfl
      | trivial

theorem MetaEq.com_eq {a b : Shared D L} (h : MetaEq a b) : b.com = a.com := by
  obtain ⟨t, k, rfl⟩ := h.out; rfl

theorem autoLearn_go_rel (hE : MetaBlindEnv env) (ivs : List Interval) :
    ∀ {a b : Shared D L}, MetaEq a b → ∀ (pending : Text) (syls : List Sym),
      ORel MetaEq (Shared.autoLearn.go env a ivs pending syls) (Shared.autoLearn.go env b ivs pending syls) := by
  induction ivs with
  | nil => intro a b h pending syls; unfold Shared.autoLearn.go; exact autoLearn_flush_rel env hE h pending syls
  | cons iv rest ih =>
    intro a b h pending syls
    have hf := autoLearn_flush_rel env hE h pending syls
    unfold Shared.autoLearn.go
    rw [h.com_eq]
    refine orel_ite (fun _ => rfl) fun _ => ?_
    refine orel_ite (fun _ => ?_) fun _ => ?_
    · split2
      · exact ih h _ _
      · rfl
      · trivial
    · rcases hf.cases with ⟨a1, b1, h1, h2, hm⟩ | ⟨p, h1, h2⟩ | ⟨h1, h2⟩ <;> rw [h1, h2]
      · dsimp only
        rw [hm.com_eq]
        refine orel_ite (fun _ => ?_) fun _ => ih hm _ _
        split2
        · have hl := learnPhrase_rel env hE hm (sylPrefix ‹_›) iv.text
          rcases hl.cases with ⟨⟨a2, u⟩, ⟨b2, v⟩, h3, h4, hm2, _⟩ | ⟨p, h3, h4⟩ | ⟨h3, h4⟩ <;> rw [h3, h4]
          · exact ih hm2 _ _
          · rfl
          · trivial
        · rfl
        · trivial
      · rfl
      · trivial

theorem autoLearn_rel (hE : MetaBlindEnv env) {a b : Shared D L} (h : MetaEq a b) (ivs : List Interval) :
    ORel MetaEq (Shared.autoLearn env a ivs) (Shared.autoLearn env b ivs) := by
  unfold Shared.autoLearn
  exact autoLearn_go_rel env hE ivs h [] []

theorem MetaEq.commitFields {a b : Shared D L} (h : MetaEq a b) (buf : Text) :
    MetaEq { a with commitBuf := buf, com := a.com.clear, nth := 0, last := .commit }
      { b with commitBuf := buf, com := b.com.clear, nth := 0, last := .commit } := by
  obtain ⟨t, k, rfl⟩ := h.out; rfl

/-- `SharedState::commit` -/
theorem commit_rel (hE : MetaBlindEnv env) {a b : Shared D L} (h : MetaEq a b) :
    ORel MetaEq (Shared.commit env a) (Shared.commit env b) := by
  obtain ⟨t, k, rfl⟩ := h.out
  unfold Shared.commit
  sm_norm
  split2
  · rfl
  · trivial
  · rename_i ivs _
    have hl : ORel MetaEq
        (if (!a.options.disableAutoLearnPhrase) = true then Shared.autoLearn env { a with commitBuf := [] } ivs
          else .ok { a with commitBuf := [] })
        (if (!a.options.disableAutoLearnPhrase) = true then Shared.autoLearn env { sm a t k with commitBuf := [] } ivs
          else .ok { sm a t k with commitBuf := [] }) :=
      orel_ite (fun _ => autoLearn_rel env hE (by meq) ivs) (fun _ => (by meq : MetaEq _ _))
    repeat' split
    all_goals (have hh := ORel.of_eqs hl (by assumption) (by assumption))
    all_goals first
      | exact False.elim hh
      | exact MetaEq.commitFields hh _
      | rfl
      | trivial

/-- `SharedState::try_auto_commit` -/
theorem tryAutoCommit_rel {a b : Shared D L} (h : MetaEq a b) :
    ORel MetaEq (Shared.tryAutoCommit env a) (Shared.tryAutoCommit env b) := by
  obtain ⟨t, k, rfl⟩ := h.out
  unfold Shared.tryAutoCommit
  sm_norm
  repeat' split2
  all_goals first
    | (exact (by meq : MetaEq _ _))
    | rfl
    | trivial

/-! ### `Entering` -/

theorem enteringDefault_rel {a b : Shared D L} (h : MetaEq a b) (ev : KeyEvent) :
    StepRel (enteringDefault env a ev) (enteringDefault env b ev) := by
  obtain ⟨t, k, rfl⟩ := h.out
  unfold enteringDefault
  sm_norm
  repeat' split2
  all_goals first
    | exact withCom_absorb_rel (by meq) _
    | exact inputChar_rel (by meq) _
    | exact chineseFallback_rel (by meq) _
    | exact openSymbol_rel env (by meq)
    | prel_leaf

theorem enteringBackspace_rel {a b : Shared D L} (h : MetaEq a b) :
    StepRel (enteringBackspace a) (enteringBackspace b) := by
  obtain ⟨t, k, rfl⟩ := h.out
  unfold enteringBackspace
  refine orel_ite (fun _ => ?_) fun _ => ?_
  · prel_leaf
  · exact withCom_absorb_rel (by meq) _

theorem enteringTabInside_rel {a b : Shared D L} (h : MetaEq a b) :
    StepRel (enteringTabInside env a) (enteringTabInside env b) := by
  obtain ⟨t, k, rfl⟩ := h.out
  unfold enteringTabInside
  sm_norm
  repeat' split2
  all_goals first
    | exact withCom_absorb_rel (by meq) _
    | rfl
    | trivial

theorem enteringDel_rel {a b : Shared D L} (h : MetaEq a b) : StepRel (enteringDel a) (enteringDel b) := by
  obtain ⟨t, k, rfl⟩ := h.out
  unfold enteringDel
  refine orel_ite (fun _ => ?_) fun _ => ?_
  · prel_leaf
  · exact withCom_absorb_rel (by meq) _

theorem enteringShiftLeft_rel {a b : Shared D L} (h : MetaEq a b) :
    StepRel (enteringShiftLeft a) (enteringShiftLeft b) := by
  obtain ⟨t, k, rfl⟩ := h.out
  unfold enteringShiftLeft
  refine orel_ite (fun _ => ?_) fun _ => ?_ <;> prel_leaf

theorem enteringShiftRight_rel {a b : Shared D L} (h : MetaEq a b) :
    StepRel (enteringShiftRight a) (enteringShiftRight b) := by
  obtain ⟨t, k, rfl⟩ := h.out
  unfold enteringShiftRight
  refine orel_ite (fun _ => ?_) fun _ => ?_ <;> prel_leaf

theorem enteringEnter_rel (hE : MetaBlindEnv env) {a b : Shared D L} (h : MetaEq a b) :
    StepRel (enteringEnter env a) (enteringEnter env b) := by
  have hc := commit_rel env hE h
  unfold enteringEnter
  rcases hc.cases with ⟨x, y, h1, h2, hm⟩ | ⟨p, h1, h2⟩ | ⟨h1, h2⟩ <;> rw [h1, h2]
  · exact ⟨hm, rfl⟩
  · rfl
  · trivial

theorem enteringEsc_rel {a b : Shared D L} (h : MetaEq a b) : StepRel (enteringEsc a) (enteringEsc b) := by
  obtain ⟨t, k, rfl⟩ := h.out
  unfold enteringEsc
  refine orel_ite (fun _ => ?_) fun _ => ?_ <;> prel_leaf

/-- `impl State for Entering`: `next` -/
theorem enteringNext_rel (hE : MetaBlindEnv env) {a b : Shared D L} (h : MetaEq a b) (ev : KeyEvent) :
    StepRel (enteringNext env a ev) (enteringNext env b ev) := by
  obtain ⟨t, k, rfl⟩ := h.out
  unfold enteringNext
  refine orel_ite (fun _ => enteringBackspace_rel (by meq)) fun _ => ?_
  refine orel_ite (fun _ => by prel_leaf) fun _ => ?_
  refine orel_ite (fun _ => enteringCtrlDigit_rel env (by meq) _) fun _ => ?_
  refine orel_ite (fun _ => by prel_leaf) fun _ => ?_
  refine orel_ite (fun _ => by prel_leaf) fun _ => ?_
  refine orel_ite (fun _ => enteringTabInside_rel env (by meq)) fun _ => ?_
  refine orel_ite (fun _ => enteringDel_rel (by meq)) fun _ => ?_
  refine orel_ite (fun _ => by prel_leaf) fun _ => ?_
  refine orel_ite (fun _ => enteringShiftLeft_rel (by meq)) fun _ => ?_
  refine orel_ite (fun _ => enteringShiftRight_rel (by meq)) fun _ => ?_
  refine orel_ite (fun _ => by prel_leaf) fun _ => ?_
  refine orel_ite (fun _ => by prel_leaf) fun _ => ?_
  refine orel_ite (fun _ => by prel_leaf) fun _ => ?_
  refine orel_ite (fun _ => by prel_leaf) fun _ => ?_
  refine orel_ite (fun _ => startSelectingOrInputSpace_rel env (by meq)) fun _ => ?_
  refine orel_ite (fun _ => startSelecting_rel env (by meq)) fun _ => ?_
  refine orel_ite (fun _ => by prel_leaf) fun _ => ?_
  refine orel_ite (fun _ => enteringEnter_rel env hE (by meq)) fun _ => ?_
  refine orel_ite (fun _ => enteringEsc_rel (by meq)) fun _ => ?_
  refine orel_ite (fun _ => commitOrInsert_rel (by meq) _) fun _ => ?_
  exact enteringDefault_rel env (by meq) _

/-! ### `EnteringSyllable` -/

theorem syllableAnswer_rel {a b : Shared D L} (h : MetaEq a b) (beh : LayoutBeh) :
    StepRel (syllableAnswer env a beh) (syllableAnswer env b beh) := by
  obtain ⟨t, k, rfl⟩ := h.out
  unfold syllableAnswer
  sm_norm
  repeat' split2
  all_goals first
    | exact withCom_absorb_rel (by meq) _
    | prel_leaf
    | skip
  all_goals
    refine withCom_rel (by meq) _ fun x y hxy => ?_
    obtain ⟨t', k', rfl⟩ := hxy.out
    sm_norm
    refine orel_ite (fun _ => newPhraseSimple_rel (by meq)) fun _ => ?_
    prel_leaf

/-- `impl State for EnteringSyllable`: `next` -/
theorem enteringSyllableNext_rel {a b : Shared D L} (h : MetaEq a b) (ev : KeyEvent) :
    StepRel (enteringSyllableNext env a ev) (enteringSyllableNext env b ev) := by
  obtain ⟨t, k, rfl⟩ := h.out
  unfold enteringSyllableNext
  sm_norm
  repeat' split2
  all_goals first
    | exact syllableAnswer_rel env (by meq) _
    | prel_leaf

/-! ### `Selecting` -/

/-- results of `Selecting::select` -/
def SSRel (x y : Selecting × Shared D L × Trans) : Prop := x.1 = y.1 ∧ MetaEq x.2.1 y.2.1 ∧ x.2.2 = y.2.2

/-- results of `Selecting::next` -/
def SelRel (x y : SelRes D L) : Prop := MetaEq x.shared y.shared ∧ x.sel = y.sel ∧ x.trans = y.trans

macro "ssrel_leaf" : tactic => `(tactic| exact (⟨rfl, by meq, rfl⟩ : SSRel _ _))
macro "selrel_leaf" : tactic => `(tactic| exact (⟨by meq, rfl, rfl⟩ : SelRel _ _))

/-- `Selecting::select(n)` -/
theorem select_rel {a b : Shared D L} (h : MetaEq a b) (s : Selecting) (n : Nat) :
    ORel SSRel (Selecting.select env s a n) (Selecting.select env s b n) := by
  obtain ⟨t, k, rfl⟩ := h.out
  unfold Selecting.select
  sm_norm
  repeat' split2
  all_goals first
    | ssrel_leaf
    | rfl
    | trivial
    | skip
  all_goals
    simp only [Outcome.map]
    repeat' split2
    all_goals first
      | ssrel_leaf
      | rfl
      | trivial

theorem retarget_rel {a b : Shared D L} (h : MetaEq a b) (s : Selecting) :
    StepRel (retarget env s a) (retarget env s b) := by
  obtain ⟨t, k, rfl⟩ := h.out
  unfold retarget
  sm_norm
  repeat' split2
  all_goals first
    | prel_leaf
    | rfl
    | trivial

theorem selDownSpace_rel {a b : Shared D L} (h : MetaEq a b) (s : Selecting) :
    ORel SelRel (selDownSpace env s a) (selDownSpace env s b) := by
  obtain ⟨t, k, rfl⟩ := h.out
  unfold selDownSpace
  sm_norm
  repeat' split2
  all_goals first
    | selrel_leaf
    | rfl
    | trivial

theorem closeIfEmpty_rel {x y : SelRes D L} (h : SelRel x y) :
    ORel SelRel (closeIfEmpty env x) (closeIfEmpty env y) := by
  obtain ⟨xs, xl, xt⟩ := x
  obtain ⟨ys, yl, yt⟩ := y
  obtain ⟨hm, hl, ht⟩ := h
  dsimp only at hm hl ht
  subst hl ht
  obtain ⟨t, k, rfl⟩ := hm.out
  unfold closeIfEmpty
  sm_norm
  repeat' split2
  all_goals first
    | exact (⟨(rfl : _ = _), rfl, rfl⟩ : SelRel _ _)
    | selrel_leaf
    | rfl
    | trivial

/-- the part of `selMove` after `retarget` -/
def selMovePost (s : Selecting) (r : StepRes D L) : Outcome (SelRes D L) :=
  match r with
  | .ok (sh', .toState (.selecting s')) => closeIfEmpty env ⟨sh', s', .spin .absorb⟩
  | .ok (sh', _) => closeIfEmpty env ⟨sh', s, .spin .absorb⟩
  | .panic q => .panic q
  | .outOfFuel => .outOfFuel

/-- where `j` / `k` move the cursor -/
def selMoveCom (s : Selecting) (sh : Shared D L) (isJ : Bool) : CompEditor :=
  if isJ then sh.com.moveCursor ((match s.sel with | .phrase p => p.begin_ | _ => sh.com.cursor) - 1)
  else (sh.com.moveCursor ((match s.sel with | .phrase p => p.begin_ | _ => sh.com.cursor) + 1)).clampCursor

theorem selMove_eq (s : Selecting) (sh : Shared D L) (isJ : Bool) :
    selMove env s sh isJ =
      if sh.com.isEmpty then .ok ⟨sh, s, .spin .ignore⟩
      else selMovePost env s (retarget env s { sh with com := selMoveCom s sh isJ }) := rfl

theorem selMovePost_rel (s : Selecting) {r₁ r₂ : StepRes D L} (h : StepRel r₁ r₂) :
    ORel SelRel (selMovePost env s r₁) (selMovePost env s r₂) := by
  rcases h.cases with ⟨⟨x, u⟩, ⟨y, v⟩, h1, h2, hm, hv⟩ | ⟨p, h1, h2⟩ | ⟨h1, h2⟩ <;> subst h1 h2
  · dsimp only at hm hv
    subst hv
    unfold selMovePost
    split2
    · rename_i e1; injection e1 with e1; injection e1 with e1 e2; subst e1 e2
      exact closeIfEmpty_rel env ⟨hm, rfl, rfl⟩
    · rename_i hne e1; injection e1 with e1; injection e1 with e1 e2; subst e1 e2
      split
      · rename_i e3; injection e3 with e3; injection e3 with e3 e4; subst e4
        exact (hne _ rfl).elim
      · rename_i e3; injection e3 with e3; injection e3 with e3 e4; subst e3
        exact closeIfEmpty_rel env ⟨hm, rfl, rfl⟩
      · rename_i e3; cases e3
      · rename_i e3; cases e3
    · rename_i e1; cases e1
    · rename_i e1; cases e1
  · rfl
  · trivial

theorem selMove_rel {a b : Shared D L} (h : MetaEq a b) (s : Selecting) (isJ : Bool) :
    ORel SelRel (selMove env s a isJ) (selMove env s b isJ) := by
  obtain ⟨t, k, rfl⟩ := h.out
  rw [selMove_eq, selMove_eq]
  refine orel_ite (fun _ => by selrel_leaf) fun _ => ?_
  exact selMovePost_rel env s (retarget_rel env (by meq) s)

theorem selPrevPage_rel {a b : Shared D L} (h : MetaEq a b) (s : Selecting) :
    ORel SelRel (selPrevPage env s a) (selPrevPage env s b) := by
  obtain ⟨t, k, rfl⟩ := h.out
  unfold selPrevPage
  sm_norm
  repeat' split2
  all_goals first
    | selrel_leaf
    | rfl
    | trivial

theorem selNextPage_rel {a b : Shared D L} (h : MetaEq a b) (s : Selecting) :
    ORel SelRel (selNextPage env s a) (selNextPage env s b) := by
  obtain ⟨t, k, rfl⟩ := h.out
  unfold selNextPage
  sm_norm
  repeat' split2
  all_goals first
    | selrel_leaf
    | rfl
    | trivial

theorem selDigit_rel {a b : Shared D L} (h : MetaEq a b) (s : Selecting) (c : Nat) :
    ORel SelRel (selDigit env s a c) (selDigit env s b c) := by
  have hs := select_rel env h s (c - 1)
  unfold selDigit
  rcases hs.cases with ⟨⟨s1, x, u⟩, ⟨s2, y, v⟩, h1, h2, hs, hm, hv⟩ | ⟨p, h1, h2⟩ | ⟨h1, h2⟩ <;> rw [h1, h2]
  · exact ⟨hm, hs, hv⟩
  · rfl
  · trivial

/-- `impl State for Selecting`: `next` -/
theorem selectingNext_rel {a b : Shared D L} (h : MetaEq a b) (s : Selecting) (ev : KeyEvent) :
    ORel SelRel (selectingNext env s a ev) (selectingNext env s b ev) := by
  obtain ⟨t, k, rfl⟩ := h.out
  unfold selectingNext
  refine orel_ite (fun _ => by selrel_leaf) fun _ => ?_
  refine orel_ite (fun _ => by selrel_leaf) fun _ => ?_
  refine orel_ite (fun _ => by selrel_leaf) fun _ => ?_
  refine orel_ite (fun _ => by selrel_leaf) fun _ => ?_
  refine orel_ite (fun _ => selDownSpace_rel env (by meq) s) fun _ => ?_
  refine orel_ite (fun _ => selMove_rel env (by meq) s _) fun _ => ?_
  refine orel_ite (fun _ => selMove_rel env (by meq) s _) fun _ => ?_
  refine orel_ite (fun _ => selPrevPage_rel env (by meq) s) fun _ => ?_
  refine orel_ite (fun _ => selNextPage_rel env (by meq) s) fun _ => ?_
  refine orel_ite (fun _ => selDigit_rel env (by meq) s _) fun _ => ?_
  refine orel_ite (fun _ => by selrel_leaf) fun _ => ?_
  refine orel_ite (fun _ => by selrel_leaf) fun _ => ?_
  selrel_leaf

/-! ### `Highlighting` -/

/-- `impl State for Highlighting`: `next` -/
theorem highlightingNext_rel {a b : Shared D L} (h : MetaEq a b) (m : Nat) (ev : KeyEvent) :
    ORel PRel (highlightingNext env m a ev) (highlightingNext env m b ev) := by
  obtain ⟨t, k, rfl⟩ := h.out
  unfold highlightingNext
  sm_norm
  refine orel_ite (fun _ => by prel_leaf) fun _ => ?_
  refine orel_ite (fun _ => by prel_leaf) fun _ => ?_
  refine orel_ite (fun _ => by prel_leaf) fun _ => ?_
  refine orel_ite (fun _ => ?_) fun _ => by prel_leaf
  have hl := learnInRangeNotify_rel env
    (by meq : MetaEq { a with com := a.com.moveCursor m } { sm a t k with com := a.com.moveCursor m })
    (min m a.com.cursor) (max m a.com.cursor)
  repeat' split
  all_goals (have hh := ORel.of_eqs hl (by assumption) (by assumption))
  all_goals first
    | exact False.elim hh
    | exact ⟨hh.1, rfl⟩
    | rfl
    | trivial

/-! ### `applyTrans` -/

theorem applyTrans_rel {a b : Shared D L} (h : MetaEq a b) (st : St) (tr : Trans) :
    PRel (applyTrans a st tr) (applyTrans b st tr) := by
  obtain ⟨t, k, rfl⟩ := h.out
  cases tr <;> exact ⟨by meq, rfl⟩

end Chewing
