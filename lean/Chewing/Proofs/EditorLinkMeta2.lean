import Chewing.Proofs.EditorLinkMeta
import Chewing.Props.C06
/-!
Frame proof for C17, second part: `process_keyevent` and the API entry points.  For every environment
in which time stamps and flushing are unobservable (`MetaBlindEnv`), editors that are equal up to the
estimator clock and the pending flush level (`EdMetaEq`) answer every one of the 14 operations alike:
same return value and related successors, or the same panic (`applyR_rel`, `applyR_metaEq`).
-/
namespace Chewing
open Chewing.C06

variable {D L : Type} (env : Env D L)

/-- editors equal up to the clock and the flush level -/
def EdMetaEq (e₁ e₂ : Editor D L) : Prop := e₁.state = e₂.state ∧ MetaEq e₁.shared e₂.shared

theorem EdMetaEq.refl (e : Editor D L) : EdMetaEq e e := ⟨rfl, MetaEq.refl _⟩

theorem EdMetaEq.symm {e₁ e₂ : Editor D L} (h : EdMetaEq e₁ e₂) : EdMetaEq e₂ e₁ := ⟨h.1.symm, h.2.symm⟩

theorem EdMetaEq.trans {e₁ e₂ e₃ : Editor D L} (h1 : EdMetaEq e₁ e₂) (h2 : EdMetaEq e₂ e₃) : EdMetaEq e₁ e₃ :=
  ⟨h1.1.trans h2.1, h1.2.trans h2.2⟩

/-- the second editor is the first with another clock and flush level -/
theorem EdMetaEq.out {e₁ e₂ : Editor D L} (h : EdMetaEq e₁ e₂) :
    ∃ t k, e₂ = { shared := sm e₁.shared t k, state := e₁.state } := by
  obtain ⟨a, st⟩ := e₁
  obtain ⟨b, st'⟩ := e₂
  obtain ⟨hs, hm⟩ := h
  dsimp only at hs hm
  subst hs
  obtain ⟨t, k, rfl⟩ := hm.out
  exact ⟨t, k, rfl⟩

/-- related editors, equal return values -/
def ERel {β : Type} (x y : Editor D L × β) : Prop := EdMetaEq x.1 y.1 ∧ x.2 = y.2

theorem MetaEq.last_eq {a b : Shared D L} (h : MetaEq a b) : b.last = a.last := by
  obtain ⟨t, k, rfl⟩ := h.out; rfl

/-! ### `process_keyevent` -/

/-- the state machine part of a key -/
theorem dispatch_rel (hE : MetaBlindEnv env) {e₁ e₂ : Editor D L} (h : EdMetaEq e₁ e₂) (ev : KeyEvent) :
    ORel PRel (dispatch env e₁ ev) (dispatch env e₂ ev) := by
  obtain ⟨t, k, rfl⟩ := h.out
  obtain ⟨a, st⟩ := e₁
  have hp : MetaEq (preamble a) (preamble (sm a t k)) := rfl
  unfold dispatch
  cases st with
  | entering =>
    refine orel_map (enteringNext_rel env hE hp ev) ?_
    intro ⟨x, u⟩ ⟨y, v⟩ ⟨hm, hv⟩
    dsimp only at hm hv
    subst hv
    exact applyTrans_rel hm _ _
  | enteringSyllable =>
    refine orel_map (enteringSyllableNext_rel env hp ev) ?_
    intro ⟨x, u⟩ ⟨y, v⟩ ⟨hm, hv⟩
    dsimp only at hm hv
    subst hv
    exact applyTrans_rel hm _ _
  | selecting s =>
    refine orel_map (selectingNext_rel env hp s ev) ?_
    intro ⟨x, s1, u⟩ ⟨y, s2, v⟩ ⟨hm, hs, hv⟩
    dsimp only at hm hs hv
    subst hs hv
    exact applyTrans_rel hm _ _
  | highlighting m =>
    refine orel_map (highlightingNext_rel env hp m ev) ?_
    intro ⟨x, m1, u⟩ ⟨y, m2, v⟩ ⟨hm, hv⟩
    dsimp only at hm hv
    injection hv with h1 h2
    subst h1 h2
    exact applyTrans_rel hm _ _

/-- the dictionary flush at the end of a key: invisible when `reopen` + `flush` is the identity -/
theorem flush_meta (hE : MetaBlindEnv env) (sh : Shared D L) :
    MetaEq sh (if sh.dirty > 0 then { sh with dict := env.reopenFlush sh.dict, dirty := 0 } else sh) := by
  split
  · rw [hE.flush_id]; cases sh; rfl
  · exact MetaEq.refl _

theorem flush_rel (hE : MetaBlindEnv env) {x y : Shared D L} (h : MetaEq x y) :
    MetaEq (if x.dirty > 0 then { x with dict := env.reopenFlush x.dict, dirty := 0 } else x)
      (if y.dirty > 0 then { y with dict := env.reopenFlush y.dict, dirty := 0 } else y) :=
  ((flush_meta env hE x).symm.trans h).trans (flush_meta env hE y)

/-- auto-commit and dictionary flush -/
theorem tail_rel (hE : MetaBlindEnv env) {a b : Shared D L} (h : MetaEq a b) (st : St) :
    ORel ERel (tail env a st) (tail env b st) := by
  have hl : ORel MetaEq
      (if ((st == .entering || st == .enteringSyllable) && a.last == .absorb) = true then Shared.tryAutoCommit env a else .ok a)
      (if ((st == .entering || st == .enteringSyllable) && b.last == .absorb) = true then Shared.tryAutoCommit env b else .ok b) := by
    rw [h.last_eq]
    exact orel_ite (fun _ => tryAutoCommit_rel env h) (fun _ => h)
  unfold tail
  rcases hl.cases with ⟨x, y, h1, h2, hm⟩ | ⟨p, h1, h2⟩ | ⟨h1, h2⟩ <;> rw [h1, h2]
  · have hf := flush_rel env hE hm
    exact ⟨⟨rfl, hf⟩, hf.last_eq.symm⟩
  · rfl
  · trivial

/-- `BasicEditor::process_keyevent` -/
theorem processKey_rel (hE : MetaBlindEnv env) {e₁ e₂ : Editor D L} (h : EdMetaEq e₁ e₂) (ev : KeyEvent) :
    ORel ERel (e₁.processKey env ev) (e₂.processKey env ev) := by
  rw [processKey_eq, processKey_eq]
  rcases (dispatch_rel env hE h ev).cases with ⟨⟨x, s1⟩, ⟨y, s2⟩, h1, h2, hm, hs⟩ | ⟨p, h1, h2⟩ | ⟨h1, h2⟩ <;> rw [h1, h2]
  · dsimp only at hm hs ⊢
    subst hs
    exact tail_rel env hE hm _
  · rfl
  · trivial

/-! ### the API entry points -/

theorem leaveIfEmpty_rel {e₁ e₂ : Editor D L} (h : EdMetaEq e₁ e₂) :
    EdMetaEq (e₁.leaveIfEmpty env) (e₂.leaveIfEmpty env) := by
  obtain ⟨t, k, rfl⟩ := h.out
  unfold Editor.leaveIfEmpty
  sm_norm
  split2
  · exact ⟨rfl, by meq⟩
  · exact ⟨rfl, by meq⟩

/-- the part of `Editor::select` after `Selecting::select` -/
def afterSelect (p : Shared D L × St) : Outcome (Editor D L × Bool) :=
  match (if (p.2 == .entering || p.2 == .enteringSyllable) && p.1.last == .absorb then Shared.tryAutoCommit env p.1 else .ok p.1) with
  | .ok sh => .ok ({ shared := sh, state := p.2 }, sh.last != .bell)
  | .panic q => .panic q
  | .outOfFuel => .outOfFuel

theorem afterSelect_rel {p q : Shared D L × St} (h : PRel p q) : ORel ERel (afterSelect env p) (afterSelect env q) := by
  obtain ⟨a, st⟩ := p
  obtain ⟨b, st'⟩ := q
  obtain ⟨hm, hs⟩ := h
  dsimp only at hm hs
  subst hs
  have hl : ORel MetaEq
      (if ((st == .entering || st == .enteringSyllable) && a.last == .absorb) = true then Shared.tryAutoCommit env a else .ok a)
      (if ((st == .entering || st == .enteringSyllable) && b.last == .absorb) = true then Shared.tryAutoCommit env b else .ok b) := by
    rw [hm.last_eq]
    exact orel_ite (fun _ => tryAutoCommit_rel env hm) (fun _ => hm)
  unfold afterSelect
  dsimp only
  rcases hl.cases with ⟨x, y, h1, h2, hxy⟩ | ⟨p, h1, h2⟩ | ⟨h1, h2⟩ <;> rw [h1, h2]
  · exact ⟨⟨rfl, hxy⟩, by dsimp only; rw [hxy.last_eq]⟩
  · rfl
  · trivial

theorem select_eq (e : Editor D L) (n : Nat) :
    e.select env n =
      match e.state with
      | .selecting s =>
        match Selecting.select env s e.shared n with
        | .ok (s', sh, t) => afterSelect env (applyTrans sh (.selecting s') t)
        | .panic p => .panic p
        | .outOfFuel => .outOfFuel
      | _ => .ok (e, false) := by
  unfold Editor.select afterSelect
  cases e.state <;> rfl

/-- `Editor::select(n)` -/
theorem editorSelect_rel {e₁ e₂ : Editor D L} (h : EdMetaEq e₁ e₂) (n : Nat) :
    ORel ERel (e₁.select env n) (e₂.select env n) := by
  obtain ⟨t, k, rfl⟩ := h.out
  obtain ⟨a, st⟩ := e₁
  rw [select_eq, select_eq]
  cases st with
  | selecting s =>
    dsimp only
    rcases (select_rel env (MetaEq.of_sm a t k) s n).cases with
      ⟨⟨s1, x, u⟩, ⟨s2, y, v⟩, h1, h2, hs, hm, hv⟩ | ⟨p, h1, h2⟩ | ⟨h1, h2⟩ <;> rw [h1, h2]
    · dsimp only at hs hm hv ⊢
      subst hs hv
      exact afterSelect_rel env (applyTrans_rel hm _ _)
    · rfl
    · trivial
  | entering => exact ⟨⟨rfl, by meq⟩, rfl⟩
  | enteringSyllable => exact ⟨⟨rfl, by meq⟩, rfl⟩
  | highlighting m => exact ⟨⟨rfl, by meq⟩, rfl⟩

/-- `Editor::cancel_selecting` -/
theorem cancelSelecting_rel {e₁ e₂ : Editor D L} (h : EdMetaEq e₁ e₂) :
    ERel e₁.cancelSelecting e₂.cancelSelecting := by
  obtain ⟨t, k, rfl⟩ := h.out
  obtain ⟨a, st⟩ := e₁
  cases st <;> exact ⟨⟨rfl, by meq⟩, rfl⟩

/-- `Editor::commit` -/
theorem editorCommit_rel (hE : MetaBlindEnv env) {e₁ e₂ : Editor D L} (h : EdMetaEq e₁ e₂) :
    ORel ERel (e₁.commit env) (e₂.commit env) := by
  obtain ⟨t, k, rfl⟩ := h.out
  obtain ⟨a, st⟩ := e₁
  unfold Editor.commit
  dsimp only
  refine orel_ite (fun _ => ⟨⟨rfl, by meq⟩, rfl⟩) fun _ => ?_
  rcases (commit_rel env hE (MetaEq.of_sm a t k)).cases with ⟨x, y, h1, h2, hm⟩ | ⟨p, h1, h2⟩ | ⟨h1, h2⟩ <;> rw [h1, h2]
  · exact ⟨⟨rfl, hm⟩, rfl⟩
  · rfl
  · trivial

/-- the part of `Editor::start_selecting` after the state's `start_selecting` -/
def afterStart (st : St) (r : StepRes D L) : Outcome (Editor D L × Bool) :=
  match r with
  | .ok (sh, t) =>
    let e' := Editor.leaveIfEmpty env { shared := (applyTrans sh st t).1, state := (applyTrans sh st t).2 }
    .ok (e', match e'.state with
      | .selecting _ => true
      | _ => false)
  | .panic p => .panic p
  | .outOfFuel => .outOfFuel

theorem startSelecting_eq (e : Editor D L) :
    e.startSelecting env =
      afterStart env e.state (match e.state with
        | .entering => Chewing.startSelecting env e.shared
        | .enteringSyllable => Chewing.startSelecting env { e.shared with syl := env.clearSyl e.shared.syl }
        | _ => .ok (e.shared, .spin .bell)) := by
  unfold Editor.startSelecting afterStart
  rfl

theorem afterStart_rel (st : St) {r₁ r₂ : StepRes D L} (h : StepRel r₁ r₂) :
    ORel ERel (afterStart env st r₁) (afterStart env st r₂) := by
  rcases h.cases with ⟨⟨x, u⟩, ⟨y, v⟩, h1, h2, hm, hv⟩ | ⟨p, h1, h2⟩ | ⟨h1, h2⟩ <;> subst h1 h2
  · dsimp only at hm hv
    subst hv
    have ha := applyTrans_rel hm st u
    have hl := leaveIfEmpty_rel env
      (e₁ := { shared := (applyTrans x st u).1, state := (applyTrans x st u).2 })
      (e₂ := { shared := (applyTrans y st u).1, state := (applyTrans y st u).2 }) ⟨ha.2, ha.1⟩
    unfold afterStart
    exact ⟨hl, by dsimp only; rw [hl.1]⟩
  · rfl
  · trivial

/-- `Editor::start_selecting` -/
theorem editorStartSelecting_rel {e₁ e₂ : Editor D L} (h : EdMetaEq e₁ e₂) :
    ORel ERel (e₁.startSelecting env) (e₂.startSelecting env) := by
  obtain ⟨t, k, rfl⟩ := h.out
  obtain ⟨a, st⟩ := e₁
  rw [startSelecting_eq, startSelecting_eq]
  refine afterStart_rel env _ ?_
  cases st with
  | entering => exact startSelecting_rel env (by meq)
  | enteringSyllable => exact startSelecting_rel env (by meq)
  | selecting s => exact ⟨by meq, rfl⟩
  | highlighting m => exact ⟨by meq, rfl⟩

/-- `Editor::jump_to_{first,last,next,prev}_selection_point` -/
theorem jump_rel {e₁ e₂ : Editor D L} (h : EdMetaEq e₁ e₂) (w : Nat) :
    ORel ERel (e₁.jump env w) (e₂.jump env w) := by
  obtain ⟨t, k, rfl⟩ := h.out
  obtain ⟨a, st⟩ := e₁
  unfold Editor.jump
  sm_norm
  repeat' split2
  all_goals first
    | exact (⟨⟨rfl, by meq⟩, rfl⟩ : ERel _ _)
    | rfl
    | trivial

/-- `Editor::set_editor_options` -/
theorem setOptions_rel {e₁ e₂ : Editor D L} (h : EdMetaEq e₁ e₂) (o : Options) :
    EdMetaEq (e₁.setOptions env o) (e₂.setOptions env o) := by
  obtain ⟨t, k, rfl⟩ := h.out
  obtain ⟨a, st⟩ := e₁
  unfold Editor.setOptions
  sm_norm
  split2
  · exact leaveIfEmpty_rel env ⟨rfl, by meq⟩
  · exact leaveIfEmpty_rel env ⟨rfl, by meq⟩

/-- `Editor::revalidate_selecting` (F32 repair, the last step of the option / layout / dictionary calls):
    the page count it reads depends on neither the clock nor the flush level -/
theorem revalidate_rel {e₁ e₂ : Editor D L} (h : EdMetaEq e₁ e₂) :
    ORel EdMetaEq (e₁.revalidate env) (e₂.revalidate env) := by
  obtain ⟨t, k, rfl⟩ := h.out
  obtain ⟨a, st⟩ := e₁
  have leaf : ∀ (x : Shared D L) (st' : St), ORel EdMetaEq (.ok { shared := x, state := st' })
      (.ok { shared := sm x t k, state := st' }) := fun x st' => ⟨rfl, MetaEq.of_sm x t k⟩
  cases st with
  | selecting s =>
    simp only [Editor.revalidate, totalPage_sm]
    cases Selecting.totalPage env s a with
    | ok tp =>
      dsimp only
      split2
      · exact leaf _ _
      · split2
        · exact leaf _ _
        · exact leaf _ _
    | panic q => rfl
    | outOfFuel => trivial
  | entering => exact leaf _ _
  | enteringSyllable => exact leaf _ _
  | highlighting m => exact leaf _ _

/-- … with the call's return value attached -/
theorem revalidate_erel {e₁ e₂ : Editor D L} (h : EdMetaEq e₁ e₂) (v : Value) :
    ORel ERel ((e₁.revalidate env).map fun e' => (e', v)) ((e₂.revalidate env).map fun e' => (e', v)) :=
  orel_map (revalidate_rel env h) fun _ _ hm => ⟨hm, rfl⟩

/-! ### every operation -/

/-- **the step property**: related editors answer every operation alike -/
theorem applyR_rel (hE : MetaBlindEnv env) {e₁ e₂ : Editor D L} (h : EdMetaEq e₁ e₂) (o : Op L) :
    ORel ERel (e₁.applyR env o) (e₂.applyR env o) := by
  have hval : ∀ {β : Type} (f : β → Value) {r₁ r₂ : Outcome (Editor D L × β)}, ORel ERel r₁ r₂ →
      ORel ERel (r₁.map fun r => (r.1, f r.2)) (r₂.map fun r => (r.1, f r.2)) := by
    intro β f r₁ r₂ hr
    refine orel_map hr ?_
    intro x y ⟨hm, hv⟩
    exact ⟨hm, by dsimp only; rw [hv]⟩
  cases o with
  | key ev => exact hval .kb (processKey_rel env hE h ev)
  | select n => exact hval .bool (editorSelect_rel env h n)
  | startSelecting => exact hval .bool (editorStartSelecting_rel env h)
  | cancelSelecting =>
    have hc := cancelSelecting_rel h
    exact ⟨hc.1, by dsimp only; rw [hc.2]⟩
  | commit => exact hval .bool (editorCommit_rel env hE h)
  | clear =>
    obtain ⟨t, k, rfl⟩ := h.out
    exact ⟨⟨rfl, by meq⟩, rfl⟩
  | ack =>
    obtain ⟨t, k, rfl⟩ := h.out
    exact ⟨⟨rfl, by meq⟩, rfl⟩
  | clearSyl =>
    obtain ⟨t, k, rfl⟩ := h.out
    exact ⟨leaveIfEmpty_rel env ⟨rfl, by meq⟩, rfl⟩
  | setOptions o => exact revalidate_erel env (setOptions_rel env h o) _
  | setLayout l =>
    obtain ⟨t, k, rfl⟩ := h.out
    exact revalidate_erel env (e₁ := e₁.setLayout env l)
      (e₂ := Editor.setLayout env { shared := sm e₁.shared t k, state := e₁.state } l)
      (leaveIfEmpty_rel env ⟨rfl, MetaEq.of_sm _ t k⟩) _
  | setEngine g =>
    obtain ⟨t, k, rfl⟩ := h.out
    exact ⟨⟨rfl, by meq⟩, rfl⟩
  | learn ks p =>
    simp only [Editor.applyR]
    rcases (learnPhrase_rel env hE h.2 ks p).cases with ⟨⟨x, u⟩, ⟨y, v⟩, h1, h2, hm, hv⟩ | ⟨q, h1, h2⟩ | ⟨h1, h2⟩ <;>
      rw [h1, h2]
    · dsimp only at hm hv
      subst hv
      exact revalidate_erel env (e₁ := { e₁ with shared := x }) (e₂ := { e₂ with shared := y }) ⟨h.1, hm⟩ _
    · rfl
    · trivial
  | unlearn ks p =>
    exact revalidate_erel env (e₁ := { e₁ with shared := Shared.unlearnPhrase env e₁.shared ks p })
      (e₂ := { e₂ with shared := Shared.unlearnPhrase env e₂.shared ks p }) ⟨h.1, unlearnPhrase_rel env h.2 ks p⟩ _
  | jump w => exact hval .bool (jump_rel env h w)

/-- the step property in the form `ResetFreshModuloClock` (Props/C17) asks for, all 14 operations -/
theorem applyR_metaEq (hE : MetaBlindEnv env) : ∀ (e₁ e₂ : Editor D L) (o : Op L), EdMetaEq e₁ e₂ →
    match e₁.applyR env o, e₂.applyR env o with
    | .ok (a₁, v₁), .ok (a₂, v₂) => EdMetaEq a₁ a₂ ∧ v₁ = v₂
    | .panic p, .panic q => p = q
    | .outOfFuel, .outOfFuel => True
    | _, _ => False := by
  intro e₁ e₂ o h
  rcases (applyR_rel env hE h o).cases with ⟨⟨a₁, v₁⟩, ⟨a₂, v₂⟩, h1, h2, hr⟩ | ⟨p, h1, h2⟩ | ⟨h1, h2⟩ <;> rw [h1, h2]
  · exact hr
  · trivial

end Chewing
