import Chewing.Props.C04
import Chewing.Props.C06
import Chewing.Proofs.EditorCursor
import Chewing.Proofs.EditorSylInv
import Chewing.Proofs.LayoutEditor
/-!
Stage B of C14 over whole histories, part 1: **syllable symbols enter the pre-edit buffer only through
`EnteringSyllable::next`** (`syllableAnswer`).

`NoNewSyl c c'` : every syllable symbol of the composition editor `c'` is already a symbol of `c`
(characters may have come and gone, symbols may have been removed).  For every arm of the states
`Entering`, `Selecting`, `Highlighting`, for the auto-commit tail of `process_keyevent` and for the other
public entry points of `Editor`, the composition editor after the call is `NoNewSyl` of the one before —
for EVERY environment.  (The development follows `Proofs/EditorCursor.lean` arm by arm, with the
relation `Reach` replaced by the semantic relation `NoNewSyl`; what the arms insert or write over a symbol
is always a `Sym.chr`.)

Part 2 (`Proofs/EditorLinkSyl2.lean`) adds the state `EnteringSyllable` (`enteringSyllable_sound`) and the
layout state, and lifts both over `Editor.run`.
-/
namespace Chewing.LinkSyl
open Chewing Chewing.C04

/-- every syllable symbol of `c'` is already a symbol of `c` -/
def NoNewSyl (c c' : CompEditor) : Prop :=
  ∀ s, Sym.syl s ∈ c'.inner.symbols → Sym.syl s ∈ c.inner.symbols

namespace NoNewSyl

theorem refl (c : CompEditor) : NoNewSyl c c := fun _ h => h

theorem trans {a b c : CompEditor} (h1 : NoNewSyl a b) (h2 : NoNewSyl b c) : NoNewSyl a c :=
  fun s h => h1 s (h2 s h)

theorem of_symbols {c c' : CompEditor} (h : c'.inner.symbols = c.inner.symbols) : NoNewSyl c c' := by
  intro s hs; rw [h] at hs; exact hs

theorem of_inner {c c' : CompEditor} (h : c'.inner = c.inner) : NoNewSyl c c' := of_symbols (by rw [h])

theorem of_eq {c c' : CompEditor} (h : c' = c) : NoNewSyl c c' := by rw [h]; exact refl _

theorem pushCursor (c : CompEditor) : NoNewSyl c c.pushCursor := of_symbols rfl
theorem popCursor (c : CompEditor) : NoNewSyl c c.popCursor := by
  unfold CompEditor.popCursor; split <;> exact of_symbols rfl
theorem clampCursor (c : CompEditor) : NoNewSyl c c.clampCursor := by
  unfold CompEditor.clampCursor; split <;> exact of_symbols rfl
theorem moveCursor (c : CompEditor) (n : Nat) : NoNewSyl c (c.moveCursor n) := of_symbols rfl
theorem clear (c : CompEditor) : NoNewSyl c c.clear := by
  intro s h; cases h
theorem moveToEnd (c : CompEditor) : NoNewSyl c c.moveToEnd := of_symbols rfl
theorem moveToBeginning (c : CompEditor) : NoNewSyl c c.moveToBeginning := of_symbols rfl
theorem moveLeft (c : CompEditor) : NoNewSyl c c.moveLeft := of_symbols rfl
theorem moveRight (c : CompEditor) : NoNewSyl c c.moveRight := of_symbols rfl

end NoNewSyl

/-- `insert`: the new symbols are the old ones and the inserted one -/
theorem insert_mem {c c' : CompEditor} {x : Sym} (h : c.insert x = .ok c') :
    ∀ y, y ∈ c'.inner.symbols → y = x ∨ y ∈ c.inner.symbols := by
  obtain ⟨k, hk, rfl⟩ := withInner_ok h
  intro y hy
  have := (insert_symbols hk).2
  simp only at hy
  rw [this] at hy
  simp only [List.mem_append, List.mem_cons, List.not_mem_nil, or_false] at hy
  rcases hy with (hy | hy) | hy
  · exact Or.inr (List.mem_of_mem_take hy)
  · exact Or.inl hy
  · exact Or.inr (List.mem_of_mem_drop hy)

/-- `replace`: the new symbols are among the old ones and the written one -/
theorem replace_mem {c c' : CompEditor} {x : Sym} (h : c.replace x = .ok c') :
    ∀ y, y ∈ c'.inner.symbols → y = x ∨ y ∈ c.inner.symbols := by
  obtain ⟨k, hk, rfl⟩ := withInner_ok h
  intro y hy
  have := (replace_symbols hk).2
  simp only at hy
  rw [this] at hy
  simp only [List.mem_append, List.mem_cons, List.not_mem_nil, or_false] at hy
  rcases hy with (hy | hy) | hy
  · exact Or.inr (List.mem_of_mem_take hy)
  · exact Or.inl hy
  · exact Or.inr (List.mem_of_mem_drop hy)

namespace NoNewSyl

theorem insert {c c' : CompEditor} {x : Sym} (hx : x.isSyl = false) (h : c.insert x = .ok c') : NoNewSyl c c' := by
  intro s hs
  rcases insert_mem h _ hs with e | e
  · rw [← e] at hx; cases hx
  · exact e

theorem replace {c c' : CompEditor} {x : Sym} (hx : x.isSyl = false) (h : c.replace x = .ok c') : NoNewSyl c c' := by
  intro s hs
  rcases replace_mem h _ hs with e | e
  · rw [← e] at hx; cases hx
  · exact e

theorem select {c c' : CompEditor} {iv : Interval} (h : c.select iv = .ok c') : NoNewSyl c c' := by
  unfold CompEditor.select at h
  split at h
  · cases h
  · obtain ⟨k, hk, rfl⟩ := withInner_ok h
    exact of_symbols (pushSelection_symbols hk)

theorem removeFront {c c' : CompEditor} {n : Nat} (h : c.removeFront n = .ok c') : NoNewSyl c c' := by
  obtain ⟨k, hk, rfl⟩ := withInner_ok h
  intro s hs
  simp only at hs
  rw [(removeFront_symbols hk).2] at hs
  exact List.mem_of_mem_drop hs

theorem removeAt {k k' : Composition} {i : Nat} (hk : k.remove i = .ok k') :
    ∀ y, y ∈ k'.symbols → y ∈ k.symbols := by
  intro y hy
  rw [(remove_symbols hk).2] at hy
  rcases List.mem_append.mp hy with hy | hy
  · exact List.mem_of_mem_take hy
  · exact List.mem_of_mem_drop hy

theorem removeAfterCursor {c c' : CompEditor} (h : c.removeAfterCursor = .ok c') : NoNewSyl c c' := by
  obtain ⟨k, hk, rfl⟩ := withInner_ok h
  intro s hs
  exact removeAt hk _ hs

theorem removeBeforeCursor {c c' : CompEditor} (h : c.removeBeforeCursor = .ok c') : NoNewSyl c c' := by
  unfold CompEditor.removeBeforeCursor at h
  split at h
  · cases h; exact refl _
  · obtain ⟨k, hk, rfl⟩ := withInner_ok h
    intro s hs
    exact removeAt hk _ hs

theorem insertGap {c c' : CompEditor} {g : Gap} (h : c.insertGap g = .ok c') : NoNewSyl c c' := by
  unfold CompEditor.insertGap at h
  split at h
  · cases h; exact refl _
  · obtain ⟨k, hk, rfl⟩ := withInner_ok h
    exact of_symbols (setGap_symbols hk)

theorem insertGlue {c c' : CompEditor} (h : c.insertGlue = .ok c') : NoNewSyl c c' := insertGap h
theorem insertBreak {c c' : CompEditor} (h : c.insertBreak = .ok c') : NoNewSyl c c' := insertGap h

end NoNewSyl

variable {D L : Type} (env : Env D L)

/-- `insertChars` inserts characters only -/
theorem nn_insertChars (cs : List Nat) : ∀ (c c' : CompEditor), insertChars c cs = .ok c' → NoNewSyl c c' := by
  induction cs with
  | nil => intro c c' h; simp only [insertChars] at h; cases h; exact .refl _
  | cons x xs ih =>
    intro c c' h
    simp only [insertChars] at h
    split at h
    · next c1 h1 => exact (NoNewSyl.insert rfl h1).trans (ih c1 c' h)
    · cases h
    · cases h

/-! ### step results -/

/-- every successful result of a state's `next` arm has no syllable symbol that `c0` had not -/
def NStep (c0 : CompEditor) (r : StepRes D L) : Prop := ∀ sh' t, r = .ok (sh', t) → NoNewSyl c0 sh'.com

macro "nstep_leaf" e:term : tactic =>
  `(tactic| (intro sh' t h; injection h with h; injection h with h1 h2; subst h1 h2; exact $e))

theorem nstep_ite {c0 : CompEditor} {c : Prop} [Decidable c] {a b : StepRes D L}
    (h1 : NStep c0 a) (h2 : NStep c0 b) : NStep c0 (if c then a else b) := by
  split <;> assumption

theorem nstep_panic (c0 : CompEditor) (p : String) : NStep (D := D) (L := L) c0 (.panic p) := by
  intro sh' t h; cases h

theorem nstep_fuel (c0 : CompEditor) : NStep (D := D) (L := L) c0 .outOfFuel := by
  intro sh' t h; cases h

theorem nstep_withCom {c0 : CompEditor} (sh : Shared D L) (r : Outcome CompEditor) (k : Shared D L → StepRes D L)
    (hk : ∀ c, r = .ok c → NStep c0 (k { sh with com := c })) :
    NStep c0 (withCom sh r k) := by
  unfold withCom
  cases r with
  | ok c => exact hk c rfl
  | panic p => exact nstep_panic _ p
  | outOfFuel => exact nstep_fuel _

theorem nstep_withCom_absorb {c0 : CompEditor} (sh : Shared D L) (r : Outcome CompEditor)
    (hr : ∀ c, r = .ok c → NoNewSyl c0 c) :
    NStep c0 (withCom sh r fun sh => .ok (sh, .spin .absorb)) :=
  nstep_withCom sh r _ fun c hc => by nstep_leaf (hr c hc)

theorem nstep_commitOrInsert (sh : Shared D L) (ch : Nat) : NStep sh.com (commitOrInsert sh ch) := by
  unfold commitOrInsert
  split
  · nstep_leaf (NoNewSyl.refl _)
  · exact nstep_withCom_absorb _ _ fun c h => NoNewSyl.insert rfl h

theorem nstep_inputChar (sh : Shared D L) (ev : KeyEvent) : NStep sh.com (inputChar sh ev) := by
  unfold inputChar fullOrBell
  repeat' split
  all_goals first
    | exact nstep_commitOrInsert _ _
    | nstep_leaf (NoNewSyl.refl _)

theorem nstep_chineseFallback (sh : Shared D L) (ev : KeyEvent) : NStep sh.com (chineseFallback sh ev) := by
  unfold chineseFallback
  repeat' split
  all_goals first
    | exact nstep_withCom_absorb _ _ fun c h => NoNewSyl.insert rfl h
    | exact nstep_inputChar _ _
    | nstep_leaf (NoNewSyl.refl _)

theorem nstep_newPhrase (sh : Shared D L) : NStep sh.com (newPhrase env sh) := by
  unfold newPhrase
  simp only
  split
  · nstep_leaf ((NoNewSyl.pushCursor _).trans (NoNewSyl.clampCursor _))
  · exact nstep_panic _ _
  · exact nstep_fuel _

theorem nstep_openPhrase (sh : Shared D L) : NStep sh.com (openPhrase env sh) := by
  intro sh' t h
  rcases openPhrase_cases env h with ⟨h1, _⟩ | ⟨_, rfl⟩
  · exact nstep_newPhrase env sh sh' t h1
  · exact ((NoNewSyl.pushCursor _).trans (NoNewSyl.clampCursor _)).trans (NoNewSyl.popCursor _)

theorem nstep_newPhraseSimple (sh : Shared D L) : NStep sh.com (newPhraseSimple sh) := by
  unfold newPhraseSimple
  simp only
  split
  · nstep_leaf (NoNewSyl.pushCursor _)
  · exact nstep_panic _ _
  · exact nstep_fuel _

theorem nstep_newSpecialSymbol (sh : Shared D L) (sym : Sym) : NStep sh.com (newSpecialSymbol sh sym) := by
  unfold newSpecialSymbol
  simp only
  split
  · nstep_leaf ((NoNewSyl.pushCursor _).trans (NoNewSyl.clampCursor _))
  · nstep_leaf ((NoNewSyl.pushCursor _).trans (NoNewSyl.clampCursor _))
  · exact nstep_panic _ _
  · exact nstep_fuel _

theorem nstep_openSymbol (sh : Shared D L) : NStep sh.com (openSymbol env sh) := by
  intro sh' t h
  obtain ⟨rfl, _⟩ := openSymbol_cases env h
  exact NoNewSyl.refl _

theorem nstep_openSpecialSymbol (sh : Shared D L) (sym : Sym) : NStep sh.com (openSpecialSymbol env sh sym) := by
  intro sh' t h
  rcases openSpecialSymbol_cases env h with ⟨h1, _⟩ | ⟨_, rfl⟩
  · exact nstep_newSpecialSymbol sh sym sh' t h1
  · exact ((NoNewSyl.pushCursor _).trans (NoNewSyl.clampCursor _)).trans (NoNewSyl.popCursor _)

theorem nstep_startSelecting (sh : Shared D L) : NStep sh.com (startSelecting env sh) := by
  unfold startSelecting
  repeat' split
  all_goals first
    | exact nstep_openPhrase env _
    | exact nstep_openSpecialSymbol env _ _
    | nstep_leaf (NoNewSyl.refl _)

theorem nstep_startSelectingOrInputSpace (sh : Shared D L) :
    NStep sh.com (startSelectingOrInputSpace env sh) := by
  unfold startSelectingOrInputSpace
  repeat' split
  all_goals first
    | exact nstep_openPhrase env _
    | exact nstep_openSpecialSymbol env _ _
    | nstep_leaf (NoNewSyl.refl _)

theorem nstep_learnTrans (sh : Shared D L) (a b : Nat) :
    NStep sh.com (learnTrans (Shared.learnInRangeNotify env sh a b)) := by
  unfold learnTrans
  split
  · rename_i sh1 okk hq
    have hc := (learnInRangeNotify_com env sh a b).elim hq
    intro sh' t h; injection h with h; injection h with h1 h2; subst h1
    rw [hc]; exact .refl _
  · exact nstep_panic _ _
  · exact nstep_fuel _

theorem nstep_enteringDefault (sh : Shared D L) (ev : KeyEvent) : NStep sh.com (enteringDefault env sh ev) := by
  unfold enteringDefault
  repeat' split
  all_goals first
    | exact nstep_withCom_absorb _ _ fun c h => NoNewSyl.insert rfl h
    | exact nstep_withCom_absorb _ _ fun c h => nn_insertChars _ _ _ h
    | exact nstep_inputChar _ _
    | exact nstep_chineseFallback _ _
    | exact nstep_chineseFallback { sh with syl := (env.keyPress sh.syl ev).2 } ev
    | exact nstep_openSymbol env _
    | nstep_leaf (NoNewSyl.refl _)

theorem nstep_enteringBackspace (sh : Shared D L) : NStep sh.com (enteringBackspace sh) := by
  unfold enteringBackspace
  split
  · nstep_leaf (NoNewSyl.refl _)
  · exact nstep_withCom_absorb _ _ fun c h => NoNewSyl.removeBeforeCursor h

theorem nstep_enteringCtrlDigit (sh : Shared D L) (c : Nat) : NStep sh.com (enteringCtrlDigit env sh c) := by
  unfold enteringCtrlDigit
  repeat' (first | split | (dsimp only; split))
  all_goals first
    | exact nstep_learnTrans env _ _ _
    | exact nstep_openSymbol env _
    | nstep_leaf (NoNewSyl.refl _)

theorem nstep_enteringTabInside (sh : Shared D L) : NStep sh.com (enteringTabInside env sh) := by
  unfold enteringTabInside
  repeat' split
  all_goals first
    | exact nstep_withCom_absorb _ _ fun c h => NoNewSyl.insertGlue h
    | exact nstep_withCom_absorb _ _ fun c h => NoNewSyl.insertBreak h
    | exact nstep_panic _ _
    | exact nstep_fuel _

theorem nstep_enteringDel (sh : Shared D L) : NStep sh.com (enteringDel sh) := by
  unfold enteringDel
  split
  · nstep_leaf (NoNewSyl.refl _)
  · exact nstep_withCom_absorb _ _ fun c h => NoNewSyl.removeAfterCursor h

theorem nstep_enteringShiftLeft (sh : Shared D L) : NStep sh.com (enteringShiftLeft sh) := by
  unfold enteringShiftLeft
  split <;> nstep_leaf (NoNewSyl.refl _)

theorem nstep_enteringShiftRight (sh : Shared D L) : NStep sh.com (enteringShiftRight sh) := by
  unfold enteringShiftRight
  split <;> nstep_leaf (NoNewSyl.refl _)

theorem nstep_enteringEnter (sh : Shared D L) : NStep sh.com (enteringEnter env sh) := by
  unfold enteringEnter
  split
  · rename_i sh1 hq
    have hc := (commit_com env sh).elim hq
    intro sh' t h; injection h with h; injection h with h1 h2; subst h1
    rw [hc]; exact NoNewSyl.clear _
  · exact nstep_panic _ _
  · exact nstep_fuel _

theorem nstep_enteringEsc (sh : Shared D L) : NStep sh.com (enteringEsc sh) := by
  unfold enteringEsc
  split
  · nstep_leaf (NoNewSyl.clear _)
  · nstep_leaf (NoNewSyl.refl _)

/-- `Entering::next` brings no syllable symbol into the pre-edit buffer -/
theorem nstep_enteringNext (sh : Shared D L) (ev : KeyEvent) : NStep sh.com (enteringNext env sh ev) := by
  unfold enteringNext
  repeat' (with_reducible apply nstep_ite)
  all_goals first
    | exact nstep_enteringBackspace _
    | exact nstep_enteringCtrlDigit env _ _
    | exact nstep_enteringTabInside env _
    | exact nstep_enteringDel _
    | exact nstep_enteringShiftLeft _
    | exact nstep_enteringShiftRight _
    | exact nstep_enteringEnter env _
    | exact nstep_enteringEsc _
    | exact nstep_commitOrInsert _ _
    | exact nstep_enteringDefault env _ _
    | exact nstep_startSelecting env _
    | exact nstep_startSelectingOrInputSpace env _
    | nstep_leaf (NoNewSyl.refl _)
    | nstep_leaf (NoNewSyl.moveToBeginning _)
    | nstep_leaf (NoNewSyl.moveLeft _)
    | nstep_leaf (NoNewSyl.moveRight _)
    | nstep_leaf (NoNewSyl.moveToEnd _)

/-! ### Selecting -/

/-- what the symbol selector returns is a character -/
theorem symSel_select_chr {y y' : SymSel} {n : Nat} {sym : Sym} (h : y.select n = .ok (some sym, y')) :
    sym.isSyl = false := by
  unfold SymSel.select at h
  repeat' split at h
  all_goals first
    | (injection h with h; injection h with h1 h2; injection h1 with h1; subst h1; rfl)
    | (injection h with h; injection h with h1 h2; cases h1; done)
    | (cases h; done)
    | skip
  all_goals
    injection h with h; injection h with h1 h2
    rename_i row _
    cases hr : row[n]? with
    | none => rw [hr] at h1; cases h1
    | some ch => rw [hr] at h1; injection h1 with h1; subst h1; rfl

/-- what the special-symbol selector returns is a character -/
theorem specialSelect_chr {sym out : Sym} {n : Nat} (h : specialSelect sym n = .ok (some out)) :
    out.isSyl = false := by
  unfold specialSelect at h
  split at h
  · rename_i row _
    injection h with h
    cases hr : (row.drop 1)[n]? with
    | none => rw [hr] at h; cases h
    | some ch => rw [hr] at h; injection h with h; subst h; rfl
  · cases h
  · cases h
  · cases h

def NSel (c0 : CompEditor) (r : Outcome (SelRes D L)) : Prop := ∀ x, r = .ok x → NoNewSyl c0 x.shared.com

macro "nsel_leaf" e:term : tactic =>
  `(tactic| (intro x h; injection h with h; subst h; exact $e))

theorem nsel_ite {c0 : CompEditor} {c : Prop} [Decidable c] {a b : Outcome (SelRes D L)}
    (h1 : NSel c0 a) (h2 : NSel c0 b) : NSel c0 (if c then a else b) := by
  split <;> assumption

theorem nsel_panic (c0 : CompEditor) (p : String) : NSel (D := D) (L := L) c0 (.panic p) := by
  intro x h; cases h

theorem nsel_fuel (c0 : CompEditor) : NSel (D := D) (L := L) c0 .outOfFuel := by
  intro x h; cases h

theorem nsel_selDownSpace (s : Selecting) (sh : Shared D L) : NSel sh.com (selDownSpace env s sh) := by
  unfold selDownSpace
  repeat' split
  all_goals first
    | exact nsel_panic _ _
    | exact nsel_fuel _
    | nsel_leaf (NoNewSyl.refl _)

theorem nsel_closeIfEmpty (c0 : CompEditor) (r : SelRes D L) (hr : NoNewSyl c0 r.shared.com) :
    NSel c0 (closeIfEmpty env r) := by
  intro x h
  rcases closeIfEmpty_cases env h with rfl | rfl
  · exact hr
  · exact hr.trans (NoNewSyl.popCursor _)

theorem nsel_selMove (s : Selecting) (sh : Shared D L) (isJ : Bool) : NSel sh.com (selMove env s sh isJ) := by
  unfold selMove
  split
  · nsel_leaf (NoNewSyl.refl _)
  · dsimp only
    have hr : NoNewSyl sh.com (if isJ = true then sh.com.moveCursor ((match s.sel with
        | .phrase p => p.begin_
        | _ => sh.com.cursor) - 1)
        else (sh.com.moveCursor ((match s.sel with
        | .phrase p => p.begin_
        | _ => sh.com.cursor) + 1)).clampCursor) := by
      split
      · exact NoNewSyl.moveCursor _ _
      · exact (NoNewSyl.moveCursor _ _).trans (NoNewSyl.clampCursor _)
    split
    · rename_i sh' s' hq
      have := (retarget_com env s _).elim hq
      refine nsel_closeIfEmpty env _ _ ?_
      show NoNewSyl sh.com sh'.com
      rw [this]; exact hr
    · rename_i sh' t _ hq
      have := (retarget_com env s _).elim hq
      refine nsel_closeIfEmpty env _ _ ?_
      show NoNewSyl sh.com sh'.com
      rw [this]; exact hr
    · exact nsel_panic _ _
    · exact nsel_fuel _

theorem nsel_selPrevPage (s : Selecting) (sh : Shared D L) : NSel sh.com (selPrevPage env s sh) := by
  unfold selPrevPage
  repeat' split
  all_goals first
    | exact nsel_panic _ _
    | exact nsel_fuel _
    | nsel_leaf (NoNewSyl.refl _)

theorem nsel_selNextPage (s : Selecting) (sh : Shared D L) : NSel sh.com (selNextPage env s sh) := by
  unfold selNextPage
  repeat' split
  all_goals first
    | exact nsel_panic _ _
    | exact nsel_fuel _
    | nsel_leaf (NoNewSyl.refl _)

/-- `Selecting::select`: `select` of an interval, or `insert` / `replace` of a CHARACTER -/
theorem select_nn (s : Selecting) (sh : Shared D L) (n : Nat) :
    OutAll (fun x => NoNewSyl sh.com x.2.1.com) (Selecting.select env s sh n) := by
  unfold Selecting.select
  have hfin : ∀ (sh1 : Shared D L) (sym : Sym), sh1.com = sh.com → sym.isSyl = false →
      OutAll (fun x : Selecting × Shared D L × Trans => NoNewSyl sh.com x.2.1.com)
        (match (match s.action with
            | .insert => sh1.com.insert sym
            | .replace => sh1.com.replace sym) with
          | .ok com => .ok (s, { sh1 with com := com.popCursor }, .toState .entering)
          | .panic p => .panic p
          | .outOfFuel => .outOfFuel) := by
    intro sh1 sym h1 hsym
    split
    · rename_i com hq
      show NoNewSyl sh.com com.popCursor
      refine NoNewSyl.trans ?_ (NoNewSyl.popCursor _)
      rw [← h1]
      split at hq
      · exact NoNewSyl.insert hsym hq
      · exact NoNewSyl.replace hsym hq
    · trivial
    · trivial
  dsimp only
  split
  · trivial
  · trivial
  · split
    · exact NoNewSyl.refl _
    · split
      · -- phrase
        split
        · split
          · split
            · rename_i com hq
              show NoNewSyl sh.com (if sh.options.autoShiftCursor = true then com.popCursor.moveRight else com.popCursor)
              split
              · exact ((NoNewSyl.select hq).trans (NoNewSyl.popCursor _)).trans (NoNewSyl.moveRight _)
              · exact (NoNewSyl.select hq).trans (NoNewSyl.popCursor _)
            · trivial
            · trivial
          · exact NoNewSyl.refl _
        · trivial
        · trivial
      · -- symbol
        split
        · rename_i sym y' hq
          exact OutAll.map (hfin sh sym rfl (symSel_select_chr hq))
        · split
          · exact NoNewSyl.popCursor _
          · exact NoNewSyl.refl _
          · trivial
          · trivial
        · trivial
        · trivial
      · -- special
        split
        · rename_i out hq
          exact hfin sh _ rfl (specialSelect_chr hq)
        · exact NoNewSyl.refl _
        · trivial
        · trivial

theorem nsel_selDigit (s : Selecting) (sh : Shared D L) (c : Nat) : NSel sh.com (selDigit env s sh c) := by
  unfold selDigit
  split
  · rename_i s' sh' t hq
    have h := (select_nn env s sh (c - 1)).elim hq
    nsel_leaf h
  · exact nsel_panic _ _
  · exact nsel_fuel _

/-- `Selecting::next` -/
theorem nsel_selectingNext (s : Selecting) (sh : Shared D L) (ev : KeyEvent) :
    NSel sh.com (selectingNext env s sh ev) := by
  unfold selectingNext
  repeat' (with_reducible apply nsel_ite)
  all_goals first
    | exact nsel_selDownSpace env _ _
    | exact nsel_selMove env _ _ _
    | exact nsel_selPrevPage env _ _
    | exact nsel_selNextPage env _ _
    | exact nsel_selDigit env _ _ _
    | nsel_leaf (NoNewSyl.refl _)
    | nsel_leaf (NoNewSyl.popCursor _)
    | nsel_leaf ((NoNewSyl.popCursor _).trans (NoNewSyl.popCursor _))

/-! ### Highlighting -/

theorem highlighting_nn (m : Nat) (sh : Shared D L) (ev : KeyEvent) :
    OutAll (fun x => NoNewSyl sh.com x.1.com) (highlightingNext env m sh ev) := by
  unfold highlightingNext
  dsimp only
  repeat' (first | split | (dsimp only; split))
  all_goals first
    | trivial
    | exact NoNewSyl.refl _
    | skip
  all_goals
    rename_i sh' b hq
    have := (learnInRangeNotify_com env _ _ _).elim hq
    show NoNewSyl sh.com sh'.com
    rw [this]
    exact NoNewSyl.moveCursor _ _

/-! ### auto-commit -/

/-- `try_auto_commit` either does nothing or calls `remove_front` -/
theorem tryAutoCommit_nn (sh : Shared D L) :
    OutAll (fun x => NoNewSyl sh.com x.com) (Shared.tryAutoCommit env sh) := by
  unfold Shared.tryAutoCommit
  dsimp only
  repeat' split
  all_goals first
    | trivial
    | exact NoNewSyl.refl _
    | skip
  all_goals
    rename_i com hq
    exact NoNewSyl.removeFront hq

/-- … and keeps the layout state -/
theorem tryAutoCommit_syl (sh : Shared D L) :
    OutAll (fun x => x.syl = sh.syl) (Shared.tryAutoCommit env sh) := by
  unfold Shared.tryAutoCommit
  dsimp only
  repeat' split
  all_goals first
    | trivial
    | rfl

end Chewing.LinkSyl
