import Chewing.Proofs.EditorLinkSyl
import Chewing.Proofs.EditorRevalidate
/-!
Stage B of C14 over whole histories, part 2.

* generic part (every environment): where the layout state can go in the states other than
  `EnteringSyllable` (`dispatch_syl`), the auto-commit tail (`tail_nn_syl`), the other public entry points
  (`api_nn_syl`);
* for the environment `layoutEnv L base` of a sound layout model `L`: the invariant `BufInv`
  (layout state composable; every syllable symbol of the pre-edit buffer was handed over by `L` from a
  composable layout state, is composable and non-empty) is kept by every key (`processKey_inv`), by every
  other operation (`apply_inv`) and along `Editor.run` (`run_inv`).
-/
namespace Chewing.LinkSyl
open Chewing Chewing.C06 Gen

section Generic
variable {D L : Type} (env : Env D L)

theorem map_ok {α β : Type} {f : α → β} {r : Outcome α} {b : β} (h : r.map f = .ok b) : ∃ a, r = .ok a ∧ f a = b := by
  cases r with
  | ok a => simp only [Outcome.map] at h; injection h with h; exact ⟨a, rfl, h⟩
  | panic p => simp [Outcome.map] at h
  | outOfFuel => simp [Outcome.map] at h

/-! ### the layout state in `Entering` -/

/-- the layout state of every successful result satisfies `P` -/
def SylP (P : L → Prop) (r : StepRes D L) : Prop := ∀ sh' t, r = .ok (sh', t) → P sh'.syl

theorem sylP_of_is {P : L → Prop} {l0 : L} {r : StepRes D L} (hp : P l0) (h : SylIs l0 r) : SylP P r := by
  intro sh' t hr; rw [h sh' t hr]; exact hp

theorem sylP_ite {P : L → Prop} {c : Prop} [Decidable c] {a b : StepRes D L}
    (h1 : SylP P a) (h2 : SylP P b) : SylP P (if c then a else b) := by
  split <;> assumption

macro "sylp_leaf" e:term : tactic =>
  `(tactic| (intro sh' t h; injection h with h; injection h with h1 h2; subst h1; exact $e))

/-- the catch-all arm of `Entering::next`: the layout state is kept or is the one after `key_press` -/
theorem sylP_enteringDefault {P : L → Prop} (sh : Shared D L) (ev : KeyEvent) (h0 : P sh.syl)
    (h1 : P (env.keyPress sh.syl ev).2) : SylP P (enteringDefault env sh ev) := by
  unfold enteringDefault
  repeat' split
  all_goals first
    | exact sylP_of_is h0 (sylIs_withCom_absorb _ _)
    | exact sylP_of_is h0 (sylIs_inputChar _ _)
    | exact sylP_of_is h0 (sylIs_chineseFallback _ _)
    | exact sylP_of_is h1 (sylIs_chineseFallback { sh with syl := (env.keyPress sh.syl ev).2 } ev)
    | exact sylP_of_is h0 (sylIs_openSymbol env _)
    | sylp_leaf h0
    | sylp_leaf h1

theorem sylP_enteringNext {P : L → Prop} (sh : Shared D L) (ev : KeyEvent) (h0 : P sh.syl)
    (h1 : P (env.keyPress sh.syl ev).2) : SylP P (enteringNext env sh ev) := by
  unfold enteringNext
  repeat' (with_reducible apply sylP_ite)
  all_goals first
    | exact sylP_enteringDefault env _ _ h0 h1
    | exact sylP_of_is h0 (sylIs_enteringBackspace _)
    | exact sylP_of_is h0 (sylIs_enteringCtrlDigit env _ _)
    | exact sylP_of_is h0 (sylIs_enteringTabInside env _)
    | exact sylP_of_is h0 (sylIs_enteringDel _)
    | exact sylP_of_is h0 (sylIs_enteringShiftLeft _)
    | exact sylP_of_is h0 (sylIs_enteringShiftRight _)
    | exact sylP_of_is h0 (sylIs_enteringEnter env _)
    | exact sylP_of_is h0 (sylIs_enteringEsc _)
    | exact sylP_of_is h0 (sylIs_commitOrInsert _ _)
    | exact sylP_of_is h0 (sylIs_startSelecting env _)
    | exact sylP_of_is h0 (sylIs_startSelectingOrInputSpace env _)
    | sylp_leaf h0

/-! ### the state machine part of a key, outside `EnteringSyllable` -/

/-- in `Entering`, `Selecting`, `Highlighting` a key brings no syllable symbol into the pre-edit buffer -/
theorem dispatch_nn {e : Editor D L} {ev : KeyEvent} {sh : Shared D L} {st : St}
    (hs : e.state ≠ .enteringSyllable) (h : dispatch env e ev = .ok (sh, st)) : NoNewSyl e.shared.com sh.com := by
  unfold dispatch at h
  split at h
  · obtain ⟨⟨sh', t⟩, hr, hx⟩ := map_ok h
    have := nstep_enteringNext env (preamble e.shared) ev sh' t hr
    cases t <;> (simp only [applyTrans] at hx; injection hx with h1 h2; subst h1; exact this)
  · rename_i he; exact absurd he hs
  · rename_i s _
    obtain ⟨x, hr, hx⟩ := map_ok h
    have := nsel_selectingNext env s (preamble e.shared) ev x hr
    cases ht : x.trans <;> (rw [ht] at hx; simp only [applyTrans] at hx; injection hx with h1 h2; subst h1; exact this)
  · rename_i m _
    obtain ⟨⟨sh', m', t⟩, hr, hx⟩ := map_ok h
    have := (highlighting_nn env m (preamble e.shared) ev).elim hr
    cases t <;> (simp only [applyTrans] at hx; injection hx with h1 h2; subst h1; exact this)

/-- … and the layout state is kept or is the one after `key_press` -/
theorem dispatch_syl {P : L → Prop} {e : Editor D L} {ev : KeyEvent} {sh : Shared D L} {st : St}
    (hs : e.state ≠ .enteringSyllable) (h0 : P e.shared.syl) (h1 : P (env.keyPress e.shared.syl ev).2)
    (h : dispatch env e ev = .ok (sh, st)) : P sh.syl := by
  unfold dispatch at h
  split at h
  · obtain ⟨⟨sh', t⟩, hr, hx⟩ := map_ok h
    have := sylP_enteringNext env (preamble e.shared) ev h0 h1 sh' t hr
    cases t <;> (simp only [applyTrans] at hx; injection hx with h1 h2; subst h1; exact this)
  · rename_i he; exact absurd he hs
  · rename_i s _
    obtain ⟨x, hr, hx⟩ := map_ok h
    have := (selKeep_selectingNext env s (preamble e.shared) ev x hr).1
    cases ht : x.trans <;>
      (rw [ht] at hx; simp only [applyTrans] at hx; injection hx with h1 h2; subst h1
       show P x.shared.syl
       rw [this]; exact h0)
  · rename_i m _
    obtain ⟨⟨sh', m', t⟩, hr, hx⟩ := map_ok h
    have := ((highlighting_syl env m (preamble e.shared) ev).elim hr).1
    cases t <;>
      (simp only [applyTrans] at hx; injection hx with h1 h2; subst h1
       show P sh'.syl
       rw [this]; exact h0)

/-! ### the tail of `process_keyevent` -/

theorem autoCommitIf_nn_syl {sh sh2 : Shared D L} {c : Prop} [Decidable c]
    (h : (if c then Shared.tryAutoCommit env sh else .ok sh) = .ok sh2) :
    NoNewSyl sh.com sh2.com ∧ sh2.syl = sh.syl := by
  split at h
  · exact ⟨(tryAutoCommit_nn env sh).elim h, (tryAutoCommit_syl env sh).elim h⟩
  · injection h with h; subst h; exact ⟨.refl _, rfl⟩

theorem tail_nn_syl {sh : Shared D L} {st : St} {e' : Editor D L} {b : KB} (h : tail env sh st = .ok (e', b)) :
    NoNewSyl sh.com e'.shared.com ∧ e'.shared.syl = sh.syl := by
  unfold tail at h
  split at h
  · cases h
  · cases h
  · rename_i sh2 hq
    injection h with h; injection h with h1 h2
    subst h1
    obtain ⟨a1, a2⟩ := autoCommitIf_nn_syl env hq
    have c1 : (if sh2.dirty > 0 then { sh2 with dict := env.reopenFlush sh2.dict, dirty := 0 } else sh2).com = sh2.com := by
      split <;> rfl
    have c2 : (if sh2.dirty > 0 then { sh2 with dict := env.reopenFlush sh2.dict, dirty := 0 } else sh2).syl = sh2.syl := by
      split <;> rfl
    refine ⟨?_, ?_⟩
    · show NoNewSyl sh.com (if sh2.dirty > 0 then { sh2 with dict := env.reopenFlush sh2.dict, dirty := 0 } else sh2).com
      rw [c1]; exact a1
    · show (if sh2.dirty > 0 then { sh2 with dict := env.reopenFlush sh2.dict, dirty := 0 } else sh2).syl = sh.syl
      rw [c2]; exact a2

/-- a key event = the state's `next`, then the tail -/
theorem processKey_split {e e' : Editor D L} {ev : KeyEvent} {b : KB} (h : e.processKey env ev = .ok (e', b)) :
    ∃ sh st, dispatch env e ev = .ok (sh, st) ∧ tail env sh st = .ok (e', b) := by
  rw [processKey_eq] at h
  split at h
  · cases h
  · cases h
  · rename_i sh st hd; exact ⟨sh, st, hd, h⟩

/-! ### the other public entry points -/

theorem select_api_nn_syl {e e' : Editor D L} {n : Nat} {okk : Bool} (h : e.select env n = .ok (e', okk)) :
    NoNewSyl e.shared.com e'.shared.com ∧ e'.shared.syl = e.shared.syl := by
  unfold Editor.select at h
  split at h
  · rename_i s _
    split at h
    · rename_i s' sh t hq
      have hr : NoNewSyl e.shared.com sh.com := (select_nn env s e.shared n).elim hq
      have hy : sh.syl = e.shared.syl := ((select_syl env s e.shared n).elim hq).1
      dsimp only at h
      have hat : (applyTrans sh (.selecting s') t).1.com = sh.com := by cases t <;> rfl
      have hat2 : (applyTrans sh (.selecting s') t).1.syl = sh.syl := by cases t <;> rfl
      split at h
      · rename_i sh2 hq2
        injection h with h; injection h with h1 h2; subst h1
        obtain ⟨a1, a2⟩ := autoCommitIf_nn_syl env hq2
        rw [hat] at a1; rw [hat2] at a2
        exact ⟨hr.trans a1, a2.trans hy⟩
      · cases h
      · cases h
    · cases h
    · cases h
  · injection h with h; injection h with h1 h2; subst h1; exact ⟨.refl _, rfl⟩

theorem leaveIfEmpty_shared (e : Editor D L) : (Editor.leaveIfEmpty env e).shared = e.shared := by
  unfold Editor.leaveIfEmpty; split <;> rfl

theorem startSelecting_api_nn_syl {e e' : Editor D L} {okk : Bool} (h : e.startSelecting env = .ok (e', okk)) :
    NoNewSyl e.shared.com e'.shared.com ∧
      (e'.shared.syl = e.shared.syl ∨ e'.shared.syl = env.clearSyl e.shared.syl) := by
  unfold Editor.startSelecting at h
  dsimp only at h
  split at h
  · rename_i sh t hq
    injection h with h; injection h with h1 h2; subst h1
    rw [leaveIfEmpty_shared]
    have hat : (applyTrans sh e.state t).1.com = sh.com := by cases t <;> rfl
    have hat2 : (applyTrans sh e.state t).1.syl = sh.syl := by cases t <;> rfl
    show NoNewSyl e.shared.com (applyTrans sh e.state t).1.com ∧
      ((applyTrans sh e.state t).1.syl = e.shared.syl ∨ (applyTrans sh e.state t).1.syl = env.clearSyl e.shared.syl)
    rw [hat, hat2]
    split at hq
    · exact ⟨nstep_startSelecting env e.shared sh t hq, Or.inl (sylIs_startSelecting env e.shared sh t hq)⟩
    · exact ⟨nstep_startSelecting env { e.shared with syl := env.clearSyl e.shared.syl } sh t hq,
        Or.inr (sylIs_startSelecting env { e.shared with syl := env.clearSyl e.shared.syl } sh t hq)⟩
    · injection hq with hq; injection hq with h1 h2; subst h1; exact ⟨.refl _, Or.inl rfl⟩
  · cases h
  · cases h

theorem commit_api_nn_syl {e e' : Editor D L} {okk : Bool} (h : e.commit env = .ok (e', okk)) :
    NoNewSyl e.shared.com e'.shared.com ∧ e'.shared.syl = e.shared.syl := by
  unfold Editor.commit at h
  split at h
  · injection h with h; injection h with h1 h2; subst h1; exact ⟨.refl _, rfl⟩
  · split at h
    · rename_i sh hq
      injection h with h; injection h with h1 h2; subst h1
      refine ⟨?_, (commit_syl env e.shared).elim hq⟩
      show NoNewSyl e.shared.com sh.com
      rw [(commit_com env e.shared).elim hq]
      exact NoNewSyl.clear _
    · cases h
    · cases h

theorem jump_shared {e e' : Editor D L} {w : Nat} {okk : Bool} (h : e.jump env w = .ok (e', okk)) :
    e'.shared = e.shared := by
  unfold Editor.jump at h
  repeat' (first | split at h | (dsimp only at h; split at h))
  all_goals first
    | (injection h with h; injection h with h1 h2; subst h1; rfl)
    | cases h

/-- `Editor::revalidate_selecting` (F32 repair, the last step of the option / layout / dictionary calls): at
    most the saved cursor is restored — no new syllable symbol, the layout state is kept -/
theorem revalidate_nn_syl {e e' : Editor D L} (h : e.revalidate env = .ok e') :
    NoNewSyl e.shared.com e'.shared.com ∧ e'.shared.syl = e.shared.syl := by
  obtain ⟨h1, h2⟩ := revalidate_fields env h
  refine ⟨?_, by rw [h1]⟩
  rcases h2 with h2 | h2 <;> rw [h2]
  · exact .refl _
  · exact .popCursor _

/-- every public operation other than a key: no new syllable symbol; the layout state is kept, cleared, or
    (`set_syllable_editor`) the installed one -/
theorem api_nn_syl {e e' : Editor D L} (op : Op L) (hk : ∀ ev, op ≠ .key ev) (h : e.apply env op = .ok e') :
    NoNewSyl e.shared.com e'.shared.com ∧
      (e'.shared.syl = e.shared.syl ∨ e'.shared.syl = env.clearSyl e.shared.syl ∨ op = .setLayout e'.shared.syl) := by
  cases op with
  | key ev => exact absurd rfl (hk ev)
  | select n =>
    obtain ⟨⟨e1, b⟩, hr, hx⟩ := map_ok h; subst hx
    exact ⟨(select_api_nn_syl env hr).1, Or.inl (select_api_nn_syl env hr).2⟩
  | startSelecting =>
    obtain ⟨⟨e1, b⟩, hr, hx⟩ := map_ok h; subst hx
    obtain ⟨a1, a2⟩ := startSelecting_api_nn_syl env hr
    exact ⟨a1, a2.elim Or.inl (fun x => Or.inr (Or.inl x))⟩
  | cancelSelecting =>
    simp only [Editor.apply, Editor.cancelSelecting] at h
    injection h with h; subst h
    split
    · exact ⟨NoNewSyl.popCursor _, Or.inl rfl⟩
    · exact ⟨.refl _, Or.inl rfl⟩
  | commit =>
    obtain ⟨⟨e1, b⟩, hr, hx⟩ := map_ok h; subst hx
    exact ⟨(commit_api_nn_syl env hr).1, Or.inl (commit_api_nn_syl env hr).2⟩
  | clear => injection h with h; subst h; exact ⟨NoNewSyl.clear _, Or.inr (Or.inl rfl)⟩
  | ack => injection h with h; subst h; exact ⟨.refl _, Or.inl rfl⟩
  | clearSyl =>
    injection h with h; subst h
    show NoNewSyl e.shared.com (Editor.leaveIfEmpty env _).shared.com ∧
      ((Editor.leaveIfEmpty env _).shared.syl = _ ∨ (Editor.leaveIfEmpty env _).shared.syl = _ ∨ _)
    rw [leaveIfEmpty_shared]; exact ⟨.refl _, Or.inr (Or.inl rfl)⟩
  | setOptions o =>
    obtain ⟨hn, hs⟩ := revalidate_nn_syl env (e := e.setOptions env o) h
    have key : NoNewSyl e.shared.com (e.setOptions env o).shared.com ∧
        ((e.setOptions env o).shared.syl = e.shared.syl ∨ (e.setOptions env o).shared.syl = env.clearSyl e.shared.syl) := by
      show NoNewSyl e.shared.com (Editor.leaveIfEmpty env _).shared.com ∧
        ((Editor.leaveIfEmpty env _).shared.syl = _ ∨ (Editor.leaveIfEmpty env _).shared.syl = _)
      rw [leaveIfEmpty_shared]
      dsimp only
      split
      · exact ⟨.refl _, Or.inr rfl⟩
      · exact ⟨.refl _, Or.inl rfl⟩
    rw [hs]
    exact ⟨key.1.trans hn, key.2.elim Or.inl (fun x => Or.inr (Or.inl x))⟩
  | setLayout l =>
    obtain ⟨hn, hs⟩ := revalidate_nn_syl env (e := e.setLayout env l) h
    have key : NoNewSyl e.shared.com (e.setLayout env l).shared.com ∧ (e.setLayout env l).shared.syl = l := by
      show NoNewSyl e.shared.com (Editor.leaveIfEmpty env _).shared.com ∧ (Editor.leaveIfEmpty env _).shared.syl = _
      rw [leaveIfEmpty_shared]; exact ⟨.refl _, rfl⟩
    rw [hs, key.2]
    exact ⟨key.1.trans hn, Or.inr (Or.inr rfl)⟩
  | setEngine k => injection h with h; subst h; exact ⟨.refl _, Or.inl rfl⟩
  | learn k p =>
    simp only [Editor.apply] at h
    split at h
    · rename_i sh b hr
      obtain ⟨hn, hs⟩ := revalidate_nn_syl env h
      rw [hs]
      refine ⟨NoNewSyl.trans ?_ hn, Or.inl ((learnPhrase_syl env e.shared k p).elim hr)⟩
      show NoNewSyl e.shared.com sh.com
      rw [(learnPhrase_com env e.shared k p).elim hr]; exact .refl _
    · cases h
    · cases h
  | unlearn k p =>
    obtain ⟨hn, hs⟩ := revalidate_nn_syl env (e := { e with shared := Shared.unlearnPhrase env e.shared k p }) h
    rw [hs]
    exact ⟨hn, Or.inl rfl⟩
  | jump w =>
    obtain ⟨⟨e1, b⟩, hr, hx⟩ := map_ok h; subst hx
    show NoNewSyl e.shared.com e1.shared.com ∧ (e1.shared.syl = _ ∨ _)
    rw [jump_shared env hr]; exact ⟨.refl _, Or.inl rfl⟩

end Generic

/-! ### the environment of a layout model -/

section Layout
variable {D : Type} {L : Layout}

/-- `s` was handed over by the layout model `L`: the `Commit` reading or the `Fuzzy` payload of some step of
    `L` (plain or fuzzy key press, any key) from a composable layout state -/
def HandedByC (L : Layout) (s : Nat) : Prop :=
  ∃ c k strat, Comp c ∧ HandedOver (layoutStepFor L strat c k) s

/-- every syllable symbol of the pre-edit buffer was handed over by `L`, is composable and non-empty -/
def SymsOK (L : Layout) (c : CompEditor) : Prop :=
  ∀ s, Sym.syl s ∈ c.inner.symbols → HandedByC L s ∧ Comp s ∧ s ≠ emptyPattern

/-- the invariant: composable layout state, all buffered syllables from the layout -/
def BufInv (L : Layout) (sh : Shared D Nat) : Prop := Comp sh.syl ∧ SymsOK L sh.com

theorem symsOK_of_nn {c c' : CompEditor} (h : NoNewSyl c c') (hc : SymsOK L c) : SymsOK L c' :=
  fun s hs => hc s (h s hs)

theorem symsOK_empty {c : CompEditor} (h : c.inner.symbols = []) : SymsOK L c := by
  intro s hs; rw [h] at hs; cases hs

theorem comp_liftPress {r : PressResult} {c : Nat} (hr : StepOk r) : Comp (liftPress r c).2 := by
  obtain ⟨b, c', rfl, hc', _⟩ := hr
  exact hc'

/-- one key of `EnteringSyllable` keeps the buffer part of the invariant -/
theorem symsOK_keyEffect {sh sh' : Shared D Nat} {strat : Strategy} {k : KeyEv} (hc : Comp sh.syl)
    (h0 : SymsOK L sh.com)
    (h : sh'.com = sh.com.clear ∨ KeyEffect sh sh' (layoutStepFor L strat sh.syl k)) : SymsOK L sh'.com := by
  rcases h with h | h | ⟨s, com1, hs, hne, hh, hi, hcm⟩
  · rw [h]; exact symsOK_empty rfl
  · exact symsOK_of_nn (NoNewSyl.of_inner h) h0
  · intro s' hs'
    rw [hcm] at hs'
    rcases insert_mem hi _ hs' with e | e
    · injection e with e; subst e
      exact ⟨⟨sh.syl, k, strat, hc, hh⟩, hs, hne⟩
    · exact h0 s' e

/-- the state machine part of a key keeps the invariant -/
theorem dispatch_inv (hL : SoundLayout L) (base : Env D Nat)
    (hne : ∀ d strat, (layoutEnv L base).hasPhrase d [emptyPattern] strat = false)
    {e : Editor D Nat} {ev : KeyEvent} {sh : Shared D Nat} {st : St} (h0 : BufInv L e.shared)
    (h : dispatch (layoutEnv L base) e ev = .ok (sh, st)) : BufInv L sh := by
  by_cases hs : e.state = .enteringSyllable
  · unfold dispatch at h
    rw [hs] at h
    simp only at h
    obtain ⟨⟨sh', t⟩, hr, hx⟩ := map_ok h
    have hsound := enteringSyllable_sound hL base (preamble e.shared) ev h0.1 (hne _ _) sh' t hr
    have hb : SymsOK L sh'.com := symsOK_keyEffect (sh := preamble e.shared) h0.1 h0.2 hsound.2
    cases t <;> (simp only [applyTrans] at hx; injection hx with h1 h2; subst h1; exact ⟨hsound.1, hb⟩)
  · refine ⟨?_, symsOK_of_nn (dispatch_nn _ hs h) h0.2⟩
    refine dispatch_syl (P := Comp) _ hs h0.1 ?_ h
    exact comp_liftPress (hL _ _ h0.1).stepOk

/-- **one key, any state** -/
theorem processKey_inv (hL : SoundLayout L) (base : Env D Nat)
    (hne : ∀ d strat, (layoutEnv L base).hasPhrase d [emptyPattern] strat = false)
    {e e' : Editor D Nat} {ev : KeyEvent} {b : KB} (h0 : BufInv L e.shared)
    (h : e.processKey (layoutEnv L base) ev = .ok (e', b)) : BufInv L e'.shared := by
  obtain ⟨sh, st, h1, h2⟩ := processKey_split _ h
  obtain ⟨a1, a2⟩ := dispatch_inv hL base hne h0 h1
  obtain ⟨b1, b2⟩ := tail_nn_syl _ h2
  exact ⟨by rw [b2]; exact a1, symsOK_of_nn b1 a2⟩

/-- the operations covered: every one; `set_syllable_editor` must install a composable layout state -/
def OpOK : Op Nat → Prop
  | .setLayout l => Comp l
  | _ => True

/-- **one public operation** -/
theorem apply_inv (hL : SoundLayout L) (base : Env D Nat)
    (hne : ∀ d strat, (layoutEnv L base).hasPhrase d [emptyPattern] strat = false)
    {e e' : Editor D Nat} (op : Op Nat) (hop : OpOK op) (h0 : BufInv L e.shared)
    (h : e.apply (layoutEnv L base) op = .ok e') : BufInv L e'.shared := by
  by_cases hk : ∃ ev, op = .key ev
  · obtain ⟨ev, rfl⟩ := hk
    obtain ⟨⟨e1, b⟩, hr, hx⟩ := map_ok h; subst hx
    exact processKey_inv hL base hne h0 hr
  · obtain ⟨a1, a2⟩ := api_nn_syl _ op (fun ev he => hk ⟨ev, he⟩) h
    refine ⟨?_, symsOK_of_nn a1 h0.2⟩
    rcases a2 with a | a | a
    · rw [a]; exact h0.1
    · rw [a]; exact comp_clear
    · rw [a] at hop; exact hop

/-- **every history** -/
theorem run_inv (hL : SoundLayout L) (base : Env D Nat)
    (hne : ∀ d strat, (layoutEnv L base).hasPhrase d [emptyPattern] strat = false)
    (ops : List (Op Nat)) : ∀ (e e' : Editor D Nat), (∀ op ∈ ops, OpOK op) → BufInv L e.shared →
      e.run (layoutEnv L base) ops = .ok e' → BufInv L e'.shared := by
  induction ops with
  | nil => intro e e' _ h0 h; simp only [Editor.run] at h; cases h; exact h0
  | cons op ops ih =>
    intro e e' hop h0 h
    simp only [Editor.run] at h
    split at h
    · next e1 h1 =>
      exact ih e1 e' (fun o ho => hop o (List.mem_cons_of_mem _ ho))
        (apply_inv hL base hne op (hop op (List.mem_cons_self ..)) h0 h1) h
    · cases h
    · cases h

theorem opOK_keys (keys : List KeyEvent) : ∀ op ∈ keys.map (Op.key (L := Nat)), OpOK op := by
  intro op ho
  obtain ⟨k, _, rfl⟩ := List.mem_map.mp ho
  trivial

end Layout

end Chewing.LinkSyl
