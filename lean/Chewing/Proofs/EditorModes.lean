import Chewing.Proofs.EditorCursor
/-!
Options frame of the editor state machine (C18, C05): a key changes `EditorOptions` only through
`switch_language_mode` (the CapsLock event, in every state) or `switch_character_form` (Shift-Space in
`Entering` while the toggle key is enabled).  Every other arm of every state, and the auto-commit tail,
leave every option exactly as it was.  For every environment.
-/
namespace Chewing

variable {D L : Type} (env : Env D L)

/-- the step keeps the options of `sh0` -/
def OStep (sh0 : Shared D L) (r : StepRes D L) : Prop := ∀ sh' t, r = .ok (sh', t) → sh'.options = sh0.options

macro "ostep_leaf" : tactic =>
  `(tactic| (intro sh' t h; injection h with h; injection h with h1 h2; subst h1; rfl))

theorem ostep_ite {sh0 : Shared D L} {c : Prop} [Decidable c] {a b : StepRes D L}
    (h1 : OStep sh0 a) (h2 : OStep sh0 b) : OStep sh0 (if c then a else b) := by
  split <;> assumption

theorem ostep_panic (sh0 : Shared D L) (p : String) : OStep sh0 (.panic p) := by
  intro sh' t h; cases h

theorem ostep_fuel (sh0 : Shared D L) : OStep sh0 .outOfFuel := by
  intro sh' t h; cases h

theorem ostep_withCom (sh : Shared D L) (r : Outcome CompEditor) (k : Shared D L → StepRes D L)
    (hk : ∀ c, OStep sh (k { sh with com := c })) : OStep sh (withCom sh r k) := by
  unfold withCom
  cases r with
  | ok c => exact hk c
  | panic p => exact ostep_panic _ p
  | outOfFuel => exact ostep_fuel _

theorem ostep_withCom_absorb (sh : Shared D L) (r : Outcome CompEditor) :
    OStep sh (withCom sh r fun sh => .ok (sh, .spin .absorb)) :=
  ostep_withCom sh r _ fun c => by ostep_leaf

theorem ostep_commitOrInsert (sh : Shared D L) (ch : Nat) : OStep sh (commitOrInsert sh ch) := by
  unfold commitOrInsert
  split
  · ostep_leaf
  · exact ostep_withCom_absorb _ _

theorem ostep_inputChar (sh : Shared D L) (ev : KeyEvent) : OStep sh (inputChar sh ev) := by
  unfold inputChar fullOrBell
  repeat' split
  all_goals first
    | exact ostep_commitOrInsert _ _
    | ostep_leaf

theorem ostep_chineseFallback (sh : Shared D L) (ev : KeyEvent) : OStep sh (chineseFallback sh ev) := by
  unfold chineseFallback
  repeat' split
  all_goals first
    | exact ostep_withCom_absorb _ _
    | exact ostep_inputChar _ _
    | ostep_leaf

theorem ostep_newPhrase (sh : Shared D L) : OStep sh (newPhrase env sh) := by
  unfold newPhrase
  simp only
  split
  · ostep_leaf
  · exact ostep_panic _ _
  · exact ostep_fuel _

theorem ostep_openPhrase (sh : Shared D L) : OStep sh (openPhrase env sh) := by
  intro sh' t h
  rcases openPhrase_cases env h with ⟨h1, _⟩ | ⟨_, rfl⟩
  · exact ostep_newPhrase env sh sh' t h1
  · rfl

theorem ostep_newPhraseSimple (sh : Shared D L) : OStep sh (newPhraseSimple sh) := by
  unfold newPhraseSimple
  simp only
  split
  · ostep_leaf
  · exact ostep_panic _ _
  · exact ostep_fuel _

theorem ostep_newSpecialSymbol (sh : Shared D L) (sym : Sym) : OStep sh (newSpecialSymbol sh sym) := by
  unfold newSpecialSymbol
  simp only
  split
  · ostep_leaf
  · ostep_leaf
  · exact ostep_panic _ _
  · exact ostep_fuel _

theorem ostep_openSymbol (sh : Shared D L) : OStep sh (openSymbol env sh) := by
  intro sh' t h
  obtain ⟨rfl, _⟩ := openSymbol_cases env h
  rfl

theorem ostep_openSpecialSymbol (sh : Shared D L) (sym : Sym) : OStep sh (openSpecialSymbol env sh sym) := by
  intro sh' t h
  rcases openSpecialSymbol_cases env h with ⟨h1, _⟩ | ⟨_, rfl⟩
  · exact ostep_newSpecialSymbol sh sym sh' t h1
  · rfl

theorem ostep_startSelecting (sh : Shared D L) : OStep sh (startSelecting env sh) := by
  unfold startSelecting
  repeat' split
  all_goals first
    | exact ostep_openPhrase env _
    | exact ostep_openSpecialSymbol env _ _
    | ostep_leaf

theorem ostep_startSelectingOrInputSpace (sh : Shared D L) : OStep sh (startSelectingOrInputSpace env sh) := by
  unfold startSelectingOrInputSpace
  repeat' split
  all_goals first
    | exact ostep_openPhrase env _
    | exact ostep_openSpecialSymbol env _ _
    | ostep_leaf

/-! learning and committing never touch the options -/

theorem learnPhrase_options (sh : Shared D L) (k : List Nat) (p : Text) :
    OutAll (fun x => x.1.options = sh.options) (Shared.learnPhrase env sh k p) := by
  unfold Shared.learnPhrase
  repeat' (first | split | (dsimp only; split))
  all_goals first | exact rfl | trivial

theorem learnInRangeQuiet_options (sh : Shared D L) (a b : Nat) :
    OutAll (fun x => x.1.options = sh.options) (Shared.learnInRangeQuiet env sh a b) := by
  unfold Shared.learnInRangeQuiet
  repeat' (first | split | (dsimp only; split))
  all_goals first | exact rfl | trivial

theorem learnInRangeNotify_options (sh : Shared D L) (a b : Nat) :
    OutAll (fun x => x.1.options = sh.options) (Shared.learnInRangeNotify env sh a b) := by
  unfold Shared.learnInRangeNotify
  split
  · rename_i sh1 phrase hq; exact (learnInRangeQuiet_options env sh a b).elim hq
  · rename_i sh1 msg hq; exact (learnInRangeQuiet_options env sh a b).elim hq
  · trivial
  · trivial

theorem autoLearn_flush_options (sh : Shared D L) (pending : Text) (syls : List Sym) :
    OutAll (fun x => x.options = sh.options) (Shared.autoLearn.flush env sh pending syls) := by
  unfold Shared.autoLearn.flush
  split
  · exact rfl
  · split
    · rename_i sh1 b hq; exact (learnPhrase_options env sh _ _).elim hq
    · trivial
    · trivial

theorem autoLearn_go_options (ivs : List Interval) :
    ∀ (sh : Shared D L) (pending : Text) (syls : List Sym),
      OutAll (fun x => x.options = sh.options) (Shared.autoLearn.go env sh ivs pending syls) := by
  induction ivs with
  | nil => intro sh pending syls; unfold Shared.autoLearn.go; exact autoLearn_flush_options env sh pending syls
  | cons iv rest ih =>
    intro sh pending syls
    unfold Shared.autoLearn.go
    split
    · trivial
    · split
      · split
        · exact ih sh _ _
        · trivial
        · trivial
      · split
        · rename_i sh1 hf
          have h1 : sh1.options = sh.options := (autoLearn_flush_options env sh pending syls).elim hf
          split
          · split
            · split
              · rename_i ss hs sh2 b hq
                have h2 : sh2.options = sh1.options := (learnPhrase_options env sh1 _ _).elim hq
                have := ih sh2 [] []
                rw [h2, h1] at this; exact this
              · trivial
              · trivial
            · trivial
            · trivial
          · have := ih sh1 [] []
            rw [h1] at this; exact this
        · trivial
        · trivial

theorem autoLearn_options (sh : Shared D L) (ivs : List Interval) :
    OutAll (fun x => x.options = sh.options) (Shared.autoLearn env sh ivs) := by
  unfold Shared.autoLearn
  exact autoLearn_go_options env ivs sh [] []

theorem commit_options (sh : Shared D L) :
    OutAll (fun x => x.options = sh.options) (Shared.commit env sh) := by
  unfold Shared.commit
  split
  · trivial
  · trivial
  · rename_i ivs hc
    dsimp only
    split
    · rename_i sh1 hq
      split at hq
      · have := (autoLearn_options env { sh with commitBuf := [] } ivs).elim hq
        show sh1.options = sh.options
        rw [this]
      · cases hq; rfl
    · trivial
    · trivial

theorem tryAutoCommit_options (sh : Shared D L) :
    OutAll (fun x => x.options = sh.options) (Shared.tryAutoCommit env sh) := by
  unfold Shared.tryAutoCommit
  dsimp only
  repeat' split
  all_goals first
    | trivial
    | exact rfl

theorem ostep_learnTrans (sh : Shared D L) (a b : Nat) :
    OStep sh (learnTrans (Shared.learnInRangeNotify env sh a b)) := by
  unfold learnTrans
  split
  · rename_i sh1 okk hq
    have hc := (learnInRangeNotify_options env sh a b).elim hq
    intro sh' t h; injection h with h; injection h with h1 h2; subst h1
    exact hc
  · exact ostep_panic _ _
  · exact ostep_fuel _

theorem ostep_enteringDefault (sh : Shared D L) (ev : KeyEvent) : OStep sh (enteringDefault env sh ev) := by
  unfold enteringDefault
  repeat' split
  all_goals first
    | exact ostep_withCom_absorb _ _
    | exact ostep_inputChar _ _
    | exact ostep_chineseFallback _ _
    | exact ostep_chineseFallback { sh with syl := (env.keyPress sh.syl ev).2 } ev
    | exact ostep_openSymbol env _
    | ostep_leaf

theorem ostep_enteringCtrlDigit (sh : Shared D L) (c : Nat) : OStep sh (enteringCtrlDigit env sh c) := by
  unfold enteringCtrlDigit
  repeat' (first | split | (dsimp only; split))
  all_goals first
    | exact ostep_learnTrans env _ _ _
    | exact ostep_openSymbol env _
    | ostep_leaf

theorem ostep_enteringTabInside (sh : Shared D L) : OStep sh (enteringTabInside env sh) := by
  unfold enteringTabInside
  repeat' split
  all_goals first
    | exact ostep_withCom_absorb _ _
    | exact ostep_panic _ _
    | exact ostep_fuel _

theorem ostep_enteringEnter (sh : Shared D L) : OStep sh (enteringEnter env sh) := by
  unfold enteringEnter
  split
  · rename_i sh1 hq
    have hc := (commit_options env sh).elim hq
    intro sh' t h; injection h with h; injection h with h1 h2; subst h1
    exact hc
  · exact ostep_panic _ _
  · exact ostep_fuel _

/-- what a step did to the options: nothing, or one of the two toggles -/
def OptEffect (sh0 : Shared D L) (lang form : Prop) (r : StepRes D L) : Prop :=
  ∀ sh' t, r = .ok (sh', t) →
    sh'.options = sh0.options ∨
    (lang ∧ sh'.options = (Shared.switchLanguageMode sh0).options) ∨
    (form ∧ sh'.options = (Shared.switchCharacterForm sh0).options)

theorem opteffect_of_ostep {sh0 : Shared D L} {lang form : Prop} {r : StepRes D L} (h : OStep sh0 r) :
    OptEffect sh0 lang form r := fun sh' t hr => Or.inl (h sh' t hr)

theorem opteffect_ite {sh0 : Shared D L} {lang form : Prop} {c : Prop} [Decidable c] {a b : StepRes D L}
    (h1 : c → OptEffect sh0 lang form a) (h2 : ¬ c → OptEffect sh0 lang form b) :
    OptEffect sh0 lang form (if c then a else b) := by
  split
  · next hc => exact h1 hc
  · next hc => exact h2 hc

/-- **`Entering::next`**: the options change only in the CapsLock arm (language mode toggled) and in the
    Shift-Space arm (character form toggled; the arm exists only while the toggle key is enabled) -/
theorem enteringNext_options (sh : Shared D L) (ev : KeyEvent) :
    OptEffect sh (ev.code = KC.unknown ∧ ev.mods.capslock = true)
      (ev.code = KC.space ∧ ev.mods.shift = true ∧ sh.options.enableFullwidthToggleKey = true)
      (enteringNext env sh ev) := by
  unfold enteringNext
  refine opteffect_ite (fun _ => opteffect_of_ostep ?_) fun _ => ?_
  · unfold enteringBackspace; split
    · ostep_leaf
    · exact ostep_withCom_absorb _ _
  refine opteffect_ite (fun hc => ?_) fun _ => ?_
  · intro sh' t h; injection h with h; injection h with h1 h2; subst h1
    exact Or.inr (Or.inl ⟨by simpa using hc, rfl⟩)
  refine opteffect_ite (fun _ => opteffect_of_ostep (ostep_enteringCtrlDigit env _ _)) fun _ => ?_
  refine opteffect_ite (fun _ => opteffect_of_ostep (by ostep_leaf)) fun _ => ?_
  refine opteffect_ite (fun _ => opteffect_of_ostep (by ostep_leaf)) fun _ => ?_
  refine opteffect_ite (fun _ => opteffect_of_ostep (ostep_enteringTabInside env _)) fun _ => ?_
  refine opteffect_ite (fun _ => opteffect_of_ostep ?_) fun _ => ?_
  · unfold enteringDel; split
    · ostep_leaf
    · exact ostep_withCom_absorb _ _
  refine opteffect_ite (fun _ => opteffect_of_ostep (by ostep_leaf)) fun _ => ?_
  refine opteffect_ite (fun _ => opteffect_of_ostep ?_) fun _ => ?_
  · unfold enteringShiftLeft; split <;> ostep_leaf
  refine opteffect_ite (fun _ => opteffect_of_ostep ?_) fun _ => ?_
  · unfold enteringShiftRight; split <;> ostep_leaf
  refine opteffect_ite (fun _ => opteffect_of_ostep (by ostep_leaf)) fun _ => ?_
  refine opteffect_ite (fun _ => opteffect_of_ostep (by ostep_leaf)) fun _ => ?_
  refine opteffect_ite (fun _ => opteffect_of_ostep (by ostep_leaf)) fun _ => ?_
  refine opteffect_ite (fun hc => ?_) fun _ => ?_
  · intro sh' t h; injection h with h; injection h with h1 h2; subst h1
    exact Or.inr (Or.inr ⟨by simpa [and_assoc] using hc, rfl⟩)
  refine opteffect_ite (fun _ => opteffect_of_ostep (ostep_startSelectingOrInputSpace env _)) fun _ => ?_
  refine opteffect_ite (fun _ => opteffect_of_ostep (ostep_startSelecting env _)) fun _ => ?_
  refine opteffect_ite (fun _ => opteffect_of_ostep (by ostep_leaf)) fun _ => ?_
  refine opteffect_ite (fun _ => opteffect_of_ostep (ostep_enteringEnter env _)) fun _ => ?_
  refine opteffect_ite (fun _ => opteffect_of_ostep ?_) fun _ => ?_
  · unfold enteringEsc; split <;> ostep_leaf
  refine opteffect_ite (fun _ => opteffect_of_ostep (ostep_commitOrInsert _ _)) fun _ => ?_
  exact opteffect_of_ostep (ostep_enteringDefault env _ _)

theorem ostep_syllableAnswer (sh : Shared D L) (beh : LayoutBeh) : OStep sh (syllableAnswer env sh beh) := by
  unfold syllableAnswer
  repeat' split
  all_goals first
    | exact ostep_withCom_absorb _ _
    | ostep_leaf
    | skip
  all_goals
    refine ostep_withCom _ _ _ fun c => ?_
    dsimp only
    split
    · intro sh' t hh
      exact ostep_newPhraseSimple { sh with com := c, syl := env.clearSyl (env.clearSyl sh.syl) } sh' t hh
    · ostep_leaf

/-- **`EnteringSyllable::next`**: only the CapsLock arm changes the options -/
theorem enteringSyllableNext_options (sh : Shared D L) (ev : KeyEvent) :
    OptEffect sh (ev.code = KC.unknown ∧ ev.mods.capslock = true) False (enteringSyllableNext env sh ev) := by
  unfold enteringSyllableNext
  refine opteffect_ite (fun _ => opteffect_of_ostep ?_) fun _ => ?_
  · split <;> ostep_leaf
  refine opteffect_ite (fun hc => ?_) fun _ => ?_
  · intro sh' t h; injection h with h; injection h with h1 h2; subst h1
    exact Or.inr (Or.inl ⟨by simpa using hc, rfl⟩)
  refine opteffect_ite (fun _ => opteffect_of_ostep ?_) fun _ => ?_
  · split <;> ostep_leaf
  refine opteffect_of_ostep ?_
  split
  · exact ostep_syllableAnswer env { sh with syl := (env.fuzzyKeyPress sh.syl ev).2 } _
  · exact ostep_syllableAnswer env { sh with syl := (env.keyPress sh.syl ev).2 } _

/-! ### Selecting -/

def OSel (sh0 : Shared D L) (r : Outcome (SelRes D L)) : Prop := ∀ x, r = .ok x → x.shared.options = sh0.options

macro "osel_leaf" : tactic => `(tactic| (intro x h; injection h with h; subst h; rfl))

theorem osel_panic (sh0 : Shared D L) (p : String) : OSel sh0 (.panic p) := by
  intro x h; cases h

theorem osel_fuel (sh0 : Shared D L) : OSel sh0 .outOfFuel := by
  intro x h; cases h

theorem osel_selDownSpace (s : Selecting) (sh : Shared D L) : OSel sh (selDownSpace env s sh) := by
  unfold selDownSpace
  repeat' split
  all_goals first
    | exact osel_panic _ _
    | exact osel_fuel _
    | osel_leaf

theorem retarget_options (s : Selecting) (sh : Shared D L) :
    OutAll (fun x => x.1.options = sh.options) (retarget env s sh) := by
  unfold retarget
  repeat' split
  all_goals first | exact rfl | trivial

theorem osel_closeIfEmpty (sh0 : Shared D L) (r : SelRes D L) (hr : r.shared.options = sh0.options) :
    OSel sh0 (closeIfEmpty env r) := by
  intro x h
  rcases closeIfEmpty_cases env h with rfl | rfl
  · exact hr
  · exact hr

theorem osel_selMove (s : Selecting) (sh : Shared D L) (isJ : Bool) : OSel sh (selMove env s sh isJ) := by
  unfold selMove
  split
  · osel_leaf
  · dsimp only
    split
    · rename_i sh' s' hq
      exact osel_closeIfEmpty env _ _ ((retarget_options env s _).elim hq)
    · rename_i sh' t _ hq
      exact osel_closeIfEmpty env _ _ ((retarget_options env s _).elim hq)
    · exact osel_panic _ _
    · exact osel_fuel _

theorem osel_selPrevPage (s : Selecting) (sh : Shared D L) : OSel sh (selPrevPage env s sh) := by
  unfold selPrevPage
  repeat' split
  all_goals first
    | exact osel_panic _ _
    | exact osel_fuel _
    | osel_leaf

theorem osel_selNextPage (s : Selecting) (sh : Shared D L) : OSel sh (selNextPage env s sh) := by
  unfold selNextPage
  repeat' split
  all_goals first
    | exact osel_panic _ _
    | exact osel_fuel _
    | osel_leaf

theorem select_options (s : Selecting) (sh : Shared D L) (n : Nat) :
    OutAll (fun x => x.2.1.options = sh.options) (Selecting.select env s sh n) := by
  unfold Selecting.select
  repeat' (first | split | (dsimp only; split))
  all_goals first
    | trivial
    | exact rfl
    | skip
  all_goals
    apply OutAll.map
    repeat' split
    all_goals first
      | trivial
      | exact rfl

theorem osel_selDigit (s : Selecting) (sh : Shared D L) (c : Nat) : OSel sh (selDigit env s sh c) := by
  unfold selDigit
  split
  · rename_i s' sh' t hq
    have h := (select_options env s sh (c - 1)).elim hq
    intro x hx; injection hx with hx; subst hx
    exact h
  · exact osel_panic _ _
  · exact osel_fuel _

theorem osel_ite {sh0 : Shared D L} {c : Prop} [Decidable c] {a b : Outcome (SelRes D L)}
    (h1 : OSel sh0 a) (h2 : OSel sh0 b) : OSel sh0 (if c then a else b) := by
  split <;> assumption

/-- what a `Selecting` step did to the options: nothing, or the language toggle -/
def OSelEff (sh0 : Shared D L) (lang : Prop) (r : Outcome (SelRes D L)) : Prop :=
  ∀ x, r = .ok x → x.shared.options = sh0.options ∨ (lang ∧ x.shared.options = (Shared.switchLanguageMode sh0).options)

theorem oseleff_of_osel {sh0 : Shared D L} {lang : Prop} {r : Outcome (SelRes D L)} (h : OSel sh0 r) :
    OSelEff sh0 lang r := fun x hr => Or.inl (h x hr)

theorem oseleff_ite {sh0 : Shared D L} {lang : Prop} {c : Prop} [Decidable c] {a b : Outcome (SelRes D L)}
    (h1 : c → OSelEff sh0 lang a) (h2 : ¬ c → OSelEff sh0 lang b) : OSelEff sh0 lang (if c then a else b) := by
  split
  · next hc => exact h1 hc
  · next hc => exact h2 hc

/-- **`Selecting::next`**: only the CapsLock arm changes the options (and Shift / Ctrl combinations are
    answered with a bell before anything else) -/
theorem selectingNext_options (s : Selecting) (sh : Shared D L) (ev : KeyEvent) :
    OSelEff sh (ev.code = KC.unknown ∧ ev.mods.capslock = true ∧ ev.mods.ctrl = false ∧ ev.mods.shift = false)
      (selectingNext env s sh ev) := by
  unfold selectingNext
  refine oseleff_ite (fun _ => oseleff_of_osel (by osel_leaf)) fun hm => ?_
  refine oseleff_ite (fun _ => oseleff_of_osel (by osel_leaf)) fun _ => ?_
  refine oseleff_ite (fun hc => ?_) fun _ => ?_
  · intro x h; injection h with h; subst h
    right
    simp only [Bool.or_eq_true, not_or, Bool.not_eq_true] at hm
    simp only [Bool.and_eq_true, beq_iff_eq] at hc
    exact ⟨⟨hc.1, hc.2, hm.1, hm.2⟩, rfl⟩
  · refine oseleff_of_osel ?_
    repeat' (with_reducible apply osel_ite)
    all_goals first
      | exact osel_selDownSpace env _ _
      | exact osel_selMove env _ _ _
      | exact osel_selPrevPage env _ _
      | exact osel_selNextPage env _ _
      | exact osel_selDigit env _ _ _
      | osel_leaf

/-- **`Highlighting::next`**: only the CapsLock arm changes the options -/
theorem highlightingNext_options (m : Nat) (sh : Shared D L) (ev : KeyEvent) :
    ∀ x, highlightingNext env m sh ev = .ok x →
      x.1.options = sh.options ∨
      ((ev.code = KC.unknown ∧ ev.mods.capslock = true) ∧ x.1.options = (Shared.switchLanguageMode sh).options) := by
  unfold highlightingNext
  intro x h
  dsimp only at h
  split at h
  · next hc =>
    right
    injection h with h; subst h
    exact ⟨by simpa using hc, rfl⟩
  · left
    split at h
    · injection h with h; subst h; rfl
    · split at h
      · injection h with h; subst h; rfl
      · split at h
        · split at h
          · rename_i sh' b hq
            have := (learnInRangeNotify_options env _ _ _).elim hq
            injection h with h; subst h
            exact this
          · cases h
          · cases h
        · injection h with h; subst h; rfl

end Chewing
