import Chewing.Proofs.PhraseSelHas
import Chewing.Props.C01
/-!
C07 after the FX1 repair ("a symbol list without entries is not opened"): **an open candidate list is never
empty and its current page is strictly below the page count** — `ListOk`, the page invariant `PageOk` of
`Proofs/EditorSelect.lean` WITHOUT its escape clause "or nothing is listed".

Unlike `PageOk` (kept by every operation from every state, for every environment, because page 0 of an empty
list satisfied it), `ListOk` needs to know where the range of a phrase list comes from: `Down` / `Space` on the
last page, `j` / `k` and the four `jump_to_*_selection_point` calls move the range, and the new range has a
candidate because the selector functions only stop on a range with a phrase or on the range they started
from (`Proofs/PhraseSelHas.lean`), and because `jump_to_first_selection_point` re-initialises from the
position the list was opened at, which the current range contains (C01's `Anchor`) and whose break points
enclose it (`PhraseSel.Within`, carried here).  Hence the pre-state hypothesis `C01.SafeInv` (C01's
reachable-state invariant in its exclusion-free strength).
-/
namespace Chewing
open Chewing.C06 Chewing.C04

variable {D L : Type} (env : Env D L)

/-! ### the strict page invariant -/

/-- the current page is below the page count (so the list is not empty) -/
def ListOk (s : Selecting) (sh : Shared D L) : Prop :=
  ∀ tp, Selecting.totalPage env s sh = .ok tp → s.pageNo < tp

/-- the range of a phrase list lies between the break points around the position the list was opened at -/
def SelWithin (s : Selecting) : Prop := ∀ p, s.sel = .phrase p → p.Within

theorem listOk_pageOk {s : Selecting} {sh : Shared D L} (h : ListOk env s sh) : PageOk env s sh :=
  fun tp ht => Or.inl (h tp ht)

theorem listOk_congr {sh sh' : Shared D L} (h : SameList env sh sh') {s : Selecting} (hp : ListOk env s sh) :
    ListOk env s sh' := by
  intro tp ht
  rw [totalPage_congr env h] at ht
  exact hp tp ht

/-- a list on page 0 that lists something -/
theorem listOk_zero {s : Selecting} {sh : Shared D L} (h0 : s.pageNo = 0)
    (hne : 0 < sh.options.candidatesPerPage → ∀ cs, Selecting.candidates env s sh = .ok cs → cs ≠ []) :
    ListOk env s sh := by
  intro tp ht
  obtain ⟨cs, hc, hper, rfl⟩ := totalPage_ok env ht
  rw [h0]
  exact pageCount_pos _ _ hper (List.length_pos_iff.mpr (hne hper cs hc))

theorem listOk_of_lt {s : Selecting} {sh : Shared D L} {tp k : Nat}
    (ht : Selecting.totalPage env s sh = .ok tp) (hk : k < tp) : ListOk env { s with pageNo := k } sh := by
  intro tp' ht'
  rw [totalPage_page, ht] at ht'
  injection ht' with ht'; subst ht'
  exact hk

/-- **a list that satisfies the invariant lists something** (whenever the page size is not zero) -/
theorem listOk_nonempty {s : Selecting} {sh : Shared D L} {cs : List Text} (hp : ListOk env s sh)
    (hc : Selecting.candidates env s sh = .ok cs) (hper : 0 < sh.options.candidatesPerPage) : cs ≠ [] := by
  intro hnil
  have ht : Selecting.totalPage env s sh =
      .ok ((cs.length + sh.options.candidatesPerPage - 1) / sh.options.candidatesPerPage) := by
    unfold Selecting.totalPage
    rw [hc]
    simp only [beq_iff_eq]
    rw [if_neg (by omega)]
  have := hp _ ht
  rw [hnil] at this
  simp only [List.length_nil, Nat.zero_add] at this
  rw [Nat.div_eq_of_lt (by omega)] at this
  omega

/-- … also seen from a list with the same selector on another page -/
theorem listOk_nonempty_sel {s s' : Selecting} {sh : Shared D L} {cs : List Text} (hp : ListOk env s sh)
    (hsel : s'.sel = s.sel) (hc : Selecting.candidates env s' sh = .ok cs) (hper : 0 < sh.options.candidatesPerPage) :
    cs ≠ [] := by
  have : Selecting.candidates env s' sh = Selecting.candidates env s sh := by
    unfold Selecting.candidates; rw [hsel]
  rw [this] at hc
  exact listOk_nonempty env hp hc hper

theorem per_pos_of_totalPage {s : Selecting} {sh : Shared D L} {tp : Nat}
    (ht : Selecting.totalPage env s sh = .ok tp) : 0 < sh.options.candidatesPerPage := by
  obtain ⟨_, _, hper, _⟩ := totalPage_ok env ht
  exact hper

/-! ### every arm of `Selecting::next` -/

/-- result of `Selecting::next`: the list is closed, or it stays open with the strict invariant -/
def SelOkS (r : Outcome (SelRes D L)) : Prop :=
  ∀ x, r = .ok x → x.trans = .toState .entering ∨
    ((∃ b, x.trans = .spin b) ∧ ListOk env x.sel x.shared ∧ SelWithin x.sel)

theorem selOkS_ite {c : Prop} [Decidable c] {a b : Outcome (SelRes D L)}
    (h1 : SelOkS env a) (h2 : SelOkS env b) : SelOkS env (if c then a else b) := by
  split <;> assumption

theorem selOkS_panic (p : String) : SelOkS env (.panic p : Outcome (SelRes D L)) := by
  intro x h; cases h

theorem selOkS_fuel : SelOkS env (.outOfFuel : Outcome (SelRes D L)) := by
  intro x h; cases h

theorem selOkS_close (sh : Shared D L) (s : Selecting) : SelOkS env (.ok ⟨sh, s, .toState .entering⟩) := by
  intro x h; injection h with h; subst h; exact Or.inl rfl

theorem selOkS_spin {sh : Shared D L} {s : Selecting} (b : KB) (h : ListOk env s sh) (hw : SelWithin s) :
    SelOkS env (.ok ⟨sh, s, .spin b⟩) := by
  intro x hx; injection hx with hx; subst hx; exact Or.inr ⟨⟨b, rfl⟩, h, hw⟩

theorem selWithin_page {s : Selecting} (hw : SelWithin s) (k : Nat) : SelWithin { s with pageNo := k } := hw

theorem selWithin_of_not_phrase {s : Selecting} (h : ∀ p, s.sel ≠ .phrase p) : SelWithin s :=
  fun p hp => absurd hp (h p)

/-- Down / Space: the next page, or the next range — one with a phrase, or the range the list is on -/
theorem selOkS_selDownSpace (s : Selecting) (sh : Shared D L) (hp : ListOk env s sh) (hw : SelWithin s)
    (ha : ∀ p, s.sel = .phrase p → C01.Anchor p ∧ p.begin_ < p.end_) :
    SelOkS env (selDownSpace env s sh) := by
  unfold selDownSpace
  split
  · rename_i tp ht
    have hper := per_pos_of_totalPage env ht
    split
    · rename_i hlt
      exact selOkS_spin env _ (listOk_of_lt env ht hlt) hw
    · split
      · rename_i p hsel
        split
        · rename_i p' hn
          obtain ⟨n1, n2, _, _, n5, n6⟩ := next_has env hn
          refine selOkS_spin env _ (listOk_zero env rfl ?_) ?_
          · intro _ cs hc
            have hc' : PhraseSel.candidates env p' sh.dict sh.syl = .ok cs := hc
            rcases n5 with hh | ⟨hb, he⟩
            · exact candidates_nonempty env hh hc'
            · rw [phraseCandidates_congr env n1 n2 hb he] at hc'
              have hc0 : Selecting.candidates env s sh = .ok cs := by
                unfold Selecting.candidates; rw [hsel]; exact hc'
              exact listOk_nonempty env hp hc0 hper
          · intro q hq
            injection hq with hq; subst hq
            exact n6 (ha p hsel).1 (ha p hsel).2 (hw p hsel)
        · exact selOkS_panic env _
        · exact selOkS_fuel env
      · rename_i hns
        refine selOkS_spin env _ (listOk_zero env rfl ?_) (selWithin_page hw 0)
        intro _ cs hc
        exact listOk_nonempty_sel env hp rfl hc hper
  · exact selOkS_panic env _
  · exact selOkS_fuel env

/-- `j` / `k`: what `retarget` hands back is a list on page 0 whose phrase range is inside its break points -/
theorem retarget_spec (s : Selecting) (sh : Shared D L) :
    OutAll (fun x => ∃ s', x.2 = .toState (.selecting s') ∧ s'.pageNo = 0 ∧ SelWithin s') (retarget env s sh) := by
  unfold retarget
  split
  · trivial
  · split
    · split
      · rename_i sel hi
        refine ⟨_, rfl, rfl, ?_⟩
        intro q hq
        injection hq with hq; subst hq
        exact (init_within env hi).2.2.2.2
      · trivial
      · trivial
    · split
      · exact ⟨_, rfl, rfl, selWithin_of_not_phrase (fun p h => by cases h)⟩
      · exact ⟨_, rfl, rfl, selWithin_of_not_phrase (fun p h => by cases h)⟩
      · trivial
      · trivial

/-- the end of the `j` / `k` arms: the list is closed, or it has at least one page -/
theorem closeIfEmpty_strict {r x : SelRes D L} (h : closeIfEmpty env r = .ok x) :
    x.trans = .toState .entering ∨ (x = r ∧ ∃ tp, Selecting.totalPage env r.sel r.shared = .ok tp ∧ tp ≠ 0) := by
  unfold closeIfEmpty at h
  split at h
  · rename_i tp ht
    split at h
    · injection h with h; subst h; exact .inl rfl
    · rename_i h0
      injection h with h
      exact .inr ⟨h.symm, tp, ht, by simpa using h0⟩
  · cases h
  · cases h

theorem selOkS_closeIfEmpty (r : SelRes D L) (hb : ∃ b, r.trans = .spin b) (h0 : r.sel.pageNo = 0)
    (hw : SelWithin r.sel) : SelOkS env (closeIfEmpty env r) := by
  intro x h
  rcases closeIfEmpty_strict env h with hc | ⟨rfl, tp, ht, hne⟩
  · exact .inl hc
  · refine .inr ⟨hb, ?_, hw⟩
    intro tp' ht'
    rw [ht] at ht'; injection ht' with ht'; subst ht'
    rw [h0]; omega

theorem selOkS_selMove (s : Selecting) (sh : Shared D L) (isJ : Bool) (hp : ListOk env s sh) (hw : SelWithin s) :
    SelOkS env (selMove env s sh isJ) := by
  unfold selMove
  split
  · exact selOkS_spin env _ hp hw
  · dsimp only
    split
    · rename_i sh' s' hq
      obtain ⟨s'', h1, h2, h3⟩ := (retarget_spec env _ _).elim hq
      simp only at h1
      injection h1 with h1; injection h1 with h1; subst h1
      exact selOkS_closeIfEmpty env _ ⟨_, rfl⟩ h2 h3
    · rename_i sh' t hne hq
      obtain ⟨s'', h1, _⟩ := (retarget_spec env _ _).elim hq
      simp only at h1
      first | exact (hne _ h1).elim | exact (hne _ _ h1).elim | (subst h1; exact (hne _ _ rfl).elim) | (subst h1; exact (hne _ rfl).elim)
    · exact selOkS_panic env _
    · exact selOkS_fuel env

theorem selOkS_selPrevPage (s : Selecting) (sh : Shared D L) (hp : ListOk env s sh) (hw : SelWithin s) :
    SelOkS env (selPrevPage env s sh) := by
  unfold selPrevPage
  split
  · rename_i hpos
    refine selOkS_spin env _ ?_ hw
    intro tp ht
    rw [totalPage_page] at ht
    have := hp tp ht
    show s.pageNo - 1 < tp
    omega
  · split
    · rename_i tp ht
      have := hp tp ht
      exact selOkS_spin env _ (listOk_of_lt env ht (by omega)) hw
    · exact selOkS_panic env _
    · exact selOkS_fuel env

theorem selOkS_selNextPage (s : Selecting) (sh : Shared D L) (hp : ListOk env s sh) (hw : SelWithin s) :
    SelOkS env (selNextPage env s sh) := by
  unfold selNextPage
  split
  · rename_i tp ht
    have := hp tp ht
    split
    · rename_i hlt
      exact selOkS_spin env _ (listOk_of_lt env ht hlt) hw
    · exact selOkS_spin env _ (listOk_of_lt env ht (by omega)) hw
  · exact selOkS_panic env _
  · exact selOkS_fuel env

/-- a choice that leaves the list open with the buffer untouched (`Spin(Absorb)`): a category of the symbol
    table was chosen and its sub-table lists something (FX1 repair: an empty one closes the list) -/
theorem select_descend (s : Selecting) (sh : Shared D L) (n : Nat) :
    OutAll (fun x => x.2.2 = .spin .absorb →
        (∃ y c cs, x.1.sel = .symbol y ∧ y.menu = .ok (c :: cs)) ∨ x.1.sel = s.sel)
      (Selecting.select env s sh n) := by
  unfold Selecting.select
  repeat' (first | split | (dsimp only; split))
  all_goals first
    | trivial
    | (intro h; cases h)
    | (intro _; exact Or.inr rfl)
    | (intro _; rename_i hm; exact Or.inl ⟨_, _, _, rfl, hm⟩)
    | skip
  all_goals
    simp only [Outcome.map]
    repeat' split
    all_goals first
      | trivial
      | (intro h; cases h)
      | exact Or.inr rfl
      | exact Or.inr trivial
      | (rename_i a hne hm
         cases a with
         | nil => exact absurd rfl hne
         | cons c cs => exact Or.inl ⟨_, c, cs, rfl, hm⟩)

theorem selOkS_selDigit (s : Selecting) (sh : Shared D L) (c : Nat) (hp : ListOk env s sh) (hw : SelWithin s) :
    SelOkS env (selDigit env s sh c) := by
  unfold selDigit
  split
  · rename_i s' sh' t hq
    have h := (select_shape env s sh (c - 1)).elim hq
    have hd := (select_descend env s sh (c - 1)).elim hq
    simp only at h hd
    intro x hx; injection hx with hx; subst hx
    rcases h with h | ⟨h1, h2, h3⟩ | ⟨h1, h2, h3⟩
    · exact Or.inl h
    · subst h2 h3; exact Or.inr ⟨⟨_, h1⟩, hp, hw⟩
    · subst h2
      refine Or.inr ⟨⟨_, h1⟩, listOk_zero env h3 ?_, ?_⟩
      · intro hper cs hc
        rcases hd h1 with ⟨y, c0, cs0, hy, hm⟩ | hsame
        · have : Selecting.candidates env s' sh' = y.menu := by
            unfold Selecting.candidates; rw [hy]
          rw [this, hm] at hc
          injection hc with hc; subst hc; simp
        · exact listOk_nonempty_sel env hp hsame hc hper
      · rcases hd h1 with ⟨y, c0, cs0, hy, hm⟩ | hsame
        · exact selWithin_of_not_phrase (fun p h => by rw [hy] at h; cases h)
        · intro p hpp; exact hw p (hsame ▸ hpp)
  · exact selOkS_panic env _
  · exact selOkS_fuel env

/-- **every key** handled by an open list either closes it or leaves the strict invariant intact -/
theorem selOkS_selectingNext (s : Selecting) (sh : Shared D L) (ev : KeyEvent) (hp : ListOk env s sh)
    (hw : SelWithin s) (ha : ∀ p, s.sel = .phrase p → C01.Anchor p ∧ p.begin_ < p.end_) :
    SelOkS env (selectingNext env s sh ev) := by
  unfold selectingNext
  repeat' (with_reducible apply selOkS_ite)
  all_goals first
    | exact selOkS_selDownSpace env _ _ hp hw ha
    | exact selOkS_selMove env _ _ _ hp hw
    | exact selOkS_selPrevPage env _ _ hp hw
    | exact selOkS_selNextPage env _ _ hp hw
    | exact selOkS_selDigit env _ _ _ hp hw
    | exact selOkS_close env _ _
    | exact selOkS_spin env _ hp hw

/-! ### every way of opening a list opens one that lists something, on page 0 -/

/-- a transition that opens a list opens it on page 0, with at least one candidate, a phrase range inside
    its break points -/
def OpensS (r : StepRes D L) : Prop :=
  ∀ sh' s, r = .ok (sh', .toState (.selecting s)) →
    s.pageNo = 0 ∧ (∀ cs, Selecting.candidates env s sh' = .ok cs → cs ≠ []) ∧ SelWithin s

/-- closes `OpensS (.ok (x, t))` for a concrete transition `t` that opens nothing -/
macro "openss_leaf" : tactic =>
  `(tactic| (intro sh' s h; injection h with h; injection h with h1 h2;
             first | cases h2 | (injection h2 with h2; cases h2)))

theorem opensS_ite {c : Prop} [Decidable c] {a b : StepRes D L}
    (h1 : OpensS env a) (h2 : OpensS env b) : OpensS env (if c then a else b) := by
  split <;> assumption

theorem opensS_panic (p : String) : OpensS env (.panic p : StepRes D L) := by
  intro sh' s h; cases h

theorem opensS_fuel : OpensS env (.outOfFuel : StepRes D L) := by
  intro sh' s h; cases h

theorem opensS_withCom_absorb (sh : Shared D L) (r : Outcome CompEditor) :
    OpensS env (withCom sh r fun sh => .ok (sh, .spin .absorb)) := by
  unfold withCom
  cases r with
  | ok c => openss_leaf
  | panic p => exact opensS_panic env _
  | outOfFuel => exact opensS_fuel env

theorem opensS_commitOrInsert (sh : Shared D L) (ch : Nat) : OpensS env (commitOrInsert sh ch) := by
  unfold commitOrInsert
  split
  · openss_leaf
  · exact opensS_withCom_absorb env _ _

theorem opensS_inputChar (sh : Shared D L) (ev : KeyEvent) : OpensS env (inputChar sh ev) := by
  unfold inputChar fullOrBell
  repeat' split
  all_goals first
    | exact opensS_commitOrInsert env _ _
    | openss_leaf

theorem opensS_chineseFallback (sh : Shared D L) (ev : KeyEvent) : OpensS env (chineseFallback sh ev) := by
  unfold chineseFallback
  repeat' split
  all_goals first
    | exact opensS_withCom_absorb env _ _
    | exact opensS_inputChar env _ _
    | openss_leaf

/-- `open_phrase`: the list `new_phrase` made, and it lists something -/
theorem opensS_openPhrase (sh : Shared D L) : OpensS env (openPhrase env sh) := by
  intro sh' s h
  obtain ⟨hn, hne⟩ := openPhrase_opened env h
  obtain ⟨h0, _⟩ := newPhrase_opened env hn
  refine ⟨h0, hne, ?_⟩
  unfold newPhrase at hn
  simp only at hn
  split at hn
  · rename_i sel hinit
    injection hn with hn; injection hn with h1 h2
    injection h2 with h2; injection h2 with h2
    subst h2
    intro q hq
    injection hq with hq; subst hq
    exact (init_within env hinit).2.2.2.2
  · cases hn
  · cases hn

/-- `open_symbol` (FX1 repair): only a symbol table with entries is opened -/
theorem opensS_openSymbol (sh : Shared D L) : OpensS env (openSymbol env sh) := by
  intro sh' s h
  unfold openSymbol at h
  split at h
  · injection h with h; injection h with _ h2; cases h2
  · rename_i cs0 hne hcs
    injection h with h; injection h with h1 h2
    injection h2 with h2; injection h2 with h2
    subst h1 h2
    refine ⟨rfl, ?_, selWithin_of_not_phrase (fun p hp => by cases hp)⟩
    intro cs hc hnil
    rw [hcs] at hc; injection hc with hc
    exact hne (hc.trans hnil)
  · cases h
  · cases h

/-- `open_special_symbol` (FX1 repair): only a list with entries is opened -/
theorem opensS_openSpecialSymbol (sh : Shared D L) (sym : Sym) : OpensS env (openSpecialSymbol env sh sym) := by
  intro sh' s h
  unfold openSpecialSymbol at h
  split at h
  · next sh1 s1 hn =>
    split at h
    · injection h with h; injection h with _ h2; cases h2
    · next cs0 hne hcs =>
      injection h with h; injection h with h1 h2
      injection h2 with h2; injection h2 with h2
      subst h1 h2
      obtain ⟨_, hs | hs⟩ := newSpecialSymbol_shape hn
      all_goals
        injection hs with hs; injection hs with hs; subst hs
        refine ⟨rfl, ?_, selWithin_of_not_phrase (fun p hp => by cases hp)⟩
        intro cs hc hnil
        rw [hcs] at hc; injection hc with hc
        exact hne (hc.trans hnil)
    · cases h
    · cases h
  · next hne =>
    obtain ⟨_, hs | hs⟩ := newSpecialSymbol_shape h
    · exact absurd (hs ▸ h) (hne _ _)
    · exact absurd (hs ▸ h) (hne _ _)

theorem opensS_startSelecting (sh : Shared D L) : OpensS env (startSelecting env sh) := by
  unfold startSelecting
  repeat' split
  all_goals first
    | exact opensS_openPhrase env _
    | exact opensS_openSpecialSymbol env _ _
    | openss_leaf

theorem opensS_startSelectingOrInputSpace (sh : Shared D L) : OpensS env (startSelectingOrInputSpace env sh) := by
  unfold startSelectingOrInputSpace
  repeat' split
  all_goals first
    | exact opensS_openPhrase env _
    | exact opensS_openSpecialSymbol env _ _
    | openss_leaf

theorem opensS_learnTrans (r : Outcome (Shared D L × Bool)) : OpensS env (learnTrans r) := by
  unfold learnTrans
  split
  · openss_leaf
  · exact opensS_panic env _
  · exact opensS_fuel env

theorem opensS_enteringDefault (sh : Shared D L) (ev : KeyEvent) : OpensS env (enteringDefault env sh ev) := by
  unfold enteringDefault
  repeat' split
  all_goals first
    | exact opensS_withCom_absorb env _ _
    | exact opensS_inputChar env _ _
    | exact opensS_chineseFallback env _ _
    | exact opensS_openSymbol env _
    | openss_leaf

theorem opensS_enteringBackspace (sh : Shared D L) : OpensS env (enteringBackspace sh) := by
  unfold enteringBackspace
  split
  · openss_leaf
  · exact opensS_withCom_absorb env _ _

theorem opensS_enteringCtrlDigit (sh : Shared D L) (c : Nat) : OpensS env (enteringCtrlDigit env sh c) := by
  unfold enteringCtrlDigit
  repeat' (first | split | (dsimp only; split))
  all_goals first
    | exact opensS_learnTrans env _
    | exact opensS_openSymbol env _
    | openss_leaf

theorem opensS_enteringTabInside (sh : Shared D L) : OpensS env (enteringTabInside env sh) := by
  unfold enteringTabInside
  repeat' split
  all_goals first
    | exact opensS_withCom_absorb env _ _
    | exact opensS_panic env _
    | exact opensS_fuel env

theorem opensS_enteringDel (sh : Shared D L) : OpensS env (enteringDel sh) := by
  unfold enteringDel
  split
  · openss_leaf
  · exact opensS_withCom_absorb env _ _

theorem opensS_enteringShiftLeft (sh : Shared D L) : OpensS env (enteringShiftLeft sh) := by
  unfold enteringShiftLeft
  split <;> openss_leaf

theorem opensS_enteringShiftRight (sh : Shared D L) : OpensS env (enteringShiftRight sh) := by
  unfold enteringShiftRight
  split <;> openss_leaf

theorem opensS_enteringEnter (sh : Shared D L) : OpensS env (enteringEnter env sh) := by
  unfold enteringEnter
  split
  · openss_leaf
  · exact opensS_panic env _
  · exact opensS_fuel env

theorem opensS_enteringEsc (sh : Shared D L) : OpensS env (enteringEsc sh) := by
  unfold enteringEsc
  split <;> openss_leaf

/-- `Entering`: whatever key opens a list opens one that lists something -/
theorem opensS_enteringNext (sh : Shared D L) (ev : KeyEvent) : OpensS env (enteringNext env sh ev) := by
  unfold enteringNext
  repeat' (with_reducible apply opensS_ite)
  all_goals first
    | exact opensS_enteringBackspace env _
    | exact opensS_enteringCtrlDigit env _ _
    | exact opensS_enteringTabInside env _
    | exact opensS_enteringDel env _
    | exact opensS_enteringShiftLeft env _
    | exact opensS_enteringShiftRight env _
    | exact opensS_enteringEnter env _
    | exact opensS_enteringEsc env _
    | exact opensS_commitOrInsert env _ _
    | exact opensS_enteringDefault env _ _
    | exact opensS_startSelecting env _
    | exact opensS_startSelectingOrInputSpace env _
    | openss_leaf

theorem initSingleWord_eq (st : Strategy) (com : Composition) (cur m : Nat) (h : min cur com.len = m + 1) :
    PhraseSel.initSingleWord st com cur =
      .ok { begin_ := m, end_ := m + 1, forward := false, orig := m, strategy := st, com := com } := by
  unfold PhraseSel.initSingleWord
  simp only [h]
  simp

/-- the simple engine opens the single-word list right after inserting a syllable the dictionary has a word
    for: that list lists the word -/
theorem opensS_newPhraseSimple (sh1 : Shared D L) (c0 : CompEditor) (k : Nat)
    (hi : c0.insert (.syl k) = .ok sh1.com)
    (hw : env.hasPhrase sh1.dict [k] sh1.options.lookupStrategy = true) : OpensS env (newPhraseSimple sh1) := by
  intro sh' s h
  obtain ⟨hsym, hcur, _, hle⟩ := C05.insert_at_cursor c0 (.syl k) sh1.com hi
  simp only [CompEditor.symbols] at hsym hle
  have hlen : sh1.com.inner.symbols.length = c0.inner.symbols.length + 1 := by
    have := congrArg List.length hsym
    simp only [List.length_append, List.length_take, List.length_drop, List.length_cons,
      List.length_nil] at this
    omega
  have hat : sh1.com.inner.symbols[c0.cursor]? = some (Sym.syl k) := by
    rw [hsym, List.append_assoc, List.getElem?_append_right (by simp; omega)]
    simp only [List.length_take]
    rw [Nat.min_eq_left hle, Nat.sub_self]
    rfl
  have hmin : min sh1.com.pushCursor.cursor sh1.com.pushCursor.inner.len = c0.cursor + 1 := by
    show min sh1.com.cursor sh1.com.inner.symbols.length = c0.cursor + 1
    rw [hcur, hlen]; omega
  unfold newPhraseSimple at h
  simp only at h
  rw [initSingleWord_eq _ _ _ _ hmin] at h
  simp only at h
  injection h with h; injection h with h1 h2
  injection h2 with h2; injection h2 with h2
  subst h1 h2
  refine ⟨rfl, ?_, ?_⟩
  · intro cs hc
    have hc' : PhraseSel.candidates env _ sh1.dict sh1.syl = .ok cs := hc
    refine candidates_nonempty env ?_ hc'
    exact C01.rangeHasPhrase_single _ _ (show sh1.com.inner.symbols[c0.cursor]? = some (Sym.syl k) from hat) hw (by show c0.cursor + 1 ≤ sh1.com.inner.symbols.length; omega)
  · intro q hq
    injection hq with hq; subst hq
    refine ⟨(fun hf => by cases hf), (fun _ => ?_)⟩
    exact (C01.apbp_spec _ (c := c0.cursor) (by show c0.cursor ≤ sh1.com.inner.symbols.length; omega)).1

theorem opensS_syllableAnswer (sh : Shared D L) (beh : LayoutBeh) : OpensS env (syllableAnswer env sh beh) := by
  unfold syllableAnswer
  repeat' split
  all_goals first
    | exact opensS_withCom_absorb env _ _
    | openss_leaf
    | skip
  all_goals
    rename_i hw
    unfold withCom
    split
    · rename_i c hc
      dsimp only
      split
      · exact opensS_newPhraseSimple env _ sh.com _ hc hw
      · openss_leaf
    · exact opensS_panic env _
    · exact opensS_fuel env

/-- `EnteringSyllable` (the simple engine opens a list after every completed syllable) -/
theorem opensS_enteringSyllableNext (sh : Shared D L) (ev : KeyEvent) :
    OpensS env (enteringSyllableNext env sh ev) := by
  unfold enteringSyllableNext
  repeat' split
  all_goals first
    | exact opensS_syllableAnswer env _ _
    | openss_leaf

/-! ### the range `init` returns is the longest one with a phrase (moved here from Props/C07.lean) -/

/-- the shrinking loop of `PhraseSelector::init` stops at the FIRST range that has a phrase: choosing
    forward it keeps the beginning and every longer range up to the initial end has none; choosing rearward
    it keeps the end and every longer range down to the initial beginning has none -/
theorem initLoop_longest (d : D) : ∀ (fuel : Nat) (s s' : PhraseSel), PhraseSel.initLoop env s d fuel = .ok s' →
    (s.forward = true → s'.begin_ = s.begin_ ∧
      ∀ e', s'.end_ < e' → e' ≤ s.end_ → PhraseSel.rangeHasPhrase env s d s.begin_ e' = .ok false) ∧
    (s.forward = false → s'.end_ = s.end_ ∧
      ∀ b', s.begin_ ≤ b' → b' < s'.begin_ → PhraseSel.rangeHasPhrase env s d b' s.end_ = .ok false) := by
  intro fuel
  induction fuel with
  | zero => intro s s' h; simp [PhraseSel.initLoop] at h
  | succ fuel ih =>
    intro s s' h
    unfold PhraseSel.initLoop at h
    split at h
    · cases h
    · split at h
      · cases h
      · split at h
        · cases h
        · rename_i h1 h2 h3
          have hne : s.begin_ ≠ s.end_ := by simpa using h3
          split at h
          · injection h with h; subst h
            exact ⟨fun _ => ⟨rfl, fun e' a b => by omega⟩, fun _ => ⟨rfl, fun b' a b => by omega⟩⟩
          · rename_i hfalse
            have hstop : Outcome.ok s = Outcome.ok s' →
                (s.forward = true → s'.begin_ = s.begin_ ∧
                  ∀ e', s'.end_ < e' → e' ≤ s.end_ → PhraseSel.rangeHasPhrase env s d s.begin_ e' = .ok false) ∧
                (s.forward = false → s'.end_ = s.end_ ∧
                  ∀ b', s.begin_ ≤ b' → b' < s'.begin_ → PhraseSel.rangeHasPhrase env s d b' s.end_ = .ok false) := by
              intro h; injection h with h; subst h
              exact ⟨fun _ => ⟨rfl, fun e' a b => by omega⟩, fun _ => ⟨rfl, fun b' a b => by omega⟩⟩
            have hrec : (if s.forward = true then PhraseSel.initLoop env { s with end_ := s.end_ - 1 } d fuel
                else PhraseSel.initLoop env { s with begin_ := s.begin_ + 1 } d fuel) = .ok s' →
                (s.forward = true → s'.begin_ = s.begin_ ∧
                  ∀ e', s'.end_ < e' → e' ≤ s.end_ → PhraseSel.rangeHasPhrase env s d s.begin_ e' = .ok false) ∧
                (s.forward = false → s'.end_ = s.end_ ∧
                  ∀ b', s.begin_ ≤ b' → b' < s'.begin_ → PhraseSel.rangeHasPhrase env s d b' s.end_ = .ok false) := by
              intro h
              split at h
              · rename_i hfw
                obtain ⟨ihf, _⟩ := ih _ _ h
                obtain ⟨hb, hall⟩ := ihf hfw
                refine ⟨fun _ => ⟨hb, ?_⟩, fun hh => by rw [hfw] at hh; cases hh⟩
                intro e' a b
                rcases Nat.lt_or_ge e' s.end_ with hlt | hge
                · exact hall e' a (by show e' ≤ s.end_ - 1; omega)
                · have : e' = s.end_ := by omega
                  subst this; exact hfalse
              · rename_i hfw
                have hfw' : s.forward = false := by cases hx : s.forward <;> simp_all
                obtain ⟨_, ihr⟩ := ih _ _ h
                obtain ⟨he, hall⟩ := ihr hfw'
                refine ⟨fun hh => absurd hh hfw, fun _ => ⟨he, ?_⟩⟩
                intro b' a b
                rcases Nat.lt_or_ge s.begin_ b' with hlt | hge
                · exact hall b' (by show s.begin_ + 1 ≤ b'; omega) b
                · have : b' = s.begin_ := by omega
                  subst this; exact hfalse
            -- the early exit (a syllable without a word keeps its one-syllable range): nothing was shrunk
            split at h
            · split at h
              · exact hstop h
              · exact hrec h
            · split at h
              · exact hstop h
              · exact hrec h
          · cases h
          · cases h

/-- **the range a phrase list is opened with** (Down / Space / `chewing_cand_open`, `j` / `k`,
    `chewing_cand_list_first`: `PhraseSelector::init`) **is the longest one at the cursor that has a
    phrase**: it has a phrase or is the one-syllable range of a syllable without a word (`init_range`), and — choosing forward — it starts at the cursor and no longer
    range up to the next break point has one; choosing rearward it ends after the cursor and no longer range
    down to the previous break point has one.  (Shorter ranges follow with Down / Space.)  For every
    environment; what the oracle's check D evaluates on the real editor. -/
theorem opened_range_longest {fw : Bool} {st : Strategy} {com : Composition} {cur : Nat} {d : D} {p : PhraseSel}
    (h : PhraseSel.init env fw st com cur d = .ok p) :
    (fw = true → p.begin_ = (if cur == com.len then cur - 1 else cur) ∧
      ∀ e', p.end_ < e' → e' ≤ p.nextBreakPoint cur → PhraseSel.rangeHasPhrase env p d p.begin_ e' = .ok false) ∧
    (fw = false → p.end_ = min (cur + 1) com.len ∧
      ∀ b', p.afterPreviousBreakPoint cur ≤ b' → b' < p.begin_ → PhraseSel.rangeHasPhrase env p d b' p.end_ = .ok false) := by
  unfold PhraseSel.init at h
  simp only at h
  split at h
  · rename_i hfw
    split at h
    · cases h
    · obtain ⟨_, _, hcom, hstr, _, _, _⟩ := initLoop_ok env d _ _ _ h
      obtain ⟨hf, _⟩ := initLoop_longest env d _ _ _ h
      obtain ⟨hb, hall⟩ := hf hfw
      refine ⟨fun _ => ⟨hb, ?_⟩, fun hh => by rw [hfw] at hh; cases hh⟩
      intro e' a b
      have key : ∀ (q : PhraseSel), q.com = com → q.strategy = st → ∀ x y, PhraseSel.rangeHasPhrase env q d x y =
          PhraseSel.rangeHasPhrase env { begin_ := 0, end_ := com.len, forward := fw, orig := cur, strategy := st, com := com } d x y := by
        intro q hq1 hq2 x y; unfold PhraseSel.rangeHasPhrase; rw [hq1, hq2]
      have hnb : ∀ (q : PhraseSel), q.com = com → ∀ c, q.nextBreakPoint c =
          PhraseSel.nextBreakPoint { begin_ := 0, end_ := com.len, forward := fw, orig := cur, strategy := st, com := com } c := by
        intro q hq c
        have : ∀ fuel c, PhraseSel.nextBreakPoint.go q fuel c =
            PhraseSel.nextBreakPoint.go { begin_ := 0, end_ := com.len, forward := fw, orig := cur, strategy := st, com := com } fuel c := by
          intro fuel; induction fuel with
          | zero => intro c; rfl
          | succ f ih => intro c; simp only [PhraseSel.nextBreakPoint.go, hq, ih]
        unfold PhraseSel.nextBreakPoint; rw [this, hq]
      rw [key p hcom hstr, hb]
      have := hall e' a (by rw [hnb p hcom] at b; exact b)
      rw [key _ rfl rfl] at this
      exact this
  · rename_i hfw
    have hfw' : fw = false := by cases fw <;> simp_all
    obtain ⟨_, _, hcom, hstr, _, _, _⟩ := initLoop_ok env d _ _ _ h
    obtain ⟨_, hr⟩ := initLoop_longest env d _ _ _ h
    obtain ⟨he, hall⟩ := hr hfw'
    refine ⟨(fun hh => by rw [hfw'] at hh; cases hh), fun _ => ⟨he, ?_⟩⟩
    intro b' a b
    have key : ∀ (q : PhraseSel), q.com = com → q.strategy = st → ∀ x y, PhraseSel.rangeHasPhrase env q d x y =
        PhraseSel.rangeHasPhrase env { begin_ := 0, end_ := com.len, forward := fw, orig := cur, strategy := st, com := com } d x y := by
      intro q hq1 hq2 x y; unfold PhraseSel.rangeHasPhrase; rw [hq1, hq2]
    have hap : ∀ (q : PhraseSel), q.com = com → ∀ c, q.afterPreviousBreakPoint c =
        PhraseSel.afterPreviousBreakPoint { begin_ := 0, end_ := com.len, forward := fw, orig := cur, strategy := st, com := com } c := by
      intro q hq c
      have : ∀ fuel c, PhraseSel.afterPreviousBreakPoint.go q fuel c =
          PhraseSel.afterPreviousBreakPoint.go { begin_ := 0, end_ := com.len, forward := fw, orig := cur, strategy := st, com := com } fuel c := by
        intro fuel; induction fuel with
        | zero => intro c; rfl
        | succ f ih => intro c; simp only [PhraseSel.afterPreviousBreakPoint.go, hq, ih]
      unfold PhraseSel.afterPreviousBreakPoint; rw [this]
    rw [key p hcom hstr, he]
    have := hall b' (by rw [hap p hcom] at a; exact a) b
    rw [key _ rfl rfl] at this
    exact this


/-! ### `jump_to_first_selection_point`: re-initialising from the anchor finds a range that lists something -/

/-- a phrase list over more than one syllable that lists something: the dictionary has a phrase for the range -/
theorem has_of_candidates {p : PhraseSel} {d : D} {l : L} {cs : List Text}
    (hc : PhraseSel.candidates env p d l = .ok cs) (hne : cs ≠ []) (hlen : p.end_ - p.begin_ ≠ 1) :
    PhraseSel.rangeHasPhrase env p d p.begin_ p.end_ = .ok true := by
  unfold PhraseSel.candidates at hc
  unfold PhraseSel.rangeHasPhrase
  split at hc
  · rename_i syms hs
    simp only at hc
    rw [if_neg (by simpa using hlen)] at hc
    injection hc with hc
    simp only [Env.hasPhrase]
    cases hl : env.lookupAll d (sylPrefix syms) p.strategy with
    | nil => rw [hl] at hc; exact absurd hc.symm hne
    | cons x xs => rfl
  · cases hc
  · cases hc

/-- **`jump_to_first_selection_point` on a list that lists something yields one that lists something**: the
    range `init` returns from the anchor has a phrase, or it is the one-syllable range at the anchor — and
    then the list was on that very range (a longer one inside the break points would have had no phrase) -/
theorem init_from_anchor_nonempty {p p' : PhraseSel} {d : D} {l : L} {cs0 cs : List Text}
    (hlt : p.begin_ < p.end_) (ha : C01.Anchor p) (hw : p.Within)
    (hc0 : PhraseSel.candidates env p d l = .ok cs0) (hne0 : cs0 ≠ [])
    (hq : PhraseSel.init env p.forward p.strategy p.com p.orig d = .ok p')
    (hc : PhraseSel.candidates env p' d l = .ok cs) : cs ≠ [] := by
  obtain ⟨_, _, _, hor⟩ := init_ok env hq
  obtain ⟨hfw, horig, hstr, hcom, _⟩ := init_within env hq
  rcases hor with hh | ⟨hfalse, hend, _⟩
  · exact candidates_nonempty env hh hc
  · obtain ⟨lf, lr⟩ := opened_range_longest env hq
    have hol : p.orig < p.com.len := ha.orig_lt
    cases hf : p.forward with
    | true =>
      obtain ⟨hb, hall⟩ := lf hf
      have hb' : p'.begin_ = p.begin_ := by
        rw [hb, if_neg (by simp only [beq_iff_eq]; omega), ha.fw hf]
      by_cases hsame : p.end_ = p.begin_ + 1
      · rw [phraseCandidates_congr env hcom hstr hb' (by omega)] at hc
        rw [hc0] at hc; injection hc with hc; exact hc ▸ hne0
      · exfalso
        have h1 := hall p.end_ (by omega) (by
          rw [nextBreakPoint_congr hcom]; exact hw.1 hf)
        rw [rangeHasPhrase_congr env hcom hstr, hb'] at h1
        rw [has_of_candidates env hc0 hne0 (by omega)] at h1
        cases h1
    | false =>
      obtain ⟨he, hall⟩ := lr hf
      have he' : p'.end_ = p.end_ := by
        rw [he, ha.rw hf]; omega
      by_cases hsame : p.begin_ + 1 = p.end_
      · rw [phraseCandidates_congr env hcom hstr (by omega) he'] at hc
        rw [hc0] at hc; injection hc with hc; exact hc ▸ hne0
      · exfalso
        have h1 := hall p.begin_ (by
          rw [afterPreviousBreakPoint_congr hcom]; exact hw.2 hf) (by omega)
        rw [rangeHasPhrase_congr env hcom hstr, he'] at h1
        rw [has_of_candidates env hc0 hne0 (by omega)] at h1
        cases h1

/-! ### whole operations -/

/-- **the strict page invariant of an editor**: while a list is open the current page is below the page count
    (the list is not empty), and the range of a phrase list lies inside the break points around its anchor -/
def Editor.ListInv (e : Editor D L) : Prop :=
  ∀ s, e.state = .selecting s → ListOk env s e.shared ∧ SelWithin s

theorem Editor.ListInv.pageInv {e : Editor D L} (h : e.ListInv env) : e.PageInv env :=
  fun s hs => listOk_pageOk env (h s hs).1

/-- C01's invariant of an open phrase selector -/
theorem phraseOK_of_inv {G : D → Prop} {w : Prop} {e : Editor D L} (hinv : C01.EditorInv env G w e)
    {s : Selecting} (hs : e.state = .selecting s) {p : PhraseSel} (hp : s.sel = .phrase p) :
    C01.PhraseOK env w e.shared p := by
  have h := hinv.st
  rw [hs] at h
  have h1 := h.sel
  rw [hp] at h1
  exact h1

theorem applyTrans_opensS {r : StepRes D L} (h0 : OpensS env r) {st0 : St} (hns : ∀ s, st0 ≠ .selecting s)
    {sh : Shared D L} {st : St}
    (h : r.map (fun (x : Shared D L × Trans) => applyTrans x.1 st0 x.2) = .ok (sh, st)) :
    ∀ s, st = .selecting s → ListOk env s sh ∧ SelWithin s := by
  intro s hs
  cases hr : r with
  | ok x =>
    obtain ⟨sh', t⟩ := x
    rw [hr] at h
    simp only [Outcome.map] at h
    injection h with h
    cases t with
    | toState st' =>
      rw [applyTrans_to] at h
      injection h with h1 h2
      subst h2; subst hs
      obtain ⟨a, b, c⟩ := h0 sh' s hr
      subst h1
      exact ⟨listOk_congr env (sameList_of_fields env rfl rfl rfl) (listOk_zero env a (fun _ => b)), c⟩
    | spin b =>
      rw [applyTrans_spin] at h
      injection h with h1 h2
      subst h2
      exact absurd hs (hns s)
  | panic p => rw [hr] at h; simp [Outcome.map] at h
  | outOfFuel => rw [hr] at h; simp [Outcome.map] at h

/-- the state machine part of a key keeps the strict invariant -/
theorem dispatch_listInv {G : D → Prop} {w : Prop} {e : Editor D L} (hinv : C01.EditorInv env G w e)
    {ev : KeyEvent} {sh : Shared D L} {st : St}
    (h : dispatch env e ev = .ok (sh, st)) (hi : e.ListInv env) :
    ∀ s, st = .selecting s → ListOk env s sh ∧ SelWithin s := by
  unfold dispatch at h
  split at h
  · exact applyTrans_opensS env (opensS_enteringNext env _ ev) (by intro s h; cases h) h
  · exact applyTrans_opensS env (opensS_enteringSyllableNext env _ ev) (by intro s h; cases h) h
  · rename_i s0 hs0
    intro s hs
    have hp0 : ListOk env s0 (preamble e.shared) :=
      listOk_congr env (sameList_of_fields env rfl rfl rfl) (hi s0 hs0).1
    have ha : ∀ p, s0.sel = .phrase p → C01.Anchor p ∧ p.begin_ < p.end_ := fun p hp =>
      ⟨(phraseOK_of_inv env hinv hs0 hp).anchor, (phraseOK_of_inv env hinv hs0 hp).lt⟩
    cases hr : selectingNext env s0 (preamble e.shared) ev with
    | ok x =>
      rw [hr] at h
      simp only [Outcome.map] at h
      injection h with h
      rcases selOkS_selectingNext env s0 _ ev hp0 (hi s0 hs0).2 ha x hr with hc | ⟨⟨b, hb⟩, hp, hw⟩
      · rw [hc, applyTrans_to] at h
        injection h with h1 h2
        subst h2; cases hs
      · rw [hb, applyTrans_spin] at h
        injection h with h1 h2
        subst h2; injection hs with hs; subst hs; subst h1
        exact ⟨listOk_congr env (sameList_of_fields env rfl rfl rfl) hp, hw⟩
    | panic p => rw [hr] at h; simp [Outcome.map] at h
    | outOfFuel => rw [hr] at h; simp [Outcome.map] at h
  · rename_i m hm
    intro s hs
    cases hr : highlightingNext env m (preamble e.shared) ev with
    | ok x =>
      obtain ⟨sh', m', t⟩ := x
      rw [hr] at h
      simp only [Outcome.map] at h
      injection h with h
      have hno := (highlighting_never_opens env m _ ev).elim hr
      simp only at hno
      cases t with
      | toState st' =>
        rw [applyTrans_to] at h
        injection h with h1 h2
        subst h2; subst hs
        exact absurd rfl (hno s)
      | spin b =>
        rw [applyTrans_spin] at h
        injection h with h1 h2
        subst h2; cases hs
    | panic p => rw [hr] at h; simp [Outcome.map] at h
    | outOfFuel => rw [hr] at h; simp [Outcome.map] at h

/-- **every key event keeps the strict invariant** -/
theorem processKey_listInv {G : D → Prop} {w : Prop} (hf : FlushKeepsLookups env) {e e' : Editor D L}
    (hinv : C01.EditorInv env G w e) {ev : KeyEvent} {b : KB}
    (h : e.processKey env ev = .ok (e', b)) (hi : e.ListInv env) : e'.ListInv env := by
  rw [processKey_eq] at h
  cases hd : dispatch env e ev with
  | ok x =>
    obtain ⟨sh, st⟩ := x
    rw [hd] at h; simp only at h
    obtain ⟨hst, hsl⟩ := tail_sameList env hf h
    intro s hs
    rw [hst] at hs
    obtain ⟨a, b⟩ := dispatch_listInv env hinv hd hi s hs
    exact ⟨listOk_congr env hsl a, b⟩
  | panic p => rw [hd] at h; cases h
  | outOfFuel => rw [hd] at h; cases h

/-- `Editor::select(n)` (= `chewing_cand_choose_by_index`) keeps the strict invariant -/
theorem select_listInv {e e' : Editor D L} {n : Nat} {okk : Bool}
    (h : e.select env n = .ok (e', okk)) (hi : e.ListInv env) : e'.ListInv env := by
  unfold Editor.select at h
  split at h
  · rename_i s0 hs0
    split at h
    · rename_i s' sh t hq
      have hshape := (select_shape env s0 e.shared n).elim hq
      have hd := (select_descend env s0 e.shared n).elim hq
      simp only at hshape hd h
      split at h
      · rename_i sh2 h2
        injection h with h; injection h with h1 _
        subst h1
        intro s hs
        simp only at hs
        have hsl : SameList env (applyTrans sh (St.selecting s') t).1 sh2 := by
          split at h2
          · exact tryAutoCommit_sameList env h2
          · injection h2 with h2; subst h2; exact SameList.refl env _
        rcases hshape with hc | ⟨h1, h2', h3⟩ | ⟨h1, h2', h3⟩
        · rw [hc, applyTrans_to] at hs; cases hs
        · rw [h1, applyTrans_spin] at hs hsl
          injection hs with hs; subst hs; subst h2' h3
          exact ⟨listOk_congr env (SameList.trans env (sameList_of_fields env rfl rfl rfl) hsl) (hi _ hs0).1, (hi _ hs0).2⟩
        · rw [h1, applyTrans_spin] at hs hsl
          injection hs with hs; subst hs; subst h2'
          refine ⟨listOk_congr env (SameList.trans env (sameList_of_fields env rfl rfl rfl) hsl)
            (listOk_zero env h3 ?_), ?_⟩
          · intro hper cs hc
            rcases hd h1 with ⟨y, c0, cs0, hy, hm⟩ | hsame
            · have hcm : ∀ shx : Shared D L, Selecting.candidates env s' shx = y.menu := by
                intro shx; unfold Selecting.candidates; rw [hy]
              rw [hcm, hm] at hc
              injection hc with hc; subst hc; simp
            · exact listOk_nonempty_sel env (listOk_congr env (sameList_of_fields env rfl rfl rfl) (hi _ hs0).1) hsame hc hper
          · rcases hd h1 with ⟨y, c0, cs0, hy, hm⟩ | hsame
            · exact selWithin_of_not_phrase (fun p h => by rw [hy] at h; cases h)
            · intro p hpp; exact (hi _ hs0).2 p (hsame ▸ hpp)
      · cases h
      · cases h
    · cases h
    · cases h
  · injection h with h; injection h with h1 _
    subst h1; exact hi

/-- `jump_to_{first,last,next,prev}_selection_point` (= `chewing_cand_list_*`): the range moves to one that has
    a phrase, or stays; a refused jump changes nothing -/
theorem jump_listInv {G : D → Prop} {w : Prop} {e e' : Editor D L} (hinv : C01.EditorInv env G w e)
    {which : Nat} {okk : Bool}
    (h : e.jump env which = .ok (e', okk)) (hi : e.ListInv env) : e'.ListInv env := by
  unfold Editor.jump at h
  split at h
  · rename_i s hst
    split at h
    · rename_i p hp
      have hpo := phraseOK_of_inv env hinv hst hp
      obtain ⟨hl, hwi⟩ := hi s hst
      have hw : p.Within := hwi p hp
      -- the list the editor is on lists something (for a positive page size)
      have hcur : 0 < e.shared.options.candidatesPerPage → ∀ cs0,
          PhraseSel.candidates env p e.shared.dict e.shared.syl = .ok cs0 → cs0 ≠ [] := by
        intro hper cs0 hc0
        have : Selecting.candidates env s e.shared = .ok cs0 := by
          unfold Selecting.candidates; rw [hp]; exact hc0
        exact listOk_nonempty env hl this hper
      obtain ⟨cs0, hc0⟩ := C01.phraseCandidates_returns hpo
      -- the editor with the selector moved to `p'`
      have fin : ∀ p' : PhraseSel, p'.Within →
          (0 < e.shared.options.candidatesPerPage → ∀ cs, PhraseSel.candidates env p' e.shared.dict e.shared.syl = .ok cs → cs ≠ []) →
          Editor.ListInv env { e with state := .selecting { s with sel := .phrase p', pageNo := 0 } } := by
        intro p' hw' hne s1 hs1
        injection hs1 with hs1; subst hs1
        refine ⟨listOk_zero env rfl (fun hper cs hc => hne hper cs hc), ?_⟩
        intro q hq; injection hq with hq; subst hq; exact hw'
      dsimp only at h
      split at h
      · -- first
        split at h
        · rename_i p' hq
          injection h with h; injection h with h1 _; subst h1
          exact fin p' (init_within env hq).2.2.2.2 (fun hper cs hc =>
            init_from_anchor_nonempty env hpo.lt hpo.anchor hw hc0 (hcur hper cs0 hc0) hq hc)
        · cases h
        · cases h
      · -- last
        split at h
        · rename_i p' hq
          injection h with h; injection h with h1 _; subst h1
          obtain ⟨j1, j2, j3, j4, j5, j6, j7⟩ := jumpToLast_has env hq
          refine fin p' (within_congr j1 j3 j4 (fun _ => j6) (fun _ => j5) hw) ?_
          intro hper cs hc
          rcases j7 with hh | ⟨hb, he⟩
          · exact candidates_nonempty env hh hc
          · rw [phraseCandidates_congr env j1 j2 hb he] at hc
            exact hcur hper cs hc
        · cases h
        · cases h
      · -- next
        split at h
        · rename_i b en hq
          injection h with h; injection h with h1 _; subst h1
          obtain ⟨n1, n2, n3⟩ := nextSelectionPoint_has env hq
          refine fin _ (within_congr (p := p) rfl rfl rfl (fun _ => n3) (fun _ => n2) hw) ?_
          intro hper cs hc
          exact candidates_nonempty env (by
            show PhraseSel.rangeHasPhrase env { p with begin_ := b, end_ := en } e.shared.dict b en = .ok true
            exact n1) hc
        · injection h with h; injection h with h1 _; subst h1; exact hi
        · cases h
        · cases h
      · -- prev
        split at h
        · rename_i b en hq
          injection h with h; injection h with h1 _; subst h1
          obtain ⟨n1, n2, n3⟩ := prevSelectionPoint_has env hq
          refine fin _ ⟨(fun hf => by
              show en ≤ PhraseSel.nextBreakPoint { p with begin_ := b, end_ := en } p.orig
              rw [nextBreakPoint_congr (p := p) (q := { p with begin_ := b, end_ := en }) rfl]; exact (n2 hf).2), (fun hf => by
              show PhraseSel.afterPreviousBreakPoint { p with begin_ := b, end_ := en } p.orig ≤ b
              rw [afterPreviousBreakPoint_congr (p := p) (q := { p with begin_ := b, end_ := en }) rfl]; exact (n3 hf).2)⟩ ?_
          intro hper cs hc
          exact candidates_nonempty env (by
            show PhraseSel.rangeHasPhrase env { p with begin_ := b, end_ := en } e.shared.dict b en = .ok true
            exact n1) hc
        · injection h with h; injection h with h1 _; subst h1; exact hi
        · cases h
        · cases h
    · injection h with h; injection h with h1 _; subst h1; exact hi
  · injection h with h; injection h with h1 _; subst h1; exact hi

/-- `Editor::start_selecting` (= `chewing_cand_open`) opens a list that lists something, or leaves an open list alone -/
theorem startSelecting_listInv {e e' : Editor D L} {okk : Bool}
    (h : e.startSelecting env = .ok (e', okk)) (hi : e.ListInv env) : e'.ListInv env := by
  unfold Editor.startSelecting at h
  simp only at h
  split at h
  · rename_i sh t hr
    injection h with h; injection h with h1 _
    subst h1
    intro s hs
    have hleave : ∀ x : Editor D L, (Editor.leaveIfEmpty env x).shared = x.shared ∧
        ((Editor.leaveIfEmpty env x).state = x.state ∨ (Editor.leaveIfEmpty env x).state = .entering) := by
      intro x; unfold Editor.leaveIfEmpty; split
      · exact ⟨rfl, Or.inr rfl⟩
      · exact ⟨rfl, Or.inl rfl⟩
    obtain ⟨hsh, hst⟩ := hleave { shared := (applyTrans sh e.state t).1, state := (applyTrans sh e.state t).2 }
    rw [hsh]
    have opened : ∀ (sh0 : Shared D L) (s1 : Selecting), startSelecting env sh0 = .ok (sh, .toState (.selecting s1)) →
        ListOk env s1 { sh with last := .absorb } ∧ SelWithin s1 := by
      intro sh0 s1 hr1
      obtain ⟨a, b, c⟩ := opensS_startSelecting env _ _ _ hr1
      exact ⟨listOk_congr env (sameList_of_fields env rfl rfl rfl) (listOk_zero env a (fun _ => b)), c⟩
    rcases hst with hst | hst
    · rw [hst] at hs
      simp only at hs
      split at hr
      · rename_i he
        cases t with
        | toState st' =>
          rw [applyTrans_to] at hs ⊢
          simp only at hs; subst hs
          exact opened _ _ hr
        | spin b =>
          rw [applyTrans_spin] at hs; simp only at hs
          rw [he] at hs; cases hs
      · rename_i he
        cases t with
        | toState st' =>
          rw [applyTrans_to] at hs ⊢
          simp only at hs; subst hs
          exact opened _ _ hr
        | spin b =>
          rw [applyTrans_spin] at hs; simp only at hs
          rw [he] at hs; cases hs
      · injection hr with hr; injection hr with hr1 hr2
        subst hr1 hr2
        rw [applyTrans_spin] at hs ⊢
        simp only at hs ⊢
        exact ⟨listOk_congr env (sameList_of_fields env rfl rfl rfl) (hi s hs).1, (hi s hs).2⟩
    · rw [hst] at hs; cases hs
  · cases h
  · cases h

end Chewing
