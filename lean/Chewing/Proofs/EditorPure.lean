import Chewing.Model.Editor
/-!
Definitions and lemmas for C17 (queries are pure, contexts are independent, reset is clean), over
the editor model `Model/Editor.lean`.

* `Query`, `Value`, `Editor.query`: the `&self` getters of `Editor` (`src/editor/mod.rs`) as functions
  of the editor value; `Editor.applyR`: every mutating entry point WITH its return value;
  `OpQ`, `Editor.runQ`: histories with queries interleaved.
* `Pair`: two editors side by side (two contexts of one process).
* `Config`, `Editor.fresh`: what the constructors produce; `Editor.config`: what a reset keeps.
* `Ctx`: a small wrapper model of the C context (`capi/src/public.rs: ChewingContext`): the editor plus
  the four iterator slots written by the enumerate-style calls.
* `LogSlot`: the process-wide logger slot of `capi/src/io.rs` (`static LOGGER`).
-/
namespace Chewing

namespace Outcome

theorem map_map {α β γ : Type} (f : α → β) (g : β → γ) (x : Outcome α) :
    (x.map f).map g = x.map (fun a => g (f a)) := by
  cases x <;> rfl

@[simp] theorem map_ok {α β : Type} (f : α → β) (a : α) : (Outcome.ok a).map f = .ok (f a) := rfl
@[simp] theorem map_panic {α β : Type} (f : α → β) (p : String) : (Outcome.panic p : Outcome α).map f = .panic p := rfl
@[simp] theorem map_fuel {α β : Type} (f : α → β) : (Outcome.outOfFuel : Outcome α).map f = .outOfFuel := rfl

theorem map_id' {α : Type} (x : Outcome α) : x.map (fun a => a) = x := by
  cases x <;> rfl

theorem map_congr {α β : Type} {f g : α → β} (x : Outcome α) (h : ∀ a, f a = g a) : x.map f = x.map g := by
  cases x <;> simp [Outcome.map, h]

end Outcome

/-! ### values and queries -/

/-- what getters and operations return -/
inductive Value where
  | unit
  | bool (b : Bool)
  | nat (n : Nat)
  | text (t : Text)
  | texts (l : List Text)
  | syms (l : List Sym)
  | ivs (l : List Interval)
  | kb (k : KB)
  | opts (o : Options)
  /-- `Err(EditorError::InvalidState)` of the candidate getters outside `Selecting` -/
  | invalidState
deriving Repr, DecidableEq

/-- the `&self` getters of `Editor` (`syllable_buffer_display` needs the layout's `key_seq`, which the
    environment does not expose: it is covered by the harness oracle only) -/
inductive Query where
  | display | displayCommit | notification | intervals | cursor | symbols | len | isEmpty
  | isEntering | isSelecting | enteringSyllable | syllableBuffer
  | allCandidates | paginatedCandidates | totalPage | currentPageNo
  | hasNextSelectionPoint | hasPrevSelectionPoint | editorOptions | lastKeyBehavior
deriving Repr, DecidableEq

section
variable {D L : Type} (env : Env D L)

/-- the candidate getters: `Err(InvalidState)` unless a candidate list is open -/
def Editor.whenSelecting (e : Editor D L) (f : Selecting → Outcome Value) : Outcome Value :=
  match e.state with
  | .selecting s => f s
  | _ => .ok .invalidState

/-- every getter is a function of the editor value (a panic inside a getter is a value too) -/
def Editor.query (e : Editor D L) : Query → Outcome Value
  | .display => (Shared.display env e.shared).map .text
  | .displayCommit => .ok (.text e.shared.commitBuf)
  | .notification => .ok (.text e.shared.noticeBuf)
  | .intervals => (Shared.conversion env e.shared).map .ivs
  | .cursor => .ok (.nat e.shared.com.cursor)
  | .symbols => .ok (.syms e.shared.com.symbols)
  | .len => .ok (.nat e.shared.com.len)
  | .isEmpty => .ok (.bool e.shared.com.isEmpty)
  | .isEntering => .ok (.bool (e.state == .entering))
  | .isSelecting => .ok (.bool (match e.state with | .selecting _ => true | _ => false))
  | .enteringSyllable => .ok (.bool (!env.sylIsEmpty e.shared.syl))
  | .syllableBuffer => .ok (.nat (env.read e.shared.syl))
  | .allCandidates => e.whenSelecting fun s => (Selecting.candidates env s e.shared).map .texts
  | .paginatedCandidates => e.whenSelecting fun s =>
      (Selecting.candidates env s e.shared).map fun cs =>
        .texts (cs.drop (s.pageNo * e.shared.options.candidatesPerPage))
  | .totalPage => e.whenSelecting fun s => (Selecting.totalPage env s e.shared).map .nat
  | .currentPageNo => e.whenSelecting fun s => .ok (.nat s.pageNo)
  | .hasNextSelectionPoint =>
    match e.state with
    | .selecting { sel := .phrase p, .. } =>
      (PhraseSel.nextSelectionPoint env p e.shared.dict).map fun o => .bool o.isSome
    | _ => .ok (.bool false)
  | .hasPrevSelectionPoint =>
    match e.state with
    | .selecting { sel := .phrase p, .. } =>
      (PhraseSel.prevSelectionPoint env p e.shared.dict).map fun o => .bool o.isSome
    | _ => .ok (.bool false)
  | .editorOptions => .ok (.opts e.shared.options)
  | .lastKeyBehavior => .ok (.kb e.shared.last)

/-- one operation with its return value (`Editor.apply` drops it) -/
def Editor.applyR (e : Editor D L) : Op L → Outcome (Editor D L × Value)
  | .key ev => (e.processKey env ev).map fun r => (r.1, .kb r.2)
  | .select n => (e.select env n).map fun r => (r.1, .bool r.2)
  | .startSelecting => (e.startSelecting env).map fun r => (r.1, .bool r.2)
  | .cancelSelecting => .ok (e.cancelSelecting.1, .bool e.cancelSelecting.2)
  | .commit => (e.commit env).map fun r => (r.1, .bool r.2)
  | .clear => .ok (e.clear env, .unit)
  | .ack => .ok (e.ack, .unit)
  | .clearSyl => .ok (e.clearSyllableEditor env, .unit)
  | .setOptions o => (Editor.revalidate env (e.setOptions env o)).map fun e' => (e', .unit)
  | .setLayout l => (Editor.revalidate env (e.setLayout env l)).map fun e' => (e', .unit)
  | .setEngine k => .ok ({ e with shared := { e.shared with engine := k } }, .unit)
  | .learn k p =>
    match Shared.learnPhrase env e.shared k p with
    | .ok (sh, okk) => (Editor.revalidate env { e with shared := sh }).map fun e' => (e', .bool okk)
    | .panic q => .panic q
    | .outOfFuel => .outOfFuel
  | .unlearn k p =>
    (Editor.revalidate env { e with shared := Shared.unlearnPhrase env e.shared k p }).map fun e' => (e', .bool true)
  | .jump w => (e.jump env w).map fun r => (r.1, .bool r.2)

/-- `applyR` is `apply` plus the return value -/
theorem Editor.applyR_fst (e : Editor D L) (op : Op L) : (e.applyR env op).map (·.1) = e.apply env op := by
  have map_id : ∀ {α : Type} (r : Outcome α), r.map (fun a => a) = r := by intro α r; cases r <;> rfl
  cases op <;> simp only [Editor.applyR, Editor.apply, Outcome.map_map] <;> try rfl
  case setOptions => exact map_id _
  case setLayout => exact map_id _
  case unlearn => exact map_id _
  case learn k p =>
    cases Shared.learnPhrase env e.shared k p with
    | ok r => obtain ⟨sh, okk⟩ := r; simp only [Outcome.map_map]; exact map_id _
    | panic q => rfl
    | outOfFuel => rfl

/-- a history with all return values -/
def Editor.runR (e : Editor D L) : List (Op L) → Outcome (Editor D L × List Value)
  | [] => .ok (e, [])
  | op :: ops =>
    match e.applyR env op with
    | .ok (e', v) => (Editor.runR e' ops).map fun r => (r.1, v :: r.2)
    | .panic p => .panic p
    | .outOfFuel => .outOfFuel

theorem Editor.runR_fst (ops : List (Op L)) : ∀ e : Editor D L, (e.runR env ops).map (·.1) = e.run env ops := by
  induction ops with
  | nil => intro e; rfl
  | cons op ops ih =>
    intro e
    have h := Editor.applyR_fst env e op
    simp only [Editor.runR, Editor.run]
    cases hr : e.applyR env op with
    | ok x =>
      obtain ⟨e', v⟩ := x
      rw [hr] at h; simp only [Outcome.map] at h
      rw [← h]; simp only [Outcome.map_map]; exact ih e'
    | panic p => rw [hr] at h; simp only [Outcome.map] at h; rw [← h]; rfl
    | outOfFuel => rw [hr] at h; simp only [Outcome.map] at h; rw [← h]; rfl

/-! ### histories with queries -/

/-- an operation or a query -/
inductive OpQ (L : Type) where
  | op (o : Op L)
  | query (q : Query)

/-- what a client sees of one call -/
inductive Ev where
  /-- return value of an operation -/
  | ret (v : Value)
  /-- answer of a query -/
  | ans (q : Query) (v : Outcome Value)
deriving DecidableEq

/-- one call: a query returns its answer and THE SAME editor value -/
def Editor.stepQ (e : Editor D L) : OpQ L → Outcome (Editor D L × Ev)
  | .op o => (e.applyR env o).map fun r => (r.1, .ret r.2)
  | .query q => .ok (e, .ans q (e.query env q))

def Editor.runQ (e : Editor D L) : List (OpQ L) → Outcome (Editor D L × List Ev)
  | [] => .ok (e, [])
  | c :: cs =>
    match e.stepQ env c with
    | .ok (e', ev) => (Editor.runQ e' cs).map fun r => (r.1, ev :: r.2)
    | .panic p => .panic p
    | .outOfFuel => .outOfFuel

/-- the operations of a mixed history -/
def OpQ.strip : List (OpQ L) → List (Op L)
  | [] => []
  | .op o :: cs => o :: OpQ.strip cs
  | .query _ :: cs => OpQ.strip cs

/-- the return values of the operations in a trace -/
def Ev.rets : List Ev → List Value
  | [] => []
  | .ret v :: es => v :: Ev.rets es
  | .ans _ _ :: es => Ev.rets es

/-! ### two contexts -/

/-- two contexts of one process: two editor values, each with its own dictionary and layout -/
structure Pair (D₁ L₁ D₂ L₂ : Type) where
  a : Editor D₁ L₁
  b : Editor D₂ L₂

/-- which context answered -/
inductive Tagged where
  | a (v : Value)
  | b (v : Value)
deriving DecidableEq

section pair
variable {D₁ L₁ D₂ L₂ : Type} (envA : Env D₁ L₁) (envB : Env D₂ L₂)

/-- a call on one of the two contexts -/
def Pair.step (p : Pair D₁ L₁ D₂ L₂) : Op L₁ ⊕ Op L₂ → Outcome (Pair D₁ L₁ D₂ L₂ × Tagged)
  | .inl o => (p.a.applyR envA o).map fun r => ({ p with a := r.1 }, .a r.2)
  | .inr o => (p.b.applyR envB o).map fun r => ({ p with b := r.1 }, .b r.2)

def Pair.run (p : Pair D₁ L₁ D₂ L₂) : List (Op L₁ ⊕ Op L₂) → Outcome (Pair D₁ L₁ D₂ L₂ × List Tagged)
  | [] => .ok (p, [])
  | c :: cs =>
    match p.step envA envB c with
    | .ok (p', v) => (Pair.run p' cs).map fun r => (r.1, v :: r.2)
    | .panic s => .panic s
    | .outOfFuel => .outOfFuel

def lefts {α β : Type} : List (α ⊕ β) → List α
  | [] => []
  | .inl x :: l => x :: lefts l
  | .inr _ :: l => lefts l

def rights {α β : Type} : List (α ⊕ β) → List β
  | [] => []
  | .inl _ :: l => rights l
  | .inr x :: l => x :: rights l

def Tagged.as : List Tagged → List Value
  | [] => []
  | .a v :: l => v :: Tagged.as l
  | .b _ :: l => Tagged.as l

def Tagged.bs : List Tagged → List Value
  | [] => []
  | .a _ :: l => Tagged.bs l
  | .b v :: l => v :: Tagged.bs l

end pair

/-! ### fresh editors and what a reset keeps -/

/-- the constructor arguments and the configuration of an editor -/
structure Config (D L : Type) where
  /-- the installed phonetic layout, in its initial (empty) state -/
  syl : L
  engine : EngineKind
  dict : D
  abbr : List (Nat × Text)
  symSel : SymSel
  options : Options
  /-- initial clock of the frequency estimator (`LaxUserFreqEstimate::new(t)` / `max_from(user_dict)`) -/
  time : Nat

/-- `Editor::new(engine, dict, estimate, abbr, sym_sel)` followed by `set_editor_options`,
    `set_syllable_editor`: every other field of `SharedState` has its initial value (empty composition,
    cursor 0, no saved cursor, `last_key_behavior = Absorb`, `dirty_level = 0`, `nth_conversion = 0`,
    empty commit / notice buffers), state `Entering` -/
def Editor.fresh (cfg : Config D L) : Editor D L :=
  { shared := { syl := cfg.syl, engine := cfg.engine, dict := cfg.dict, abbr := cfg.abbr, symSel := cfg.symSel,
                time := cfg.time, options := cfg.options },
    state := .entering }

/-- what a reset keeps of an editor: its configuration, dictionary, tables, the layout object (cleared)
    and the running clock -/
def Editor.config (e : Editor D L) : Config D L :=
  { syl := env.clearSyl e.shared.syl, engine := e.shared.engine, dict := e.shared.dict, abbr := e.shared.abbr,
    symSel := e.shared.symSel, options := e.shared.options, time := e.shared.time }

/-- set the pending flush level (the only field a reset keeps that a fresh editor cannot be given) -/
def Editor.withDirty (e : Editor D L) (k : Nat) : Editor D L := { e with shared := { e.shared with dirty := k } }

/-- `Editor::clear` as it was before the F25 fix: `CompositionEditor::clear` kept `cursor_stack` -/
def Editor.clearBeforeFix (e : Editor D L) : Editor D L :=
  { shared := { Shared.clear env e.shared with com := { e.shared.com with inner := e.shared.com.inner.clear, cursor := 0 } },
    state := .entering }

end

/-! ### the C context: editor + iterator slots (capi/src/public.rs) -/

/-- an iterator slot of the context (`Option<Peekable<…>>`): the items not yet handed out -/
abbrev Slot (α : Type) := Option (List α)

namespace Slot

/-- `*_hasNext`: `peek().is_some()` -/
def hasNext {α : Type} (s : Slot α) : Bool :=
  match s with
  | some (_ :: _) => true
  | _ => false

/-- `*_String` / `*_Get`: `next()` -/
def next {α : Type} (s : Slot α) : Option α × Slot α :=
  match s with
  | some (x :: xs) => (some x, some xs)
  | s => (none, s)

/-- the documented loop `while hasNext { get }`, with fuel -/
def drain {α : Type} : Nat → Slot α → List α × Slot α
  | 0, s => ([], s)
  | fuel + 1, s =>
    if s.hasNext then
      match s.next with
      | (some x, s') => let r := drain fuel s'; (x :: r.1, r.2)
      | (none, s') => ([], s')
    else ([], s)

theorem drain_some {α : Type} (l : List α) : ∀ fuel, l.length ≤ fuel → drain fuel (some l) = (l, some []) := by
  induction l with
  | nil => intro fuel _; cases fuel <;> rfl
  | cons x xs ih =>
    intro fuel h
    cases fuel with
    | zero => simp at h
    | succ f =>
      have := ih f (by simpa using h)
      simp [drain, hasNext, next, this]

end Slot

/-- the context: the editor, plus the slots written by `chewing_cand_Enumerate`,
    `chewing_interval_Enumerate`, `chewing_kbtype_Enumerate` (`chewing_userphrase_enumerate` has the same
    shape; its source, the user dictionary's entry list, is not part of `Env`) -/
structure Ctx (D L : Type) where
  ed : Editor D L
  cand : Slot Text := none
  iv : Slot Interval := none
  kb : Slot Nat := none

/-- the enumerate-style C calls -/
inductive CQuery where
  | candEnumerate | candHasNext | candString
  | intervalEnumerate | intervalHasNext | intervalGet
  | kbtypeEnumerate | kbtypeHasNext | kbtypeString
  /-- any plain getter of the editor -/
  | plain (q : Query)
deriving DecidableEq

/-- answers of the enumerate-style calls -/
inductive CAns where
  | none
  | bool (b : Bool)
  | text (t : Option Text)
  | iv (i : Option Interval)
  | kb (k : Option Nat)
  | val (v : Outcome Value)
deriving DecidableEq

section
variable {D L : Type} (env : Env D L)

/-- the number of keyboard layouts (`KeyboardLayoutCompat`) -/
def kbTypes : List Nat := List.range 17

/-- the enumerate-style calls as coded: `Enumerate` overwrites its own slot (the candidate one only
    while a list is open), `hasNext` peeks (`chewing_cand_hasNext` answers 0 outside `Selecting`),
    `String`/`Get` advance the slot; nothing else is written -/
def Ctx.cquery (c : Ctx D L) : CQuery → Ctx D L × CAns
  | .candEnumerate =>
    match c.ed.query env .paginatedCandidates with
    | .ok (.texts l) => ({ c with cand := some l }, .none)
    | _ => (c, .none)
  | .candHasNext =>
    match c.ed.state with
    | .selecting _ => (c, .bool c.cand.hasNext)
    | _ => (c, .bool false)
  | .candString => ({ c with cand := c.cand.next.2 }, .text c.cand.next.1)
  | .intervalEnumerate =>
    match Shared.conversion env c.ed.shared with
    | .ok l => ({ c with iv := some (l.filter (·.isPhrase)) }, .none)
    | _ => (c, .none)
  | .intervalHasNext => (c, .bool c.iv.hasNext)
  | .intervalGet => ({ c with iv := c.iv.next.2 }, .iv c.iv.next.1)
  | .kbtypeEnumerate => ({ c with kb := some kbTypes }, .none)
  | .kbtypeHasNext => (c, .bool c.kb.hasNext)
  | .kbtypeString => ({ c with kb := c.kb.next.2 }, .kb c.kb.next.1)
  | .plain q => (c, .val (c.ed.query env q))

/-- an operation of the context: only the editor is read and written -/
def Ctx.cop (c : Ctx D L) (o : Op L) : Outcome (Ctx D L × Value) :=
  (c.ed.applyR env o).map fun r => ({ c with ed := r.1 }, r.2)

/-- a call on the context -/
inductive CCall (L : Type) where
  | op (o : Op L)
  | q (q : CQuery)

/-- run calls; collect the return values of the operations only -/
def Ctx.run (c : Ctx D L) : List (CCall L) → Outcome (Ctx D L × List Value)
  | [] => .ok (c, [])
  | .op o :: cs =>
    match c.cop env o with
    | .ok (c', v) => (Ctx.run c' cs).map fun r => (r.1, v :: r.2)
    | .panic p => .panic p
    | .outOfFuel => .outOfFuel
  | .q q :: cs => Ctx.run (c.cquery env q).1 cs

/-- what a client sees of one C call: the return value of an operation or the answer of a getter -/
inductive CEv where
  | ret (v : Value)
  | ans (a : CAns)
deriving DecidableEq

/-- run calls; collect EVERYTHING the client sees (slot reads without Enumerate included) -/
def Ctx.trace (c : Ctx D L) : List (CCall L) → Outcome (Ctx D L × List CEv)
  | [] => .ok (c, [])
  | .op o :: cs =>
    match c.cop env o with
    | .ok (c', v) => (Ctx.trace c' cs).map fun r => (r.1, .ret v :: r.2)
    | .panic p => .panic p
    | .outOfFuel => .outOfFuel
  | .q q :: cs => (Ctx.trace (c.cquery env q).1 cs).map fun r => (r.1, .ans (c.cquery env q).2 :: r.2)

/-- `chewing_Reset` (capi/src/io.rs, after the second C17 fix): the editor is cleared and the iterator
    slots are dropped -/
def Ctx.reset (c : Ctx D L) : Ctx D L := { ed := c.ed.clear env }

/-- `chewing_Reset` as it was: only `ctx.editor.clear()`, the slots kept -/
def Ctx.resetBeforeFix (c : Ctx D L) : Ctx D L := { c with ed := c.ed.clear env }

/-- `chewing_new2`: a new editor, empty slots -/
def Ctx.fresh (cfg : Config D L) : Ctx D L := { ed := Editor.fresh cfg }

def CCall.strip : List (CCall L) → List (Op L)
  | [] => []
  | .op o :: cs => o :: CCall.strip cs
  | .q _ :: cs => CCall.strip cs

end

/-! ### the process-wide logger slot (capi/src/io.rs `static LOGGER`, capi/src/logger.rs) -/

/-- calls that touch the logger slot, per context id -/
inductive LogCall where
  /-- `chewing_new2(.., logger, data)`: installs the callback only when one is given -/
  | new2 (ctx : Nat) (withLogger : Bool)
  /-- `chewing_delete(ctx)`: `LOGGER.set(None)` whoever owns the slot -/
  | delete (ctx : Nat)
  /-- `chewing_set_logger(ctx, logger, data)` -/
  | setLogger (ctx : Nat) (withLogger : Bool)
  /-- any call on `ctx` that emits a log line -/
  | work (ctx : Nat)
deriving DecidableEq

/-- the slot: whose callback and data pointer are installed -/
abbrev LogSlot := Option Nat

/-- one call: new slot, and for `work` who emitted and whose callback received the line -/
def LogSlot.step (s : LogSlot) : LogCall → LogSlot × Option (Nat × Option Nat)
  | .new2 c true => (some c, none)
  | .new2 _ false => (s, none)
  | .delete _ => (none, none)
  | .setLogger c true => (some c, none)
  | .setLogger _ false => (none, none)
  | .work c => (s, some (c, s))

/-- deliveries of a history: (emitting context, receiving callback) -/
def LogSlot.run (s : LogSlot) : List LogCall → List (Nat × Option Nat)
  | [] => []
  | c :: cs =>
    match (s.step c).2 with
    | some d => d :: LogSlot.run (s.step c).1 cs
    | none => LogSlot.run (s.step c).1 cs

/-- does the call touch the slot on behalf of a context other than `c`? (the class `F33-logger-global`) -/
def LogCall.foreign (c : Nat) : LogCall → Bool
  | .new2 d true => d != c
  | .new2 _ false => false
  | .delete d => d != c
  | .setLogger d _ => d != c
  | .work _ => false

/-- does the call (by `c` itself) remove `c`'s callback? -/
def LogCall.uninstalls (c : Nat) : LogCall → Bool
  | .delete d => d == c
  | .setLogger d false => d == c
  | _ => false

end Chewing
