import Chewing.Model.Editor
/-!
`Editor::revalidate_selecting` (the F32 repair): what it can do to an editor.  Used by every property
that reasons about the option / layout / dictionary calls (`Editor.apply` on `setOptions`, `setLayout`,
`learn`, `unlearn` ends with it).
-/
namespace Chewing

variable {D L : Type} (env : Env D L)

/-- the three things `revalidate_selecting` can do: nothing; clamp the page of the open list to the last
    page; close a list that has become empty (`cancel_selecting`) -/
theorem revalidate_cases {e e' : Editor D L} (h : e.revalidate env = .ok e') :
    e' = e ∨
    (∃ s tp, e.state = .selecting s ∧ Selecting.totalPage env s e.shared = .ok tp ∧ 0 < tp ∧ tp ≤ s.pageNo ∧
      e' = { e with state := .selecting { s with pageNo := tp - 1 } }) ∨
    (∃ s, e.state = .selecting s ∧ Selecting.totalPage env s e.shared = .ok 0 ∧
      e' = { shared := Shared.cancelSelecting e.shared, state := .entering }) := by
  unfold Editor.revalidate at h
  split at h
  · rename_i s hs
    split at h
    · rename_i tp ht
      split at h
      · rename_i h0
        have h0 : tp = 0 := by simpa using h0
        subst h0
        injection h with h
        exact .inr (.inr ⟨s, hs, ht, h.symm⟩)
      · rename_i h0
        have h0 : tp ≠ 0 := by simpa using h0
        split at h
        · rename_i hge
          injection h with h
          exact .inr (.inl ⟨s, tp, hs, ht, by omega, hge, h.symm⟩)
        · injection h with h; exact .inl h.symm
    · cases h
    · cases h
  · injection h with h; exact .inl h.symm

/-- outside `Selecting` it does nothing -/
theorem revalidate_not_selecting {e : Editor D L} (h : ∀ s, e.state ≠ .selecting s) : e.revalidate env = .ok e := by
  unfold Editor.revalidate
  split
  · rename_i s hs; exact absurd hs (h s)
  · rfl

/-- it only ever touches the state and the saved-cursor stack of the buffer -/
theorem revalidate_shared {e e' : Editor D L} (h : e.revalidate env = .ok e') :
    e'.shared = e.shared ∨ e'.shared = Shared.cancelSelecting e.shared := by
  rcases revalidate_cases env h with rfl | ⟨s, tp, _, _, _, _, rfl⟩ | ⟨s, _, _, rfl⟩
  · exact .inl rfl
  · exact .inl rfl
  · exact .inr rfl

/-- the resulting state: unchanged, the same list on another page, or `Entering` -/
theorem revalidate_state {e e' : Editor D L} (h : e.revalidate env = .ok e') :
    e'.state = e.state ∨ (∃ s k, e.state = .selecting s ∧ e'.state = .selecting { s with pageNo := k }) ∨
    (e'.state = .entering ∧ ∃ s, e.state = .selecting s) := by
  rcases revalidate_cases env h with rfl | ⟨s, tp, hs, _, _, _, rfl⟩ | ⟨s, hs, _, rfl⟩
  · exact .inl rfl
  · exact .inr (.inl ⟨s, _, hs, rfl⟩)
  · exact .inr (.inr ⟨rfl, s, hs⟩)

/-- every field of the shared state except the buffer's cursor stack / cursor is untouched -/
theorem revalidate_fields {e e' : Editor D L} (h : e.revalidate env = .ok e') :
    e'.shared = { e.shared with com := e'.shared.com } ∧
    (e'.shared.com = e.shared.com ∨ e'.shared.com = e.shared.com.popCursor) := by
  rcases revalidate_shared env h with h1 | h1
  · rw [h1]; exact ⟨rfl, .inl rfl⟩
  · rw [h1]; exact ⟨rfl, .inr rfl⟩

end Chewing
