import Chewing.Props.C06
import Chewing.Proofs.Paging
/-!
Candidate-list lemmas for the editor state machine (C07), for every environment:

* the list depends only on the selector, the dictionary's lookups, the layout and the page size
  (`SameList`, `candidates_congr`);
* `PageOk`: the current page is below the page count, or nothing is listed — preserved by every arm of
  `Selecting::next`, by `Selecting::select`, and established by every way of opening or re-targeting
  a list (they start at page 0);
* the shape of `Selecting::select` (`select_shape`, `select_out_of_range`, `select_phrase_in_range`, …).
-/
namespace Chewing

open Chewing.C06

variable {D L : Type} (env : Env D L)

/-! ### what a list is computed from -/

/-- the data a candidate list is computed from are the same in `sh'` as in `sh` -/
def SameList (sh sh' : Shared D L) : Prop :=
  (∀ k st, env.lookupAll sh'.dict k st = env.lookupAll sh.dict k st) ∧ sh'.syl = sh.syl ∧
  sh'.options.candidatesPerPage = sh.options.candidatesPerPage

theorem SameList.refl (sh : Shared D L) : SameList env sh sh := ⟨fun _ _ => rfl, rfl, rfl⟩

theorem SameList.trans {a b c : Shared D L} (h1 : SameList env a b) (h2 : SameList env b c) : SameList env a c :=
  ⟨fun k st => by rw [h2.1, h1.1], by rw [h2.2.1, h1.2.1], by rw [h2.2.2, h1.2.2]⟩

theorem candidates_congr {sh sh' : Shared D L} (h : SameList env sh sh') (s : Selecting) :
    Selecting.candidates env s sh' = Selecting.candidates env s sh := by
  unfold Selecting.candidates
  cases s.sel with
  | phrase p =>
    simp only
    unfold PhraseSel.candidates
    simp only [h.1, h.2.1]
  | symbol y => rfl
  | special sym => rfl

theorem totalPage_congr {sh sh' : Shared D L} (h : SameList env sh sh') (s : Selecting) :
    Selecting.totalPage env s sh' = Selecting.totalPage env s sh := by
  unfold Selecting.totalPage
  rw [candidates_congr env h, h.2.2]

/-- the page number and the insert/replace action play no part in what is listed -/
theorem candidates_page (s : Selecting) (sh : Shared D L) (k : Nat) :
    Selecting.candidates env { s with pageNo := k } sh = Selecting.candidates env s sh := rfl

theorem totalPage_page (s : Selecting) (sh : Shared D L) (k : Nat) :
    Selecting.totalPage env { s with pageNo := k } sh = Selecting.totalPage env s sh := rfl

/-- `total_page()` answers ⇒ the list was computed, the page size is positive, and the answer is the
    ceiling of `len / per` -/
theorem totalPage_ok {s : Selecting} {sh : Shared D L} {tp : Nat} (h : Selecting.totalPage env s sh = .ok tp) :
    ∃ cs, Selecting.candidates env s sh = .ok cs ∧ 0 < sh.options.candidatesPerPage ∧
      tp = pageCount cs.length sh.options.candidatesPerPage := by
  unfold Selecting.totalPage at h
  split at h
  · rename_i cs hc
    split at h
    · cases h
    · rename_i hz
      injection h with h
      refine ⟨cs, hc, ?_, h.symm⟩
      rcases Nat.eq_zero_or_pos sh.options.candidatesPerPage with h0 | h0
      · rw [h0] at hz; simp at hz
      · exact h0
  · cases h
  · cases h

/-- `div_ceil` by a page size of zero panics (the C API only admits 1..10) -/
theorem totalPage_zero_panics {s : Selecting} {sh : Shared D L} {cs : List Text}
    (hc : Selecting.candidates env s sh = .ok cs) (h0 : sh.options.candidatesPerPage = 0) :
    Selecting.totalPage env s sh = .panic "div-ceil-zero" := by
  unfold Selecting.totalPage
  rw [hc, h0]; rfl

/-! ### the page invariant -/

/-- the current page is below the page count — or nothing is listed at all -/
def PageOk (s : Selecting) (sh : Shared D L) : Prop :=
  ∀ tp, Selecting.totalPage env s sh = .ok tp → s.pageNo < tp ∨ Selecting.candidates env s sh = .ok []

theorem pageOk_congr {sh sh' : Shared D L} (h : SameList env sh sh') {s : Selecting} (hp : PageOk env s sh) :
    PageOk env s sh' := by
  intro tp ht
  rw [totalPage_congr env h] at ht
  rw [candidates_congr env h]
  exact hp tp ht

/-- a list that starts at page 0 is fine -/
theorem pageOk_zero {s : Selecting} (sh : Shared D L) (h0 : s.pageNo = 0) : PageOk env s sh := by
  intro tp ht
  obtain ⟨cs, hc, hper, rfl⟩ := totalPage_ok env ht
  cases cs with
  | nil => exact Or.inr hc
  | cons c cs =>
    left; rw [h0]
    exact pageCount_pos _ _ hper (by simp)

/-- a page below the count that the same list reports -/
theorem pageOk_of_lt {s : Selecting} {sh : Shared D L} {tp k : Nat}
    (ht : Selecting.totalPage env s sh = .ok tp) (hk : k < tp) : PageOk env { s with pageNo := k } sh := by
  intro tp' ht'
  rw [totalPage_page, ht] at ht'
  injection ht' with ht'; subst ht'
  exact Or.inl hk

/-- zero pages ⇒ nothing listed -/
theorem no_pages_empty {s : Selecting} {sh : Shared D L} (ht : Selecting.totalPage env s sh = .ok 0) :
    Selecting.candidates env s sh = .ok [] := by
  obtain ⟨cs, hc, hper, h0⟩ := totalPage_ok env ht
  have := pageCount_covers cs.length _ hper
  rw [← h0, Nat.zero_mul] at this
  have hn : cs = [] := List.eq_nil_of_length_eq_zero (by omega)
  rw [hc, hn]

/-! ### `Selecting::select` -/

/-- what a choice can do: close the list, be rejected with nothing changed, or (symbol lists: a
    category with a sub-table) stay open on page 0 with the buffer untouched -/
theorem select_shape (s : Selecting) (sh : Shared D L) (n : Nat) :
    OutAll (fun x => x.2.2 = .toState .entering ∨ (x.2.2 = .spin .bell ∧ x.2.1 = sh ∧ x.1 = s) ∨
                     (x.2.2 = .spin .absorb ∧ x.2.1 = sh ∧ x.1.pageNo = 0))
      (Selecting.select env s sh n) := by
  unfold Selecting.select
  repeat' (first | split | (dsimp only; split))
  all_goals first
    | trivial
    | exact Or.inl rfl
    | exact Or.inr (Or.inl ⟨rfl, rfl, rfl⟩)
    | exact Or.inr (Or.inr ⟨rfl, rfl, rfl⟩)
    | skip
  all_goals
    simp only [Outcome.map]
    repeat' split
    all_goals first
      | trivial
      | exact Or.inl rfl

/-! ### every arm of `Selecting::next` keeps the page invariant -/

/-- result of `Selecting::next`: the list is closed (back to `Entering`), or it stays open (a `Spin`)
    and the page invariant holds for the selector / shared state handed back -/
def SelOk (r : Outcome (SelRes D L)) : Prop :=
  ∀ x, r = .ok x → x.trans = .toState .entering ∨ ((∃ b, x.trans = .spin b) ∧ PageOk env x.sel x.shared)

theorem selOk_ite {c : Prop} [Decidable c] {a b : Outcome (SelRes D L)}
    (h1 : SelOk env a) (h2 : SelOk env b) : SelOk env (if c then a else b) := by
  split <;> assumption

theorem selOk_panic (p : String) : SelOk env (.panic p : Outcome (SelRes D L)) := by
  intro x h; cases h

theorem selOk_fuel : SelOk env (.outOfFuel : Outcome (SelRes D L)) := by
  intro x h; cases h

/-- an arm that closes the list -/
theorem selOk_close (sh : Shared D L) (s : Selecting) : SelOk env (.ok ⟨sh, s, .toState .entering⟩) := by
  intro x h; injection h with h; subst h; exact Or.inl rfl

/-- an arm that spins with a selector for which the invariant is known -/
theorem selOk_spin {sh : Shared D L} {s : Selecting} (b : KB) (h : PageOk env s sh) :
    SelOk env (.ok ⟨sh, s, .spin b⟩) := by
  intro x hx; injection hx with hx; subst hx; exact Or.inr ⟨⟨b, rfl⟩, h⟩

theorem selOk_selDownSpace (s : Selecting) (sh : Shared D L) : SelOk env (selDownSpace env s sh) := by
  unfold selDownSpace
  split
  · rename_i tp ht
    split
    · rename_i hlt
      exact selOk_spin env _ (pageOk_of_lt env ht hlt)
    · split
      · split
        · exact selOk_spin env _ (pageOk_zero env _ rfl)
        · exact selOk_panic env _
        · exact selOk_fuel env
      · exact selOk_spin env _ (pageOk_zero env _ rfl)
  · exact selOk_panic env _
  · exact selOk_fuel env

/-- re-targeting (keys `j` / `k`) always yields a list on page 0 -/
theorem retarget_page0 (s : Selecting) (sh : Shared D L) :
    OutAll (fun x => ∃ s', x.2 = .toState (.selecting s') ∧ s'.pageNo = 0) (retarget env s sh) := by
  unfold retarget
  repeat' (first | split | (dsimp only; split))
  all_goals first
    | trivial
    | exact ⟨_, rfl, rfl⟩

/-- the end of the `j` / `k` arms: the list stays open with its invariant, or it is closed -/
theorem selOk_closeIfEmpty (r : SelRes D L) (hb : ∃ b, r.trans = .spin b) (hp : PageOk env r.sel r.shared) :
    SelOk env (closeIfEmpty env r) := by
  intro x h
  rcases closeIfEmpty_cases env h with rfl | rfl
  · exact Or.inr ⟨hb, hp⟩
  · exact Or.inl rfl

theorem selOk_selMove (s : Selecting) (sh : Shared D L) (isJ : Bool) (hp : PageOk env s sh) :
    SelOk env (selMove env s sh isJ) := by
  unfold selMove
  split
  · exact selOk_spin env _ hp
  · dsimp only
    split
    · exact selOk_closeIfEmpty env _ ⟨_, rfl⟩ (pageOk_zero env _ (by
        rename_i sh' s' hq
        obtain ⟨s'', h1, h2⟩ := (retarget_page0 env _ _).elim hq
        simp only at h1
        injection h1 with h1; injection h1 with h1; subst h1; exact h2))
    · rename_i sh' t hne hq
      obtain ⟨s'', h1, _⟩ := (retarget_page0 env _ _).elim hq
      simp only at h1
      first | exact (hne _ h1).elim | exact (hne _ _ h1).elim | (subst h1; exact (hne _ _ rfl).elim) | (subst h1; exact (hne _ rfl).elim)
    · exact selOk_panic env _
    · exact selOk_fuel env

theorem selOk_selPrevPage (s : Selecting) (sh : Shared D L) (hp : PageOk env s sh) :
    SelOk env (selPrevPage env s sh) := by
  unfold selPrevPage
  split
  · rename_i hpos
    apply selOk_spin
    intro tp ht
    rw [totalPage_page] at ht
    rcases hp tp ht with h | h
    · left; show s.pageNo - 1 < tp; omega
    · right; rw [candidates_page]; exact h
  · split
    · rename_i tp ht
      rcases Nat.eq_zero_or_pos tp with h0 | h0
      · subst h0
        apply selOk_spin
        intro tp' _
        right; rw [candidates_page]; exact no_pages_empty env ht
      · exact selOk_spin env _ (pageOk_of_lt env ht (by omega))
    · exact selOk_panic env _
    · exact selOk_fuel env

theorem selOk_selNextPage (s : Selecting) (sh : Shared D L) : SelOk env (selNextPage env s sh) := by
  unfold selNextPage
  split
  · rename_i tp ht
    split
    · rename_i hlt
      exact selOk_spin env _ (pageOk_of_lt env ht hlt)
    · exact selOk_spin env _ (pageOk_zero env _ rfl)
  · exact selOk_panic env _
  · exact selOk_fuel env

theorem selOk_selDigit (s : Selecting) (sh : Shared D L) (c : Nat) (hp : PageOk env s sh) :
    SelOk env (selDigit env s sh c) := by
  unfold selDigit
  split
  · rename_i s' sh' t hq
    have h := (select_shape env s sh (c - 1)).elim hq
    simp only at h
    intro x hx; injection hx with hx; subst hx
    rcases h with h | ⟨h1, h2, h3⟩ | ⟨h1, h2, h3⟩
    · exact Or.inl h
    · subst h2 h3; exact Or.inr ⟨⟨_, h1⟩, hp⟩
    · subst h2; exact Or.inr ⟨⟨_, h1⟩, pageOk_zero env _ h3⟩
  · exact selOk_panic env _
  · exact selOk_fuel env

/-- **every key** handled by an open list either closes it or leaves the page invariant intact -/
theorem selOk_selectingNext (s : Selecting) (sh : Shared D L) (ev : KeyEvent) (hp : PageOk env s sh) :
    SelOk env (selectingNext env s sh ev) := by
  unfold selectingNext
  repeat' (with_reducible apply selOk_ite)
  all_goals first
    | exact selOk_selDownSpace env _ _
    | exact selOk_selMove env _ _ _ hp
    | exact selOk_selPrevPage env _ _ hp
    | exact selOk_selNextPage env _ _
    | exact selOk_selDigit env _ _ _ hp
    | exact selOk_close env _ _
    | exact selOk_spin env _ hp

/-! ### every way of opening a list starts at page 0 -/

/-- a transition that opens a list opens it on page 0 -/
def Opens0 (r : StepRes D L) : Prop := ∀ sh' s, r = .ok (sh', .toState (.selecting s)) → s.pageNo = 0

macro "opens0_leaf" : tactic =>
  `(tactic| (intro sh' s h; injection h with h; injection h with h1 h2; cases h2 <;> rfl))

theorem opens0_ite {c : Prop} [Decidable c] {a b : StepRes D L}
    (h1 : Opens0 a) (h2 : Opens0 b) : Opens0 (if c then a else b) := by
  split <;> assumption

theorem opens0_panic (p : String) : Opens0 (.panic p : StepRes D L) := by
  intro sh' s h; cases h

theorem opens0_fuel : Opens0 (.outOfFuel : StepRes D L) := by
  intro sh' s h; cases h

theorem opens0_withCom_absorb (sh : Shared D L) (r : Outcome CompEditor) :
    Opens0 (withCom sh r fun sh => .ok (sh, .spin .absorb)) := by
  unfold withCom
  cases r with
  | ok c => opens0_leaf
  | panic p => exact opens0_panic _
  | outOfFuel => exact opens0_fuel

theorem opens0_commitOrInsert (sh : Shared D L) (ch : Nat) : Opens0 (commitOrInsert sh ch) := by
  unfold commitOrInsert
  split
  · opens0_leaf
  · exact opens0_withCom_absorb _ _

theorem opens0_inputChar (sh : Shared D L) (ev : KeyEvent) : Opens0 (inputChar sh ev) := by
  unfold inputChar fullOrBell
  repeat' split
  all_goals first
    | exact opens0_commitOrInsert _ _
    | opens0_leaf

theorem opens0_chineseFallback (sh : Shared D L) (ev : KeyEvent) : Opens0 (chineseFallback sh ev) := by
  unfold chineseFallback
  repeat' split
  all_goals first
    | exact opens0_withCom_absorb _ _
    | exact opens0_inputChar _ _
    | opens0_leaf

theorem opens0_newPhrase (sh : Shared D L) : Opens0 (newPhrase env sh) := by
  unfold newPhrase
  simp only
  split
  · opens0_leaf
  · exact opens0_panic _
  · exact opens0_fuel

/-- an ignored request opens nothing -/
theorem opens0_openPhrase (sh : Shared D L) : Opens0 (openPhrase env sh) := by
  intro sh' s h
  rcases openPhrase_cases env h with ⟨h1, _⟩ | ⟨h1, _⟩
  · exact opens0_newPhrase env sh sh' s h1
  · cases h1

theorem opens0_newPhraseSimple (sh : Shared D L) : Opens0 (newPhraseSimple sh) := by
  unfold newPhraseSimple
  simp only
  split
  · opens0_leaf
  · exact opens0_panic _
  · exact opens0_fuel

theorem opens0_newSpecialSymbol (sh : Shared D L) (sym : Sym) : Opens0 (newSpecialSymbol sh sym) := by
  unfold newSpecialSymbol
  simp only
  split
  · opens0_leaf
  · opens0_leaf
  · exact opens0_panic _
  · exact opens0_fuel

theorem opens0_openSymbol (sh : Shared D L) : Opens0 (openSymbol env sh) := by
  intro sh' s h
  obtain ⟨_, h1 | h1⟩ := openSymbol_cases env h
  · injection h1 with h1; injection h1 with h1; subst h1; rfl
  · cases h1

/-- an ignored request opens nothing -/
theorem opens0_openSpecialSymbol (sh : Shared D L) (sym : Sym) : Opens0 (openSpecialSymbol env sh sym) := by
  intro sh' s h
  rcases openSpecialSymbol_cases env h with ⟨h1, _⟩ | ⟨h1, _⟩
  · exact opens0_newSpecialSymbol sh sym sh' s h1
  · cases h1

theorem opens0_startSelecting (sh : Shared D L) : Opens0 (startSelecting env sh) := by
  unfold startSelecting
  repeat' split
  all_goals first
    | exact opens0_openPhrase env _
    | exact opens0_openSpecialSymbol env _ _
    | opens0_leaf

theorem opens0_startSelectingOrInputSpace (sh : Shared D L) : Opens0 (startSelectingOrInputSpace env sh) := by
  unfold startSelectingOrInputSpace
  repeat' split
  all_goals first
    | exact opens0_openPhrase env _
    | exact opens0_openSpecialSymbol env _ _
    | opens0_leaf

theorem opens0_learnTrans (r : Outcome (Shared D L × Bool)) : Opens0 (learnTrans r) := by
  unfold learnTrans
  split
  · opens0_leaf
  · exact opens0_panic _
  · exact opens0_fuel

theorem opens0_enteringDefault (sh : Shared D L) (ev : KeyEvent) : Opens0 (enteringDefault env sh ev) := by
  unfold enteringDefault
  repeat' split
  all_goals first
    | exact opens0_withCom_absorb _ _
    | exact opens0_inputChar _ _
    | exact opens0_chineseFallback _ _
    | exact opens0_openSymbol env _
    | opens0_leaf

theorem opens0_enteringBackspace (sh : Shared D L) : Opens0 (enteringBackspace sh) := by
  unfold enteringBackspace
  split
  · opens0_leaf
  · exact opens0_withCom_absorb _ _

theorem opens0_enteringCtrlDigit (sh : Shared D L) (c : Nat) : Opens0 (enteringCtrlDigit env sh c) := by
  unfold enteringCtrlDigit
  repeat' (first | split | (dsimp only; split))
  all_goals first
    | exact opens0_learnTrans _
    | exact opens0_openSymbol env _
    | opens0_leaf

theorem opens0_enteringTabInside (sh : Shared D L) : Opens0 (enteringTabInside env sh) := by
  unfold enteringTabInside
  repeat' split
  all_goals first
    | exact opens0_withCom_absorb _ _
    | exact opens0_panic _
    | exact opens0_fuel

theorem opens0_enteringDel (sh : Shared D L) : Opens0 (enteringDel sh) := by
  unfold enteringDel
  split
  · opens0_leaf
  · exact opens0_withCom_absorb _ _

theorem opens0_enteringShiftLeft (sh : Shared D L) : Opens0 (enteringShiftLeft sh) := by
  unfold enteringShiftLeft
  split <;> opens0_leaf

theorem opens0_enteringShiftRight (sh : Shared D L) : Opens0 (enteringShiftRight sh) := by
  unfold enteringShiftRight
  split <;> opens0_leaf

theorem opens0_enteringEnter (sh : Shared D L) : Opens0 (enteringEnter env sh) := by
  unfold enteringEnter
  split
  · opens0_leaf
  · exact opens0_panic _
  · exact opens0_fuel

theorem opens0_enteringEsc (sh : Shared D L) : Opens0 (enteringEsc sh) := by
  unfold enteringEsc
  split <;> opens0_leaf

/-- `Entering`: whatever key opens a list opens it on page 0 -/
theorem opens0_enteringNext (sh : Shared D L) (ev : KeyEvent) : Opens0 (enteringNext env sh ev) := by
  unfold enteringNext
  repeat' (with_reducible apply opens0_ite)
  all_goals first
    | exact opens0_enteringBackspace _
    | exact opens0_enteringCtrlDigit env _ _
    | exact opens0_enteringTabInside env _
    | exact opens0_enteringDel _
    | exact opens0_enteringShiftLeft _
    | exact opens0_enteringShiftRight _
    | exact opens0_enteringEnter env _
    | exact opens0_enteringEsc _
    | exact opens0_commitOrInsert _ _
    | exact opens0_enteringDefault env _ _
    | exact opens0_startSelecting env _
    | exact opens0_startSelectingOrInputSpace env _
    | opens0_leaf

theorem opens0_syllableAnswer (sh : Shared D L) (beh : LayoutBeh) : Opens0 (syllableAnswer env sh beh) := by
  unfold syllableAnswer
  repeat' split
  all_goals first
    | exact opens0_withCom_absorb _ _
    | opens0_leaf
    | skip
  all_goals
    unfold withCom
    split
    · dsimp only
      split
      · exact opens0_newPhraseSimple _
      · opens0_leaf
    · exact opens0_panic _
    · exact opens0_fuel

/-- `EnteringSyllable` (the simple engine opens a list after every completed syllable): page 0 -/
theorem opens0_enteringSyllableNext (sh : Shared D L) (ev : KeyEvent) :
    Opens0 (enteringSyllableNext env sh ev) := by
  unfold enteringSyllableNext
  repeat' split
  all_goals first
    | exact opens0_syllableAnswer env _ _
    | opens0_leaf

/-- `Highlighting` never opens a list -/
theorem highlighting_never_opens (m : Nat) (sh : Shared D L) (ev : KeyEvent) :
    OutAll (fun x => ∀ s, x.2.2 ≠ .toState (.selecting s)) (highlightingNext env m sh ev) := by
  unfold highlightingNext
  repeat' (first | split | (dsimp only; split))
  all_goals first
    | trivial
    | (intro s h; cases h)

/-! ### whole operations -/

/-- `reopen()` + `flush()` of the dictionary after a key does not change what lookups answer
    (C09 / C10 prove this of the real dictionaries; here it is a premise on the environment) -/
def FlushKeepsLookups : Prop := ∀ d k st, env.lookupAll (env.reopenFlush d) k st = env.lookupAll d k st

/-- **the page invariant of an editor**: while a list is open the current page is below the page
    count, or nothing is listed -/
def Editor.PageInv (e : Editor D L) : Prop := ∀ s, e.state = .selecting s → PageOk env s e.shared

theorem sameList_of_fields {sh sh' : Shared D L} (h1 : sh'.dict = sh.dict) (h2 : sh'.syl = sh.syl)
    (h3 : sh'.options = sh.options) : SameList env sh sh' :=
  ⟨fun _ _ => by rw [h1], h2, by rw [h3]⟩

theorem tryAutoCommit_sameList {sh sh2 : Shared D L} (h : Shared.tryAutoCommit env sh = .ok sh2) :
    SameList env sh sh2 := by
  unfold Shared.tryAutoCommit at h
  simp only at h
  split at h
  · cases h; exact SameList.refl env _
  · repeat' split at h
    all_goals first | (cases h; exact sameList_of_fields env rfl rfl rfl) | cases h

theorem applyTrans_spin (sh : Shared D L) (st : St) (b : KB) :
    applyTrans sh st (.spin b) = ({ sh with last := b }, st) := rfl

theorem applyTrans_to (sh : Shared D L) (st st' : St) :
    applyTrans sh st (.toState st') = ({ sh with last := .absorb }, st') := rfl

/-- opening transitions out of a non-selecting state, through `applyTrans` -/
theorem applyTrans_opens {r : StepRes D L} (h0 : Opens0 r) {st0 : St} (hns : ∀ s, st0 ≠ .selecting s)
    {sh : Shared D L} {st : St}
    (h : r.map (fun (x : Shared D L × Trans) => applyTrans x.1 st0 x.2) = .ok (sh, st)) :
    ∀ s, st = .selecting s → PageOk env s sh := by
  intro s hs
  cases hr : r with
  | ok x =>
    obtain ⟨sh', t⟩ := x
    rw [hr] at h
    simp only [Outcome.map] at h
    injection h with h
    cases t with
    | toState st' =>
      rw [applyTrans_to] at h
      injection h with h1 h2
      subst h2; subst hs
      exact pageOk_zero env _ (h0 sh' s hr)
    | spin b =>
      rw [applyTrans_spin] at h
      injection h with h1 h2
      subst h2
      exact absurd hs (hns s)
  | panic p => rw [hr] at h; simp [Outcome.map] at h
  | outOfFuel => rw [hr] at h; simp [Outcome.map] at h

/-- the state machine part of a key keeps the invariant -/
theorem dispatch_pageInv {e : Editor D L} {ev : KeyEvent} {sh : Shared D L} {st : St}
    (h : dispatch env e ev = .ok (sh, st)) (hi : e.PageInv env) :
    ∀ s, st = .selecting s → PageOk env s sh := by
  unfold dispatch at h
  split at h
  · exact applyTrans_opens env (opens0_enteringNext env _ ev) (by intro s h; cases h) h
  · exact applyTrans_opens env (opens0_enteringSyllableNext env _ ev) (by intro s h; cases h) h
  · rename_i s0 hs0
    intro s hs
    have hp0 : PageOk env s0 (preamble e.shared) :=
      pageOk_congr env (sameList_of_fields env rfl rfl rfl) (hi s0 hs0)
    cases hr : selectingNext env s0 (preamble e.shared) ev with
    | ok x =>
      rw [hr] at h
      simp only [Outcome.map] at h
      injection h with h
      rcases selOk_selectingNext env s0 _ ev hp0 x hr with hc | ⟨⟨b, hb⟩, hp⟩
      · rw [hc, applyTrans_to] at h
        injection h with h1 h2
        subst h2; cases hs
      · rw [hb, applyTrans_spin] at h
        injection h with h1 h2
        subst h2; injection hs with hs; subst hs; subst h1
        exact pageOk_congr env (sameList_of_fields env rfl rfl rfl) hp
    | panic p => rw [hr] at h; simp [Outcome.map] at h
    | outOfFuel => rw [hr] at h; simp [Outcome.map] at h
  · rename_i m hm
    intro s hs
    cases hr : highlightingNext env m (preamble e.shared) ev with
    | ok x =>
      obtain ⟨sh', m', t⟩ := x
      rw [hr] at h
      simp only [Outcome.map] at h
      injection h with h
      have hno := (highlighting_never_opens env m _ ev).elim hr
      simp only at hno
      cases t with
      | toState st' =>
        rw [applyTrans_to] at h
        injection h with h1 h2
        subst h2; subst hs
        exact absurd rfl (hno s)
      | spin b =>
        rw [applyTrans_spin] at h
        injection h with h1 h2
        subst h2; cases hs
    | panic p => rw [hr] at h; simp [Outcome.map] at h
    | outOfFuel => rw [hr] at h; simp [Outcome.map] at h

/-- the tail of `process_keyevent` (auto-commit, dictionary flush) leaves an open list's data alone -/
theorem tail_sameList (hf : FlushKeepsLookups env) {sh : Shared D L} {st : St} {e' : Editor D L} {b : KB}
    (h : tail env sh st = .ok (e', b)) : e'.state = st ∧ SameList env sh e'.shared := by
  unfold tail at h
  have hflush : ∀ sh2 : Shared D L, SameList env sh2
      (if sh2.dirty > 0 then { sh2 with dict := env.reopenFlush sh2.dict, dirty := 0 } else sh2) := by
    intro sh2
    split
    · exact ⟨fun k st => hf _ k st, rfl, rfl⟩
    · exact SameList.refl env _
  split at h
  · cases h
  · cases h
  · rename_i sh2 h2
    injection h with h; injection h with h1 h2'
    subst h1
    refine ⟨rfl, ?_⟩
    have h12 : SameList env sh sh2 := by
      split at h2
      · exact tryAutoCommit_sameList env h2
      · injection h2 with h2; subst h2; exact SameList.refl env _
    exact SameList.trans env h12 (hflush sh2)

/-- **every key event keeps the page invariant** -/
theorem processKey_pageInv (hf : FlushKeepsLookups env) {e e' : Editor D L} {ev : KeyEvent} {b : KB}
    (h : e.processKey env ev = .ok (e', b)) (hi : e.PageInv env) : e'.PageInv env := by
  rw [processKey_eq] at h
  cases hd : dispatch env e ev with
  | ok x =>
    obtain ⟨sh, st⟩ := x
    rw [hd] at h; simp only at h
    obtain ⟨hst, hsl⟩ := tail_sameList env hf h
    intro s hs
    rw [hst] at hs
    exact pageOk_congr env hsl (dispatch_pageInv env hd hi s hs)
  | panic p => rw [hd] at h; cases h
  | outOfFuel => rw [hd] at h; cases h

/-- `Editor::select(n)` (= `chewing_cand_choose_by_index`) keeps the page invariant -/
theorem select_pageInv {e e' : Editor D L} {n : Nat} {okk : Bool}
    (h : e.select env n = .ok (e', okk)) (hi : e.PageInv env) : e'.PageInv env := by
  unfold Editor.select at h
  split at h
  · rename_i s0 hs0
    split at h
    · rename_i s' sh t hq
      have hshape := (select_shape env s0 e.shared n).elim hq
      simp only at hshape h
      split at h
      · rename_i sh2 h2
        injection h with h; injection h with h1 _
        subst h1
        intro s hs
        simp only at hs
        -- the shared state after `applyTrans`, before auto-commit
        have hsl : SameList env (applyTrans sh (St.selecting s') t).1 sh2 := by
          split at h2
          · exact tryAutoCommit_sameList env h2
          · injection h2 with h2; subst h2; exact SameList.refl env _
        rcases hshape with hc | ⟨h1, h2', h3⟩ | ⟨h1, h2', h3⟩
        · rw [hc, applyTrans_to] at hs; cases hs
        · rw [h1, applyTrans_spin] at hs hsl
          injection hs with hs; subst hs; subst h2' h3
          exact pageOk_congr env (SameList.trans env (sameList_of_fields env rfl rfl rfl) hsl) (hi _ hs0)
        · rw [h1, applyTrans_spin] at hs hsl
          injection hs with hs; subst hs
          exact pageOk_zero env _ h3
      · cases h
      · cases h
    · cases h
    · cases h
  · injection h with h; injection h with h1 _
    subst h1; exact hi

/-- `jump_to_{first,last,next,prev}_selection_point` (= `chewing_cand_list_*`): a moved range starts at
    page 0, a refused jump changes nothing -/
theorem jump_page0 (e : Editor D L) (which : Nat) :
    OutAll (fun x => x.1 = e ∨ (x.1.shared = e.shared ∧ ∃ s, x.1.state = .selecting s ∧ s.pageNo = 0))
      (e.jump env which) := by
  unfold Editor.jump
  repeat' (first | split | (dsimp only; split))
  all_goals first
    | trivial
    | exact Or.inl rfl
    | exact Or.inr ⟨rfl, _, rfl, rfl⟩

theorem jump_pageInv {e e' : Editor D L} {which : Nat} {okk : Bool}
    (h : e.jump env which = .ok (e', okk)) (hi : e.PageInv env) : e'.PageInv env := by
  have := (jump_page0 env e which).elim h
  simp only at this
  rcases this with h1 | ⟨_, s, hs, h0⟩
  · rw [h1]; exact hi
  · intro s' hs'
    rw [hs] at hs'; injection hs' with hs'; subst hs'
    exact pageOk_zero env _ h0

/-- `Editor::start_selecting` (= `chewing_cand_open`) opens on page 0 or leaves an open list alone -/
theorem startSelecting_pageInv {e e' : Editor D L} {okk : Bool}
    (h : e.startSelecting env = .ok (e', okk)) (hi : e.PageInv env) : e'.PageInv env := by
  unfold Editor.startSelecting at h
  simp only at h
  split at h
  · rename_i sh t hr
    injection h with h; injection h with h1 _
    subst h1
    intro s hs
    -- `leaveIfEmpty` only ever turns `EnteringSyllable` into `Entering`
    have hleave : ∀ x : Editor D L, (Editor.leaveIfEmpty env x).shared = x.shared ∧
        ((Editor.leaveIfEmpty env x).state = x.state ∨ (Editor.leaveIfEmpty env x).state = .entering) := by
      intro x; unfold Editor.leaveIfEmpty; split
      · exact ⟨rfl, Or.inr rfl⟩
      · exact ⟨rfl, Or.inl rfl⟩
    obtain ⟨hsh, hst⟩ := hleave { shared := (applyTrans sh e.state t).1, state := (applyTrans sh e.state t).2 }
    rw [hsh]
    rcases hst with hst | hst
    · rw [hst] at hs
      simp only at hs
      split at hr
      · rename_i he
        cases t with
        | toState st' =>
          rw [applyTrans_to] at hs ⊢
          simp only at hs; subst hs
          exact pageOk_zero env _ (opens0_startSelecting env _ _ _ hr)
        | spin b =>
          rw [applyTrans_spin] at hs; simp only at hs
          rw [he] at hs; cases hs
      · rename_i he
        cases t with
        | toState st' =>
          rw [applyTrans_to] at hs ⊢
          simp only at hs; subst hs
          exact pageOk_zero env _ (opens0_startSelecting env _ _ _ hr)
        | spin b =>
          rw [applyTrans_spin] at hs; simp only at hs
          rw [he] at hs; cases hs
      · injection hr with hr; injection hr with hr1 hr2
        subst hr1 hr2
        rw [applyTrans_spin] at hs ⊢
        simp only at hs ⊢
        exact pageOk_congr env (sameList_of_fields env rfl rfl rfl) (hi s hs)
    · rw [hst] at hs; cases hs
  · cases h
  · cases h



/-! ### a freshly initialised phrase selector -/

/-- a one-syllable range at a syllable the dictionary has no word for (F02 / F03 repair: the shrinking
    loop of `PhraseSelector::init` keeps it instead of shrinking to an empty range) -/
def PhraseSel.WordlessSyl (p : PhraseSel) (d : D) : Prop :=
  PhraseSel.rangeHasPhrase env p d p.begin_ p.end_ = .ok false ∧ p.end_ = p.begin_ + 1 ∧
  ∃ sym, p.com.symbol? p.begin_ = some sym ∧ sym.isSyl = true

/-- what the shrinking loop of `PhraseSelector::init` returns: a non-empty range inside the buffer
    for which the dictionary has a phrase — or the one-syllable range of a syllable without a word;
    nothing but `begin` / `end` is touched -/
theorem initLoop_ok (d : D) : ∀ (fuel : Nat) (s s' : PhraseSel), PhraseSel.initLoop env s d fuel = .ok s' →
    s'.begin_ < s'.end_ ∧ s'.end_ ≤ s'.com.len ∧ s'.com = s.com ∧ s'.strategy = s.strategy ∧
    s'.forward = s.forward ∧ s'.orig = s.orig ∧
    (PhraseSel.rangeHasPhrase env s' d s'.begin_ s'.end_ = .ok true ∨ PhraseSel.WordlessSyl env s' d) := by
  intro fuel
  induction fuel with
  | zero => intro s s' h; simp [PhraseSel.initLoop] at h
  | succ fuel ih =>
    intro s s' h
    unfold PhraseSel.initLoop at h
    split at h
    · cases h
    · split at h
      · cases h
      · split at h
        · cases h
        · rename_i h1 h2 h3
          have hne : s.begin_ ≠ s.end_ := by simpa using h3
          split at h
          · rename_i hp
            injection h with h; subst h
            exact ⟨by omega, by omega, rfl, rfl, rfl, rfl, Or.inl hp⟩
          · rename_i hp
            have hrec : (if s.forward = true then PhraseSel.initLoop env { s with end_ := s.end_ - 1 } d fuel
                else PhraseSel.initLoop env { s with begin_ := s.begin_ + 1 } d fuel) = .ok s' →
                s'.begin_ < s'.end_ ∧ s'.end_ ≤ s'.com.len ∧ s'.com = s.com ∧ s'.strategy = s.strategy ∧
                s'.forward = s.forward ∧ s'.orig = s.orig ∧
                (PhraseSel.rangeHasPhrase env s' d s'.begin_ s'.end_ = .ok true ∨ PhraseSel.WordlessSyl env s' d) := by
              intro h
              split at h
              · obtain ⟨a, b, c, d', e, f, g⟩ := ih _ _ h
                exact ⟨a, b, c, d', e, f, g⟩
              · obtain ⟨a, b, c, d', e, f, g⟩ := ih _ _ h
                exact ⟨a, b, c, d', e, f, g⟩
            split at h
            · rename_i sym hs
              split at h
              · rename_i hone
                injection h with h; subst h
                simp only [Bool.and_eq_true, beq_iff_eq] at hone
                exact ⟨by omega, by omega, rfl, rfl, rfl, rfl, Or.inr ⟨hp, by omega, sym, hs, hone.2⟩⟩
              · exact hrec h
            · split at h
              · rename_i hone
                simp only [Bool.and_false, Bool.false_eq_true] at hone
              · exact hrec h
          · cases h
          · cases h

/-- a range for which the dictionary has a phrase lists at least one candidate -/
theorem candidates_nonempty {p : PhraseSel} {d : D} {l : L} {cs : List Text}
    (hp : PhraseSel.rangeHasPhrase env p d p.begin_ p.end_ = .ok true)
    (hc : PhraseSel.candidates env p d l = .ok cs) : cs ≠ [] := by
  unfold PhraseSel.rangeHasPhrase at hp
  unfold PhraseSel.candidates at hc
  split at hp
  · rename_i syms hs
    rw [hs] at hc
    injection hp with hp
    unfold Env.hasPhrase at hp
    have hne : env.lookupAll d (sylPrefix syms) p.strategy ≠ [] := by
      intro h0; rw [h0] at hp; simp at hp
    have hbase : (env.lookupAll d (sylPrefix syms) p.strategy).map (·.text) ≠ [] := by
      intro h0; exact hne (List.map_eq_nil_iff.mp h0)
    simp only at hc
    split at hc
    · split at hc
      · injection hc with hc; subst hc
        intro h0; exact hbase (List.append_eq_nil_iff.mp h0).1
      · cases hc
      · cases hc
    · injection hc with hc; subst hc; exact hbase
  · cases hp
  · cases hp

theorem init_ok {fw : Bool} {st : Strategy} {com : Composition} {cur : Nat} {d : D} {p : PhraseSel}
    (h : PhraseSel.init env fw st com cur d = .ok p) :
    p.begin_ < p.end_ ∧ p.end_ ≤ p.com.len ∧ p.com = com ∧
    (PhraseSel.rangeHasPhrase env p d p.begin_ p.end_ = .ok true ∨ PhraseSel.WordlessSyl env p d) := by
  unfold PhraseSel.init at h
  simp only at h
  split at h
  · split at h
    · cases h
    · obtain ⟨a, b, c, _, _, _, g⟩ := initLoop_ok env d _ _ _ h
      exact ⟨a, b, c, g⟩
  · obtain ⟨a, b, c, _, _, _, g⟩ := initLoop_ok env d _ _ _ h
    exact ⟨a, b, c, g⟩

/-- a phrase list made by `new_phrase` is on page 0 and its range is a non-empty part of the buffer (it
    may list nothing: a syllable without a word — `open_phrase` does not open such a list) -/
theorem newPhrase_opened {sh sh' : Shared D L} {s : Selecting}
    (h : newPhrase env sh = .ok (sh', .toState (.selecting s))) :
    s.pageNo = 0 ∧ ∃ p, s.sel = .phrase p ∧ p.begin_ < p.end_ ∧ p.end_ ≤ p.com.len := by
  unfold newPhrase at h
  simp only at h
  split at h
  · rename_i sel hinit
    injection h with h; injection h with h1 h2
    injection h2 with h2; injection h2 with h2
    subst h2; subst h1
    obtain ⟨a, b, _, _⟩ := init_ok env hinit
    exact ⟨rfl, sel, rfl, a, b⟩
  · cases h
  · cases h

/-- a list that `open_phrase` opens is the one `new_phrase` made, and it lists something -/
theorem openPhrase_opened {sh sh' : Shared D L} {s : Selecting}
    (h : openPhrase env sh = .ok (sh', .toState (.selecting s))) :
    newPhrase env sh = .ok (sh', .toState (.selecting s)) ∧
    ∀ cs, Selecting.candidates env s sh' = .ok cs → cs ≠ [] := by
  unfold openPhrase at h
  split at h
  · next sh1 s1 hn =>
    split at h
    · injection h with h; injection h with _ h2; cases h2
    · next cs0 hne hcs =>
      injection h with h; injection h with h1 h2
      injection h2 with h2; injection h2 with h2
      subst h1 h2
      refine ⟨hn, fun cs hc hnil => hne ?_⟩
      rw [hcs] at hc; injection hc with hc; rw [hc, hnil]
    · cases h
    · cases h
  · next hne =>
    obtain ⟨_, s2, hs⟩ := newPhrase_shape env h
    exact absurd h (hne _ _)

/-- **a phrase list opened by Down / Space / `start_selecting` is on page 0 and not empty**, so its
    page index is *strictly* below the page count -/
theorem openPhrase_nonempty {sh sh' : Shared D L} {s : Selecting} {cs : List Text}
    (h : openPhrase env sh = .ok (sh', .toState (.selecting s)))
    (hc : Selecting.candidates env s sh' = .ok cs) :
    s.pageNo = 0 ∧ cs ≠ [] ∧ ∃ p, s.sel = .phrase p ∧ p.begin_ < p.end_ ∧ p.end_ ≤ p.com.len := by
  obtain ⟨hn, hne⟩ := openPhrase_opened env h
  obtain ⟨h0, hp⟩ := newPhrase_opened env hn
  exact ⟨h0, hne cs hc, hp⟩



/-- insert at / replace the symbol under the cursor, restore the saved cursor, close the list -/
def placeSymbol (s : Selecting) (sh : Shared D L) (sym : Sym) : Outcome (Selecting × Shared D L × Trans) :=
  match (match s.action with
         | .insert => sh.com.insert sym
         | .replace => sh.com.replace sym) with
  | .ok com => .ok (s, { sh with com := com.popCursor }, .toState .entering)
  | .panic p => .panic p
  | .outOfFuel => .outOfFuel

/-- **special-symbol list**: choosing an index in range places exactly the listed character -/
theorem choose_special {s : Selecting} {sh : Shared D L} {sym0 : Sym} {cs : List Text} {n : Nat}
    (hsel : s.sel = .special sym0) (hm : specialMenu sym0 = .ok cs)
    (hin : Selecting.offset s sh n < cs.length) :
    ∃ ch, cs[Selecting.offset s sh n]? = some [ch] ∧
      Selecting.select env s sh n = placeSymbol s sh (.chr ch) := by
  unfold specialMenu at hm
  split at hm
  · rename_i row hrow
    injection hm with hm; subst hm
    rw [List.length_map] at hin
    refine ⟨(row.drop 1)[Selecting.offset s sh n], ?_, ?_⟩
    · rw [List.getElem?_map, List.getElem?_eq_getElem hin]; rfl
    · unfold Selecting.select placeSymbol
      simp only [Selecting.candidates, hsel, specialMenu, specialSelect, hrow, List.length_map]
      rw [if_neg (by omega), List.getElem?_eq_getElem hin]
      simp only [Option.map]
      first | rfl | (cases s.action <;> rfl)
  · injection hm with hm; subst hm; simp at hin
  · cases hm
  · cases hm

/-- **symbol table, inside a category**: choosing an index in range places exactly the listed
    character (and the selector is back at the top level) -/
theorem choose_symbol_leaf {s : Selecting} {sh : Shared D L} {y : SymSel} {c : Nat} {row : Text} {n : Nat}
    (hsel : s.sel = .symbol y) (hcur : y.cursor = some c) (hrow : y.table[c]? = some row)
    (hin : Selecting.offset s sh n < row.length) :
    Selecting.candidates env s sh = .ok (row.map fun ch => [ch]) ∧
    Selecting.select env s sh n =
      (placeSymbol s sh (.chr row[Selecting.offset s sh n])).map
        fun (_, sh', t) => ({ s with sel := .symbol { y with cursor := none } }, sh', t) := by
  have hmenu : y.menu = .ok (row.map fun ch => [ch]) := by unfold SymSel.menu; simp only [hcur, hrow]
  refine ⟨by unfold Selecting.candidates; simp only [hsel, hmenu], ?_⟩
  unfold Selecting.select placeSymbol
  simp only [Selecting.candidates, hsel, hmenu, List.length_map, SymSel.select, hcur, hrow]
  rw [if_neg (by omega), List.getElem?_eq_getElem hin]
  simp only [Option.map, Outcome.map]
  first | rfl | (cases s.action <;> rfl)

/-- **symbol table, top level, a category with a sub-table** that holds symbols: the list stays open, shows
    that sub-table from page 0, and the buffer is untouched -/
theorem choose_symbol_descend {s : Selecting} {sh : Shared D L} {y : SymSel} {n : Nat} {name : Text} {idx : Nat}
    {row : Text} (hsel : s.sel = .symbol y) (hcur : y.cursor = none)
    (hcat : y.category[Selecting.offset s sh n]? = some (name, some idx))
    (hrow : y.table[idx % 256]? = some row) (hne : row ≠ []) :
    Selecting.select env s sh n =
      .ok ({ s with sel := .symbol { y with cursor := some (idx % 256) }, pageNo := 0 }, sh, .spin .absorb) := by
  have hmenu : y.menu = .ok (y.category.map (·.1)) := by unfold SymSel.menu; simp only [hcur]
  have hin : Selecting.offset s sh n < y.category.length := by
    rcases Nat.lt_or_ge (Selecting.offset s sh n) y.category.length with h | h
    · exact h
    · rw [List.getElem?_eq_none h] at hcat; cases hcat
  unfold Selecting.select
  simp only [Selecting.candidates, hsel, hmenu, List.length_map, SymSel.select, hcur, hcat]
  rw [if_neg (by omega)]
  simp only [SymSel.menu, hrow]
  cases row with
  | nil => exact absurd rfl hne
  | cons c cs => rfl

/-- **symbol table, top level, a category WITHOUT symbols** (FX1 repair): nothing to list — the list is
    closed, the saved cursor restored, nothing inserted -/
theorem choose_symbol_empty_category {s : Selecting} {sh : Shared D L} {y : SymSel} {n : Nat} {name : Text} {idx : Nat}
    (hsel : s.sel = .symbol y) (hcur : y.cursor = none)
    (hcat : y.category[Selecting.offset s sh n]? = some (name, some idx))
    (hrow : y.table[idx % 256]? = some []) :
    Selecting.select env s sh n =
      .ok ({ s with sel := .symbol { y with cursor := some (idx % 256) }, pageNo := 0 },
           Shared.cancelSelecting sh, .toState .entering) := by
  have hmenu : y.menu = .ok (y.category.map (·.1)) := by unfold SymSel.menu; simp only [hcur]
  have hin : Selecting.offset s sh n < y.category.length := by
    rcases Nat.lt_or_ge (Selecting.offset s sh n) y.category.length with h | h
    · exact h
    · rw [List.getElem?_eq_none h] at hcat; cases hcat
  unfold Selecting.select
  simp only [Selecting.candidates, hsel, hmenu, List.length_map, SymSel.select, hcur, hcat]
  rw [if_neg (by omega)]
  simp only [SymSel.menu, hrow]
  rfl

/-- **symbol table, top level, a plain entry**: its first character is placed -/
theorem choose_symbol_plain {s : Selecting} {sh : Shared D L} {y : SymSel} {n : Nat} {name : Text} {ch : Nat}
    (hsel : s.sel = .symbol y) (hcur : y.cursor = none)
    (hcat : y.category[Selecting.offset s sh n]? = some (name, none)) (hch : name.head? = some ch) :
    Selecting.select env s sh n =
      (placeSymbol s sh (.chr ch)).map fun (_, sh', t) => ({ s with sel := .symbol { y with cursor := none } }, sh', t) := by
  have hmenu : y.menu = .ok (y.category.map (·.1)) := by unfold SymSel.menu; simp only [hcur]
  have hin : Selecting.offset s sh n < y.category.length := by
    rcases Nat.lt_or_ge (Selecting.offset s sh n) y.category.length with h | h
    · exact h
    · rw [List.getElem?_eq_none h] at hcat; cases hcat
  unfold Selecting.select placeSymbol
  simp only [Selecting.candidates, hsel, hmenu, List.length_map, SymSel.select, hcur, hcat, hch]
  rw [if_neg (by omega)]
  simp only [Outcome.map]
  first | rfl | (cases s.action <;> rfl)


end Chewing
