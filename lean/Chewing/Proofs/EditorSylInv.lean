import Chewing.Proofs.EditorFrame
/-!
The invariant behind the F37 repair: in state `EnteringSyllable` the phonetic buffer is not empty.
Per-arm lemmas: whenever a state's `next` ends in (or stays in) `EnteringSyllable`, the phonetic buffer
of the resulting shared state is non-empty — under three explicit facts about the layout.
-/
namespace Chewing

variable {D L : Type} (env : Env D L)

/-- what the invariants need from a phonetic layout (facts of the C14 kind; the harness checks the
    resulting invariants on the real layouts after every step) -/
structure LayoutSane (env : Env D L) : Prop where
  /-- `clear()` empties the buffer -/
  clear_empty : ∀ l, env.sylIsEmpty (env.clearSyl l) = true
  /-- a key absorbed from the empty buffer leaves something in it -/
  absorb_nonempty : ∀ l ev, env.sylIsEmpty l = true → (env.keyPress l ev).1 = .absorb →
    env.sylIsEmpty (env.keyPress l ev).2 = false
  /-- a key not absorbed from the empty buffer leaves it empty -/
  reject_from_empty : ∀ l ev, env.sylIsEmpty l = true → (env.keyPress l ev).1 ≠ .absorb →
    env.sylIsEmpty (env.keyPress l ev).2 = true
  /-- a fuzzy completion restarts the buffer with the new key -/
  fuzzy_nonempty : ∀ l ev s,
    ((env.fuzzyKeyPress l ev).1 = .fuzzy s → env.sylIsEmpty (env.fuzzyKeyPress l ev).2 = false) ∧
    ((env.keyPress l ev).1 = .fuzzy s → env.sylIsEmpty (env.keyPress l ev).2 = false)
  /-- a rejected key (neither absorbed, committed nor fuzzy) does not empty a non-empty buffer -/
  reject_keeps : ∀ l ev, env.sylIsEmpty l = false →
    ((env.keyPress l ev).1 ≠ .absorb → (env.keyPress l ev).1 ≠ .commit → (∀ s, (env.keyPress l ev).1 ≠ .fuzzy s) →
      env.sylIsEmpty (env.keyPress l ev).2 = false) ∧
    ((env.fuzzyKeyPress l ev).1 ≠ .absorb → (env.fuzzyKeyPress l ev).1 ≠ .commit →
      (∀ s, (env.fuzzyKeyPress l ev).1 ≠ .fuzzy s) → env.sylIsEmpty (env.fuzzyKeyPress l ev).2 = false)

/-- the state a transition leads to, from state `st` -/
def Trans.target (t : Trans) (st : St) : St :=
  match t with
  | .toState s => s
  | .spin _ => st

/-- result lands in `EnteringSyllable` only with a non-empty phonetic buffer -/
def SylOK (st : St) (r : StepRes D L) : Prop :=
  ∀ sh' t, r = .ok (sh', t) → t.target st = .enteringSyllable → env.sylIsEmpty sh'.syl = false

macro "sylok_leaf" : tactic =>
  `(tactic| (intro sh' t h ht; injection h with h; injection h with h1 h2; subst h1 h2;
             first | (simp [Trans.target] at ht; done) | assumption))

theorem sylOK_ite {st : St} {c : Prop} [Decidable c] {a b : StepRes D L}
    (h1 : SylOK env st a) (h2 : SylOK env st b) : SylOK env st (if c then a else b) := by
  split <;> assumption

theorem sylOK_panic (st : St) (p : String) : SylOK env st (.panic p : StepRes D L) := by
  intro sh' t h; cases h

theorem sylOK_fuel (st : St) : SylOK env st (.outOfFuel : StepRes D L) := by
  intro sh' t h; cases h

/-- a result whose transition never targets `EnteringSyllable` (from a state that is not it) -/
def NoSyl (r : StepRes D L) : Prop :=
  ∀ sh' t, r = .ok (sh', t) → ∀ s, t = .toState s → s ≠ .enteringSyllable

theorem sylOK_of_noSyl {st : St} (hst : st ≠ .enteringSyllable) {r : StepRes D L} (h : NoSyl r) :
    SylOK env st r := by
  intro sh' t hr ht
  cases t with
  | toState s => exact absurd ht (h sh' _ hr s rfl)
  | spin b => exact absurd ht hst

macro "nosyl_leaf" : tactic =>
  `(tactic| (intro sh' t h s hs; injection h with h; injection h with h1 h2; subst h1 h2;
             first | (cases hs; done) | (injection hs with hs; subst hs; intro hc; cases hc; done)))

theorem noSyl_panic (p : String) : NoSyl (.panic p : StepRes D L) := by intro sh' t h; cases h
theorem noSyl_fuel : NoSyl (.outOfFuel : StepRes D L) := by intro sh' t h; cases h

theorem noSyl_withCom_absorb (sh : Shared D L) (r : Outcome CompEditor) :
    NoSyl (withCom sh r fun sh => .ok (sh, .spin .absorb)) := by
  unfold withCom
  cases r with
  | ok c => nosyl_leaf
  | panic p => exact noSyl_panic p
  | outOfFuel => exact noSyl_fuel

theorem noSyl_commitOrInsert (sh : Shared D L) (ch : Nat) : NoSyl (commitOrInsert sh ch) := by
  unfold commitOrInsert
  split
  · nosyl_leaf
  · exact noSyl_withCom_absorb _ _

theorem noSyl_inputChar (sh : Shared D L) (ev : KeyEvent) : NoSyl (inputChar sh ev) := by
  unfold inputChar fullOrBell
  repeat' split
  all_goals first
    | exact noSyl_commitOrInsert _ _
    | nosyl_leaf

theorem noSyl_chineseFallback (sh : Shared D L) (ev : KeyEvent) : NoSyl (chineseFallback sh ev) := by
  unfold chineseFallback
  repeat' split
  all_goals first
    | exact noSyl_withCom_absorb _ _
    | exact noSyl_inputChar _ _
    | nosyl_leaf

theorem noSyl_newPhrase (sh : Shared D L) : NoSyl (newPhrase env sh) := by
  unfold newPhrase
  simp only
  split
  · nosyl_leaf
  · exact noSyl_panic _
  · exact noSyl_fuel

theorem noSyl_openPhrase (sh : Shared D L) : NoSyl (openPhrase env sh) := by
  intro sh' t h
  rcases openPhrase_cases env h with ⟨h1, _⟩ | ⟨rfl, _⟩
  · exact noSyl_newPhrase env sh sh' t h1
  · intro s hs; cases hs

theorem noSyl_newPhraseSimple (sh : Shared D L) : NoSyl (newPhraseSimple sh) := by
  unfold newPhraseSimple
  simp only
  split
  · nosyl_leaf
  · exact noSyl_panic _
  · exact noSyl_fuel

theorem noSyl_newSpecialSymbol (sh : Shared D L) (sym : Sym) : NoSyl (newSpecialSymbol sh sym) := by
  unfold newSpecialSymbol
  simp only
  split
  · nosyl_leaf
  · nosyl_leaf
  · exact noSyl_panic _
  · exact noSyl_fuel

theorem noSyl_openSymbol (sh : Shared D L) : NoSyl (openSymbol env sh) := by
  intro sh' t h
  obtain ⟨_, rfl | rfl⟩ := openSymbol_cases env h
  · intro s hs; injection hs with hs; subst hs; intro hc; cases hc
  · intro s hs; cases hs

theorem noSyl_openSpecialSymbol (sh : Shared D L) (sym : Sym) : NoSyl (openSpecialSymbol env sh sym) := by
  intro sh' t h
  rcases openSpecialSymbol_cases env h with ⟨h1, _⟩ | ⟨rfl, _⟩
  · exact noSyl_newSpecialSymbol sh sym sh' t h1
  · intro s hs; cases hs

theorem noSyl_startSelecting (sh : Shared D L) : NoSyl (startSelecting env sh) := by
  unfold startSelecting
  repeat' split
  all_goals first
    | exact noSyl_openPhrase env _
    | exact noSyl_openSpecialSymbol env _ _
    | nosyl_leaf

theorem noSyl_startSelectingOrInputSpace (sh : Shared D L) : NoSyl (startSelectingOrInputSpace env sh) := by
  unfold startSelectingOrInputSpace
  repeat' split
  all_goals first
    | exact noSyl_openPhrase env _
    | exact noSyl_openSpecialSymbol env _ _
    | nosyl_leaf

theorem noSyl_learnTrans (r : Outcome (Shared D L × Bool)) : NoSyl (learnTrans r) := by
  unfold learnTrans
  split
  · nosyl_leaf
  · exact noSyl_panic _
  · exact noSyl_fuel

theorem noSyl_enteringBackspace (sh : Shared D L) : NoSyl (enteringBackspace sh) := by
  unfold enteringBackspace
  split
  · nosyl_leaf
  · exact noSyl_withCom_absorb _ _

theorem noSyl_enteringCtrlDigit (sh : Shared D L) (c : Nat) : NoSyl (enteringCtrlDigit env sh c) := by
  unfold enteringCtrlDigit
  repeat' (first | split | (dsimp only; split))
  all_goals first
    | exact noSyl_learnTrans _
    | exact noSyl_openSymbol env _
    | nosyl_leaf

theorem noSyl_enteringTabInside (sh : Shared D L) : NoSyl (enteringTabInside env sh) := by
  unfold enteringTabInside
  repeat' split
  all_goals first
    | exact noSyl_withCom_absorb _ _
    | exact noSyl_panic _
    | exact noSyl_fuel

theorem noSyl_enteringDel (sh : Shared D L) : NoSyl (enteringDel sh) := by
  unfold enteringDel
  split
  · nosyl_leaf
  · exact noSyl_withCom_absorb _ _

theorem noSyl_enteringShiftLeft (sh : Shared D L) : NoSyl (enteringShiftLeft sh) := by
  unfold enteringShiftLeft; split <;> nosyl_leaf

theorem noSyl_enteringShiftRight (sh : Shared D L) : NoSyl (enteringShiftRight sh) := by
  unfold enteringShiftRight; split <;> nosyl_leaf

theorem noSyl_enteringEnter (sh : Shared D L) : NoSyl (enteringEnter env sh) := by
  unfold enteringEnter
  split
  · nosyl_leaf
  · exact noSyl_panic _
  · exact noSyl_fuel

theorem noSyl_enteringEsc (sh : Shared D L) : NoSyl (enteringEsc sh) := by
  unfold enteringEsc; split <;> nosyl_leaf

/-- the catch-all arm of `Entering`: the only place that enters `EnteringSyllable` -/
theorem sylOK_enteringDefault (hl : LayoutSane env) (sh : Shared D L) (ev : KeyEvent)
    (hempty : env.sylIsEmpty sh.syl = true) : SylOK env .entering (enteringDefault env sh ev) := by
  have hne : St.entering ≠ St.enteringSyllable := by decide
  unfold enteringDefault
  repeat' split
  all_goals first
    | exact sylOK_of_noSyl env hne (noSyl_withCom_absorb _ _)
    | exact sylOK_of_noSyl env hne (noSyl_inputChar _ _)
    | exact sylOK_of_noSyl env hne (noSyl_chineseFallback _ _)
    | exact sylOK_of_noSyl env hne (noSyl_openSymbol env _)
    | (apply sylOK_of_noSyl env hne; nosyl_leaf)
    | skip
  all_goals
    intro sh' t h ht
    injection h with h; injection h with h1 h2; subst h1 h2
    rename_i habs
    exact hl.absorb_nonempty sh.syl ev hempty (eq_of_beq habs)

theorem sylOK_enteringNext (hl : LayoutSane env) (sh : Shared D L) (ev : KeyEvent)
    (hempty : env.sylIsEmpty sh.syl = true) : SylOK env .entering (enteringNext env sh ev) := by
  have hne : St.entering ≠ St.enteringSyllable := by decide
  unfold enteringNext
  repeat' (with_reducible apply sylOK_ite)
  all_goals first
    | exact sylOK_enteringDefault env hl _ _ hempty
    | exact sylOK_of_noSyl env hne (noSyl_enteringBackspace _)
    | exact sylOK_of_noSyl env hne (noSyl_enteringCtrlDigit env _ _)
    | exact sylOK_of_noSyl env hne (noSyl_enteringTabInside env _)
    | exact sylOK_of_noSyl env hne (noSyl_enteringDel _)
    | exact sylOK_of_noSyl env hne (noSyl_enteringShiftLeft _)
    | exact sylOK_of_noSyl env hne (noSyl_enteringShiftRight _)
    | exact sylOK_of_noSyl env hne (noSyl_enteringEnter env _)
    | exact sylOK_of_noSyl env hne (noSyl_enteringEsc _)
    | exact sylOK_of_noSyl env hne (noSyl_commitOrInsert _ _)
    | exact sylOK_of_noSyl env hne (noSyl_startSelecting env _)
    | exact sylOK_of_noSyl env hne (noSyl_startSelectingOrInputSpace env _)
    | (apply sylOK_of_noSyl env hne; nosyl_leaf)

/-! ### EnteringSyllable -/

theorem sylOK_syllableAnswer (sh : Shared D L) (beh : LayoutBeh)
    (hf : ∀ s, beh = .fuzzy s → env.sylIsEmpty sh.syl = false)
    (hr : beh ≠ .absorb → beh ≠ .commit → (∀ s, beh ≠ .fuzzy s) → env.sylIsEmpty sh.syl = false) :
    SylOK env .enteringSyllable (syllableAnswer env sh beh) := by
  unfold syllableAnswer
  split
  · -- absorb
    split
    · sylok_leaf
    · rename_i hne
      intro sh' t h ht; injection h with h; injection h with h1 h2; subst h1 h2
      simpa using hne
  · -- fuzzy
    rename_i s
    have hs := hf s rfl
    split
    · unfold withCom
      split
      · intro sh' t h ht; injection h with h; injection h with h1 h2; subst h1 h2; exact hs
      · exact sylOK_panic env _ _
      · exact sylOK_fuel env _
    · intro sh' t h ht; injection h with h; injection h with h1 h2; subst h1 h2; exact hs
  · -- commit
    split
    · unfold withCom
      split
      · dsimp only
        split
        · intro sh' t h ht
          have := noSyl_newPhraseSimple _ sh' t h
          cases t with
          | toState s => exact absurd ht (this s rfl)
          | spin b =>
            -- newPhraseSimple never spins
            unfold newPhraseSimple at h
            simp only at h
            split at h <;> cases h
        · sylok_leaf
      · exact sylOK_panic env _ _
      · exact sylOK_fuel env _
    · sylok_leaf
  · -- rejected
    rename_i h1 h2 h3
    intro sh' t h ht; injection h with h; injection h with e1 e2; subst e1 e2
    exact hr (fun e => h1 e) (fun e => h3 e) (fun s e => h2 s e)

theorem sylOK_enteringSyllableNext (hl : LayoutSane env) (sh : Shared D L) (ev : KeyEvent)
    (hne : env.sylIsEmpty sh.syl = false) :
    SylOK env .enteringSyllable (enteringSyllableNext env sh ev) := by
  unfold enteringSyllableNext
  by_cases hb1 : (ev.code == KC.backspace) = true
  · rw [if_pos hb1]
    by_cases hb : (!env.sylIsEmpty (env.removeLast sh.syl)) = true
    · rw [if_pos hb]
      intro sh' t h ht; injection h with h; injection h with h1 h2; subst h1 h2
      simpa using hb
    · rw [if_neg hb]; sylok_leaf
  · rw [if_neg hb1]
    repeat' (with_reducible apply sylOK_ite)
    · sylok_leaf
    · sylok_leaf
    · sylok_leaf
    · split
      · exact sylOK_syllableAnswer env _ _
          (fun s e => ((hl.fuzzy_nonempty sh.syl ev s).1 e))
          (fun a b c => (hl.reject_keeps sh.syl ev hne).2 a b c)
      · exact sylOK_syllableAnswer env _ _
          (fun s e => ((hl.fuzzy_nonempty sh.syl ev s).2 e))
          (fun a b c => (hl.reject_keeps sh.syl ev hne).1 a b c)

/-! ### arms that do not touch the phonetic buffer -/

/-- the result's phonetic buffer is `l0` -/
def SylIs (l0 : L) (r : StepRes D L) : Prop := ∀ sh' t, r = .ok (sh', t) → sh'.syl = l0

macro "sylis_leaf" : tactic =>
  `(tactic| (intro sh' t h; injection h with h; injection h with h1 h2; subst h1; rfl))

theorem sylIs_ite {l0 : L} {c : Prop} [Decidable c] {a b : StepRes D L}
    (h1 : SylIs l0 a) (h2 : SylIs l0 b) : SylIs l0 (if c then a else b) := by
  split <;> assumption

theorem sylIs_panic (l0 : L) (p : String) : SylIs l0 (.panic p : StepRes D L) := by intro sh' t h; cases h
theorem sylIs_fuel (l0 : L) : SylIs l0 (.outOfFuel : StepRes D L) := by intro sh' t h; cases h

theorem sylIs_withCom_absorb (sh : Shared D L) (r : Outcome CompEditor) :
    SylIs sh.syl (withCom sh r fun sh => .ok (sh, .spin .absorb)) := by
  unfold withCom
  cases r with
  | ok c => sylis_leaf
  | panic p => exact sylIs_panic _ p
  | outOfFuel => exact sylIs_fuel _

theorem sylIs_commitOrInsert (sh : Shared D L) (ch : Nat) : SylIs sh.syl (commitOrInsert sh ch) := by
  unfold commitOrInsert
  split
  · sylis_leaf
  · exact sylIs_withCom_absorb _ _

theorem sylIs_inputChar (sh : Shared D L) (ev : KeyEvent) : SylIs sh.syl (inputChar sh ev) := by
  unfold inputChar fullOrBell
  repeat' split
  all_goals first
    | exact sylIs_commitOrInsert _ _
    | sylis_leaf

theorem sylIs_chineseFallback (sh : Shared D L) (ev : KeyEvent) : SylIs sh.syl (chineseFallback sh ev) := by
  unfold chineseFallback
  repeat' split
  all_goals first
    | exact sylIs_withCom_absorb _ _
    | exact sylIs_inputChar _ _
    | sylis_leaf

theorem sylIs_newPhrase (sh : Shared D L) : SylIs sh.syl (newPhrase env sh) := by
  unfold newPhrase
  simp only
  split
  · sylis_leaf
  · exact sylIs_panic _ _
  · exact sylIs_fuel _

theorem sylIs_openPhrase (sh : Shared D L) : SylIs sh.syl (openPhrase env sh) := by
  intro sh' t h
  rcases openPhrase_cases env h with ⟨h1, _⟩ | ⟨_, rfl⟩
  · exact sylIs_newPhrase env sh sh' t h1
  · rfl

theorem sylIs_newPhraseSimple (sh : Shared D L) : SylIs sh.syl (newPhraseSimple sh) := by
  unfold newPhraseSimple
  simp only
  split
  · sylis_leaf
  · exact sylIs_panic _ _
  · exact sylIs_fuel _

theorem sylIs_newSpecialSymbol (sh : Shared D L) (sym : Sym) : SylIs sh.syl (newSpecialSymbol sh sym) := by
  unfold newSpecialSymbol
  simp only
  split
  · sylis_leaf
  · sylis_leaf
  · exact sylIs_panic _ _
  · exact sylIs_fuel _

theorem sylIs_openSymbol (sh : Shared D L) : SylIs sh.syl (openSymbol env sh) := by
  intro sh' t h
  obtain ⟨rfl, _⟩ := openSymbol_cases env h
  rfl

theorem sylIs_openSpecialSymbol (sh : Shared D L) (sym : Sym) : SylIs sh.syl (openSpecialSymbol env sh sym) := by
  intro sh' t h
  rcases openSpecialSymbol_cases env h with ⟨h1, _⟩ | ⟨_, rfl⟩
  · exact sylIs_newSpecialSymbol sh sym sh' t h1
  · rfl

theorem sylIs_startSelecting (sh : Shared D L) : SylIs sh.syl (startSelecting env sh) := by
  unfold startSelecting
  repeat' split
  all_goals first
    | exact sylIs_openPhrase env _
    | exact sylIs_openSpecialSymbol env _ _
    | sylis_leaf

theorem sylIs_startSelectingOrInputSpace (sh : Shared D L) :
    SylIs sh.syl (startSelectingOrInputSpace env sh) := by
  unfold startSelectingOrInputSpace
  repeat' split
  all_goals first
    | exact sylIs_openPhrase env _
    | exact sylIs_openSpecialSymbol env _ _
    | sylis_leaf

/-- learning never touches the phonetic buffer -/
theorem learnPhrase_syl (sh : Shared D L) (k : List Nat) (p : Text) :
    OutAll (fun x => x.1.syl = sh.syl) (Shared.learnPhrase env sh k p) := by
  unfold Shared.learnPhrase
  repeat' (first | split | (dsimp only; split))
  all_goals first | exact rfl | trivial

theorem learnInRangeQuiet_syl (sh : Shared D L) (a b : Nat) :
    OutAll (fun x => x.1.syl = sh.syl) (Shared.learnInRangeQuiet env sh a b) := by
  unfold Shared.learnInRangeQuiet
  repeat' (first | split | (dsimp only; split))
  all_goals first | exact rfl | trivial

theorem learnInRangeNotify_syl (sh : Shared D L) (a b : Nat) :
    OutAll (fun x => x.1.syl = sh.syl) (Shared.learnInRangeNotify env sh a b) := by
  unfold Shared.learnInRangeNotify
  split
  · rename_i sh1 phrase hq; exact (learnInRangeQuiet_syl env sh a b).elim hq
  · rename_i sh1 msg hq; exact (learnInRangeQuiet_syl env sh a b).elim hq
  · trivial
  · trivial

theorem sylIs_learnTrans (sh : Shared D L) (a b : Nat) :
    SylIs sh.syl (learnTrans (Shared.learnInRangeNotify env sh a b)) := by
  unfold learnTrans
  split
  · rename_i sh1 okk hq
    have hc := (learnInRangeNotify_syl env sh a b).elim hq
    intro sh' t h; injection h with h; injection h with h1 h2; subst h1; exact hc
  · exact sylIs_panic _ _
  · exact sylIs_fuel _

theorem sylIs_enteringBackspace (sh : Shared D L) : SylIs sh.syl (enteringBackspace sh) := by
  unfold enteringBackspace
  split
  · sylis_leaf
  · exact sylIs_withCom_absorb _ _

theorem sylIs_enteringCtrlDigit (sh : Shared D L) (c : Nat) : SylIs sh.syl (enteringCtrlDigit env sh c) := by
  unfold enteringCtrlDigit
  repeat' (first | split | (dsimp only; split))
  all_goals first
    | exact sylIs_learnTrans env _ _ _
    | exact sylIs_openSymbol env _
    | sylis_leaf

theorem sylIs_enteringTabInside (sh : Shared D L) : SylIs sh.syl (enteringTabInside env sh) := by
  unfold enteringTabInside
  repeat' split
  all_goals first
    | exact sylIs_withCom_absorb _ _
    | exact sylIs_panic _ _
    | exact sylIs_fuel _

theorem sylIs_enteringDel (sh : Shared D L) : SylIs sh.syl (enteringDel sh) := by
  unfold enteringDel
  split
  · sylis_leaf
  · exact sylIs_withCom_absorb _ _

theorem sylIs_enteringShiftLeft (sh : Shared D L) : SylIs sh.syl (enteringShiftLeft sh) := by
  unfold enteringShiftLeft; split <;> sylis_leaf

theorem sylIs_enteringShiftRight (sh : Shared D L) : SylIs sh.syl (enteringShiftRight sh) := by
  unfold enteringShiftRight; split <;> sylis_leaf

/-- committing (with auto-learning) never touches the phonetic buffer -/
theorem autoLearn_syl (sh : Shared D L) (ivs : List Interval) :
    OutAll (fun x => x.syl = sh.syl) (Shared.autoLearn env sh ivs) := by
  unfold Shared.autoLearn
  suffices h : ∀ (ivs : List Interval) (sh1 : Shared D L) (p : Text) (ss : List Sym), sh1.syl = sh.syl →
      OutAll (fun x => x.syl = sh.syl) (Shared.autoLearn.go env sh1 ivs p ss) from h ivs sh [] [] rfl
  have hflush : ∀ (sh1 : Shared D L) (p : Text) (ss : List Sym), sh1.syl = sh.syl →
      OutAll (fun x => x.syl = sh.syl) (Shared.autoLearn.flush env sh1 p ss) := by
    intro sh1 p ss h1
    unfold Shared.autoLearn.flush
    split
    · exact h1
    · split
      · rename_i sh2 b hq
        have := (learnPhrase_syl env sh1 _ _).elim hq
        simp only at this
        show sh2.syl = sh.syl
        rw [this, h1]
      · trivial
      · trivial
  intro ivs
  induction ivs with
  | nil => intro sh1 p ss h1; unfold Shared.autoLearn.go; exact hflush sh1 p ss h1
  | cons iv rest ih =>
    intro sh1 p ss h1
    unfold Shared.autoLearn.go
    split
    · trivial
    · split
      · split
        · exact ih _ _ _ h1
        · trivial
        · trivial
      · split
        · rename_i sh2 hq
          have h2 : sh2.syl = sh.syl := (hflush sh1 p ss h1).elim hq
          split
          · split
            · split
              · rename_i sh3 b hq3
                have := (learnPhrase_syl env sh2 _ _).elim hq3
                simp only at this
                exact ih _ _ _ (by rw [this, h2])
              · trivial
              · trivial
            · trivial
            · trivial
          · exact ih _ _ _ h2
        · trivial
        · trivial

theorem commit_syl (sh : Shared D L) : OutAll (fun x => x.syl = sh.syl) (Shared.commit env sh) := by
  unfold Shared.commit
  split
  · trivial
  · trivial
  · dsimp only
    split
    · rename_i sh1 hq
      show sh1.syl = sh.syl
      split at hq
      · exact (autoLearn_syl env { sh with commitBuf := [] } _).elim hq
      · injection hq with hq; subst hq; rfl
    · trivial
    · trivial

theorem sylIs_enteringEnter (sh : Shared D L) : SylIs sh.syl (enteringEnter env sh) := by
  unfold enteringEnter
  split
  · rename_i sh1 hq
    have := (commit_syl env sh).elim hq
    intro sh' t h; injection h with h; injection h with h1 h2; subst h1; exact this
  · exact sylIs_panic _ _
  · exact sylIs_fuel _

theorem sylIs_enteringEsc (sh : Shared D L) : SylIs sh.syl (enteringEsc sh) := by
  unfold enteringEsc; split <;> sylis_leaf

/-! ### the other direction: not in `EnteringSyllable` ⇒ the phonetic buffer is empty -/

/-- result not landing in `EnteringSyllable` has an empty phonetic buffer -/
def EmptyOK (st : St) (r : StepRes D L) : Prop :=
  ∀ sh' t, r = .ok (sh', t) → t.target st ≠ .enteringSyllable → env.sylIsEmpty sh'.syl = true

theorem emptyOK_of_sylIs {st : St} {l0 : L} (h0 : env.sylIsEmpty l0 = true) {r : StepRes D L}
    (h : SylIs l0 r) : EmptyOK env st r := by
  intro sh' t hr _; rw [h sh' t hr]; exact h0

theorem emptyOK_ite {st : St} {c : Prop} [Decidable c] {a b : StepRes D L}
    (h1 : EmptyOK env st a) (h2 : EmptyOK env st b) : EmptyOK env st (if c then a else b) := by
  split <;> assumption

theorem emptyOK_enteringDefault (hl : LayoutSane env) (sh : Shared D L) (ev : KeyEvent)
    (hempty : env.sylIsEmpty sh.syl = true) : EmptyOK env .entering (enteringDefault env sh ev) := by
  unfold enteringDefault
  repeat' split
  all_goals first
    | exact emptyOK_of_sylIs env hempty (sylIs_withCom_absorb _ _)
    | exact emptyOK_of_sylIs env hempty (sylIs_inputChar _ _)
    | exact emptyOK_of_sylIs env hempty (sylIs_chineseFallback _ _)
    | exact emptyOK_of_sylIs env hempty (sylIs_openSymbol env _)
    | (apply emptyOK_of_sylIs env hempty; sylis_leaf)
    | skip
  -- the arms that consulted the layout
  all_goals first
    | (intro sh' t h ht; injection h with h; injection h with h1 h2; subst h1 h2
       simp [Trans.target] at ht; done)
    | (rename_i hna
       have he := hl.reject_from_empty sh.syl ev hempty (fun e => hna (by rw [e]; rfl))
       first
         | exact emptyOK_of_sylIs env he (sylIs_chineseFallback { sh with syl := (env.keyPress sh.syl ev).2 } ev)
         | (intro sh' t h ht; injection h with h; injection h with h1 h2; subst h1 h2; exact he))

theorem emptyOK_enteringNext (hl : LayoutSane env) (sh : Shared D L) (ev : KeyEvent)
    (hempty : env.sylIsEmpty sh.syl = true) : EmptyOK env .entering (enteringNext env sh ev) := by
  unfold enteringNext
  repeat' (with_reducible apply emptyOK_ite)
  all_goals first
    | exact emptyOK_enteringDefault env hl _ _ hempty
    | exact emptyOK_of_sylIs env hempty (sylIs_enteringBackspace _)
    | exact emptyOK_of_sylIs env hempty (sylIs_enteringCtrlDigit env _ _)
    | exact emptyOK_of_sylIs env hempty (sylIs_enteringTabInside env _)
    | exact emptyOK_of_sylIs env hempty (sylIs_enteringDel _)
    | exact emptyOK_of_sylIs env hempty (sylIs_enteringShiftLeft _)
    | exact emptyOK_of_sylIs env hempty (sylIs_enteringShiftRight _)
    | exact emptyOK_of_sylIs env hempty (sylIs_enteringEnter env _)
    | exact emptyOK_of_sylIs env hempty (sylIs_enteringEsc _)
    | exact emptyOK_of_sylIs env hempty (sylIs_commitOrInsert _ _)
    | exact emptyOK_of_sylIs env hempty (sylIs_startSelecting env _)
    | exact emptyOK_of_sylIs env hempty (sylIs_startSelectingOrInputSpace env _)
    | (apply emptyOK_of_sylIs env hempty; sylis_leaf)

theorem emptyOK_syllableAnswer (hl : LayoutSane env) (sh : Shared D L) (beh : LayoutBeh) :
    EmptyOK env .enteringSyllable (syllableAnswer env sh beh) := by
  have hc := hl.clear_empty
  unfold syllableAnswer
  split
  · split
    · rename_i he
      intro sh' t h ht; injection h with h; injection h with h1 h2; subst h1 h2; exact he
    · intro sh' t h ht; injection h with h; injection h with h1 h2; subst h1 h2
      simp [Trans.target] at ht
  · split
    · unfold withCom
      split
      · intro sh' t h ht; injection h with h; injection h with h1 h2; subst h1 h2; simp [Trans.target] at ht
      · intro sh' t h; cases h
      · intro sh' t h; cases h
    · intro sh' t h ht; injection h with h; injection h with h1 h2; subst h1 h2; simp [Trans.target] at ht
  · split
    · unfold withCom
      split
      · dsimp only
        split
        · intro sh' t h _
          rw [sylIs_newPhraseSimple _ sh' t h]
          exact hc _
        · intro sh' t h _; injection h with h; injection h with h1 h2; subst h1 h2; exact hc _
      · intro sh' t h; cases h
      · intro sh' t h; cases h
    · intro sh' t h _; injection h with h; injection h with h1 h2; subst h1 h2; exact hc _
  · intro sh' t h ht; injection h with h; injection h with h1 h2; subst h1 h2; simp [Trans.target] at ht

theorem emptyOK_enteringSyllableNext (hl : LayoutSane env) (sh : Shared D L) (ev : KeyEvent) :
    EmptyOK env .enteringSyllable (enteringSyllableNext env sh ev) := by
  have hc := hl.clear_empty
  unfold enteringSyllableNext
  by_cases hb1 : (ev.code == KC.backspace) = true
  · rw [if_pos hb1]
    by_cases hb : (!env.sylIsEmpty (env.removeLast sh.syl)) = true
    · rw [if_pos hb]
      intro sh' t h ht; injection h with h; injection h with h1 h2; subst h1 h2; simp [Trans.target] at ht
    · rw [if_neg hb]
      intro sh' t h _; injection h with h; injection h with h1 h2; subst h1 h2
      simpa using hb
  · rw [if_neg hb1]
    repeat' (with_reducible apply emptyOK_ite)
    · intro sh' t h _; injection h with h; injection h with h1 h2; subst h1 h2; exact hc _
    · intro sh' t h _; injection h with h; injection h with h1 h2; subst h1 h2; exact hc _
    · intro sh' t h _; injection h with h; injection h with h1 h2; subst h1 h2; exact hc _
    · split <;> exact emptyOK_syllableAnswer env hl _ _

/-! ### Selecting and Highlighting never touch the phonetic buffer and never enter `EnteringSyllable` -/

/-- a transition that does not lead to `EnteringSyllable` -/
def Trans.notSyl (t : Trans) : Prop := ∀ s, t = .toState s → s ≠ .enteringSyllable

def SelKeep (l0 : L) (r : Outcome (SelRes D L)) : Prop :=
  ∀ x, r = .ok x → x.shared.syl = l0 ∧ x.trans.notSyl

macro "selkeep_leaf" : tactic =>
  `(tactic| (intro x h; injection h with h; subst h;
             exact ⟨rfl, fun s hs => by first | (cases hs; done) | (injection hs with hs; subst hs; intro hc; cases hc; done)⟩))

theorem selKeep_ite {l0 : L} {c : Prop} [Decidable c] {a b : Outcome (SelRes D L)}
    (h1 : SelKeep l0 a) (h2 : SelKeep l0 b) : SelKeep l0 (if c then a else b) := by
  split <;> assumption

theorem selKeep_panic (l0 : L) (p : String) : SelKeep l0 (.panic p : Outcome (SelRes D L)) := by
  intro x h; cases h
theorem selKeep_fuel (l0 : L) : SelKeep l0 (.outOfFuel : Outcome (SelRes D L)) := by
  intro x h; cases h

theorem selKeep_selDownSpace (s : Selecting) (sh : Shared D L) : SelKeep sh.syl (selDownSpace env s sh) := by
  unfold selDownSpace
  repeat' split
  all_goals first
    | exact selKeep_panic _ _
    | exact selKeep_fuel _
    | selkeep_leaf

theorem retarget_syl (s : Selecting) (sh : Shared D L) : SylIs sh.syl (retarget env s sh) := by
  unfold retarget
  repeat' split
  all_goals first
    | exact sylIs_panic _ _
    | exact sylIs_fuel _
    | sylis_leaf

theorem selKeep_closeIfEmpty (l0 : L) (r : SelRes D L) (h1 : r.shared.syl = l0) (h2 : r.trans.notSyl) :
    SelKeep l0 (closeIfEmpty env r) := by
  intro x h
  rcases closeIfEmpty_cases env h with rfl | rfl
  · exact ⟨h1, h2⟩
  · exact ⟨h1, fun s hs => by injection hs with hs; subst hs; intro hc; cases hc⟩

theorem selKeep_selMove (s : Selecting) (sh : Shared D L) (isJ : Bool) : SelKeep sh.syl (selMove env s sh isJ) := by
  unfold selMove
  split
  · selkeep_leaf
  · dsimp only
    split
    · rename_i sh' s' hq
      have := retarget_syl env s _ sh' _ hq
      exact selKeep_closeIfEmpty env _ _ this (fun s hs => by cases hs)
    · rename_i sh' t hn hq
      have := retarget_syl env s _ sh' _ hq
      exact selKeep_closeIfEmpty env _ _ this (fun s hs => by cases hs)
    · exact selKeep_panic _ _
    · exact selKeep_fuel _

theorem selKeep_selPrevPage (s : Selecting) (sh : Shared D L) : SelKeep sh.syl (selPrevPage env s sh) := by
  unfold selPrevPage
  repeat' split
  all_goals first
    | exact selKeep_panic _ _
    | exact selKeep_fuel _
    | selkeep_leaf

theorem selKeep_selNextPage (s : Selecting) (sh : Shared D L) : SelKeep sh.syl (selNextPage env s sh) := by
  unfold selNextPage
  repeat' split
  all_goals first
    | exact selKeep_panic _ _
    | exact selKeep_fuel _
    | selkeep_leaf

/-- `Selecting::select` keeps the phonetic buffer and never leads to `EnteringSyllable` -/
theorem select_syl (s : Selecting) (sh : Shared D L) (n : Nat) :
    OutAll (fun x => x.2.1.syl = sh.syl ∧ x.2.2.notSyl) (Selecting.select env s sh n) := by
  unfold Selecting.select
  repeat' (first | split | (dsimp only; split))
  all_goals first
    | trivial
    | exact ⟨rfl, fun s hs => by first | (cases hs; done) | (injection hs with hs; subst hs; intro hc; cases hc; done)⟩
    | skip
  all_goals
    simp only [Outcome.map]
    repeat' split
    all_goals first
      | trivial
      | exact ⟨rfl, fun s hs => by first | (cases hs; done) | (injection hs with hs; subst hs; intro hc; cases hc; done)⟩

theorem selKeep_selDigit (s : Selecting) (sh : Shared D L) (c : Nat) : SelKeep sh.syl (selDigit env s sh c) := by
  unfold selDigit
  split
  · rename_i s' sh' t hq
    have h := (select_syl env s sh (c - 1)).elim hq
    simp only at h
    intro x hx; injection hx with hx; subst hx
    exact h
  · exact selKeep_panic _ _
  · exact selKeep_fuel _

theorem selKeep_selectingNext (s : Selecting) (sh : Shared D L) (ev : KeyEvent) :
    SelKeep sh.syl (selectingNext env s sh ev) := by
  unfold selectingNext
  repeat' (with_reducible apply selKeep_ite)
  all_goals first
    | exact selKeep_selDownSpace env _ _
    | exact selKeep_selMove env _ _ _
    | exact selKeep_selPrevPage env _ _
    | exact selKeep_selNextPage env _ _
    | exact selKeep_selDigit env _ _ _
    | selkeep_leaf

theorem highlighting_syl (m : Nat) (sh : Shared D L) (ev : KeyEvent) :
    OutAll (fun x => x.1.syl = sh.syl ∧ x.2.2.notSyl) (highlightingNext env m sh ev) := by
  unfold highlightingNext
  repeat' (first | split | (dsimp only; split))
  all_goals first
    | trivial
    | exact ⟨rfl, fun s hs => by first | (cases hs; done) | (injection hs with hs; subst hs; intro hc; cases hc; done)⟩
    | skip
  -- the Enter arm: learning keeps the buffer
  all_goals
    rename_i sh' b hq
    have := (learnInRangeNotify_syl env _ _ _).elim hq
    exact ⟨this, fun s hs => by injection hs with hs; subst hs; intro hc; cases hc⟩

end Chewing
