/-!
Finite enumeration helpers: a `Bool`-valued check over `0..n` that the kernel evaluates
(`decide +kernel`), and the lemma that lifts it to the bounded universal statement.
A table theorem proved this way is a proof over the *whole* finite domain, re-run whenever
the generated tables change.
-/
namespace Chewing

def allLt (n : Nat) (p : Nat → Bool) : Bool := (List.range n).all p

theorem allLt_spec {n : Nat} {p : Nat → Bool} (h : allLt n p = true) :
    ∀ i, i < n → p i = true := by
  intro i hi
  exact List.all_eq_true.mp h i (List.mem_range.mpr hi)

theorem allLt_spec2 {n m : Nat} {p : Nat → Nat → Bool}
    (h : allLt n (fun i => allLt m (p i)) = true) :
    ∀ i j, i < n → j < m → p i j = true :=
  fun i j hi hj => allLt_spec (allLt_spec h i hi) j hj

/-- all 16-bit values -/
def all16 (p : Nat → Bool) : Bool := allLt 65536 p

theorem all16_spec {p : Nat → Bool} (h : all16 p = true) {c : Nat} (hc : c < 65536) : p c = true :=
  allLt_spec h c hc

end Chewing
