import Chewing.Model.Estimate
/-!
Arithmetic of `estimate` (C08): exact no-panic precondition, the editor path (no timestamp ⇒ short band),
monotonicity, and the bounded-liveness argument "the gap to the best homophone closes within 50 learnings".
All statements are over the generated constants (`Gen/Estimate.lean`); they are unfolded to the literals
of the current source before `omega` / kernel evaluation.
-/
namespace Chewing.Learn
open Gen.Est

/-! ### No-panic precondition (exact) -/

theorem maxUserFreq_le_u32Max : maxUserFreq ≤ u32Max := by decide

/-- the saturation is invisible behind the clamp: `MAX_USER_FREQ ≤ u32::MAX` -/
theorem min_satAdd32 (a b : Nat) : min (satAdd32 a b) maxUserFreq = min (a + b) maxUserFreq := by
  have := maxUserFreq_le_u32Max
  unfold satAdd32; omega

/-- a rising band panics only on `max_freq - orig_freq` -/
theorem risingBand_isOk (div plus inc f o m : Nat) :
    (risingBand div plus inc f o m).isOk = true ↔ o ≤ m := by
  unfold risingBand
  by_cases h1 : m < o
  · rw [if_pos h1]
    exact ⟨fun h => by simp [Outcome.isOk] at h, fun h => absurd h (by omega)⟩
  · rw [if_neg h1]
    exact ⟨fun _ => by omega, fun _ => rfl⟩

/-- the value of a rising band, for ALL `u32` inputs that pass the subtraction: the clamped sum -/
theorem risingBand_eq (div plus inc f o m : Nat) (h : o ≤ m) :
    risingBand div plus inc f o m = .ok (min (f + risingDelta div plus inc f o m) maxUserFreq) := by
  unfold risingBand
  rw [if_neg (by omega)]
  show Outcome.ok (min (satAdd32 f (risingDelta div plus inc f o m)) maxUserFreq) = _
  rw [min_satAdd32]

/-- whatever a rising band returns is within `MAX_USER_FREQ` — no hypothesis on the stored frequency -/
theorem risingBand_le_max (div plus inc f o m v : Nat) (h : risingBand div plus inc f o m = .ok v) :
    v ≤ maxUserFreq := by
  simp only [risingBand] at h
  split at h
  · cases h
  · injection h with h; omega

theorem decayBand_isOk (f o : Nat) :
    (decayBand f o).isOk = true ↔ (o ≤ f ∧ max ((f - o) / longDiv) longDec ≤ f) := by
  unfold decayBand
  by_cases h1 : f < o
  · rw [if_pos h1]
    exact ⟨fun h => by simp [Outcome.isOk] at h, fun h => absurd h.1 (by omega)⟩
  · rw [if_neg h1]
    by_cases h2 : f < max ((f - o) / longDiv) longDec
    · simp only [h2, if_true]
      exact ⟨fun h => by simp [Outcome.isOk] at h, fun h => absurd h.2 (by omega)⟩
    · simp only [h2, if_false]
      exact ⟨fun _ => ⟨by omega, by omega⟩, fun _ => rfl⟩

/-- `estimate` returns a value (does not panic in the debug profile, does not wrap in a release build)
    exactly under `EstimatePre` -/
theorem estimate_isOk_iff (lt f : Nat) (lu : Option Nat) (o m : Nat) :
    (estimate lt f lu o m).isOk = true ↔ EstimatePre lt f lu o m := by
  simp only [estimate, EstimatePre]
  by_cases h1 : satSub lt (lu.getD lt) < shortBand
  · rw [if_pos h1, risingBand_isOk]
    exact ⟨fun h => ⟨fun _ => h, fun h2 _ => absurd h1 (by omega)⟩, fun h => h.1 (Or.inl h1)⟩
  · rw [if_neg h1]
    by_cases h2 : satSub lt (lu.getD lt) < mediumBand
    · rw [if_pos h2, risingBand_isOk]
      exact ⟨fun h => ⟨fun _ => h, fun _ h3 => absurd h2 (by omega)⟩, fun h => h.1 (Or.inr h2)⟩
    · rw [if_neg h2, decayBand_isOk]
      exact ⟨fun h => ⟨fun h3 => h3.elim (fun h4 => absurd h4 h1) (fun h4 => absurd h4 h2), fun _ _ => h⟩,
        fun h => h.2 (by omega) (by omega)⟩

/-! ### The editor path: `learn_phrase` passes a phrase without timestamp and `orig_freq = phrase.freq()` -/

/-- new frequency on the editor path (when nothing overflows) -/
def stepFreq (f mx : Nat) : Nat := min (f + risingDelta shortDiv shortPlus shortInc f f mx) maxUserFreq

theorem estimate_no_timestamp (lt f o m : Nat) :
    estimate lt f none o m = risingBand shortDiv shortPlus shortInc f o m := by
  simp [estimate, satSub, shortBand]

/-- a stored time in the future counts as "just used" (`saturating_sub`): the short band -/
theorem estimate_future_timestamp (lt f t o m : Nat) (h : lt ≤ t) :
    estimate lt f (some t) o m = risingBand shortDiv shortPlus shortInc f o m := by
  have : lt - t = 0 := by omega
  simp [estimate, satSub, shortBand, this]

theorem risingDelta_le (f mx : Nat) (h : f ≤ mx) :
    f + risingDelta shortDiv shortPlus shortInc f f mx ≤ mx + shortInc := by
  simp only [risingDelta, shortDiv, shortPlus, shortInc]
  split <;> omega

/-- on the editor path `estimate` cannot panic and returns the clamped sum — for every `u32` frequency (before the
    repair of F40 this needed `mx + shortInc ≤ u32::MAX`) -/
theorem estimate_editor (lt f mx : Nat) (h : f ≤ mx) :
    estimate lt f none f mx = .ok (stepFreq f mx) := by
  rw [estimate_no_timestamp, risingBand_eq _ _ _ _ _ _ h]
  rfl

theorem stepFreq_ge (f mx : Nat) (hf : f ≤ maxUserFreq) : f ≤ stepFreq f mx := by
  unfold stepFreq; omega

theorem stepFreq_gt (f mx : Nat) (hf : f < maxUserFreq) : f < stepFreq f mx := by
  unfold stepFreq
  have : 0 < risingDelta shortDiv shortPlus shortInc f f mx := by
    simp only [risingDelta, shortDiv, shortPlus, shortInc]
    split <;> omega
  omega

theorem stepFreq_le_max (f mx : Nat) : stepFreq f mx ≤ maxUserFreq := by
  unfold stepFreq; omega

/-- in the two rising bands the bare function never lowers a frequency that is within `MAX_USER_FREQ` -/
theorem risingBand_ge (div plus inc f o m v : Nat) (hf : f ≤ maxUserFreq)
    (h : risingBand div plus inc f o m = .ok v) : f ≤ v := by
  have hm := maxUserFreq_le_u32Max
  simp only [risingBand, satAdd32] at h
  split at h
  · cases h
  · injection h with h; omega

/-! ### Bounded liveness: the gap closes -/

/-- one learning of X while the best other homophone has frequency `fy` -/
def learnStep (fy f : Nat) : Nat := stepFreq f (max f fy)

/-- `k` learnings -/
def learnIter (fy : Nat) : Nat → Nat → Nat
  | 0, f => f
  | k + 1, f => learnStep fy (learnIter fy k f)

theorem learnIter_succ' (fy k f : Nat) : learnIter fy (k + 1) f = learnIter fy k (learnStep fy f) := by
  induction k with
  | zero => rfl
  | succ k ih =>
    show learnStep fy (learnIter fy (k + 1) f) = learnStep fy (learnIter fy k (learnStep fy f))
    rw [ih]

/-- what one learning does to the gap `fy - f` while it is positive: the gap loses
    `max (gap / shortDiv + shortPlus) shortInc` -/
def gapStep (g : Nat) : Nat := g - max (g / shortDiv + shortPlus) shortInc

def gapIter : Nat → Nat → Nat
  | 0, g => g
  | k + 1, g => gapStep (gapIter k g)

theorem gapStep_mono {a b : Nat} (h : a ≤ b) : gapStep a ≤ gapStep b := by
  simp only [gapStep, shortDiv, shortPlus, shortInc]
  omega

theorem gapIter_mono (k : Nat) {a b : Nat} (h : a ≤ b) : gapIter k a ≤ gapIter k b := by
  induction k with
  | zero => exact h
  | succ k ih => exact gapStep_mono ih

/-- the frequency bound of the property's quantifier -/
def freqBound : Nat := 1000000

/-- number of learnings after which a gap of at most `freqBound` is closed (kernel evaluation of 49 steps on
    one number — not an enumeration of frequency pairs) -/
def closeSteps : Nat := 49

theorem gapIter_bound : gapIter closeSteps freqBound = 0 := by decide

/-- `closeSteps` is exact: one learning fewer leaves a positive gap from `freqBound` -/
theorem gapIter_bound_tight : 0 < gapIter (closeSteps - 1) freqBound := by decide

theorem learnStep_gap (fy f : Nat) (hy : fy < maxUserFreq) : fy - learnStep fy f ≤ gapStep (fy - f) := by
  simp only [learnStep, stepFreq, risingDelta, gapStep, shortDiv, shortPlus, shortInc, maxUserFreq] at *
  split <;> omega

theorem learnIter_gap (fy f : Nat) (hy : fy < maxUserFreq) (k : Nat) :
    fy - learnIter fy k f ≤ gapIter k (fy - f) := by
  induction k with
  | zero => exact Nat.le_refl _
  | succ k ih =>
    exact Nat.le_trans (learnStep_gap fy _ hy) (gapStep_mono ih)

theorem learnStep_reach (fy f : Nat) (hy : fy < maxUserFreq) (h : fy ≤ f) : fy < learnStep fy f := by
  simp only [learnStep, stepFreq, risingDelta, shortDiv, shortPlus, shortInc, maxUserFreq] at *
  split <;> omega

theorem learnStep_ge (fy f : Nat) (hf : f ≤ maxUserFreq) : f ≤ learnStep fy f := stepFreq_ge f _ hf

theorem learnIter_le_max (fy f : Nat) (hf : f ≤ maxUserFreq) (k : Nat) : learnIter fy k f ≤ maxUserFreq := by
  cases k with
  | zero => exact hf
  | succ k => exact stepFreq_le_max _ _

/-- after `closeSteps` learnings X has caught up, after one more it is strictly ahead, and it stays ahead -/
theorem learnIter_top (fy f : Nat) (hy : fy ≤ freqBound) (hf : f ≤ fy) (k : Nat) (hk : closeSteps + 1 ≤ k) :
    fy < learnIter fy k f := by
  have hy' : fy < maxUserFreq := by simp only [freqBound, maxUserFreq] at *; omega
  have h49 : fy ≤ learnIter fy closeSteps f := by
    have h1 := learnIter_gap fy f hy' closeSteps
    have h2 : gapIter closeSteps (fy - f) ≤ gapIter closeSteps freqBound := gapIter_mono _ (by omega)
    rw [gapIter_bound] at h2
    omega
  -- induction upwards from closeSteps + 1
  obtain ⟨j, rfl⟩ : ∃ j, k = closeSteps + 1 + j := ⟨k - (closeSteps + 1), by omega⟩
  induction j with
  | zero => exact learnStep_reach fy _ hy' h49
  | succ j ih =>
    have ih := ih (by omega)
    show fy < learnStep fy (learnIter fy (closeSteps + 1 + j) f)
    exact learnStep_reach fy _ hy' (Nat.le_of_lt ih)

end Chewing.Learn
