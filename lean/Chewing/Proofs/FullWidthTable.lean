import Chewing.Model.Editor
import Chewing.Proofs.Enum
/-!
C18, the table part: `full_width_symbol_input` (`FULL_WIDTH_SYMBOLS` with the fall-back to
`SPECIAL_SYMBOLS`, `src/conversion/symbol.rs`) on the 95 printable ASCII characters, by kernel
evaluation over the tables regenerated from the source on every run (`Gen/SymbolTables.lean`).
-/
namespace Chewing

/-- the `i`-th printable ASCII character, `i < 95` -/
def asciiAt (i : Nat) : Nat := i + 32

/-- total, and never an ASCII character again (so the replacement is visible) -/
theorem fullwidth_total_tab :
    allLt 95 (fun i => match fullWidthSymbolInput (asciiAt i) with
      | some w => decide (126 < w)
      | none => false) = true := by decide +kernel

/-- injective: distinct characters stay distinct -/
theorem fullwidth_inj_tab :
    allLt 95 (fun i => allLt 95 fun j =>
      i == j || fullWidthSymbolInput (asciiAt i) != fullWidthSymbolInput (asciiAt j)) = true := by decide +kernel

/-- `special_symbol_input` never answers for a letter, a digit or the space (so in Chinese mode these
    keys reach the phonetic layout / the character branch) -/
theorem special_not_alnum_tab :
    allLt 95 (fun i =>
      let c := asciiAt i
      !((48 ≤ c && c ≤ 57) || (65 ≤ c && c ≤ 90) || (97 ≤ c && c ≤ 122) || c == 32) || (specialSymbolInput c).isNone) = true := by
  decide +kernel

end Chewing
