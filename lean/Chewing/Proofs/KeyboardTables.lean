import Chewing.Model.LayoutKeys
import Chewing.Proofs.Enum
/-!
Finite facts about the generated keyboard tables (kernel-checked against the current source).
-/
namespace Chewing
open Gen

/-- `qwertyKey code` is what `Qwerty.map(code)` returns, for each of the 63 key codes -/
theorem qwertyKey_tbl : (allLt 63 fun code => decide (genericMap qwertyKb code 0 = some (qwertyKey code))) = true := by
  decide +kernel

theorem key_code_names : keyCodeNames[keyCodeBackspace]? = some "Backspace" ∧
    keyCodeNames[keyCodeSpace]? = some "Space" ∧ (genericKeyboards.map (·.1))[0]? = some "qwerty" := by
  decide

/-- ASCII round trip: on each of the keyboards implemented by `generic_map_keycode`, the key event of a
    printable ASCII character carries that character -/
theorem ascii_roundtrip_tbl : (genericKeyboards.all fun kb => allLt 95 fun j =>
    match mapAsciiT kb.2 (32 + j) with
    | some e => e.unicode == 32 + j
    | none => false) = true := by
  decide +kernel

/-- on Qwerty the event is moreover the physical key of that character: position = `KeyCode` = `KeyIndex`,
    and mapping the event's own code and modifiers again gives the same event -/
theorem ascii_qwerty_tbl : (allLt 95 fun j =>
    match mapAsciiT qwertyKb (32 + j) with
    | some e => e.index == e.code && e.code != 0 && decide (genericMap qwertyKb e.code e.mods = some e)
    | none => false) = true := by
  decide +kernel

/-- every keyboard (the seven generic ones and Dvorak-on-Qwerty) produces every key index and every key
    code from some physical key, so a key list for a layout can be typed on each of them -/
theorem kb_surjective_tbl :
    (genericKeyboards.all fun kb => allLt 63 fun x =>
      ((List.range 63).any fun code => match genericMap kb.2 code 0 with
        | some e => e.index == x
        | none => false) &&
      ((List.range 63).any fun code => match genericMap kb.2 code 0 with
        | some e => e.code == x
        | none => false)) = true := by
  decide +kernel

theorem dvorak_on_qwerty_surjective_tbl :
    (allLt 63 fun x =>
      ((List.range 63).any fun code => match mapWithMod "dvorak_on_qwerty" code 0 with
        | some e => e.index == x
        | none => false) &&
      ((List.range 63).any fun code => match mapWithMod "dvorak_on_qwerty" code 0 with
        | some e => e.code == x
        | none => false)) = true := by
  decide +kernel

end Chewing
