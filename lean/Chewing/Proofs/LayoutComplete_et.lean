import Chewing.Model.LayoutKeys
/-! Completeness check of one layout over the generated readings of data/word.src, evaluated by the kernel
    in blocks (a finite quantifier; re-run whenever the tables, the readings or the model change). -/
namespace Chewing
open Gen

theorem complete_et_0 : ((readingBlock 0).all fun r => entersB etL (tableKeysFor etTable r) r) = true := by
  decide +kernel

theorem complete_et_1 : ((readingBlock 1).all fun r => entersB etL (tableKeysFor etTable r) r) = true := by
  decide +kernel

theorem complete_et_2 : ((readingBlock 2).all fun r => entersB etL (tableKeysFor etTable r) r) = true := by
  decide +kernel

theorem complete_et_3 : ((readingBlock 3).all fun r => entersB etL (tableKeysFor etTable r) r) = true := by
  decide +kernel

end Chewing
