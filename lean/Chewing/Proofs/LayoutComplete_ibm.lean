import Chewing.Model.LayoutKeys
/-! Completeness check of one layout over the generated readings of data/word.src, evaluated by the kernel
    in blocks (a finite quantifier; re-run whenever the tables, the readings or the model change). -/
namespace Chewing
open Gen

theorem complete_ibm_0 : ((readingBlock 0).all fun r => entersB ibmL (tableKeysFor ibmTable r) r) = true := by
  decide +kernel

theorem complete_ibm_1 : ((readingBlock 1).all fun r => entersB ibmL (tableKeysFor ibmTable r) r) = true := by
  decide +kernel

theorem complete_ibm_2 : ((readingBlock 2).all fun r => entersB ibmL (tableKeysFor ibmTable r) r) = true := by
  decide +kernel

theorem complete_ibm_3 : ((readingBlock 3).all fun r => entersB ibmL (tableKeysFor ibmTable r) r) = true := by
  decide +kernel

end Chewing
