import Chewing.Model.LayoutKeys
/-! Completeness check of one layout over the generated readings of data/word.src, evaluated by the kernel
    in blocks (a finite quantifier; re-run whenever the tables, the readings or the model change). -/
namespace Chewing
open Gen

theorem complete_standard_0 : ((readingBlock 0).all fun r => entersB standardL (tableKeysFor standardTable r) r) = true := by
  decide +kernel

theorem complete_standard_1 : ((readingBlock 1).all fun r => entersB standardL (tableKeysFor standardTable r) r) = true := by
  decide +kernel

theorem complete_standard_2 : ((readingBlock 2).all fun r => entersB standardL (tableKeysFor standardTable r) r) = true := by
  decide +kernel

theorem complete_standard_3 : ((readingBlock 3).all fun r => entersB standardL (tableKeysFor standardTable r) r) = true := by
  decide +kernel

end Chewing
