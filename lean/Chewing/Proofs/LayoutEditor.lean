import Chewing.Model.Editor
import Chewing.Proofs.LayoutSound
/-!
Stage B of C14: the phonetic layouts *inside the editor*.  `EnteringSyllable::next` hands every key (other
than Backspace / Esc / the Caps-Lock pseudo key) to the layout and inserts a syllable into the pre-edit
buffer in exactly two cases: after `Commit` it inserts `read()` of the layout, after `Fuzzy(s)` it inserts
`s` — and only if the dictionary has a phrase for that one syllable.  Stated over the validated editor
model (`Model/Editor.lean`, parametric in its environment), then instantiated with the layout models.
-/
namespace Chewing
open Gen

/-- the editor model's key event as the layout models see it -/
def toKeyEv (ev : KeyEvent) : KeyEv :=
  { index := ev.index, code := ev.code, unicode := ev.unicode,
    mods := ev.mods.shift.toNat + 2 * ev.mods.ctrl.toNat + 4 * ev.mods.capslock.toNat + 8 * ev.mods.numlock.toNat }

def toLB : Behavior → LayoutBeh
  | .ignore => .ignore
  | .absorb => .absorb
  | .commit => .commit
  | .keyError => .keyError
  | .error => .error
  | .noWord => .noWord
  | .openSymbolTable => .openSymbolTable
  | .fuzzy s => .fuzzy s

/-- a layout-model step as the total function the editor model expects (a panic never happens from a
    composable state: `SoundLayout`) -/
def liftPress (r : PressResult) (c : Nat) : LayoutBeh × Nat :=
  match r with
  | some (b, c') => (toLB b, c')
  | none => (.error, c)

/-- an editor environment whose phonetic layout is the layout model `L` (everything else from `base`) -/
def layoutEnv {D : Type} (L : Layout) (base : Env D Nat) : Env D Nat :=
  { base with
    keyPress := fun c ev => liftPress (L.press c (toKeyEv ev)) c
    fuzzyKeyPress := fun c ev => liftPress (L.fuzzyPress c (toKeyEv ev)) c
    removeLast := removeLast
    clearSyl := fun _ => clearSyl
    sylIsEmpty := isEmptySyl
    read := id
    altSyllables := fun _ s => L.alt s }

section
variable {D L : Type} (env : Env D L)

/-- what a layout answer can do to the pre-edit buffer: nothing, or insert at the cursor the syllable the
    layout handed over (`read()` after `Commit`, the payload of `Fuzzy`), which the dictionary knows -/
def AnswerEffect (sh : Shared D L) (beh : LayoutBeh) (sh' : Shared D L) : Prop :=
  sh'.com.inner = sh.com.inner ∨
  ∃ s com1, ((beh = .commit ∧ s = env.read sh.syl) ∨ beh = .fuzzy s) ∧
    env.hasPhrase sh.dict [s] sh.options.lookupStrategy = true ∧
    sh.com.insert (.syl s) = .ok com1 ∧ sh'.com.inner = com1.inner

theorem syllableAnswer_effect (sh : Shared D L) (beh : LayoutBeh) (sh' : Shared D L) (t : Trans)
    (h : syllableAnswer env sh beh = .ok (sh', t)) : AnswerEffect env sh beh sh' := by
  unfold syllableAnswer at h
  cases beh with
  | absorb =>
    simp only at h
    split at h <;> (injection h with h; injection h with h1 h2; subst h1; exact Or.inl rfl)
  | fuzzy s =>
    simp only at h
    split at h
    · rename_i hp
      unfold withCom at h
      split at h
      · rename_i c hc
        injection h with h; injection h with h1 h2; subst h1
        exact Or.inr ⟨s, c, Or.inr rfl, hp, hc, rfl⟩
      · cases h
      · cases h
    · injection h with h; injection h with h1 h2; subst h1; exact Or.inl rfl
  | commit =>
    simp only at h
    split at h
    · rename_i hp
      unfold withCom at h
      split at h
      · rename_i c hc
        simp only at h
        split at h
        · unfold newPhraseSimple at h
          simp only at h
          split at h
          · injection h with h; injection h with h1 h2; subst h1
            exact Or.inr ⟨_, c, Or.inl ⟨rfl, rfl⟩, hp, hc, rfl⟩
          · cases h
          · cases h
        · injection h with h; injection h with h1 h2; subst h1
          exact Or.inr ⟨_, c, Or.inl ⟨rfl, rfl⟩, hp, hc, rfl⟩
      · cases h
      · cases h
    · injection h with h; injection h with h1 h2; subst h1; exact Or.inl rfl
  | ignore => simp only at h; injection h with h; injection h with h1 h2; subst h1; exact Or.inl rfl
  | keyError => simp only at h; injection h with h; injection h with h1 h2; subst h1; exact Or.inl rfl
  | error => simp only at h; injection h with h; injection h with h1 h2; subst h1; exact Or.inl rfl
  | noWord => simp only at h; injection h with h; injection h with h1 h2; subst h1; exact Or.inl rfl
  | openSymbolTable => simp only at h; injection h with h; injection h with h1 h2; subst h1; exact Or.inl rfl

/-- … and to the layout state: kept, or cleared -/
def SylAfter (sh sh' : Shared D L) : Prop :=
  sh'.syl = sh.syl ∨ sh'.syl = env.clearSyl sh.syl ∨ sh'.syl = env.clearSyl (env.clearSyl sh.syl)

theorem syllableAnswer_syl (sh : Shared D L) (beh : LayoutBeh) (sh' : Shared D L) (t : Trans)
    (h : syllableAnswer env sh beh = .ok (sh', t)) : SylAfter env sh sh' := by
  unfold syllableAnswer at h
  cases beh with
  | absorb =>
    simp only at h
    split at h <;> (injection h with h; injection h with h1 h2; subst h1; exact Or.inl rfl)
  | fuzzy s =>
    simp only at h
    split at h
    · unfold withCom at h
      split at h
      · injection h with h; injection h with h1 h2; subst h1
        exact Or.inl rfl
      · cases h
      · cases h
    · injection h with h; injection h with h1 h2; subst h1; exact Or.inl rfl
  | commit =>
    simp only at h
    split at h
    · unfold withCom at h
      split at h
      · simp only at h
        split at h
        · unfold newPhraseSimple at h
          simp only at h
          split at h
          · injection h with h; injection h with h1 h2; subst h1
            exact Or.inr (Or.inr rfl)
          · cases h
          · cases h
        · injection h with h; injection h with h1 h2; subst h1
          exact Or.inr (Or.inl rfl)
      · cases h
      · cases h
    · injection h with h; injection h with h1 h2; subst h1; exact Or.inr (Or.inl rfl)
  | ignore => simp only at h; injection h with h; injection h with h1 h2; subst h1; exact Or.inl rfl
  | keyError => simp only at h; injection h with h; injection h with h1 h2; subst h1; exact Or.inl rfl
  | error => simp only at h; injection h with h; injection h with h1 h2; subst h1; exact Or.inl rfl
  | noWord => simp only at h; injection h with h; injection h with h1 h2; subst h1; exact Or.inl rfl
  | openSymbolTable => simp only at h; injection h with h; injection h with h1 h2; subst h1; exact Or.inl rfl

end

/-! ### instantiated with a layout model -/

/-- the layout step `r` handed the syllable `s` over to the editor -/
def HandedOver (r : PressResult) (s : Nat) : Prop :=
  r = some (.commit, s) ∨ ∃ c', r = some (.fuzzy s, c')

/-- the effect of one key of `EnteringSyllable` on the pre-edit buffer -/
def KeyEffect (sh sh' : Shared D Nat) (r : PressResult) : Prop :=
  sh'.com.inner = sh.com.inner ∨
  ∃ s com1, Comp s ∧ s ≠ emptyPattern ∧ HandedOver r s ∧
    sh.com.insert (.syl s) = .ok com1 ∧ sh'.com.inner = com1.inner

theorem toLB_commit {b : Behavior} (h : toLB b = .commit) : b = .commit := by
  cases b <;> first | rfl | cases h

theorem toLB_fuzzy {b : Behavior} {s : Nat} (h : toLB b = .fuzzy s) : b = .fuzzy s := by
  cases b <;> first | (cases h; rfl) | cases h

theorem layoutKey_sound {D : Type} (L : Layout) (base : Env D Nat) (sh : Shared D Nat) (r : PressResult)
    (hr : StepOk r)
    (hne : (layoutEnv L base).hasPhrase sh.dict [emptyPattern] sh.options.lookupStrategy = false)
    (sh' : Shared D Nat) (t : Trans)
    (h : syllableAnswer (layoutEnv L base) { sh with syl := (liftPress r sh.syl).2 } (liftPress r sh.syl).1
          = .ok (sh', t)) :
    Comp sh'.syl ∧ KeyEffect sh sh' r := by
  obtain ⟨b, c', rfl, hc', hf⟩ := hr
  have hl : liftPress (some (b, c')) sh.syl = (toLB b, c') := rfl
  rw [hl] at h
  simp only at h
  constructor
  · rcases syllableAnswer_syl _ _ _ _ _ h with e | e | e
    · rw [e]; exact hc'
    · rw [e]; exact comp_clear
    · rw [e]; exact comp_clear
  · rcases syllableAnswer_effect _ _ _ _ _ h with e | ⟨s, com1, hs, hp, hins, hcom⟩
    · exact Or.inl e
    · have hsne : s ≠ emptyPattern := by
        intro e
        rw [e] at hp
        simp only at hp
        rw [hne] at hp
        cases hp
      refine Or.inr ⟨s, com1, ?_, hsne, ?_, hins, hcom⟩
      · rcases hs with ⟨_, hs⟩ | hs
        · have : s = c' := hs
          rw [this]; exact hc'
        · exact (hf s (toLB_fuzzy hs)).1
      · rcases hs with ⟨hb, hs⟩ | hs
        · have : s = c' := hs
          rw [this, toLB_commit hb]; exact Or.inl rfl
        · rw [toLB_fuzzy hs]; exact Or.inr ⟨c', rfl⟩

/-- the layout step the editor performs for a key under the given lookup strategy -/
def layoutStepFor (L : Layout) (strat : Strategy) (c : Nat) (k : KeyEv) : PressResult :=
  match strat with
  | .fuzzyPartialPrefix => L.fuzzyPress c k
  | .standard => L.press c k

/-- One key in state `EnteringSyllable`, on an editor whose layout is the sound layout model `L`, from a
    well-formed layout state, with a dictionary that has no phrase for the empty syllable: the layout state
    stays well-formed, and the pre-edit buffer is unchanged, cleared (Esc), or receives exactly the syllable the
    layout handed over (`read()` after `Commit`, or the `Fuzzy` payload) — well-formed and non-empty. -/
theorem enteringSyllable_sound {D : Type} {L : Layout} (hL : SoundLayout L) (base : Env D Nat) (sh : Shared D Nat)
    (ev : KeyEvent) (hc : Comp sh.syl)
    (hne : (layoutEnv L base).hasPhrase sh.dict [emptyPattern] sh.options.lookupStrategy = false)
    (sh' : Shared D Nat) (t : Trans) (h : enteringSyllableNext (layoutEnv L base) sh ev = .ok (sh', t)) :
    Comp sh'.syl ∧
    (sh'.com = sh.com.clear ∨
      KeyEffect sh sh' (layoutStepFor L sh.options.lookupStrategy sh.syl (toKeyEv ev))) := by
  unfold enteringSyllableNext at h
  split at h
  · split at h <;>
      (injection h with h; injection h with h1 h2; subst h1
       exact ⟨comp_removeLast hc, Or.inr (Or.inl rfl)⟩)
  · split at h
    · injection h with h; injection h with h1 h2; subst h1
      exact ⟨comp_clear, Or.inr (Or.inl rfl)⟩
    · split at h
      · split at h
        · injection h with h; injection h with h1 h2; subst h1
          exact ⟨comp_clear, Or.inl rfl⟩
        · injection h with h; injection h with h1 h2; subst h1
          exact ⟨comp_clear, Or.inr (Or.inl rfl)⟩
      · split at h
        · rename_i hs
          have := layoutKey_sound L base sh (L.fuzzyPress sh.syl (toKeyEv ev)) (fuzzyPress_ok hL hc _) hne sh' t h
          refine ⟨this.1, Or.inr ?_⟩
          rw [hs]; exact this.2
        · rename_i hs
          have := layoutKey_sound L base sh (L.press sh.syl (toKeyEv ev)) (hL _ _ hc).stepOk hne sh' t h
          refine ⟨this.1, Or.inr ?_⟩
          rw [hs]; exact this.2

end Chewing
