import Chewing.Proofs.LayoutSound
/-!
Soundness of the Pinyin layout: whatever `key_press` leaves in `syllable` / `syllable_alt` is composable
(if the call returns at all; `none` models the `unwrap()` panics of the builder, see Props/C14.lean).
-/
namespace Chewing
open Gen

/-- a syllable built through the order-checking builder from symbols other than `ˉ` is composable -/
theorem insertAll_comp (syms : List Nat) : ∀ {bld b' : Builder} {i m r t : Nat}, AbsOk bld i m r t →
    Tup 5 i m r t → bld.insertAll syms = .ok b' → (∀ s ∈ syms, s < 41) → Comp b'.value := by
  induction syms with
  | nil =>
    intro bld b' i m r t ha h5 h _
    simp [Builder.insertAll] at h
    subst h
    exact ⟨i, m, r, t, h5, ha.val⟩
  | cons s ss ih =>
    intro bld b' i m r t ha h5 h hlt
    have hs : s < 41 := hlt s (by simp)
    unfold Builder.insertAll at h
    by_cases hst : bld.step ≤ kindOf s
    · obtain ⟨bld', hins, -, -, ha'⟩ := insert_abs_ok ha (by omega) hst
      simp only [hins] at h
      exact ih ha' (tupleSyms_set h5 ha.good hs hst).2 h (fun x hx => hlt x (by simp [hx]))
    · obtain ⟨e, hins⟩ := insert_abs_err ha (b := s) (by omega) (by omega)
      simp [hins] at h

theorem sylOf_comp {syms : List Nat} {c : Nat} (h : sylOf syms = some c) (hlt : ∀ s ∈ syms, s < 41) : Comp c := by
  unfold sylOf at h
  split at h
  · rename_i b hb
    cases h
    exact insertAll_comp syms absOk_new (by unfold Tup; omega) hb hlt
  · cases h

/-- every symbol in the Pinyin tables is one of the 41 symbols other than `ˉ` -/
theorem pinyin_syms :
    ([pinyinCommon, pinyinHanyu, pinyinThl, pinyinMps2].all fun tbl => tbl.all fun row =>
      (row.2.1.all fun s => decide (s < 41)) && (row.2.2.all fun s => decide (s < 41))) = true ∧
    (pinyinInitials.all fun row => decide (row.2 < 41)) = true ∧
    (pinyinFinals.all fun row => (row.2.1.all fun s => decide (s < 41)) && (row.2.2.all fun s => decide (s < 41))) = true := by
  decide

def PinyinInv (st : PinyinState) : Prop := Comp st.syl ∧ Comp st.alt

theorem pinyinInv_init : PinyinInv PinyinState.init := ⟨comp_empty, comp_empty⟩

theorem variantTable_mem (v : Nat) : variantTable v ∈ [pinyinCommon, pinyinHanyu, pinyinThl, pinyinMps2] := by
  unfold variantTable
  split <;> simp

theorem pinyinAmb_inv {tbl : List (List Nat × List Nat × List Nat)}
    (htbl : tbl ∈ [pinyinCommon, pinyinHanyu, pinyinThl, pinyinMps2]) {row : List Nat × List Nat × List Nat}
    (hrow : row ∈ tbl) {tone : Option Nat} (ht : ∀ t, tone = some t → t < 41) {b : Behavior} {st' : PinyinState}
    (h : pinyinAmb row tone = some (b, st')) : PinyinInv st' := by
  have hr := List.all_eq_true.mp (List.all_eq_true.mp pinyin_syms.1 tbl htbl) row hrow
  simp only [Bool.and_eq_true, List.all_eq_true, decide_eq_true_eq] at hr
  unfold pinyinAmb at h
  split at h
  · rename_i p a hp ha
    have cp := sylOf_comp hp hr.1
    have ca := sylOf_comp ha hr.2
    split at h
    · cases h; exact ⟨cp, ca⟩
    · rename_i t
      obtain ⟨p', hp', cp', _⟩ := comp_update cp (ht t rfl)
      obtain ⟨a', ha', ca', _⟩ := comp_update ca (ht t rfl)
      rw [hp', ha'] at h
      cases h; exact ⟨cp', ca'⟩
  · cases h

theorem opt_lt_of_find {α : Type} {l : List α} {p : α → Bool} {f : α → Option Nat} (hall : ∀ x ∈ l, ∀ s, f x = some s → s < 41)
    {s : Nat} (h : (l.find? p).bind f = some s) : s < 41 := by
  cases hf : l.find? p with
  | none => simp [hf] at h
  | some x =>
    simp [hf] at h
    exact hall x (List.mem_of_find?_eq_some hf) s h

theorem pinyinBuild_inv {v : Nat} {ini0 med0 rim0 tone : Option Nat} {b : Behavior} {st' : PinyinState}
    (hi : ∀ s, ini0 = some s → s < 41) (hfm : ∀ s, med0 = some s → s < 41) (hfr : ∀ s, rim0 = some s → s < 41)
    (htone : ∀ s, tone = some s → s < 41) (h : pinyinBuild v ini0 med0 rim0 tone = some (b, st')) :
    PinyinInv st' := by
  unfold pinyinBuild at h
  dsimp only at h
  have h1 : ∀ s, (hanyuEmptyRime v ini0 med0 rim0).1 = some s → s < 41 := by
    intro s; unfold hanyuEmptyRime; split
    · intro hs; cases hs
    · exact hfm s
  have h2 : ∀ s, (hanyuEmptyRime v ini0 med0 rim0).2 = some s → s < 41 := by
    intro s; unfold hanyuEmptyRime; split
    · intro hs; cases hs
    · exact hfr s
  generalize (hanyuEmptyRime v ini0 med0 rim0) = mr at h h1 h2
  have h3 : ∀ s, hanyuJqxU v ini0 mr.1 mr.2 = some s → s < 41 := by
    intro s; unfold hanyuJqxU; split
    · intro hs; cases hs; decide
    · exact h1 s
  generalize hanyuJqxU v ini0 mr.1 mr.2 = med2 at h h3
  have h4 : ∀ s, thlInitial v ini0 med2 = some s → s < 41 := by
    intro s; unfold thlInitial
    repeat' split
    all_goals first
      | exact hi s
      | (intro hs; cases hs; decide)
  generalize thlInitial v ini0 med2 = ini at h h4
  have h5 : ∀ s, thlSupplemental v ini med2 mr.2 = some s → s < 41 := by
    intro s; unfold thlSupplemental; split
    · intro hs; cases hs
    · exact h3 s
  generalize thlSupplemental v ini med2 mr.2 = med at h h5
  split at h
  · rename_i bld hb
    cases h
    have : Comp bld.value := by
      refine insertAll_comp _ absOk_new (by unfold Tup; omega) hb ?_
      intro s hs
      simp only [List.mem_append, Option.mem_toList] at hs
      rcases hs with ((hs | hs) | hs) | hs
      · exact h4 s hs
      · exact h5 s hs
      · exact h2 s hs
      · exact htone s hs
    exact ⟨this, this⟩
  · cases h

theorem pinyinFinals_syms (fs : List Nat) :
    (∀ s, (pinyinFinals.find? (fun e => e.1 == fs)).bind (·.2.1) = some s → s < 41) ∧
    (∀ s, (pinyinFinals.find? (fun e => e.1 == fs)).bind (·.2.2) = some s → s < 41) := by
  cases hf : pinyinFinals.find? (fun e => e.1 == fs) with
  | none => simp
  | some e =>
    have := List.all_eq_true.mp pinyin_syms.2.2 e (List.mem_of_find?_eq_some hf)
    simp only [Bool.and_eq_true] at this
    constructor
    · intro s hs
      simp only [Option.bind_some] at hs
      have h1 := this.1
      rw [hs] at h1
      simpa using h1
    · intro s hs
      simp only [Option.bind_some] at hs
      have h1 := this.2
      rw [hs] at h1
      simpa using h1

theorem pinyinSplit_syms (ks : List Nat) :
    (∀ s, (pinyinSplit ks).1.map (·.2) = some s → s < 41) ∧
    (∀ s, (pinyinSplit ks).2.bind (·.2.1) = some s → s < 41) ∧
    (∀ s, (pinyinSplit ks).2.bind (·.2.2) = some s → s < 41) := by
  unfold pinyinSplit
  dsimp only
  refine ⟨?_, (pinyinFinals_syms _).1, (pinyinFinals_syms _).2⟩
  intro s hs
  cases hf : pinyinInitials.find? (fun e => e.1.isPrefixOf ks) with
  | none => simp [hf] at hs
  | some e =>
    simp [hf] at hs
    have := List.all_eq_true.mp pinyin_syms.2.1 e (List.mem_of_find?_eq_some hf)
    simp only [decide_eq_true_eq] at this
    omega

theorem pinyinTone_lt (code : Nat) : ∀ t, (pinyinToneKeys.find? (·.1 == code)).map (·.2) = some t → t < 41 := by
  intro t ht
  cases hf : pinyinToneKeys.find? (·.1 == code) with
  | none => simp [hf] at ht
  | some row =>
    simp [hf] at ht
    have := List.all_eq_true.mp (List.all_eq_true.mp tonekeys_syms pinyinToneKeys (by simp)) row
      (List.mem_of_find?_eq_some hf)
    simp only [decide_eq_true_eq] at this
    omega

theorem pinyinCommit_inv {v : Nat} {st st' : PinyinState} {code : Nat} {b : Behavior} (hst : PinyinInv st)
    (h : pinyinCommit v st code = some (b, st')) : PinyinInv st' := by
  have htone := pinyinTone_lt code
  unfold pinyinCommit at h
  simp only at h
  split at h
  · rename_i row hf
    exact pinyinAmb_inv (variantTable_mem v) (List.mem_of_find?_eq_some hf) htone h
  · split at h
    · rename_i row hf
      exact pinyinAmb_inv (by simp) (List.mem_of_find?_eq_some hf) htone h
    · split at h
      · cases h; exact hst
      · obtain ⟨hi, hfm, hfr⟩ := pinyinSplit_syms st.keySeq
        exact pinyinBuild_inv hi hfm hfr htone h

/-- `Pinyin::key_press` keeps both syllables composable and never returns `Fuzzy` -/
theorem pinyinPress_inv {v : Nat} {st st' : PinyinState} {k : KeyEv} {b : Behavior} (hst : PinyinInv st)
    (h : pinyinPress v st k = some (b, st')) : PinyinInv st' := by
  unfold pinyinPress at h
  split at h
  · cases h; exact hst
  · split at h
    · split at h
      · cases h; exact hst
      · split at h
        · cases h; exact hst
        · cases h; exact hst
    · exact pinyinCommit_inv hst h

end Chewing
