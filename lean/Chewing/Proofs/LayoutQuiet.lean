import Chewing.Proofs.LayoutEditor
import Chewing.Proofs.EditorBell
/-!
The premise of C06's `bell_keeps_phonetic` (`LayoutQuietAt`: the phonetic layout does not change state on a key it
rejects), proved of the seven one-syllable layout MODELS (`Model/Layout.lean`: Standard, ET, IBM, Gin-Yieh, Hsu,
ET26, DaChen CP26; C14 ties them to the Rust layouts):

* a key answered with anything but absorb / commit / fuzzy (key error, no word, …) returns the state it was given —
  `press` and the trait's default `fuzzy_key_press` alike;
* from the EMPTY buffer a key that is not absorbed returns the empty buffer (no layout commits from nothing).

Pinyin keeps a key sequence besides the syllable and has its own model; it is not covered here.
-/
namespace Chewing
open Gen

/-- the answers after which `EnteringSyllable` bells -/
def Behavior.isRejected : Behavior → Bool
  | .absorb => false
  | .commit => false
  | .fuzzy _ => false
  | _ => true

/-- a press function that leaves its state alone when it rejects the key -/
def PressQuiet (press : Nat → KeyEv → PressResult) : Prop :=
  ∀ c k b c', press c k = some (b, c') →
    (b.isRejected = true → c' = c) ∧ (isEmptySyl c = true → b ≠ .absorb → c' = c)

/-- every successful result of `r` carries the behaviour `b0` -/
def BehIs (b0 : Behavior) (r : PressResult) : Prop := ∀ b c', r = some (b, c') → b = b0

theorem behIs_map (b0 : Behavior) (o : Option Nat) : BehIs b0 (o.map fun c' => (b0, c')) := by
  intro b c' h
  cases o with
  | none => cases h
  | some x => simp only [Option.map_some, Option.some.injEq, Prod.mk.injEq] at h; exact h.1.symm

theorem behIs_bind {b0 : Behavior} (o : Option Nat) (f : Nat → PressResult) (hf : ∀ x, BehIs b0 (f x)) :
    BehIs b0 (o.bind f) := by
  intro b c' h
  cases o with
  | none => cases h
  | some x => exact hf x b c' h

theorem behIs_ite {b0 : Behavior} {p : Prop} [Decidable p] {a b : PressResult} (ha : BehIs b0 a) (hb : BehIs b0 b) :
    BehIs b0 (if p then a else b) := by
  split <;> assumption

/-- closes the quiet goal for a result that can only be *absorb* -/
theorem quiet_of_absorb {c : Nat} {r : PressResult} (hr : BehIs .absorb r) {b : Behavior} {c' : Nat}
    (h : r = some (b, c')) :
    (b.isRejected = true → c' = c) ∧ (isEmptySyl c = true → b ≠ .absorb → c' = c) := by
  have := hr b c' h; subst this
  exact ⟨(fun x => by cases x), (fun _ x => absurd rfl x)⟩

/-- … that can only be *commit*, from a non-empty buffer -/
theorem quiet_of_commit {c : Nat} {r : PressResult} (hr : BehIs .commit r) (hne : isEmptySyl c = false)
    {b : Behavior} {c' : Nat} (h : r = some (b, c')) :
    (b.isRejected = true → c' = c) ∧ (isEmptySyl c = true → b ≠ .absorb → c' = c) := by
  have := hr b c' h; subst this
  exact ⟨(fun x => by cases x), (fun he _ => by rw [hne] at he; cases he)⟩

/-- … and for a literal rejection with the state handed back -/
theorem quiet_of_same {c : Nat} {b0 b : Behavior} {c' : Nat} (h : some (b0, c) = some (b, c')) :
    (b.isRejected = true → c' = c) ∧ (isEmptySyl c = true → b ≠ .absorb → c' = c) := by
  cases h; exact ⟨fun _ => rfl, fun _ _ => rfl⟩

theorem kind_tone1 : kindOf Sym.TONE1 = 3 := by decide

theorem tablePress_quiet (tbl : List (Nat × Nat)) : PressQuiet (tablePress tbl) := by
  intro c k b c' h
  unfold tablePress at h
  split at h
  · exact quiet_of_same h
  · rename_i b0 _
    split at h
    · split at h
      · rename_i hne
        have hne' : isEmptySyl c = false := by simpa using hne
        split at h
        · exact quiet_of_commit (behIs_map _ _) hne' h
        · exact quiet_of_same h
      · split at h
        · exact quiet_of_same h
        · exact quiet_of_absorb (behIs_map _ _) h
    · rename_i hk
      dsimp only at h
      split at h
      · rename_i ht
        have : b0 = Sym.TONE1 := by simpa using ht
        subst this
        exact absurd (by rw [kind_tone1]; rfl) hk
      · exact quiet_of_absorb (behIs_map _ _) h

theorem hsuPress_quiet : PressQuiet hsuPress := by
  intro c k b c' h
  unfold hsuPress at h
  split at h
  · rename_i hc
    have hne : isEmptySyl c = false := by
      simp only [Bool.and_eq_true, Bool.not_eq_true'] at hc; exact hc.2
    exact quiet_of_commit (behIs_bind _ _ fun _ => behIs_bind _ _ fun _ => behIs_map _ _) hne h
  · split at h
    · exact quiet_of_same h
    · dsimp only at h
      exact quiet_of_absorb
        (behIs_bind _ _ fun _ => behIs_bind _ _ fun _ => behIs_bind _ _ fun _ => behIs_map _ _) h

theorem et26Press_quiet : PressQuiet et26Press := by
  intro c k b c' h
  unfold et26Press at h
  split at h
  · rename_i hc
    have hne : isEmptySyl c = false := by
      simp only [Bool.and_eq_true, Bool.not_eq_true'] at hc; exact hc.2
    exact quiet_of_commit (behIs_bind _ _ fun _ => behIs_map _ _) hne h
  · split at h
    · exact quiet_of_same h
    · dsimp only at h
      exact quiet_of_absorb (behIs_bind _ _ fun _ => behIs_map _ _) h

theorem dc26K21_absorb (c : Nat) (res : PressResult) (h : dc26K21 c = some res) : BehIs .absorb res := by
  unfold dc26K21 at h
  dsimp only at h
  repeat' split at h
  all_goals first
    | (cases h; done)
    | (cases h; first | exact behIs_map _ _ | (intro b c' e; cases e; rfl))

theorem dc26K44_absorb (c : Nat) (res : PressResult) (h : dc26K44 c = some res) : BehIs .absorb res := by
  unfold dc26K44 at h
  dsimp only at h
  repeat' split at h
  all_goals first
    | (cases h; done)
    | (cases h; first
        | exact behIs_map _ _
        | (intro b c' e
           simp only [Option.map_eq_some_iff, Prod.mk.injEq] at e
           obtain ⟨_, _, e1, _⟩ := e; exact e1.symm))

theorem dc26Press_quiet : PressQuiet dc26Press := by
  intro c k b c' h
  unfold dc26Press at h
  split at h
  · rename_i hc
    have hne : isEmptySyl c = false := by
      simp only [Bool.and_eq_true, Bool.not_eq_true'] at hc; exact hc.2
    exact quiet_of_commit (behIs_map _ _) hne h
  · split at h
    · exact quiet_of_same h
    · split at h
      · split at h
        · rename_i res hres
          split at hres
          · exact quiet_of_absorb (dc26K21_absorb c res hres) h
          · exact quiet_of_absorb (dc26K44_absorb c res hres) h
        · exact quiet_of_absorb (behIs_map _ _) h
      · exact quiet_of_absorb (behIs_map _ _) h

/-- the seven layout models -/
def QuietLayout (L : Layout) : Prop := PressQuiet L.press

theorem standardL_quiet : QuietLayout standardL := tablePress_quiet _
theorem etL_quiet : QuietLayout etL := tablePress_quiet _
theorem ibmL_quiet : QuietLayout ibmL := tablePress_quiet _
theorem ginyiehL_quiet : QuietLayout ginyiehL := tablePress_quiet _
theorem hsuL_quiet : QuietLayout hsuL := hsuPress_quiet
theorem et26L_quiet : QuietLayout et26L := et26Press_quiet
theorem dc26L_quiet : QuietLayout dc26L := dc26Press_quiet

theorem layoutByName_quiet {n : String} {L : Layout} (h : layoutByName n = some L) : QuietLayout L := by
  unfold layoutByName at h
  split at h <;> first
    | (cases h; done)
    | (cases h
       first
         | exact standardL_quiet | exact etL_quiet | exact ibmL_quiet | exact ginyiehL_quiet
         | exact hsuL_quiet | exact et26L_quiet | exact dc26L_quiet)

/-- the trait's default `fuzzy_key_press` is quiet on a rejected key too -/
theorem fuzzyPress_quiet {L : Layout} (hL : QuietLayout L) (c : Nat) (k : KeyEv) (b : Behavior) (c' : Nat)
    (h : L.fuzzyPress c k = some (b, c')) (hr : b.isRejected = true) : c' = c := by
  unfold Layout.fuzzyPress at h
  split at h
  · exact (hL c k b c' h).1 hr
  · split at h
    · cases h
    · split at h
      · simp only [Option.map_eq_some_iff, Prod.mk.injEq] at h
        obtain ⟨_, _, e1, _⟩ := h
        subst e1; cases hr
      · exact (hL c k b c' h).1 hr

end Chewing
