import Chewing.Proofs.LayoutTables
import Chewing.Proofs.SyllableParse
/-!
Soundness of the single-syllable layouts: the state stays a composable syllable under every operation.

`Comp c` = `c` is the code of a tuple `(i, m, r, t)` in range (what C13 calls composable).  `update` with
any symbol other than the first-tone mark, every `remove_*` and `pop` preserve it (from C13's
`update_encode` / `remove_tbl`), and each layout's `key_press` is a composition of those.
-/
namespace Chewing
open Gen

def Comp (c : Nat) : Prop := ∃ i m r t, Tup 5 i m r t ∧ c = encode i m r t

theorem comp_empty : Comp emptyPattern := ⟨0, 0, 0, 0, by unfold Tup; omega, by decide⟩

theorem comp_clear : Comp clearSyl := comp_empty

theorem comp_lt {c : Nat} (h : Comp c) : 0 < c ∧ c < 65536 := by
  obtain ⟨i, m, r, t, ht, rfl⟩ := h
  exact ⟨encode_pos, encode_lt (tup5_to6 ht)⟩

/-- `update` with one of the 41 symbols other than `ˉ` never panics, keeps the syllable composable and
    leaves it non-empty -/
theorem comp_update {c b : Nat} (h : Comp c) (hb : b < 41) :
    ∃ c', update c b = some c' ∧ Comp c' ∧ c' ≠ emptyPattern := by
  obtain ⟨i, m, r, t, ht, rfl⟩ := h
  refine ⟨_, update_encode (tup5_to6 ht) (by omega), ?_⟩
  have hs := allLt_spec sym_tbl b (by omega)
  simp only [decide_eq_true_eq] at hs
  obtain ⟨h1, h2, h3, h4⟩ := ht
  rcases hs with ⟨hk, hi1, hi2, -, -⟩ | ⟨hk, hi1, hi2, -, -⟩ | ⟨hk, hi1, hi2, -, -⟩ | ⟨hk, hi1, hi2, -, hi3⟩
  · simp only [hk, setAt, enc4]
    refine ⟨⟨_, _, _, _, ⟨by omega, h2, h3, h4⟩, rfl⟩, ?_⟩
    rw [encode_nz (Or.inl (by omega))]; show _ ≠ 32768; omega
  · simp only [hk, setAt, enc4]
    refine ⟨⟨_, _, _, _, ⟨h1, by omega, h3, h4⟩, rfl⟩, ?_⟩
    rw [encode_nz (Or.inr (Or.inl (by omega)))]; show _ ≠ 32768; omega
  · simp only [hk, setAt, enc4]
    refine ⟨⟨_, _, _, _, ⟨h1, h2, by omega, h4⟩, rfl⟩, ?_⟩
    rw [encode_nz (Or.inr (Or.inr (Or.inl (by omega))))]; show _ ≠ 32768; omega
  · have := hi3 (by omega)
    simp only [hk, setAt, enc4]
    refine ⟨⟨_, _, _, _, ⟨h1, h2, h3, by omega⟩, rfl⟩, ?_⟩
    rw [encode_nz (Or.inr (Or.inr (Or.inr (by omega))))]; show _ ≠ 32768; omega

theorem comp_removeKind {c k : Nat} (h : Comp c) (hk : k < 4) : Comp (removeKind k c) := by
  obtain ⟨i, m, r, t, ht, rfl⟩ := h
  have := allLt_spec (allT_spec remove_tbl ht.1 ht.2.1 ht.2.2.1 ht.2.2.2) k hk
  simp only [decide_eq_true_eq] at this
  rw [this]
  obtain ⟨h1, h2, h3, h4⟩ := ht
  match k, hk with
  | 0, _ => exact ⟨0, m, r, t, ⟨by omega, h2, h3, h4⟩, rfl⟩
  | 1, _ => exact ⟨i, 0, r, t, ⟨h1, by omega, h3, h4⟩, rfl⟩
  | 2, _ => exact ⟨i, m, 0, t, ⟨h1, h2, by omega, h4⟩, rfl⟩
  | 3, _ => exact ⟨i, m, r, 0, ⟨h1, h2, h3, by omega⟩, rfl⟩

theorem comp_removeInitial {c : Nat} (h : Comp c) : Comp (removeInitial c) := comp_removeKind (k := 0) h (by omega)
theorem comp_removeMedial {c : Nat} (h : Comp c) : Comp (removeMedial c) := comp_removeKind (k := 1) h (by omega)
theorem comp_removeRime {c : Nat} (h : Comp c) : Comp (removeRime c) := comp_removeKind (k := 2) h (by omega)
theorem comp_removeTone {c : Nat} (h : Comp c) : Comp (removeTone c) := comp_removeKind (k := 3) h (by omega)

theorem comp_removeLast {c : Nat} (h : Comp c) : Comp (removeLast c) := by
  unfold removeLast pop
  split
  · rename_i k hk
    have := List.all_eq_true.mp popOrder_lt k (List.mem_of_find?_eq_some hk)
    exact comp_removeKind h (by simpa using this)
  · exact h

/-- a composable syllable with a present component is not the empty syllable -/
theorem comp_has_ne {c : Nat} (h : Comp c) (hh : hasInitial c = true ∨ hasMedial c = true ∨ hasRime c = true) :
    c ≠ emptyPattern := by
  rintro rfl
  revert hh
  decide

/-! ### steps `Nat → Option Nat` that preserve composability -/

def Pres (f : Nat → Option Nat) : Prop := ∀ c, Comp c → ∃ c', f c = some c' ∧ Comp c'

theorem pres_update {b : Nat} (hb : b < 41) : Pres (fun c => update c b) := fun _ hc =>
  let ⟨c', h, hc', _⟩ := comp_update hc hb
  ⟨c', h, hc'⟩

theorem pres_endRewrite {rw : List (Nat × Nat × Nat)}
    (hrw : rw.all (fun row => decide (row.2.2 < 41)) = true) : Pres (endRewrite rw) := by
  intro c hc
  unfold endRewrite
  split
  · split
    · exact ⟨c, rfl, hc⟩
    · split
      · exact ⟨c, rfl, hc⟩
      · rename_i i _ a rm b hf
        have hb := List.all_eq_true.mp hrw _ (List.mem_of_find?_eq_some hf)
        simp only [decide_eq_true_eq] at hb
        split
        · exact pres_update hb _ (comp_removeInitial hc)
        · exact pres_update hb _ hc
  · exact ⟨c, rfl, hc⟩

theorem pres_toneStep {tk : List (Nat × Nat)}
    (htk : tk.all (fun row => decide (row.2 < 41 ∧ kindOf row.2 = 3)) = true) (key : Nat) :
    Pres (fun c => toneStep tk c key) := by
  intro c hc
  unfold toneStep
  split
  · rename_i a t hf
    have hb := List.all_eq_true.mp htk _ (List.mem_of_find?_eq_some hf)
    simp only [decide_eq_true_eq] at hb
    exact pres_update hb.1 _ hc
  · exact ⟨_, rfl, comp_removeTone hc⟩

theorem pres_swapInitial {pairs : List (Nat × Nat)}
    (hp : pairs.all (fun row => decide (row.2 < 41)) = true) : Pres (swapInitial pairs) := by
  intro c hc
  unfold swapInitial
  split
  · exact ⟨c, rfl, hc⟩
  · split
    · exact ⟨c, rfl, hc⟩
    · rename_i i _ a b hf
      have hb := List.all_eq_true.mp hp _ (List.mem_of_find?_eq_some hf)
      simp only [decide_eq_true_eq] at hb
      exact pres_update hb _ hc

theorem pres_hsuGtoJ : Pres hsuGtoJ := by
  intro c hc
  unfold hsuGtoJ
  split
  · exact pres_update (by decide) _ hc
  · exact ⟨c, rfl, hc⟩

theorem pres_ite {p : Prop} [Decidable p] {f g : Nat → Option Nat} (hf : Pres f) (hg : Pres g) (c : Nat)
    (hc : Comp c) : ∃ c', (if p then f c else g c) = some c' ∧ Comp c' := by
  split
  · exact hf c hc
  · exact hg c hc

theorem pres_some : Pres some := fun c hc => ⟨c, rfl, hc⟩

theorem condSym_lt {c cond a b : Nat} (ha : a < 41) (hb : b < 41) : condSym c cond a b < 41 := by
  unfold condSym defaultOrAlt
  repeat' split
  all_goals assumption

theorem keyRow_lt {tbl : List (Nat × Nat × Nat × Nat)}
    (ht : tbl.all (fun row => decide (row.2.2.1 < 41 ∧ row.2.2.2 < 41)) = true) {key cond a b : Nat}
    (h : keyRow tbl key = some (cond, a, b)) : a < 41 ∧ b < 41 := by
  unfold keyRow at h
  cases hf : tbl.find? (·.1 == key) with
  | none => simp [hf] at h
  | some row =>
    simp [hf] at h
    have := List.all_eq_true.mp ht _ (List.mem_of_find?_eq_some hf)
    simp only [decide_eq_true_eq] at this
    rw [h] at this
    exact this

/-! ### each `key_press` keeps the state composable, never panics and never returns `Fuzzy` -/

/-- result of a press: some behaviour other than `Fuzzy`, and a composable state -/
def PressOk (r : PressResult) : Prop := ∃ b c', r = some (b, c') ∧ Comp c' ∧ (∀ s, b ≠ .fuzzy s)

theorem pressOk_map {o : Option Nat} {b : Behavior} (h : ∃ c', o = some c' ∧ Comp c') (hb : ∀ s, b ≠ .fuzzy s) :
    PressOk (o.map fun c' => (b, c')) := by
  obtain ⟨c', rfl, hc'⟩ := h
  exact ⟨b, c', rfl, hc', hb⟩

theorem pressOk_some {b : Behavior} {c : Nat} (hc : Comp c) (hb : ∀ s, b ≠ .fuzzy s) : PressOk (some (b, c)) :=
  ⟨b, c, rfl, hc, hb⟩

theorem tablePress_ok {tbl : List (Nat × Nat)} (ht : tbl.all (fun row => decide (row.2 < 42)) = true)
    {c : Nat} (hc : Comp c) (k : KeyEv) : PressOk (tablePress tbl c k) := by
  unfold tablePress
  split
  · exact pressOk_some hc (by intro s h; cases h)
  · rename_i b hl
    have hb : b < 42 := by
      unfold tableLookup at hl
      cases hf : tbl.find? (·.1 == k.index) with
      | none => simp [hf] at hl
      | some row =>
        simp [hf] at hl
        have := List.all_eq_true.mp ht _ (List.mem_of_find?_eq_some hf)
        simp only [decide_eq_true_eq] at this
        omega
    have hne : ∀ {x : Bool}, (b != Sym.TONE1) = x → x = true → b < 41 := by
      intro x hx hx'
      subst hx
      have : b ≠ 41 := by simpa [Sym.TONE1] using hx'
      omega
    split
    · split
      · split
        · rename_i h1
          exact pressOk_map (pres_update (hne rfl h1) c hc) (by intro s h; cases h)
        · exact pressOk_some hc (by intro s h; cases h)
      · split
        · exact pressOk_some hc (by intro s h; cases h)
        · rename_i h1
          have : b < 41 := by
            have : b ≠ 41 := by simpa [Sym.TONE1] using h1
            omega
          exact pressOk_map (pres_update this c hc) (by intro s h; cases h)
    · split
      · exact pressOk_some (comp_removeTone hc) (by intro s h; cases h)
      · rename_i h1
        have : b < 41 := by
          have : b ≠ 41 := by simpa [Sym.TONE1] using h1
          omega
        exact pressOk_map (pres_update this _ (comp_removeTone hc)) (by intro s h; cases h)

theorem hsuPress_ok {c : Nat} (hc : Comp c) (k : KeyEv) : PressOk (hsuPress c k) := by
  have hrw := (List.all_eq_true.mp rewrites_syms hsuEndRewrites (by simp))
  have htk := (List.all_eq_true.mp tonekeys_syms hsuToneKeys (by simp))
  have hk := (List.all_eq_true.mp keys26_syms hsuKeys (by simp))
  have hs1 := (List.all_eq_true.mp swap_syms jqxToZhChSh (by simp))
  have hs2 := (List.all_eq_true.mp swap_syms zhChShToJqx (by simp))
  unfold hsuPress
  split
  · obtain ⟨c1, h1, hc1⟩ := pres_endRewrite hrw c hc
    obtain ⟨c2, h2, hc2⟩ := pres_hsuGtoJ c1 hc1
    rw [h1, Option.bind_some, h2, Option.bind_some]
    exact pressOk_map (pres_toneStep htk k.code c2 hc2) (by intro s h; cases h)
  · split
    · exact pressOk_some hc (by intro s h; cases h)
    · rename_i cond a b hrow
      obtain ⟨ha, hb⟩ := keyRow_lt hk hrow
      have hbo := condSym_lt (c := c) (cond := cond) ha hb
      obtain ⟨c1, h1, hc1⟩ := pres_hsuGtoJ c hc
      simp only [h1, Option.bind_some]
      obtain ⟨c2, h2, hc2⟩ := pres_ite (p := ((kindOf (condSym c cond a b) == 1 && condSym c cond a b == Sym.U) ||
          (kindOf (condSym c cond a b) == 2 && (medial c1).isNone)) = true)
        (pres_swapInitial hs1) pres_some c1 hc1
      rw [h2, Option.bind_some]
      obtain ⟨c3, h3, hc3⟩ := pres_ite (p := (condSym c cond a b == Sym.I || condSym c cond a b == Sym.IU) = true)
        (pres_swapInitial hs2) pres_some c2 hc2
      rw [h3, Option.bind_some]
      exact pressOk_map (pres_update hbo c3 hc3) (by intro s h; cases h)

theorem et26Press_ok {c : Nat} (hc : Comp c) (k : KeyEv) : PressOk (et26Press c k) := by
  have hrw := (List.all_eq_true.mp rewrites_syms et26EndRewrites (by simp))
  have htk := (List.all_eq_true.mp tonekeys_syms et26ToneKeys (by simp))
  have hk := (List.all_eq_true.mp keys26_syms et26Keys (by simp))
  have hs1 := (List.all_eq_true.mp swap_syms jxToZhSh (by simp))
  have hs2 := (List.all_eq_true.mp swap_syms gToQ (by simp))
  unfold et26Press
  split
  · obtain ⟨c1, h1, hc1⟩ := pres_endRewrite hrw c hc
    rw [h1, Option.bind_some]
    exact pressOk_map (pres_toneStep htk k.code c1 hc1) (by intro s h; cases h)
  · split
    · exact pressOk_some hc (by intro s h; cases h)
    · rename_i cond a b hrow
      obtain ⟨ha, hb⟩ := keyRow_lt hk hrow
      have hbo := condSym_lt (c := c) (cond := cond) ha hb
      have : ∃ c1, (if (kindOf (condSym c cond a b) == 1) = true then
            if (condSym c cond a b == Sym.U) = true then swapInitial jxToZhSh c else swapInitial gToQ c
          else if (kindOf (condSym c cond a b) == 2 && !hasMedial c) = true then swapInitial jxToZhSh c
          else some c) = some c1 ∧ Comp c1 := by
        split
        · split
          · exact pres_swapInitial hs1 c hc
          · exact pres_swapInitial hs2 c hc
        · split
          · exact pres_swapInitial hs1 c hc
          · exact ⟨c, rfl, hc⟩
      obtain ⟨c1, h1, hc1⟩ := this
      simp only [h1, Option.bind_some]
      exact pressOk_map (pres_update hbo c1 hc1) (by intro s h; cases h)

theorem dc26K21_ok {c : Nat} (hc : Comp c) {res : PressResult} (h : dc26K21 c = some res) : PressOk res := by
  unfold dc26K21 at h
  simp only at h
  split at h
  · cases h; exact pressOk_some (comp_removeRime (comp_removeMedial hc)) (by intro s h; cases h)
  · split at h
    · cases h; exact pressOk_map (pres_update (by decide) c hc) (by intro s h; cases h)
    · split at h
      · cases h; exact pressOk_map (pres_update (by decide) _ (comp_removeMedial hc)) (by intro s h; cases h)
      · split at h
        · cases h; exact pressOk_map (pres_update (by decide) c hc) (by intro s h; cases h)
        · cases h

theorem pressOk_map_remove {o : Option Nat} (h : ∃ c', o = some c' ∧ Comp c') :
    PressOk (o.map fun c' => (Behavior.absorb, removeRime c')) := by
  obtain ⟨c', rfl, hc'⟩ := h
  exact ⟨.absorb, _, rfl, comp_removeRime hc', by intro s h; cases h⟩

theorem dc26K44_ok {c : Nat} (hc : Comp c) {res : PressResult} (h : dc26K44 c = some res) : PressOk res := by
  unfold dc26K44 at h
  simp only at h
  split at h
  · cases h; exact pressOk_map (pres_update (by decide) _ (comp_removeMedial hc)) (by intro s h; cases h)
  · split at h
    · cases h; exact pressOk_map (pres_update (by decide) _ (comp_removeMedial hc)) (by intro s h; cases h)
    · split at h
      · cases h; exact pressOk_map_remove (pres_update (by decide) c hc)
      · split at h
        · cases h; exact pressOk_map_remove (pres_update (by decide) c hc)
        · split at h
          · cases h; exact pressOk_map (pres_update (by decide) c hc) (by intro s h; cases h)
          · cases h

theorem dc26Press_ok {c : Nat} (hc : Comp c) (k : KeyEv) : PressOk (dc26Press c k) := by
  have htk := (List.all_eq_true.mp tonekeys_syms dc26ToneKeys (by simp))
  have hk := (List.all_eq_true.mp keys26_syms dc26Keys (by simp))
  unfold dc26Press
  split
  · exact pressOk_map (pres_toneStep htk k.index c hc) (by intro s h; cases h)
  · split
    · exact pressOk_some hc (by intro s h; cases h)
    · rename_i cond a b hrow
      obtain ⟨ha, hb⟩ := keyRow_lt hk hrow
      split
      · split
        · rename_i res hres
          split at hres
          · exact dc26K21_ok hc hres
          · exact dc26K44_ok hc hres
        · split
          · exact pressOk_map (pres_update (by decide) c hc) (by intro s h; cases h)
          · exact pressOk_map (pres_update (by decide) c hc) (by intro s h; cases h)
      · exact pressOk_map (pres_update (condSym_lt ha hb) c hc) (by intro s h; cases h)

/-! ### the trait default `fuzzy_key_press`, single operations and runs -/

def SoundLayout (L : Layout) : Prop := ∀ c k, Comp c → PressOk (L.press c k)

/-- outcome of any operation: no panic, a composable state, and a `Fuzzy(s)` carries a composable,
    non-empty `s` -/
def StepOk (r : PressResult) : Prop :=
  ∃ b c', r = some (b, c') ∧ Comp c' ∧ (∀ s, b = .fuzzy s → Comp s ∧ s ≠ emptyPattern)

theorem PressOk.stepOk {r : PressResult} (h : PressOk r) : StepOk r := by
  obtain ⟨b, c', rfl, hc', hb⟩ := h
  exact ⟨b, c', rfl, hc', fun s hs => absurd hs (hb s)⟩

theorem fuzzyPress_ok {L : Layout} (hL : SoundLayout L) {c : Nat} (hc : Comp c) (k : KeyEv) :
    StepOk (L.fuzzyPress c k) := by
  unfold Layout.fuzzyPress
  split
  · exact (hL c k hc).stepOk
  · obtain ⟨b, n, hn, hcn, _⟩ := hL clearSyl k comp_clear
    rw [hn]
    simp only
    split
    · rename_i hcond
      refine ⟨.fuzzy c, n, rfl, hcn, ?_⟩
      intro s hs
      cases hs
      refine ⟨hc, comp_has_ne hc ?_⟩
      simp only [Bool.or_eq_true, Bool.and_eq_true] at hcond
      rcases hcond with (⟨h, _⟩ | ⟨h, _⟩) | ⟨h, _⟩
      · exact Or.inl h
      · exact Or.inr (Or.inl h)
      · exact Or.inr (Or.inr h)
    · exact (hL c k hc).stepOk

theorem step_ok {L : Layout} (hL : SoundLayout L) {c : Nat} (hc : Comp c) (op : LOp) : StepOk (L.step c op) := by
  cases op with
  | key k => exact (hL c k hc).stepOk
  | fuzzyKey k => exact fuzzyPress_ok hL hc k
  | removeLast => exact ⟨.absorb, _, rfl, comp_removeLast hc, by intro s h; cases h⟩
  | clear => exact ⟨.absorb, _, rfl, comp_clear, by intro s h; cases h⟩

theorem run_ok {L : Layout} (hL : SoundLayout L) : ∀ (ops : List LOp) (c : Nat), Comp c →
    ∃ tr, L.run c ops = some tr ∧ ∀ x ∈ tr, Comp x.2 ∧ ∀ s, x.1 = .fuzzy s → Comp s ∧ s ≠ emptyPattern := by
  intro ops
  induction ops with
  | nil => intro c _; exact ⟨[], rfl, by simp⟩
  | cons op ops ih =>
    intro c hc
    obtain ⟨b, c', hs, hc', hf⟩ := step_ok hL hc op
    obtain ⟨tr, htr, hall⟩ := ih c' hc'
    refine ⟨(b, c') :: tr, by simp [Layout.run, hs, htr], ?_⟩
    intro x hx
    rcases List.mem_cons.mp hx with rfl | hx
    · exact ⟨hc', hf⟩
    · exact hall x hx

theorem sound_standard : SoundLayout standardL := fun _ k hc =>
  tablePress_ok (List.all_eq_true.mp tables_syms standardTable (by simp)) hc k
theorem sound_et : SoundLayout etL := fun _ k hc =>
  tablePress_ok (List.all_eq_true.mp tables_syms etTable (by simp)) hc k
theorem sound_ibm : SoundLayout ibmL := fun _ k hc =>
  tablePress_ok (List.all_eq_true.mp tables_syms ibmTable (by simp)) hc k
theorem sound_ginyieh : SoundLayout ginyiehL := fun _ k hc =>
  tablePress_ok (List.all_eq_true.mp tables_syms ginyiehTable (by simp)) hc k
theorem sound_hsu : SoundLayout hsuL := fun _ k hc => hsuPress_ok hc k
theorem sound_et26 : SoundLayout et26L := fun _ k hc => et26Press_ok hc k
theorem sound_dc26 : SoundLayout dc26L := fun _ k hc => dc26Press_ok hc k

end Chewing
