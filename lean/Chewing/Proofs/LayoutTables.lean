import Chewing.Model.Layout
import Chewing.Model.LayoutPinyin
import Chewing.Proofs.Enum
/-!
Finite facts about the generated layout tables (kernel-checked, so they are facts about the current
source): the symbol constants of the hand-transcribed rules carry the names they claim, every symbol a
layout can pass to `update` is one of the 42 symbols, and the first-tone mark only occurs where the
code handles it.
-/
namespace Chewing
open Gen

/-- the `Sym.*` constants are the discriminants of the variants they are named after -/
theorem sym_names :
    [Sym.G, Sym.J, Sym.Q, Sym.X, Sym.ZH, Sym.CH, Sym.SH, Sym.I, Sym.U, Sym.IU, Sym.A, Sym.OU, Sym.TONE1,
      Sym.B, Sym.P, Sym.M, Sym.F, Sym.R, Sym.Z, Sym.C, Sym.S, Sym.O, Sym.AN, Sym.EN, Sym.ENG].map (bopoNames[·]?) =
    ["G", "J", "Q", "X", "ZH", "CH", "SH", "I", "U", "IU", "A", "OU", "TONE1",
      "B", "P", "M", "F", "R", "Z", "C", "S", "O", "AN", "EN", "ENG"].map some := by
  decide

/-- the `KeyIndex` values the DaChen26 model names (`K21`, `K44`) and the key / index enums are aligned on
    Qwerty: position `i` of the Qwerty matrix is `KeyCode` `i` and `KeyIndex` `i` -/
theorem key_names : keyIndexNames[21]? = some "K21" ∧ keyIndexNames[44]? = some "K44" ∧
    keyIndexNames.length = 63 ∧ keyCodeNames.length = 63 ∧ matrixSize = 63 := by
  decide

/-- every row of the four tables names one of the 42 symbols, and only `K48` carries the first-tone mark -/
theorem tables_syms : [standardTable, etTable, ibmTable, ginyiehTable].all
    (fun tbl => tbl.all fun row => decide (row.2 < 42)) = true := by
  decide

theorem keys26_syms : [hsuKeys, et26Keys, dc26Keys].all
    (fun tbl => tbl.all fun row => decide (row.2.2.1 < 41 ∧ row.2.2.2 < 41)) = true := by
  decide

theorem rewrites_syms : [hsuEndRewrites, et26EndRewrites].all
    (fun tbl => tbl.all fun row => decide (row.2.2 < 41)) = true := by
  decide

theorem tonekeys_syms : [hsuToneKeys, et26ToneKeys, dc26ToneKeys, pinyinToneKeys].all
    (fun tbl => tbl.all fun row => decide (row.2 < 41 ∧ kindOf row.2 = 3)) = true := by
  decide

theorem swap_syms : [jqxToZhChSh, zhChShToJqx, jxToZhSh, gToQ].all
    (fun tbl => tbl.all fun row => decide (row.2 < 41)) = true := by
  decide

theorem popOrder_lt : popOrder.all (fun k => decide (k < 4)) = true := by decide

end Chewing
