import Chewing.Model.LayoutUnreach
import Chewing.Proofs.LayoutSound
/-!
From the kernel-evaluated check `unreachCheck` to "no key list enters a listed reading" (the refutations of
completeness, known finding F21).  The invariant `TL inv c` (toneless, components satisfy `inv`) holds along
every path of `Layout.enter`; from such a state no key commits a listed reading; no `alt_syllables` list
contains one.
-/
namespace Chewing
open Gen

theorem codeOf_eq {i m r : Nat} : codeOf i m r = encode i m r 0 := by
  unfold codeOf encode
  by_cases h : i + m + r = 0
  · have h1 : i = 0 ∧ m = 0 ∧ r = 0 ∧ (0 : Nat) = 0 := by omega
    rw [if_pos (by simpa using h), if_pos h1]
  · have h1 : ¬ (i = 0 ∧ m = 0 ∧ r = 0 ∧ (0 : Nat) = 0) := by omega
    rw [if_neg (by simpa using h), if_neg h1, Nat.add_zero]

def TL (inv : Nat → Nat → Nat → Bool) (c : Nat) : Prop :=
  ∃ i m r, i < 22 ∧ m < 4 ∧ r < 14 ∧ inv i m r = true ∧ c = codeOf i m r

theorem TL.comp {inv : Nat → Nat → Nat → Bool} {c : Nat} (h : TL inv c) : Comp c := by
  obtain ⟨i, m, r, hi, hm, hr, -, rfl⟩ := h
  exact ⟨i, m, r, 0, ⟨hi, hm, hr, by omega⟩, codeOf_eq⟩

theorem tl_of_invCode {inv : Nat → Nat → Nat → Bool} {c : Nat} (hc : Comp c) (h : invCode inv c = true) :
    TL inv c := by
  obtain ⟨i, m, r, t, ht, rfl⟩ := hc
  have f := encode_fields (tup5_to6 ht)
  unfold invCode at h
  simp only [Bool.and_eq_true, beq_iff_eq] at h
  rw [f.1, f.2.1, f.2.2.1, f.2.2.2.1] at h
  obtain ⟨h0, hinv⟩ := h
  subst h0
  exact ⟨i, m, r, ht.1, ht.2.1, ht.2.2.1, hinv, codeOf_eq.symm⟩

/-- what a layout has to provide for the refutation -/
structure UnreachHyp (L : Layout) (gaps : List Nat) (inv : Nat → Nat → Nat → Bool) (rel : List Nat)
    (sel : KeyEv → Nat) : Prop where
  sound : SoundLayout L
  /-- the layout reads one field of the key event -/
  hsel : ∀ c k, L.press c k = L.press c (mkKey (sel k))
  /-- a key outside `rel` changes nothing and does not commit -/
  hirr : ∀ c key, key ∉ rel → ∃ b, L.press c (mkKey key) = some (b, c) ∧ b ≠ .commit
  check : ∀ i, i < 22 → unreachCheck L gaps inv rel i = true
  alt : ∀ c g, g ∈ gaps → g ∉ L.alt c
  inv0 : inv 0 0 0 = true

section
variable {L : Layout} {gaps : List Nat} {inv : Nat → Nat → Nat → Bool} {rel : List Nat} {sel : KeyEv → Nat}

theorem tl_clear (H : UnreachHyp L gaps inv rel sel) : TL inv clearSyl :=
  ⟨0, 0, 0, by omega, by omega, by omega, H.inv0, by decide⟩

theorem tl_checks (H : UnreachHyp L gaps inv rel sel) {c : Nat} (h : TL inv c) :
    invCode inv (removeLast c) = true ∧ ∀ key ∈ rel, stepCheck L gaps inv c key = true := by
  obtain ⟨i, m, r, hi, hm, hr, hinv, rfl⟩ := h
  have := H.check i hi
  unfold unreachCheck at this
  have := List.all_eq_true.mp (List.all_eq_true.mp this m (List.mem_range.mpr hm)) r (List.mem_range.mpr hr)
  simp only [hinv, Bool.not_true, Bool.false_or, Bool.and_eq_true, List.all_eq_true] at this
  exact this

theorem tl_removeLast (H : UnreachHyp L gaps inv rel sel) {c : Nat} (h : TL inv c) : TL inv (removeLast c) :=
  tl_of_invCode (comp_removeLast h.comp) (tl_checks H h).1

theorem tl_press (H : UnreachHyp L gaps inv rel sel) {c c' : Nat} {k : KeyEv} {b : Behavior} (h : TL inv c)
    (hp : L.press c k = some (b, c')) : (b = .absorb → TL inv c') ∧ (b = .commit → c' ∉ gaps) := by
  rw [H.hsel] at hp
  by_cases hk : sel k ∈ rel
  · have hs := (tl_checks H h).2 (sel k) hk
    unfold stepCheck at hs
    rw [hp] at hs
    constructor
    · rintro rfl
      obtain ⟨_, _, he, hc', _⟩ := H.sound c (mkKey (sel k)) h.comp
      rw [hp] at he
      cases he
      exact tl_of_invCode hc' (by simpa using hs)
    · rintro rfl
      simpa using hs
  · obtain ⟨b', hb', hne⟩ := H.hirr c (sel k) hk
    rw [hp] at hb'
    cases hb'
    exact ⟨fun _ => h, fun e => absurd e hne⟩

/-- along the editor's way of driving the layout, no listed reading is ever committed -/
theorem enter_not_gap (H : UnreachHyp L gaps inv rel sel) : ∀ (ks : List KeyEv) (c r : Nat), TL inv c →
    L.enter c ks = some r → r ∉ gaps := by
  intro ks
  induction ks with
  | nil => intro c r _ h; simp [Layout.enter] at h
  | cons k ks ih =>
    intro c r htl h
    cases ks with
    | nil =>
      unfold Layout.enter at h
      split at h
      · rename_i c' hp
        cases h
        exact (tl_press H htl hp).2 rfl
      · cases h
    | cons k2 ks' =>
      unfold Layout.enter at h
      split at h
      · exact ih _ _ (tl_removeLast H htl) h
      · split at h
        · rename_i c' hp
          exact ih _ _ ((tl_press H htl hp).1 rfl) h
        · cases h

/-- no key list enters a listed reading, directly or through `alt_syllables` -/
theorem never_enters (H : UnreachHyp L gaps inv rel sel) {r : Nat} (hr : r ∈ gaps) (keys : List Nat) :
    entersB L keys r = false := by
  cases hb : entersB L keys r with
  | false => rfl
  | true =>
    exfalso
    unfold entersB at hb
    split at hb
    · rename_i c hc
      have hng := enter_not_gap H _ _ _ (tl_clear H) hc
      simp only [Bool.or_eq_true, beq_iff_eq, Bool.and_eq_true, List.contains_eq_mem, decide_eq_true_eq] at hb
      rcases hb with rfl | ⟨_, ha⟩
      · exact hng hr
      · exact H.alt c r hr ha
    · cases hb
end

/-! ### the per-layout side conditions -/

theorem keyRow_none {tbl : List (Nat × Nat × Nat × Nat)} {key : Nat} (h : key ∉ tbl.map (·.1)) :
    keyRow tbl key = none := by
  unfold keyRow
  cases hf : tbl.find? (·.1 == key) with
  | none => rfl
  | some row =>
    exfalso
    have hm := List.mem_of_find?_eq_some hf
    have hk := List.find?_some hf
    simp only [beq_iff_eq] at hk
    exact h (List.mem_map.mpr ⟨row, hm, hk⟩)

theorem altLookup_free {tbl : List (List Nat × List (List Nat))} {gaps : List Nat} (h : altFree tbl gaps = true)
    (c g : Nat) (hg : g ∈ gaps) : g ∉ altLookup tbl c := by
  unfold altLookup
  split
  · rename_i row hf
    have hrow := List.all_eq_true.mp h row (List.mem_of_find?_eq_some hf)
    intro hmem
    obtain ⟨a, ha, hs⟩ := List.mem_filterMap.mp hmem
    have := List.all_eq_true.mp hrow a ha
    rw [hs] at this
    simp only [Bool.not_eq_true', List.contains_eq_mem, decide_eq_false_iff_not] at this
    exact this hg
  · simp

theorem hsu_irrelevant (c key : Nat) (h : key ∉ hsuRelKeys) :
    ∃ b, hsuL.press c (mkKey key) = some (b, c) ∧ b ≠ .commit := by
  unfold hsuRelKeys at h
  simp only [List.mem_append, not_or] at h
  refine ⟨.noWord, ?_, by intro e; cases e⟩
  show hsuPress c (mkKey key) = _
  unfold hsuPress
  have h1 : hsuEndKeys.contains (mkKey key).code = false := by
    simpa [mkKey] using h.1
  rw [h1, keyRow_none (key := (mkKey key).code) (by simpa [mkKey] using h.2)]
  simp

theorem et26_irrelevant (c key : Nat) (h : key ∉ et26RelKeys) :
    ∃ b, et26L.press c (mkKey key) = some (b, c) ∧ b ≠ .commit := by
  unfold et26RelKeys at h
  simp only [List.mem_append, not_or] at h
  refine ⟨.noWord, ?_, by intro e; cases e⟩
  show et26Press c (mkKey key) = _
  unfold et26Press
  have h1 : et26EndKeys.contains (mkKey key).code = false := by
    simpa [mkKey] using h.1
  rw [h1, keyRow_none (key := (mkKey key).code) (by simpa [mkKey] using h.2)]
  simp

theorem dc26_irrelevant (c key : Nat) (h : key ∉ dc26RelKeys) :
    ∃ b, dc26L.press c (mkKey key) = some (b, c) ∧ b ≠ .commit := by
  unfold dc26RelKeys at h
  simp only [List.mem_append, not_or] at h
  refine ⟨.keyError, ?_, by intro e; cases e⟩
  show dc26Press c (mkKey key) = _
  unfold dc26Press
  have h1 : dc26EndKeys.contains (mkKey key).index = false := by
    simpa [mkKey] using h.1
  rw [h1, keyRow_none (key := (mkKey key).index) (by simpa [mkKey] using h.2)]
  simp

theorem alt_free_tbl : altFree hsuAltTable hsuGaps = true ∧ altFree et26AltTable et26Gaps = true := by
  decide +kernel

end Chewing
