import Chewing.Proofs.LayoutUnreach_hsu
import Chewing.Proofs.LayoutUnreach_et26
import Chewing.Proofs.LayoutUnreach_dc26
import Chewing.Proofs.LayoutUnreach_hanyu
import Chewing.Proofs.LayoutUnreach_thl
import Chewing.Proofs.LayoutUnreach_mps2
/-!
The refutations of completeness (known finding F21), assembled: for Hsu, ET26 and DaChen26 the hypotheses of
`never_enters` (Proofs/LayoutUnreach.lean); for the Pinyin variants the lift from the kernel-evaluated
table check `pinyinNeverB` to "no key list commits a listed reading".
-/
namespace Chewing
open Gen

theorem hsu_unreach : UnreachHyp hsuL hsuGaps hsuInv hsuRelKeys (·.code) where
  sound := sound_hsu
  hsel := fun _ _ => rfl
  hirr := hsu_irrelevant
  check := unreach_hsu_all
  alt := altLookup_free alt_free_tbl.1
  inv0 := by decide

theorem et26_unreach : UnreachHyp et26L et26Gaps et26Inv et26RelKeys (·.code) where
  sound := sound_et26
  hsel := fun _ _ => rfl
  hirr := et26_irrelevant
  check := unreach_et26_all
  alt := altLookup_free alt_free_tbl.2
  inv0 := by decide

theorem dc26_unreach : UnreachHyp dc26L dc26Gaps dc26Inv dc26RelKeys (·.index) where
  sound := sound_dc26
  hsel := fun _ _ => rfl
  hirr := dc26_irrelevant
  check := unreach_dc26_all
  alt := fun _ _ _ h => by cases h
  inv0 := by decide

/-! ### Pinyin -/

theorem pinyinTone_opt (code : Nat) : (pinyinToneKeys.find? (·.1 == code)).map (·.2) ∈ pinyinToneOpts := by
  unfold pinyinToneOpts
  cases hf : pinyinToneKeys.find? (·.1 == code) with
  | none => simp
  | some row =>
    simp only [Option.map_some, List.mem_cons, List.mem_map]
    exact Or.inr ⟨row, List.mem_of_find?_eq_some hf, rfl⟩

theorem commitsIn_false {gaps : List Nat} {res : Option (Behavior × PinyinState)} {st' : PinyinState}
    (h : (!commitsIn gaps res) = true) (hr : res = some (.commit, st')) : st'.syl ∉ gaps := by
  subst hr
  simpa [commitsIn] using h

/-- the end-key branch never commits a reading of `gaps` -/
theorem pinyinCommit_not_gap {v : Nat} {gaps : List Nat} (hn : pinyinNeverB v gaps = true) {st st' : PinyinState}
    {code : Nat} (h : pinyinCommit v st code = some (.commit, st')) : st'.syl ∉ gaps := by
  have ht := List.all_eq_true.mp hn _ (pinyinTone_opt code)
  simp only [Bool.and_eq_true] at ht
  obtain ⟨⟨hv, hc⟩, hb⟩ := ht
  unfold pinyinCommit at h
  simp only at h
  split at h
  · rename_i row hf
    exact commitsIn_false (List.all_eq_true.mp hv row (List.mem_of_find?_eq_some hf)) h
  · split at h
    · rename_i row hf
      exact commitsIn_false (List.all_eq_true.mp hc row (List.mem_of_find?_eq_some hf)) h
    · split at h
      · cases h
      · have hi : (pinyinSplit st.keySeq).1.map (·.2) ∈ pinyinIniOpts := by
          unfold pinyinIniOpts
          rw [List.mem_eraseDups]
          cases hs : (pinyinSplit st.keySeq).1 with
          | none => simp
          | some e =>
            simp only [Option.map_some, List.mem_cons, List.mem_map]
            refine Or.inr ⟨e, ?_, rfl⟩
            unfold pinyinSplit at hs
            simp only at hs
            exact List.mem_of_find?_eq_some hs
        have hf : ((pinyinSplit st.keySeq).2.bind (·.2.1), (pinyinSplit st.keySeq).2.bind (·.2.2)) ∈ pinyinFinOpts := by
          unfold pinyinFinOpts
          rw [List.mem_eraseDups]
          cases hs : (pinyinSplit st.keySeq).2 with
          | none => simp
          | some e =>
            simp only [Option.bind_some, List.mem_cons, List.mem_map]
            refine Or.inr ⟨e, ?_, rfl⟩
            unfold pinyinSplit at hs
            simp only at hs
            exact List.mem_of_find?_eq_some hs
        exact commitsIn_false (List.all_eq_true.mp (List.all_eq_true.mp hb _ hi) _ hf) h

theorem pinyinPress_not_gap {v : Nat} {gaps : List Nat} (hn : pinyinNeverB v gaps = true) {st st' : PinyinState}
    {k : KeyEv} (h : pinyinPress v st k = some (.commit, st')) : st'.syl ∉ gaps := by
  unfold pinyinPress at h
  split at h
  · cases h
  · split at h
    · split at h
      · cases h
      · split at h
        · cases h
        · cases h
    · exact pinyinCommit_not_gap hn h

/-- whatever letters were typed and deleted before, the committing key never commits a listed reading -/
theorem pinyinEnter_not_gap {v : Nat} {gaps : List Nat} (hn : pinyinNeverB v gaps = true) :
    ∀ (ks : List KeyEv) (st : PinyinState) (r : Nat), pinyinEnter v st ks = some r → r ∉ gaps := by
  intro ks
  induction ks with
  | nil => intro st r h; simp [pinyinEnter] at h
  | cons k ks ih =>
    intro st r h
    cases ks with
    | nil =>
      unfold pinyinEnter at h
      split at h
      · rename_i st' hp
        cases h
        exact pinyinPress_not_gap hn hp
      · cases h
    | cons k2 ks' =>
      unfold pinyinEnter at h
      split at h
      · exact ih _ _ h
      · split at h
        · exact ih _ _ h
        · cases h

theorem pinyin_never_enters {v : Nat} {gaps : List Nat} (hn : pinyinNeverB v gaps = true) {r : Nat} (hr : r ∈ gaps)
    (keys : List Nat) : entersPinyinB v keys r = false := by
  cases hb : entersPinyinB v keys r with
  | false => rfl
  | true =>
    exfalso
    unfold entersPinyinB at hb
    simp only [beq_iff_eq] at hb
    exact pinyinEnter_not_gap hn _ _ _ hb hr

theorem pinyin_unreach (v : Nat) (hv : v < 3) : pinyinNeverB v (pinyinGaps v) = true := by
  match v, hv with
  | 0, _ => exact unreach_hanyu
  | 1, _ => exact unreach_thl
  | 2, _ => exact unreach_mps2

/-- the listed gaps are readings of `data/word.src` -/
theorem gaps_are_readings :
    ((hsuGaps ++ et26Gaps ++ dc26Gaps ++ pinyinGaps 0 ++ pinyinGaps 1 ++ pinyinGaps 2).all
      fun r => readingCodes.contains r) = true := by
  decide +kernel

end Chewing
