import Chewing.Proofs.LayoutUnreach_dc26_0
import Chewing.Proofs.LayoutUnreach_dc26_1
import Chewing.Proofs.LayoutUnreach_dc26_2
import Chewing.Proofs.LayoutUnreach_dc26_3
import Chewing.Proofs.LayoutUnreach_dc26_4
import Chewing.Proofs.LayoutUnreach_dc26_5
import Chewing.Proofs.LayoutUnreach
/-! Assembles the 22 kernel-evaluated blocks of the unreachability check of dc26. -/
namespace Chewing
open Gen

theorem unreach_dc26_all : ∀ i, i < 22 → unreachCheck dc26L dc26Gaps dc26Inv dc26RelKeys i = true := by
  intro i hi
  have : i = 0 ∨ i = 1 ∨ i = 2 ∨ i = 3 ∨ i = 4 ∨ i = 5 ∨ i = 6 ∨ i = 7 ∨ i = 8 ∨ i = 9 ∨ i = 10 ∨ i = 11 ∨ i = 12 ∨ i = 13 ∨ i = 14 ∨ i = 15 ∨ i = 16 ∨ i = 17 ∨ i = 18 ∨ i = 19 ∨ i = 20 ∨ i = 21 := by omega
  rcases this with rfl | rfl | rfl | rfl | rfl | rfl | rfl | rfl | rfl | rfl | rfl | rfl | rfl | rfl | rfl | rfl | rfl | rfl | rfl | rfl | rfl | rfl
  · exact unreach_dc26_0
  · exact unreach_dc26_1
  · exact unreach_dc26_2
  · exact unreach_dc26_3
  · exact unreach_dc26_4
  · exact unreach_dc26_5
  · exact unreach_dc26_6
  · exact unreach_dc26_7
  · exact unreach_dc26_8
  · exact unreach_dc26_9
  · exact unreach_dc26_10
  · exact unreach_dc26_11
  · exact unreach_dc26_12
  · exact unreach_dc26_13
  · exact unreach_dc26_14
  · exact unreach_dc26_15
  · exact unreach_dc26_16
  · exact unreach_dc26_17
  · exact unreach_dc26_18
  · exact unreach_dc26_19
  · exact unreach_dc26_20
  · exact unreach_dc26_21

end Chewing
