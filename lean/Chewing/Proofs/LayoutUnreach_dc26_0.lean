import Chewing.Model.LayoutUnreach
/-! Kernel evaluation of the unreachability check of dc26 (known finding F21) for the toneless syllables
    with initial index 0..3: each is 56 syllables x the keys the layout reacts to. -/
namespace Chewing
open Gen

theorem unreach_dc26_0 : unreachCheck dc26L dc26Gaps dc26Inv dc26RelKeys 0 = true := by
  decide +kernel

theorem unreach_dc26_1 : unreachCheck dc26L dc26Gaps dc26Inv dc26RelKeys 1 = true := by
  decide +kernel

theorem unreach_dc26_2 : unreachCheck dc26L dc26Gaps dc26Inv dc26RelKeys 2 = true := by
  decide +kernel

theorem unreach_dc26_3 : unreachCheck dc26L dc26Gaps dc26Inv dc26RelKeys 3 = true := by
  decide +kernel

end Chewing
