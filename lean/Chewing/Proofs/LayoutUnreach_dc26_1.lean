import Chewing.Model.LayoutUnreach
/-! Kernel evaluation of the unreachability check of dc26 (known finding F21) for the toneless syllables
    with initial index 4..7: each is 56 syllables x the keys the layout reacts to. -/
namespace Chewing
open Gen

theorem unreach_dc26_4 : unreachCheck dc26L dc26Gaps dc26Inv dc26RelKeys 4 = true := by
  decide +kernel

theorem unreach_dc26_5 : unreachCheck dc26L dc26Gaps dc26Inv dc26RelKeys 5 = true := by
  decide +kernel

theorem unreach_dc26_6 : unreachCheck dc26L dc26Gaps dc26Inv dc26RelKeys 6 = true := by
  decide +kernel

theorem unreach_dc26_7 : unreachCheck dc26L dc26Gaps dc26Inv dc26RelKeys 7 = true := by
  decide +kernel

end Chewing
