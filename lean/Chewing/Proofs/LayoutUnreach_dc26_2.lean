import Chewing.Model.LayoutUnreach
/-! Kernel evaluation of the unreachability check of dc26 (known finding F21) for the toneless syllables
    with initial index 8..11: each is 56 syllables x the keys the layout reacts to. -/
namespace Chewing
open Gen

theorem unreach_dc26_8 : unreachCheck dc26L dc26Gaps dc26Inv dc26RelKeys 8 = true := by
  decide +kernel

theorem unreach_dc26_9 : unreachCheck dc26L dc26Gaps dc26Inv dc26RelKeys 9 = true := by
  decide +kernel

theorem unreach_dc26_10 : unreachCheck dc26L dc26Gaps dc26Inv dc26RelKeys 10 = true := by
  decide +kernel

theorem unreach_dc26_11 : unreachCheck dc26L dc26Gaps dc26Inv dc26RelKeys 11 = true := by
  decide +kernel

end Chewing
