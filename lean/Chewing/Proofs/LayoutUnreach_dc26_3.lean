import Chewing.Model.LayoutUnreach
/-! Kernel evaluation of the unreachability check of dc26 (known finding F21) for the toneless syllables
    with initial index 12..15: each is 56 syllables x the keys the layout reacts to. -/
namespace Chewing
open Gen

theorem unreach_dc26_12 : unreachCheck dc26L dc26Gaps dc26Inv dc26RelKeys 12 = true := by
  decide +kernel

theorem unreach_dc26_13 : unreachCheck dc26L dc26Gaps dc26Inv dc26RelKeys 13 = true := by
  decide +kernel

theorem unreach_dc26_14 : unreachCheck dc26L dc26Gaps dc26Inv dc26RelKeys 14 = true := by
  decide +kernel

theorem unreach_dc26_15 : unreachCheck dc26L dc26Gaps dc26Inv dc26RelKeys 15 = true := by
  decide +kernel

end Chewing
