import Chewing.Model.LayoutUnreach
/-! Kernel evaluation of the unreachability check of dc26 (known finding F21) for the toneless syllables
    with initial index 16..19: each is 56 syllables x the keys the layout reacts to. -/
namespace Chewing
open Gen

theorem unreach_dc26_16 : unreachCheck dc26L dc26Gaps dc26Inv dc26RelKeys 16 = true := by
  decide +kernel

theorem unreach_dc26_17 : unreachCheck dc26L dc26Gaps dc26Inv dc26RelKeys 17 = true := by
  decide +kernel

theorem unreach_dc26_18 : unreachCheck dc26L dc26Gaps dc26Inv dc26RelKeys 18 = true := by
  decide +kernel

theorem unreach_dc26_19 : unreachCheck dc26L dc26Gaps dc26Inv dc26RelKeys 19 = true := by
  decide +kernel

end Chewing
