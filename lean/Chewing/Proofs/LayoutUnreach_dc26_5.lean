import Chewing.Model.LayoutUnreach
/-! Kernel evaluation of the unreachability check of dc26 (known finding F21) for the toneless syllables
    with initial index 20..21: each is 56 syllables x the keys the layout reacts to. -/
namespace Chewing
open Gen

theorem unreach_dc26_20 : unreachCheck dc26L dc26Gaps dc26Inv dc26RelKeys 20 = true := by
  decide +kernel

theorem unreach_dc26_21 : unreachCheck dc26L dc26Gaps dc26Inv dc26RelKeys 21 = true := by
  decide +kernel

end Chewing
