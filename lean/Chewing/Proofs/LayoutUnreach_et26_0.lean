import Chewing.Model.LayoutUnreach
/-! Kernel evaluation of the unreachability check of et26 (known finding F21) for the toneless syllables
    with initial index 0..3: each is 56 syllables x the keys the layout reacts to. -/
namespace Chewing
open Gen

theorem unreach_et26_0 : unreachCheck et26L et26Gaps et26Inv et26RelKeys 0 = true := by
  decide +kernel

theorem unreach_et26_1 : unreachCheck et26L et26Gaps et26Inv et26RelKeys 1 = true := by
  decide +kernel

theorem unreach_et26_2 : unreachCheck et26L et26Gaps et26Inv et26RelKeys 2 = true := by
  decide +kernel

theorem unreach_et26_3 : unreachCheck et26L et26Gaps et26Inv et26RelKeys 3 = true := by
  decide +kernel

end Chewing
