import Chewing.Model.LayoutUnreach
/-! Kernel evaluation of the unreachability check of et26 (known finding F21) for the toneless syllables
    with initial index 4..7: each is 56 syllables x the keys the layout reacts to. -/
namespace Chewing
open Gen

theorem unreach_et26_4 : unreachCheck et26L et26Gaps et26Inv et26RelKeys 4 = true := by
  decide +kernel

theorem unreach_et26_5 : unreachCheck et26L et26Gaps et26Inv et26RelKeys 5 = true := by
  decide +kernel

theorem unreach_et26_6 : unreachCheck et26L et26Gaps et26Inv et26RelKeys 6 = true := by
  decide +kernel

theorem unreach_et26_7 : unreachCheck et26L et26Gaps et26Inv et26RelKeys 7 = true := by
  decide +kernel

end Chewing
