import Chewing.Model.LayoutUnreach
/-! Kernel evaluation of the unreachability check of et26 (known finding F21) for the toneless syllables
    with initial index 8..11: each is 56 syllables x the keys the layout reacts to. -/
namespace Chewing
open Gen

theorem unreach_et26_8 : unreachCheck et26L et26Gaps et26Inv et26RelKeys 8 = true := by
  decide +kernel

theorem unreach_et26_9 : unreachCheck et26L et26Gaps et26Inv et26RelKeys 9 = true := by
  decide +kernel

theorem unreach_et26_10 : unreachCheck et26L et26Gaps et26Inv et26RelKeys 10 = true := by
  decide +kernel

theorem unreach_et26_11 : unreachCheck et26L et26Gaps et26Inv et26RelKeys 11 = true := by
  decide +kernel

end Chewing
