import Chewing.Model.LayoutUnreach
/-! Kernel evaluation of the unreachability check of et26 (known finding F21) for the toneless syllables
    with initial index 12..15: each is 56 syllables x the keys the layout reacts to. -/
namespace Chewing
open Gen

theorem unreach_et26_12 : unreachCheck et26L et26Gaps et26Inv et26RelKeys 12 = true := by
  decide +kernel

theorem unreach_et26_13 : unreachCheck et26L et26Gaps et26Inv et26RelKeys 13 = true := by
  decide +kernel

theorem unreach_et26_14 : unreachCheck et26L et26Gaps et26Inv et26RelKeys 14 = true := by
  decide +kernel

theorem unreach_et26_15 : unreachCheck et26L et26Gaps et26Inv et26RelKeys 15 = true := by
  decide +kernel

end Chewing
