import Chewing.Model.LayoutUnreach
/-! Kernel evaluation of the unreachability check of et26 (known finding F21) for the toneless syllables
    with initial index 16..19: each is 56 syllables x the keys the layout reacts to. -/
namespace Chewing
open Gen

theorem unreach_et26_16 : unreachCheck et26L et26Gaps et26Inv et26RelKeys 16 = true := by
  decide +kernel

theorem unreach_et26_17 : unreachCheck et26L et26Gaps et26Inv et26RelKeys 17 = true := by
  decide +kernel

theorem unreach_et26_18 : unreachCheck et26L et26Gaps et26Inv et26RelKeys 18 = true := by
  decide +kernel

theorem unreach_et26_19 : unreachCheck et26L et26Gaps et26Inv et26RelKeys 19 = true := by
  decide +kernel

end Chewing
