import Chewing.Model.LayoutUnreach
/-! Kernel evaluation of the unreachability check of et26 (known finding F21) for the toneless syllables
    with initial index 20..21: each is 56 syllables x the keys the layout reacts to. -/
namespace Chewing
open Gen

theorem unreach_et26_20 : unreachCheck et26L et26Gaps et26Inv et26RelKeys 20 = true := by
  decide +kernel

theorem unreach_et26_21 : unreachCheck et26L et26Gaps et26Inv et26RelKeys 21 = true := by
  decide +kernel

end Chewing
