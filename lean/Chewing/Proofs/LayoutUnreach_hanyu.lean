import Chewing.Model.LayoutUnreach
/-! Kernel evaluation of the unreachability check of the hanyu Pinyin variant (known finding F21): every
    exact-match row and every (initial, final, tone) combination of the current tables. -/
namespace Chewing
open Gen

theorem unreach_hanyu : pinyinNeverB 0 (pinyinGaps 0) = true := by
  decide +kernel

end Chewing
