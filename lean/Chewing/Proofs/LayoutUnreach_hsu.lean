import Chewing.Proofs.LayoutUnreach_hsu_0
import Chewing.Proofs.LayoutUnreach_hsu_1
import Chewing.Proofs.LayoutUnreach_hsu_2
import Chewing.Proofs.LayoutUnreach_hsu_3
import Chewing.Proofs.LayoutUnreach_hsu_4
import Chewing.Proofs.LayoutUnreach_hsu_5
import Chewing.Proofs.LayoutUnreach
/-! Assembles the 22 kernel-evaluated blocks of the unreachability check of hsu. -/
namespace Chewing
open Gen

theorem unreach_hsu_all : ∀ i, i < 22 → unreachCheck hsuL hsuGaps hsuInv hsuRelKeys i = true := by
  intro i hi
  have : i = 0 ∨ i = 1 ∨ i = 2 ∨ i = 3 ∨ i = 4 ∨ i = 5 ∨ i = 6 ∨ i = 7 ∨ i = 8 ∨ i = 9 ∨ i = 10 ∨ i = 11 ∨ i = 12 ∨ i = 13 ∨ i = 14 ∨ i = 15 ∨ i = 16 ∨ i = 17 ∨ i = 18 ∨ i = 19 ∨ i = 20 ∨ i = 21 := by omega
  rcases this with rfl | rfl | rfl | rfl | rfl | rfl | rfl | rfl | rfl | rfl | rfl | rfl | rfl | rfl | rfl | rfl | rfl | rfl | rfl | rfl | rfl | rfl
  · exact unreach_hsu_0
  · exact unreach_hsu_1
  · exact unreach_hsu_2
  · exact unreach_hsu_3
  · exact unreach_hsu_4
  · exact unreach_hsu_5
  · exact unreach_hsu_6
  · exact unreach_hsu_7
  · exact unreach_hsu_8
  · exact unreach_hsu_9
  · exact unreach_hsu_10
  · exact unreach_hsu_11
  · exact unreach_hsu_12
  · exact unreach_hsu_13
  · exact unreach_hsu_14
  · exact unreach_hsu_15
  · exact unreach_hsu_16
  · exact unreach_hsu_17
  · exact unreach_hsu_18
  · exact unreach_hsu_19
  · exact unreach_hsu_20
  · exact unreach_hsu_21

end Chewing
