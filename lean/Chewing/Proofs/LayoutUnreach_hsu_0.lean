import Chewing.Model.LayoutUnreach
/-! Kernel evaluation of the unreachability check of hsu (known finding F21) for the toneless syllables
    with initial index 0..3: each is 56 syllables x the keys the layout reacts to. -/
namespace Chewing
open Gen

theorem unreach_hsu_0 : unreachCheck hsuL hsuGaps hsuInv hsuRelKeys 0 = true := by
  decide +kernel

theorem unreach_hsu_1 : unreachCheck hsuL hsuGaps hsuInv hsuRelKeys 1 = true := by
  decide +kernel

theorem unreach_hsu_2 : unreachCheck hsuL hsuGaps hsuInv hsuRelKeys 2 = true := by
  decide +kernel

theorem unreach_hsu_3 : unreachCheck hsuL hsuGaps hsuInv hsuRelKeys 3 = true := by
  decide +kernel

end Chewing
