import Chewing.Model.LayoutUnreach
/-! Kernel evaluation of the unreachability check of hsu (known finding F21) for the toneless syllables
    with initial index 4..7: each is 56 syllables x the keys the layout reacts to. -/
namespace Chewing
open Gen

theorem unreach_hsu_4 : unreachCheck hsuL hsuGaps hsuInv hsuRelKeys 4 = true := by
  decide +kernel

theorem unreach_hsu_5 : unreachCheck hsuL hsuGaps hsuInv hsuRelKeys 5 = true := by
  decide +kernel

theorem unreach_hsu_6 : unreachCheck hsuL hsuGaps hsuInv hsuRelKeys 6 = true := by
  decide +kernel

theorem unreach_hsu_7 : unreachCheck hsuL hsuGaps hsuInv hsuRelKeys 7 = true := by
  decide +kernel

end Chewing
