import Chewing.Model.LayoutUnreach
/-! Kernel evaluation of the unreachability check of hsu (known finding F21) for the toneless syllables
    with initial index 8..11: each is 56 syllables x the keys the layout reacts to. -/
namespace Chewing
open Gen

theorem unreach_hsu_8 : unreachCheck hsuL hsuGaps hsuInv hsuRelKeys 8 = true := by
  decide +kernel

theorem unreach_hsu_9 : unreachCheck hsuL hsuGaps hsuInv hsuRelKeys 9 = true := by
  decide +kernel

theorem unreach_hsu_10 : unreachCheck hsuL hsuGaps hsuInv hsuRelKeys 10 = true := by
  decide +kernel

theorem unreach_hsu_11 : unreachCheck hsuL hsuGaps hsuInv hsuRelKeys 11 = true := by
  decide +kernel

end Chewing
