import Chewing.Model.LayoutUnreach
/-! Kernel evaluation of the unreachability check of hsu (known finding F21) for the toneless syllables
    with initial index 12..15: each is 56 syllables x the keys the layout reacts to. -/
namespace Chewing
open Gen

theorem unreach_hsu_12 : unreachCheck hsuL hsuGaps hsuInv hsuRelKeys 12 = true := by
  decide +kernel

theorem unreach_hsu_13 : unreachCheck hsuL hsuGaps hsuInv hsuRelKeys 13 = true := by
  decide +kernel

theorem unreach_hsu_14 : unreachCheck hsuL hsuGaps hsuInv hsuRelKeys 14 = true := by
  decide +kernel

theorem unreach_hsu_15 : unreachCheck hsuL hsuGaps hsuInv hsuRelKeys 15 = true := by
  decide +kernel

end Chewing
