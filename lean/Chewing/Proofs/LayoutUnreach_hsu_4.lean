import Chewing.Model.LayoutUnreach
/-! Kernel evaluation of the unreachability check of hsu (known finding F21) for the toneless syllables
    with initial index 16..19: each is 56 syllables x the keys the layout reacts to. -/
namespace Chewing
open Gen

theorem unreach_hsu_16 : unreachCheck hsuL hsuGaps hsuInv hsuRelKeys 16 = true := by
  decide +kernel

theorem unreach_hsu_17 : unreachCheck hsuL hsuGaps hsuInv hsuRelKeys 17 = true := by
  decide +kernel

theorem unreach_hsu_18 : unreachCheck hsuL hsuGaps hsuInv hsuRelKeys 18 = true := by
  decide +kernel

theorem unreach_hsu_19 : unreachCheck hsuL hsuGaps hsuInv hsuRelKeys 19 = true := by
  decide +kernel

end Chewing
