import Chewing.Model.LayoutUnreach
/-! Kernel evaluation of the unreachability check of hsu (known finding F21) for the toneless syllables
    with initial index 20..21: each is 56 syllables x the keys the layout reacts to. -/
namespace Chewing
open Gen

theorem unreach_hsu_20 : unreachCheck hsuL hsuGaps hsuInv hsuRelKeys 20 = true := by
  decide +kernel

theorem unreach_hsu_21 : unreachCheck hsuL hsuGaps hsuInv hsuRelKeys 21 = true := by
  decide +kernel

end Chewing
