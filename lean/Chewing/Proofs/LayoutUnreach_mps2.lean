import Chewing.Model.LayoutUnreach
/-! Kernel evaluation of the unreachability check of the mps2 Pinyin variant (known finding F21): every
    exact-match row and every (initial, final, tone) combination of the current tables. -/
namespace Chewing
open Gen

theorem unreach_mps2 : pinyinNeverB 2 (pinyinGaps 2) = true := by
  decide +kernel

end Chewing
