import Chewing.Model.LayoutUnreach
/-! Kernel evaluation of the unreachability check of the thl Pinyin variant (known finding F21): every
    exact-match row and every (initial, final, tone) combination of the current tables. -/
namespace Chewing
open Gen

theorem unreach_thl : pinyinNeverB 1 (pinyinGaps 1) = true := by
  decide +kernel

end Chewing
