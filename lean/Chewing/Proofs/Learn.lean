import Chewing.Proofs.Estimate
import Chewing.Proofs.LearnMap
/-!
`learn_phrase` / `auto_learn` (C08): what one learning does to the user map, that `auto_learn` is
`learn_phrase` applied to the learn units from left to right, which intervals are units, liveness of every
unit afterwards, and the end-to-end bounded-liveness statement over repeated learning.
-/
namespace Chewing.Learn
open Gen.Learn Gen.Est

/-- all layer entries under `key`: system layers, then the user layer -/
def allEntries (sys : List Entry) (u : UserMap) (key : List Nat) : List (Text × Nat) :=
  sysLookup sys key ++ u.lookup key

/-- frequency of phrase `t` under `key` as the merged lookup reports it -/
def mergedFreq (sys : List Entry) (u : UserMap) (key : List Nat) (t : Text) : Nat :=
  bestOf (allEntries sys u key) t

/-- highest merged frequency among the other phrases under `key` -/
def othersMax (sys : List Entry) (u : UserMap) (key : List Nat) (t : Text) : Nat :=
  othersOf (allEntries sys u key) t

theorem lookupAll_phraseFreq (ctx : LearnCtx) (u : UserMap) (key : List Nat) (t : Text) :
    phraseFreq (lookupAll ctx u key) t = mergedFreq ctx.sys u key t := by
  unfold lookupAll mergedFreq allEntries
  rw [phraseFreq_eq_bestOf _ _ (layeredLookup_uniq _ _), layeredLookup_bestOf]

theorem lookupAll_isEmpty (ctx : LearnCtx) (u : UserMap) (key : List Nat) :
    (lookupAll ctx u key).isEmpty = (allEntries ctx.sys u key).isEmpty := by
  unfold lookupAll allEntries
  have := layeredLookup_eq_nil (sysLookup ctx.sys key) (u.lookup key)
  cases h1 : layeredLookup (sysLookup ctx.sys key) (u.lookup key) <;>
    cases h2 : sysLookup ctx.sys key ++ u.lookup key <;> simp_all

theorem lookupAll_maxFreq (ctx : LearnCtx) (u : UserMap) (key : List Nat) (t : Text)
    (h : (allEntries ctx.sys u key).isEmpty = false) :
    maxFreq (lookupAll ctx u key) = max (mergedFreq ctx.sys u key t) (othersMax ctx.sys u key t) := by
  unfold maxFreq
  rw [lookupAll_isEmpty, h]
  simp only [Bool.false_eq_true, if_false]
  unfold lookupAll mergedFreq othersMax allEntries
  rw [layeredLookup_maxOf, maxOf_split _ t]

/-- one learning of an already known key: the phrase gets `learnStep` of its merged frequency, stamped with the
    current time; nothing panics, whatever the stored frequencies (`saturating_add`, repair of F40) -/
theorem learnPhrase_update (ctx : LearnCtx) (u : UserMap) (key : List Nat) (x : Text)
    (hlen : key.length = x.length) (hx : x ≠ [])
    (hne : (allEntries ctx.sys u key).isEmpty = false) :
    learnPhrase ctx u key x =
      .ok (u.insert (key, x) (learnStep (othersMax ctx.sys u key x) (mergedFreq ctx.sys u key x), ctx.lifetime)) := by
  unfold learnPhrase
  have h1 : ¬ key.length ≠ x.length := fun h => h hlen
  have h2 : x.isEmpty = false := by cases x with | nil => exact absurd rfl hx | cons _ _ => rfl
  rw [if_neg h1]
  simp only [lookupAll_isEmpty, hne, Bool.false_eq_true, if_false, lookupAll_phraseFreq,
    lookupAll_maxFreq ctx u key x hne, h2]
  rw [estimate_editor _ _ _ (Nat.le_max_left _ _)]
  rfl

/-- first learning under a key nobody knows: frequency `firstFreq`, time 0 -/
theorem learnPhrase_first (ctx : LearnCtx) (u : UserMap) (key : List Nat) (x : Text)
    (hlen : key.length = x.length) (hx : x ≠ [])
    (he : (allEntries ctx.sys u key).isEmpty = true) :
    learnPhrase ctx u key x = .ok (u.insert (key, x) (firstFreq, 0)) := by
  unfold learnPhrase
  have h1 : ¬ key.length ≠ x.length := fun h => h hlen
  have h2 : x.isEmpty = false := by cases x with | nil => exact absurd rfl hx | cons _ _ => rfl
  rw [if_neg h1]
  simp only [lookupAll_isEmpty, he, if_true, h2, Bool.false_eq_true, if_false]

/-! ### What a learning leaves alone -/

theorem allEntries_insert_same (sys : List Entry) (u : UserMap) (key : List Nat) (x : Text) (v : Nat × Nat) :
    allEntries sys (u.insert (key, x) v) key
      = sysLookup sys key ++ (x, v.1) :: (u.lookup key).filter (fun e => decide (e.1 ≠ x)) := by
  unfold allEntries; rw [UserMap.lookup_insert_same]

theorem othersMax_insert_same (sys : List Entry) (u : UserMap) (key : List Nat) (x : Text) (v : Nat × Nat) :
    othersMax sys (u.insert (key, x) v) key x = othersMax sys u key x := by
  unfold othersMax
  rw [allEntries_insert_same]
  unfold allEntries
  rw [othersOf_append, othersOf_append, othersOf_cons_self]

theorem mergedFreq_insert_other (sys : List Entry) (u : UserMap) (key : List Nat) (x t : Text) (v : Nat × Nat)
    (h : t ≠ x) : mergedFreq sys (u.insert (key, x) v) key t = mergedFreq sys u key t := by
  unfold mergedFreq
  rw [allEntries_insert_same]
  unfold allEntries
  have hx : ¬ x = t := fun h3 => h h3.symm
  rw [bestOf_append, bestOf_append, bestOf_cons, if_neg hx, bestOf_filter_ne _ _ _ h]

theorem mergedFreq_insert_self (sys : List Entry) (u : UserMap) (key : List Nat) (x : Text) (v : Nat × Nat)
    (h : bestOf (sysLookup sys key) x ≤ v.1) : mergedFreq sys (u.insert (key, x) v) key x = v.1 := by
  unfold mergedFreq
  rw [allEntries_insert_same, bestOf_append, bestOf_cons, if_pos rfl, bestOf_filter_ne_self]
  omega

theorem sys_le_mergedFreq (sys : List Entry) (u : UserMap) (key : List Nat) (x : Text) :
    bestOf (sysLookup sys key) x ≤ mergedFreq sys u key x := by
  unfold mergedFreq allEntries; rw [bestOf_append]; omega

theorem allEntries_insert_isEmpty (sys : List Entry) (u : UserMap) (key : List Nat) (x : Text) (v : Nat × Nat) :
    (allEntries sys (u.insert (key, x) v) key).isEmpty = false := by
  rw [allEntries_insert_same]
  cases sysLookup sys key <;> rfl

/-! ### Repeating "choose X, commit" -/

/-- `learn_phrase(key, x)` once per element of `lts`, the estimator's clock at each commit (irrelevant on the
    editor path, hence arbitrary) -/
def learnRepeat (sys : List Entry) (key : List Nat) (x : Text) : List Nat → UserMap → Outcome UserMap
  | [], u => .ok u
  | lt :: rest, u => (learnPhrase { sys := sys, lifetime := lt } u key x).bind (learnRepeat sys key x rest)

/-- `k` learnings of X: no panic, X's merged frequency follows `learnIter`, the other phrases keep theirs -/
theorem learnRepeat_spec (sys : List Entry) (key : List Nat) (x : Text)
    (hlen : key.length = x.length) (hx : x ≠ []) (lts : List Nat) :
    ∀ (u : UserMap), (allEntries sys u key).isEmpty = false →
      mergedFreq sys u key x ≤ maxUserFreq → othersMax sys u key x ≤ maxUserFreq →
      ∃ u', learnRepeat sys key x lts u = .ok u' ∧
        mergedFreq sys u' key x = learnIter (othersMax sys u key x) lts.length (mergedFreq sys u key x) ∧
        othersMax sys u' key x = othersMax sys u key x ∧
        (∀ t, t ≠ x → mergedFreq sys u' key t = mergedFreq sys u key t) := by
  induction lts with
  | nil => intro u _ _ _; exact ⟨u, rfl, rfl, rfl, fun _ _ => rfl⟩
  | cons lt rest ih =>
    intro u hne hf hy
    have hstep := learnPhrase_update { sys := sys, lifetime := lt } u key x hlen hx hne
    simp only at hstep
    let nf := learnStep (othersMax sys u key x) (mergedFreq sys u key x)
    let u1 := u.insert (key, x) (nf, lt)
    have hge : mergedFreq sys u key x ≤ nf := learnStep_ge _ _ hf
    have h1 : mergedFreq sys u1 key x = nf :=
      mergedFreq_insert_self sys u key x (nf, lt) (Nat.le_trans (sys_le_mergedFreq sys u key x) hge)
    have h2 : othersMax sys u1 key x = othersMax sys u key x := othersMax_insert_same sys u key x (nf, lt)
    have h3 : ∀ t, t ≠ x → mergedFreq sys u1 key t = mergedFreq sys u key t :=
      fun t ht => mergedFreq_insert_other sys u key x t (nf, lt) ht
    obtain ⟨u', e1, e2, e3, e4⟩ := ih u1 (allEntries_insert_isEmpty sys u key x (nf, lt))
      (by rw [h1]; exact stepFreq_le_max _ _) (by rw [h2]; exact hy)
    refine ⟨u', ?_, ?_, ?_, ?_⟩
    · show (learnPhrase { sys := sys, lifetime := lt } u key x).bind (learnRepeat sys key x rest) = .ok u'
      rw [hstep]; exact e1
    · rw [e2, h1, h2, List.length_cons, learnIter_succ']
    · rw [e3, h2]
    · intro t ht; rw [e4 t ht, h3 t ht]

/-! ### Liveness of what was learned -/

/-- the entry is in the user map with a positive frequency -/
def Live (u : UserMap) (k : UKey) : Prop := ∃ v, u.get? k = some v ∧ 1 ≤ v.1

theorem stepFreq_pos (f mx : Nat) : 1 ≤ stepFreq f mx := by
  unfold stepFreq
  have : 0 < risingDelta shortDiv shortPlus shortInc f f mx := by
    simp only [risingDelta, shortDiv, shortPlus, shortInc]
    split <;> omega
  simp only [maxUserFreq]; omega

/-- whatever `learn_phrase` returns: the learned pair is live (if it is a well-formed phrase), everything that
    was live stays live, and no frequency of another entry changes -/
theorem learnPhrase_live (ctx : LearnCtx) (u u' : UserMap) (key : List Nat) (x : Text)
    (h : learnPhrase ctx u key x = .ok u') :
    (key.length = x.length → x ≠ [] → Live u' (key, x)) ∧ (∀ k, Live u k → Live u' k) ∧
      (∀ k, k ≠ (key, x) → u'.get? k = u.get? k) := by
  unfold learnPhrase at h
  by_cases hlen : key.length = x.length
  · rw [if_neg (fun h => h hlen)] at h
    by_cases hx : x = []
    · subst hx
      simp only [List.isEmpty_nil, if_true] at h
      split at h
      · injection h with h; subst h
        exact ⟨fun _ h2 => absurd rfl h2, fun _ hk => hk, fun _ _ => rfl⟩
      · split at h
        · injection h with h; subst h
          exact ⟨fun _ h2 => absurd rfl h2, fun _ hk => hk, fun _ _ => rfl⟩
        · cases h
        · cases h
    · have h2 : x.isEmpty = false := by cases x with | nil => exact absurd rfl hx | cons _ _ => rfl
      simp only [h2, Bool.false_eq_true, if_false] at h
      have key_fact : ∀ v : Nat × Nat, 1 ≤ v.1 → u' = u.insert (key, x) v →
          (key.length = x.length → x ≠ [] → Live u' (key, x)) ∧ (∀ k, Live u k → Live u' k) ∧
            (∀ k, k ≠ (key, x) → u'.get? k = u.get? k) := by
        intro v hv e
        subst e
        refine ⟨fun _ _ => ⟨v, UserMap.get?_insert_self _ _ _, hv⟩, fun k hk => ?_,
          fun k hk => UserMap.get?_insert_ne _ _ _ _ hk⟩
        by_cases hk2 : k = (key, x)
        · subst hk2; exact ⟨v, UserMap.get?_insert_self _ _ _, hv⟩
        · rw [Live, UserMap.get?_insert_ne _ _ _ _ hk2]; exact hk
      split at h
      · injection h with h
        exact key_fact (firstFreq, 0) (by simp [firstFreq]) h.symm
      · split at h
        · rename_i nf hest
          injection h with h
          refine key_fact (nf, ctx.lifetime) ?_ h.symm
          rw [estimate_no_timestamp] at hest
          simp only [risingBand, satAdd32, u32Max] at hest
          split at hest
          · cases hest
          · injection hest with hest
            have : 0 < risingDelta shortDiv shortPlus shortInc
                (phraseFreq (lookupAll ctx u key) x) (phraseFreq (lookupAll ctx u key) x)
                (maxFreq (lookupAll ctx u key)) := by
              simp only [risingDelta, shortDiv, shortPlus, shortInc]
              split <;> omega
            simp only [maxUserFreq] at hest
            show 1 ≤ nf
            omega
        · cases h
        · cases h
  · rw [if_pos hlen] at h
    injection h with h; subst h
    exact ⟨fun h2 => absurd h2 hlen, fun _ hk => hk, fun _ _ => rfl⟩

theorem learnAll_live (ctx : LearnCtx) (us : List (List Nat × Text)) :
    ∀ (u u' : UserMap), learnAll ctx us u = .ok u' →
      (∀ k, Live u k → Live u' k) ∧
      (∀ p ∈ us, p.1.length = p.2.length → p.2 ≠ [] → Live u' p) := by
  induction us with
  | nil =>
    intro u u' h
    injection h with h; subst h
    exact ⟨fun _ hk => hk, fun p hp => by cases hp⟩
  | cons p rest ih =>
    intro u u' h
    obtain ⟨k, t⟩ := p
    simp only [learnAll] at h
    cases h1 : learnPhrase ctx u k t with
    | ok u1 =>
      rw [h1] at h
      obtain ⟨a1, a2, _⟩ := learnPhrase_live ctx u u1 k t h1
      obtain ⟨b1, b2⟩ := ih u1 u' h
      refine ⟨fun q hq => b1 q (a2 q hq), fun q hq hl ht => ?_⟩
      rcases List.mem_cons.mp hq with e | hq
      · subst e; exact b1 _ (a1 hl ht)
      · exact b2 q hq hl ht
    | panic s => rw [h1] at h; cases h
    | outOfFuel => rw [h1] at h; cases h

/-! ### `auto_learn` is `learn_phrase` over the learn units -/

theorem learnAll_append (ctx : LearnCtx) (a b : List (List Nat × Text)) (u : UserMap) :
    learnAll ctx (a ++ b) u = (learnAll ctx a u).bind (learnAll ctx b) := by
  induction a generalizing u with
  | nil => rfl
  | cons p r ih =>
    obtain ⟨k, t⟩ := p
    simp only [List.cons_append, learnAll]
    cases learnPhrase ctx u k t with
    | ok u1 => exact ih u1
    | panic s => rfl
    | outOfFuel => rfl

/-- every dictionary-phrase interval lies inside the symbol buffer (true of every conversion output, C03) -/
def IvsInRange (symbols : List Sym) (ivs : List Interval) : Prop :=
  ∀ iv ∈ ivs, iv.isPhrase = true → iv.start ≤ iv.stop ∧ iv.stop ≤ symbols.length

theorem sliceSyms_eq (symbols : List Sym) (iv : Interval) (h : iv.start ≤ iv.stop ∧ iv.stop ≤ symbols.length) :
    sliceSyms symbols iv.start iv.stop = some (segOf symbols iv) := by
  unfold sliceSyms segOf; rw [if_pos h]

theorem autoLearnGo_eq (ctx : LearnCtx) (symbols : List Sym) (ivs : List Interval) (h : IvsInRange symbols ivs) :
    ∀ (p : Text) (ps : List Sym) (u : UserMap),
      autoLearnGo ctx symbols ivs p ps u = learnAll ctx (unitsGo symbols ivs p ps) u := by
  induction ivs with
  | nil =>
    intro p ps u
    simp only [autoLearnGo, unitsGo, flushPending]
    cases hp : p.isEmpty
    · simp only [Bool.false_eq_true, if_false, learnAll]
      cases learnPhrase ctx u (keyOf ps) p <;> rfl
    · simp only [if_true]; rfl
  | cons iv rest ih =>
    intro p ps u
    have hrest : IvsInRange symbols rest := fun i hi => h i (List.mem_cons_of_mem _ hi)
    have ih := ih hrest
    unfold autoLearnGo unitsGo
    by_cases hph : iv.isPhrase = true
    · have hr := h iv (List.mem_cons_self ..) hph
      have hlt : ¬ iv.stop < iv.start := by omega
      rw [if_pos hph, if_neg hlt, sliceSyms_eq symbols iv hr]
      simp only
      by_cases hj : iv.stop - iv.start = 1 ∧ isBreakWord iv.text = false
      · have hj2 : joinable iv = true := by simp [joinable, hph, hj.1, hj.2]
        rw [if_pos hj, if_pos hj2]
        exact ih _ _ _
      · have hj2 : ¬ joinable iv = true := by
          intro hj3
          simp only [joinable, hph, Bool.true_and, Bool.and_eq_true, beq_iff_eq, Bool.not_eq_true'] at hj3
          exact hj hj3
        rw [if_neg hj, if_neg hj2]
        simp only [hph, if_true, flushPending]
        cases hp : p.isEmpty
        · simp only [Bool.false_eq_true, if_false, List.append_assoc, List.cons_append, List.nil_append, learnAll]
          cases learnPhrase ctx u (keyOf ps) p with
          | ok u1 =>
            simp only [Outcome.map, Outcome.bind]
            cases learnPhrase ctx u1 (keyOf (segOf symbols iv)) iv.text with
            | ok u2 => simp only [Outcome.bind]; exact ih _ _ _
            | panic s => rfl
            | outOfFuel => rfl
          | panic s => rfl
          | outOfFuel => rfl
        · simp only [if_true, List.nil_append, List.cons_append, learnAll, Outcome.bind]
          cases learnPhrase ctx u (keyOf (segOf symbols iv)) iv.text with
          | ok u2 => simp only [Outcome.bind]; exact ih _ _ _
          | panic s => rfl
          | outOfFuel => rfl
    · have hj2 : ¬ joinable iv = true := by simp [joinable, hph]
      rw [if_neg hph, if_neg hj2]
      simp only [hph, Bool.false_eq_true, if_false, flushPending, List.append_nil]
      cases hp : p.isEmpty
      · simp only [Bool.false_eq_true, if_false, List.cons_append, List.nil_append, learnAll]
        cases learnPhrase ctx u (keyOf ps) p with
        | ok u1 => simp only [Outcome.map, Outcome.bind]; exact ih _ _ _
        | panic s => rfl
        | outOfFuel => rfl
      · simp only [if_true, List.nil_append, Outcome.bind]
        exact ih _ _ _

theorem autoLearn_eq (ctx : LearnCtx) (symbols : List Sym) (ivs : List Interval) (u : UserMap)
    (h : IvsInRange symbols ivs) :
    autoLearn ctx symbols ivs u = learnAll ctx (learnUnits symbols ivs) u :=
  autoLearnGo_eq ctx symbols ivs h [] [] u

/-! ### Which intervals are learn units -/

/-- a dictionary phrase that is not a joinable single character — every multi-character phrase and every
    single-character break word — is a learn unit by itself, under exactly its syllables -/
theorem nonjoinable_phrase_unit (symbols : List Sym) (ivs : List Interval) (iv : Interval)
    (hm : iv ∈ ivs) (hph : iv.isPhrase = true) (hj : joinable iv = false) :
    ∀ (p : Text) (ps : List Sym), (keyOf (segOf symbols iv), iv.text) ∈ unitsGo symbols ivs p ps := by
  induction ivs with
  | nil => cases hm
  | cons a rest ih =>
    intro p ps
    unfold unitsGo
    rcases List.mem_cons.mp hm with e | hm
    · subst e
      rw [if_neg (by simp [hj])]
      simp [hph]
    · by_cases ha : joinable a = true
      · rw [if_pos ha]; exact ih hm _ _
      · rw [if_neg ha]
        exact List.mem_append_right _ (ih hm _ _)

/-- joinable intervals carry a character -/
def JoinableNonEmpty (ivs : List Interval) : Prop := ∀ iv ∈ ivs, joinable iv = true → iv.text ≠ []

theorem unitsGo_run (symbols : List Sym) (run post : List Interval) (hrun : ∀ iv ∈ run, joinable iv = true) :
    ∀ (p : Text) (ps : List Sym),
      unitsGo symbols (run ++ post) p ps
        = unitsGo symbols post (p ++ run.flatMap (·.text)) (ps ++ run.flatMap (segOf symbols)) := by
  induction run with
  | nil => intro p ps; simp
  | cons a r ih =>
    intro p ps
    have ha := hrun a (List.mem_cons_self ..)
    simp only [List.cons_append, unitsGo, ha, if_true, List.flatMap_cons]
    rw [ih (fun iv hiv => hrun iv (List.mem_cons_of_mem _ hiv))]
    simp [List.append_assoc]

theorem unitsGo_flush (symbols : List Sym) (post : List Interval) (p : Text) (ps : List Sym) (hp : p ≠ [])
    (hpost : ∀ a ∈ post.head?, joinable a = false) : (keyOf ps, p) ∈ unitsGo symbols post p ps := by
  have hpe : p.isEmpty = false := by cases p with | nil => exact absurd rfl hp | cons _ _ => rfl
  cases post with
  | nil => simp [unitsGo, hpe]
  | cons a rest =>
    have ha : joinable a = false := hpost a (by simp)
    unfold unitsGo
    rw [if_neg (by simp [ha])]
    simp [hpe]

/-- the accumulators are in step: no pending text means no pending symbols -/
theorem unitsGo_prefix (symbols : List Sym) (pre rest : List Interval) (hne : JoinableNonEmpty pre)
    (hlast : ∀ a ∈ pre.getLast?, joinable a = false) (x : List Nat × Text) :
    ∀ (p : Text) (ps : List Sym), (p = [] → ps = []) →
      (pre = [] → p = []) →
      x ∈ unitsGo symbols rest [] [] → x ∈ unitsGo symbols (pre ++ rest) p ps := by
  induction pre with
  | nil =>
    intro p ps hinv hp hx
    have := hp rfl
    subst this
    rw [hinv rfl]
    exact hx
  | cons a r ih =>
    intro p ps hinv _ hx
    have hne' : JoinableNonEmpty r := fun iv hiv => hne iv (List.mem_cons_of_mem _ hiv)
    simp only [List.cons_append]
    unfold unitsGo
    by_cases ha : joinable a = true
    · rw [if_pos ha]
      have hat := hne a (List.mem_cons_self ..) ha
      cases r with
      | nil =>
        have := hlast a (by simp)
        rw [this] at ha; cases ha
      | cons b r' =>
        refine ih hne' (fun c hc => hlast c (by simpa [List.getLast?_cons_cons] using hc)) _ _ ?_ ?_ hx
        · intro h; exact absurd (List.append_eq_nil_iff.mp h).2 hat
        · intro h; cases h
    · rw [if_neg ha]
      apply List.mem_append_right
      have hps : (if p.isEmpty = true then ps else []) = [] := by
        cases p with
        | nil => simp [hinv rfl]
        | cons _ _ => rfl
      rw [hps]
      cases r with
      | nil => exact hx
      | cons b r' =>
        exact ih hne' (fun c hc => hlast c (by simpa [List.getLast?_cons_cons] using hc)) [] []
          (fun _ => rfl) (fun h => by cases h) hx

/-- a maximal run of joinable single characters is one learn unit: the concatenated characters under the
    concatenated syllables -/
theorem run_unit (symbols : List Sym) (pre run post : List Interval)
    (hne : JoinableNonEmpty (pre ++ run ++ post))
    (hrun : ∀ iv ∈ run, joinable iv = true) (hr : run ≠ [])
    (hpre : ∀ a ∈ pre.getLast?, joinable a = false) (hpost : ∀ a ∈ post.head?, joinable a = false) :
    (keyOf (run.flatMap (segOf symbols)), run.flatMap (·.text)) ∈ learnUnits symbols (pre ++ run ++ post) := by
  unfold learnUnits
  rw [List.append_assoc]
  apply unitsGo_prefix symbols pre (run ++ post) (fun iv hiv => hne iv (by simp [hiv])) hpre _ [] []
    (fun _ => rfl) (fun _ => rfl)
  rw [unitsGo_run symbols run post hrun]
  simp only [List.nil_append]
  apply unitsGo_flush symbols post _ _ _ hpost
  cases run with
  | nil => exact absurd rfl hr
  | cons a r =>
    intro h
    have ha := hne a (by simp) (hrun a (List.mem_cons_self ..))
    simp only [List.flatMap_cons, List.append_eq_nil_iff] at h
    exact ha h.1

end Chewing.Learn
