import Chewing.Proofs.Learn
import Chewing.Proofs.TopDefault
/-!
Learning under bounded frequencies (C08): with every stored frequency within `MAX_USER_FREQ`, `learn_phrase`
and `auto_learn` never panic, never lower a frequency, and keep the bound.  Also: a committed buffer that is
exactly the chosen phrase is one `learn_phrase` call, and strict dominance in the merged lookup makes the
phrase `find_best_phrase`'s choice.
-/
namespace Chewing.Learn
open Gen.Learn Gen.Est

/-- every system and user frequency is within `MAX_USER_FREQ` -/
def FreqBounded (sys : List Entry) (u : UserMap) : Prop :=
  (∀ e ∈ sys, e.2.freq ≤ maxUserFreq) ∧ (∀ e ∈ u, e.2.1 ≤ maxUserFreq)

theorem maxOf_le {l : List Nat} {b : Nat} (h : ∀ x ∈ l, x ≤ b) : maxOf l ≤ b := by
  induction l with
  | nil => exact Nat.zero_le _
  | cons a r ih =>
    simp only [maxOf]
    have := h a (List.mem_cons_self ..)
    have := ih (fun x hx => h x (List.mem_cons_of_mem _ hx))
    omega

theorem allEntries_le (sys : List Entry) (u : UserMap) (key : List Nat) (hB : FreqBounded sys u) :
    ∀ e ∈ allEntries sys u key, e.2 ≤ maxUserFreq := by
  intro e he
  unfold allEntries sysLookup UserMap.lookup at he
  rcases List.mem_append.mp he with he | he
  · obtain ⟨a, ha, rfl⟩ := List.mem_map.mp he
    exact hB.1 a (List.mem_filter.mp ha).1
  · obtain ⟨a, ha, rfl⟩ := List.mem_map.mp he
    exact hB.2 a (List.mem_filter.mp ha).1

theorem mergedFreq_le (sys : List Entry) (u : UserMap) (key : List Nat) (t : Text) (hB : FreqBounded sys u) :
    mergedFreq sys u key t ≤ maxUserFreq := by
  unfold mergedFreq bestOf
  apply maxOf_le
  intro x hx
  obtain ⟨a, ha, rfl⟩ := List.mem_map.mp hx
  exact allEntries_le sys u key hB a (List.mem_filter.mp ha).1

theorem othersMax_le (sys : List Entry) (u : UserMap) (key : List Nat) (t : Text) (hB : FreqBounded sys u) :
    othersMax sys u key t ≤ maxUserFreq := by
  unfold othersMax othersOf
  apply maxOf_le
  intro x hx
  obtain ⟨a, ha, rfl⟩ := List.mem_map.mp hx
  exact allEntries_le sys u key hB a (List.mem_filter.mp ha).1

theorem mem_of_get? {u : UserMap} {k : UKey} {v : Nat × Nat} (h : u.get? k = some v) : (k, v) ∈ u := by
  unfold UserMap.get? at h
  cases hf : u.find? (fun e => decide (e.1 = k)) with
  | none => rw [hf] at h; cases h
  | some e =>
    rw [hf] at h
    injection h with h
    have hm := List.mem_of_find?_eq_some hf
    have hk : e.1 = k := by simpa using List.find?_some hf
    have : e = (k, v) := by rw [← hk, ← h]
    rw [← this]; exact hm

theorem le_bestOf_of_mem {l : List (Text × Nat)} {t : Text} {f : Nat} (h : (t, f) ∈ l) : f ≤ bestOf l t := by
  unfold bestOf
  apply le_maxOf
  exact List.mem_map.mpr ⟨(t, f), List.mem_filter.mpr ⟨h, by simp⟩, rfl⟩

theorem get?_le_mergedFreq (sys : List Entry) (u : UserMap) (key : List Nat) (x : Text) (v : Nat × Nat)
    (h : u.get? (key, x) = some v) : v.1 ≤ mergedFreq sys u key x := by
  have hm := mem_of_get? h
  have : (x, v.1) ∈ u.lookup key := by
    unfold UserMap.lookup
    exact List.mem_map.mpr ⟨((key, x), v), List.mem_filter.mpr ⟨hm, by simp⟩, rfl⟩
  have h1 := le_bestOf_of_mem this
  unfold mergedFreq allEntries
  rw [bestOf_append]; omega

theorem freqBounded_insert (sys : List Entry) (u : UserMap) (k : UKey) (v : Nat × Nat) (hB : FreqBounded sys u)
    (hv : v.1 ≤ maxUserFreq) : FreqBounded sys (u.insert k v) := by
  refine ⟨hB.1, fun e he => ?_⟩
  unfold UserMap.insert at he
  rcases List.mem_cons.mp he with e1 | he
  · rw [e1]; exact hv
  · exact hB.2 e (List.mem_filter.mp he).1

/-- a frequency never goes down -/
def MonoStep (u u' : UserMap) : Prop := ∀ k v, u.get? k = some v → ∃ v', u'.get? k = some v' ∧ v.1 ≤ v'.1

theorem MonoStep.refl (u : UserMap) : MonoStep u u := fun _ v h => ⟨v, h, Nat.le_refl _⟩

theorem MonoStep.trans {a b c : UserMap} (h1 : MonoStep a b) (h2 : MonoStep b c) : MonoStep a c := by
  intro k v h
  obtain ⟨v1, e1, l1⟩ := h1 k v h
  obtain ⟨v2, e2, l2⟩ := h2 k v1 e1
  exact ⟨v2, e2, Nat.le_trans l1 l2⟩

theorem monoStep_insert (u : UserMap) (k : UKey) (v : Nat × Nat) (h : ∀ v0, u.get? k = some v0 → v0.1 ≤ v.1) :
    MonoStep u (u.insert k v) := by
  intro k' v' hk
  by_cases e : k' = k
  · subst e; exact ⟨v, UserMap.get?_insert_self _ _ _, h v' hk⟩
  · exact ⟨v', by rw [UserMap.get?_insert_ne _ _ _ _ e]; exact hk, Nat.le_refl _⟩

theorem allEntries_nonempty_of_get? (sys : List Entry) (u : UserMap) (key : List Nat) (x : Text) (v : Nat × Nat)
    (h : u.get? (key, x) = some v) : (allEntries sys u key).isEmpty = false := by
  have hm := mem_of_get? h
  have : (x, v.1) ∈ u.lookup key := by
    unfold UserMap.lookup
    exact List.mem_map.mpr ⟨((key, x), v), List.mem_filter.mpr ⟨hm, by simp⟩, rfl⟩
  unfold allEntries
  cases h1 : sysLookup sys key ++ u.lookup key with
  | nil =>
    have h2 := (List.append_eq_nil_iff.mp h1).2
    rw [h2] at this; cases this
  | cons _ _ => rfl

theorem u32_headroom : maxUserFreq + shortInc ≤ u32Max := by decide

/-- under bounded frequencies `learn_phrase` never panics, never lowers a frequency, keeps the bound -/
theorem learnPhrase_bounded (ctx : LearnCtx) (u : UserMap) (key : List Nat) (x : Text)
    (hB : FreqBounded ctx.sys u) :
    ∃ u', learnPhrase ctx u key x = .ok u' ∧ FreqBounded ctx.sys u' ∧ MonoStep u u' := by
  by_cases hlen : key.length = x.length
  · by_cases hx : x = []
    · -- the empty phrase: nothing is stored (`Layered` refuses it); `estimate` still runs
      subst hx
      unfold learnPhrase
      rw [if_neg (fun h => h hlen)]
      simp only [List.isEmpty_nil, if_true]
      split
      · exact ⟨u, rfl, hB, MonoStep.refl u⟩
      · rename_i hne
        have hne' : (allEntries ctx.sys u key).isEmpty = false := by
          rw [← lookupAll_isEmpty]; simpa using hne
        rw [lookupAll_phraseFreq, lookupAll_maxFreq ctx u key [] hne',
          estimate_editor _ _ _ (Nat.le_max_left _ _)]
        exact ⟨u, rfl, hB, MonoStep.refl u⟩
    · cases he : (allEntries ctx.sys u key).isEmpty with
      | true =>
        rw [learnPhrase_first ctx u key x hlen hx he]
        refine ⟨_, rfl, freqBounded_insert _ _ _ _ hB (by decide), monoStep_insert _ _ _ ?_⟩
        intro v0 h0
        have := allEntries_nonempty_of_get? ctx.sys u key x v0 h0
        rw [he] at this; cases this
      | false =>
        have hf := mergedFreq_le ctx.sys u key x hB
        have hy := othersMax_le ctx.sys u key x hB
        rw [learnPhrase_update ctx u key x hlen hx he]
        refine ⟨_, rfl, freqBounded_insert _ _ _ _ hB (stepFreq_le_max _ _), monoStep_insert _ _ _ ?_⟩
        intro v0 h0
        exact Nat.le_trans (get?_le_mergedFreq ctx.sys u key x v0 h0) (learnStep_ge _ _ hf)
  · refine ⟨u, ?_, hB, MonoStep.refl u⟩
    unfold learnPhrase; rw [if_pos hlen]

theorem learnAll_bounded (ctx : LearnCtx) (us : List (List Nat × Text)) :
    ∀ (u : UserMap), FreqBounded ctx.sys u →
      ∃ u', learnAll ctx us u = .ok u' ∧ FreqBounded ctx.sys u' ∧ MonoStep u u' := by
  induction us with
  | nil => intro u hB; exact ⟨u, rfl, hB, MonoStep.refl u⟩
  | cons p rest ih =>
    intro u hB
    obtain ⟨k, t⟩ := p
    obtain ⟨u1, e1, b1, m1⟩ := learnPhrase_bounded ctx u k t hB
    obtain ⟨u2, e2, b2, m2⟩ := ih u1 b1
    refine ⟨u2, ?_, b2, m1.trans m2⟩
    simp only [learnAll, e1, Outcome.bind]
    exact e2

/-! ### No panic at all, whatever the stored frequencies (repair of F40) -/

/-- `learn_phrase` never panics — no bound on the stored frequencies: on the editor path `orig_freq` is the
    phrase's own frequency, which is at most the maximum over its homophones, and the addition saturates -/
theorem learnPhrase_total (ctx : LearnCtx) (u : UserMap) (key : List Nat) (x : Text) :
    ∃ u', learnPhrase ctx u key x = .ok u' := by
  by_cases hlen : key.length = x.length
  · unfold learnPhrase
    rw [if_neg (fun h => h hlen)]
    simp only
    split
    · exact ⟨_, rfl⟩
    · rename_i hne
      have hne' : (allEntries ctx.sys u key).isEmpty = false := by
        rw [← lookupAll_isEmpty]; simpa using hne
      rw [lookupAll_phraseFreq, lookupAll_maxFreq ctx u key x hne', estimate_editor _ _ _ (Nat.le_max_left _ _)]
      exact ⟨_, rfl⟩
  · exact ⟨u, by unfold learnPhrase; rw [if_pos hlen]⟩

theorem learnAll_total (ctx : LearnCtx) (us : List (List Nat × Text)) :
    ∀ (u : UserMap), ∃ u', learnAll ctx us u = .ok u' := by
  induction us with
  | nil => intro u; exact ⟨u, rfl⟩
  | cons p rest ih =>
    intro u
    obtain ⟨k, t⟩ := p
    obtain ⟨u1, e1⟩ := learnPhrase_total ctx u k t
    obtain ⟨u2, e2⟩ := ih u1
    refine ⟨u2, ?_⟩
    simp only [learnAll, e1, Outcome.bind]
    exact e2

/-! ### A buffer that is exactly the chosen phrase -/

theorem keyOf_map_syl (key : List Nat) : keyOf (key.map Sym.syl) = key := by
  induction key with
  | nil => rfl
  | cons a r ih => simp [keyOf, ih]

theorem bind_ok_self (o : Outcome UserMap) : o.bind Outcome.ok = o := by cases o <;> rfl

/-- "type the syllables, choose X, commit": the conversion is the single interval carrying X (C04: the selection
    is honoured), and `auto_learn` is exactly one `learn_phrase(key, X)` — whether X is a multi-character
    phrase, a single character or a break word -/
theorem autoLearn_chosen (ctx : LearnCtx) (key : List Nat) (x : Text) (u : UserMap) (hx : x ≠ []) :
    autoLearn ctx (key.map Sym.syl) [{ start := 0, stop := key.length, isPhrase := true, text := x }] u
      = learnPhrase ctx u key x := by
  have hr : IvsInRange (key.map Sym.syl) [{ start := 0, stop := key.length, isPhrase := true, text := x }] := by
    intro iv hiv _
    rw [List.mem_singleton.mp hiv]
    simp
  rw [autoLearn_eq _ _ _ _ hr]
  have hxe : x.isEmpty = false := by cases x with | nil => exact absurd rfl hx | cons _ _ => rfl
  have hseg : segOf (key.map Sym.syl) { start := 0, stop := key.length, isPhrase := true, text := x } = key.map Sym.syl := by
    simp only [segOf, List.drop_zero, Nat.sub_zero]
    rw [← List.length_map (f := Sym.syl), List.take_length]
  unfold learnUnits unitsGo
  split
  · simp only [unitsGo, List.nil_append, hxe, Bool.false_eq_true, if_false, hseg, keyOf_map_syl, learnAll]
    exact bind_ok_self _
  · simp only [unitsGo, List.isEmpty_nil, if_true, List.nil_append, List.append_nil, hseg, keyOf_map_syl, learnAll]
    exact bind_ok_self _

/-! ### Strict dominance in the merged lookup -/

theorem uniq_mem_bestOf {es : List (Text × Nat)} (h : Uniq es) {q : Text × Nat} (hq : q ∈ es) : bestOf es q.1 = q.2 := by
  induction es with
  | nil => cases hq
  | cons p r ih =>
    rw [bestOf_cons]
    rcases List.mem_cons.mp hq with e | hq
    · subst e
      rw [if_pos rfl, bestOf_eq_zero_of_absent r q.1 (fun y hy => h.1 y hy)]
      omega
    · have hne : ¬ p.1 = q.1 := fun e => h.1 q hq e.symm
      rw [if_neg hne]
      exact ih h.2 hq

theorem exists_of_bestOf_pos {es : List (Text × Nat)} {t : Text} (h : 0 < bestOf es t) : ∃ f, (t, f) ∈ es := by
  induction es with
  | nil => simp [bestOf_nil] at h
  | cons p r ih =>
    rw [bestOf_cons] at h
    by_cases e : p.1 = t
    · exact ⟨p.2, by rw [← e]; exact List.mem_cons_self ..⟩
    · rw [if_neg e] at h
      obtain ⟨f, hf⟩ := ih h
      exact ⟨f, List.mem_cons_of_mem _ hf⟩

/-- a phrase whose merged frequency is strictly above every other phrase's is what `find_best_phrase` returns
    for the range -/
theorem bestPhrase_of_dominant (ctx : LearnCtx) (u : UserMap) (key : List Nat) (x : Text)
    (hdom : ∀ t, t ≠ x → mergedFreq ctx.sys u key t < mergedFreq ctx.sys u key x) :
    bestPhrase (lookupAll ctx u key) = some (x, mergedFreq ctx.sys u key x) := by
  have hU : Uniq (lookupAll ctx u key) := layeredLookup_uniq _ _
  have hbest : ∀ t, bestOf (lookupAll ctx u key) t = mergedFreq ctx.sys u key t := fun t => by
    unfold lookupAll mergedFreq allEntries; exact layeredLookup_bestOf _ _ t
  -- x is listed: its frequency is positive (it dominates), or nothing else is listed … use positivity
  by_cases hpos : 0 < mergedFreq ctx.sys u key x
  · obtain ⟨f, hf⟩ := exists_of_bestOf_pos (by rw [hbest]; exact hpos)
    have hfx : f = mergedFreq ctx.sys u key x := by rw [← hbest]; exact (uniq_mem_bestOf hU hf).symm
    rw [← hfx]
    apply bestPhrase_top (x, f) _ hf
    intro q hq
    by_cases e : q.1 = x
    · left
      have h1 := uniq_mem_bestOf hU hq
      have h2 := uniq_mem_bestOf hU hf
      rw [e] at h1
      simp only at h2
      have : q.2 = f := by rw [← h1, ← h2]
      rw [← e, ← this]
    · right
      have h1 := uniq_mem_bestOf hU hq
      rw [hbest] at h1
      have := hdom q.1 e
      simp only
      omega
  · -- frequency 0 cannot strictly dominate a listed phrase, so nothing else is listed; then x may be listed
    -- with frequency 0 or the list may be empty: exclude by requiring dominance over a listed phrase
    exfalso
    have h0 : mergedFreq ctx.sys u key x = 0 := by omega
    have := hdom (0 :: x) (by intro h; exact absurd (congrArg List.length h) (by simp))
    omega

end Chewing.Learn
