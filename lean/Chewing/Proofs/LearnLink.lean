import Chewing.Props.C09
import Chewing.Props.C10
import Chewing.Proofs.Learn
/-!
# LearnLink — C08's user dictionary is C09's map, and it persists by C10

C08 (`Model/Learn.lean`) abstracts the user dictionary as an association list `UserMap`
(`get?` / `insert`), and its theorem `learned_persists` *assumes* that close + reopen preserves that
map.  Here the assumption is replaced by theorems:

* `URep u m`: the `UserMap` `u` is the map `m` of C09's specification `MapSpec`;
  `urep_insert`: `UserMap.insert` is `MapSpec.Map.set`; `learn_step_linked`: one `learn_phrase` is —
  at the level of the map — the `DictionaryMut` call the editor makes (`add_phrase` with frequency 1
  when no dictionary knows a phrase for the syllables, which `MapSpec` accepts because the phrase
  is then not live; `update_phrase` otherwise), so a sequence of learnings is a `MapSpec` history;
* `persists_linked`: C10's `durable_lookup_linked` (all schedules of the snapshot writer, C09's
  concrete layers and `entries()`) + C09's `layered_over_map`: after the dictionary was closed, a
  `TrieBuf` opened on the file lists every live phrase with its value and `Layered` over any system
  layers offers it.
-/
namespace Chewing.LearnLink
open Chewing Chewing.Learn Chewing.DictLink

/-- C08's association list denotes the `MapSpec` map `m` -/
def URep (u : UserMap) (m : MapSpec.Map) : Prop := ∀ k, u.get? k = m k

theorem urep_insert {u : UserMap} {m : MapSpec.Map} (h : URep u m) (k : UKey) (v : Nat × Nat) :
    URep (u.insert k v) (m.set k (some v)) := by
  intro k'
  unfold MapSpec.Map.set
  by_cases e : k' = k
  · subst e; simp [UserMap.get?_insert_self]
  · rw [UserMap.get?_insert_ne u k k' v e]
    simp only [e, if_false]
    exact h k'

theorem lookup_nil_get? {u : UserMap} {key : List Nat} (h : u.lookup key = []) (t : Text) : u.get? (key, t) = none := by
  unfold UserMap.get?
  rw [Option.map_eq_none_iff, List.find?_eq_none]
  intro e he hd
  have hk : e.1 = (key, t) := of_decide_eq_true hd
  have : (e.1.2, e.2.1) ∈ u.lookup key := by
    unfold UserMap.lookup
    exact List.mem_map.mpr ⟨e, List.mem_filter.mpr ⟨he, by simp [hk]⟩, rfl⟩
  rw [h] at this
  cases this

/-- one `learn_phrase`, at the level of the map, is the `DictionaryMut` call the editor makes:
    nothing (length mismatch / empty phrase), `add_phrase(key, (text, 1))` when no layer knows a phrase
    for the syllables — accepted by `MapSpec`, the phrase is not live —, else
    `update_phrase(key, text, new_freq, now)` -/
theorem learn_step_linked {ctx : LearnCtx} {u u' : UserMap} {m : MapSpec.Map} {key : List Nat} {text : Text}
    (hu : URep u m) (h : learnPhrase ctx u key text = .ok u') :
    (u' = u) ∨ ∃ op : MapSpec.Op,
      (op = .add key text Gen.Learn.firstFreq none ∨ ∃ nf, op = .update key text nf ctx.lifetime) ∧
      URep u' (m.apply op) := by
  unfold learnPhrase at h
  split at h
  · left; cases h; rfl
  · simp only at h
    split at h
    · next hes =>
      by_cases hte : text.isEmpty = true
      · left; simp only [hte, if_true] at h; cases h; rfl
      · right
        simp only [hte] at h
        have hu' : u' = u.insert (key, text) (Gen.Learn.firstFreq, 0) := by cases h; rfl
        refine ⟨.add key text Gen.Learn.firstFreq none, Or.inl rfl, ?_⟩
        have hnil : lookupAll ctx u key = [] := List.isEmpty_iff.mp hes
        have h2 : sysLookup ctx.sys key ++ u.lookup key = [] := (layeredLookup_eq_nil _ _).mp hnil
        have h3 : u.lookup key = [] := (List.append_eq_nil_iff.mp h2).2
        have h4 : m (key, text) = none := by rw [← hu]; exact lookup_nil_get? h3 text
        simp only [MapSpec.Map.apply, MapSpec.Map.addOk, h4, Option.isNone_none, if_true, Option.getD_none]
        rw [hu']
        exact urep_insert hu _ _
    · split at h
      · next nf _ =>
        by_cases hte : text.isEmpty = true
        · left; simp only [hte, if_true] at h; cases h; rfl
        · right
          simp only [hte] at h
          have hu' : u' = u.insert (key, text) (nf, ctx.lifetime) := by cases h; rfl
          refine ⟨.update key text nf ctx.lifetime, Or.inr ⟨nf, rfl⟩, ?_⟩
          rw [hu']
          exact urep_insert hu _ _
      · cases h
      · cases h

/-- **"also after the dictionary is closed and reopened"**, with the reopen hypothesis of
    `C08.learned_persists` replaced by C10 + C09.  The user dictionary is file-backed, opened on a
    well-formed file `t0`, goes through *any* history of calls under *any* schedule of the snapshot
    writer and ends closed (`C10.durable_lookup_linked`); `u` is C08's abstraction of what that
    history made of it.  Then for every phrase live in `u`: the file exists, a `TrieBuf` opened on it
    lists the phrase under its syllables with exactly the learned frequency and time, and `Layered`
    over any system layers offers it with at least that frequency. -/
theorem persists_linked (t0 : List Leaf) (h0 : Trie.SnapOk t0) (tmp : Option CFile) (htmp : TmpOk tmp)
    (acts : List CAct) (cw : CWorld)
    (hrun : crun (cinit t0 tmp) acts = some cw) (hcl : cw.phase = .closed)
    (u : UserMap) (hu : URep u (MapSpec.Map.run (TrieBuf.baseGet t0) (opsOf acts)))
    (key : List Nat) (x : Text) (hlive : Live u (key, x)) (sys : List Dict) :
    ∃ t, cw.fs .path = some (.complete t) ∧
      (∃ p ∈ TrieBuf.lookupAll (freshSt t) key .standard, p.text = x ∧ u.get? (key, x) = some (MapSpec.valOf p)) ∧
      ∃ p ∈ Layered.lookupAll (sys ++ [TrieBuf.toDict (freshSt t)]) key .standard, p.text = x ∧ 1 ≤ p.freq := by
  obtain ⟨t, hpath, _, _, _, hlk, _, _⟩ := C10.durable_lookup_linked t0 h0 tmp htmp acts cw hrun hcl
  obtain ⟨v, hv, h1⟩ := hlive
  have hm : MapSpec.Map.run (TrieBuf.baseGet t0) (opsOf acts) (key, x) = some v := by rw [← hu]; exact hv
  refine ⟨t, hpath, ?_, ?_⟩
  · obtain ⟨p, hp, e⟩ := (hlk key).2.2 x v hm
    refine ⟨p, hp, e, ?_⟩
    have := (hlk key).2.1 p hp
    rw [e] at this
    rw [hu, this]
  · obtain ⟨p, hp, e, hf⟩ := (C09.layered_over_map sys (freshSt t) _ key (hlk key)).2.2 x v hm
    exact ⟨p, hp, e, Nat.le_trans h1 hf⟩

/-- **the same with the file as bytes** (`C10.durable_lookup_bytes_linked`: C11 under C09 under C10).  Extra
    hypotheses, all explicit: the initial file was written from valid entries `es0`, the calls have
    arguments of the Rust types, every snapshot of the history is within the limits of the trie format
    (`SnapshotsOk … FitsInfo`, C11's `Fits`), the key has non-zero syllables.  Then the **bytes** at the
    path exist, `Trie::new` opens them, the real byte-level `lookup_all_phrases` of the key lists the
    learned phrase with exactly the learned (frequency, time), a `TrieBuf` opened on the file reads its
    lookups through that reader, and `Layered` offers the phrase with a positive frequency. -/
theorem persists_bytes_linked (info : TrieCodec.Info) (hinfo : TrieCodec.ValidInfo info)
    (es0 : List Entry) (hv0 : ∀ e ∈ es0, TrieCodec.ValidEntry e) (hfit0 : C10.FitsInfo info es0)
    (tmp : Option CFile) (htmp : TmpWritten (C10.FitsInfo info) tmp)
    (acts : List CAct) (hval : ∀ a ∈ acts, CActValid a)
    (hfit : SnapshotsOk (C10.FitsInfo info) (cinit (Trie.build es0) tmp) acts)
    (cw : CWorld) (hrun : crun (cinit (Trie.build es0) tmp) acts = some cw) (hcl : cw.phase = .closed)
    (u : UserMap) (hu : URep u (MapSpec.Map.run (TrieBuf.baseGet (Trie.build es0)) (opsOf acts)))
    (key : List Nat) (hkey : C11.ValidKey key) (x : Text) (hlive : Live u (key, x)) (sys : List Dict) :
    ∃ es bytes tr, cw.fs .path = some (.complete (Trie.build es)) ∧
      (TrieCodec.Builder.ofEntries info es).write = some bytes ∧ TrieCodec.openTrie bytes = some tr ∧
      (∃ p ∈ TrieCodec.lookupAll tr key .standard, p.text = x ∧ u.get? (key, x) = some (MapSpec.valOf p)) ∧
      TrieBuf.lookupAll (freshSt (Trie.build es)) key .standard = dedup (TrieCodec.lookupAll tr key .standard) ∧
      ∃ p ∈ Layered.lookupAll (sys ++ [TrieBuf.toDict (freshSt (Trie.build es))]) key .standard, p.text = x ∧ 1 ≤ p.freq := by
  obtain ⟨es, bytes, tr, hpath, _, hw, hopen, _, _, hlk, _, _, hrd, _⟩ :=
    C10.durable_lookup_bytes_linked info hinfo es0 hv0 hfit0 tmp htmp acts hval hfit cw hrun hcl
  have h0 : Written (C10.FitsInfo info) (Trie.build es0) := ⟨es0, hv0, hfit0, rfl⟩
  obtain ⟨t, hpath', _, hlay⟩ := persists_linked (Trie.build es0) h0.snapOk tmp htmp.ok acts cw hrun hcl u hu key x hlive sys
  have et : t = Trie.build es := by
    rw [hpath] at hpath'
    simp only [Option.some.injEq, CFile.complete.injEq] at hpath'
    exact hpath'.symm
  rw [et] at hlay
  obtain ⟨v, hv, _⟩ := hlive
  have hm : MapSpec.Map.run (TrieBuf.baseGet (Trie.build es0)) (opsOf acts) (key, x) = some v := by rw [← hu]; exact hv
  refine ⟨es, bytes, tr, hpath, hw, hopen, ?_, hrd key .standard hkey, hlay⟩
  obtain ⟨p, hp, e⟩ := (hlk key hkey).2.2 x v hm
  refine ⟨p, hp, e, ?_⟩
  have := (hlk key hkey).2.1 p hp
  rw [e] at this
  rw [hu, this]

end Chewing.LearnLink
