import Chewing.Props.C07
import Chewing.Props.C03
import Chewing.Props.C09
import Chewing.Proofs.LearnLink
import Chewing.Proofs.LearnBound
/-!
# LearnLinkEditor — C08's "offered as a candidate" and "default conversion" on the editor / engine models

C08 (`Model/Learn.lean`) has its own small model of the merged lookup and of the default conversion.
This file ties its two remaining partial clauses to the models the other properties prove things about:

* **candidate window** (`learned_is_candidate`: "the merged lookup lists the learned phrase; that the
  candidate window shows the merged lookup is C07").  Here: the list the EDITOR MODEL
  (`Model/Editor.lean`: `PhraseSel.candidates`, `Selecting.candidates`, `openPhrase`) shows on a range whose
  symbols are the learned syllables contains the learned phrase — C07's `phrase_list_complete` + C09's
  `layered_over_map`, under the explicit link hypothesis that the environment's `lookupAll` of the
  dictionary state is `Layered.lookupAll` over system layers + a user layer denoting C08's `UserMap`.
* **default conversion** (`top_is_default`: graph-construction hypotheses `hg`, `hedge`, `huniq`, `hrest`).
  Here they are discharged on C03's engine model (`Model/Conversion.lean`): for a buffer of bare syllables
  without selections and without a `Break` inside, `find_intervals` puts exactly one whole-range edge into
  the graph, carrying `find_best_phrase`'s pick (`whole_edge`, `whole_edge_unique`), the breadth-first
  `shortest_path` returns that single edge (`shortestPath_direct`), `find_k_paths` keeps it first
  (`kLoop_prefix`), `trim_paths` discards every other k-path (`trimPaths_direct`), so `convertChewing`
  returns exactly one alternative, the single interval with the most frequent phrase.
-/
namespace Chewing.LearnLinkEd
open Chewing

/-! ## 1. The learned phrase is in the candidate list of the editor model -/

section candidate
variable {D L : Type} (env : Env D L)

/-- C09: `Layered` over any system layers and a user layer whose exact lookup of `key` is a correct answer
    for the map `m` that C08's `UserMap` `u` denotes lists every live phrase of `u` under `key` -/
theorem layered_lists_live {u : Learn.UserMap} {m : MapSpec.Map} (hu : LearnLink.URep u m)
    (sys : List Dict) (us : TrieBuf.State) (key : List Nat)
    (hlk : MapSpec.IsLookup m key (TrieBuf.lookupAll us key .standard))
    {x : Text} (hlive : Learn.Live u (key, x)) :
    ∃ p ∈ Layered.lookupAll (sys ++ [TrieBuf.toDict us]) key .standard, p.text = x ∧ 1 ≤ p.freq := by
  obtain ⟨v, hv, h1⟩ := hlive
  have hm : m (key, x) = some v := by rw [← hu]; exact hv
  obtain ⟨p, hp, e, hf⟩ := (C09.layered_over_map sys us m key hlk).2.2 x v hm
  exact ⟨p, hp, e, Nat.le_trans h1 hf⟩

/-- C07: a phrase list over the syllables `key` shows the text of every phrase the environment's dictionary
    returns for `key` under the selector's strategy -/
theorem listed_of_lookup {p : PhraseSel} {d : D} {l : L} {key : List Nat} {cs : List Text}
    (hr : C07.RangeIs p key) (hc : PhraseSel.candidates env p d l = .ok cs)
    {x : Text} (hx : ∃ ph ∈ env.lookupAll d key p.strategy, ph.text = x) : x ∈ cs := by
  obtain ⟨ph, hph, e⟩ := hx
  rw [← e]
  exact (C07.phrase_list_complete env hr hc).2.2 ph hph

/-- **learned ⇒ candidate, on the selector of the editor model.**  Link hypotheses, all explicit:
    `hu` + `hlk`: the user layer `us` (C09's concrete `TrieBuf`) answers the exact lookup of `key` as the map
    that C08's `UserMap` `u` denotes (`C09.lookup_exact` gives this in every state satisfying `TrieBuf.Inv`
    whose `abs` is that map); `henv`: for the dictionary state `d`, the environment's `lookupAll` of `key` IS
    `Layered::lookup_all_phrases` over some system layers and that user layer; `hst`: exact lookup
    (`LookupStrategy::Standard`).  Then ANY phrase list (`PhraseSelector::candidates`) whose range is the
    syllables `key` contains every phrase live in `u` under `key` — in particular the one just learned. -/
theorem candidate_of_live {u : Learn.UserMap} {m : MapSpec.Map} (hu : LearnLink.URep u m)
    (sys : List Dict) (us : TrieBuf.State) {key : List Nat}
    (hlk : MapSpec.IsLookup m key (TrieBuf.lookupAll us key .standard))
    {d : D} (henv : env.lookupAll d key .standard = Layered.lookupAll (sys ++ [TrieBuf.toDict us]) key .standard)
    {p : PhraseSel} (hst : p.strategy = .standard) (hr : C07.RangeIs p key)
    {l : L} {cs : List Text} (hc : PhraseSel.candidates env p d l = .ok cs)
    {x : Text} (hlive : Learn.Live u (key, x)) : x ∈ cs := by
  obtain ⟨ph, hph, e, _⟩ := layered_lists_live hu sys us key hlk hlive
  exact listed_of_lookup env hr hc ⟨ph, by rw [hst, henv]; exact hph, e⟩

/-! ### the list the editor opens on the bare syllables -/

/-- `next_break_point` on a buffer of syllables only: the end of the buffer -/
theorem nextBreakPoint_go_syl (s : PhraseSel) (key : List Nat) (hsym : s.com.symbols = key.map Sym.syl) :
    ∀ (fuel c : Nat), c ≤ key.length → key.length - c < fuel → PhraseSel.nextBreakPoint.go s fuel c = key.length := by
  have hlen : s.com.len = key.length := by simp [Composition.len, hsym]
  intro fuel
  induction fuel with
  | zero => intro c _ h; omega
  | succ fuel ih =>
    intro c hc hf
    unfold PhraseSel.nextBreakPoint.go
    by_cases e : key.length = c
    · simp [hlen, e]
    · have hne : (s.com.len == c) = false := by simp [hlen, e]
      rw [hne]
      have hlt : c < key.length := by omega
      have hsy : s.com.symbol? c = some (Sym.syl key[c]) := by
        unfold Composition.symbol?
        rw [if_neg (by rw [hlen]; omega), hsym]
        simp [hlt]
      simp only [Bool.false_eq_true, if_false, hsy, Sym.isSyl, Bool.not_true]
      exact ih (c + 1) (by omega) (by omega)

/-- **"type the syllables alone, open the candidate list"** on the editor model: the buffer holds exactly the
    syllables `key` (non-empty), the cursor is at the beginning, choosing forward (the default).  If the
    dictionary returns anything for `key`, `open_phrase` opens a phrase list over the whole buffer, whose
    range is `key` and whose candidates are the dictionary's answer for `key` (C07) -/
theorem openPhrase_bare {sh : Shared D L} {key : List Nat} (hkey : key ≠ [])
    (hsym : sh.com.inner.symbols = key.map Sym.syl) (hcur : sh.com.cursor = 0)
    (hfw : sh.options.phraseChoiceRearward = false)
    (hne : env.lookupAll sh.dict key sh.options.lookupStrategy ≠ []) :
    ∃ sh' s p cs, openPhrase env sh = .ok (sh', .toState (.selecting s)) ∧ s.sel = .phrase p ∧
      sh'.dict = sh.dict ∧ p.strategy = sh.options.lookupStrategy ∧
      p.begin_ = 0 ∧ p.end_ = key.length ∧ C07.RangeIs p key ∧
      Selecting.candidates env s sh' = .ok cs ∧
      ∀ ph ∈ env.lookupAll sh.dict key sh.options.lookupStrategy, ph.text ∈ cs := by
  have hpos : 0 < key.length := List.length_pos_iff.mpr hkey
  have hlen : sh.com.inner.len = key.length := by simp [Composition.len, hsym]
  -- the cursor stays at 0
  have hclamp : sh.com.pushCursor.clampCursor = sh.com.pushCursor := by
    unfold CompEditor.clampCursor
    rw [if_neg]
    show ¬ sh.com.cursor = sh.com.inner.len
    rw [hcur, hlen]; omega
  let p0 : PhraseSel :=
    { begin_ := 0, end_ := key.length, forward := true, orig := 0, strategy := sh.options.lookupStrategy,
      com := sh.com.inner }
  have hslice : sliceSyms p0.com.symbols p0.begin_ p0.end_ = .ok (key.map Sym.syl) := by
    show sliceSyms sh.com.inner.symbols 0 key.length = _
    unfold sliceSyms
    rw [hsym, if_neg (by omega), if_neg (by simp)]
    rw [List.drop_zero, Nat.sub_zero, List.take_of_length_le (by simp)]
  have hinit : PhraseSel.init env true sh.options.lookupStrategy sh.com.inner 0 sh.dict = .ok p0 := by
    unfold PhraseSel.init
    simp only [if_true]
    have h1 : ¬ ((0 == sh.com.inner.len) = true ∧ ((0 : Nat) == 0) = true) := by
      rw [hlen]; intro h; have := h.1; simp at this; omega
    rw [if_neg h1]
    have h2 : ((0 : Nat) == sh.com.inner.len) = false := by rw [hlen]; simp; omega
    simp only [h2, Bool.false_eq_true, if_false]
    have hnb : PhraseSel.nextBreakPoint
        { begin_ := 0, end_ := sh.com.inner.len, forward := true, orig := 0, strategy := sh.options.lookupStrategy,
          com := sh.com.inner } 0 = key.length := by
      unfold PhraseSel.nextBreakPoint
      exact nextBreakPoint_go_syl _ key hsym _ 0 (Nat.zero_le _) (by show key.length - 0 < sh.com.inner.len + 1; rw [hlen]; omega)
    rw [hnb]
    show PhraseSel.initLoop env p0 sh.dict (sh.com.inner.len + 2) = .ok p0
    unfold PhraseSel.initLoop
    have h3 : ¬ (p0.begin_ > p0.end_) := by show ¬ (0 > key.length); omega
    have h4 : ¬ (p0.end_ > p0.com.len) := by show ¬ (key.length > sh.com.inner.len); omega
    have h5 : (p0.begin_ == p0.end_) = false := by show ((0 : Nat) == key.length) = false; simp; omega
    rw [if_neg h3, if_neg h4, h5]
    simp only [Bool.false_eq_true, if_false]
    have hrp : PhraseSel.rangeHasPhrase env p0 sh.dict p0.begin_ p0.end_ = .ok true := by
      unfold PhraseSel.rangeHasPhrase
      rw [hslice]
      simp only [C07.sylPrefix_map]
      unfold Env.hasPhrase
      cases hq : env.lookupAll sh.dict key sh.options.lookupStrategy with
      | nil => exact absurd hq hne
      | cons a r => rfl
    rw [hrp]
  have hnew : newPhrase env sh = .ok ({ sh with com := sh.com.pushCursor },
      .toState (.selecting { pageNo := 0, action := .replace, sel := .phrase p0 })) := by
    unfold newPhrase
    simp only [hclamp, hfw, Bool.not_false]
    have : sh.com.pushCursor.cursor = 0 := hcur
    have hin : sh.com.pushCursor.inner = sh.com.inner := rfl
    rw [this, hin, hinit]
  have hr : C07.RangeIs p0 key := hslice
  -- the candidate list of that selector
  have hcand : ∃ cs, PhraseSel.candidates env p0 sh.dict sh.syl = .ok cs := by
    unfold PhraseSel.candidates
    rw [hslice]
    simp only [C07.sylPrefix_map]
    by_cases h1 : key.length = 1
    · have hsy : p0.com.symbol? p0.begin_ = some (Sym.syl key[0]) := by
        show sh.com.inner.symbol? 0 = _
        unfold Composition.symbol?
        rw [if_neg (by rw [hlen]; omega), hsym]
        simp [hpos]
      have hb : (p0.end_ - p0.begin_ == 1) = true := by show (key.length - 0 == 1) = true; simp [h1]
      rw [hb, hsy]
      exact ⟨_, rfl⟩
    · have hb : (p0.end_ - p0.begin_ == 1) = false := by show (key.length - 0 == 1) = false; simp [h1]
      rw [hb]
      exact ⟨_, rfl⟩
  obtain ⟨cs, hcs⟩ := hcand
  have hall := (C07.phrase_list_complete env hr hcs).2.2
  have hcsne : cs ≠ [] := by
    cases hq : env.lookupAll sh.dict key sh.options.lookupStrategy with
    | nil => exact absurd hq hne
    | cons a r =>
      have := hall a (by show a ∈ env.lookupAll sh.dict key sh.options.lookupStrategy; rw [hq]; exact List.mem_cons_self ..)
      intro h0; rw [h0] at this; cases this
  refine ⟨{ sh with com := sh.com.pushCursor }, { pageNo := 0, action := .replace, sel := .phrase p0 }, p0, cs,
    ?_, rfl, rfl, rfl, rfl, rfl, hr, hcs, hall⟩
  unfold openPhrase
  rw [hnew]
  simp only
  have hc2 : Selecting.candidates env { pageNo := 0, action := .replace, sel := .phrase p0 }
      { sh with com := sh.com.pushCursor } = .ok cs := hcs
  rw [hc2]
  cases cs with
  | nil => exact absurd rfl hcsne
  | cons a r => rfl

end candidate

/-! ## 2. The default conversion of the bare syllables, on C03's engine model -/

section engine
open Conv

/-- `x` is the text of a phrase of `ps` whose frequency is strictly above that of every phrase with another text -/
def Dominant (ps : List Phrase) (x : Text) : Prop :=
  ∃ p ∈ ps, p.text = x ∧ ∀ q ∈ ps, q.text ≠ x → q.freq < p.freq

/-- the `'next_phrase` loop of `find_best_phrase` without selections: the result is a phrase of maximal
    frequency (of the list and the running best) -/
theorem pickBest_nil_spec (s e : Nat) : ∀ (ps : List Phrase) (best : Option Phrase),
    ∃ r, pickBest [] s e ps best = .ok r ∧
      (r = best ∨ ∃ p ∈ ps, r = some p) ∧
      (∀ q ∈ ps, ∃ p, r = some p ∧ q.freq ≤ p.freq) ∧
      (∀ b, best = some b → ∃ p, r = some p ∧ b.freq ≤ p.freq) := by
  intro ps
  induction ps with
  | nil =>
    intro best
    exact ⟨best, rfl, .inl rfl, (fun _ h => by cases h), (fun b hb => ⟨b, hb, Nat.le_refl _⟩)⟩
  | cons p ps ih =>
    intro best
    have hok : phraseOk s e p [] = .ok true := rfl
    cases best with
    | none =>
      obtain ⟨r, h1, h2, h3, h4⟩ := ih (some p)
      refine ⟨r, ?_, ?_, ?_, fun b hb => by cases hb⟩
      · unfold pickBest; rw [hok]; exact h1
      · rcases h2 with h2 | ⟨p', hp', h2⟩
        · exact .inr ⟨p, List.mem_cons_self .., h2⟩
        · exact .inr ⟨p', List.mem_cons_of_mem _ hp', h2⟩
      · intro q hq
        rcases List.mem_cons.mp hq with rfl | hq
        · exact h4 q rfl
        · exact h3 q hq
    | some b =>
      by_cases hgt : p.freq > b.freq
      · obtain ⟨r, h1, h2, h3, h4⟩ := ih (some p)
        refine ⟨r, ?_, ?_, ?_, ?_⟩
        · unfold pickBest; rw [hok]; simp only [hgt, decide_true, if_true]; exact h1
        · rcases h2 with h2 | ⟨p', hp', h2⟩
          · exact .inr ⟨p, List.mem_cons_self .., h2⟩
          · exact .inr ⟨p', List.mem_cons_of_mem _ hp', h2⟩
        · intro q hq
          rcases List.mem_cons.mp hq with rfl | hq
          · exact h4 q rfl
          · exact h3 q hq
        · intro b' hb'
          cases hb'
          obtain ⟨p', e1, e2⟩ := h4 p rfl
          exact ⟨p', e1, by omega⟩
      · obtain ⟨r, h1, h2, h3, h4⟩ := ih (some b)
        refine ⟨r, ?_, ?_, ?_, h4⟩
        · unfold pickBest; rw [hok]; simp only [hgt, decide_false, Bool.false_eq_true, if_false]; exact h1
        · rcases h2 with h2 | ⟨p', hp', h2⟩
          · exact .inl h2
          · exact .inr ⟨p', List.mem_cons_of_mem _ hp', h2⟩
        · intro q hq
          rcases List.mem_cons.mp hq with rfl | hq
          · obtain ⟨p', e1, e2⟩ := h4 b rfl
            exact ⟨p', e1, by omega⟩
          · exact h3 q hq

/-- … so with a dominant phrase `x` the loop returns a phrase of the list with text `x` -/
theorem pickBest_dominant {ps : List Phrase} {x : Text} (h : Dominant ps x) (s e : Nat) :
    ∃ p ∈ ps, p.text = x ∧ pickBest [] s e ps none = .ok (some p) := by
  obtain ⟨px, hpx, hx, hdom⟩ := h
  obtain ⟨r, h1, h2, h3, _⟩ := pickBest_nil_spec s e ps none
  obtain ⟨p, hr, hle⟩ := h3 px hpx
  subst hr
  rcases h2 with h2 | ⟨p', hp', h2⟩
  · cases h2
  · cases h2
    refine ⟨p, hp', ?_, h1⟩
    apply Classical.byContradiction
    intro hne
    have := hdom p hp' hne
    omega

/-- a buffer that holds exactly the syllables `key`: no selection, no `Break` gap strictly inside -/
structure Bare (c : Composition) (key : List Nat) : Prop where
  sym : c.symbols = key.map Sym.syl
  lens : c.symbols.length = c.gaps.length
  sel : c.selections = []
  nobrk : hasBreakInside c 0 key.length = false

theorem Bare.compValid {c : Composition} {key : List Nat} (h : Bare c key) : CompValid c where
  lens := h.lens
  sels := by intro x hx; rw [h.sel] at hx; cases hx
  disjoint := by rw [h.sel]; exact List.Pairwise.nil

theorem Bare.len {c : Composition} {key : List Nat} (h : Bare c key) : c.symbols.length = key.length := by
  rw [h.sym, List.length_map]

theorem conv_sylPrefix_map (key : List Nat) : Conv.sylPrefix (key.map Sym.syl) = key := by
  induction key with
  | nil => rfl
  | cons k ks ih => simp only [List.map, Conv.sylPrefix, ih]

/-- the composition the editor holds after the syllables `key` were typed alone (gaps `Begin`, `Normal`, …) -/
def bareComp (key : List Nat) : Composition :=
  { symbols := key.map Sym.syl, gaps := (List.range key.length).map (fun i => if i = 0 then Gap.begin else Gap.normal),
    selections := [] }

theorem bareComp_bare (key : List Nat) : Bare (bareComp key) key where
  sym := rfl
  lens := by simp [bareComp]
  sel := rfl
  nobrk := by
    rw [hasBreakInside_eq_false_iff]
    intro i h1 h2
    have hg : gapAt (bareComp key) i = some Gap.normal := by
      unfold gapAt bareComp
      simp only [List.length_map]
      rw [if_pos h2, List.getElem?_map, List.getElem?_range h2]
      simp only [Option.map_some]
      rw [if_neg (by omega)]
    rw [hg]; simp

/-- **`hedge`, first half**: `find_best_phrase` over the whole bare buffer returns the dominant phrase -/
theorem findBestPhrase_whole {d : Dict} {strat : Strategy} {c : Composition} {key : List Nat} {x : Text}
    (hb : Bare c key) (hkey : key ≠ []) (hd : Dominant (d.lookup key strat) x) :
    ∃ p ∈ d.lookup key strat, p.text = x ∧ findBestPhrase d strat c 0 key.length = .ok (some (.phrase p)) := by
  obtain ⟨p, hp, hx, hpick⟩ := pickBest_dominant hd 0 key.length
  refine ⟨p, hp, hx, ?_⟩
  have hs : slice c 0 key.length = key.map Sym.syl := by
    unfold slice
    rw [hb.sym, List.drop_zero, Nat.sub_zero, List.take_of_length_le (by simp)]
  have hne : (key.map Sym.syl).isEmpty = false := by
    cases key with
    | nil => exact absurd rfl hkey
    | cons _ _ => rfl
  have hconf : selConflict c 0 key.length = false := by unfold selConflict; rw [hb.sel]; rfl
  have hall : ((key.map Sym.syl).any fun sym => !sym.isSyl) = false := by
    rw [List.any_eq_false]
    intro a ha
    obtain ⟨k, _, rfl⟩ := List.mem_map.mp ha
    simp [Sym.isSyl]
  unfold findBestPhrase
  rw [hs, hne, hb.nobrk, hconf]
  simp only [Bool.false_eq_true, if_false]
  split
  · rename_i cp heq
    cases key with
    | nil => exact absurd rfl hkey
    | cons k ks => simp at heq
  · rw [hall]
    simp only [Bool.false_eq_true, if_false]
    rw [conv_sylPrefix_map, hb.sel, hpick]

/-- **`hedge`**: the graph `find_intervals` builds has the whole-range edge carrying `find_best_phrase`'s answer -/
theorem whole_edge {d : Dict} {strat : Strategy} {c : Composition} {es : List Edge} {ph : PPhrase}
    (hes : findIntervals d strat c = .ok es) (hpos : 0 < c.symbols.length)
    (hf : findBestPhrase d strat c 0 c.symbols.length = .ok (some ph)) :
    (⟨0, c.symbols.length, ph⟩ : Edge) ∈ es :=
  collectEdges_complete hes (mem_pairs.mpr ⟨hpos, Nat.zero_le _, Nat.le_refl _⟩) hf

/-- **`huniq`**: `find_intervals` makes at most one edge per (start, end) -/
theorem edge_unique {d : Dict} {strat : Strategy} {c : Composition} {es : List Edge}
    (hes : findIntervals d strat c = .ok es) {e e' : Edge} (he : e ∈ es) (he' : e' ∈ es)
    (h1 : e.start = e'.start) (h2 : e.stop = e'.stop) : e = e' := by
  have a := (collectEdges_mem hes he).2
  have b := (collectEdges_mem hes he').2
  rw [h1, h2, b] at a
  have := Outcome.ok.inj a
  cases e; cases e'
  simp only at h1 h2 this
  simp only [Option.some.injEq] at this
  subst h1 h2 this
  rfl

/-- the `for edge in next_edges` loop from the source when the source has an edge `E` to the sink (and no
    other edge to the sink): it breaks out of the search with `parent[len] = E` -/
theorem bfsEdges_direct {n : Nat} {E : Edge} (hE : E.stop = n) : ∀ (l : List Edge) (par : List (Option Edge)) (q : List Nat),
    (∀ e ∈ l, e.start < e.stop ∧ e.stop ≤ n) → (∀ e ∈ l, e.stop = n → e = E) → E ∈ l →
    par.length = n + 1 → par[n]? = some none →
    ∃ par' q', bfsEdges n [] l par q = .ok (par', q', true) ∧ par'[n]? = some (some E) := by
  intro l
  induction l with
  | nil => intro _ _ _ _ h; cases h
  | cons e es ih =>
    intro par q hv hu hm hlen hpn
    obtain ⟨hv1, hv2⟩ := hv e (List.mem_cons_self ..)
    obtain ⟨idx, hidx⟩ := edgeIdx_ok hv1 hv2
    unfold bfsEdges
    rw [hidx]
    simp only [List.not_mem_nil, if_false]
    have hin : e.stop < par.length := by omega
    rw [List.getElem?_eq_getElem hin]
    simp only
    by_cases hs : e.stop = n
    · have heq : e = E := hu e (List.mem_cons_self ..) hs
      have hslot : par[e.stop] = none := by
        have := hpn
        rw [← hs, List.getElem?_eq_getElem hin] at this
        exact Option.some.inj this
      rw [hslot]
      simp only [Option.isNone_none, if_true, hs]
      refine ⟨_, _, rfl, ?_⟩
      rw [List.getElem?_set_self (by omega), heq]
    · simp only [hs, if_false]
      have hE' : E ∈ es := by
        rcases List.mem_cons.mp hm with h | h
        · exact absurd (by rw [← h]; exact hE) hs
        · exact h
      apply ih _ _ (fun a ha => hv a (List.mem_cons_of_mem _ ha)) (fun a ha => hu a (List.mem_cons_of_mem _ ha)) hE'
      · split <;> simp [hlen]
      · split
        · rw [List.getElem?_set_ne (by omega)]; exact hpn
        · exact hpn

/-- **the first k-path is the whole-range edge** (`hg` + BFS): on a graph of valid edges in which the source
    has an edge `E` over the whole range — the only such edge — `shortest_path(graph, [], 0, len)` is `[E]` -/
theorem shortestPath_direct {es : List Edge} {n : Nat} {E : Edge} (hv : EdgesValid n es) (hn : 0 < n)
    (hE : E ∈ es) (h0 : E.start = 0) (h1 : E.stop = n)
    (hu : ∀ e ∈ es, e.start = 0 → e.stop = n → e = E) :
    shortestPath es n [] 0 = .ok (some [E]) := by
  have hout : ∀ e ∈ outEdges es 0, e ∈ es ∧ e.start = 0 := by
    intro e he
    have := List.mem_filter.mp he
    exact ⟨this.1, by simpa using this.2⟩
  obtain ⟨par', q', hb, hp⟩ := bfsEdges_direct h1 (outEdges es 0) (List.replicate (n + 1) none) []
    (fun e he => hv e (hout e he).1) (fun e he hs => hu e (hout e he).1 (hout e he).2 hs)
    (List.mem_filter.mpr ⟨hE, by simp [h0]⟩) (by simp) (by simp)
  unfold shortestPath
  have hl : bfsLoop es n [] (n + 2) (List.replicate (n + 1) none) [0] = .ok par' := by
    show bfsLoop es n [] ((n + 1) + 1) (List.replicate (n + 1) none) [0] = .ok par'
    unfold bfsLoop
    rw [hb]
    rfl
  rw [hl]
  simp only
  unfold walkBack
  rw [if_neg (by omega)]
  simp only [hp]
  unfold walkBack
  rw [if_pos h0]

/-- `find_k_paths` only ever appends to the list of found paths -/
theorem kLoop_prefix {pick : Nat → List Path → Nat} {es : List Edge} {len : Nat} :
    ∀ (rem kth : Nat) (ksp cands : List Path) (removed : List Nat) (r : List Path),
      kLoop pick es len rem kth ksp cands removed = .ok r → ∃ t, r = ksp ++ t := by
  intro rem
  induction rem with
  | zero =>
    intro kth ksp cands removed r h
    simp only [kLoop] at h
    exact ⟨[], by rw [← Outcome.ok.inj h]; simp⟩
  | succ rem ih =>
    intro kth ksp cands removed r h
    unfold kLoop at h
    split at h
    · cases h
    · split at h
      · split at h
        · exact ⟨[], by rw [← Outcome.ok.inj h]; simp⟩
        · split at h
          · cases h
          · obtain ⟨t, ht⟩ := ih _ _ _ _ _ h
            exact ⟨_, by rw [ht, List.append_assoc]⟩
      · cases h
      · cases h

/-- `PossiblePath::contains`: the single whole-range interval contains every path of non-empty intervals
    inside the range -/
theorem pathContains_whole {E : Edge} (h0 : E.start = 0) : ∀ cand : Path,
    (∀ o ∈ cand, 0 < o.stop ∧ o.stop ≤ E.stop) → pathContains [E] cand = true := by
  intro cand
  induction cand with
  | nil => intro _; rfl
  | cons o os ih =>
    intro h
    obtain ⟨a, b⟩ := h o (List.mem_cons_self ..)
    have hadv : advance o [E] = some [E] := by
      unfold advance
      rw [if_pos (by omega), if_pos ⟨by omega, by omega⟩]
    unfold pathContains
    rw [hadv]
    exact ih (fun o' ho' => h o' (List.mem_cons_of_mem _ ho'))

/-- **`hrest` is all `trim_paths` needs**: with the whole-range path first, every other k-path is discarded -/
theorem trimPaths_direct {E : Edge} (h0 : E.start = 0) (rest : List Path)
    (hrest : ∀ cnd ∈ rest, ∀ o ∈ cnd, 0 < o.stop ∧ o.stop ≤ E.stop) : trimPaths ([E] :: rest) = [[E]] := by
  have hstep : ∀ cnd, (∀ o ∈ cnd, 0 < o.stop ∧ o.stop ≤ E.stop) → trimStep [[E]] cnd = [[E]] := by
    intro cnd h
    unfold trimStep
    simp only [trimInner, pathContains_whole h0 cnd h, Bool.or_true, if_true, List.nil_append]
  have hfold : ∀ rest : List Path, (∀ cnd ∈ rest, ∀ o ∈ cnd, 0 < o.stop ∧ o.stop ≤ E.stop) →
      rest.foldl trimStep [[E]] = [[E]] := by
    intro rest
    induction rest with
    | nil => intro _; rfl
    | cons a r ih =>
      intro h
      rw [List.foldl_cons, hstep a (h a (List.mem_cons_self ..))]
      exact ih (fun cnd hc => h cnd (List.mem_cons_of_mem _ hc))
  unfold trimPaths
  rw [List.foldl_cons]
  have : trimStep [] [E] = [[E]] := rfl
  rw [this]
  exact hfold rest hrest

/-- **the default conversion of the bare syllables, on C03's engine model.**  For every pick oracle in range,
    every dictionary and strategy: if the buffer holds exactly the syllables `key` (`Bare`: no selection, no
    `Break` inside) and the dictionary's answer for `key` has a phrase `x` whose frequency is strictly above
    every phrase with another text, `ChewingEngine::convert` returns exactly ONE alternative: the single
    interval over the whole buffer showing `x`.  No hypothesis about the graph, the k-paths or the scores is
    left; neither `ScoreBound` (a single path is never scored) nor `WellFormed` is needed. -/
theorem convertChewing_dominant {pick : Nat → List Path → Nat} (hpick : PickInRange pick) {d : Dict} {strat : Strategy}
    {c : Composition} {key : List Nat} {x : Text} (hb : Bare c key) (hkey : key ≠ [])
    (hd : Dominant (d.lookup key strat) x) :
    convertChewing pick d strat c = .ok [[{ start := 0, stop := key.length, isPhrase := true, text := x }]] := by
  have hlen := hb.len
  have hpos : 0 < key.length := List.length_pos_iff.mpr hkey
  obtain ⟨p, _, hx, hf⟩ := findBestPhrase_whole (d := d) (strat := strat) hb hkey hd
  obtain ⟨es, paths, hes, hraw, _, _⟩ := rawPaths_live (d := d) (strat := strat) hpick hb.compValid
  have hv : EdgesValid key.length es := by rw [← hlen]; exact edgesValid_of_findIntervals hes
  let E : Edge := ⟨0, key.length, .phrase p⟩
  have hE : E ∈ es := by
    have := whole_edge hes (by rw [hlen]; exact hpos) (by rw [hlen]; exact hf)
    rw [hlen] at this; exact this
  have hsp : shortestPath es key.length [] 0 = .ok (some [E]) :=
    shortestPath_direct hv hpos hE rfl rfl (fun e he a b => edge_unique hes he hE a b)
  have hk : findKPaths pick maxOutPaths key.length es = .ok paths := by
    unfold rawPaths at hraw
    rw [hes, hlen] at hraw
    exact hraw
  have hchain := findKPaths_chain hk
  obtain ⟨rest, hpaths⟩ : ∃ rest, paths = [E] :: rest := by
    unfold findKPaths at hk
    split at hk
    · cases hk
    · rw [hsp] at hk
      simp only at hk
      obtain ⟨t, ht⟩ := kLoop_prefix _ _ _ _ _ _ hk
      exact ⟨t, by rw [ht]; rfl⟩
  have htrim : trimPaths paths = [[E]] := by
    rw [hpaths]
    apply trimPaths_direct rfl
    intro cnd hc o ho
    have hm : o ∈ es := (hchain cnd (by rw [hpaths]; exact List.mem_cons_of_mem _ hc)).mem ho
    have := hv o hm
    exact ⟨by omega, this.2⟩
  unfold convertChewing
  rw [if_neg (by omega), hraw]
  simp only
  unfold finishPaths
  rw [htrim]
  simp [sortPaths, gluePath, glueStep, toInterval, E, PPhrase.text, hx]

end engine

/-! ## 3. From C08's frequencies (`mergedFreq`) to the dictionary the engine reads -/

section bridge
open Conv

/-- a positive `bestOf` is attained by an entry -/
theorem bestOf_attained {l : List (Text × Nat)} {t : Text} (h : 0 < Learn.bestOf l t) : (t, Learn.bestOf l t) ∈ l := by
  induction l with
  | nil => simp [Learn.bestOf_nil] at h
  | cons p r ih =>
    rw [Learn.bestOf_cons] at h ⊢
    by_cases e : p.1 = t
    · rw [if_pos e] at h ⊢
      by_cases hm : Learn.bestOf r t ≤ p.2
      · rw [Nat.max_eq_left hm]
        have : p = (t, p.2) := by rw [← e]
        rw [← this]; exact List.mem_cons_self ..
      · rw [Nat.max_eq_right (by omega)]
        exact List.mem_cons_of_mem _ (ih (by omega))
    · rw [if_neg e] at h ⊢
      exact List.mem_cons_of_mem _ (ih h)

/-- order-free link between a dictionary answer `ps` and a list `es` of (text, frequency) pairs: the same
    set of pairs -/
structure SamePairs (ps : List Phrase) (es : List (Text × Nat)) : Prop where
  sound : ∀ q ∈ ps, (q.text, q.freq) ∈ es
  complete : ∀ e ∈ es, ∃ q ∈ ps, q.text = e.1 ∧ q.freq = e.2

/-- strict dominance of `x` among the pairs `es` is `Dominant` for every answer with the same pairs -/
theorem dominant_of_pairs {ps : List Phrase} {es : List (Text × Nat)} {x : Text} (hp : SamePairs ps es)
    (hdom : ∀ t, t ≠ x → Learn.bestOf es t < Learn.bestOf es x) : Dominant ps x := by
  have hpos : 0 < Learn.bestOf es x := by
    have := hdom (0 :: x) (by intro h; have := congrArg List.length h; simp at this)
    omega
  obtain ⟨q, hq, e1, e2⟩ := hp.complete _ (bestOf_attained hpos)
  refine ⟨q, hq, e1, ?_⟩
  intro q' hq' hne
  have h1 := Learn.le_bestOf_of_mem (hp.sound q' hq')
  have h2 := hdom q'.text hne
  simp only at e2
  omega

/-- **C09's max-merge keeps dominance**: if `x` dominates the raw answers of the layers (`Layered.candidates`:
    system layers in order, then the user layer), it dominates `Layered::lookup_all_phrases` -/
theorem dominant_layered {layers : List Dict} {key : List Nat} {st : Strategy} {x : Text}
    (h : Dominant (Layered.candidates layers key st) x) : Dominant (Layered.lookupAll layers key st) x := by
  obtain ⟨px, hpx, hx, hdom⟩ := h
  obtain ⟨_, h2, h3, _⟩ := C09.layered_union layers key st
  have hc : ∀ p, p ∈ Layered.candidates layers key st ↔ ∃ d ∈ layers, p ∈ d.lookup key st := by
    intro p; simp [Layered.candidates, List.mem_flatMap]
  obtain ⟨dx, hdx, hpdx⟩ := (hc px).mp hpx
  have hxin : x ∈ texts (Layered.lookupAll layers key st) :=
    (h2 x).mpr ⟨dx, hdx, mem_texts.mpr ⟨px, hpdx, hx⟩⟩
  obtain ⟨p, hp, ep⟩ := mem_texts.mp hxin
  have hge : px.freq ≤ p.freq := (h3 p hp).2 dx hdx px hpdx (by rw [hx, ep])
  refine ⟨p, hp, ep, ?_⟩
  intro q hq hne
  obtain ⟨dq, hdq, hqd⟩ := (h3 q hq).1
  have := hdom q ((hc q).mpr ⟨dq, hdq, hqd⟩) hne
  omega

/-- C08's dominance hypothesis `hdom` (merged frequencies of `Model/Learn.lean`) is `Dominant` for every
    dictionary answer that has the same (text, frequency) pairs as C08's merged lookup -/
theorem dominant_of_mergedFreq {ctx : Learn.LearnCtx} {u : Learn.UserMap} {key : List Nat} {x : Text}
    (hdom : ∀ t, t ≠ x → Learn.mergedFreq ctx.sys u key t < Learn.mergedFreq ctx.sys u key x)
    {ps : List Phrase} (hp : SamePairs ps (Learn.lookupAll ctx u key)) : Dominant ps x := by
  have hb : ∀ t, Learn.bestOf (Learn.lookupAll ctx u key) t = Learn.mergedFreq ctx.sys u key t := by
    intro t
    unfold Learn.lookupAll Learn.mergedFreq Learn.allEntries
    exact Learn.layeredLookup_bestOf _ _ t
  exact dominant_of_pairs hp (fun t ht => by rw [hb, hb]; exact hdom t ht)

/-- … and for `Layered` over layers whose RAW answers (before the merge) have the same pairs as C08's raw
    entries `allEntries` (system entries, then the user map's) -/
theorem dominant_layered_of_mergedFreq {sys : List Entry} {u : Learn.UserMap} {key : List Nat} {x : Text}
    (hdom : ∀ t, t ≠ x → Learn.mergedFreq sys u key t < Learn.mergedFreq sys u key x)
    {layers : List Dict} {st : Strategy}
    (hp : SamePairs (Layered.candidates layers key st) (Learn.allEntries sys u key)) :
    Dominant (Layered.lookupAll layers key st) x :=
  dominant_layered (dominant_of_pairs hp hdom)

/-! ### the pairs hypothesis discharged for C09's concrete layers -/

theorem SamePairs.append {p1 p2 : List Phrase} {e1 e2 : List (Text × Nat)} (h1 : SamePairs p1 e1) (h2 : SamePairs p2 e2) :
    SamePairs (p1 ++ p2) (e1 ++ e2) where
  sound := by
    intro q hq
    rcases List.mem_append.mp hq with h | h
    · exact List.mem_append_left _ (h1.sound q h)
    · exact List.mem_append_right _ (h2.sound q h)
  complete := by
    intro e he
    rcases List.mem_append.mp he with h | h
    · obtain ⟨q, hq, a⟩ := h1.complete e h; exact ⟨q, List.mem_append_left _ hq, a⟩
    · obtain ⟨q, hq, a⟩ := h2.complete e h; exact ⟨q, List.mem_append_right _ hq, a⟩

/-- system layers given by entry lists (`Dict.ofEntries`, exact-key lookup): their raw answers are C08's
    `sysLookup` of the concatenated entries -/
theorem samePairs_sys (sysL : List (List Entry)) (key : List Nat) (st : Strategy) :
    SamePairs ((sysL.map Dict.ofEntries).flatMap (fun d => d.lookup key st)) (Learn.sysLookup sysL.flatten key) where
  sound := by
    intro q hq
    simp only [List.mem_flatMap, List.mem_map] at hq
    obtain ⟨d, ⟨es, hes, rfl⟩, hq⟩ := hq
    simp only [Dict.ofEntries, List.mem_map, List.mem_filter] at hq
    obtain ⟨e, ⟨he, hk⟩, rfl⟩ := hq
    unfold Learn.sysLookup
    refine List.mem_map.mpr ⟨e, List.mem_filter.mpr ⟨List.mem_flatten.mpr ⟨es, hes, he⟩, ?_⟩, rfl⟩
    simpa using hk
  complete := by
    intro e he
    unfold Learn.sysLookup at he
    obtain ⟨en, hen, rfl⟩ := List.mem_map.mp he
    obtain ⟨hmem, hk⟩ := List.mem_filter.mp hen
    obtain ⟨es, hes, hin⟩ := List.mem_flatten.mp hmem
    refine ⟨en.2, ?_, rfl, rfl⟩
    simp only [List.mem_flatMap, List.mem_map]
    refine ⟨Dict.ofEntries es, ⟨es, hes, rfl⟩, ?_⟩
    simp only [Dict.ofEntries, List.mem_map, List.mem_filter]
    exact ⟨en, ⟨hin, by simpa using hk⟩, rfl⟩

/-- the association list has no shadowed entry (true of `[]`, kept by `insert`, hence by learning) -/
def NoShadow (u : Learn.UserMap) : Prop := ∀ e ∈ u, u.get? e.1 = some e.2

theorem noShadow_nil : NoShadow [] := fun _ h => by cases h

theorem noShadow_insert {u : Learn.UserMap} (h : NoShadow u) (k : Learn.UKey) (v : Nat × Nat) : NoShadow (u.insert k v) := by
  intro e he
  unfold Learn.UserMap.insert at he
  rcases List.mem_cons.mp he with rfl | he
  · exact Learn.UserMap.get?_insert_self u k v
  · obtain ⟨hm, hk⟩ := List.mem_filter.mp he
    have hne : e.1 ≠ k := by simpa using hk
    rw [Learn.UserMap.get?_insert_ne u k e.1 v hne]
    exact h e hm

theorem noShadow_learnPhrase {ctx : Learn.LearnCtx} {u u' : Learn.UserMap} {key : List Nat} {x : Text}
    (h : NoShadow u) (hl : Learn.learnPhrase ctx u key x = .ok u') : NoShadow u' := by
  unfold Learn.learnPhrase at hl
  split at hl
  · cases hl; exact h
  · simp only at hl
    split at hl
    · have := Outcome.ok.inj hl
      subst this
      split
      · exact h
      · exact noShadow_insert h _ _
    · split at hl
      · have := Outcome.ok.inj hl
        subst this
        split
        · exact h
        · exact noShadow_insert h _ _
      · cases hl
      · cases hl

theorem noShadow_learnRepeat {sys : List Entry} {key : List Nat} {x : Text} : ∀ (lts : List Nat) {u u' : Learn.UserMap},
    NoShadow u → Learn.learnRepeat sys key x lts u = .ok u' → NoShadow u' := by
  intro lts
  induction lts with
  | nil => intro u u' h hl; cases hl; exact h
  | cons lt rest ih =>
    intro u u' h hl
    unfold Learn.learnRepeat at hl
    cases h1 : Learn.learnPhrase { sys := sys, lifetime := lt } u key x with
    | ok u1 =>
      rw [h1] at hl
      exact ih (noShadow_learnPhrase h h1) hl
    | panic m => rw [h1] at hl; cases hl
    | outOfFuel => rw [h1] at hl; cases hl

/-- a user layer (C09's `TrieBuf`) whose exact lookup of `key` answers as the map `m` that the shadow-free
    `UserMap` `u` denotes: its answer has the pairs of C08's `u.lookup key` -/
theorem samePairs_user {u : Learn.UserMap} {m : MapSpec.Map} (hu : LearnLink.URep u m) (hns : NoShadow u)
    {l : List Phrase} {key : List Nat} (hlk : MapSpec.IsLookup m key l) : SamePairs l (u.lookup key) where
  sound := by
    intro q hq
    have h1 := hlk.2.1 q hq
    rw [← hu] at h1
    have h2 := Learn.mem_of_get? h1
    unfold Learn.UserMap.lookup
    exact List.mem_map.mpr ⟨_, List.mem_filter.mpr ⟨h2, by simp⟩, rfl⟩
  complete := by
    intro e he
    unfold Learn.UserMap.lookup at he
    obtain ⟨en, hen, rfl⟩ := List.mem_map.mp he
    obtain ⟨hmem, hk⟩ := List.mem_filter.mp hen
    have hk' : en.1.1 = key := by simpa using hk
    have h1 := hns en hmem
    rw [hu] at h1
    have hkey : en.1 = (key, en.1.2) := by rw [← hk']
    rw [hkey] at h1
    obtain ⟨p, hp, ep⟩ := hlk.2.2 _ _ h1
    have h2 := hlk.2.1 p hp
    rw [ep, h1] at h2
    have h3 : en.2 = MapSpec.valOf p := Option.some.inj h2
    refine ⟨p, hp, ep, ?_⟩
    show p.freq = en.2.1
    rw [h3]; rfl

/-- … so `Layered` over system layers given by entry lists and such a user layer has, before its merge, the
    pairs of C08's raw entries -/
theorem samePairs_layers (sysL : List (List Entry)) {u : Learn.UserMap} {m : MapSpec.Map} (hu : LearnLink.URep u m)
    (hns : NoShadow u) (us : TrieBuf.State) {key : List Nat}
    (hlk : MapSpec.IsLookup m key (TrieBuf.lookupAll us key .standard)) :
    SamePairs (Layered.candidates (sysL.map Dict.ofEntries ++ [TrieBuf.toDict us]) key .standard)
      (Learn.allEntries sysL.flatten u key) := by
  unfold Layered.candidates Learn.allEntries
  rw [List.flatMap_append]
  refine (samePairs_sys sysL key .standard).append ?_
  simp only [List.flatMap_cons, List.flatMap_nil, List.append_nil]
  exact samePairs_user hu hns hlk

end bridge

end Chewing.LearnLinkEd
