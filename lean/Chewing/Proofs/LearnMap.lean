import Chewing.Model.Learn
/-!
Lemmas about the finite-map user dictionary and the layer merge of `Layered::lookup_all_phrases` (C08):
the two quantities `learn_phrase` reads off the merged list — the frequency of the phrase and the highest
frequency — are order-free functions of the multiset of layer entries (`bestOf`, `maxOf`).
-/
namespace Chewing.Learn
open Gen.Learn

/-! ### `maxOf` -/

theorem maxOf_append (a b : List Nat) : maxOf (a ++ b) = max (maxOf a) (maxOf b) := by
  induction a with
  | nil => simp [maxOf]
  | cons x r ih => simp only [List.cons_append, maxOf, ih]; omega

theorem le_maxOf {l : List Nat} {x : Nat} (h : x ∈ l) : x ≤ maxOf l := by
  induction l with
  | nil => cases h
  | cons y r ih =>
    simp only [maxOf]
    cases h with
    | head => omega
    | tail _ h => have := ih h; omega

/-! ### `UserMap` -/

namespace UserMap

theorem get?_insert_self (m : UserMap) (k : UKey) (v : Nat × Nat) : (insert m k v).get? k = some v := by
  simp [get?, insert]

theorem get?_filter_ne (m : UserMap) (k k' : UKey) (h : k' ≠ k) :
    (m.filter (fun e => decide (e.1 ≠ k))).find? (fun e => decide (e.1 = k')) = m.find? (fun e => decide (e.1 = k')) := by
  induction m with
  | nil => rfl
  | cons e r ih =>
    by_cases h1 : e.1 = k
    · have h2 : ¬ e.1 = k' := fun h3 => h (h3.symm.trans h1)
      rw [List.filter_cons_of_neg (by simp [h1]), List.find?_cons_of_neg (by simp [h2])]
      exact ih
    · rw [List.filter_cons_of_pos (by simp [h1])]
      by_cases h2 : e.1 = k'
      · rw [List.find?_cons_of_pos (by simp [h2]), List.find?_cons_of_pos (by simp [h2])]
      · rw [List.find?_cons_of_neg (by simp [h2]), List.find?_cons_of_neg (by simp [h2])]
        exact ih

theorem get?_insert_ne (m : UserMap) (k k' : UKey) (v : Nat × Nat) (h : k' ≠ k) :
    (insert m k v).get? k' = m.get? k' := by
  unfold get? insert
  have h2 : ¬ k = k' := fun h3 => h h3.symm
  rw [List.find?_cons_of_neg (by simp [h2]), get?_filter_ne m k k' h]

theorem lookup_filter_same (m : UserMap) (key : List Nat) (t : Text) :
    ((m.filter (fun e => decide (e.1 ≠ (key, t)))).filter (fun e => decide (e.1.1 = key))).map (fun e => (e.1.2, e.2.1))
      = (((m.filter (fun e => decide (e.1.1 = key))).map (fun e => (e.1.2, e.2.1))).filter (fun e => decide (e.1 ≠ t))) := by
  induction m with
  | nil => rfl
  | cons e r ih =>
    by_cases h1 : e.1.1 = key
    · by_cases h2 : e.1.2 = t
      · have h3 : e.1 = (key, t) := by rw [← h1, ← h2]
        rw [List.filter_cons_of_neg (by simp [h3]), List.filter_cons_of_pos (by simp [h1]), List.map_cons,
          List.filter_cons_of_neg (by simp [h2])]
        exact ih
      · have h3 : ¬ e.1 = (key, t) := fun h3 => h2 (by rw [h3])
        rw [List.filter_cons_of_pos (by simp [h3]), List.filter_cons_of_pos (by simp [h1]),
          List.filter_cons_of_pos (by simp [h1]), List.map_cons, List.map_cons,
          List.filter_cons_of_pos (by simp [h2]), ih]
    · have h3 : ¬ e.1 = (key, t) := fun h3 => h1 (by rw [h3])
      rw [List.filter_cons_of_pos (by simp [h3]), List.filter_cons_of_neg (by simp [h1]),
        List.filter_cons_of_neg (by simp [h1])]
      exact ih

theorem lookup_insert_same (m : UserMap) (key : List Nat) (t : Text) (v : Nat × Nat) :
    (insert m (key, t) v).lookup key = (t, v.1) :: (m.lookup key).filter (fun e => decide (e.1 ≠ t)) := by
  unfold lookup insert
  rw [List.filter_cons_of_pos (by simp), List.map_cons, lookup_filter_same]

theorem lookup_filter_other (m : UserMap) (key key' : List Nat) (t : Text) (h : key' ≠ key) :
    (m.filter (fun e => decide (e.1 ≠ (key, t)))).filter (fun e => decide (e.1.1 = key'))
      = m.filter (fun e => decide (e.1.1 = key')) := by
  induction m with
  | nil => rfl
  | cons e r ih =>
    by_cases h1 : e.1.1 = key'
    · have h3 : ¬ e.1 = (key, t) := fun h3 => h (by rw [← h1, h3])
      rw [List.filter_cons_of_pos (by simp [h3]), List.filter_cons_of_pos (by simp [h1]),
        List.filter_cons_of_pos (by simp [h1]), ih]
    · by_cases h2 : e.1 = (key, t)
      · rw [List.filter_cons_of_neg (by simp [h2]), List.filter_cons_of_neg (by simp [h1])]; exact ih
      · rw [List.filter_cons_of_pos (by simp [h2]), List.filter_cons_of_neg (by simp [h1]),
          List.filter_cons_of_neg (by simp [h1])]; exact ih

theorem lookup_insert_other (m : UserMap) (key key' : List Nat) (t : Text) (v : Nat × Nat) (h : key' ≠ key) :
    (insert m (key, t) v).lookup key' = m.lookup key' := by
  unfold lookup insert
  have h0 : ¬ key = key' := fun h3 => h h3.symm
  rw [List.filter_cons_of_neg (by simp [h0]), lookup_filter_other m key key' t h]

end UserMap

/-! ### `bestOf`: the highest frequency listed for a phrase text -/

def bestOf (l : List (Text × Nat)) (t : Text) : Nat :=
  maxOf ((l.filter (fun e => decide (e.1 = t))).map (·.2))

theorem bestOf_nil (t : Text) : bestOf [] t = 0 := rfl

theorem bestOf_cons (p : Text × Nat) (l : List (Text × Nat)) (t : Text) :
    bestOf (p :: l) t = if p.1 = t then max p.2 (bestOf l t) else bestOf l t := by
  unfold bestOf
  by_cases h : p.1 = t <;> simp [List.filter, h, maxOf]

theorem bestOf_append (a b : List (Text × Nat)) (t : Text) :
    bestOf (a ++ b) t = max (bestOf a t) (bestOf b t) := by
  unfold bestOf
  rw [List.filter_append, List.map_append, maxOf_append]

theorem bestOf_le_maxOf (l : List (Text × Nat)) (t : Text) : bestOf l t ≤ maxOf (l.map (·.2)) := by
  induction l with
  | nil => exact Nat.le_refl _
  | cons p r ih =>
    rw [bestOf_cons]
    simp only [List.map_cons, maxOf]
    split <;> omega

theorem bestOf_eq_zero_of_absent (l : List (Text × Nat)) (t : Text) (h : ∀ q ∈ l, q.1 ≠ t) : bestOf l t = 0 := by
  induction l with
  | nil => rfl
  | cons p r ih =>
    rw [bestOf_cons, if_neg (h p (List.mem_cons_self ..))]
    exact ih (fun q hq => h q (List.mem_cons_of_mem _ hq))

theorem bestOf_filter_ne (l : List (Text × Nat)) (x t : Text) (h : t ≠ x) :
    bestOf (l.filter (fun e => decide (e.1 ≠ x))) t = bestOf l t := by
  induction l with
  | nil => rfl
  | cons p r ih =>
    by_cases h1 : p.1 = x
    · have h2 : ¬ p.1 = t := fun h3 => h (h3.symm.trans h1)
      rw [List.filter_cons_of_neg (by simp [h1]), bestOf_cons, if_neg h2]; exact ih
    · rw [List.filter_cons_of_pos (by simp [h1]), bestOf_cons, bestOf_cons, ih]

theorem bestOf_filter_ne_self (l : List (Text × Nat)) (x : Text) :
    bestOf (l.filter (fun e => decide (e.1 ≠ x))) x = 0 := by
  apply bestOf_eq_zero_of_absent
  intro q hq
  simpa using (List.mem_filter.mp hq).2

/-- highest frequency among the entries whose text is not `x` -/
def othersOf (l : List (Text × Nat)) (x : Text) : Nat :=
  maxOf ((l.filter (fun e => decide (e.1 ≠ x))).map (·.2))

theorem maxOf_split (l : List (Text × Nat)) (x : Text) :
    maxOf (l.map (·.2)) = max (bestOf l x) (othersOf l x) := by
  unfold othersOf
  induction l with
  | nil => rfl
  | cons p r ih =>
    rw [bestOf_cons]
    by_cases h : p.1 = x
    · simp only [List.map_cons, maxOf, ih, h, if_true, List.filter, ne_eq, not_true_eq_false, decide_false]; omega
    · simp only [List.map_cons, maxOf, ih, h, if_false, List.filter, ne_eq, not_false_eq_true, decide_true]; omega

theorem bestOf_le_othersOf (l : List (Text × Nat)) (x t : Text) (h : t ≠ x) : bestOf l t ≤ othersOf l x := by
  unfold othersOf
  rw [← bestOf_filter_ne l x t h]
  exact bestOf_le_maxOf _ _

theorem othersOf_append (a b : List (Text × Nat)) (x : Text) :
    othersOf (a ++ b) x = max (othersOf a x) (othersOf b x) := by
  unfold othersOf
  rw [List.filter_append, List.map_append, maxOf_append]

theorem othersOf_cons_self (l : List (Text × Nat)) (x : Text) (f : Nat) :
    othersOf ((x, f) :: l.filter (fun e => decide (e.1 ≠ x))) x = othersOf l x := by
  unfold othersOf
  simp [List.filter, List.filter_filter]

/-! ### The merge -/

theorem mergeInto_ne_nil (acc : List (Text × Nat)) (p : Text × Nat) : mergeInto acc p ≠ [] := by
  cases acc with
  | nil => simp [mergeInto]
  | cons q r => simp only [mergeInto]; split <;> simp

theorem foldl_mergeInto_ne_nil (l acc : List (Text × Nat)) (h : acc ≠ []) : l.foldl mergeInto acc ≠ [] := by
  induction l generalizing acc with
  | nil => exact h
  | cons p r ih => exact ih _ (mergeInto_ne_nil _ _)

theorem layeredLookup_eq_nil (a b : List (Text × Nat)) : layeredLookup a b = [] ↔ a ++ b = [] := by
  unfold layeredLookup
  cases h : a ++ b with
  | nil => simp
  | cons p r =>
    simp only [List.foldl_cons, reduceCtorEq, iff_false]
    exact foldl_mergeInto_ne_nil _ _ (mergeInto_ne_nil _ _)

theorem mergeInto_bestOf (acc : List (Text × Nat)) (p : Text × Nat) (t : Text) :
    bestOf (mergeInto acc p) t = max (bestOf acc t) (if p.1 = t then p.2 else 0) := by
  induction acc with
  | nil => simp [mergeInto, bestOf_cons, bestOf_nil]
  | cons q r ih =>
    simp only [mergeInto]
    by_cases h : q.1 = p.1
    · rw [if_pos h, bestOf_cons, bestOf_cons]
      by_cases h2 : q.1 = t
      · have : p.1 = t := h ▸ h2
        simp only [h2, this, if_true]; omega
      · have : ¬ p.1 = t := fun h3 => h2 (h.trans h3)
        simp only [h2, this, if_false]; omega
    · rw [if_neg h, bestOf_cons, bestOf_cons, ih]
      split <;> split <;> omega

theorem foldl_mergeInto_bestOf (l acc : List (Text × Nat)) (t : Text) :
    bestOf (l.foldl mergeInto acc) t = max (bestOf acc t) (bestOf l t) := by
  induction l generalizing acc with
  | nil => simp [bestOf_nil]
  | cons p r ih =>
    rw [List.foldl_cons, ih, mergeInto_bestOf, bestOf_cons]
    split <;> omega

theorem layeredLookup_bestOf (a b : List (Text × Nat)) (t : Text) :
    bestOf (layeredLookup a b) t = bestOf (a ++ b) t := by
  unfold layeredLookup
  rw [foldl_mergeInto_bestOf, bestOf_nil]; omega

theorem mergeInto_maxOf (acc : List (Text × Nat)) (p : Text × Nat) :
    maxOf ((mergeInto acc p).map (·.2)) = max (maxOf (acc.map (·.2))) p.2 := by
  induction acc with
  | nil => simp [mergeInto, maxOf]
  | cons q r ih =>
    simp only [mergeInto]
    split
    · simp only [List.map_cons, maxOf]; omega
    · simp only [List.map_cons, maxOf, ih]; omega

theorem foldl_mergeInto_maxOf (l acc : List (Text × Nat)) :
    maxOf ((l.foldl mergeInto acc).map (·.2)) = max (maxOf (acc.map (·.2))) (maxOf (l.map (·.2))) := by
  induction l generalizing acc with
  | nil => simp [maxOf]
  | cons p r ih =>
    rw [List.foldl_cons, ih, mergeInto_maxOf]
    simp only [List.map_cons, maxOf]; omega

theorem layeredLookup_maxOf (a b : List (Text × Nat)) :
    maxOf ((layeredLookup a b).map (·.2)) = maxOf ((a ++ b).map (·.2)) := by
  unfold layeredLookup
  rw [foldl_mergeInto_maxOf]; simp [maxOf]

/-- every text is listed once (the invariant `sort_map` maintains) -/
def Uniq : List (Text × Nat) → Prop
  | [] => True
  | p :: r => (∀ q ∈ r, q.1 ≠ p.1) ∧ Uniq r

theorem mem_mergeInto_text {acc : List (Text × Nat)} {p x : Text × Nat} (h : x ∈ mergeInto acc p) :
    x.1 = p.1 ∨ ∃ y ∈ acc, y.1 = x.1 := by
  induction acc with
  | nil =>
    simp only [mergeInto, List.mem_singleton] at h
    exact Or.inl (by rw [h])
  | cons q r ih =>
    simp only [mergeInto] at h
    split at h
    · rcases List.mem_cons.mp h with h | h
      · exact Or.inr ⟨q, List.mem_cons_self .., by rw [h]⟩
      · exact Or.inr ⟨x, List.mem_cons_of_mem _ h, rfl⟩
    · rcases List.mem_cons.mp h with h | h
      · exact Or.inr ⟨q, List.mem_cons_self .., by rw [h]⟩
      · rcases ih h with h | ⟨y, hy, e⟩
        · exact Or.inl h
        · exact Or.inr ⟨y, List.mem_cons_of_mem _ hy, e⟩

theorem mergeInto_uniq (acc : List (Text × Nat)) (p : Text × Nat) (h : Uniq acc) : Uniq (mergeInto acc p) := by
  induction acc with
  | nil =>
    simp only [mergeInto, Uniq]
    exact ⟨fun q hq => (by cases hq), trivial⟩
  | cons q r ih =>
    simp only [mergeInto]
    split
    · exact ⟨h.1, h.2⟩
    · rename_i hne
      refine ⟨fun x hx => ?_, ih h.2⟩
      rcases mem_mergeInto_text hx with e | ⟨y, hy, e⟩
      · exact fun h3 => hne (h3.symm.trans e)
      · rw [← e]; exact h.1 y hy

theorem foldl_mergeInto_uniq (l acc : List (Text × Nat)) (h : Uniq acc) : Uniq (l.foldl mergeInto acc) := by
  induction l generalizing acc with
  | nil => exact h
  | cons p r ih => exact ih _ (mergeInto_uniq _ _ h)

theorem layeredLookup_uniq (a b : List (Text × Nat)) : Uniq (layeredLookup a b) :=
  foldl_mergeInto_uniq _ _ trivial

/-- on a list without repeated texts, the frequency `learn_phrase` finds is `bestOf` (`absentFreq = 0`) -/
theorem phraseFreq_eq_bestOf (es : List (Text × Nat)) (t : Text) (h : Uniq es) : phraseFreq es t = bestOf es t := by
  induction es with
  | nil => simp [phraseFreq, bestOf_nil, absentFreq]
  | cons p r ih =>
    rw [bestOf_cons]
    by_cases h1 : p.1 = t
    · have h0 : bestOf r t = 0 := bestOf_eq_zero_of_absent r t (fun q hq => h1 ▸ h.1 q hq)
      simp [phraseFreq, List.find?, h1, h0]
    · have := ih h.2
      simp only [phraseFreq, List.find?, h1, decide_false, if_false] at this ⊢
      exact this

end Chewing.Learn
