import Chewing.Model.Loader
import Chewing.Proofs.Uhash
/-!
Lemmas about the importer of `Model/Loader.lean`: the map operations, the import loop
(`update_phrase` per record: the last record of a key wins, nothing else appears), and `load`.
-/
namespace Chewing.Loader
open Chewing.Uhash

/-! ### the map -/

theorem find_insert_self (m : UMap) (k : Key) (v : Val) : find? (insert m k v) k = some v := by
  induction m with
  | nil => simp [insert, find?]
  | cons e rest ih =>
    obtain ⟨k', v'⟩ := e
    unfold insert
    split
    · simp [find?]
    · split
      · simp [find?]
      · rename_i hne _
        have hne' : (k' == k) = false := by
          rw [Bool.eq_false_iff]
          intro h
          exact hne (by rw [beq_iff_eq] at h ⊢; exact h.symm)
        simp only [find?, List.find?_cons, hne'] at ih ⊢
        exact ih

theorem find_insert_ne (m : UMap) (k k' : Key) (v : Val) (hne : k' ≠ k) :
    find? (insert m k v) k' = find? m k' := by
  have hk : (k == k') = false := by
    rw [Bool.eq_false_iff]
    intro h
    exact hne (by rw [beq_iff_eq] at h; exact h.symm)
  induction m with
  | nil => simp [insert, find?, hk]
  | cons e rest ih =>
    obtain ⟨k0, v0⟩ := e
    unfold insert
    split
    · rename_i heq
      have : k = k0 := by simpa using heq
      subst this
      simp [find?, List.find?_cons, hk]
    · split
      · simp [find?, List.find?_cons, hk]
      · simp only [find?, List.find?_cons] at ih ⊢
        split
        · rfl
        · exact ih

/-- every entry of `insert m k v` is the new one or was in `m` -/
theorem mem_insert (m : UMap) (k : Key) (v : Val) (e : Key × Val) (h : e ∈ insert m k v) :
    e = (k, v) ∨ e ∈ m := by
  induction m with
  | nil =>
    simp only [insert, List.mem_singleton] at h
    exact Or.inl h
  | cons e0 rest ih =>
    obtain ⟨k0, v0⟩ := e0
    unfold insert at h
    split at h
    · rcases List.mem_cons.mp h with h | h
      · exact Or.inl h
      · exact Or.inr (List.mem_cons_of_mem _ h)
    · split at h
      · rcases List.mem_cons.mp h with h | h
        · exact Or.inl h
        · exact Or.inr h
      · rcases List.mem_cons.mp h with h | h
        · exact Or.inr (by rw [h]; exact List.mem_cons_self)
        · rcases ih h with h | h
          · exact Or.inl h
          · exact Or.inr (List.mem_cons_of_mem _ h)

/-! ### the import loop -/

/-- the value the import loop leaves under `k`: that of the LAST record with key `k`, else what
    the map held before -/
def lastVal (k : Key) (rs : List Rec) (init : Option Val) : Option Val :=
  rs.foldl (fun acc r => if keyOf r == k then some (valOf r) else acc) init

theorem find_importRecs (k : Key) : ∀ (rs : List Rec) (m : UMap),
    find? (importRecs m rs) k = lastVal k rs (find? m k)
  | [], m => rfl
  | r :: rs, m => by
    simp only [importRecs, lastVal, List.foldl_cons]
    have ih := find_importRecs k rs (insert m (keyOf r) (valOf r))
    simp only [importRecs, lastVal] at ih
    rw [ih]
    by_cases hk : keyOf r = k
    · subst hk
      simp [find_insert_self]
    · have : (keyOf r == k) = false := by simpa using hk
      rw [find_insert_ne m (keyOf r) k (valOf r) (fun h => hk h.symm)]
      simp [this]

theorem lastVal_of_not_mem (k : Key) : ∀ (rs : List Rec) (init : Option Val),
    (∀ r ∈ rs, keyOf r ≠ k) → lastVal k rs init = init
  | [], _, _ => rfl
  | r :: rs, init, h => by
    simp only [lastVal, List.foldl_cons]
    have hr : (keyOf r == k) = false := by simpa using h r List.mem_cons_self
    simp only [hr, Bool.false_eq_true, if_false]
    exact lastVal_of_not_mem k rs init (fun r' hr' => h r' (List.mem_cons_of_mem _ hr'))

/-- records with pairwise distinct keys: each one's value is what the import leaves under its key -/
theorem lastVal_of_pairwise : ∀ (rs : List Rec) (init : Option Val),
    rs.Pairwise (fun a b => keyOf a ≠ keyOf b) → ∀ r ∈ rs, lastVal (keyOf r) rs init = some (valOf r)
  | [], _, _, r, hr => by cases hr
  | x :: rs, init, hp, r, hr => by
    rw [List.pairwise_cons] at hp
    simp only [lastVal, List.foldl_cons]
    rcases List.mem_cons.mp hr with rfl | hmem
    · simp only [beq_self_eq_true, if_true]
      exact lastVal_of_not_mem (keyOf r) rs _ (fun r' hr' => fun h => hp.1 r' hr' h.symm)
    · exact lastVal_of_pairwise rs _ hp.2 r hmem

/-- nothing but imported records (or what was there before) is in the result -/
theorem mem_importRecs : ∀ (rs : List Rec) (m : UMap) (e : Key × Val), e ∈ importRecs m rs →
    e ∈ m ∨ ∃ r ∈ rs, e = (keyOf r, valOf r)
  | [], m, e, h => Or.inl h
  | r :: rs, m, e, h => by
    simp only [importRecs, List.foldl_cons] at h
    rcases mem_importRecs rs (insert m (keyOf r) (valOf r)) e h with h | ⟨r', hr', he⟩
    · rcases mem_insert m _ _ e h with h | h
      · exact Or.inr ⟨r, List.mem_cons_self, h⟩
      · exact Or.inl h
    · exact Or.inr ⟨r', List.mem_cons_of_mem _ hr', he⟩

theorem find_some_mem {m : UMap} {k : Key} {v : Val} (h : find? m k = some v) : (k, v) ∈ m := by
  unfold find? at h
  cases hf : m.find? (fun e => e.1 == k) with
  | none => rw [hf] at h; cases h
  | some e =>
    rw [hf] at h
    simp only [Option.map_some, Option.some.injEq] at h
    have hm := List.mem_of_find?_eq_some hf
    have hk := List.find?_some hf
    have : e.1 = k := by simpa using hk
    obtain ⟨ek, ev⟩ := e
    simp only at this h
    subst this h
    exact hm

/-! ### `load` -/

theorem load_returns (feat : Bool) (d : UserDir) : Returns (load feat d) := by
  unfold load
  split
  · exact ⟨_, rfl⟩
  · exact ⟨_, rfl⟩
  · dsimp only
    split
    · split <;> exact ⟨_, rfl⟩
    · split
      · exact ⟨_, rfl⟩
      · rename_i b _
        obtain ⟨r, hr⟩ := loadUhash_returns b
        rw [hr]
        cases r <;> exact ⟨_, rfl⟩

end Chewing.Loader
