import Chewing.Model.Owned
/-!
# Invariants of the ghost ownership model (C15)

* `UInv c stale`  — unless a possibly-mutating call happened since the last enumerate, the stored user-phrase
                    iterator points into the current generation of the user dictionary;
* `RegOK c`       — every live heap result is registered in `OWNED` with its true kind.
-/
namespace Chewing.Owned

def UInv (c : Ctx) (stale : Bool) : Prop :=
  stale = false → ∀ u, c.uiter = some u → u.epoch = c.epoch

def RegOK (c : Ctx) : Prop :=
  (∀ a k, lookup a c.live = some k → lookup a c.owned = some k ∧ k.allocates = true) ∧
  (∀ a k, lookup a c.owned = some k → k.allocates = true → lookup a c.live = some k)

theorem lookup_cons (a b : Nat) (k : Kind) (l : List (Nat × Kind)) :
    lookup a ((b, k) :: l) = if a = b then some k else lookup a l := rfl

theorem lookup_erase (a b : Nat) (l : List (Nat × Kind)) :
    lookup a (erase b l) = if a = b then none else lookup a l := by
  unfold erase
  induction l with
  | nil => simp [lookup]
  | cons e r ih =>
    obtain ⟨x, k⟩ := e
    by_cases hx : x = b
    · subst hx
      simp only [List.filter, bne_self_eq_false, lookup_cons]
      rw [ih]; split <;> simp_all
    · have : (x != b) = true := by simp [hx]
      simp only [List.filter, this, lookup_cons]
      rw [ih]
      by_cases hax : a = x
      · subst hax; simp [hx]
      · simp [hax]

theorem uinv_init : UInv init false := by
  intro _ u hu; simp [init] at hu

theorem regOK_init : RegOK init := by
  constructor <;> (intro a k h; simp [init, lookup] at h)

theorem regOK_register (c : Ctx) (addr : Nat) (k : Kind) (h : RegOK c) (hfree : lookup addr c.live = none) :
    RegOK (register c addr k) := by
  obtain ⟨h1, h2⟩ := h
  constructor
  · intro a k' hl
    unfold register at hl ⊢
    simp only [lookup_cons, lookup_erase]
    by_cases ha : a = addr
    · subst ha
      rw [if_pos rfl]
      cases hk : k.allocates
      · simp [hk, hfree] at hl
      · simp [hk, lookup_cons] at hl; rw [← hl]; exact ⟨rfl, hk⟩
    · rw [if_neg ha, if_neg ha]
      cases hk : k.allocates
      · simp [hk] at hl; exact h1 a k' hl
      · simp [hk, lookup_cons, ha] at hl; exact h1 a k' hl
  · intro a k' ho hka
    unfold register at ho ⊢
    simp only [lookup_cons, lookup_erase] at ho
    by_cases ha : a = addr
    · subst ha
      rw [if_pos rfl] at ho
      have hkk : k = k' := Option.some.inj ho
      subst hkk
      simp [hka, lookup_cons]
    · rw [if_neg ha, if_neg ha] at ho
      have := h2 a k' ho hka
      cases hk : k.allocates
      · simpa [hk] using this
      · simp [lookup_cons, ha]; exact this

/-- `register` does not touch the iterators or the dictionary generation -/
theorem register_uiter (c : Ctx) (a : Nat) (k : Kind) :
    (register c a k).uiter = c.uiter ∧ (register c a k).epoch = c.epoch := ⟨rfl, rfl⟩

theorem regOK_of_same_heap {c c' : Ctx} (h : RegOK c) (ho : c'.owned = c.owned) (hl : c'.live = c.live) : RegOK c' := by
  unfold RegOK; rw [ho, hl]; exact h

/-- `chewing_free` is total on a consistent registry: every pointer is either released (a live result) or ignored -/
theorem freeStep_ok (c : Ctx) (hr : RegOK c) (addr : Nat) :
    ∃ c', freeStep true c addr = .ok (c', 0) ∧ RegOK c' ∧ c'.uiter = c.uiter ∧ c'.epoch = c.epoch ∧
      (∀ b, b ≠ addr → lookup b c'.live = lookup b c.live) ∧
      (addr ≠ 0 → lookup addr c'.live = none ∧ lookup addr c'.owned = none) := by
  obtain ⟨h1, h2⟩ := hr
  unfold freeStep
  by_cases h0 : addr = 0
  · rw [if_pos h0]; exact ⟨c, rfl, ⟨h1, h2⟩, rfl, rfl, fun _ _ => rfl, fun h => absurd h0 h⟩
  rw [if_neg h0]
  cases ho : lookup addr c.owned with
  | none =>
    refine ⟨c, rfl, ⟨h1, h2⟩, rfl, rfl, fun _ _ => rfl, fun _ => ⟨?_, ho⟩⟩
    cases hl : lookup addr c.live with
    | none => rfl
    | some k => have := (h1 addr k hl).1; rw [ho] at this; cases this
  | some k =>
    simp only [if_true]
    cases hk : k.allocates
    · -- an empty u16 slice: only the entry goes
      simp only [Bool.not_false, if_true]
      have hnl : lookup addr c.live = none := by
        cases hl : lookup addr c.live with
        | none => rfl
        | some k' =>
          have := h1 addr k' hl
          rw [ho] at this
          have hkk : k = k' := Option.some.inj this.1
          rw [← hkk, hk] at this; cases this.2
      refine ⟨_, rfl, ⟨?_, ?_⟩, rfl, rfl, fun _ _ => rfl, fun _ => ⟨hnl, by simp [lookup_erase]⟩⟩
      · intro a k' hl
        have := h1 a k' hl
        simp only [lookup_erase]
        by_cases ha : a = addr
        · subst ha; rw [hnl] at hl; cases hl
        · rw [if_neg ha]; exact this
      · intro a k' ho' hka
        simp only [lookup_erase] at ho'
        by_cases ha : a = addr
        · simp [ha] at ho'
        · rw [if_neg ha] at ho'; exact h2 a k' ho' hka
    · simp only [Bool.not_true, Bool.false_eq_true, if_false]
      have hl := h2 addr k ho hk
      simp only [hl, if_true]
      refine ⟨_, rfl, ⟨?_, ?_⟩, rfl, rfl, ?_, fun _ => ⟨by simp [lookup_erase], by simp [lookup_erase]⟩⟩
      · intro a k' hl'
        simp only [lookup_erase] at hl' ⊢
        by_cases ha : a = addr
        · simp [ha] at hl'
        · simp only [if_neg ha] at hl' ⊢; exact h1 a k' hl'
      · intro a k' ho' hka
        simp only [lookup_erase] at ho' ⊢
        by_cases ha : a = addr
        · simp [ha] at ho'
        · simp only [if_neg ha] at ho' ⊢; exact h2 a k' ho' hka
      · intro b hb; simp [lookup_erase, hb]

/-! ## one step -/

/-- the peek/next of a collected iterator never fails -/
theorem step_collected_ok (c : Ctx) (op : Op)
    (h : op ≠ .upHasNext ∧ op ≠ .upGet ∧ ∀ a, op ≠ .free a) : ∃ c' r, step c op = .ok (c', r) := by
  obtain ⟨h1, h2, h3⟩ := h
  cases op <;> simp only [step] <;> first
    | exact ⟨_, _, rfl⟩
    | (exfalso; first | exact h1 rfl | exact h2 rfl | exact h3 _ rfl)
    | (split <;> first | exact ⟨_, _, rfl⟩ | (split <;> exact ⟨_, _, rfl⟩))

/-- a step that uses the user-phrase iterator under the discipline is defined and keeps both invariants -/
theorem step_ok (c : Ctx) (stale : Bool) (op : Op) (hu : UInv c stale) (hr : RegOK c)
    (hd : (!op.usesU || !stale) = true) (hh : heapOk c op = true) :
    ∃ c' r, step c op = .ok (c', r) ∧ UInv c' (staleAfter stale op) ∧ RegOK c' := by
  cases op with
  | mutate =>
    refine ⟨_, _, rfl, ?_, regOK_of_same_heap hr rfl rfl⟩
    intro h; simp [staleAfter] at h
  | other => exact ⟨_, _, rfl, hu, hr⟩
  | reset =>
    refine ⟨_, _, rfl, ?_, regOK_of_same_heap hr rfl rfl⟩
    intro _ u hu'; simp at hu'
  | upEnumerate n =>
    refine ⟨_, _, rfl, ?_, regOK_of_same_heap hr rfl rfl⟩
    intro _ u hu'; simp at hu'; subst hu'; rfl
  | upHasNext =>
    have hs : stale = false := by simpa [Op.usesU] using hd
    simp only [step]
    cases hcu : c.uiter with
    | none => exact ⟨_, _, rfl, hu, hr⟩
    | some u =>
      have he := hu hs u hcu
      have hf : uFresh c u = true := by simp [uFresh, he]
      simp only [hf, Bool.not_true, Bool.and_false, Bool.false_eq_true, if_false]
      cases hp : u.it.peek with
      | mk it' b =>
        cases b
        · refine ⟨_, _, rfl, ?_, regOK_of_same_heap hr rfl rfl⟩
          intro _ u' hu'; simp at hu'
        · refine ⟨_, _, rfl, ?_, regOK_of_same_heap hr rfl rfl⟩
          intro _ u' hu'; simp at hu'; subst hu'; exact he
  | upGet =>
    have hs : stale = false := by simpa [Op.usesU] using hd
    simp only [step]
    cases hcu : c.uiter with
    | none => exact ⟨_, _, rfl, hu, hr⟩
    | some u =>
      have he := hu hs u hcu
      have hf : uFresh c u = true := by simp [uFresh, he]
      simp only [hf, Bool.not_true, Bool.and_false, Bool.false_eq_true, if_false]
      refine ⟨_, _, rfl, ?_, regOK_of_same_heap hr rfl rfl⟩
      intro _ u' hu'; simp at hu'; subst hu'; exact he
  | candEnumerate sel n =>
    refine ⟨_, _, rfl, ?_, ?_⟩
    · cases sel <;> exact hu
    · cases sel <;> exact regOK_of_same_heap hr rfl rfl
  | candHasNext sel =>
    simp only [step]
    cases sel
    · exact ⟨_, _, rfl, hu, hr⟩
    · cases hc : c.cand with
      | none => exact ⟨_, _, rfl, hu, hr⟩
      | some p => exact ⟨_, _, rfl, hu, regOK_of_same_heap hr rfl rfl⟩
  | candString addr =>
    simp only [heapOk, Bool.and_eq_true, Option.isNone_iff_eq_none] at hh
    simp only [step]
    cases hc : c.cand with
    | none => exact ⟨_, _, rfl, hu, regOK_register c addr _ hr hh.2⟩
    | some p =>
      refine ⟨_, _, rfl, hu, ?_⟩
      exact regOK_register { c with cand := some p.next.1 } addr _ (regOK_of_same_heap hr rfl rfl) hh.2
  | candStringStatic =>
    simp only [step]
    cases hc : c.cand with
    | none => exact ⟨_, _, rfl, hu, hr⟩
    | some p => exact ⟨_, _, rfl, hu, regOK_of_same_heap hr rfl rfl⟩
  | intvEnumerate n => exact ⟨_, _, rfl, hu, regOK_of_same_heap hr rfl rfl⟩
  | intvHasNext =>
    simp only [step]
    cases hc : c.intv with
    | none => exact ⟨_, _, rfl, hu, hr⟩
    | some p => exact ⟨_, _, rfl, hu, regOK_of_same_heap hr rfl rfl⟩
  | intvGet =>
    simp only [step]
    cases hc : c.intv with
    | none => exact ⟨_, _, rfl, hu, hr⟩
    | some p => exact ⟨_, _, rfl, hu, regOK_of_same_heap hr rfl rfl⟩
  | kbEnumerate n => exact ⟨_, _, rfl, hu, regOK_of_same_heap hr rfl rfl⟩
  | kbHasNext =>
    simp only [step]
    cases hc : c.kbt with
    | none => exact ⟨_, _, rfl, hu, hr⟩
    | some p => exact ⟨_, _, rfl, hu, regOK_of_same_heap hr rfl rfl⟩
  | kbString addr =>
    simp only [heapOk, Bool.and_eq_true, Option.isNone_iff_eq_none] at hh
    simp only [step]
    cases hc : c.kbt with
    | none => exact ⟨_, _, rfl, hu, regOK_register c addr _ hr hh.2⟩
    | some p =>
      refine ⟨_, _, rfl, hu, ?_⟩
      exact regOK_register { c with kbt := some p.next.1 } addr _ (regOK_of_same_heap hr rfl rfl) hh.2
  | kbStringStatic =>
    simp only [step]
    cases hc : c.kbt with
    | none => exact ⟨_, _, rfl, hu, hr⟩
    | some p => exact ⟨_, _, rfl, hu, regOK_of_same_heap hr rfl rfl⟩
  | heapGet addr k =>
    simp only [heapOk, Bool.and_eq_true, Option.isNone_iff_eq_none] at hh
    exact ⟨_, _, rfl, hu, regOK_register c addr k hr hh.2⟩
  | free addr =>
    obtain ⟨c', hs, hr', hu1, hu2, _, _⟩ := freeStep_ok c hr addr
    refine ⟨c', 0, hs, ?_, hr'⟩
    intro h u hcu
    rw [hu1] at hcu; rw [hu2]; exact hu h u hcu

/-! ## histories -/

theorem run_ok (ops : List Op) : ∀ (c : Ctx) (stale : Bool), UInv c stale → RegOK c →
    disciplined stale ops = true → heapOkRun c ops = true →
    ∃ c' rs, run c ops = .ok (c', rs) ∧ RegOK c' := by
  induction ops with
  | nil => intro c _ _ hr _ _; exact ⟨c, [], rfl, hr⟩
  | cons op ops ih =>
    intro c stale hu hr hd hh
    simp only [disciplined, Bool.and_eq_true] at hd
    simp only [heapOkRun, Bool.and_eq_true] at hh
    obtain ⟨c1, r, hs, hu1, hr1⟩ := step_ok c stale op hu hr hd.1 hh.1
    rw [hs] at hh
    obtain ⟨c2, rs, hrun, hr2⟩ := ih c1 _ hu1 hr1 hd.2 hh.2
    exact ⟨c2, r :: rs, by simp [run, hs, hrun], hr2⟩

end Chewing.Owned
