import Chewing.Model.Owned
/-!
# Invariants of the ghost ownership model (C15)

* `RegSound c`    — every registry entry of an allocating kind names a live heap result of that kind: enough for
                    `chewing_free` to be defined, and inductive over ALL histories with no assumption at all;
* `RegOK c`       — registry = live results with their true kinds (needs the allocator's contract `heapOk`): the
                    registry is also COMPLETE, so `chewing_free` can release every live result.
-/
namespace Chewing.Owned

def RegSound (c : Ctx) : Prop :=
  ∀ a k, lookup a c.owned = some k → k.allocates = true → lookup a c.live = some k

def RegOK (c : Ctx) : Prop :=
  (∀ a k, lookup a c.live = some k → lookup a c.owned = some k ∧ k.allocates = true) ∧
  (∀ a k, lookup a c.owned = some k → k.allocates = true → lookup a c.live = some k)

theorem lookup_cons (a b : Nat) (k : Kind) (l : List (Nat × Kind)) :
    lookup a ((b, k) :: l) = if a = b then some k else lookup a l := rfl

theorem lookup_erase (a b : Nat) (l : List (Nat × Kind)) :
    lookup a (erase b l) = if a = b then none else lookup a l := by
  unfold erase
  induction l with
  | nil => simp [lookup]
  | cons e r ih =>
    obtain ⟨x, k⟩ := e
    by_cases hx : x = b
    · subst hx
      simp only [List.filter, bne_self_eq_false, lookup_cons]
      rw [ih]; split <;> simp_all
    · have : (x != b) = true := by simp [hx]
      simp only [List.filter, this, lookup_cons]
      rw [ih]
      by_cases hax : a = x
      · subst hax; simp [hx]
      · simp [hax]

theorem regOK_init : RegOK init := by
  constructor <;> (intro a k h; simp [init, lookup] at h)

theorem regOK_register (c : Ctx) (addr : Nat) (k : Kind) (h : RegOK c) (hfree : lookup addr c.live = none) :
    RegOK (register c addr k) := by
  obtain ⟨h1, h2⟩ := h
  constructor
  · intro a k' hl
    unfold register at hl ⊢
    simp only [lookup_cons, lookup_erase]
    by_cases ha : a = addr
    · subst ha
      rw [if_pos rfl]
      cases hk : k.allocates
      · simp [hk, hfree] at hl
      · simp [hk, lookup_cons] at hl; rw [← hl]; exact ⟨rfl, hk⟩
    · rw [if_neg ha, if_neg ha]
      cases hk : k.allocates
      · simp [hk] at hl; exact h1 a k' hl
      · simp [hk, lookup_cons, ha] at hl; exact h1 a k' hl
  · intro a k' ho hka
    unfold register at ho ⊢
    simp only [lookup_cons, lookup_erase] at ho
    by_cases ha : a = addr
    · subst ha
      rw [if_pos rfl] at ho
      have hkk : k = k' := Option.some.inj ho
      subst hkk
      simp [hka, lookup_cons]
    · rw [if_neg ha, if_neg ha] at ho
      have := h2 a k' ho hka
      cases hk : k.allocates
      · simpa [hk] using this
      · simp [lookup_cons, ha]; exact this

/-- `register` does not touch the iterators or the dictionary generation -/
theorem register_uiter (c : Ctx) (a : Nat) (k : Kind) :
    (register c a k).uiter = c.uiter ∧ (register c a k).epoch = c.epoch := ⟨rfl, rfl⟩

theorem regOK_of_same_heap {c c' : Ctx} (h : RegOK c) (ho : c'.owned = c.owned) (hl : c'.live = c.live) : RegOK c' := by
  unfold RegOK; rw [ho, hl]; exact h

/-- `chewing_free` is total on a consistent registry: every pointer is either released (a live result) or ignored -/
theorem freeStep_ok (c : Ctx) (hr : RegOK c) (addr : Nat) :
    ∃ c', freeStep true c addr = .ok (c', 0) ∧ RegOK c' ∧ c'.uiter = c.uiter ∧ c'.epoch = c.epoch ∧
      (∀ b, b ≠ addr → lookup b c'.live = lookup b c.live) ∧
      (addr ≠ 0 → lookup addr c'.live = none ∧ lookup addr c'.owned = none) := by
  obtain ⟨h1, h2⟩ := hr
  unfold freeStep
  by_cases h0 : addr = 0
  · rw [if_pos h0]; exact ⟨c, rfl, ⟨h1, h2⟩, rfl, rfl, fun _ _ => rfl, fun h => absurd h0 h⟩
  rw [if_neg h0]
  cases ho : lookup addr c.owned with
  | none =>
    refine ⟨c, rfl, ⟨h1, h2⟩, rfl, rfl, fun _ _ => rfl, fun _ => ⟨?_, ho⟩⟩
    cases hl : lookup addr c.live with
    | none => rfl
    | some k => have := (h1 addr k hl).1; rw [ho] at this; cases this
  | some k =>
    simp only [if_true]
    cases hk : k.allocates
    · -- an empty u16 slice: only the entry goes
      simp only [Bool.not_false, if_true]
      have hnl : lookup addr c.live = none := by
        cases hl : lookup addr c.live with
        | none => rfl
        | some k' =>
          have := h1 addr k' hl
          rw [ho] at this
          have hkk : k = k' := Option.some.inj this.1
          rw [← hkk, hk] at this; cases this.2
      refine ⟨_, rfl, ⟨?_, ?_⟩, rfl, rfl, fun _ _ => rfl, fun _ => ⟨hnl, by simp [lookup_erase]⟩⟩
      · intro a k' hl
        have := h1 a k' hl
        simp only [lookup_erase]
        by_cases ha : a = addr
        · subst ha; rw [hnl] at hl; cases hl
        · rw [if_neg ha]; exact this
      · intro a k' ho' hka
        simp only [lookup_erase] at ho'
        by_cases ha : a = addr
        · simp [ha] at ho'
        · rw [if_neg ha] at ho'; exact h2 a k' ho' hka
    · simp only [Bool.not_true, Bool.false_eq_true, if_false]
      have hl := h2 addr k ho hk
      simp only [hl, if_true]
      refine ⟨_, rfl, ⟨?_, ?_⟩, rfl, rfl, ?_, fun _ => ⟨by simp [lookup_erase], by simp [lookup_erase]⟩⟩
      · intro a k' hl'
        simp only [lookup_erase] at hl' ⊢
        by_cases ha : a = addr
        · simp [ha] at hl'
        · simp only [if_neg ha] at hl' ⊢; exact h1 a k' hl'
      · intro a k' ho' hka
        simp only [lookup_erase] at ho' ⊢
        by_cases ha : a = addr
        · simp [ha] at ho'
        · simp only [if_neg ha] at ho' ⊢; exact h2 a k' ho' hka
      · intro b hb; simp [lookup_erase, hb]

/-! ## `RegSound`: no assumption on the allocator -/

theorem regOK_sound {c : Ctx} (h : RegOK c) : RegSound c := h.2

theorem regSound_init : RegSound init := by
  intro a k h; simp [init, lookup] at h

theorem regSound_of_same_heap {c c' : Ctx} (h : RegSound c) (ho : c'.owned = c.owned) (hl : c'.live = c.live) :
    RegSound c' := by
  unfold RegSound; rw [ho, hl]; exact h

theorem regSound_register (c : Ctx) (addr : Nat) (k : Kind) (h : RegSound c) : RegSound (register c addr k) := by
  intro a k' ho hka
  unfold register at ho ⊢
  simp only [lookup_cons, lookup_erase] at ho
  by_cases ha : a = addr
  · subst ha
    rw [if_pos rfl] at ho
    have hkk : k = k' := Option.some.inj ho
    subst hkk
    simp [hka, lookup_cons]
  · rw [if_neg ha, if_neg ha] at ho
    have := h a k' ho hka
    cases hk : k.allocates
    · simpa [hk] using this
    · simp [lookup_cons, ha]; exact this

/-- `chewing_free` is defined on every sound registry, for every pointer -/
theorem freeStep_defined (c : Ctx) (hr : RegSound c) (addr : Nat) :
    ∃ c', freeStep true c addr = .ok (c', 0) ∧ RegSound c' := by
  unfold freeStep
  by_cases h0 : addr = 0
  · rw [if_pos h0]; exact ⟨c, rfl, hr⟩
  rw [if_neg h0]
  cases ho : lookup addr c.owned with
  | none => exact ⟨c, rfl, hr⟩
  | some k =>
    simp only [if_true]
    cases hk : k.allocates
    · simp only [Bool.not_false, if_true]
      refine ⟨_, rfl, ?_⟩
      intro a k' ho' hka
      simp only [lookup_erase] at ho'
      by_cases ha : a = addr
      · simp [ha] at ho'
      · rw [if_neg ha] at ho'; exact hr a k' ho' hka
    · simp only [Bool.not_true, Bool.false_eq_true, if_false]
      have hl := hr addr k ho hk
      simp only [hl, if_true]
      refine ⟨_, rfl, ?_⟩
      intro a k' ho' hka
      simp only [lookup_erase] at ho' ⊢
      by_cases ha : a = addr
      · simp [ha] at ho'
      · simp only [if_neg ha] at ho' ⊢; exact hr a k' ho' hka

/-! ## one step -/

/-- every call other than `chewing_free` is defined in EVERY state: the four stored iterators own their data -/
theorem step_collected_ok (c : Ctx) (op : Op) (h : ∀ a, op ≠ .free a) : ∃ c' r, step c op = .ok (c', r) := by
  cases op <;> simp only [step] <;> first
    | exact ⟨_, _, rfl⟩
    | (exfalso; exact h _ rfl)
    | (split <;> first | exact ⟨_, _, rfl⟩ | (split <;> exact ⟨_, _, rfl⟩))

/-- … and touches neither the registry nor the ghost heap, except by registering a fresh result -/
theorem step_heap (c : Ctx) (op : Op) (h : ∀ a, op ≠ .free a) :
    ∃ c' r, step c op = .ok (c', r) ∧
      ((c'.owned = c.owned ∧ c'.live = c.live) ∨
       ∃ c0 addr k, c0.owned = c.owned ∧ c0.live = c.live ∧ c' = register c0 addr k ∧
         (heapOk c op = true → lookup addr c.live = none)) := by
  cases op with
  | free a => exact absurd rfl (h a)
  | mutate => exact ⟨_, _, rfl, Or.inl ⟨rfl, rfl⟩⟩
  | other => exact ⟨_, _, rfl, Or.inl ⟨rfl, rfl⟩⟩
  | reset => exact ⟨_, _, rfl, Or.inl ⟨rfl, rfl⟩⟩
  | upEnumerate n => exact ⟨_, _, rfl, Or.inl ⟨rfl, rfl⟩⟩
  | upHasNext =>
    simp only [step]
    cases c.uiter with
    | none => exact ⟨_, _, rfl, Or.inl ⟨rfl, rfl⟩⟩
    | some u =>
      dsimp only
      split <;> exact ⟨_, _, rfl, Or.inl ⟨rfl, rfl⟩⟩
  | upGet =>
    simp only [step]
    cases c.uiter with
    | none => exact ⟨_, _, rfl, Or.inl ⟨rfl, rfl⟩⟩
    | some u => exact ⟨_, _, rfl, Or.inl ⟨rfl, rfl⟩⟩
  | candEnumerate sel n => cases sel <;> exact ⟨_, _, rfl, Or.inl ⟨rfl, rfl⟩⟩
  | candHasNext sel =>
    simp only [step]
    cases sel
    · exact ⟨_, _, rfl, Or.inl ⟨rfl, rfl⟩⟩
    · cases c.cand with
      | none => exact ⟨_, _, rfl, Or.inl ⟨rfl, rfl⟩⟩
      | some p => exact ⟨_, _, rfl, Or.inl ⟨rfl, rfl⟩⟩
  | candString addr =>
    simp only [step]
    cases c.cand with
    | none =>
      refine ⟨_, _, rfl, Or.inr ⟨c, addr, .cstring, rfl, rfl, rfl, ?_⟩⟩
      intro hh; simp only [heapOk, Bool.and_eq_true, Option.isNone_iff_eq_none] at hh; exact hh.2
    | some p =>
      refine ⟨_, _, rfl, Or.inr ⟨{ c with cand := some p.next.1 }, addr, .cstring, rfl, rfl, rfl, ?_⟩⟩
      intro hh; simp only [heapOk, Bool.and_eq_true, Option.isNone_iff_eq_none] at hh; exact hh.2
  | candStringStatic =>
    simp only [step]
    cases c.cand with
    | none => exact ⟨_, _, rfl, Or.inl ⟨rfl, rfl⟩⟩
    | some p => exact ⟨_, _, rfl, Or.inl ⟨rfl, rfl⟩⟩
  | intvEnumerate n => exact ⟨_, _, rfl, Or.inl ⟨rfl, rfl⟩⟩
  | intvHasNext =>
    simp only [step]
    cases c.intv with
    | none => exact ⟨_, _, rfl, Or.inl ⟨rfl, rfl⟩⟩
    | some p => exact ⟨_, _, rfl, Or.inl ⟨rfl, rfl⟩⟩
  | intvGet =>
    simp only [step]
    cases c.intv with
    | none => exact ⟨_, _, rfl, Or.inl ⟨rfl, rfl⟩⟩
    | some p => exact ⟨_, _, rfl, Or.inl ⟨rfl, rfl⟩⟩
  | kbEnumerate n => exact ⟨_, _, rfl, Or.inl ⟨rfl, rfl⟩⟩
  | kbHasNext =>
    simp only [step]
    cases c.kbt with
    | none => exact ⟨_, _, rfl, Or.inl ⟨rfl, rfl⟩⟩
    | some p => exact ⟨_, _, rfl, Or.inl ⟨rfl, rfl⟩⟩
  | kbString addr =>
    simp only [step]
    cases c.kbt with
    | none =>
      refine ⟨_, _, rfl, Or.inr ⟨c, addr, .cstring, rfl, rfl, rfl, ?_⟩⟩
      intro hh; simp only [heapOk, Bool.and_eq_true, Option.isNone_iff_eq_none] at hh; exact hh.2
    | some p =>
      refine ⟨_, _, rfl, Or.inr ⟨{ c with kbt := some p.next.1 }, addr, .cstring, rfl, rfl, rfl, ?_⟩⟩
      intro hh; simp only [heapOk, Bool.and_eq_true, Option.isNone_iff_eq_none] at hh; exact hh.2
  | kbStringStatic =>
    simp only [step]
    cases c.kbt with
    | none => exact ⟨_, _, rfl, Or.inl ⟨rfl, rfl⟩⟩
    | some p => exact ⟨_, _, rfl, Or.inl ⟨rfl, rfl⟩⟩
  | heapGet addr k =>
    refine ⟨_, _, rfl, Or.inr ⟨c, addr, k, rfl, rfl, rfl, ?_⟩⟩
    intro hh; simp only [heapOk, Bool.and_eq_true, Option.isNone_iff_eq_none] at hh; exact hh.2

/-- EVERY call is defined in every state with a sound registry, and keeps it sound — no premise on the call -/
theorem step_defined (c : Ctx) (op : Op) (hr : RegSound c) : ∃ c' r, step c op = .ok (c', r) ∧ RegSound c' := by
  by_cases hf : ∃ a, op = .free a
  · obtain ⟨a, rfl⟩ := hf
    obtain ⟨c', hs, hr'⟩ := freeStep_defined c hr a
    exact ⟨c', 0, hs, hr'⟩
  · obtain ⟨c', r, hs, hh⟩ := step_heap c op (fun a ha => hf ⟨a, ha⟩)
    refine ⟨c', r, hs, ?_⟩
    rcases hh with ⟨ho, hl⟩ | ⟨c0, addr, k, ho, hl, rfl, _⟩
    · exact regSound_of_same_heap hr ho hl
    · exact regSound_register c0 addr k (regSound_of_same_heap hr ho hl)

/-- under the allocator's contract the registry also stays complete -/
theorem step_ok (c : Ctx) (op : Op) (hr : RegOK c) (hh : heapOk c op = true) :
    ∃ c' r, step c op = .ok (c', r) ∧ RegOK c' := by
  by_cases hf : ∃ a, op = .free a
  · obtain ⟨a, rfl⟩ := hf
    obtain ⟨c', hs, hr', _⟩ := freeStep_ok c hr a
    exact ⟨c', 0, hs, hr'⟩
  · obtain ⟨c', r, hs, hx⟩ := step_heap c op (fun a ha => hf ⟨a, ha⟩)
    refine ⟨c', r, hs, ?_⟩
    rcases hx with ⟨ho, hl⟩ | ⟨c0, addr, k, ho, hl, rfl, hfree⟩
    · exact regOK_of_same_heap hr ho hl
    · exact regOK_register c0 addr k (regOK_of_same_heap hr ho hl) (by rw [hl]; exact hfree hh)

/-- calls other than `chewing_Reset` and the three functions of the user-phrase protocol leave the stored user-phrase
iterator alone -/
theorem step_uiter_frame (c : Ctx) (op : Op)
    (h : op ≠ .reset ∧ (∀ n, op ≠ .upEnumerate n) ∧ op ≠ .upHasNext ∧ op ≠ .upGet) (c' : Ctx) (r : Res)
    (hs : step c op = .ok (c', r)) : c'.uiter = c.uiter := by
  obtain ⟨h1, h2, h3, h4⟩ := h
  cases op with
  | reset => exact absurd rfl h1
  | upEnumerate n => exact absurd rfl (h2 n)
  | upHasNext => exact absurd rfl h3
  | upGet => exact absurd rfl h4
  | free a =>
    simp only [step, freeStep] at hs
    repeat' split at hs
    all_goals first | (cases hs; rfl) | cases hs
  | _ =>
    simp only [step] at hs
    repeat' split at hs
    all_goals first | (cases hs; rfl) | cases hs

/-! ## histories -/

theorem run_cons_ok {c c' c'' : Ctx} {op : Op} {ops : List Op} {r : Res} {rs : List Res}
    (hs : step c op = .ok (c', r)) (hr : run c' ops = .ok (c'', rs)) : run c (op :: ops) = .ok (c'', r :: rs) := by
  simp [run, hs, hr]

/-- **no history is undefined** -/
theorem run_defined (ops : List Op) : ∀ (c : Ctx), RegSound c → ∃ c' rs, run c ops = .ok (c', rs) ∧ RegSound c' := by
  induction ops with
  | nil => intro c hr; exact ⟨c, [], rfl, hr⟩
  | cons op ops ih =>
    intro c hr
    obtain ⟨c1, r, hs, hr1⟩ := step_defined c op hr
    obtain ⟨c2, rs, hrun, hr2⟩ := ih c1 hr1
    exact ⟨c2, r :: rs, by simp [run, hs, hrun], hr2⟩

theorem run_ok (ops : List Op) : ∀ (c : Ctx), RegOK c → heapOkRun c ops = true →
    ∃ c' rs, run c ops = .ok (c', rs) ∧ RegOK c' := by
  induction ops with
  | nil => intro c hr _; exact ⟨c, [], rfl, hr⟩
  | cons op ops ih =>
    intro c hr hh
    simp only [heapOkRun, Bool.and_eq_true] at hh
    obtain ⟨c1, r, hs, hr1⟩ := step_ok c op hr hh.1
    rw [hs] at hh
    obtain ⟨c2, rs, hrun, hr2⟩ := ih c1 hr1 hh.2
    exact ⟨c2, r :: rs, by simp [run, hs, hrun], hr2⟩

/-! ## an exhausted collected iterator stays exhausted (what `.fuse()` / `Vec::into_iter` guarantee) -/

/-- a cached end means the inner iterator is exhausted (holds for every `PeekVec` the model builds) -/
def PeekVec.WF (p : PeekVec) : Prop := p.peeked = some false → p.rest = 0

/-- items left, counting Peekable's cache -/
def PeekVec.left (p : PeekVec) : Nat := p.rest + (if p.peeked = some true then 1 else 0)

theorem PeekVec.new_wf (n : Nat) : (PeekVec.new n).WF ∧ (PeekVec.new n).left = n := by
  constructor
  · intro h; simp [PeekVec.new] at h
  · simp [PeekVec.new, PeekVec.left]

theorem PeekVec.next_spec (p : PeekVec) (hw : p.WF) :
    (p.next).2 = decide (0 < p.left) ∧ (p.next).1.left = p.left - 1 ∧ (p.next).1.WF := by
  obtain ⟨rest, peeked⟩ := p
  unfold PeekVec.WF at hw
  unfold PeekVec.next PeekVec.left PeekVec.WF
  cases peeked with
  | none =>
    by_cases h : 0 < rest
    · simp [h]
    · have : rest = 0 := by omega
      subst this; simp
  | some b =>
    cases b
    · have : rest = 0 := hw rfl
      subst this; simp
    · simp

theorem PeekVec.peek_spec (p : PeekVec) (hw : p.WF) :
    (p.peek).2 = decide (0 < p.left) ∧ (p.peek).1.left = p.left ∧ (p.peek).1.WF := by
  obtain ⟨rest, peeked⟩ := p
  unfold PeekVec.WF at hw
  unfold PeekVec.peek PeekVec.left PeekVec.WF
  cases peeked with
  | none =>
    by_cases h : 0 < rest
    · simp [h]; omega
    · have : rest = 0 := by omega
      subst this; simp
  | some b =>
    cases b
    · have : rest = 0 := hw rfl
      subst this; simp
    · simp

/-- reading a keyboard-type enumeration `m` times (static getter): the items left answer 1, EVERY later call 0 —
the enumeration stops at its end however often it is read -/
theorem kb_walk_static (m : Nat) : ∀ (c : Ctx) (p : PeekVec), c.kbt = some p → p.WF →
    ∃ c', run c (List.replicate m .kbStringStatic) =
      .ok (c', List.replicate (min p.left m) 1 ++ List.replicate (m - p.left) 0) := by
  induction m with
  | zero => intro c p _ _; exact ⟨c, by simp [run]⟩
  | succ m ih =>
    intro c p hc hw
    obtain ⟨hb, hl, hw'⟩ := p.next_spec hw
    have hs : step c .kbStringStatic = .ok ({ c with kbt := some p.next.1 }, bool2res p.next.2) := by
      simp only [step, hc]
    obtain ⟨c', hrun⟩ := ih { c with kbt := some p.next.1 } p.next.1 rfl hw'
    refine ⟨c', ?_⟩
    simp only [List.replicate_succ, run, hs, hrun]
    rw [hl, hb]
    cases hleft : p.left with
    | zero => simp [bool2res, List.replicate_succ]
    | succ l => simp [bool2res, Nat.succ_min_succ, List.replicate_succ]

/-- the earlier un-fused `u8` counter: pull number `start + k` is defined while it stays below 256 -/
theorem KbOld.pulls_overflow (valid : Nat) : KbOld.pulls 256 { start := 0, valid := valid } = none := by
  have key : ∀ n s, s + n ≥ 256 → KbOld.pulls n { start := s, valid := valid } = none ∨ n = 0 := by
    intro n
    induction n with
    | zero => intro _ _; exact Or.inr rfl
    | succ n ih =>
      intro s h
      left
      unfold KbOld.pulls KbOld.pull
      by_cases hs : s + 1 ≥ 256
      · simp [hs]
      · simp only [hs, if_false]
        rcases ih (s + 1) (by omega) with h1 | h1
        · simp [h1]
        · omega
  rcases key 256 0 (by omega) with h | h
  · exact h
  · omega

end Chewing.Owned
