import Chewing.Model.Candidates
/-!
Paging arithmetic (C07), for every list, page size and page index: the page count is the ceiling of
`n / per`, the pages `pageItems cs per 0 … pageCount-1` tile the list in order, all but the last are
full, the last is non-empty, pages from `pageCount` on are empty, item `i` of page `p` is item
`p * per + i` of the list.
-/
namespace Chewing

theorem pageCount_zero (per : Nat) (hper : 0 < per) : pageCount 0 per = 0 := by
  unfold pageCount
  exact Nat.div_eq_of_lt (by omega)

/-- `n ≤ pageCount n per * per`: the pages are enough -/
theorem pageCount_covers (n per : Nat) (hper : 0 < per) : n ≤ pageCount n per * per := by
  unfold pageCount
  have h1 := Nat.div_add_mod (n + per - 1) per
  have h2 := Nat.mod_lt (n + per - 1) hper
  rw [Nat.mul_comm]
  generalize per * ((n + per - 1) / per) = m at *
  omega

/-- `(pageCount n per - 1) * per < n`: no page is superfluous -/
theorem pageCount_tight (n per : Nat) (hn : 0 < n) : (pageCount n per - 1) * per < n := by
  unfold pageCount
  have h1 := Nat.div_add_mod (n + per - 1) per
  rw [Nat.mul_comm, Nat.mul_sub_one]
  generalize per * ((n + per - 1) / per) = m at *
  omega

theorem pageCount_pos (n per : Nat) (hper : 0 < per) (hn : 0 < n) : 0 < pageCount n per := by
  have := pageCount_covers n per hper
  rcases Nat.eq_zero_or_pos (pageCount n per) with h | h
  · rw [h] at this; omega
  · exact h

/-- the page count is the least `k` with `n ≤ k * per` — i.e. `n / per` rounded up -/
theorem pageCount_least (n per k : Nat) (hper : 0 < per) (hk : n ≤ k * per) : pageCount n per ≤ k := by
  rcases Nat.eq_zero_or_pos n with h | h
  · subst h; rw [pageCount_zero per hper]; exact Nat.zero_le _
  · have ht := pageCount_tight n per h
    rcases Nat.lt_or_ge k (pageCount n per) with hlt | hge
    · have : k * per ≤ (pageCount n per - 1) * per := Nat.mul_le_mul_right _ (by omega)
      omega
    · exact hge

/-- the usual closed form: quotient, plus one if there is a remainder -/
theorem pageCount_eq (n per : Nat) (hper : 0 < per) :
    pageCount n per = n / per + if n % per = 0 then 0 else 1 := by
  apply Nat.le_antisymm
  · apply pageCount_least n per _ hper
    have h1 := Nat.div_add_mod n per
    have h2 := Nat.mod_lt n hper
    split
    · rename_i h0
      rw [Nat.add_zero, Nat.mul_comm]
      generalize per * (n / per) = m at *
      omega
    · rw [Nat.add_mul, Nat.one_mul, Nat.mul_comm]
      generalize per * (n / per) = m at *
      omega
  · have hc := pageCount_covers n per hper
    have h1 := Nat.div_add_mod n per
    split
    · rename_i h0
      rw [Nat.add_zero]
      apply (Nat.div_le_iff_le_mul_add_pred hper).2
      rw [Nat.mul_comm]
      generalize pageCount n per * per = m at *
      omega
    · rename_i h0
      -- n / per < pageCount: otherwise pageCount * per ≤ (n / per) * per < n
      rcases Nat.lt_or_ge (n / per) (pageCount n per) with hlt | hge
      · omega
      · have : pageCount n per * per ≤ n / per * per := Nat.mul_le_mul_right _ hge
        rw [Nat.mul_comm (n / per)] at this
        generalize per * (n / per) = m at *
        generalize pageCount n per * per = m' at *
        omega

section
variable {α : Type}

theorem pageItems_length_le (cs : List α) (per p : Nat) : (pageItems cs per p).length ≤ per := by
  unfold pageItems
  rw [List.length_take]
  exact Nat.min_le_left _ _

theorem pageItems_length (cs : List α) (per p : Nat) :
    (pageItems cs per p).length = min per (cs.length - p * per) := by
  unfold pageItems
  rw [List.length_take, List.length_drop]

/-- the first `k` pages, concatenated in order, are the first `k * per` items -/
theorem pages_prefix (cs : List α) (per : Nat) (k : Nat) :
    (List.range k).flatMap (pageItems cs per) = cs.take (k * per) := by
  induction k with
  | zero => simp
  | succ k ih =>
    rw [List.range_succ, List.flatMap_append, ih]
    simp only [List.flatMap_cons, List.flatMap_nil, List.append_nil]
    unfold pageItems
    rw [Nat.succ_mul, List.take_add]

/-- **the pages partition the list in order** -/
theorem pages_partition (cs : List α) (per : Nat) (hper : 0 < per) :
    (List.range (pageCount cs.length per)).flatMap (pageItems cs per) = cs := by
  rw [pages_prefix]
  exact List.take_of_length_le (pageCount_covers _ _ hper)

/-- every page but the last is full -/
theorem page_full (cs : List α) (per p : Nat) (hp : p + 1 < pageCount cs.length per) :
    (pageItems cs per p).length = per := by
  rw [pageItems_length]
  have hn : 0 < cs.length := by
    rcases Nat.eq_zero_or_pos cs.length with h | h
    · rw [h] at hp; unfold pageCount at hp
      rcases Nat.eq_zero_or_pos per with h0 | h0
      · subst h0; simp at hp
      · rw [Nat.div_eq_of_lt (by omega)] at hp; omega
    · exact h
  have ht := pageCount_tight cs.length per hn
  have : (p + 1) * per ≤ (pageCount cs.length per - 1) * per := Nat.mul_le_mul_right _ (by omega)
  rw [Nat.add_mul, Nat.one_mul] at this
  generalize (pageCount cs.length per - 1) * per = m at *
  generalize p * per = q at *
  omega

/-- a page below the page count is non-empty (so is the last one) -/
theorem page_nonempty (cs : List α) (per p : Nat) (hper : 0 < per) (hp : p < pageCount cs.length per) :
    0 < (pageItems cs per p).length := by
  rw [pageItems_length]
  have hn : 0 < cs.length := by
    rcases Nat.eq_zero_or_pos cs.length with h | h
    · rw [h, pageCount_zero per hper] at hp; omega
    · exact h
  have ht := pageCount_tight cs.length per hn
  have : p * per ≤ (pageCount cs.length per - 1) * per := Nat.mul_le_mul_right _ (by omega)
  generalize (pageCount cs.length per - 1) * per = m at *
  generalize p * per = q at *
  omega

/-- nothing is listed on a page at or beyond the page count -/
theorem page_beyond (cs : List α) (per p : Nat) (hper : 0 < per) (hp : pageCount cs.length per ≤ p) :
    pageItems cs per p = [] := by
  apply List.eq_nil_of_length_eq_zero
  rw [pageItems_length]
  have hc := pageCount_covers cs.length per hper
  have : pageCount cs.length per * per ≤ p * per := Nat.mul_le_mul_right _ hp
  generalize pageCount cs.length per * per = m at *
  generalize p * per = q at *
  omega

/-- item `i` of page `p` is item `p * per + i` of the list -/
theorem page_item (cs : List α) (per p i : Nat) (hi : i < per) :
    (pageItems cs per p)[i]? = cs[p * per + i]? := by
  unfold pageItems
  rw [List.getElem?_take_of_lt hi, List.getElem?_drop]

/-- … and the page has nothing at positions `≥ per` -/
theorem page_item_none (cs : List α) (per p i : Nat) (hi : per ≤ i) : (pageItems cs per p)[i]? = none := by
  apply List.getElem?_eq_none
  exact Nat.le_trans (pageItems_length_le cs per p) hi

end

end Chewing
