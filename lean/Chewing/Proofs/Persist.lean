import Chewing.Model.Persist
/-!
Invariant of the persistence protocol (`Model/Persist.lean`) and its preservation by every step.
Used by `Props/C10.lean`.
-/
namespace Chewing.Persist

/-- the pending layers say something about `k` -/
def touched (b : Buf) (k : Key) : Prop := (b.btree k).isSome = true ∨ b.grave k = true

/-! ### small facts about files and layers -/

@[simp] theorem setF_same (fs : FS) (n : Name) (f : Option FileC) : setF fs n f n = f := by simp [setF]
@[simp] theorem setF_tmp_path (fs : FS) (f : Option FileC) : setF fs .tmp f .path = fs .path := by simp [setF]
@[simp] theorem setF_path_tmp (fs : FS) (f : Option FileC) : setF fs .path f .tmp = fs .tmp := by simp [setF]

theorem readPath_eq_some {fs : FS} {c : Content} : readPath fs = some c ↔ fs .path = some (.complete c) := by
  unfold readPath
  constructor
  · intro h
    split at h
    · next c' hc => cases h; exact hc
    · cases h
  · intro h
    simp [h]

theorem complete_inj {c c' : Content} (h : (some (FileC.complete c) : Option FileC) = some (FileC.complete c')) : c = c' := by
  injection h with h
  injection h

theorem live_fresh (c : Content) (g : Nat) : (Buf.fresh c g).live = c := by
  funext k
  simp [Buf.live, Buf.fresh]

/-- reloading the base layer from a file that agrees with it outside the pending layers does not
    change what is live -/
theorem live_reload (b : Buf) (c : Content) (h : ∀ k, ¬ touched b k → c k = b.trie k) :
    ({ b with trie := c } : Buf).live = b.live := by
  funext k
  simp only [Buf.live]
  by_cases hg : b.grave k = true
  · simp [hg]
  · cases hb : b.btree k with
    | some v => simp [hg]
    | none =>
      have ht : ¬ touched b k := by simp [touched, hg, hb]
      simp [hg, h k ht]

theorem live_idem (b : Buf) : ({ b with trie := b.live } : Buf).live = b.live := by
  apply live_reload
  intro k hk
  have h1 : b.grave k = false := by
    cases hg : b.grave k with
    | false => rfl
    | true => exact absurd (Or.inr hg) hk
  have h2 : b.btree k = none := by
    cases hb : b.btree k with
    | none => rfl
    | some v => exact absurd (Or.inl (by simp [hb])) hk
  simp [Buf.live, h1, h2]

theorem live_untouched (b : Buf) (k : Key) (hk : ¬ touched b k) : b.live k = b.trie k := by
  have h1 : b.grave k = false := by
    cases hg : b.grave k with
    | false => rfl
    | true => exact absurd (Or.inr hg) hk
  have h2 : b.btree k = none := by
    cases hb : b.btree k with
    | none => rfl
    | some v => exact absurd (Or.inl (by simp [hb])) hk
  simp [Buf.live, h1, h2]

theorem live_cleared (b : Buf) (hb : b.btree = fun _ => none) (hg : b.grave = fun _ => false) :
    b.live = b.trie := by
  funext k
  simp [Buf.live, hb, hg]

theorem touched_put {cfg : Cfg} {b : Buf} {k j : Key} {v : Val} (h : touched b j) : touched (b.put cfg k v) j := by
  unfold touched Buf.put at *
  by_cases hj : j = k
  · left; simp [setC, hj]
  · cases h with
    | inl h => left; simpa [setC, hj] using h
    | inr h =>
      right
      cases cfg.revive <;> simp [setG, hj, h]

theorem touched_remove {b : Buf} {k j : Key} (h : touched b j) : touched (b.remove k) j := by
  unfold touched Buf.remove at *
  by_cases hj : j = k
  · right; simp [setG, hj]
  · cases h with
    | inl h => left; simpa [setC, hj] using h
    | inr h => right; simpa [setG, hj] using h

/-- `remove_phrase` is `m[k ↦ none]` on the live map -/
theorem live_remove (b : Buf) (k : Key) : (b.remove k).live = setC b.live k none := by
  funext j
  by_cases hj : j = k
  · simp [Buf.live, Buf.remove, setC, setG, hj]
  · simp [Buf.live, Buf.remove, setC, setG, hj]

/-- with the tombstone rule repaired, `add`/`update` are `m[k ↦ some v]` on the live map -/
theorem live_put_revive (cfg : Cfg) (hr : cfg.revive = true) (b : Buf) (k : Key) (v : Val) :
    (b.put cfg k v).live = setC b.live k (some v) := by
  funext j
  by_cases hj : j = k
  · simp [Buf.live, Buf.put, setC, setG, hj, hr]
  · simp [Buf.live, Buf.put, setC, setG, hj, hr]

/-- without it the key stays hidden while tombstoned (finding F09, property C09) -/
theorem live_put_norevive (cfg : Cfg) (hr : cfg.revive = false) (b : Buf) (k : Key) (v : Val) :
    (b.put cfg k v).live = setC b.live k (if b.grave k then none else some v) := by
  funext j
  by_cases hj : j = k
  · subst hj
    cases hg : b.grave j <;> simp [Buf.live, Buf.put, setC, hr, hg]
  · simp [Buf.live, Buf.put, setC, hj, hr]

/-! ### the invariant -/

/-- facts about an in-flight (or finished, still registered) writer -/
structure WInv (fs : FS) (b : Buf) (wr : Writer) : Prop where
  tmpC : wr.pc = .flushed ∨ wr.pc = .synced → fs .tmp = some (.complete wr.snap)
  pathNew : PC.renamed.idx ≤ wr.pc.idx → fs .path = some (.complete wr.snap)
  pathOld : wr.pc.idx < PC.renamed.idx → fs .path = wr.old
  res : PC.reopened.idx ≤ wr.pc.idx → wr.result = some wr.snap
  clean : b.dirty = false → wr.snap = b.live ∧ wr.gen = b.gen
  agree : ∀ k, ¬ touched b k → wr.snap k = b.trie k

/-- the part of the invariant that does not mention the foreground phase -/
structure Core (b : Buf) (ow : Option Writer) (fs : FS) : Prop where
  path : ∃ c, fs .path = some (.complete c)
  agree : ∀ c, fs .path = some (.complete c) → ∀ k, ¬ touched b k → c k = b.trie k
  wr : ∀ x, ow = some x → WInv fs b x
  quiet : ow = none → b.dirty = false → fs .path = some (.complete b.live)

structure PhaseInv (cfg : Cfg) (w : World) : Prop where
  dropA : cfg.joinFirst = true → (w.phase = .dSync ∨ w.phase = .dFlush) → w.writer = none
  dropB : cfg.joinFirst = true → (w.phase = .dJoin ∨ w.phase = .closed) → w.buf.dirty = false
  closedW : w.phase = .closed → w.writer = none

structure Inv (cfg : Cfg) (w : World) : Prop where
  core : Core w.buf w.writer w.fs
  ph : PhaseInv cfg w

theorem core_init (c0 : Content) (t0 : Option FileC) : Core (init c0 t0).buf (init c0 t0).writer (init c0 t0).fs := by
  refine ⟨⟨c0, rfl⟩, ?_, ?_, ?_⟩
  · intro c hc k _
    have : c0 = c := complete_inj hc
    subst this
    rfl
  · intro x hx
    cases hx
  · intro _ _
    show some (FileC.complete c0) = some (FileC.complete (Buf.fresh c0 0).live)
    rw [live_fresh]

theorem inv_init (cfg : Cfg) (c0 : Content) (t0 : Option FileC) : Inv cfg (init c0 t0) := by
  refine ⟨core_init c0 t0, ?_, ?_, ?_⟩
  · intro _ h
    rcases h with h | h <;> cases h
  · intro _ h
    rcases h with h | h <;> cases h
  · intro h
    cases h

/-! ### preservation: changes -/

theorem core_put {b : Buf} {wr : Option Writer} {fs : FS} (cfg : Cfg) (k : Key) (v : Val) (h : Core b wr fs) :
    Core (b.put cfg k v) wr fs := by
  refine ⟨h.path, ?_, ?_, ?_⟩
  · intro c hc j hj
    exact h.agree c hc j (fun ht => hj (touched_put ht))
  · intro x hx
    have hx' := h.wr x hx
    refine ⟨hx'.tmpC, hx'.pathNew, hx'.pathOld, hx'.res, ?_, ?_⟩
    · intro hd
      simp [Buf.put] at hd
    · intro j hj
      exact hx'.agree j (fun ht => hj (touched_put ht))
  · intro _ hd
    simp [Buf.put] at hd

theorem core_remove {b : Buf} {wr : Option Writer} {fs : FS} (k : Key) (h : Core b wr fs) :
    Core (b.remove k) wr fs := by
  refine ⟨h.path, ?_, ?_, ?_⟩
  · intro c hc j hj
    exact h.agree c hc j (fun ht => hj (touched_remove ht))
  · intro x hx
    have hx' := h.wr x hx
    refine ⟨hx'.tmpC, hx'.pathNew, hx'.pathOld, hx'.res, ?_, ?_⟩
    · intro hd
      simp [Buf.remove] at hd
    · intro j hj
      exact hx'.agree j (fun ht => hj (touched_remove ht))
  · intro _ hd
    simp [Buf.remove] at hd

theorem core_add {b : Buf} {wr : Option Writer} {fs : FS} (cfg : Cfg) (k : Key) (v : Val) (h : Core b wr fs) :
    Core (b.add cfg k v).1 wr fs := by
  unfold Buf.add
  split
  · exact h
  · exact core_put cfg k v h

/-! ### preservation: `sync` -/

theorem sync_phase (w : World) : (sync w).phase = w.phase := by
  unfold sync
  repeat' split
  all_goals rfl

theorem sync_crashed (w : World) : (sync w).crashed = w.crashed := by
  unfold sync
  repeat' split
  all_goals rfl

theorem sync_fs (w : World) : (sync w).fs = w.fs := by
  unfold sync
  repeat' split
  all_goals rfl

theorem sync_dirty (w : World) : (sync w).buf.dirty = w.buf.dirty := by
  unfold sync
  repeat' split
  all_goals rfl

theorem sync_writer_none (w : World) (h : w.writer = none) : (sync w).writer = none := by
  unfold sync
  rw [h]
  simp only
  split <;> simp [h]

theorem core_sync (w : World) (h : Core w.buf w.writer w.fs) :
    Core (sync w).buf (sync w).writer (sync w).fs ∧ (sync w).buf.live = w.buf.live := by
  unfold sync
  cases hw : w.writer with
  | some wr =>
    have hx := h.wr wr hw
    simp only
    by_cases hpc : wr.pc = .finished
    · have h9 : wr.pc.idx = 9 := by rw [hpc]; rfl
      have hnew := hx.pathNew (by rw [h9]; decide)
      simp only [hpc, ne_eq, not_true_eq_false, ite_false]
      cases hr : wr.result with
      | none =>
        simp only
        refine ⟨⟨h.path, h.agree, ?_, ?_⟩, by first | rfl | trivial⟩
        · intro x hx2; cases hx2
        · intro _ hd
          rw [hnew, (hx.clean hd).1]
      | some t =>
        have ht : t = wr.snap := by
          have := hx.res (by rw [h9]; decide)
          rw [hr] at this
          exact Option.some.inj this
        simp only
        cases hd : w.buf.dirty with
        | true =>
          simp only [ite_true]
          refine ⟨⟨h.path, h.agree, ?_, ?_⟩, by first | rfl | trivial⟩
          · intro x hx2; cases hx2
          · intro _ hd2
            rw [hd] at hd2
            cases hd2
        | false =>
          simp only [Bool.false_eq_true, ite_false]
          have hl := (hx.clean hd).1
          refine ⟨⟨h.path, ?_, ?_, ?_⟩, ?_⟩
          · intro c hc k _
            rw [hnew] at hc
            have : wr.snap = c := complete_inj hc
            rw [← this, ht]
          · intro x hx2; cases hx2
          · intro _ _
            rw [live_cleared _ rfl rfl, hnew, ht]
          · rw [live_cleared _ rfl rfl]
            show t = w.buf.live
            rw [ht, hl]
    · simp only [hpc, ne_eq, not_false_eq_true, ite_true]
      exact ⟨h, by first | rfl | trivial⟩
  | none =>
    simp only
    cases hrp : readPath w.fs with
    | none =>
      simp only
      exact ⟨h, by first | rfl | trivial⟩
    | some c =>
      simp only
      have hp := readPath_eq_some.mp hrp
      have hagree := h.agree c hp
      have hlive : ({ w.buf with trie := c } : Buf).live = w.buf.live := live_reload w.buf c hagree
      refine ⟨⟨h.path, ?_, ?_, ?_⟩, hlive⟩
      · intro c' hc' k _
        rw [hp] at hc'
        have : c = c' := complete_inj hc'
        rw [this]
      · intro x hx2; cases hx2
      · intro _ hd
        have hq := h.quiet hw hd
        rw [hlive, hq]

/-! ### preservation: `checkpoint` -/

theorem checkpoint_phase (w : World) : (checkpoint w).phase = w.phase := by
  unfold checkpoint
  repeat' split
  all_goals rfl

theorem checkpoint_crashed (w : World) : (checkpoint w).crashed = w.crashed := by
  unfold checkpoint
  repeat' split
  all_goals rfl

theorem checkpoint_fs (w : World) : (checkpoint w).fs = w.fs := by
  unfold checkpoint
  repeat' split
  all_goals rfl

theorem checkpoint_live (w : World) : (checkpoint w).buf.live = w.buf.live := by
  unfold checkpoint
  repeat' split
  all_goals rfl

theorem checkpoint_clean (w : World) (h : w.writer = none) : (checkpoint w).buf.dirty = false := by
  unfold checkpoint
  rw [h]
  simp only [Option.isSome_none, Bool.false_eq_true, ite_false]
  cases hd : w.buf.dirty <;> simp [hd]

theorem core_checkpoint (w : World) (h : Core w.buf w.writer w.fs) :
    Core (checkpoint w).buf (checkpoint w).writer (checkpoint w).fs := by
  unfold checkpoint
  split
  · exact h
  · split
    · exact h
    · refine ⟨h.path, ?_, ?_, ?_⟩
      · intro c hc k hk
        exact h.agree c hc k hk
      · intro x hx
        have hx : x = { pc := .start, snap := w.buf.live, result := none, gen := w.buf.gen, old := w.fs .path } :=
          (Option.some.inj hx).symm
        subst hx
        refine ⟨?_, ?_, ?_, ?_, ?_, ?_⟩
        · intro hp
          rcases hp with hp | hp <;> cases hp
        · intro hp
          simp [PC.idx] at hp
        · intro _
          rfl
        · intro hp
          simp [PC.idx] at hp
        · intro _
          exact ⟨rfl, rfl⟩
        · intro k hk
          exact live_untouched w.buf k hk
      · intro hn
        cases hn

/-! ### preservation: the writer thread -/

theorem core_wstep {b : Buf} {wr wr' : Writer} {fs fs' : FS} (h : Core b (some wr) fs)
    (hs : wstep wr fs = some (wr', fs')) :
    Core b (some wr') fs' ∧
    (fs' .path = fs .path ∨ (wr.pc = .synced ∧ fs' .path = some (.complete wr.snap))) := by
  have hx := h.wr wr rfl
  unfold wstep at hs
  cases hpc : wr.pc <;> rw [hpc] at hs <;> simp only at hs
  case finished => cases hs
  case synced =>
    have htmp := hx.tmpC (Or.inr hpc)
    rw [htmp] at hs
    simp only at hs
    injection hs with hs
    injection hs with h1 h2
    subst h1
    subst h2
    refine ⟨⟨⟨wr.snap, by simp⟩, ?_, ?_, ?_⟩, Or.inr ⟨rfl, by simp⟩⟩
    · intro c hc k hk
      have hc' : (some (FileC.complete wr.snap) : Option FileC) = some (FileC.complete c) := by simpa using hc
      rw [← complete_inj hc']
      exact hx.agree k hk
    · intro x hx2
      have hx2 := (Option.some.inj hx2).symm
      subst hx2
      refine ⟨?_, ?_, ?_, ?_, hx.clean, hx.agree⟩
      · intro hp
        rcases hp with hp | hp <;> cases hp
      · intro _
        simp
      · intro hp
        simp [PC.idx] at hp
      · intro hp
        simp [PC.idx] at hp
    · intro hn
      cases hn
  all_goals
    injection hs with hs
    injection hs with h1 h2
    subst h1
    subst h2
    have hidx : wr.pc.idx = _ := congrArg PC.idx hpc
  case start =>
    refine ⟨⟨h.path, h.agree, ?_, fun hn => by cases hn⟩, Or.inl rfl⟩
    intro x hx2
    have hx2 := (Option.some.inj hx2).symm
    subst hx2
    refine ⟨?_, ?_, ?_, ?_, hx.clean, hx.agree⟩
    · intro hp
      rcases hp with hp | hp <;> cases hp
    · intro hp
      simp [PC.idx] at hp
    · intro _
      exact hx.pathOld (by rw [hidx]; decide)
    · intro hp
      simp [PC.idx] at hp
  case collected =>
    refine ⟨⟨by simpa using h.path, by simpa using h.agree, ?_, fun hn => by cases hn⟩, Or.inl (by simp)⟩
    intro x hx2
    have hx2 := (Option.some.inj hx2).symm
    subst hx2
    refine ⟨?_, ?_, ?_, ?_, hx.clean, hx.agree⟩
    · intro hp
      rcases hp with hp | hp <;> cases hp
    · intro hp
      simp [PC.idx] at hp
    · intro _
      simpa using hx.pathOld (by rw [hidx]; decide)
    · intro hp
      simp [PC.idx] at hp
  case created =>
    refine ⟨⟨by simpa using h.path, by simpa using h.agree, ?_, fun hn => by cases hn⟩, Or.inl (by simp)⟩
    intro x hx2
    have hx2 := (Option.some.inj hx2).symm
    subst hx2
    refine ⟨?_, ?_, ?_, ?_, hx.clean, hx.agree⟩
    · intro hp
      rcases hp with hp | hp <;> cases hp
    · intro hp
      simp [PC.idx] at hp
    · intro _
      simpa using hx.pathOld (by rw [hidx]; decide)
    · intro hp
      simp [PC.idx] at hp
  case written =>
    refine ⟨⟨by simpa using h.path, by simpa using h.agree, ?_, fun hn => by cases hn⟩, Or.inl (by simp)⟩
    intro x hx2
    have hx2 := (Option.some.inj hx2).symm
    subst hx2
    refine ⟨?_, ?_, ?_, ?_, hx.clean, hx.agree⟩
    · intro _
      simp
    · intro hp
      simp [PC.idx] at hp
    · intro _
      simpa using hx.pathOld (by rw [hidx]; decide)
    · intro hp
      simp [PC.idx] at hp
  case flushed =>
    refine ⟨⟨h.path, h.agree, ?_, fun hn => by cases hn⟩, Or.inl rfl⟩
    intro x hx2
    have hx2 := (Option.some.inj hx2).symm
    subst hx2
    refine ⟨?_, ?_, ?_, ?_, hx.clean, hx.agree⟩
    · intro _
      exact hx.tmpC (Or.inl hpc)
    · intro hp
      simp [PC.idx] at hp
    · intro _
      exact hx.pathOld (by rw [hidx]; decide)
    · intro hp
      simp [PC.idx] at hp
  case renamed =>
    refine ⟨⟨h.path, h.agree, ?_, fun hn => by cases hn⟩, Or.inl rfl⟩
    intro x hx2
    have hx2 := (Option.some.inj hx2).symm
    subst hx2
    refine ⟨?_, ?_, ?_, ?_, hx.clean, hx.agree⟩
    · intro hp
      rcases hp with hp | hp <;> cases hp
    · intro _
      exact hx.pathNew (by rw [hidx]; decide)
    · intro hp
      simp [PC.idx] at hp
    · intro hp
      simp [PC.idx] at hp
  case built =>
    have hnew := hx.pathNew (by rw [hidx]; decide)
    refine ⟨⟨h.path, h.agree, ?_, fun hn => by cases hn⟩, Or.inl rfl⟩
    intro x hx2
    have hx2 := (Option.some.inj hx2).symm
    subst hx2
    refine ⟨?_, ?_, ?_, ?_, hx.clean, hx.agree⟩
    · intro hp
      rcases hp with hp | hp <;> cases hp
    · intro _
      exact hnew
    · intro hp
      simp [PC.idx] at hp
    · intro _
      exact readPath_eq_some.mpr hnew
  case reopened =>
    refine ⟨⟨h.path, h.agree, ?_, fun hn => by cases hn⟩, Or.inl rfl⟩
    intro x hx2
    have hx2 := (Option.some.inj hx2).symm
    subst hx2
    refine ⟨?_, ?_, ?_, ?_, hx.clean, hx.agree⟩
    · intro hp
      rcases hp with hp | hp <;> cases hp
    · intro _
      exact hx.pathNew (by rw [hidx]; decide)
    · intro hp
      simp [PC.idx] at hp
    · intro _
      exact hx.res (by rw [hidx]; decide)

/-! ### preservation: `join` -/

theorem core_join (w : World) (h : Core w.buf w.writer w.fs) (hd : writerDone w = true) :
    Core w.buf none w.fs := by
  refine ⟨h.path, h.agree, fun x hx => (by cases hx), ?_⟩
  intro _ hdirty
  cases hw : w.writer with
  | none => exact h.quiet hw hdirty
  | some wr =>
    have hx := h.wr wr hw
    have hpc : wr.pc = .finished := by
      unfold writerDone at hd
      rw [hw] at hd
      simpa using hd
    have h9 : wr.pc.idx = 9 := by rw [hpc]; rfl
    rw [hx.pathNew (by rw [h9]; decide), (hx.clean hdirty).1]

/-! ### one step -/

theorem phaseInv_of_run {cfg : Cfg} {w : World} (h : w.phase = .run) : PhaseInv cfg w := by
  refine ⟨fun _ h2 => ?_, fun _ h2 => ?_, fun h2 => ?_⟩
  · rw [h] at h2; rcases h2 with h2 | h2 <;> cases h2
  · rw [h] at h2; rcases h2 with h2 | h2 <;> cases h2
  · rw [h] at h2; cases h2

/-- the only step that changes what the path holds is the writer's rename, and it installs the
    complete snapshot -/
def PathStep (w : World) (a : Act) (w' : World) : Prop :=
  w'.fs .path = w.fs .path ∨
  ∃ wr, w.writer = some wr ∧ wr.pc = .synced ∧ a = .w ∧ w'.fs .path = some (.complete wr.snap)

/-- the live contents after a step, as a function of the state before it -/
def liveAfter (cfg : Cfg) (w : World) (a : Act) : Content :=
  match a with
  | .add k v => (w.buf.add cfg k v).1.live
  | .update k v => (w.buf.put cfg k v).live
  | .remove k => (w.buf.remove k).live
  | .open_ => (readPath w.fs).getD w.buf.live
  | _ => w.buf.live

theorem step_facts {cfg : Cfg} {w w' : World} {a : Act} (hi : Inv cfg w) (hs : step cfg w a = some w') :
    Inv cfg w' ∧ PathStep w a w' ∧ w'.buf.live = liveAfter cfg w a := by
  unfold step at hs
  split at hs
  · cases hs
  · cases a with
    | crash =>
      simp only at hs
      have hs := Option.some.inj hs
      subst hs
      exact ⟨⟨hi.core, ⟨hi.ph.dropA, hi.ph.dropB, hi.ph.closedW⟩⟩, Or.inl rfl, rfl⟩
    | w =>
      simp only at hs
      cases hw : w.writer with
      | none => rw [hw] at hs; cases hs
      | some wr =>
        rw [hw] at hs
        simp only at hs
        cases hws : wstep wr w.fs with
        | none => rw [hws] at hs; cases hs
        | some p =>
          obtain ⟨wr', fs'⟩ := p
          rw [hws] at hs
          simp only at hs
          have hs := Option.some.inj hs
          subst hs
          have hc := hi.core
          rw [hw] at hc
          obtain ⟨hc', hp⟩ := core_wstep hc hws
          refine ⟨⟨hc', ⟨?_, hi.ph.dropB, ?_⟩⟩, ?_, rfl⟩
          · intro hj hph
            have := hi.ph.dropA hj hph
            rw [hw] at this
            cases this
          · intro hph
            have := hi.ph.closedW hph
            rw [hw] at this
            cases this
          · rcases hp with hp | ⟨hp1, hp2⟩
            · exact Or.inl hp
            · exact Or.inr ⟨wr, hw, hp1, rfl, hp2⟩
    | add k v =>
      simp only at hs
      split at hs
      · next hph =>
        have hs := Option.some.inj hs
        subst hs
        exact ⟨⟨core_add cfg k v hi.core, phaseInv_of_run hph⟩, Or.inl rfl, rfl⟩
      · cases hs
    | update k v =>
      simp only at hs
      split at hs
      · next hph =>
        have hs := Option.some.inj hs
        subst hs
        exact ⟨⟨core_put cfg k v hi.core, phaseInv_of_run hph⟩, Or.inl rfl, rfl⟩
      · cases hs
    | remove k =>
      simp only at hs
      split at hs
      · next hph =>
        have hs := Option.some.inj hs
        subst hs
        exact ⟨⟨core_remove k hi.core, phaseInv_of_run hph⟩, Or.inl rfl, rfl⟩
      · cases hs
    | flush =>
      simp only at hs
      split at hs
      · next hph =>
        have hs := Option.some.inj hs
        subst hs
        refine ⟨⟨core_checkpoint w hi.core, phaseInv_of_run (by rw [checkpoint_phase]; exact hph)⟩, Or.inl ?_, ?_⟩
        · rw [checkpoint_fs]
        · exact checkpoint_live w
      · cases hs
    | reopen =>
      simp only at hs
      split at hs
      · next hph =>
        have hs := Option.some.inj hs
        subst hs
        refine ⟨⟨(core_sync w hi.core).1, phaseInv_of_run (by rw [sync_phase]; exact hph)⟩, Or.inl ?_, ?_⟩
        · rw [sync_fs]
        · exact (core_sync w hi.core).2
      · cases hs
    | close =>
      simp only at hs
      split at hs
      · next hph =>
        have hs := Option.some.inj hs
        subst hs
        refine ⟨⟨hi.core, ⟨?_, ?_, ?_⟩⟩, Or.inl rfl, rfl⟩
        · intro hj h2
          simp only [hj, ite_true] at h2
          rcases h2 with h2 | h2 <;> cases h2
        · intro hj h2
          simp only [hj, ite_true] at h2
          rcases h2 with h2 | h2 <;> cases h2
        · intro h2
          simp only at h2
          split at h2 <;> cases h2
      · cases hs
    | d =>
      simp only at hs
      split at hs
      · next hph =>
        -- dJoin0
        split at hs
        · next hdone =>
          have hs := Option.some.inj hs
          subst hs
          refine ⟨⟨core_join w hi.core hdone, ⟨fun _ _ => rfl, ?_, ?_⟩⟩, Or.inl rfl, rfl⟩
          · intro _ h2
            rcases h2 with h2 | h2 <;> cases h2
          · intro h2
            cases h2
        · cases hs
      · next hph =>
        -- dSync
        have hs := Option.some.inj hs
        subst hs
        refine ⟨⟨(core_sync w hi.core).1, ⟨?_, ?_, ?_⟩⟩, Or.inl ?_, (core_sync w hi.core).2⟩
        · intro hj _
          exact sync_writer_none w (hi.ph.dropA hj (Or.inl hph))
        · intro _ h2
          rcases h2 with h2 | h2 <;> cases h2
        · intro h2
          cases h2
        · show (sync w).fs .path = w.fs .path
          rw [sync_fs]
      · next hph =>
        -- dFlush
        have hs := Option.some.inj hs
        subst hs
        refine ⟨⟨core_checkpoint w hi.core, ⟨?_, ?_, ?_⟩⟩, Or.inl ?_, checkpoint_live w⟩
        · intro _ h2
          rcases h2 with h2 | h2 <;> cases h2
        · intro hj _
          exact checkpoint_clean w (hi.ph.dropA hj (Or.inr hph))
        · intro h2
          cases h2
        · show (checkpoint w).fs .path = w.fs .path
          rw [checkpoint_fs]
      · next hph =>
        -- dJoin
        split at hs
        · next hdone =>
          have hs := Option.some.inj hs
          subst hs
          refine ⟨⟨core_join w hi.core hdone, ⟨?_, ?_, fun _ => rfl⟩⟩, Or.inl rfl, rfl⟩
          · intro _ h2
            rcases h2 with h2 | h2 <;> cases h2
          · intro hj _
            exact hi.ph.dropB hj (Or.inl hph)
        · cases hs
      · cases hs
    | open_ =>
      simp only at hs
      split at hs
      · next hph =>
        cases hrp : readPath w.fs with
        | none => rw [hrp] at hs; cases hs
        | some c =>
          rw [hrp] at hs
          simp only at hs
          have hs := Option.some.inj hs
          subst hs
          have hp := readPath_eq_some.mp hrp
          have hwn := hi.ph.closedW hph
          refine ⟨⟨⟨hi.core.path, ?_, ?_, ?_⟩, phaseInv_of_run rfl⟩, Or.inl rfl, ?_⟩
          · intro c' hc' k _
            have hc' : w.fs .path = some (.complete c') := hc'
            rw [hp] at hc'
            rw [← complete_inj hc']
            rfl
          · intro x hx
            have hx : w.writer = some x := hx
            rw [hwn] at hx
            cases hx
          · intro _ _
            show w.fs .path = some (.complete (Buf.fresh c w.buf.gen).live)
            rw [live_fresh, hp]
          · show (Buf.fresh c w.buf.gen).live = liveAfter cfg w .open_
            simp [liveAfter, hrp, live_fresh]
      · cases hs

theorem inv_run {cfg : Cfg} {acts : List Act} {w w' : World} (hi : Inv cfg w) (hr : run cfg w acts = some w') :
    Inv cfg w' := by
  induction acts generalizing w with
  | nil =>
    have := Option.some.inj hr
    subst this
    exact hi
  | cons a as ih =>
    unfold run at hr
    cases hs : step cfg w a with
    | none => rw [hs] at hr; cases hr
    | some w1 =>
      rw [hs] at hr
      exact ih (step_facts hi hs).1 hr

theorem inv_reachable {cfg : Cfg} {w : World} (h : Reachable cfg w) : Inv cfg w := by
  obtain ⟨c0, t0, acts, hr⟩ := h
  exact inv_run (inv_init cfg c0 t0) hr

theorem reachable_step {cfg : Cfg} {w w' : World} {a : Act} (h : Reachable cfg w) (hs : step cfg w a = some w') :
    Reachable cfg w' := by
  obtain ⟨c0, t0, acts, hr⟩ := h
  refine ⟨c0, t0, acts ++ [a], ?_⟩
  have : ∀ (l : List Act) (x y : World), run cfg x l = some y → run cfg x (l ++ [a]) = step cfg y a := by
    intro l
    induction l with
    | nil =>
      intro x y hxy
      have := Option.some.inj hxy
      subst this
      simp only [List.nil_append, run]
      cases step cfg x a <;> rfl
    | cons b bs ih =>
      intro x y hxy
      simp only [List.cons_append, run] at hxy ⊢
      cases hb : step cfg x b with
      | none => rw [hb] at hxy; cases hxy
      | some x1 =>
        rw [hb] at hxy
        simp only at hxy ⊢
        exact ih x1 y hxy
  rw [this acts _ w hr, hs]

/-! ### the live contents follow the accepted changes -/

theorem open_enabled {cfg : Cfg} {w w' : World} (hs : step cfg w .open_ = some w') : w.phase = .closed := by
  unfold step at hs
  split at hs
  · cases hs
  · simp only at hs
    split at hs
    · next h => exact h
    · cases hs

theorem liveAfter_spec {cfg : Cfg} (hrv : cfg.revive = true) (hj : cfg.joinFirst = true) {w w' : World} {a : Act}
    (hi : Inv cfg w) (hs : step cfg w a = some w') : liveAfter cfg w a = applyChange w.buf.live a := by
  cases a with
  | add k v =>
    simp only [liveAfter, applyChange, Buf.add]
    split
    · rfl
    · exact live_put_revive cfg hrv w.buf k v
  | update k v => exact live_put_revive cfg hrv w.buf k v
  | remove k => exact live_remove w.buf k
  | open_ =>
    have hph := open_enabled hs
    have hq := hi.core.quiet (hi.ph.closedW hph) (hi.ph.dropB hj (Or.inr hph))
    simp [liveAfter, applyChange, readPath_eq_some.mpr hq]
  | flush => rfl
  | reopen => rfl
  | close => rfl
  | d => rfl
  | w => rfl
  | crash => rfl

theorem live_run {cfg : Cfg} (hrv : cfg.revive = true) (hj : cfg.joinFirst = true) {acts : List Act} {w w' : World}
    (hi : Inv cfg w) (hr : run cfg w acts = some w') : w'.buf.live = acts.foldl applyChange w.buf.live := by
  induction acts generalizing w with
  | nil =>
    have := Option.some.inj hr
    subst this
    rfl
  | cons a as ih =>
    unfold run at hr
    cases hs : step cfg w a with
    | none => rw [hs] at hr; cases hr
    | some w1 =>
      rw [hs] at hr
      have hf := step_facts hi hs
      rw [ih hf.1 hr, hf.2.2, liveAfter_spec hrv hj hi hs]
      rfl

/-! ### the editor only ever issues dictionary calls -/

theorem run_append (cfg : Cfg) (l1 l2 : List Act) (w : World) :
    run cfg w (l1 ++ l2) = match run cfg w l1 with | some w' => run cfg w' l2 | none => none := by
  induction l1 generalizing w with
  | nil => simp [run]
  | cons a as ih =>
    simp only [List.cons_append, run]
    cases step cfg w a with
    | none => rfl
    | some w1 => exact ih w1

theorem edRun_refines {cfg : Cfg} {eacts : List EdAct} {e e' : EdWorld} (h : edRun cfg e eacts = some e') :
    ∃ acts, run cfg e.w acts = some e'.w := by
  induction eacts generalizing e with
  | nil =>
    have := Option.some.inj h
    subst this
    exact ⟨[], rfl⟩
  | cons a as ih =>
    unfold edRun at h
    cases hs : edStep cfg e a with
    | none => rw [hs] at h; cases h
    | some e1 =>
      rw [hs] at h
      obtain ⟨acts2, h2⟩ := ih h
      unfold edStep at hs
      cases hr : run cfg e.w (edExpand e.dirtyLevel a).1 with
      | none => rw [hr] at hs; cases hs
      | some w1 =>
        rw [hr] at hs
        have hs := Option.some.inj hs
        subst hs
        refine ⟨(edExpand e.dirtyLevel a).1 ++ acts2, ?_⟩
        rw [run_append, hr]
        exact h2

/-! ### the editor never lets `sync` adopt -/

/-- what the editor's environment may do: drop the editor, the parts of `Drop`, writer steps, a crash -/
def EnvOk : EdAct → Prop
  | .env a => a = .close ∨ a = .d ∨ a = .w ∨ a = .crash
  | _ => True

/-- while the editor is alive, a positive `dirty_level` means the dictionary is dirty -/
def EdInv (e : EdWorld) : Prop := e.w.phase = .run → 0 < e.dirtyLevel → e.w.buf.dirty = true

theorem run_one {cfg : Cfg} {w w' : World} {a : Act} (h : run cfg w [a] = some w') : step cfg w a = some w' := by
  unfold run at h
  cases hs : step cfg w a with
  | none => rw [hs] at h; cases h
  | some w1 =>
    rw [hs] at h
    simp only [run] at h
    rw [h]

theorem edInv_step {cfg : Cfg} {e e' : EdWorld} {a : EdAct} (hi : EdInv e) (ha : EnvOk a)
    (hs : edStep cfg e a = some e') : EdInv e' := by
  unfold edStep at hs
  cases hr : run cfg e.w (edExpand e.dirtyLevel a).1 with
  | none => rw [hr] at hs; cases hs
  | some w1 =>
    rw [hr] at hs
    have hs := Option.some.inj hs
    subst hs
    cases a with
    | learn k v known =>
      cases known with
      | true =>
        have h1 := run_one hr
        simp only [step] at h1
        split at h1
        · cases h1
        · split at h1
          · have h1 := Option.some.inj h1
            subst h1
            intro _ _
            rfl
          · cases h1
      | false =>
        have h1 := run_one hr
        simp only [step] at h1
        split at h1
        · cases h1
        · split at h1
          · next hph =>
            have h1 := Option.some.inj h1
            subst h1
            intro _ hdl
            simp only [edExpand] at hdl
            simp only [Buf.add]
            split
            · exact hi hph hdl
            · rfl
          · cases h1
    | unlearn k =>
      have h1 := run_one hr
      simp only [step] at h1
      split at h1
      · cases h1
      · split at h1
        · have h1 := Option.some.inj h1
          subst h1
          intro _ _
          rfl
        · cases h1
    | key =>
      intro _ hdl
      simp only [edExpand] at hdl
      split at hdl
      · exact absurd hdl (by decide)
      · next hz =>
        simp only [edExpand, hz, ite_false, run] at hr
        have hr := Option.some.inj hr
        subst hr
        exact hi ‹_› hdl
    | env a =>
      have h1 := run_one hr
      simp only [EnvOk] at ha
      intro hph hdl
      simp only [edExpand] at hdl
      rcases ha with ha | ha | ha | ha <;> subst ha <;> simp only [step] at h1 <;> split at h1
      · cases h1
      · split at h1
        · have h1 := Option.some.inj h1
          subst h1
          simp only at hph
          split at hph <;> cases hph
        · cases h1
      · cases h1
      · -- d: only enabled outside `run`, and never leads back to it
        split at h1
        · split at h1
          · have h1 := Option.some.inj h1
            subst h1
            cases hph
          · cases h1
        · have h1 := Option.some.inj h1
          subst h1
          cases hph
        · have h1 := Option.some.inj h1
          subst h1
          cases hph
        · split at h1
          · have h1 := Option.some.inj h1
            subst h1
            cases hph
          · cases h1
        · cases h1
      · cases h1
      · cases hw : e.w.writer with
        | none => rw [hw] at h1; cases h1
        | some wr =>
          rw [hw] at h1
          simp only at h1
          cases hws : wstep wr e.w.fs with
          | none => rw [hws] at h1; cases h1
          | some p =>
            rw [hws] at h1
            simp only at h1
            have h1 := Option.some.inj h1
            subst h1
            exact hi hph hdl
      · cases h1
      · have h1 := Option.some.inj h1
        subst h1
        exact hi hph hdl

theorem edInv_run {cfg : Cfg} {eacts : List EdAct} {e e' : EdWorld} (hi : EdInv e) (ha : ∀ a ∈ eacts, EnvOk a)
    (h : edRun cfg e eacts = some e') : EdInv e' := by
  induction eacts generalizing e with
  | nil =>
    have := Option.some.inj h
    subst this
    exact hi
  | cons a as ih =>
    unfold edRun at h
    cases hs : edStep cfg e a with
    | none => rw [hs] at h; cases h
    | some e1 =>
      rw [hs] at h
      exact ih (edInv_step hi (ha a (List.mem_cons_self ..)) hs) (fun b hb => ha b (List.mem_cons_of_mem _ hb)) h

end Chewing.Persist
