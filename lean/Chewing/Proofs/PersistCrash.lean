import Chewing.Proofs.Persist
/-!
# What the dictionary file holds is always the live contents after some prefix of the history

The file at the path is only ever replaced by a writer's snapshot, a snapshot is the live contents at
the moment of the `flush` that spawned the writer, and only one writer exists at a time.  Hence, after
any action list (any schedule, a process death anywhere), the file holds the live contents the
dictionary had after some *prefix* of that list — never a mixture, never something that was not live
at some moment.  Proved by induction over the action list with a history predicate `S` that is closed
under "the live contents of the state before the step".
-/
namespace Chewing.Persist

/-- `c` was the live contents after some prefix of `acts` run from `w0` -/
def LiveOfPrefix (cfg : Cfg) (w0 : World) (acts : List Act) (c : Content) : Prop :=
  ∃ pre wp, pre <+: acts ∧ run cfg w0 pre = some wp ∧ wp.buf.live = c

/-- everything on disk or about to be put there satisfies `S` -/
structure Hist (S : Content → Prop) (w : World) : Prop where
  path : ∀ c, w.fs .path = some (.complete c) → S c
  snap : ∀ wr, w.writer = some wr → S wr.snap

theorem Hist.mono {S T : Content → Prop} {w : World} (h : Hist S w) (hst : ∀ c, S c → T c) : Hist T w :=
  ⟨fun c hc => hst c (h.path c hc), fun wr hw => hst _ (h.snap wr hw)⟩

theorem wstep_snap {wr wr' : Writer} {fs fs' : FS} (h : wstep wr fs = some (wr', fs')) : wr'.snap = wr.snap := by
  unfold wstep at h
  split at h
  all_goals first
    | (have h := Option.some.inj h; have h1 := (Prod.mk.inj h).1; subst h1; rfl)
    | (split at h <;> (have h := Option.some.inj h; have h1 := (Prod.mk.inj h).1; subst h1; rfl))
    | cases h

theorem sync_writer (w : World) : (sync w).writer = w.writer ∨ (sync w).writer = none := by
  unfold sync
  split
  · split
    · exact Or.inl rfl
    · split
      · split
        · exact Or.inr rfl
        · exact Or.inr rfl
      · exact Or.inr rfl
  · next h =>
    split
    · exact Or.inl rfl
    · exact Or.inl rfl

theorem checkpoint_writer (w : World) :
    (checkpoint w).writer = w.writer ∨ ∃ wr', (checkpoint w).writer = some wr' ∧ wr'.snap = w.buf.live := by
  unfold checkpoint
  split
  · exact Or.inl rfl
  · split
    · exact Or.inl rfl
    · exact Or.inr ⟨_, rfl, rfl⟩

/-- the snapshot of the writer after a step is the snapshot of the writer before it, or the live
    contents of the state before it -/
theorem step_writer_snap {cfg : Cfg} {w w' : World} {a : Act} (hs : step cfg w a = some w') :
    ∀ wr', w'.writer = some wr' → (∃ wr, w.writer = some wr ∧ wr'.snap = wr.snap) ∨ wr'.snap = w.buf.live := by
  intro wr' hw'
  have same : w'.writer = w.writer → (∃ wr, w.writer = some wr ∧ wr'.snap = wr.snap) ∨ wr'.snap = w.buf.live := by
    intro he
    rw [he] at hw'
    exact Or.inl ⟨wr', hw', rfl⟩
  have viaSync : ∀ x : World, x.writer = (sync w).writer → w'.writer = x.writer →
      (∃ wr, w.writer = some wr ∧ wr'.snap = wr.snap) ∨ wr'.snap = w.buf.live := by
    intro x hx he
    rcases sync_writer w with h | h
    · exact same (by rw [he, hx, h])
    · rw [he, hx, h] at hw'; cases hw'
  have viaCkpt : ∀ x : World, x.writer = (checkpoint w).writer → w'.writer = x.writer →
      (∃ wr, w.writer = some wr ∧ wr'.snap = wr.snap) ∨ wr'.snap = w.buf.live := by
    intro x hx he
    rcases checkpoint_writer w with h | ⟨y, hy, hsn⟩
    · exact same (by rw [he, hx, h])
    · rw [he, hx, hy] at hw'
      have := Option.some.inj hw'
      subst this
      exact Or.inr hsn
  unfold step at hs
  split at hs
  · cases hs
  · cases a with
    | crash =>
      have hs := Option.some.inj hs
      subst hs
      exact same rfl
    | w =>
      simp only at hs
      cases hw : w.writer with
      | none => rw [hw] at hs; cases hs
      | some wr =>
        rw [hw] at hs
        simp only at hs
        cases hws : wstep wr w.fs with
        | none => rw [hws] at hs; cases hs
        | some p =>
          obtain ⟨wr1, fs1⟩ := p
          rw [hws] at hs
          have hs := Option.some.inj hs
          subst hs
          have := Option.some.inj hw'
          subst this
          exact Or.inl ⟨wr, rfl, wstep_snap hws⟩
    | add k v =>
      simp only at hs
      split at hs
      · have hs := Option.some.inj hs; subst hs; exact same rfl
      · cases hs
    | update k v =>
      simp only at hs
      split at hs
      · have hs := Option.some.inj hs; subst hs; exact same rfl
      · cases hs
    | remove k =>
      simp only at hs
      split at hs
      · have hs := Option.some.inj hs; subst hs; exact same rfl
      · cases hs
    | flush =>
      simp only at hs
      split at hs
      · have hs := Option.some.inj hs; subst hs; exact viaCkpt _ rfl rfl
      · cases hs
    | reopen =>
      simp only at hs
      split at hs
      · have hs := Option.some.inj hs; subst hs; exact viaSync _ rfl rfl
      · cases hs
    | close =>
      simp only at hs
      split at hs
      · have hs := Option.some.inj hs; subst hs; exact same rfl
      · cases hs
    | d =>
      simp only at hs
      split at hs
      · split at hs
        · have hs := Option.some.inj hs; subst hs; cases hw'
        · cases hs
      · have hs := Option.some.inj hs; subst hs; exact viaSync (sync w) rfl rfl
      · have hs := Option.some.inj hs; subst hs; exact viaCkpt (checkpoint w) rfl rfl
      · split at hs
        · have hs := Option.some.inj hs; subst hs; cases hw'
        · cases hs
      · cases hs
    | open_ =>
      simp only at hs
      split at hs
      · split at hs
        · have hs := Option.some.inj hs; subst hs; exact same rfl
        · cases hs
      · cases hs

/-- one step keeps the history predicate, provided the live contents before the step satisfy it -/
theorem hist_step {cfg : Cfg} {S : Content → Prop} {w w' : World} {a : Act} (hi : Inv cfg w) (hh : Hist S w)
    (hl : S w.buf.live) (hs : step cfg w a = some w') : Hist S w' := by
  refine ⟨?_, ?_⟩
  · intro c hc
    rcases (step_facts hi hs).2.1 with hp | ⟨wr, hw, _, _, hp⟩
    · rw [hp] at hc; exact hh.path c hc
    · rw [hp] at hc
      have := complete_inj hc
      subst this
      exact hh.snap wr hw
  · intro wr' hw'
    rcases step_writer_snap hs wr' hw' with ⟨wr, hw, he⟩ | he
    · rw [he]; exact hh.snap wr hw
    · rw [he]; exact hl

theorem liveOfPrefix_nil (cfg : Cfg) (w : World) (acts : List Act) : LiveOfPrefix cfg w acts w.buf.live :=
  ⟨[], w, List.nil_prefix, rfl, rfl⟩

theorem liveOfPrefix_cons {cfg : Cfg} {w w1 : World} {a : Act} {as : List Act} {c : Content}
    (hs : step cfg w a = some w1) (h : LiveOfPrefix cfg w1 as c) : LiveOfPrefix cfg w (a :: as) c := by
  obtain ⟨pre, wp, hpre, hrun, hc⟩ := h
  refine ⟨a :: pre, wp, ?_, ?_, hc⟩
  · obtain ⟨t, ht⟩ := hpre
    exact ⟨t, by rw [← ht]; rfl⟩
  · simp only [run, hs]
    exact hrun

theorem hist_run {cfg : Cfg} {acts : List Act} {S : Content → Prop} {w w' : World} (hi : Inv cfg w) (hh : Hist S w)
    (hr : run cfg w acts = some w') : Hist (fun c => S c ∨ LiveOfPrefix cfg w acts c) w' := by
  induction acts generalizing w S with
  | nil =>
    have := Option.some.inj hr
    subst this
    exact hh.mono fun c hc => Or.inl hc
  | cons a as ih =>
    unfold run at hr
    cases hs : step cfg w a with
    | none => rw [hs] at hr; cases hr
    | some w1 =>
      rw [hs] at hr
      have h1 : Hist (fun c => S c ∨ c = w.buf.live) w1 :=
        hist_step hi (hh.mono fun c hc => Or.inl hc) (Or.inr rfl) hs
      have h2 := ih (step_facts hi hs).1 h1 hr
      refine h2.mono ?_
      intro c hc
      rcases hc with (hc | hc) | hc
      · exact Or.inl hc
      · subst hc; exact Or.inr (liveOfPrefix_nil cfg w (a :: as))
      · exact Or.inr (liveOfPrefix_cons hs hc)

/-- after any action list from a freshly opened dictionary: what the file holds — and what an
    in-flight writer is about to put there — was live after some prefix of the list -/
theorem hist_init {cfg : Cfg} {c0 : Content} {t0 : Option FileC} {acts : List Act} {w : World}
    (hr : run cfg (init c0 t0) acts = some w) : Hist (LiveOfPrefix cfg (init c0 t0) acts) w := by
  have h0 : Hist (fun c => c = c0) (init c0 t0) := by
    refine ⟨?_, ?_⟩
    · intro c hc
      exact (complete_inj hc).symm
    · intro wr hw
      cases hw
  refine (hist_run (inv_init cfg c0 t0) h0 hr).mono ?_
  intro c hc
  rcases hc with hc | hc
  · rw [hc]
    have := liveOfPrefix_nil cfg (init c0 t0) acts
    rwa [show (init c0 t0).buf.live = c0 from live_fresh c0 0] at this
  · exact hc

/-! ### process lifetimes over the same directory -/

/-- the session is over: `Drop` has returned or the process died -/
def Ended (w : World) : Bool := w.crashed || w.phase == .closed

/-- a sequence of process lifetimes over the same directory: each opens the dictionary file the
    previous one left (with whatever temp file it left), runs its action list to an end, and the
    next one starts from the files.  Result: the files after the last one. -/
def runSessions (cfg : Cfg) (c0 : Content) (t0 : Option FileC) : List (List Act) → Option (Content × Option FileC)
  | [] => some (c0, t0)
  | s :: ss =>
    match run cfg (init c0 t0) s with
    | some w =>
      if Ended w then
        match readPath w.fs with
        | some c => runSessions cfg c (w.fs .tmp) ss
        | none => none
      else none
    | none => none

/-- `pres` is, lifetime by lifetime, a prefix of `ss` -/
inductive PrefixEach : List (List Act) → List (List Act) → Prop
  | nil : PrefixEach [] []
  | cons {p s : List Act} {ps ss : List (List Act)} : p <+: s → PrefixEach ps ss → PrefixEach (p :: ps) (s :: ss)

theorem spec_append (c : Content) (l1 l2 : List Act) : spec c (l1 ++ l2) = spec (spec c l1) l2 := by
  simp [spec, List.foldl_append]

theorem sessions_prefix {cfg : Cfg} (hrv : cfg.revive = true) (hj : cfg.joinFirst = true) {ss : List (List Act)}
    {c0 c : Content} {t0 t : Option FileC} (h : runSessions cfg c0 t0 ss = some (c, t)) :
    ∃ pres : List (List Act), PrefixEach pres ss ∧ c = spec c0 pres.flatten := by
  induction ss generalizing c0 t0 with
  | nil =>
    have := Option.some.inj h
    have h1 := (Prod.mk.inj this).1
    subst h1
    exact ⟨[], PrefixEach.nil, rfl⟩
  | cons s ss ih =>
    unfold runSessions at h
    cases hr : run cfg (init c0 t0) s with
    | none => rw [hr] at h; cases h
    | some w =>
      rw [hr] at h
      simp only at h
      split at h
      · cases hp : readPath w.fs with
        | none => rw [hp] at h; cases h
        | some c1 =>
          rw [hp] at h
          simp only at h
          obtain ⟨pres, hf, hc⟩ := ih h
          obtain ⟨pre, wp, hpre, hrun, hlive⟩ := (hist_init hr).path c1 (readPath_eq_some.mp hp)
          have hsp : wp.buf.live = spec c0 pre := by
            have := live_run hrv hj (inv_init cfg c0 t0) hrun
            rw [this, show (init c0 t0).buf.live = c0 from live_fresh c0 0]
            rfl
          refine ⟨pre :: pres, PrefixEach.cons hpre hf, ?_⟩
          rw [hc, List.flatten_cons, spec_append, ← hsp, hlive]
      · cases h

/-- the same when every lifetime ends with a normal close: nothing is lost -/
def AllClosed (cfg : Cfg) (c0 : Content) (t0 : Option FileC) : List (List Act) → Prop
  | [] => True
  | s :: ss =>
    match run cfg (init c0 t0) s with
    | some w => w.phase = .closed ∧
      match readPath w.fs with
      | some c => AllClosed cfg c (w.fs .tmp) ss
      | none => False
    | none => False

theorem sessions_durable {cfg : Cfg} (hrv : cfg.revive = true) (hj : cfg.joinFirst = true) {ss : List (List Act)}
    {c0 c : Content} {t0 t : Option FileC} (h : runSessions cfg c0 t0 ss = some (c, t))
    (hc : AllClosed cfg c0 t0 ss) : c = spec c0 ss.flatten := by
  induction ss generalizing c0 t0 with
  | nil =>
    have := Option.some.inj h
    have h1 := (Prod.mk.inj this).1
    subst h1
    rfl
  | cons s ss ih =>
    unfold runSessions at h
    unfold AllClosed at hc
    cases hr : run cfg (init c0 t0) s with
    | none => rw [hr] at h; cases h
    | some w =>
      rw [hr] at h hc
      simp only at h hc
      obtain ⟨hcl, hc⟩ := hc
      split at h
      · cases hp : readPath w.fs with
        | none => rw [hp] at h; cases h
        | some c1 =>
          rw [hp] at h hc
          simp only at h hc
          have hi := inv_run (inv_init cfg c0 t0) hr
          have hq := hi.core.quiet (hi.ph.closedW hcl) (hi.ph.dropB hj (Or.inr hcl))
          have h1 : c1 = w.buf.live := complete_inj ((readPath_eq_some.mp hp).symm.trans hq)
          have hsp : w.buf.live = spec c0 s := by
            have := live_run hrv hj (inv_init cfg c0 t0) hr
            rw [this, show (init c0 t0).buf.live = c0 from live_fresh c0 0]
            rfl
          rw [ih h hc, List.flatten_cons, spec_append, h1, hsp]
      · cases h

end Chewing.Persist
