import Chewing.Proofs.PersistCrash
/-!
# The editor's history in terms of what it learned and unlearned

`Editor` reaches the user dictionary only through `Layered`, whose five mutating methods forward to
the user dictionary unchanged (`src/dictionary/layered.rs`; the only guard, an empty phrase, cannot
pass `learn_phrase`'s length check together with a non-empty syllable list).  `edTrace` is the exact
list of dictionary calls an editor history issues; its map semantics is `edSpec`, which no longer
mentions `reopen` / `flush` / `dirty_level` at all.
-/
namespace Chewing.Persist

/-- the dictionary calls (and environment steps) an editor history issues, in order -/
def edTrace (cfg : Cfg) : EdWorld → List EdAct → List Act
  | _, [] => []
  | e, a :: as =>
    match edStep cfg e a with
    | some e' => (edExpand e.dirtyLevel a).1 ++ edTrace cfg e' as
    | none => []

theorem edRun_trace {cfg : Cfg} {eacts : List EdAct} {e e' : EdWorld} (h : edRun cfg e eacts = some e') :
    run cfg e.w (edTrace cfg e eacts) = some e'.w := by
  induction eacts generalizing e with
  | nil =>
    have := Option.some.inj h
    subst this
    rfl
  | cons a as ih =>
    unfold edRun at h
    unfold edTrace
    cases hs : edStep cfg e a with
    | none => rw [hs] at h; cases h
    | some e1 =>
      rw [hs] at h
      simp only
      have h2 := ih h
      unfold edStep at hs
      cases hr : run cfg e.w (edExpand e.dirtyLevel a).1 with
      | none => rw [hr] at hs; cases hs
      | some w1 =>
        rw [hr] at hs
        have hs := Option.some.inj hs
        subst hs
        rw [run_append, hr]
        exact h2

/-- what an editor action means for the set of phrases the user dictionary knows -/
def edApply (m : Content) : EdAct → Content
  | .learn k v true => setC m k (some v)
  | .learn k v false => if (m k).isSome then m else setC m k (some v)
  | .unlearn k => setC m k none
  | .key => m
  | .env a => applyChange m a

def edSpec (c0 : Content) (eacts : List EdAct) : Content := eacts.foldl edApply c0

theorem spec_expand (c : Content) (dl : Nat) (a : EdAct) : spec c (edExpand dl a).1 = edApply c a := by
  cases a with
  | learn k v known => cases known <;> rfl
  | unlearn k => rfl
  | key =>
    simp only [edExpand]
    split <;> rfl
  | env a => rfl

theorem spec_edTrace {cfg : Cfg} {eacts : List EdAct} {e e' : EdWorld} (h : edRun cfg e eacts = some e')
    (c : Content) : spec c (edTrace cfg e eacts) = edSpec c eacts := by
  induction eacts generalizing e c with
  | nil => rfl
  | cons a as ih =>
    unfold edRun at h
    unfold edTrace
    cases hs : edStep cfg e a with
    | none => rw [hs] at h; cases h
    | some e1 =>
      rw [hs] at h
      simp only
      rw [spec_append, spec_expand, ih h]
      rfl

end Chewing.Persist
