import Chewing.Model.PersistSql
/-!
# SQLite back end: the committed relations are the returned calls, whatever the point of death
-/
namespace Chewing.PersistSql

structure SInv (r0 : Rel) (w : World) : Prop where
  db : w.db = spec r0 w.returned
  open_ : ∀ t, w.tx = some t →
    w.entered = w.returned ++ [t.call] ∧ t.todo.foldl exec t.work = applyCall w.db t.call
  idle : w.tx = none → w.crashed = false → w.entered = w.returned
  dead : w.tx = none → w.crashed = true → w.entered = w.returned ∨ ∃ c, w.entered = w.returned ++ [c]

theorem sinv_init (r0 : Rel) : SInv r0 (init r0) :=
  ⟨rfl, (fun _ h => nomatch h), fun _ _ => rfl, (fun _ h => nomatch h)⟩

theorem spec_snoc (r0 : Rel) (cs : List Call) (c : Call) : spec r0 (cs ++ [c]) = applyCall (spec r0 cs) c := by
  simp [spec, List.foldl_append]

theorem sinv_step {r0 : Rel} {w w' : World} {a : Act} (hi : SInv r0 w) (hs : step w a = some w') : SInv r0 w' := by
  unfold step at hs
  split at hs
  · cases hs
  · next hcr =>
    have hcr : w.crashed = false := by cases h : w.crashed <;> simp_all
    cases a with
    | crash =>
      have hs := Option.some.inj hs
      subst hs
      refine ⟨hi.db, (fun _ h => nomatch h), (fun _ h => nomatch h), ?_⟩
      intro _ _
      cases ht : w.tx with
      | none => exact Or.inl (hi.idle ht hcr)
      | some t => exact Or.inr ⟨t.call, (hi.open_ t ht).1⟩
    | call c =>
      simp only at hs
      cases ht : w.tx with
      | some t => rw [ht] at hs; cases hs
      | none =>
        rw [ht] at hs
        have hs := Option.some.inj hs
        subst hs
        refine ⟨hi.db, ?_, (fun h => nomatch h), (fun h => nomatch h)⟩
        intro t h
        have := Option.some.inj h
        subst this
        exact ⟨by simp [hi.idle ht hcr], rfl⟩
    | stmt =>
      simp only at hs
      cases ht : w.tx with
      | none => rw [ht] at hs; cases hs
      | some t =>
        rw [ht] at hs
        simp only at hs
        cases htd : t.todo with
        | nil => rw [htd] at hs; cases hs
        | cons s rest =>
          rw [htd] at hs
          have hs := Option.some.inj hs
          subst hs
          refine ⟨hi.db, ?_, (fun h => nomatch h), (fun h => nomatch h)⟩
          intro t' h
          have := Option.some.inj h
          subst this
          have h0 := hi.open_ t ht
          refine ⟨h0.1, ?_⟩
          have := h0.2
          rw [htd] at this
          exact this
    | commit =>
      simp only at hs
      cases ht : w.tx with
      | none => rw [ht] at hs; cases hs
      | some t =>
        rw [ht] at hs
        simp only at hs
        cases htd : t.todo with
        | cons s rest => rw [htd] at hs; cases hs
        | nil =>
          rw [htd] at hs
          have hs := Option.some.inj hs
          subst hs
          have h0 := hi.open_ t ht
          refine ⟨?_, (fun _ h => nomatch h), fun _ _ => h0.1, fun _ _ => Or.inl h0.1⟩
          show t.work = spec r0 (w.returned ++ [t.call])
          rw [spec_snoc, ← hi.db, ← h0.2, htd]
          rfl

theorem sinv_run {r0 : Rel} {acts : List Act} {w w' : World} (hi : SInv r0 w) (hr : run w acts = some w') :
    SInv r0 w' := by
  induction acts generalizing w with
  | nil =>
    have := Option.some.inj hr
    subst this
    exact hi
  | cons a as ih =>
    unfold run at hr
    cases hs : step w a with
    | none => rw [hs] at hr; cases hr
    | some w1 =>
      rw [hs] at hr
      exact ih (sinv_step hi hs) hr

end Chewing.PersistSql
