import Chewing.Proofs.Persist
/-!
# `Drop` always completes

From every state that has not died, the writer reaches its end in at most nine hops and `Drop` then
runs through its parts: "flushed and closed normally" is reachable from every state, under every
schedule prefix — so `durable_full` is never vacuous, and there is no deadlock between `Drop`'s joins
and the writer in the step model.
-/
namespace Chewing.Persist

/-- only the writer and the parts of `Drop` move -/
def Passive (acts : List Act) : Prop := ∀ a ∈ acts, a = .w ∨ a = .d

theorem passive_append {l1 l2 : List Act} (h1 : Passive l1) (h2 : Passive l2) : Passive (l1 ++ l2) := by
  intro a ha
  rcases List.mem_append.mp ha with h | h
  · exact h1 a h
  · exact h2 a h

theorem passive_replicate_w (n : Nat) : Passive (List.replicate n .w) := by
  intro a ha
  exact Or.inl (List.eq_of_mem_replicate ha)

theorem passive_d : Passive [.d] := by
  intro a ha
  exact Or.inr (List.mem_singleton.mp ha)

theorem pc_idx_le (p : PC) : p.idx ≤ 9 := by cases p <;> decide

theorem pc_idx_nine {p : PC} (h : 9 ≤ p.idx) : p = .finished := by
  cases p <;> first | rfl | (exfalso; revert h; decide)

theorem wstep_advance {wr : Writer} (fs : FS) (hne : wr.pc ≠ .finished) :
    ∃ wr' fs', wstep wr fs = some (wr', fs') ∧ wr.pc.idx < wr'.pc.idx := by
  unfold wstep
  split
  all_goals first
    | (next h => exact ⟨_, _, rfl, by rw [h]; simp [PC.idx]⟩)
    | (next h => split <;> exact ⟨_, _, rfl, by rw [h]; simp [PC.idx]⟩)
    | (next h => exact absurd h hne)

/-- an unfinished writer can always take its next hop, and its program counter grows -/
theorem w_advance (cfg : Cfg) {w : World} {wr : Writer} (hc : w.crashed = false) (hw : w.writer = some wr)
    (hne : wr.pc ≠ .finished) :
    ∃ w' wr', step cfg w .w = some w' ∧ w'.writer = some wr' ∧ wr.pc.idx < wr'.pc.idx ∧
      w'.phase = w.phase ∧ w'.crashed = false := by
  obtain ⟨wr', fs', hws, hlt⟩ := wstep_advance w.fs hne
  exact ⟨{ w with writer := some wr', fs := fs' }, wr', by simp [step, hc, hw, hws], rfl, hlt, rfl, hc⟩

theorem drain_aux (cfg : Cfg) (n : Nat) : ∀ (w : World) (wr : Writer), 9 - wr.pc.idx ≤ n → w.crashed = false →
    w.writer = some wr →
    ∃ k w', k ≤ n ∧ run cfg w (List.replicate k .w) = some w' ∧ writerDone w' = true ∧ w'.phase = w.phase ∧
      w'.crashed = false := by
  induction n with
  | zero =>
    intro w wr hn hc hw
    have hfin : wr.pc = .finished := pc_idx_nine (by omega)
    exact ⟨0, w, Nat.le_refl 0, rfl, by simp [writerDone, hw, hfin], rfl, hc⟩
  | succ n ih =>
    intro w wr hn hc hw
    by_cases hfin : wr.pc = .finished
    · exact ⟨0, w, Nat.zero_le _, rfl, by simp [writerDone, hw, hfin], rfl, hc⟩
    · obtain ⟨w1, wr1, hs, hw1, hlt, hph, hc1⟩ := w_advance cfg hc hw hfin
      obtain ⟨k, w2, hk, hr, hd, hph2, hc2⟩ := ih w1 wr1 (by omega) hc1 hw1
      refine ⟨k + 1, w2, by omega, ?_, hd, by rw [hph2, hph], hc2⟩
      simp only [List.replicate_succ, run, hs]
      exact hr

/-- the writer, if any, can always be run to its end -/
theorem drain (cfg : Cfg) (w : World) (hc : w.crashed = false) :
    ∃ k w', k ≤ 9 ∧ run cfg w (List.replicate k .w) = some w' ∧ writerDone w' = true ∧ w'.phase = w.phase ∧
      w'.crashed = false := by
  cases hw : w.writer with
  | none => exact ⟨0, w, Nat.zero_le _, rfl, by simp [writerDone, hw], rfl, hc⟩
  | some wr => exact drain_aux cfg 9 w wr (by omega) hc hw

theorem run_append_some {cfg : Cfg} {w w1 w2 : World} {l1 l2 : List Act} (h1 : run cfg w l1 = some w1)
    (h2 : run cfg w1 l2 = some w2) : run cfg w (l1 ++ l2) = some w2 := by
  induction l1 generalizing w with
  | nil =>
    have := Option.some.inj h1
    subst this
    exact h2
  | cons a as ih =>
    simp only [List.cons_append, run] at h1 ⊢
    cases hs : step cfg w a with
    | none => rw [hs] at h1; cases h1
    | some x =>
      rw [hs] at h1
      exact ih h1

theorem term_dJoin (cfg : Cfg) (w : World) (hc : w.crashed = false) (hp : w.phase = .dJoin) :
    ∃ acts w', Passive acts ∧ acts.length ≤ 10 ∧ run cfg w acts = some w' ∧ w'.phase = .closed ∧ w'.crashed = false := by
  obtain ⟨k, w1, hk, hr, hd, hph, hc1⟩ := drain cfg w hc
  have hs : step cfg w1 .d = some { w1 with writer := none, phase := .closed } := by
    simp [step, hc1, hph, hp, hd]
  refine ⟨List.replicate k .w ++ [.d], { w1 with writer := none, phase := .closed }, passive_append (passive_replicate_w k) passive_d, by simp; omega,
    run_append_some hr (by simp [run, hs]), rfl, hc1⟩

theorem term_dFlush (cfg : Cfg) (w : World) (hc : w.crashed = false) (hp : w.phase = .dFlush) :
    ∃ acts w', Passive acts ∧ acts.length ≤ 11 ∧ run cfg w acts = some w' ∧ w'.phase = .closed ∧ w'.crashed = false := by
  have hs : step cfg w .d = some { checkpoint w with phase := .dJoin } := by
    simp [step, hc, hp]
  obtain ⟨acts, w', hpa, hl, hr, hcl, hc'⟩ :=
    term_dJoin cfg { checkpoint w with phase := .dJoin } (by simp [checkpoint_crashed, hc]) rfl
  exact ⟨.d :: acts, w', passive_append passive_d hpa, by simp; omega, by simp [run, hs, hr], hcl, hc'⟩

theorem term_dSync (cfg : Cfg) (w : World) (hc : w.crashed = false) (hp : w.phase = .dSync) :
    ∃ acts w', Passive acts ∧ acts.length ≤ 12 ∧ run cfg w acts = some w' ∧ w'.phase = .closed ∧ w'.crashed = false := by
  have hs : step cfg w .d = some { sync w with phase := .dFlush } := by
    simp [step, hc, hp]
  obtain ⟨acts, w', hpa, hl, hr, hcl, hc'⟩ :=
    term_dFlush cfg { sync w with phase := .dFlush } (by simp [sync_crashed, hc]) rfl
  exact ⟨.d :: acts, w', passive_append passive_d hpa, by simp; omega, by simp [run, hs, hr], hcl, hc'⟩

theorem term_dJoin0 (cfg : Cfg) (w : World) (hc : w.crashed = false) (hp : w.phase = .dJoin0) :
    ∃ acts w', Passive acts ∧ acts.length ≤ 22 ∧ run cfg w acts = some w' ∧ w'.phase = .closed ∧ w'.crashed = false := by
  obtain ⟨k, w1, hk, hr, hd, hph, hc1⟩ := drain cfg w hc
  have hs : step cfg w1 .d = some { w1 with writer := none, phase := .dSync } := by
    simp [step, hc1, hph, hp, hd]
  obtain ⟨acts, w', hpa, hl, hr2, hcl, hc'⟩ :=
    term_dSync cfg { w1 with writer := none, phase := .dSync } hc1 rfl
  refine ⟨List.replicate k .w ++ (.d :: acts), w', passive_append (passive_replicate_w k) (passive_append passive_d hpa),
    by simp; omega, run_append_some hr (by simp [run, hs, hr2]), hcl, hc'⟩

/-- from every open dictionary that has not died, `close` followed by at most 22 steps of the writer
    and of `Drop` alone reaches `closed` -/
theorem close_completes (cfg : Cfg) (w : World) (hc : w.crashed = false) (hp : w.phase = .run) :
    ∃ acts w', Passive acts ∧ acts.length ≤ 22 ∧ run cfg w (.close :: acts) = some w' ∧ w'.phase = .closed ∧
      w'.crashed = false := by
  cases hj : cfg.joinFirst with
  | true =>
    have hs : step cfg w .close = some { w with phase := .dJoin0 } := by simp [step, hc, hp, hj]
    obtain ⟨acts, w', hpa, hl, hr, hcl, hc'⟩ := term_dJoin0 cfg { w with phase := .dJoin0 } hc rfl
    exact ⟨acts, w', hpa, hl, by simp [run, hs, hr], hcl, hc'⟩
  | false =>
    have hs : step cfg w .close = some { w with phase := .dSync } := by simp [step, hc, hp, hj]
    obtain ⟨acts, w', hpa, hl, hr, hcl, hc'⟩ := term_dSync cfg { w with phase := .dSync } hc rfl
    exact ⟨acts, w', hpa, by omega, by simp [run, hs, hr], hcl, hc'⟩

end Chewing.Persist
