import Chewing.Proofs.EditorSelect
import Chewing.Proofs.C01PhraseSel
/-!
Specification lemmas about the pure phrase-selector functions (`PhraseSel.*` of `Model/Editor.lean`):
WHICH range they answer with — one for which the dictionary has a phrase, or the range they started
from — and that the range stays between the break points around the position `orig` the list was opened
at.  Pure program facts: no dictionary hypothesis, proved by induction on the fuel following the code.
-/
namespace Chewing
open Chewing.C04

variable {D L : Type} (env : Env D L)

/-- the range lies between the break points around the position the list was opened at -/
def PhraseSel.Within (p : PhraseSel) : Prop :=
  (p.forward = true → p.end_ ≤ p.nextBreakPoint p.orig) ∧
  (p.forward = false → p.afterPreviousBreakPoint p.orig ≤ p.begin_)

/-! ## same buffer ⇒ same break points / range queries -/

theorem nextBreakPoint_go_congr {p q : PhraseSel} (h : q.com = p.com) :
    ∀ fuel c, PhraseSel.nextBreakPoint.go q fuel c = PhraseSel.nextBreakPoint.go p fuel c := by
  intro fuel
  induction fuel with
  | zero => intro c; rfl
  | succ f ih => intro c; simp only [PhraseSel.nextBreakPoint.go, h, ih]

theorem nextBreakPoint_congr {p q : PhraseSel} (h : q.com = p.com) (c : Nat) :
    q.nextBreakPoint c = p.nextBreakPoint c := by
  unfold PhraseSel.nextBreakPoint
  rw [nextBreakPoint_go_congr h, h]

theorem afterPreviousBreakPoint_go_congr {p q : PhraseSel} (h : q.com = p.com) :
    ∀ fuel c, PhraseSel.afterPreviousBreakPoint.go q fuel c = PhraseSel.afterPreviousBreakPoint.go p fuel c := by
  intro fuel
  induction fuel with
  | zero => intro c; rfl
  | succ f ih => intro c; simp only [PhraseSel.afterPreviousBreakPoint.go, h, ih]

theorem afterPreviousBreakPoint_congr {p q : PhraseSel} (h : q.com = p.com) (c : Nat) :
    q.afterPreviousBreakPoint c = p.afterPreviousBreakPoint c := by
  unfold PhraseSel.afterPreviousBreakPoint
  rw [afterPreviousBreakPoint_go_congr h]

theorem rangeHasPhrase_congr {p q : PhraseSel} (h1 : q.com = p.com) (h2 : q.strategy = p.strategy) (d : D) (b e : Nat) :
    PhraseSel.rangeHasPhrase env q d b e = PhraseSel.rangeHasPhrase env p d b e := by
  unfold PhraseSel.rangeHasPhrase
  rw [h1, h2]

theorem phraseCandidates_congr {p q : PhraseSel} (h1 : q.com = p.com) (h2 : q.strategy = p.strategy)
    (h3 : q.begin_ = p.begin_) (h4 : q.end_ = p.end_) (d : D) (l : L) :
    PhraseSel.candidates env q d l = PhraseSel.candidates env p d l := by
  unfold PhraseSel.candidates
  rw [h1, h2, h3, h4]

/-- `Within` reads direction, origin, buffer and range only -/
theorem within_congr {p q : PhraseSel} (hc : q.com = p.com) (hf : q.forward = p.forward) (ho : q.orig = p.orig)
    (he : p.forward = true → q.end_ ≤ p.end_) (hb : p.forward = false → p.begin_ ≤ q.begin_)
    (h : p.Within) : q.Within := by
  refine ⟨fun hh => ?_, fun hh => ?_⟩
  · rw [hf] at hh
    rw [nextBreakPoint_congr hc, ho]
    exact Nat.le_trans (he hh) (h.1 hh)
  · rw [hf] at hh
    rw [afterPreviousBreakPoint_congr hc, ho]
    exact Nat.le_trans (h.2 hh) (hb hh)

/-! ## `init` -/

/-- the shrinking loop of `init` only shrinks -/
theorem initLoop_within (d : D) : ∀ fuel (s s' : PhraseSel), PhraseSel.initLoop env s d fuel = .ok s' →
    s.begin_ ≤ s'.begin_ ∧ s'.end_ ≤ s.end_ := by
  intro fuel
  induction fuel with
  | zero => intro s s' h; simp [PhraseSel.initLoop] at h
  | succ fuel ih =>
    intro s s' h
    unfold PhraseSel.initLoop at h
    split at h
    · cases h
    · split at h
      · cases h
      · split at h
        · cases h
        · split at h
          · injection h with h; subst h
            exact ⟨Nat.le_refl _, Nat.le_refl _⟩
          · have hstop : Outcome.ok s = Outcome.ok s' → s.begin_ ≤ s'.begin_ ∧ s'.end_ ≤ s.end_ := by
              intro h; injection h with h; subst h
              exact ⟨Nat.le_refl _, Nat.le_refl _⟩
            have hrec : (if s.forward = true then PhraseSel.initLoop env { s with end_ := s.end_ - 1 } d fuel
                else PhraseSel.initLoop env { s with begin_ := s.begin_ + 1 } d fuel) = .ok s' →
                s.begin_ ≤ s'.begin_ ∧ s'.end_ ≤ s.end_ := by
              intro h
              split at h
              · obtain ⟨a, b⟩ := ih _ _ h
                exact ⟨a, by have : s'.end_ ≤ s.end_ - 1 := b; omega⟩
              · obtain ⟨a, b⟩ := ih _ _ h
                exact ⟨by have : s.begin_ + 1 ≤ s'.begin_ := a; omega, b⟩
            split at h
            · split at h
              · exact hstop h
              · exact hrec h
            · split at h
              · exact hstop h
              · exact hrec h
          · cases h
          · cases h

/-- `init` returns a selector anchored at the cursor, inside the break points around it -/
theorem init_within {fw : Bool} {st : Strategy} {com : Composition} {cur : Nat} {d : D} {p : PhraseSel}
    (h : PhraseSel.init env fw st com cur d = .ok p) :
    p.forward = fw ∧ p.orig = cur ∧ p.strategy = st ∧ p.com = com ∧ p.Within := by
  unfold PhraseSel.init at h
  simp only at h
  split at h
  · rename_i hfw
    split at h
    · cases h
    · obtain ⟨_, _, hcom, hstr, hfo, hor, _⟩ := _root_.Chewing.initLoop_ok env d _ _ _ h
      obtain ⟨_, he⟩ := initLoop_within env d _ _ _ h
      have hcom' : p.com = com := hcom
      have hor' : p.orig = cur := hor
      refine ⟨hfo, hor, hstr, hcom, fun _ => ?_, fun hh => ?_⟩
      · rw [nextBreakPoint_congr
          (p := { begin_ := 0, end_ := com.len, forward := fw, orig := cur, strategy := st, com := com }) hcom', hor']
        exact he
      · rw [hfo, hfw] at hh; cases hh
  · rename_i hfw
    obtain ⟨_, _, hcom, hstr, hfo, hor, _⟩ := _root_.Chewing.initLoop_ok env d _ _ _ h
    obtain ⟨hb, _⟩ := initLoop_within env d _ _ _ h
    have hcom' : p.com = com := hcom
    have hor' : p.orig = cur := hor
    refine ⟨hfo, hor, hstr, hcom, fun hh => ?_, fun _ => ?_⟩
    · rw [hfo] at hh; exact absurd hh hfw
    · rw [afterPreviousBreakPoint_congr
        (p := { begin_ := 0, end_ := com.len, forward := fw, orig := cur, strategy := st, com := com }) hcom', hor']
      exact hb

/-! ## `next_selection_point` / `prev_selection_point` -/

theorem nsp_go_has (s : PhraseSel) (d : D) : ∀ (fuel b e b' e' : Nat),
    PhraseSel.nextSelectionPoint.go env s d fuel b e = .ok (some (b', e')) →
    PhraseSel.rangeHasPhrase env s d b' e' = .ok true ∧ b ≤ b' ∧ e' ≤ e := by
  intro fuel
  induction fuel with
  | zero => intro b e b' e' h; simp [PhraseSel.nextSelectionPoint.go] at h
  | succ fuel ih =>
    intro b e b' e' h
    simp only [PhraseSel.nextSelectionPoint.go] at h
    by_cases hf : s.forward = true
    · rw [if_pos hf] at h
      split at h
      · cases h
      · split at h
        · cases h
        · split at h
          · rename_i hp
            injection h with h; injection h with h; injection h with h1 h2
            subst h1 h2
            exact ⟨hp, Nat.le_refl _, by omega⟩
          · obtain ⟨a1, a2, a3⟩ := ih _ _ _ _ h
            exact ⟨a1, a2, by omega⟩
          · cases h
          · cases h
    · rw [if_neg hf] at h
      split at h
      · cases h
      · split at h
        · rename_i hp
          injection h with h; injection h with h; injection h with h1 h2
          subst h1 h2
          exact ⟨hp, by omega, Nat.le_refl _⟩
        · obtain ⟨a1, a2, a3⟩ := ih _ _ _ _ h
          exact ⟨a1, by omega, a3⟩
        · cases h
        · cases h

/-- `next_selection_point` only answers with a range that has a phrase, inside the current one -/
theorem nextSelectionPoint_has {s : PhraseSel} {d : D} {b e : Nat}
    (h : PhraseSel.nextSelectionPoint env s d = .ok (some (b, e))) :
    PhraseSel.rangeHasPhrase env s d b e = .ok true ∧ s.begin_ ≤ b ∧ e ≤ s.end_ := by
  unfold PhraseSel.nextSelectionPoint at h
  exact nsp_go_has env s d _ _ _ _ _ h

theorem psp_go_has (s : PhraseSel) (d : D) : ∀ (fuel b e b' e' : Nat),
    PhraseSel.prevSelectionPoint.go env s d fuel b e = .ok (some (b', e')) →
    PhraseSel.rangeHasPhrase env s d b' e' = .ok true ∧
    (s.forward = true → b' = b ∧ e' ≤ s.nextBreakPoint s.orig) ∧
    (s.forward = false → e' = e ∧ s.afterPreviousBreakPoint s.orig ≤ b') := by
  intro fuel
  induction fuel with
  | zero => intro b e b' e' h; simp [PhraseSel.prevSelectionPoint.go] at h
  | succ fuel ih =>
    intro b e b' e' h
    simp only [PhraseSel.prevSelectionPoint.go] at h
    by_cases hf : s.forward = true
    · rw [if_pos hf] at h
      split at h
      · cases h
      · split at h
        · cases h
        · rename_i hnb
          split at h
          · rename_i hp
            injection h with h; injection h with h; injection h with h1 h2
            subst h1 h2
            exact ⟨hp, (fun _ => ⟨rfl, by omega⟩), (fun hh => by rw [hf] at hh; cases hh)⟩
          · obtain ⟨a1, a2, _⟩ := ih _ _ _ _ h
            exact ⟨a1, a2, (fun hh => by rw [hf] at hh; cases hh)⟩
          · cases h
          · cases h
    · rw [if_neg hf] at h
      split at h
      · cases h
      · split at h
        · cases h
        · rename_i hnb
          split at h
          · rename_i hp
            injection h with h; injection h with h; injection h with h1 h2
            subst h1 h2
            exact ⟨hp, (fun hh => absurd hh hf), (fun _ => ⟨rfl, by omega⟩)⟩
          · obtain ⟨a1, _, a3⟩ := ih _ _ _ _ h
            exact ⟨a1, (fun hh => absurd hh hf), a3⟩
          · cases h
          · cases h

/-- `prev_selection_point` only answers with a range that has a phrase, keeps the anchored end and does not
    pass the break points around `orig` -/
theorem prevSelectionPoint_has {s : PhraseSel} {d : D} {b e : Nat}
    (h : PhraseSel.prevSelectionPoint env s d = .ok (some (b, e))) :
    PhraseSel.rangeHasPhrase env s d b e = .ok true ∧
    (s.forward = true → b = s.begin_ ∧ e ≤ s.nextBreakPoint s.orig) ∧
    (s.forward = false → e = s.end_ ∧ s.afterPreviousBreakPoint s.orig ≤ b) := by
  unfold PhraseSel.prevSelectionPoint at h
  exact psp_go_has env s d _ _ _ _ _ h

/-! ## `jump_to_last_selection_point` -/

theorem jumpToLast_go_has (d : D) : ∀ (fuel : Nat) (s s' : PhraseSel), PhraseSel.jumpToLast.go env d fuel s = .ok s' →
    s'.com = s.com ∧ s'.strategy = s.strategy ∧ s'.forward = s.forward ∧ s'.orig = s.orig ∧
    s.begin_ ≤ s'.begin_ ∧ s'.end_ ≤ s.end_ ∧
    (PhraseSel.rangeHasPhrase env s' d s'.begin_ s'.end_ = .ok true ∨ (s'.begin_ = s.begin_ ∧ s'.end_ = s.end_)) := by
  intro fuel
  induction fuel with
  | zero => intro s s' h; simp [PhraseSel.jumpToLast.go] at h
  | succ fuel ih =>
    intro s s' h
    simp only [PhraseSel.jumpToLast.go] at h
    split at h
    · rename_i b e hq
      obtain ⟨n1, n2, n3⟩ := nextSelectionPoint_has env hq
      obtain ⟨a1, a2, a3, a4, a5, a6, a7⟩ := ih _ _ h
      have a1' : s'.com = s.com := a1
      have a2' : s'.strategy = s.strategy := a2
      have a5' : b ≤ s'.begin_ := a5
      have a6' : s'.end_ ≤ e := a6
      refine ⟨a1, a2, a3, a4, by omega, by omega, Or.inl ?_⟩
      rcases a7 with a7 | ⟨a7, a8⟩
      · exact a7
      · have a7' : s'.begin_ = b := a7
        have a8' : s'.end_ = e := a8
        rw [rangeHasPhrase_congr env a1' a2', a7', a8']
        exact n1
    · injection h with h; subst h
      exact ⟨rfl, rfl, rfl, rfl, Nat.le_refl _, Nat.le_refl _, Or.inr ⟨rfl, rfl⟩⟩
    · cases h
    · cases h

/-- `jump_to_last_selection_point`: the range it stops on has a phrase, or it never moved; it only shrinks -/
theorem jumpToLast_has {s s' : PhraseSel} {d : D} (h : PhraseSel.jumpToLast env s d = .ok s') :
    s'.com = s.com ∧ s'.strategy = s.strategy ∧ s'.forward = s.forward ∧ s'.orig = s.orig ∧
    s.begin_ ≤ s'.begin_ ∧ s'.end_ ≤ s.end_ ∧
    (PhraseSel.rangeHasPhrase env s' d s'.begin_ s'.end_ = .ok true ∨ (s'.begin_ = s.begin_ ∧ s'.end_ = s.end_)) := by
  unfold PhraseSel.jumpToLast at h
  exact jumpToLast_go_has env d _ _ _ h

/-! ## `PhraseSelector::next` -/

/-- what every round of `next` keeps of the selector `s` it started from -/
structure NextInv (s t : PhraseSel) : Prop where
  com : t.com = s.com
  strategy : t.strategy = s.strategy
  forward : t.forward = s.forward
  orig : t.orig = s.orig
  fwb : s.forward = true → t.begin_ = s.begin_
  rwe : s.forward = false → t.end_ = s.end_

theorem next_go_has (d : D) (s : PhraseSel) : ∀ (fuel : Nat) (t s' : PhraseSel), NextInv s t →
    PhraseSel.next.go env s d fuel t = .ok s' →
    NextInv s s' ∧
    (PhraseSel.rangeHasPhrase env s' d s'.begin_ s'.end_ = .ok true ∨ (s'.begin_ = s.begin_ ∧ s'.end_ = s.end_)) ∧
    (C01.Anchor s → s.Within → t.Within → s'.Within) := by
  intro fuel
  induction fuel with
  | zero =>
    intro t s' hi h
    simp only [PhraseSel.next.go] at h
    injection h with h; subst h
    refine ⟨⟨hi.com, hi.strategy, hi.forward, hi.orig, (fun _ => rfl), (fun _ => rfl)⟩, Or.inr ⟨rfl, rfl⟩, ?_⟩
    intro _ hw _
    exact within_congr (p := s) (q := { t with begin_ := s.begin_, end_ := s.end_ }) hi.com hi.forward hi.orig
      (fun _ => Nat.le_refl _) (fun _ => Nat.le_refl _) hw
  | succ fuel ih =>
    intro t s' hi h
    -- the range tried in this round
    have step : ∀ t' : PhraseSel, NextInv s t' → (C01.Anchor s → s.Within → t.Within → t'.Within) →
        (match PhraseSel.rangeHasPhrase env t' d t'.begin_ t'.end_ with
          | .ok true => .ok t'
          | .ok false => PhraseSel.next.go env s d fuel t'
          | .panic p => .panic p
          | .outOfFuel => .outOfFuel : Outcome PhraseSel) = .ok s' →
        NextInv s s' ∧
        (PhraseSel.rangeHasPhrase env s' d s'.begin_ s'.end_ = .ok true ∨ (s'.begin_ = s.begin_ ∧ s'.end_ = s.end_)) ∧
        (C01.Anchor s → s.Within → t.Within → s'.Within) := by
      intro t' hi' hw' h
      split at h
      · rename_i hp
        injection h with h; subst h
        exact ⟨hi', Or.inl hp, hw'⟩
      · obtain ⟨a1, a2, a3⟩ := ih _ _ hi' h
        exact ⟨a1, a2, fun ha hs ht => a3 ha hs (hw' ha hs ht)⟩
      · cases h
      · cases h
    simp only [PhraseSel.next.go] at h
    by_cases hf : t.forward = true
    · have hsf : s.forward = true := by rw [← hi.forward]; exact hf
      rw [if_pos hf] at h
      split at h
      · cases h
      · by_cases hwrap : t.begin_ = t.end_ - 1
        · rw [if_pos (by simp only [beq_iff_eq]; exact hwrap)] at h
          refine step { t with end_ := t.nextBreakPoint t.begin_ }
            ⟨hi.com, hi.strategy, hi.forward, hi.orig, hi.fwb, (fun hh => by rw [hsf] at hh; cases hh)⟩ ?_ h
          intro ha _ _
          refine ⟨fun _ => ?_, fun hh => ?_⟩
          · show t.nextBreakPoint t.begin_ ≤ PhraseSel.nextBreakPoint { t with end_ := t.nextBreakPoint t.begin_ } t.orig
            rw [nextBreakPoint_congr (p := t) (q := { t with end_ := t.nextBreakPoint t.begin_ }) rfl,
              hi.fwb hsf, ha.fw hsf, hi.orig]
            exact Nat.le_refl _
          · have : t.forward = false := hh
            rw [hf] at this; cases this
        · rw [if_neg (by simp only [beq_iff_eq]; exact hwrap)] at h
          refine step { t with end_ := t.end_ - 1 }
            ⟨hi.com, hi.strategy, hi.forward, hi.orig, hi.fwb, (fun hh => by rw [hsf] at hh; cases hh)⟩ ?_ h
          intro _ _ ht
          exact within_congr (p := t) (q := { t with end_ := t.end_ - 1 }) rfl rfl rfl
            (fun _ => Nat.sub_le _ _) (fun _ => Nat.le_refl _) ht
    · have hff : t.forward = false := by cases hx : t.forward <;> simp_all
      have hsf : s.forward = false := by rw [← hi.forward]; exact hff
      rw [if_neg hf] at h
      by_cases hwrap : t.begin_ + 1 = t.end_
      · rw [if_pos (by simp only [beq_iff_eq]; exact hwrap)] at h
        refine step { t with begin_ := t.afterPreviousBreakPoint (t.begin_ + 1 - 1) }
          ⟨hi.com, hi.strategy, hi.forward, hi.orig, (fun hh => by rw [hsf] at hh; cases hh), hi.rwe⟩ ?_ h
        intro ha _ _
        refine ⟨fun hh => ?_, fun _ => ?_⟩
        · have : t.forward = true := hh
          rw [hff] at this; cases this
        · show PhraseSel.afterPreviousBreakPoint { t with begin_ := t.afterPreviousBreakPoint (t.begin_ + 1 - 1) } t.orig ≤
            t.afterPreviousBreakPoint (t.begin_ + 1 - 1)
          have h1 : t.begin_ + 1 - 1 = t.orig := by
            have := hi.rwe hsf
            have := ha.rw hsf
            have := hi.orig
            omega
          rw [afterPreviousBreakPoint_congr (p := t)
            (q := { t with begin_ := t.afterPreviousBreakPoint (t.begin_ + 1 - 1) }) rfl, h1]
          exact Nat.le_refl _
      · rw [if_neg (by simp only [beq_iff_eq]; exact hwrap)] at h
        refine step { t with begin_ := t.begin_ + 1 }
          ⟨hi.com, hi.strategy, hi.forward, hi.orig, (fun hh => by rw [hsf] at hh; cases hh), hi.rwe⟩ ?_ h
        intro _ _ ht
        exact within_congr (p := t) (q := { t with begin_ := t.begin_ + 1 }) rfl rfl rfl
          (fun _ => Nat.le_refl _) (fun _ => Nat.le_succ _) ht

/-- `PhraseSelector::next` (Down / Space on the last page): the range it stops on has a phrase, or it is the
    range it started from; an anchored range inside the break points stays inside them -/
theorem next_has {s s' : PhraseSel} {d : D} (h : PhraseSel.next env s d = .ok s') :
    s'.com = s.com ∧ s'.strategy = s.strategy ∧ s'.forward = s.forward ∧ s'.orig = s.orig ∧
    (PhraseSel.rangeHasPhrase env s' d s'.begin_ s'.end_ = .ok true ∨ (s'.begin_ = s.begin_ ∧ s'.end_ = s.end_)) ∧
    (C01.Anchor s → s.begin_ < s.end_ → s.Within → s'.Within) := by
  unfold PhraseSel.next at h
  obtain ⟨a1, a2, a3⟩ := next_go_has env d s _ s s' ⟨rfl, rfl, rfl, rfl, (fun _ => rfl), (fun _ => rfl)⟩ h
  exact ⟨a1.com, a1.strategy, a1.forward, a1.orig, a2, fun ha _ hw => a3 ha hw hw⟩

/-- `next` keeps the anchored end of the range -/
theorem next_keeps_anchor {s s' : PhraseSel} {d : D} (h : PhraseSel.next env s d = .ok s') :
    (s.forward = true → s'.begin_ = s.begin_) ∧ (s.forward = false → s'.end_ = s.end_) := by
  unfold PhraseSel.next at h
  obtain ⟨a1, _, _⟩ := next_go_has env d s _ s s' ⟨rfl, rfl, rfl, rfl, (fun _ => rfl), (fun _ => rfl)⟩ h
  exact ⟨a1.fwb, a1.rwe⟩

end Chewing
