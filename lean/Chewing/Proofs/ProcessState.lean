import Chewing.Proofs.EditorPure
import Chewing.Gen.ProcessState
/-!
The process around the C contexts (C17 "contexts are independent", creation included).

`chewing_new2(syspath, userpath, logger, data)` reads the system data directory named by ITS
`syspath` (`word.dat` + `tsi.dat` + `dictionary.d/*`, else the built-in dictionary; `swkb.dat`;
`symbols.dat`), the user dictionary at ITS `userpath` (and the estimator clock from it), and fixes
everything else (layout, engine, options) to constants of the code.  `CreateArgs` = what these
files hold at creation; `Ctx.create` = the context made of them.

`Proc` = the live contexts of a process by id plus the named shared process state: the logger slot
(`LogSlot`, finding F33) — the `OWNED` registry is pointer bookkeeping (`Model/Owned.lean`, C15) and
has no component here because no call result reads it.  `Proc.step` is the claim under test: a
creation reads nothing but its own arguments, a call reads and writes nothing but its own context.
That the CODE has no further process-wide item is the translator's job
(`tools/extractors/process_state.py` → `Gen/ProcessState.lean`: every `static` / `thread_local!` /
lazily initialised item of `capi/src` and `src`, classified, fails closed on a new stateful one), and the
paired executions of `capi_pure.rs` section D run exactly the experiment of `creation_args_local`
on the real C API (contexts with different data directories in one process vs. each alone in a fresh
process).
-/
namespace Chewing

/-- what `chewing_new2` finds under the paths it is given -/
structure CreateArgs (D : Type) where
  /-- `Layered(system dictionaries of syspath (or the built-in one), user dictionary at userpath)` -/
  dict : D
  /-- `swkb.dat` of syspath (empty when absent) -/
  abbr : List (Nat × Text)
  /-- `symbols.dat` of syspath (empty when absent) -/
  symSel : SymSel
  /-- `LaxUserFreqEstimate::max_from(user dictionary)` -/
  time : Nat
  /-- a logger callback is passed -/
  withLogger : Bool

/-- what the code of `chewing_new2` fixes for every context: `Qwerty` / `KeyboardLayoutCompat::Default`,
    `ChewingEngine`, default `EditorOptions` -/
structure NewDefaults (L : Type) where
  syl : L
  engine : EngineKind
  options : Options

variable {D L : Type}

/-- `chewing_new2`: the context is a function of the defaults of the code and of ITS arguments -/
def Ctx.create (dflt : NewDefaults L) (a : CreateArgs D) : Ctx D L :=
  Ctx.fresh { syl := dflt.syl, engine := dflt.engine, dict := a.dict, abbr := a.abbr, symSel := a.symSel,
              options := dflt.options, time := a.time }

/-- the process: live contexts by id, and the shared logger slot -/
structure Proc (D L : Type) where
  ctxs : Nat → Option (Ctx D L)
  logger : LogSlot

def Proc.empty : Proc D L := { ctxs := fun _ => none, logger := none }

/-- a C call of the application, tagged with the context it is made on -/
inductive PCall (D L : Type) where
  | new2 (id : Nat) (a : CreateArgs D)
  | call (id : Nat) (c : CCall L)
  | delete (id : Nat)

def PCall.id : PCall D L → Nat
  | .new2 i _ => i
  | .call i _ => i
  | .delete i => i

/-- what the application sees of one call -/
inductive PEv where
  /-- `chewing_new2` returned a context -/
  | created
  | ev (e : CEv)
  | deleted
deriving DecidableEq

def Proc.set (p : Proc D L) (id : Nat) (c : Option (Ctx D L)) : Proc D L :=
  { p with ctxs := fun j => if j = id then c else p.ctxs j }

variable (env : Env D L) (dflt : NewDefaults L)

/-- one call on one context: an operation or a query (`Ctx.trace` of a single call) -/
def Ctx.call (c : Ctx D L) : CCall L → Outcome (Ctx D L × CEv)
  | .op o => (c.cop env o).map fun r => (r.1, .ret r.2)
  | .q q => .ok ((c.cquery env q).1, .ans (c.cquery env q).2)

/-- one call of the application.  A call on an id that is not live (use after delete, double create of
    a live id) is outside the model: it is ignored without an event. -/
def Proc.step (p : Proc D L) : PCall D L → Outcome (Proc D L × Option (Nat × PEv))
  | .new2 id a =>
    match p.ctxs id with
    | some _ => .ok (p, none)
    | none =>
      .ok ({ (p.set id (some (Ctx.create dflt a))) with logger := (p.logger.step (.new2 id a.withLogger)).1 },
           some (id, .created))
  | .call id c =>
    match p.ctxs id with
    | none => .ok (p, none)
    | some x =>
      match x.call env c with
      | .ok (x', e) => .ok (p.set id (some x'), some (id, .ev e))
      | .panic s => .panic s
      | .outOfFuel => .outOfFuel
  | .delete id =>
    match p.ctxs id with
    | none => .ok (p, none)
    | some _ => .ok ({ (p.set id none) with logger := (p.logger.step (.delete id)).1 }, some (id, .deleted))

/-- append the event of a step, if it has one -/
def pushEv {α : Type} : Option α → List α → List α
  | some x, l => x :: l
  | none, l => l

def Proc.run (p : Proc D L) : List (PCall D L) → Outcome (Proc D L × List (Nat × PEv))
  | [] => .ok (p, [])
  | c :: cs =>
    match p.step env dflt c with
    | .ok (p', e) => (Proc.run p' cs).map fun r => (r.1, pushEv e r.2)
    | .panic s => .panic s
    | .outOfFuel => .outOfFuel

/-- the calls made on context `id` -/
def PCall.only (id : Nat) (h : List (PCall D L)) : List (PCall D L) := h.filter (fun c => c.id == id)

/-- the events of context `id` -/
def PEv.only (id : Nat) (es : List (Nat × PEv)) : List (Nat × PEv) := es.filter (fun e => e.1 == id)

/-! ### locality of one step -/

/-- a call on another context leaves context `id` as it is and shows nothing of it -/
theorem Proc.step_other (p p' : Proc D L) (c : PCall D L) (e : Option (Nat × PEv)) (id : Nat) (hne : c.id ≠ id)
    (h : p.step env dflt c = .ok (p', e)) : p'.ctxs id = p.ctxs id ∧ ∀ x, e = some x → x.1 ≠ id := by
  have hid : ∀ j, j ≠ id → ¬ (id = j) := fun j hj he => hj he.symm
  cases c with
  | new2 j a =>
    simp only [PCall.id] at hne
    simp only [Proc.step] at h
    split at h
    · cases h; exact ⟨rfl, fun x hx => by cases hx⟩
    · cases h
      refine ⟨by simp [Proc.set, hid j hne], fun x hx => ?_⟩
      cases hx; exact hne
  | call j c =>
    simp only [PCall.id] at hne
    simp only [Proc.step] at h
    split at h
    · cases h; exact ⟨rfl, fun x hx => by cases hx⟩
    · split at h
      · cases h
        refine ⟨by simp [Proc.set, hid j hne], fun x hx => ?_⟩
        cases hx; exact hne
      · cases h
      · cases h
  | delete j =>
    simp only [PCall.id] at hne
    simp only [Proc.step] at h
    split at h
    · cases h; exact ⟨rfl, fun x hx => by cases hx⟩
    · cases h
      refine ⟨by simp [Proc.set, hid j hne], fun x hx => ?_⟩
      cases hx; exact hne

/-- a call on context `id` reads nothing but context `id`: two processes that agree on `id` make the same
    step on it (same event, same new context), whatever else they hold — other contexts, logger slot -/
theorem Proc.step_own (p q p' : Proc D L) (c : PCall D L) (e : Option (Nat × PEv)) (id : Nat) (hid : c.id = id)
    (hpq : p.ctxs id = q.ctxs id) (h : p.step env dflt c = .ok (p', e)) :
    ∃ q', q.step env dflt c = .ok (q', e) ∧ p'.ctxs id = q'.ctxs id := by
  cases c with
  | new2 j a =>
    simp only [PCall.id] at hid; subst hid
    simp only [Proc.step] at h ⊢
    rw [← hpq]
    split at h
    · cases h; exact ⟨_, rfl, hpq⟩
    · cases h; exact ⟨_, rfl, by simp [Proc.set]⟩
  | call j c =>
    simp only [PCall.id] at hid; subst hid
    simp only [Proc.step] at h ⊢
    rw [← hpq]
    split at h
    · cases h; exact ⟨_, rfl, hpq⟩
    · split at h
      · rename_i x' e' hc
        cases h
        exact ⟨_, rfl, by simp [Proc.set]⟩
      · cases h
      · cases h
  | delete j =>
    simp only [PCall.id] at hid; subst hid
    simp only [Proc.step] at h ⊢
    rw [← hpq]
    split at h
    · cases h; exact ⟨_, rfl, hpq⟩
    · cases h; exact ⟨_, rfl, by simp [Proc.set]⟩

/-! ### histories -/

/-- **a context's behaviour is a function of ITS creation arguments and ITS call history only**:
    whatever else happens in the process `p` — other contexts created before or after it with other
    arguments, their calls interleaved anywhere, their deletion — a history that runs to completion shows, for
    context `id`, exactly the events of the calls on `id` run by themselves in a process `q` that agrees with
    `p` on `id` only (e.g. the empty process: "alone in a fresh process") -/
theorem Proc.run_local (id : Nat) (h : List (PCall D L)) :
    ∀ (p q p' : Proc D L) (es : List (Nat × PEv)), p.ctxs id = q.ctxs id → p.run env dflt h = .ok (p', es) →
      ∃ q', q.run env dflt (PCall.only id h) = .ok (q', PEv.only id es) ∧ p'.ctxs id = q'.ctxs id := by
  induction h with
  | nil =>
    intro p q p' es hpq hr
    simp only [Proc.run] at hr
    cases hr
    exact ⟨q, rfl, hpq⟩
  | cons c cs ih =>
    intro p q p' es hpq hr
    simp only [Proc.run] at hr
    cases hs : p.step env dflt c with
    | panic s => rw [hs] at hr; cases hr
    | outOfFuel => rw [hs] at hr; cases hr
    | ok r =>
      obtain ⟨p1, e⟩ := r
      rw [hs] at hr
      simp only at hr
      cases hrest : Proc.run env dflt p1 cs with
      | panic s => rw [hrest] at hr; cases hr
      | outOfFuel => rw [hrest] at hr; cases hr
      | ok r2 =>
        obtain ⟨p2, es2⟩ := r2
        rw [hrest] at hr
        simp only [Outcome.map] at hr
        have hp : p2 = p' := by cases hr; rfl
        have he : pushEv e es2 = es := by cases hr; rfl
        subst hp; subst he
        by_cases hc : c.id = id
        · -- a call on `id`: the same step in `q`
          obtain ⟨q1, hq1, h1⟩ := Proc.step_own env dflt p q p1 c e id hc hpq hs
          obtain ⟨q2, hq2, h2⟩ := ih p1 q1 p2 es2 h1 hrest
          refine ⟨q2, ?_, h2⟩
          have hf : PCall.only id (c :: cs) = c :: PCall.only id cs := by simp [PCall.only, hc]
          rw [hf]
          simp only [Proc.run, hq1, hq2, Outcome.map]
          cases e with
          | none => rfl
          | some x =>
            simp only [pushEv]
            -- the event of a call on `id` is tagged `id`
            have hx : x.1 = id := by
              cases c with
              | new2 j a =>
                simp only [Proc.step] at hs
                split at hs
                · cases hs
                · cases hs; exact hc
              | call j cc =>
                simp only [Proc.step] at hs
                split at hs
                · cases hs
                · split at hs
                  · cases hs; exact hc
                  · cases hs
                  · cases hs
              | delete j =>
                simp only [Proc.step] at hs
                split at hs
                · cases hs
                · cases hs; exact hc
            simp [PEv.only, hx]
        · -- a call on another context: invisible for `id`
          obtain ⟨h1, hne⟩ := Proc.step_other env dflt p p1 c e id hc hs
          obtain ⟨q2, hq2, h2⟩ := ih p1 q p2 es2 (h1.trans hpq) hrest
          refine ⟨q2, ?_, h2⟩
          have hf : PCall.only id (c :: cs) = PCall.only id cs := by simp [PCall.only, hc]
          rw [hf, hq2]
          cases e with
          | none => rfl
          | some x =>
            have := hne x rfl
            simp [PEv.only, pushEv, this]

end Chewing
