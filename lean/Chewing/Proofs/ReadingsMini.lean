import Chewing.Gen.Readings
import Chewing.Gen.ReadingsMini
/-!
The readings of `data/mini.src` (source of the built-in fallback dictionary `capi/data/mini.dat`) are
readings of `data/word.src`: completeness for the shipped character dictionary covers the fallback too.
-/
namespace Chewing
open Gen

/-- `a ⊆ b` for ascending lists, in one pass -/
def subsetSorted : List Nat → List Nat → Bool
  | [], _ => true
  | _ :: _, [] => false
  | x :: xs, y :: ys =>
    if x == y then subsetSorted xs ys
    else if y < x then subsetSorted (x :: xs) ys
    else false

theorem subsetSorted_mem : ∀ (b a : List Nat), subsetSorted a b = true → ∀ x ∈ a, x ∈ b := by
  intro b
  induction b with
  | nil =>
    intro a h x hx
    cases a with
    | nil => cases hx
    | cons _ _ => simp [subsetSorted] at h
  | cons y ys ih =>
    intro a h x hx
    cases a with
    | nil => cases hx
    | cons z zs =>
      unfold subsetSorted at h
      split at h
      · rename_i hzy
        have hzy : z = y := by simpa using hzy
        rcases List.mem_cons.mp hx with rfl | hx'
        · simp [hzy]
        · exact List.mem_cons_of_mem _ (ih zs h x hx')
      · split at h
        · exact List.mem_cons_of_mem _ (ih (z :: zs) h x hx)
        · cases h

theorem mini_subset_tbl : subsetSorted miniReadingCodes readingCodes = true := by
  decide +kernel

/-- every reading of `data/mini.src` is a reading of `data/word.src` -/
theorem mini_readings_subset : ∀ r ∈ miniReadingCodes, r ∈ readingCodes :=
  subsetSorted_mem _ _ mini_subset_tbl

end Chewing
