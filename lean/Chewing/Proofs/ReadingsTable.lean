import Chewing.Model.LayoutKeys
import Chewing.Model.Syllable
/-!
Facts about the generated readings table of `data/word.src` (kernel-checked): the translator's codes are
what the model's parser (`FromStr for Syllable`, tied to the Rust parser under C13) makes of the spellings in
the file; no spelling contains the first-tone mark; the table splits into the four blocks the completeness
checks are evaluated on.
-/
namespace Chewing
open Gen

theorem readings_parse : readingSpellings.map parse = readingCodes.map .ok := by
  decide +kernel

theorem readings_no_tone1 : (readingSpellings.all fun s => s.all fun c => c != 713) = true := by
  decide +kernel

theorem readings_blocks :
    readingCodes = readingBlock 0 ++ (readingBlock 1 ++ (readingBlock 2 ++ readingBlock 3)) := by
  decide +kernel

theorem readings_all_of_blocks {p : Nat → Bool} (h0 : (readingBlock 0).all p = true)
    (h1 : (readingBlock 1).all p = true) (h2 : (readingBlock 2).all p = true)
    (h3 : (readingBlock 3).all p = true) : ∀ r ∈ readingCodes, p r = true := by
  intro r hr
  rw [readings_blocks] at hr
  simp only [List.mem_append] at hr
  rcases hr with hr | hr | hr | hr
  · exact List.all_eq_true.mp h0 r hr
  · exact List.all_eq_true.mp h1 r hr
  · exact List.all_eq_true.mp h2 r hr
  · exact List.all_eq_true.mp h3 r hr

/-- the shipped character dictionary has no word for the empty syllable -/
theorem readings_no_empty : readingCodes.contains emptyPattern = false := by
  decide +kernel

end Chewing
