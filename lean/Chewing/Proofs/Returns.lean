import Chewing.Model.Basic
/-! `Returns x`: the modelled call returned normally — no panic, loop fuel not exhausted. -/
namespace Chewing

def Returns {α : Type} (x : Outcome α) : Prop := ∃ a, x = .ok a

theorem Returns.ok {α : Type} (a : α) : Returns (Outcome.ok a) := ⟨a, rfl⟩
theorem Returns.pure {α : Type} (a : α) : Returns (pure a : Outcome α) := ⟨a, rfl⟩

theorem Returns.bind {α β : Type} {x : Outcome α} {f : α → Outcome β}
    (hx : Returns x) (hf : ∀ a, x = .ok a → Returns (f a)) : Returns (x >>= f) := by
  obtain ⟨a, ha⟩ := hx
  subst ha
  exact hf a rfl

theorem Returns.ne_panic {α : Type} {x : Outcome α} (h : Returns x) (s : String) : x ≠ .panic s := by
  obtain ⟨a, rfl⟩ := h
  intro h'
  cases h'

theorem Returns.ne_outOfFuel {α : Type} {x : Outcome α} (h : Returns x) : x ≠ .outOfFuel := by
  obtain ⟨a, rfl⟩ := h
  intro h'
  cases h'

end Chewing
