import Chewing.Model.SqliteDict
import Chewing.Proofs.TrieBuild
/-!
Refinement proof for the relational model of `SqliteDictionary`: invariant (primary key, user ids
unique, fresh row ids, every `userphrase_id` points to an existing user row and no two rows share one),
the step lemma `abs (apply s op) = SMap.apply (abs s) op`, and the answers (`lookup`, `entries`).
-/
namespace Chewing.SqliteDict
open MapSpec

structure Inv (s : State) : Prop where
  keys : s.dict.Pairwise (fun a b => a.key ≠ b.key)
  ids : s.user.Pairwise (fun a b => a.1 ≠ b.1)
  refs : ∀ r ∈ s.dict, ∀ id, r.upid = some id → ∃ u ∈ s.user, u.1 = id
  uniq : s.dict.Pairwise (fun a b => ∀ id, a.upid = some id → b.upid ≠ some id)

/-! ### finite-map lemmas -/

theorem rowGet_iff {d : List Row} (h : d.Pairwise (fun a b => a.key ≠ b.key)) {key : PKey} {r : Row} :
    d.find? (fun x => x.key == key) = some r ↔ r ∈ d ∧ r.key = key := by
  constructor
  · intro hf
    exact ⟨List.mem_of_find?_eq_some hf, by simpa using List.find?_some hf⟩
  · rintro ⟨hr, e⟩
    induction d with
    | nil => simp at hr
    | cons x rest ih =>
      rw [List.pairwise_cons] at h
      simp only [List.mem_cons] at hr
      rcases hr with hr | hr
      · subst hr; simp [List.find?_cons, e]
      · have : x.key ≠ key := by rw [← e]; exact h.1 r hr
        have hb : (x.key == key) = false := by simpa using this
        simp only [List.find?_cons, hb]
        exact ih h.2 hr

theorem find_filter_ne (d : List Row) {k key : PKey} (h : key ≠ k) :
    (d.filter (fun x => x.key != k)).find? (fun x => x.key == key) = d.find? (fun x => x.key == key) := by
  induction d with
  | nil => rfl
  | cons x rest ih =>
    by_cases e : x.key = k
    · have hb : (x.key != k) = false := by simp [e]
      have hb2 : (x.key == key) = false := by
        simp only [beq_eq_false_iff_ne, ne_eq]; rw [e]; exact fun c => h c.symm
      simp only [List.filter_cons, hb, Bool.false_eq_true, if_false, List.find?_cons, hb2, ih]
    · have hb : (x.key != k) = true := by simp [e]
      simp only [List.filter_cons, hb, if_true, List.find?_cons, ih]

theorem find_filter_eq (d : List Row) (k : PKey) :
    (d.filter (fun x => x.key != k)).find? (fun x => x.key == k) = none := by
  rw [List.find?_eq_none]
  intro x hx
  simp only [List.mem_filter, bne_iff_ne, ne_eq] at hx
  simp [hx.2]

theorem rowGet_replace (d : List Row) (r : Row) (key : PKey) :
    (replaceRow d r).find? (fun x => x.key == key) = if key = r.key then some r else d.find? (fun x => x.key == key) := by
  unfold replaceRow
  by_cases e : key = r.key
  · subst e; simp [List.find?_cons]
  · have hb : (r.key == key) = false := by simp only [beq_eq_false_iff_ne, ne_eq]; exact fun c => e c.symm
    simp only [List.find?_cons, hb, e, if_false]
    exact find_filter_ne d e

theorem rowGet_remove (d : List Row) (k key : PKey) :
    (d.filter (fun x => x.key != k)).find? (fun x => x.key == key) = if key = k then none else d.find? (fun x => x.key == key) := by
  by_cases e : key = k
  · subst e; simp only [if_true]; exact find_filter_eq d key
  · simp only [e, if_false]; exact find_filter_ne d e

theorem keys_replace {d : List Row} (h : d.Pairwise (fun a b => a.key ≠ b.key)) (r : Row) :
    (replaceRow d r).Pairwise (fun a b => a.key ≠ b.key) := by
  unfold replaceRow
  rw [List.pairwise_cons]
  refine ⟨?_, List.Pairwise.filter _ h⟩
  intro x hx
  simp only [List.mem_filter, bne_iff_ne, ne_eq] at hx
  exact fun c => hx.2 c.symm

theorem lt_nextId {s : State} {u : Nat × (Nat × Nat)} (h : u ∈ s.user) : u.1 < nextId s := by
  unfold nextId
  have key : ∀ (l : List Nat) (a x : Nat), (x ∈ l ∨ x ≤ a) → x ≤ l.foldl max a := by
    intro l
    induction l with
    | nil => intro a x hx; rcases hx with hx | hx; · simp at hx
             · exact hx
    | cons y l ih =>
      intro a x hx
      simp only [List.foldl]
      apply ih
      simp only [List.mem_cons] at hx
      rcases hx with (rfl | hx) | hx
      · exact Or.inr (Nat.le_max_right _ _)
      · exact Or.inl hx
      · exact Or.inr (Nat.le_trans hx (Nat.le_max_left _ _))
  have := key (s.user.map (·.1)) 0 u.1 (Or.inl (List.mem_map.mpr ⟨u, h, rfl⟩))
  omega

/-- lookup in the user relation, on the bare list -/
def ufind (l : List (Nat × (Nat × Nat))) (id : Nat) : Option (Nat × Nat) := (l.find? (fun u => u.1 == id)).map (·.2)

theorem userGet_eq (s : State) (id : Nat) : userGet s id = ufind s.user id := rfl

theorem ufind_iff {l : List (Nat × (Nat × Nat))} (h : l.Pairwise (fun a b => a.1 ≠ b.1)) {id : Nat} {v : Nat × Nat} :
    ufind l id = some v ↔ (id, v) ∈ l := by
  induction l with
  | nil => simp [ufind]
  | cons x rest ih =>
    rw [List.pairwise_cons] at h
    unfold ufind at ih ⊢
    by_cases e : x.1 = id
    · have hb : (x.1 == id) = true := by simpa using e
      simp only [List.find?_cons, hb, Option.map_some, Option.some.injEq, List.mem_cons]
      constructor
      · intro hv; left; rw [← hv, ← e]
      · rintro (hm | hm)
        · rw [← hm]
        · exact absurd e (h.1 _ hm)
    · have hb : (x.1 == id) = false := by simpa using e
      simp only [List.find?_cons, hb, List.mem_cons]
      rw [ih h.2]
      constructor
      · intro hm; exact Or.inr hm
      · rintro (hm | hm)
        · rw [← hm] at e; exact absurd rfl e
        · exact hm

theorem ufind_append_fresh {l : List (Nat × (Nat × Nat))} {id : Nat} (hf : ∀ u ∈ l, u.1 ≠ id) (v : Nat × Nat) (id' : Nat) :
    ufind (l ++ [(id, v)]) id' = if id' = id then some v else ufind l id' := by
  unfold ufind
  rw [List.find?_append]
  by_cases e : id' = id
  · subst e
    have : l.find? (fun u => u.1 == id') = none := by
      rw [List.find?_eq_none]; intro u hu; simp only [beq_iff_eq]; exact hf u hu
    simp [this, List.find?_cons]
  · have hb : (id == id') = false := by simp only [beq_eq_false_iff_ne, ne_eq]; exact fun c => e c.symm
    simp only [e, if_false]
    cases l.find? (fun u => u.1 == id') with
    | none => simp [List.find?_cons, hb]
    | some u => simp

theorem ufind_map (l : List (Nat × (Nat × Nat))) (id uf : Nat) (id' : Nat) :
    ufind (l.map (fun u => if u.1 == id then (u.1, (uf, u.2.2)) else u)) id'
      = if id' = id then (ufind l id').map (fun v => (uf, v.2)) else ufind l id' := by
  induction l with
  | nil => simp [ufind]
  | cons x rest ih =>
    unfold ufind at ih ⊢
    have hfst : (if (x.1 == id) = true then (x.1, (uf, x.2.2)) else x).1 = x.1 := by split <;> rfl
    by_cases e : x.1 = id'
    · have hb : (x.1 == id') = true := by simpa using e
      simp only [List.map_cons, List.find?_cons, hfst, hb, Option.map_some]
      by_cases c : id' = id
      · have hc : (x.1 == id) = true := by simp only [beq_iff_eq]; rw [e, c]
        simp [c, hc]
      · have hc : (x.1 == id) = false := by simp only [beq_eq_false_iff_ne, ne_eq]; rw [e]; exact c
        simp [c, hc]
    · have hb : (x.1 == id') = false := by simpa using e
      simp only [List.map_cons, List.find?_cons, hfst, hb]
      exact ih

/-! ### the denoted map, step by step -/

/-- the denoted map on the bare relations -/
def absOf (d : List Row) (usr : List (Nat × (Nat × Nat))) (key : PKey) : Option SVal :=
  (d.find? (fun r => r.key == key)).map (fun r => (r.freq, r.upid.bind (ufind usr)))

theorem abs_eq (s : State) : abs s = absOf s.dict s.user := rfl

theorem abs_def (s : State) (key : PKey) :
    abs s key = (s.dict.find? (fun r => r.key == key)).map (fun r => (r.freq, r.upid.bind (userGet s))) := rfl

theorem absOf_replace (d : List Row) (usr : List (Nat × (Nat × Nat))) (r : Row) (key : PKey) :
    absOf (replaceRow d r) usr key = if key = r.key then some (r.freq, r.upid.bind (ufind usr)) else absOf d usr key := by
  unfold absOf
  rw [rowGet_replace]
  by_cases e : key = r.key
  · simp [e]
  · simp [e]

theorem absOf_remove (d : List Row) (usr : List (Nat × (Nat × Nat))) (k key : PKey) :
    absOf (d.filter (fun x => x.key != k)) usr key = if key = k then none else absOf d usr key := by
  unfold absOf
  rw [rowGet_remove]
  by_cases e : key = k
  · simp [e]
  · simp [e]

/-- changing user rows no dictionary row of `key` points to does not change the value of `key` -/
theorem absOf_user_congr {d : List Row} {usr usr' : List (Nat × (Nat × Nat))} {key : PKey}
    (h : ∀ r ∈ d, r.key = key → ∀ id, r.upid = some id → ufind usr' id = ufind usr id) :
    absOf d usr' key = absOf d usr key := by
  unfold absOf
  cases hf : d.find? (fun r => r.key == key) with
  | none => rfl
  | some r =>
    have hr := List.mem_of_find?_eq_some hf
    have hk : r.key = key := by simpa using List.find?_some hf
    simp only [Option.map_some, Option.some.injEq, Prod.mk.injEq, true_and]
    cases hu : r.upid with
    | none => rfl
    | some id => simp only [Option.bind_some]; exact h r hr hk id hu

theorem apply_update_none {s : State} {k : Key} {t : Text} (orig uf tm : Nat)
    (hb : (rowGet s (k, t)).bind (·.upid) = none) :
    apply s (.update k t orig uf tm) =
      { dict := replaceRow s.dict { key := (k, t), freq := orig, sortId := none, upid := some (nextId s) },
        user := s.user ++ [(nextId s, (uf, tm))] } := by
  simp [apply, hb]

theorem apply_update_some {s : State} {k : Key} {t : Text} (orig uf tm : Nat) {id : Nat}
    (hb : (rowGet s (k, t)).bind (·.upid) = some id) :
    apply s (.update k t orig uf tm) =
      { s with user := s.user.map (fun u => if u.1 == id then (u.1, (uf, u.2.2)) else u) } := by
  simp [apply, hb]

namespace SMap

theorem set_same (m : SMap) (k : PKey) (v : Option SVal) : m.set k v k = v := by simp [set]
theorem set_other (m : SMap) {k k' : PKey} (v : Option SVal) (h : k' ≠ k) : m.set k v k' = m k' := by simp [set, h]

theorem apply_update_learned {m : SMap} {k : Key} {t : Text} {o u0 t0 : Nat} (h : m (k, t) = some (o, some (u0, t0)))
    (orig uf tm : Nat) : m.apply (.update k t orig uf tm) = m.set (k, t) (some (o, some (uf, t0))) := by
  simp [apply, h]

theorem apply_update_new {m : SMap} {k : Key} {t : Text} (h : ∀ o u0 t0, m (k, t) ≠ some (o, some (u0, t0)))
    (orig uf tm : Nat) : m.apply (.update k t orig uf tm) = m.set (k, t) (some (orig, some (uf, tm))) := by
  cases hm : m (k, t) with
  | none => simp [apply, hm]
  | some v =>
    obtain ⟨o, x⟩ := v
    cases x with
    | none => simp [apply, hm]
    | some y => obtain ⟨u0, t0⟩ := y; exact absurd hm (h o u0 t0)

end SMap

theorem abs_add {s : State} (k : Key) (t : Text) (f : Nat) :
    abs (apply s (.add k t f)) = (abs s).set (k, t) (some (f, none)) := by
  funext key
  show absOf (replaceRow s.dict _) s.user key = _
  rw [absOf_replace]
  by_cases e : key = (k, t)
  · simp [e, SMap.set]
  · simp [e, SMap.set, abs_eq]

theorem abs_remove {s : State} (k : Key) (t : Text) :
    abs (apply s (.remove k t)) = (abs s).set (k, t) none := by
  funext key
  show absOf (s.dict.filter _) s.user key = _
  rw [absOf_remove]
  by_cases e : key = (k, t)
  · simp [e, SMap.set]
  · simp [e, SMap.set, abs_eq]

/-- two rows with the same `userphrase_id` are the same row -/
theorem uniq_rows {d : List Row} (h : d.Pairwise (fun a b => ∀ id, a.upid = some id → b.upid ≠ some id))
    {a b : Row} (ha : a ∈ d) (hb : b ∈ d) {id : Nat} (hua : a.upid = some id) (hub : b.upid = some id) : a = b := by
  induction d with
  | nil => simp at ha
  | cons x rest ih =>
    rw [List.pairwise_cons] at h
    simp only [List.mem_cons] at ha hb
    rcases ha with ha | ha <;> rcases hb with hb | hb
    · rw [ha, hb]
    · subst ha; exact absurd hub (h.1 b hb id hua)
    · subst hb; exact absurd hua (h.1 a ha id hub)
    · exact ih h.2 ha hb

/-- **refinement step** -/
theorem abs_apply {s : State} (hs : Inv s) (op : Op) : abs (apply s op) = (abs s).apply op := by
  cases op with
  | add k t f => exact abs_add k t f
  | remove k t => exact abs_remove k t
  | flush => rfl
  | reopen => rfl
  | update k t orig uf tm =>
    have hfresh : ∀ u ∈ s.user, u.1 ≠ nextId s := fun u hu => by have := lt_nextId hu; omega
    cases hb : (rowGet s (k, t)).bind (·.upid) with
    | none =>
      -- not learned yet: a fresh user row and a new dictionary row
      have hnew : ∀ o u0 t0, abs s (k, t) ≠ some (o, some (u0, t0)) := by
        intro o u0 t0 c
        rw [abs_eq] at c
        unfold absOf at c
        unfold rowGet at hb
        cases hf : s.dict.find? (fun r => r.key == (k, t)) with
        | none => rw [hf] at c; simp at c
        | some r =>
          rw [hf] at c hb
          simp only [Option.bind_some] at hb
          simp [hb] at c
      rw [apply_update_none orig uf tm hb, SMap.apply_update_new hnew]
      funext key
      show absOf (replaceRow s.dict _) (s.user ++ [(nextId s, (uf, tm))]) key = _
      rw [absOf_replace]
      by_cases e : key = (k, t)
      · simp only [e, if_true, Option.bind_some, SMap.set_same]
        rw [ufind_append_fresh hfresh]; simp
      · simp only [e, if_false]
        rw [SMap.set_other _ _ e, abs_eq]
        apply absOf_user_congr
        intro r hr _ id hid
        rw [ufind_append_fresh hfresh]
        obtain ⟨u, hu, hid'⟩ := hs.refs r hr id hid
        have : id ≠ nextId s := by rw [← hid']; exact hfresh u hu
        simp [this]
    | some id =>
      -- learned before: only the user frequency changes
      unfold rowGet at hb
      cases hf : s.dict.find? (fun r => r.key == (k, t)) with
      | none => rw [hf] at hb; simp at hb
      | some r =>
        rw [hf] at hb
        simp only [Option.bind_some] at hb
        have hrm := (rowGet_iff hs.keys).mp hf
        obtain ⟨u, hu, hid⟩ := hs.refs r hrm.1 id hb
        have hug : ufind s.user id = some u.2 := (ufind_iff hs.ids).mpr (by rw [← hid]; exact hu)
        have habs : abs s (k, t) = some (r.freq, some (u.2.1, u.2.2)) := by
          rw [abs_eq]; unfold absOf; rw [hf]; simp [hb, hug]
        have hb' : (rowGet s (k, t)).bind (·.upid) = some id := by unfold rowGet; rw [hf]; simpa using hb
        rw [apply_update_some orig uf tm hb', SMap.apply_update_learned habs]
        funext key
        show absOf s.dict (s.user.map _) key = _
        by_cases e : key = (k, t)
        · subst e
          rw [SMap.set_same]
          unfold absOf
          rw [hf]
          simp only [Option.map_some, hb, Option.bind_some, ufind_map, if_true, hug]
        · rw [SMap.set_other _ _ e, abs_eq]
          apply absOf_user_congr
          intro r' hr' hk' id' hid'
          rw [ufind_map]
          have : id' ≠ id := by
            intro c
            subst c
            have := uniq_rows hs.uniq hr' hrm.1 hid' hb
            rw [this, hrm.2] at hk'
            exact e hk'.symm
          simp [this]

theorem inv_apply {s : State} (hs : Inv s) (op : Op) : Inv (apply s op) := by
  cases op with
  | flush => exact hs
  | reopen => exact hs
  | add k t f =>
    refine ⟨keys_replace hs.keys _, hs.ids, ?_, ?_⟩
    · intro r hr id hid
      simp only [apply, replaceRow, List.mem_cons, List.mem_filter] at hr
      rcases hr with rfl | ⟨hr, _⟩
      · simp at hid
      · exact hs.refs r hr id hid
    · simp only [apply, replaceRow]
      rw [List.pairwise_cons]
      exact ⟨fun x _ id hid => by simp at hid, List.Pairwise.filter _ hs.uniq⟩
  | remove k t =>
    refine ⟨List.Pairwise.filter _ hs.keys, hs.ids, ?_, List.Pairwise.filter _ hs.uniq⟩
    intro r hr id hid
    simp only [apply, List.mem_filter] at hr
    exact hs.refs r hr.1 id hid
  | update k t orig uf tm =>
    cases hb : (rowGet s (k, t)).bind (·.upid) with
    | some id =>
      simp only [apply, hb]
      refine ⟨hs.keys, ?_, ?_, hs.uniq⟩
      · rw [List.pairwise_map]
        refine List.Pairwise.imp ?_ hs.ids
        intro a b hab
        have ha : (if a.1 == id then (a.1, (uf, a.2.2)) else a).1 = a.1 := by split <;> rfl
        have hb' : (if b.1 == id then (b.1, (uf, b.2.2)) else b).1 = b.1 := by split <;> rfl
        rw [ha, hb']; exact hab
      · intro r hr id' hid
        obtain ⟨u, hu, e⟩ := hs.refs r hr id' hid
        refine ⟨if u.1 == id then (u.1, (uf, u.2.2)) else u, List.mem_map.mpr ⟨u, hu, rfl⟩, ?_⟩
        rw [← e]; split <;> rfl
    | none =>
      simp only [apply, hb]
      have hfresh : ∀ u ∈ s.user, u.1 ≠ nextId s := fun u hu => by have := lt_nextId hu; omega
      refine ⟨keys_replace hs.keys _, ?_, ?_, ?_⟩
      · rw [List.pairwise_append]
        refine ⟨hs.ids, by simp, ?_⟩
        intro a ha b hb'
        simp only [List.mem_singleton] at hb'
        subst hb'
        exact hfresh a ha
      · intro r hr id hid
        simp only [replaceRow, List.mem_cons, List.mem_filter] at hr
        rcases hr with rfl | ⟨hr, _⟩
        · simp only [Option.some.injEq] at hid
          exact ⟨(nextId s, (uf, tm)), by simp, hid⟩
        · obtain ⟨u, hu, e⟩ := hs.refs r hr id hid
          exact ⟨u, by simp [hu], e⟩
      · simp only [replaceRow]
        rw [List.pairwise_cons]
        refine ⟨?_, List.Pairwise.filter _ hs.uniq⟩
        intro x hx id hid
        simp only [Option.some.injEq] at hid
        subst hid
        simp only [List.mem_filter] at hx
        intro c
        obtain ⟨u, hu, e⟩ := hs.refs x hx.1 _ c
        exact hfresh u hu e

theorem run_refines {s : State} (hs : Inv s) (ops : List Op) :
    Inv (run s ops) ∧ abs (run s ops) = (abs s).run ops := by
  induction ops generalizing s with
  | nil => exact ⟨hs, rfl⟩
  | cons op ops ih =>
    have h2 := ih (inv_apply hs op)
    refine ⟨h2.1, ?_⟩
    show abs (run (apply s op) ops) = _
    rw [h2.2, abs_apply hs]
    rfl

theorem inv_init : Inv init := ⟨List.Pairwise.nil, List.Pairwise.nil, by simp [init], List.Pairwise.nil⟩

/-- content written by the builder: no user rows -/
theorem inv_build (es : List Entry) : Inv (build es) := by
  unfold build
  have key : ∀ (es : List Entry) (acc : State × Nat),
      (Inv acc.1 ∧ ∀ r ∈ acc.1.dict, r.upid = none) →
      (Inv (es.foldl buildStep acc).1 ∧ ∀ r ∈ (es.foldl buildStep acc).1.dict, r.upid = none) := by
    intro es
    induction es with
    | nil => intro acc h; exact h
    | cons e es ih =>
      intro acc h
      simp only [List.foldl]
      apply ih
      obtain ⟨hi, hn⟩ := h
      have hn' : ∀ r ∈ (buildStep acc e).1.dict, r.upid = none := by
        intro r hr
        simp only [buildStep, replaceRow, List.mem_cons, List.mem_filter] at hr
        rcases hr with rfl | ⟨hr, _⟩
        · rfl
        · exact hn r hr
      refine ⟨⟨?_, hi.ids, ?_, ?_⟩, hn'⟩
      · simp only [buildStep]; exact keys_replace hi.keys _
      · intro r hr id hid
        rw [hn' r hr] at hid; simp at hid
      · have : ∀ (d : List Row), (∀ r ∈ d, r.upid = none) →
            d.Pairwise (fun a b => ∀ id, a.upid = some id → b.upid ≠ some id) := by
          intro d hd
          induction d with
          | nil => exact List.Pairwise.nil
          | cons x rest ihd =>
            rw [List.pairwise_cons]
            refine ⟨fun y _ id hid => ?_, ihd (fun r hr => hd r (by simp [hr]))⟩
            rw [hd x (by simp)] at hid; simp at hid
        exact this _ hn'
  exact (key es (init, 0) ⟨inv_init, by simp [init]⟩).1

/-! ### answers -/

theorem reported_eq (s : State) (r : Row) : reported s r = report (r.freq, r.upid.bind (userGet s)) := by
  unfold reported report
  cases r.upid.bind (userGet s) with
  | none => rfl
  | some v => rfl

theorem mem_lookupAll {s : State} {k : Key} {p : Phrase} :
    p ∈ lookupAll s k ↔ ∃ r ∈ s.dict, r.key.1 = k ∧ p = toPhrase s r := by
  unfold lookupAll
  simp only [List.mem_map, mem_isort, List.mem_filter, beq_iff_eq]
  constructor
  · rintro ⟨r, ⟨hr, e⟩, rfl⟩; exact ⟨r, hr, e, rfl⟩
  · rintro ⟨r, hr, e, rfl⟩; exact ⟨r, ⟨hr, e⟩, rfl⟩

/-- lookup: exactly the live phrases of the syllables, each once, with the reported value -/
theorem lookup_agrees {s : State} (hs : Inv s) (k : Key) : IsLookup (abs s) k (lookupAll s k) := by
  refine ⟨?_, ?_, ?_⟩
  · unfold lookupAll
    rw [List.map_map]
    have hp : (s.dict.filter (fun r => r.key.1 == k)).Pairwise (fun a b => a.key.2 ≠ b.key.2) := by
      refine List.Pairwise.imp_of_mem ?_ (List.Pairwise.filter _ hs.keys)
      intro a b ha hb hab e
      simp only [List.mem_filter, beq_iff_eq] at ha hb
      exact hab (Prod.ext (by rw [ha.2, hb.2]) e)
    have hperm := isort_perm (rowLt s) (s.dict.filter (fun r => r.key.1 == k))
    have : ((isort (rowLt s) (s.dict.filter (fun r => r.key.1 == k))).map ((fun p : Phrase => p.text) ∘ toPhrase s)).Nodup := by
      refine (hperm.symm.map _).nodup ?_
      unfold List.Nodup
      rw [List.pairwise_map]
      exact hp
    exact this
  · intro p hp
    obtain ⟨r, hr, e, rfl⟩ := mem_lookupAll.mp hp
    refine ⟨(r.freq, r.upid.bind (userGet s)), ?_, ?_⟩
    · have : (k, (toPhrase s r).text) = r.key := by
        simp only [toPhrase]; exact Prod.ext e.symm rfl
      rw [this, abs_def, (rowGet_iff hs.keys).mpr ⟨hr, rfl⟩]
      rfl
    · rw [← reported_eq]; rfl
  · intro t v hv
    rw [abs_def] at hv
    cases hf : s.dict.find? (fun r => r.key == (k, t)) with
    | none => rw [hf] at hv; simp at hv
    | some r =>
      obtain ⟨hr, e⟩ := (rowGet_iff hs.keys).mp hf
      refine ⟨toPhrase s r, mem_lookupAll.mpr ⟨r, hr, by rw [e], rfl⟩, ?_⟩
      simp only [toPhrase, e]

/-- enumeration: exactly the live entries, each once -/
theorem entries_agrees {s : State} (hs : Inv s) : IsEntries (abs s) (entries s) := by
  refine ⟨?_, ?_, ?_⟩
  · unfold entries
    rw [List.map_map]
    unfold List.Nodup
    rw [List.pairwise_map]
    refine List.Pairwise.imp ?_ hs.keys
    intro a b hab e
    simp only [Function.comp, toPhrase, Prod.mk.injEq] at e
    exact hab (Prod.ext e.1 e.2)
  · intro e he
    simp only [entries, List.mem_map] at he
    obtain ⟨r, hr, rfl⟩ := he
    refine ⟨(r.freq, r.upid.bind (userGet s)), ?_, ?_⟩
    · have : (r.key.1, (toPhrase s r).text) = r.key := rfl
      simp only
      rw [this, abs_def, (rowGet_iff hs.keys).mpr ⟨hr, rfl⟩]
      rfl
    · rw [← reported_eq]; rfl
  · intro k t v hv
    rw [abs_def] at hv
    cases hf : s.dict.find? (fun r => r.key == (k, t)) with
    | none => rw [hf] at hv; simp at hv
    | some r =>
      obtain ⟨hr, e⟩ := (rowGet_iff hs.keys).mp hf
      refine ⟨(r.key.1, toPhrase s r), by simp only [entries, List.mem_map]; exact ⟨r, hr, rfl⟩, ?_, ?_⟩
      · simp only [e]
      · simp only [toPhrase, e]

/-! ### specification facts -/

namespace SMap

def writes (key : PKey) : Op → Bool
  | .add k t _ => (k, t) == key
  | .update k t _ _ _ => (k, t) == key
  | _ => false

theorem apply_absent {m : SMap} {key : PKey} (h : m key = none) (op : Op) (hw : writes key op = false) :
    m.apply op key = none := by
  cases op with
  | add k t f =>
    simp only [writes, beq_eq_false_iff_ne, ne_eq] at hw
    simp only [apply]
    rw [set_other _ _ (fun e => hw e.symm)]; exact h
  | update k t o uf tm =>
    simp only [writes, beq_eq_false_iff_ne, ne_eq] at hw
    have hne : key ≠ (k, t) := fun e => hw e.symm
    by_cases hl : ∃ o u0 t0, m (k, t) = some (o, some (u0, t0))
    · obtain ⟨o', u0, t0, hl⟩ := hl
      rw [apply_update_learned hl, set_other _ _ hne]; exact h
    · have hl' : ∀ o u0 t0, m (k, t) ≠ some (o, some (u0, t0)) := fun o u0 t0 c => hl ⟨o, u0, t0, c⟩
      rw [apply_update_new hl', set_other _ _ hne]; exact h
  | remove k t =>
    simp only [apply]
    by_cases e : key = (k, t)
    · rw [e, set_same]
    · rw [set_other _ _ e]; exact h
  | flush => exact h
  | reopen => exact h

theorem run_absent {m : SMap} {key : PKey} (h : m key = none) (ops : List Op) (hw : ∀ op ∈ ops, writes key op = false) :
    m.run ops key = none := by
  induction ops generalizing m with
  | nil => exact h
  | cons op ops ih =>
    exact ih (apply_absent h op (hw op (by simp))) (fun o ho => hw o (by simp [ho]))

end SMap

end Chewing.SqliteDict
