import Chewing.Model.SqliteV1
import Chewing.Proofs.Loader
import Chewing.Proofs.SyllableValid
/-!
Lemmas about the `userphrase_v1` migration model (`Model/SqliteV1.lean`) for C19.
The constants of `Gen/SqliteV1.lean` are unfolded here: a change of the SELECT list, of the phone
loop's range, of a column type or of an INSERT's parameter list makes these proofs fail.
-/
namespace Chewing.SqliteV1
open Chewing.Loader

/-- an explicit row: 5 leading numbers and the 11 phone columns -/
def rowOf (time user maxf orig len : Nat) (phones : List Nat) (phrase : List Nat) : V1Row :=
  { ints := [(time : Int), user, maxf, orig, len] ++ phones.map Int.ofNat, phrase }

theorem getInt_ok (r : V1Row) (bits i c : Nat) (v : Nat) (hc : Gen.v1SelectIdx[i]? = some c)
    (hv : r.ints[c]? = some (v : Int)) (hb : v < 2 ^ bits) : getInt r bits i = .ok v := by
  unfold getInt
  rw [hc]
  simp only [hv]
  have h2 : ((v : Int) < (2 : Int) ^ bits) := by exact_mod_cast hb
  simp [h2]

theorem readPhones_map (r : V1Row) : ∀ (is vs : List Nat), is.length = vs.length →
    (∀ p ∈ is.zip vs, getInt r Gen.v1PhoneBits p.1 = .ok p.2) →
    readPhones r is = .ok (vs.filter keepPhone)
  | [], [], _, _ => rfl
  | [], _ :: _, hl, _ => by cases hl
  | _ :: _, [], hl, _ => by cases hl
  | i :: is, v :: vs, hl, h => by
    have h1 : getInt r Gen.v1PhoneBits i = .ok v := h (i, v) (by simp)
    have h2 := readPhones_map r is vs (by simpa using hl) (fun p hp => h p (by simp [hp]))
    simp only [readPhones, h1, h2]
    cases hv : keepPhone v <;> simp [hv, List.filter]

/-- the phone loop reads ALL eleven phone columns and keeps exactly the non-zero ones, in order -/
theorem readPhones_all (time user maxf orig len : Nat) (phrase : List Nat)
    (p0 p1 p2 p3 p4 p5 p6 p7 p8 p9 p10 : Nat)
    (h : ∀ p ∈ [p0, p1, p2, p3, p4, p5, p6, p7, p8, p9, p10], p < 65536) :
    readPhones (rowOf time user maxf orig len [p0, p1, p2, p3, p4, p5, p6, p7, p8, p9, p10] phrase) phoneIdxs
      = .ok ([p0, p1, p2, p3, p4, p5, p6, p7, p8, p9, p10].filter keepPhone) := by
  have e : phoneIdxs = [4, 5, 6, 7, 8, 9, 10, 11, 12, 13, 14] := by decide
  rw [e]
  have g : ∀ (i j : Nat) (p : Nat), Gen.v1SelectIdx[i]? = some (5 + j) →
      [p0, p1, p2, p3, p4, p5, p6, p7, p8, p9, p10][j]? = some p →
      getInt (rowOf time user maxf orig len [p0, p1, p2, p3, p4, p5, p6, p7, p8, p9, p10] phrase) Gen.v1PhoneBits i = .ok p := by
    intro i j p hi hj
    have hp : p < 65536 := h p (List.mem_of_getElem? hj)
    refine getInt_ok _ _ _ (5 + j) p hi ?_ (by simpa [Gen.v1PhoneBits] using hp)
    unfold rowOf
    simp only []
    rw [List.getElem?_append_right (by simp)]
    simp only [List.length_cons, List.length_nil, Nat.zero_add, Nat.reduceAdd, Nat.add_sub_cancel_left]
    rw [List.getElem?_map, hj]
    rfl
  apply readPhones_map _ [4, 5, 6, 7, 8, 9, 10, 11, 12, 13, 14] [p0, p1, p2, p3, p4, p5, p6, p7, p8, p9, p10] rfl
  intro p hp
  simp only [List.zip_cons_cons, List.zip_nil_right, List.mem_cons, List.not_mem_nil, or_false] at hp
  rcases hp with rfl | rfl | rfl | rfl | rfl | rfl | rfl | rfl | rfl | rfl | rfl
  · exact g 4 0 p0 (by decide) rfl
  · exact g 5 1 p1 (by decide) rfl
  · exact g 6 2 p2 (by decide) rfl
  · exact g 7 3 p3 (by decide) rfl
  · exact g 8 4 p4 (by decide) rfl
  · exact g 9 5 p5 (by decide) rfl
  · exact g 10 6 p6 (by decide) rfl
  · exact g 11 7 p7 (by decide) rfl
  · exact g 12 8 p8 (by decide) rfl
  · exact g 13 9 p9 (by decide) rfl
  · exact g 14 10 p10 (by decide) rfl

theorem readPhones_len11 (time user maxf orig len : Nat) (phrase : List Nat) (phones : List Nat)
    (hl : phones.length = 11) (h : ∀ p ∈ phones, p < 65536) :
    readPhones (rowOf time user maxf orig len phones phrase) phoneIdxs = .ok (phones.filter keepPhone) := by
  match phones, hl, h with
  | [p0, p1, p2, p3, p4, p5, p6, p7, p8, p9, p10], _, h => exact readPhones_all time user maxf orig len phrase _ _ _ _ _ _ _ _ _ _ _ h

/-! the statement shapes (all from `Gen/SqliteV1.lean`) -/
theorem shape_ok : shapeOk = true := by decide
theorem dict_phrase_from : paramOf Gen.v1DictColIds Gen.v1DictItems 1 = some 1 := by decide
theorem dict_freq_from : paramOf Gen.v1DictColIds Gen.v1DictItems 2 = some 2 := by decide
theorem up_userfreq_from : paramOf Gen.v1UserphraseColIds Gen.v1UserphraseItems 0 = some 3 := by decide
theorem up_time_from : paramOf Gen.v1UserphraseColIds Gen.v1UserphraseItems 1 = some 4 := by decide

/-- item.1 = the `phrase` column -/
theorem item1_rowOf (time user maxf orig len : Nat) (phrase phones : List Nat) :
    itemText (rowOf time user maxf orig len phones phrase) (some 1) = .ok phrase := by
  simp [itemText, getText, Gen.v1TupleCols, Gen.v1TupleBits, Gen.v1SelectIdx, colPhrase, rowOf]

/-- item.2 = `orig_freq` as u32 -/
theorem item2_rowOf (time user maxf orig len : Nat) (phrase phones : List Nat) (ho : orig < 2 ^ 32) :
    itemNat (rowOf time user maxf orig len phones phrase) (some 2) = .ok orig := by
  simp only [itemNat, Gen.v1TupleCols, Gen.v1TupleBits, List.getElem?_cons_succ, List.getElem?_cons_zero]
  exact getInt_ok _ _ _ 3 orig (by decide) (by simp [rowOf]) ho

/-- item.3 = `user_freq` as u32 -/
theorem item3_rowOf (time user maxf orig len : Nat) (phrase phones : List Nat) (hu : user < 2 ^ 32) :
    itemNat (rowOf time user maxf orig len phones phrase) (some 3) = .ok user := by
  simp only [itemNat, Gen.v1TupleCols, Gen.v1TupleBits, List.getElem?_cons_succ, List.getElem?_cons_zero]
  exact getInt_ok _ _ _ 1 user (by decide) (by simp [rowOf]) hu

/-- item.4 = `time` as u64 -/
theorem item4_rowOf (time user maxf orig len : Nat) (phrase phones : List Nat) (ht : time < 2 ^ 64) :
    itemNat (rowOf time user maxf orig len phones phrase) (some 4) = .ok time := by
  simp only [itemNat, Gen.v1TupleCols, Gen.v1TupleBits, List.getElem?_cons_succ, List.getElem?_cons_zero]
  exact getInt_ok _ _ _ 0 time (by decide) (by simp [rowOf]) ht

/-- one whole row: all eleven phones, the phrase, `orig_freq` into `dictionary_v1.freq`, `user_freq` and
    `time` into `userphrase_v2` -/
theorem readRow_rowOf (time user maxf orig len : Nat) (phrase : List Nat) (phones : List Nat)
    (hl : phones.length = 11) (h : ∀ p ∈ phones, p < 65536) (hu : user < 2 ^ 32) (ho : orig < 2 ^ 32)
    (ht : time < 2 ^ 64) :
    readRow (rowOf time user maxf orig len phones phrase) =
      .ok { syls := phones.filter keepPhone, phrase := phrase, freq := orig, userFreq := user, time := time } := by
  unfold readRow
  rw [shape_ok, dict_phrase_from, dict_freq_from, up_userfreq_from, up_time_from,
    readPhones_len11 time user maxf orig len phrase phones hl h, item1_rowOf, item2_rowOf _ _ _ _ _ _ _ ho,
    item3_rowOf _ _ _ _ _ _ _ hu, item4_rowOf _ _ _ _ _ _ _ ht]
  rfl

/-- a legacy record as the C library kept it -/
structure V1Rec where
  syls : List Nat
  phrase : List Nat
  orig : Nat
  user : Nat
  maxf : Nat
  len : Nat
  time : Nat
deriving Repr, DecidableEq

/-- 1..11 syllables, each the code of a non-empty syllable (a value `Syllable::try_from` accepts — since the repair
    of C13's F47 no other value is a syllable — other than the empty pattern); 32-bit frequencies; a time SQLite
    can hold -/
structure V1Rec.WF (g : V1Rec) : Prop where
  len_pos : 1 ≤ g.syls.length
  len_le : g.syls.length ≤ 11
  syl_ok : ∀ s ∈ g.syls, 0 < s ∧ s < 65536
  syl_valid : ∀ s ∈ g.syls, keepPhone s = true
  orig_ok : g.orig < 2 ^ 32
  user_ok : g.user < 2 ^ 32
  time_ok : g.time < 2 ^ 63

def V1Rec.row (g : V1Rec) : V1Row := mkRow g.time g.user g.maxf g.orig g.len g.syls g.phrase
def V1Rec.item (g : V1Rec) : Item :=
  { syls := g.syls, phrase := g.phrase, freq := g.orig, userFreq := g.user, time := g.time }

theorem filter_padded (syls : List Nat) (n : Nat) (h : ∀ s ∈ syls, keepPhone s = true) :
    (syls ++ List.replicate n 0).filter keepPhone = syls := by
  rw [List.filter_append]
  have h1 : syls.filter keepPhone = syls := List.filter_eq_self.mpr h
  have h2 : (List.replicate n 0).filter keepPhone = [] := by
    apply List.filter_eq_nil_iff.mpr
    intro a ha
    rw [List.eq_of_mem_replicate ha]
    decide
  rw [h1, h2, List.append_nil]

theorem readRow_wf (g : V1Rec) (h : g.WF) : readRow g.row = .ok g.item := by
  have e : g.row = rowOf g.time g.user g.maxf g.orig g.len (g.syls ++ List.replicate (11 - g.syls.length) 0) g.phrase := rfl
  rw [e, readRow_rowOf _ _ _ _ _ _ _ (by have := h.len_le; simp; omega) ?_ h.user_ok h.orig_ok
    (Nat.lt_trans h.time_ok (by decide))]
  · rw [filter_padded _ _ h.syl_valid]; rfl
  · intro p hp
    rcases List.mem_append.mp hp with hp | hp
    · exact (h.syl_ok p hp).2
    · rw [List.eq_of_mem_replicate hp]; decide

theorem readAll_wf : ∀ (gs : List V1Rec), (∀ g ∈ gs, g.WF) → readAll (gs.map V1Rec.row) = .ok (gs.map V1Rec.item)
  | [], _ => rfl
  | g :: gs, h => by
    simp only [List.map_cons, readAll, readRow_wf g (h g List.mem_cons_self),
      readAll_wf gs (fun g' hg => h g' (List.mem_cons_of_mem _ hg))]

end Chewing.SqliteV1
