import Chewing.Model.TrieBuf
import Chewing.Model.TrieCodec
import Chewing.Model.Cli
import Chewing.Proofs.TrieSort
import Chewing.Proofs.TrieBuild
/-!
# Stable sorts under a total preorder are unique

`slice::sort_by` is *some* stable sort (insertion sort up to 20 elements, a merge sort beyond).  The
three models of `TrieBuilder::write`'s leaf sort each picked an insertion sort: `isort` (C09,
`Model/TrieBuf.lean`, from the right, inserting from the left), `TrieCodec.sortBy` (C11, from the left,
inserting from the right) and `Cli.stableSort` (C20, the same loop as C11's).  Since fix ddfe893 the
comparator is a total preorder, and then the choice does not matter:

* `sorted_stable_unique` — two lists that are sorted (`lt b a = false` for `a` before `b`) and agree
  on every class of mutually equivalent elements *as lists* (= stability) are equal;
* `isort`, `sortBy`, `stableSort` are each sorted and stable, so they coincide (`isort_eq_sortBy`,
  `stableSort_eq_sortBy`), and **any** function returning a sorted, stable arrangement of its input
  returns the model's list (`stable_sort_is_sortBy`).

Everything is relative to a carrier `S` (the comparator of C20's model is only known to be a total
preorder on texts that are Unicode scalar values).
-/
namespace Chewing.StableSort
open Chewing

variable {α : Type}

/-- `lt` ("compares `Less`") is a total preorder on `S`: asymmetric, and "not after" is transitive -/
structure TPOn (lt : α → α → Bool) (S : α → Prop) : Prop where
  asymm : ∀ a b, S a → S b → lt a b = true → lt b a = false
  negtrans : ∀ a b c, S a → S b → S c → lt b a = false → lt c b = false → lt c a = false

/-- neither compares `Less` than the other (`Ordering::Equal` for a consistent comparator) -/
def eqv (lt : α → α → Bool) (a b : α) : Bool := !lt a b && !lt b a

/-- sorted: nothing stands before an element it compares `Greater` than -/
def Sorted (lt : α → α → Bool) (l : List α) : Prop := l.Pairwise (fun a b => lt b a = false)

/-- stable arrangement of `l`: every class of equivalent elements appears as in `l` -/
def StableOf (lt : α → α → Bool) (S : α → Prop) (l r : List α) : Prop :=
  ∀ a, S a → r.filter (eqv lt a) = l.filter (eqv lt a)

theorem TPOn.irrefl {lt : α → α → Bool} {S : α → Prop} (h : TPOn lt S) (a : α) (ha : S a) : lt a a = false := by
  cases e : lt a a with
  | false => rfl
  | true => rw [h.asymm a a ha ha e] at e; cases e

theorem eqv_self {lt : α → α → Bool} {S : α → Prop} (h : TPOn lt S) (a : α) (ha : S a) : eqv lt a a = true := by
  simp [eqv, h.irrefl a ha]

/-- **uniqueness**: sorted + same equivalence classes in the same order ⇒ equal -/
theorem sorted_stable_unique {lt : α → α → Bool} {S : α → Prop} (hp : TPOn lt S) :
    ∀ (r1 r2 : List α), (∀ a ∈ r1, S a) → (∀ a ∈ r2, S a) → Sorted lt r1 → Sorted lt r2 →
      (∀ a, S a → r1.filter (eqv lt a) = r2.filter (eqv lt a)) → r1 = r2 := by
  intro r1
  induction r1 with
  | nil =>
    intro r2 _ h2 _ _ h
    cases r2 with
    | nil => rfl
    | cons b r2 =>
      have hb := h2 b List.mem_cons_self
      have := h b hb
      simp [eqv_self hp b hb] at this
  | cons a r1 ih =>
    intro r2 h1 h2 s1 s2 h
    have ha := h1 a List.mem_cons_self
    cases r2 with
    | nil =>
      have := h a ha
      simp [eqv_self hp a ha] at this
    | cons b r2 =>
      have hb := h2 b List.mem_cons_self
      unfold Sorted at s1 s2
      rw [List.pairwise_cons] at s1 s2
      -- `b` may stand before `a`
      have key : ∀ (x : α) (r r' : List α) (y : α), S x → S y → (∀ z ∈ r', S z) →
          (∀ z ∈ r', lt z y = false) → (x :: r).filter (eqv lt x) = (y :: r').filter (eqv lt x) → lt x y = false := by
        intro x r r' y hx hy hr' hs he
        have hm : x ∈ (y :: r').filter (eqv lt x) := by
          rw [← he]; simp [eqv_self hp x hx]
        rw [List.mem_filter] at hm
        obtain ⟨hm1, hm2⟩ := hm
        simp only [eqv, Bool.and_eq_true, Bool.not_eq_true'] at hm2
        -- hm1 says x itself is in the other list: x = y or x ∈ r'
        rcases List.mem_cons.mp hm1 with e | e
        · subst e; exact hp.irrefl x hx
        · exact hs x e
      have hab : lt a b = false := key a r1 r2 b ha hb (fun z hz => h2 z (List.mem_cons_of_mem _ hz)) s2.1 (h a ha)
      have hba : lt b a = false := key b r2 r1 a hb ha (fun z hz => h1 z (List.mem_cons_of_mem _ hz)) s1.1 (h b hb).symm
      have he : eqv lt a b = true := by simp [eqv, hab, hba]
      have h0 := h a ha
      simp only [List.filter_cons, eqv_self hp a ha, he, if_true] at h0
      have eab : a = b := (List.cons.inj h0).1
      subst eab
      congr 1
      refine ih r2 (fun z hz => h1 z (List.mem_cons_of_mem _ hz)) (fun z hz => h2 z (List.mem_cons_of_mem _ hz))
        s1.2 s2.2 ?_
      intro c hc
      have := h c hc
      simp only [List.filter_cons] at this
      split at this
      · exact (List.cons.inj this).2
      · exact this

/-! ### `isort` (C09) -/

theorem place_sorted {lt : α → α → Bool} {S : α → Prop} (hp : TPOn lt S) (x : α) (hx : S x) :
    ∀ l : List α, (∀ a ∈ l, S a) → Sorted lt l → Sorted lt (place lt x l) := by
  intro l
  induction l with
  | nil => intro _ _; simp [place, Sorted]
  | cons y r ih =>
    intro hS hs
    have hy := hS y List.mem_cons_self
    unfold Sorted at hs
    rw [List.pairwise_cons] at hs
    unfold place
    split
    · rename_i hlt
      unfold Sorted
      rw [List.pairwise_cons]
      refine ⟨?_, ih (fun a ha => hS a (List.mem_cons_of_mem _ ha)) hs.2⟩
      intro z hz
      rcases (mem_place lt).mp hz with e | e
      · subst e; exact hp.asymm y z hy hx hlt
      · exact hs.1 z e
    · rename_i hlt
      have hlt' : lt y x = false := by simpa using hlt
      unfold Sorted
      rw [List.pairwise_cons]
      refine ⟨?_, List.pairwise_cons.mpr hs⟩
      intro z hz
      rcases List.mem_cons.mp hz with e | e
      · subst e; exact hlt'
      · exact hp.negtrans x y z hx hy (hS z (List.mem_cons_of_mem _ e)) hlt' (hs.1 z e)

theorem isort_sorted {lt : α → α → Bool} {S : α → Prop} (hp : TPOn lt S) :
    ∀ l : List α, (∀ a ∈ l, S a) → Sorted lt (isort lt l) := by
  intro l
  induction l with
  | nil => intro _; exact List.Pairwise.nil
  | cons x l ih =>
    intro hS
    show Sorted lt (place lt x (isort lt l))
    exact place_sorted hp x (hS x List.mem_cons_self) _
      (fun a ha => hS a (List.mem_cons_of_mem _ ((mem_isort lt).mp ha)))
      (ih (fun a ha => hS a (List.mem_cons_of_mem _ ha)))

theorem place_filter (lt : α → α → Bool) (p : α → Bool) (x : α) :
    ∀ l : List α, (∀ b ∈ l, p b = true → p x = true → lt b x = false) →
      (place lt x l).filter p = (x :: l).filter p := by
  intro l
  induction l with
  | nil => intro _; rfl
  | cons y r ih =>
    intro h
    unfold place
    split
    · rename_i hlt
      have ih' := ih (fun b hb => h b (List.mem_cons_of_mem _ hb))
      have hne : ¬ (p y = true ∧ p x = true) := by
        rintro ⟨h1, h2⟩
        rw [h y List.mem_cons_self h1 h2] at hlt
        cases hlt
      simp only [List.filter_cons, ih']
      cases hpx : p x <;> cases hpy : p y <;> simp_all
    · rfl

theorem isort_stable {lt : α → α → Bool} {S : α → Prop} (hp : TPOn lt S) (l : List α) (hS : ∀ a ∈ l, S a) :
    StableOf lt S l (isort lt l) := by
  intro c hc
  induction l with
  | nil => rfl
  | cons x l ih =>
    have hx := hS x List.mem_cons_self
    show (place lt x (isort lt l)).filter (eqv lt c) = _
    rw [place_filter, List.filter_cons, List.filter_cons, ih (fun a ha => hS a (List.mem_cons_of_mem _ ha))]
    intro b hb h1 h2
    have hbS := hS b (List.mem_cons_of_mem _ ((mem_isort lt).mp hb))
    simp only [eqv, Bool.and_eq_true, Bool.not_eq_true'] at h1 h2
    -- x ≤ c (lt c x = false) and c ≤ b (lt b c = false) ⇒ x ≤ b (lt b x = false)
    exact hp.negtrans x c b hx hc hbS h2.1 h1.2

/-! ### `sortBy` (C11) and `stableSort` (C20) -/

theorem sortBy_sorted' {lt : α → α → Bool} {S : α → Prop} (hp : TPOn lt S) (l : List α) (hS : ∀ a ∈ l, S a) :
    Sorted lt (TrieCodec.sortBy lt l) :=
  TrieCodec.sortBy_sorted lt l
    (fun a ha b hb c hc => hp.negtrans a b c (hS a ha) (hS b hb) (hS c hc))
    (fun a ha b hb => hp.asymm a b (hS a ha) (hS b hb))

theorem sortBy_stable {lt : α → α → Bool} {S : α → Prop} (hp : TPOn lt S) (l : List α) (hS : ∀ a ∈ l, S a) :
    StableOf lt S l (TrieCodec.sortBy lt l) := by
  intro c hc
  apply TrieCodec.sortBy_filter_stable
  intro a ha b hb h1 h2
  simp only [eqv, Bool.and_eq_true, Bool.not_eq_true'] at h1 h2
  -- b ≤ c (lt c b = false) and c ≤ a (lt a c = false) ⇒ b ≤ a (lt a b = false)
  exact hp.negtrans b c a (hS b hb) hc (hS a ha) h2.1 h1.2

/-- **any stable sort is the model's sort**: a sorted, stable arrangement of `l` whose elements are
    those of `l` is `sortBy lt l` -/
theorem stable_sort_is_sortBy {lt : α → α → Bool} {S : α → Prop} (hp : TPOn lt S) (l r : List α)
    (hS : ∀ a ∈ l, S a) (hr : ∀ a ∈ r, S a) (hs : Sorted lt r) (hst : StableOf lt S l r) :
    r = TrieCodec.sortBy lt l := by
  refine sorted_stable_unique hp r _ hr (fun a ha => hS a (TrieCodec.mem_sortBy.mp ha)) hs
    (sortBy_sorted' hp l hS) ?_
  intro a ha
  rw [hst a ha, sortBy_stable hp l hS a ha]

/-- C09's insertion sort and C11's are the same function on a total preorder -/
theorem isort_eq_sortBy {lt : α → α → Bool} {S : α → Prop} (hp : TPOn lt S) (l : List α) (hS : ∀ a ∈ l, S a) :
    isort lt l = TrieCodec.sortBy lt l :=
  stable_sort_is_sortBy hp l _ hS (fun a ha => hS a ((mem_isort lt).mp ha)) (isort_sorted hp l hS)
    (isort_stable hp l hS)

/-- C20's `stableSort` is C11's `sortBy`, definitionally the same loop -/
theorem insertRev_eq_insTail (lt : α → α → Bool) (x : α) (l : List α) : Cli.insertRev lt x l = TrieCodec.insTail lt x l := by
  induction l with
  | nil => rfl
  | cons y ys ih => simp only [Cli.insertRev, TrieCodec.insTail, ih]

theorem stableSort_eq_sortBy (lt : α → α → Bool) (l : List α) : Cli.stableSort lt l = TrieCodec.sortBy lt l := by
  unfold Cli.stableSort TrieCodec.sortBy
  congr 2
  funext acc x
  exact insertRev_eq_insTail lt x acc

/-! ### transport along a map -/

theorem insTail_map {β : Type} (lt1 : α → α → Bool) (lt2 : β → β → Bool) (f : α → β) (x : α) (acc : List α)
    (h : ∀ b ∈ acc, lt2 (f x) (f b) = lt1 x b) :
    TrieCodec.insTail lt2 (f x) (acc.map f) = (TrieCodec.insTail lt1 x acc).map f := by
  induction acc with
  | nil => rfl
  | cons y ys ih =>
    simp only [List.map_cons, TrieCodec.insTail, h y List.mem_cons_self]
    split
    · rw [List.map_cons, ih (fun b hb => h b (List.mem_cons_of_mem _ hb))]
    · rfl

/-- sorting commutes with a map under which the two comparators agree on the elements of the list -/
theorem sortBy_map {β : Type} (lt1 : α → α → Bool) (lt2 : β → β → Bool) (f : α → β) (l : List α)
    (h : ∀ a ∈ l, ∀ b ∈ l, lt2 (f a) (f b) = lt1 a b) :
    TrieCodec.sortBy lt2 (l.map f) = (TrieCodec.sortBy lt1 l).map f := by
  unfold TrieCodec.sortBy
  rw [List.map_reverse]
  congr 1
  have key : ∀ (xs acc : List α), (∀ a ∈ xs, a ∈ l) → (∀ a ∈ acc, a ∈ l) →
      (xs.map f).foldl (fun acc x => TrieCodec.insTail lt2 x acc) (acc.map f) =
        (xs.foldl (fun acc x => TrieCodec.insTail lt1 x acc) acc).map f := by
    intro xs
    induction xs with
    | nil => intro acc _ _; rfl
    | cons x xs ih =>
      intro acc hxs hacc
      simp only [List.map_cons, List.foldl_cons]
      have hx := hxs x List.mem_cons_self
      rw [insTail_map lt1 lt2 f x acc (fun b hb => h x hx b (hacc b hb))]
      refine ih _ (fun a ha => hxs a (List.mem_cons_of_mem _ ha)) ?_
      intro a ha
      rcases List.mem_cons.mp ((TrieCodec.insTail_perm lt1 x acc).mem_iff.mp ha) with e | e
      · exact e ▸ hx
      · exact hacc a e
  exact key l [] (fun a ha => ha) (by simp)

/-- a total preorder pulled back along a map -/
theorem TPOn.pullback {β : Type} {lt1 : α → α → Bool} {S1 : α → Prop} (hp : TPOn lt1 S1) (lt2 : β → β → Bool)
    (S2 : β → Prop) (g : β → α) (hg : ∀ b, S2 b → S1 (g b))
    (h : ∀ a b, S2 a → S2 b → lt2 a b = lt1 (g a) (g b)) : TPOn lt2 S2 := by
  constructor
  · intro a b ha hb hab
    rw [h a b ha hb] at hab
    rw [h b a hb ha]
    exact hp.asymm _ _ (hg a ha) (hg b hb) hab
  · intro a b c ha hb hc h1 h2
    rw [h b a hb ha] at h1
    rw [h c b hc hb] at h2
    rw [h c a hc ha]
    exact hp.negtrans _ _ _ (hg a ha) (hg b hb) (hg c hc) h1 h2

end Chewing.StableSort
