import Chewing.Model.Syllable
import Chewing.Proofs.Enum
import Chewing.Proofs.BitsA
import Chewing.Proofs.BitsB
import Chewing.Proofs.BitsC
import Chewing.Proofs.SyllableTables
/-!
Structural lemmas for C13: the arithmetic form of every bit operation of the codec on
encoded tuples, the abstract builder, and the prefix relation.
-/
namespace Chewing
open Gen

theorem or_eq_add {a b : Nat} (ha : a < 65536) (hb : b < 65536) (h : a &&& b = 0) : a ||| b = a + b := by
  have h1 := BitVec.add_eq_or_of_and_eq_zero (BitVec.ofNat 17 a) (BitVec.ofNat 17 b) (by
    apply BitVec.eq_of_toNat_eq
    simp [BitVec.toNat_and, BitVec.toNat_ofNat]
    rw [Nat.mod_eq_of_lt (by omega), Nat.mod_eq_of_lt (by omega)]
    exact h)
  have h2 := congrArg BitVec.toNat h1
  simp [BitVec.toNat_add, BitVec.toNat_or, BitVec.toNat_ofNat] at h2
  rw [Nat.mod_eq_of_lt (show a < 131072 by omega), Nat.mod_eq_of_lt (show b < 131072 by omega)] at h2
  omega

/-- tuple bounds; `nt = 5` composable, `nt = 6` also admits the tone value `ˉ` produces -/
def Tup (nt i m r t : Nat) : Prop := i < 22 ∧ m < 4 ∧ r < 14 ∧ t < nt

theorem encode_lt {i m r t : Nat} (h : Tup 6 i m r t) : encode i m r t < 65536 := by
  unfold encode; obtain ⟨h1, h2, h3, h4⟩ := h; split <;> omega

theorem encode_pos {i m r t : Nat} : 0 < encode i m r t := by
  unfold encode; split <;> omega

theorem encode_fields {i m r t : Nat} (h : Tup 6 i m r t) :
    encode i m r t / 512 % 64 = i ∧ encode i m r t / 128 % 4 = m ∧
    encode i m r t / 8 % 16 = r ∧ encode i m r t % 8 = t ∧
    encode i m r t % 32768 = i * 512 + m * 128 + r * 8 + t := by
  unfold encode; obtain ⟨h1, h2, h3, h4⟩ := h; split <;> omega

theorem encode_inj {i m r t i' m' r' t' : Nat} (h : Tup 6 i m r t) (h' : Tup 6 i' m' r' t')
    (e : encode i m r t = encode i' m' r' t') : i = i' ∧ m = m' ∧ r = r' ∧ t = t' := by
  have f := encode_fields h
  have f' := encode_fields h'
  rw [e] at f
  omega

/-- masks applied to an encoded tuple, in arithmetic form -/
theorem and_clear {i m r t : Nat} (h : Tup 6 i m r t) :
    encode i m r t &&& 511 = m * 128 + r * 8 + t ∧
    encode i m r t &&& 32383 = i * 512 + r * 8 + t ∧
    encode i m r t &&& 32647 = i * 512 + m * 128 + t ∧
    encode i m r t &&& 32760 = i * 512 + m * 128 + r * 8 := by
  have hl := encode_lt h
  have f := encode_fields h
  rw [and_511 hl, and_32383 hl, and_32647 hl, and_32760 hl]
  obtain ⟨h1, h2, h3, h4⟩ := h
  omega

theorem and_check {i m r t : Nat} (h : Tup 6 i m r t) :
    encode i m r t &&& 32256 = i * 512 ∧ encode i m r t &&& 384 = m * 128 ∧
    encode i m r t &&& 120 = r * 8 ∧ encode i m r t &&& 7 = t := by
  have hl := encode_lt h
  have f := encode_fields h
  rw [and_32256 hl, and_384 hl, and_120 hl, and_7 hl]
  omega

/-- disjointness of a cleared value and a shifted index, by enumeration of the index -/
theorem disj_tbl :
    (allLt 64 fun v => Nat.beq (511 &&& (v <<< 9)) 0) = true ∧
    (allLt 4 fun v => Nat.beq (32383 &&& (v <<< 7)) 0) = true ∧
    (allLt 16 fun v => Nat.beq (32647 &&& (v <<< 3)) 0) = true ∧
    (allLt 8 fun v => Nat.beq (32760 &&& (v <<< 0)) 0) = true := by
  decide +kernel

theorem set_initial {c v : Nat} (hc : c < 65536) (hv : v < 64) :
    (c &&& 511) ||| (v <<< 9) = c % 512 + v * 512 := by
  have hd : (c &&& 511) &&& (v <<< 9) = 0 := by
    rw [Nat.and_assoc, Nat.eq_of_beq_eq_true (allLt_spec disj_tbl.1 v hv), Nat.and_zero]
  have hs : v <<< 9 = v * 512 := by rw [Nat.shiftLeft_eq]
  rw [or_eq_add (by rw [and_511 hc]; omega) (by omega) hd, and_511 hc, hs]

theorem set_medial {c v : Nat} (hc : c < 65536) (hv : v < 4) :
    (c &&& 32383) ||| (v <<< 7) = c % 32768 - (c / 128 % 4) * 128 + v * 128 := by
  have hd : (c &&& 32383) &&& (v <<< 7) = 0 := by
    rw [Nat.and_assoc, Nat.eq_of_beq_eq_true (allLt_spec disj_tbl.2.1 v hv), Nat.and_zero]
  have hs : v <<< 7 = v * 128 := by rw [Nat.shiftLeft_eq]
  rw [or_eq_add (by rw [and_32383 hc]; omega) (by omega) hd, and_32383 hc, hs]

theorem set_rime {c v : Nat} (hc : c < 65536) (hv : v < 16) :
    (c &&& 32647) ||| (v <<< 3) = c % 32768 - (c / 8 % 16) * 8 + v * 8 := by
  have hd : (c &&& 32647) &&& (v <<< 3) = 0 := by
    rw [Nat.and_assoc, Nat.eq_of_beq_eq_true (allLt_spec disj_tbl.2.2.1 v hv), Nat.and_zero]
  have hs : v <<< 3 = v * 8 := by rw [Nat.shiftLeft_eq]
  rw [or_eq_add (by rw [and_32647 hc]; omega) (by omega) hd, and_32647 hc, hs]

theorem set_tone {c v : Nat} (hc : c < 65536) (hv : v < 8) :
    (c &&& 32760) ||| (v <<< 0) = c % 32768 - c % 8 + v := by
  have hd : (c &&& 32760) &&& (v <<< 0) = 0 := by
    rw [Nat.and_assoc, Nat.eq_of_beq_eq_true (allLt_spec disj_tbl.2.2.2 v hv), Nat.and_zero]
  have hs : v <<< 0 = v := by simp
  rw [or_eq_add (by rw [and_32760 hc]; omega) (by omega) hd, and_32760 hc, hs]

end Chewing
