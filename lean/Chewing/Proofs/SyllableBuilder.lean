import Chewing.Proofs.Syllable
/-!
The order-checking builder and `update` on abstract states, then the parser on all strings.
-/
namespace Chewing
open Gen

/-- facts about the 42 symbols (kernel-checked against the generated tables) -/
theorem sym_tbl : (allLt 42 fun b => decide (
      (kindOf b = 0 ∧ 1 ≤ indexOf b ∧ indexOf b < 22 ∧ ((b : Int) + 1).toNat = indexOf b ∧ initialMap[indexOf b - 1]? = some b) ∨
      (kindOf b = 1 ∧ 1 ≤ indexOf b ∧ indexOf b < 4 ∧ ((b : Int) + -20).toNat = indexOf b ∧ medialMap[indexOf b - 1]? = some b) ∨
      (kindOf b = 2 ∧ 1 ≤ indexOf b ∧ indexOf b < 14 ∧ ((b : Int) + -23).toNat = indexOf b ∧ rimeMap[indexOf b - 1]? = some b) ∨
      (kindOf b = 3 ∧ 1 ≤ indexOf b ∧ indexOf b < 6 ∧ ((b : Int) + -36).toNat = indexOf b ∧
        (b ≠ 41 → indexOf b < 5 ∧ toneMap[indexOf b - 1]? = some b)))) = true := by
  decide +kernel

theorem chars_tbl : bopoFromChar.all (fun p => decide (p.2 < 42 ∧ charOf p.2 = p.1)) = true ∧
    (allLt 42 fun b => decide (bopoOfChar (charOf b) = some b)) = true ∧
    charOf 41 = 713 ∧ nBopo = 42 := by
  decide +kernel

theorem arms_eq : builderArms = [(32256, 0, 1, 511, (1 : Int), 9), (384, 1, 2, 32383, (-20 : Int), 7),
    (120, 2, 3, 32647, (-23 : Int), 3), (7, 3, 4, 32760, (-36 : Int), 0)] := by decide

theorem update_masks_eq : updateInitialMask = 511 ∧ updateInitialShift = 9 ∧ updateMedialMask = 32383 ∧
    updateMedialShift = 7 ∧ updateRimeMask = 32647 ∧ updateRimeShift = 3 ∧ updateToneMask = 32760 ∧
    updateToneShift = 0 := by decide

def setAt (k v i m r t : Nat) : Nat × Nat × Nat × Nat :=
  match k with
  | 0 => (v, m, r, t)
  | 1 => (i, v, r, t)
  | 2 => (i, m, v, t)
  | _ => (i, m, r, v)

/-- fields of kind ≥ step are still empty -/
def Good (i m r t st : Nat) : Prop :=
  (st ≤ 0 → i = 0) ∧ (st ≤ 1 → m = 0) ∧ (st ≤ 2 → r = 0) ∧ (st ≤ 3 → t = 0)

theorem bopoOfChar_sound {c b : Nat} (h : bopoOfChar c = some b) : b < 42 ∧ charOf b = c := by
  unfold bopoOfChar at h
  cases hf : bopoFromChar.find? (fun p => p.1 == c) with
  | none => simp [hf] at h
  | some p =>
    simp [hf] at h
    have hm := List.mem_of_find?_eq_some hf
    have hp := List.find?_some hf
    have := List.all_eq_true.mp chars_tbl.1 p hm
    simp at this hp
    subst h
    exact ⟨this.1, by rw [this.2]; exact hp⟩

theorem encode_nz {i m r t : Nat} (h : i ≠ 0 ∨ m ≠ 0 ∨ r ≠ 0 ∨ t ≠ 0) :
    encode i m r t = i * 512 + m * 128 + r * 8 + t := by
  unfold encode; split <;> omega

/-- the value written by `update` and by a successful builder step -/
def rawSet (c b : Nat) : Nat :=
  match kindOf b with
  | 0 => (c &&& 511) ||| (indexOf b <<< 9)
  | 1 => (c &&& 32383) ||| (indexOf b <<< 7)
  | 2 => (c &&& 32647) ||| (indexOf b <<< 3)
  | _ => (c &&& 32760) ||| (indexOf b <<< 0)

def checkMask (k : Nat) : Nat :=
  match k with
  | 0 => 32256
  | 1 => 384
  | 2 => 120
  | _ => 7

theorem rawSet_encode {i m r t b : Nat} (h : Tup 6 i m r t) (hb : b < 42) :
    rawSet (encode i m r t) b = enc4 (setAt (kindOf b) (indexOf b) i m r t) := by
  have hl := encode_lt h
  have f := encode_fields h
  have hs := allLt_spec sym_tbl b hb
  simp only [decide_eq_true_eq] at hs
  obtain ⟨h1, h2, h3, h4⟩ := h
  unfold rawSet
  rcases hs with ⟨hk, hi1, hi2, -, -⟩ | ⟨hk, hi1, hi2, -, -⟩ | ⟨hk, hi1, hi2, -, -⟩ | ⟨hk, hi1, hi2, -, -⟩
  · simp only [hk]
    rw [set_initial hl (by omega)]
    simp only [setAt, enc4]
    rw [encode_nz (i := indexOf b) (m := m) (r := r) (t := t) (Or.inl (by omega))]
    generalize encode i m r t = E at *
    omega
  · simp only [hk]
    rw [set_medial hl (by omega)]
    simp only [setAt, enc4]
    rw [encode_nz (i := i) (m := indexOf b) (r := r) (t := t) (Or.inr (Or.inl (by omega)))]
    generalize encode i m r t = E at *
    omega
  · simp only [hk]
    rw [set_rime hl (by omega)]
    simp only [setAt, enc4]
    rw [encode_nz (i := i) (m := m) (r := indexOf b) (t := t) (Or.inr (Or.inr (Or.inl (by omega))))]
    generalize encode i m r t = E at *
    omega
  · simp only [hk]
    rw [set_tone hl (by omega)]
    simp only [setAt, enc4]
    rw [encode_nz (i := i) (m := m) (r := r) (t := indexOf b) (Or.inr (Or.inr (Or.inr (by omega))))]
    generalize encode i m r t = E at *
    omega

theorem update_eq_rawSet (c b : Nat) :
    update c b = if rawSet c b == 0 then none else some (rawSet c b) := by
  obtain ⟨um1, us1, um2, us2, um3, us3, um4, us4⟩ := update_masks_eq
  unfold update rawSet
  simp only [um1, us1, um2, us2, um3, us3, um4, us4]
  generalize kindOf b = k
  match k with
  | 0 => rfl
  | 1 => rfl
  | 2 => rfl
  | (n + 3) => rfl

/-- the value `update` writes on a (possibly `ˉ`-toned) encoded tuple -/
theorem update_encode {i m r t b : Nat} (h : Tup 6 i m r t) (hb : b < 42) :
    update (encode i m r t) b = some (enc4 (setAt (kindOf b) (indexOf b) i m r t)) := by
  rw [update_eq_rawSet, rawSet_encode h hb]
  have : enc4 (setAt (kindOf b) (indexOf b) i m r t) ≠ 0 := by
    unfold enc4; exact Nat.pos_iff_ne_zero.mp encode_pos
  simp [this]

theorem kind_lt {b : Nat} (hb : b < 42) : kindOf b < 4 := by
  have hs := allLt_spec sym_tbl b hb
  simp only [decide_eq_true_eq] at hs
  omega

theorem insert_unfold (bld : Builder) {b : Nat} (hb : b < 42) :
    bld.insert b =
      if bld.value &&& checkMask (kindOf b) != 0 then .error .multiple
      else if bld.step > kindOf b then .error .order
      else .ok { step := kindOf b + 1, value := rawSet bld.value b } := by
  have hs := allLt_spec sym_tbl b hb
  simp only [decide_eq_true_eq] at hs
  unfold Builder.insert rawSet checkMask
  rw [arms_eq]
  rcases hs with ⟨hk, -, -, ht, -⟩ | ⟨hk, -, -, ht, -⟩ | ⟨hk, -, -, ht, -⟩ | ⟨hk, -, -, ht, -⟩ <;>
    simp [hk, ht]

/-- `bld` is the abstract state `(i, m, r, t)` at step `bld.step` -/
structure AbsOk (bld : Builder) (i m r t : Nat) : Prop where
  tup : Tup 6 i m r t
  good : Good i m r t bld.step
  val : bld.value = encode i m r t

theorem absOk_new : AbsOk Builder.new 0 0 0 0 :=
  ⟨by unfold Tup; omega, by unfold Good Builder.new; simp, by decide⟩

theorem insert_abs_ok {bld : Builder} {i m r t b : Nat} (ha : AbsOk bld i m r t) (hb : b < 42)
    (hst : bld.step ≤ kindOf b) :
    ∃ bld', bld.insert b = .ok bld' ∧ bld'.step = kindOf b + 1 ∧
      bld'.value = enc4 (setAt (kindOf b) (indexOf b) i m r t) ∧
      AbsOk bld' (setAt (kindOf b) (indexOf b) i m r t).1 (setAt (kindOf b) (indexOf b) i m r t).2.1
        (setAt (kindOf b) (indexOf b) i m r t).2.2.1 (setAt (kindOf b) (indexOf b) i m r t).2.2.2 := by
  obtain ⟨ht, hg, hv⟩ := ha
  have hc := and_check ht
  have hs := allLt_spec sym_tbl b hb
  simp only [decide_eq_true_eq] at hs
  rw [insert_unfold bld hb, hv]
  obtain ⟨g0, g1, g2, g3⟩ := hg
  obtain ⟨t0, t1, t2, t3⟩ := ht
  have hraw := rawSet_encode (b := b) ⟨t0, t1, t2, t3⟩ hb
  rcases hs with ⟨hk, hi1, hi2, -, -⟩ | ⟨hk, hi1, hi2, -, -⟩ | ⟨hk, hi1, hi2, -, -⟩ | ⟨hk, hi1, hi2, -, -⟩
  all_goals
    rw [hk] at hst hraw ⊢
    simp only [checkMask, hc]
  · have : i = 0 := g0 (by omega)
    subst this
    have : ¬ 0 < bld.step := by omega
    refine ⟨_, by simp [this]; rfl, rfl, hraw, ?_⟩
    exact ⟨by simp only [setAt, Tup]; omega, by simp only [setAt, Good]; omega, hraw⟩
  · have : m = 0 := g1 (by omega)
    subst this
    have : ¬ bld.step > 1 := by omega
    refine ⟨_, by simp [this]; rfl, rfl, hraw, ?_⟩
    exact ⟨by simp only [setAt, Tup]; omega, by simp only [setAt, Good]; omega, hraw⟩
  · have : r = 0 := g2 (by omega)
    subst this
    have : ¬ bld.step > 2 := by omega
    refine ⟨_, by simp [this]; rfl, rfl, hraw, ?_⟩
    exact ⟨by simp only [setAt, Tup]; omega, by simp only [setAt, Good]; omega, hraw⟩
  · have : t = 0 := g3 (by omega)
    subst this
    have : ¬ bld.step > 3 := by omega
    refine ⟨_, by simp [this]; rfl, rfl, hraw, ?_⟩
    exact ⟨by simp only [setAt, Tup]; omega, by simp only [setAt, Good]; omega, hraw⟩

theorem insert_abs_err {bld : Builder} {i m r t b : Nat} (_ha : AbsOk bld i m r t) (hb : b < 42)
    (hst : kindOf b < bld.step) : ∃ e, bld.insert b = .error e := by
  rw [insert_unfold bld hb]
  split
  · exact ⟨_, rfl⟩
  · exact ⟨_, rfl⟩

end Chewing
