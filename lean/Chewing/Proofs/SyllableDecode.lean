import Chewing.Proofs.SyllableParse
import Chewing.Proofs.BitsD
/-!
`Syllable::try_from(u16)` since the repair of F47, in arithmetic form (`tryFrom_arith`), and the exact set of values
it accepts: the codes `encode i m r t` of the tuples with `i ≤ 21, m ≤ 3, r ≤ 13, t ≤ 5` (`tryFrom_iff`; the all-absent
tuple is the empty pattern `0x8000`, `t = 5` is the value stored for the first-tone mark, F18).  Every value the
spelling parser, `update`, the removers and `pop` produce is such a code (`*_valid`): `validCode` is the invariant of
the type `Syllable`.
-/
namespace Chewing
open Gen

theorem tryFrom_consts : tryFromMarker = 32768 ∧ emptyPattern = 32768 ∧
    tryFromBounds = [(32256, 9, 20), (384, 7, 23), (120, 3, 36), (7, 0, 41)] ∧
    indexOf 20 = 21 ∧ indexOf 23 = 3 ∧ indexOf 36 = 13 ∧ indexOf 41 = 5 := by decide

/-- the four decoded fields in arithmetic form -/
theorem field_arith {c : Nat} (hc : c < 65536) :
    field 32256 9 c = c / 512 % 64 ∧ field 384 7 c = c / 128 % 4 ∧ field 120 3 c = c / 8 % 16 ∧ field 7 0 c = c % 8 := by
  unfold field
  rw [and_32256 hc, and_384 hc, and_120 hc, and_7 hc]
  simp only [Nat.shiftRight_eq_div_pow]
  refine ⟨?_, ?_, ?_, ?_⟩ <;> omega

/-- `try_from` in arithmetic form -/
theorem tryFrom_arith {c : Nat} (hc : c < 65536) :
    tryFromU16 c =
      if c = 0 then none
      else if c = 32768 then some c
      else if 32768 ≤ c ∨ 21 < c / 512 % 64 ∨ 3 < c / 128 % 4 ∨ 13 < c / 8 % 16 ∨ 5 < c % 8 then none
      else some c := by
  obtain ⟨e1, e2, e3, i1, i2, i3, i4⟩ := tryFrom_consts
  obtain ⟨f1, f2, f3, f4⟩ := field_arith hc
  unfold tryFromU16
  rw [e1, e2, e3]
  simp only [List.any_cons, List.any_nil, Bool.or_false, i1, i2, i3, i4, f1, f2, f3, f4, and_32768 hc]
  by_cases h0 : c = 0
  · simp [h0]
  by_cases h1 : c = 32768
  · simp [h1]
  have hm : ((c / 32768 * 32768 != 0) = true) ↔ 32768 ≤ c := by
    simp only [bne_iff_ne, ne_eq]
    omega
  simp only [beq_iff_eq, h0, h1, if_false, Nat.reduceBEq, Bool.false_eq_true, Bool.or_eq_true, hm, decide_eq_true_eq,
    gt_iff_lt]

/-- **the accepted values**: exactly the codes of the tuples of `Tup 6` -/
theorem tryFrom_iff {c : Nat} (hc : c < 65536) :
    tryFromU16 c = some c ↔ ∃ i m r t, Tup 6 i m r t ∧ c = encode i m r t := by
  rw [tryFrom_arith hc]
  constructor
  · intro h
    by_cases h0 : c = 0
    · simp [h0] at h
    by_cases h1 : c = 32768
    · exact ⟨0, 0, 0, 0, by unfold Tup; omega, by rw [h1]; decide⟩
    simp only [h0, h1, if_false] at h
    split at h
    · cases h
    · rename_i hb
      refine ⟨c / 512 % 64, c / 128 % 4, c / 8 % 16, c % 8, by unfold Tup; omega, ?_⟩
      unfold encode
      split <;> omega
  · rintro ⟨i, m, r, t, ht, rfl⟩
    have f := encode_fields ht
    have hp := @encode_pos i m r t
    obtain ⟨h1, h2, h3, h4⟩ := ht
    by_cases hz : i = 0 ∧ m = 0 ∧ r = 0 ∧ t = 0
    · obtain ⟨rfl, rfl, rfl, rfl⟩ := hz
      decide
    · have hlt : encode i m r t < 32768 := by unfold encode; rw [if_neg hz]; omega
      have h0 : encode i m r t ≠ 0 := by omega
      have h1' : encode i m r t ≠ 32768 := by omega
      simp only [h0, h1', if_false]
      rw [if_neg (by omega)]

/-- `try_from` never changes the value: it answers `none` or the value itself -/
theorem tryFrom_some {c s : Nat} (h : tryFromU16 c = some s) : s = c := by
  unfold tryFromU16 at h
  repeat' split at h
  all_goals first | cases h; rfl | cases h

theorem validCode_iff {c : Nat} (hc : c < 65536) :
    validCode c = true ↔ ∃ i m r t, Tup 6 i m r t ∧ c = encode i m r t := by
  rw [← tryFrom_iff hc]
  unfold validCode
  constructor
  · intro h
    cases hs : tryFromU16 c with
    | none => rw [hs] at h; cases h
    | some s => rw [tryFrom_some hs]
  · intro h; rw [h]; rfl

theorem validCode_encode {i m r t : Nat} (h : Tup 6 i m r t) : validCode (encode i m r t) = true :=
  (validCode_iff (encode_lt h)).mpr ⟨i, m, r, t, h, rfl⟩

/-- every value the spelling parser / the builder hands out is accepted by `try_from` (also the F18 values) -/
theorem go_tup6 (s : List Nat) : ∀ {bld : Builder} {i m r t : Nat} {v : Nat}, AbsOk bld i m r t →
    parse.go bld s = .ok v → ∃ i' m' r' t', Tup 6 i' m' r' t' ∧ v = encode i' m' r' t' := by
  induction s with
  | nil =>
    intro bld i m r t v ha hgo
    simp [parse.go] at hgo
    exact ⟨i, m, r, t, ha.tup, by rw [← hgo, ha.val]⟩
  | cons c cs ih =>
    intro bld i m r t v ha hgo
    unfold parse.go at hgo
    cases hc : bopoOfChar c with
    | none => simp [hc] at hgo
    | some b =>
      obtain ⟨hb, -⟩ := bopoOfChar_sound hc
      simp only [hc] at hgo
      by_cases hst : bld.step ≤ kindOf b
      · obtain ⟨bld', hins, -, -, ha'⟩ := insert_abs_ok ha hb hst
        simp only [hins] at hgo
        exact ih ha' hgo
      · obtain ⟨e, hins⟩ := insert_abs_err ha hb (by omega)
        simp [hins] at hgo

/-- `update` keeps the invariant: on a valid code it never panics and yields a valid code -/
theorem update_valid {c b : Nat} (hc : c < 65536) (hv : validCode c = true) (hb : b < 42) :
    ∃ v, update c b = some v ∧ v < 65536 ∧ validCode v = true := by
  obtain ⟨i, m, r, t, ht, rfl⟩ := (validCode_iff hc).mp hv
  have hs := allLt_spec sym_tbl b hb
  simp only [decide_eq_true_eq] at hs
  refine ⟨_, update_encode ht hb, ?_⟩
  have ht' : Tup 6 (setAt (kindOf b) (indexOf b) i m r t).1 (setAt (kindOf b) (indexOf b) i m r t).2.1
      (setAt (kindOf b) (indexOf b) i m r t).2.2.1 (setAt (kindOf b) (indexOf b) i m r t).2.2.2 := by
    obtain ⟨t0, t1, t2, t3⟩ := ht
    rcases hs with ⟨hk, hi1, hi2, -, -⟩ | ⟨hk, hi1, hi2, -, -⟩ | ⟨hk, hi1, hi2, -, -⟩ | ⟨hk, hi1, hi2, -, -⟩ <;>
      (rw [hk]; simp only [setAt, Tup]; omega)
  exact ⟨encode_lt ht', validCode_encode ht'⟩

theorem validCode_fields {i m r t : Nat} (h : Tup 6 i m r t) (hne : ¬ (i = 0 ∧ m = 0 ∧ r = 0 ∧ t = 0)) :
    validCode (i * 512 + m * 128 + r * 8 + t) = true := by
  have := validCode_encode h
  unfold encode at this
  rwa [if_neg hne] at this

theorem validCode_empty : validCode 32768 = true := by decide

theorem remove_masks_eq : removeInitialMask = 511 ∧ removeMedialMask = 65151 ∧ removeRimeMask = 65415 ∧
    removeToneMask = 65528 ∧ emptyPattern = 32768 := by decide

/-- the removers (hence `pop`) keep the invariant: on a valid code they yield a valid code -/
theorem removeKind_valid {c : Nat} (k : Nat) (hc : c < 65536) (hv : validCode c = true) :
    removeKind k c < 65536 ∧ validCode (removeKind k c) = true := by
  obtain ⟨e1, e2, e3, e4, e5⟩ := remove_masks_eq
  obtain ⟨i, m, r, t, ht, rfl⟩ := (validCode_iff hc).mp hv
  have f := encode_fields ht
  obtain ⟨t0, t1, t2, t3⟩ := ht
  by_cases hz : i = 0 ∧ m = 0 ∧ r = 0 ∧ t = 0
  · obtain ⟨rfl, rfl, rfl, rfl⟩ := hz
    rcases k with _ | _ | _ | k
    · decide
    · decide
    · decide
    · have : removeKind (k + 1 + 1 + 1) (encode 0 0 0 0) = removeTone (encode 0 0 0 0) := rfl
      rw [this]; decide
  · have hcv : encode i m r t = i * 512 + m * 128 + r * 8 + t := by unfold encode; rw [if_neg hz]
    have key : ∀ v i' m' r' t', Tup 6 i' m' r' t' → v = i' * 512 + m' * 128 + r' * 8 + t' →
        (if (v == 0) = true then 32768 else v) < 65536 ∧ validCode (if (v == 0) = true then 32768 else v) = true := by
      intro v i' m' r' t' ht' hv'
      by_cases h0 : v = 0
      · simp only [h0, beq_self_eq_true, if_true]; exact ⟨by omega, validCode_empty⟩
      · have hb : (v == 0) = false := by simp [h0]
        simp only [hb, Bool.false_eq_true, if_false]
        have hne : ¬ (i' = 0 ∧ m' = 0 ∧ r' = 0 ∧ t' = 0) := by rintro ⟨rfl, rfl, rfl, rfl⟩; omega
        obtain ⟨a, b, c', d⟩ := ht'
        exact ⟨by omega, by rw [hv']; exact validCode_fields ⟨a, b, c', d⟩ hne⟩
    rcases k with _ | _ | _ | k
    · simp only [removeKind, removeInitial, removeWith, e1, e5, and_511 hc]
      exact key _ 0 m r t ⟨by omega, t1, t2, t3⟩ (by omega)
    · simp only [removeKind, removeMedial, removeWith, e2, e5, and_65151 hc]
      exact key _ i 0 r t ⟨t0, by omega, t2, t3⟩ (by omega)
    · simp only [removeKind, removeRime, removeWith, e3, e5, and_65415 hc]
      exact key _ i m 0 t ⟨t0, t1, by omega, t3⟩ (by omega)
    · simp only [removeKind, removeTone, removeWith, e4, e5, and_65528 hc]
      exact key _ i m r 0 ⟨t0, t1, t2, by omega⟩ (by omega)

/-- `pop` keeps the invariant -/
theorem pop_valid {c : Nat} (hc : c < 65536) (hv : validCode c = true) :
    (pop c).2 < 65536 ∧ validCode (pop c).2 = true := by
  unfold pop
  split
  · exact removeKind_valid _ hc hv
  · exact ⟨hc, hv⟩

/-- list plumbing for `C13.recompose` -/
theorem filterMap_id4 {α : Type} (a b c d : Option α) :
    [a, b, c, d].filterMap id = a.toList ++ b.toList ++ c.toList ++ d.toList := by
  cases a <;> cases b <;> cases c <;> cases d <;> rfl

theorem ite_toList {α : Type} (p : Prop) [Decidable p] (x : Option α) :
    (if p then none else x).toList = if p then [] else x.toList := by
  split <;> rfl

end Chewing
