import Chewing.Proofs.SyllableBuilder
/-!
The parser (`FromStr for Syllable`) on all strings: it accepts exactly the strings whose
symbols have strictly increasing kinds, and (without `ˉ`) the spelling of the result is the input.
-/
namespace Chewing
open Gen

/-- every character is a Bopomofo symbol and the kinds are strictly increasing, starting at `st` -/
def KindsOK : Nat → List Nat → Prop
  | _, [] => True
  | st, c :: cs => ∃ b, bopoOfChar c = some b ∧ st ≤ kindOf b ∧ KindsOK (kindOf b + 1) cs

theorem spell_encode {i m r t : Nat} (h : Tup 5 i m r t) :
    spell (encode i m r t) = (tupleSyms i m r t).map charOf := by
  have := allT_spec spell_tbl h.1 h.2.1 h.2.2.1 h.2.2.2
  simpa using this

theorem tup5_to6 {i m r t : Nat} (h : Tup 5 i m r t) : Tup 6 i m r t := by
  unfold Tup at *; omega

theorem tupleSyms_set {i m r t st b : Nat} (ht : Tup 5 i m r t) (hg : Good i m r t st) (hb : b < 41)
    (hst : st ≤ kindOf b) :
    tupleSyms (setAt (kindOf b) (indexOf b) i m r t).1 (setAt (kindOf b) (indexOf b) i m r t).2.1
      (setAt (kindOf b) (indexOf b) i m r t).2.2.1 (setAt (kindOf b) (indexOf b) i m r t).2.2.2
      = tupleSyms i m r t ++ [b] ∧
    Tup 5 (setAt (kindOf b) (indexOf b) i m r t).1 (setAt (kindOf b) (indexOf b) i m r t).2.1
      (setAt (kindOf b) (indexOf b) i m r t).2.2.1 (setAt (kindOf b) (indexOf b) i m r t).2.2.2 := by
  have hs := allLt_spec sym_tbl b (by omega)
  simp only [decide_eq_true_eq] at hs
  obtain ⟨g0, g1, g2, g3⟩ := hg
  obtain ⟨t0, t1, t2, t3⟩ := ht
  rcases hs with ⟨hk, hi1, hi2, -, hm⟩ | ⟨hk, hi1, hi2, -, hm⟩ | ⟨hk, hi1, hi2, -, hm⟩ | ⟨hk, hi1, hi2, -, hm⟩
  · rw [hk] at hst ⊢
    have e0 : i = 0 := g0 (by omega)
    have e1 : m = 0 := g1 (by omega)
    have e2 : r = 0 := g2 (by omega)
    have e3 : t = 0 := g3 (by omega)
    subst e0 e1 e2 e3
    have : indexOf b ≠ 0 := by omega
    refine ⟨by simp [tupleSyms, setAt, this, hm], by simp only [setAt, Tup]; omega⟩
  · rw [hk] at hst ⊢
    have e1 : m = 0 := g1 (by omega)
    have e2 : r = 0 := g2 (by omega)
    have e3 : t = 0 := g3 (by omega)
    subst e1 e2 e3
    have : indexOf b ≠ 0 := by omega
    refine ⟨by simp [tupleSyms, setAt, this, hm], by simp only [setAt, Tup]; omega⟩
  · rw [hk] at hst ⊢
    have e2 : r = 0 := g2 (by omega)
    have e3 : t = 0 := g3 (by omega)
    subst e2 e3
    have : indexOf b ≠ 0 := by omega
    refine ⟨by simp [tupleSyms, setAt, this, hm], by simp only [setAt, Tup]; omega⟩
  · rw [hk] at hst ⊢
    have e3 : t = 0 := g3 (by omega)
    subst e3
    have : indexOf b ≠ 0 := by omega
    have hm' := hm (by omega)
    refine ⟨by simp [tupleSyms, setAt, this, hm'.2], by simp only [setAt, Tup]; omega⟩

theorem go_iff (s : List Nat) : ∀ {bld : Builder} {i m r t : Nat}, AbsOk bld i m r t →
    ((∃ v, parse.go bld s = .ok v) ↔ KindsOK bld.step s) := by
  induction s with
  | nil => intro bld i m r t _; simp [parse.go, KindsOK]
  | cons c cs ih =>
    intro bld i m r t ha
    unfold parse.go KindsOK
    cases hc : bopoOfChar c with
    | none => simp
    | some b =>
      have hb := (bopoOfChar_sound hc).1
      by_cases hst : bld.step ≤ kindOf b
      · obtain ⟨bld', hins, hstep, -, ha'⟩ := insert_abs_ok ha hb hst
        simp only [hins]
        rw [ih ha', hstep]
        constructor
        · intro h; exact ⟨b, rfl, hst, h⟩
        · rintro ⟨b', hb', -, h⟩
          cases hb'; exact h
      · obtain ⟨e, hins⟩ := insert_abs_err ha hb (by omega)
        simp only [hins]
        constructor
        · rintro ⟨v, hv⟩; cases hv
        · rintro ⟨b', hb', hst', -⟩
          cases hb'; omega

theorem go_spell (s : List Nat) : ∀ {bld : Builder} {i m r t : Nat} {v : Nat}, AbsOk bld i m r t →
    Tup 5 i m r t → parse.go bld s = .ok v → (∀ c ∈ s, c ≠ 713) →
    ∃ i' m' r' t', Tup 5 i' m' r' t' ∧ v = encode i' m' r' t' ∧ spell v = spell bld.value ++ s := by
  induction s with
  | nil =>
    intro bld i m r t v ha h5 hgo _
    simp [parse.go] at hgo
    exact ⟨i, m, r, t, h5, by rw [← hgo, ha.val], by simp [hgo]⟩
  | cons c cs ih =>
    intro bld i m r t v ha h5 hgo hno
    unfold parse.go at hgo
    cases hc : bopoOfChar c with
    | none => simp [hc] at hgo
    | some b =>
      obtain ⟨hb, hch⟩ := bopoOfChar_sound hc
      have hb41 : b < 41 := by
        have : b ≠ 41 := by
          intro e; subst e
          exact hno c (by simp) (by rw [← hch]; exact chars_tbl.2.2.1)
        omega
      simp only [hc] at hgo
      by_cases hst : bld.step ≤ kindOf b
      · obtain ⟨bld', hins, -, hval, ha'⟩ := insert_abs_ok ha hb hst
        simp only [hins] at hgo
        obtain ⟨hsyms, h5'⟩ := tupleSyms_set h5 ha.good hb41 hst
        obtain ⟨i', m', r', t', ht', hv, hsp⟩ := ih ha' h5' hgo (fun c' hc' => hno c' (by simp [hc']))
        refine ⟨i', m', r', t', ht', hv, ?_⟩
        rw [hsp, hval, ha.val]
        unfold enc4
        rw [spell_encode h5', spell_encode h5, hsyms]
        simp [hch]
      · obtain ⟨e, hins⟩ := insert_abs_err ha hb (by omega)
        simp [hins] at hgo

end Chewing
