import Chewing.Proofs.Syllable
/-! The prefix relation `starts_with` on composable syllables. -/
namespace Chewing
open Gen

/-- index (0 initial … 3 tone) of the last component present -/
def lastPresent (c : Nat) : Nat :=
  if (tone c).isSome then 3 else if (rime c).isSome then 2 else if (medial c).isSome then 1 else 0

theorem comp_encode {i m r t k : Nat} (h : Tup 5 i m r t) (hk : k < 4) :
    comp k (encode i m r t) = tupleComp k i m r t := by
  have := allLt_spec (allT_spec comp_tbl h.1 h.2.1 h.2.2.1 h.2.2.2) k hk
  simpa using this

theorem tupleComp_eq {i m r t : Nat} (h : Tup 5 i m r t) :
    tupleComp 0 i m r t = (if i = 0 then none else some (i - 1)) ∧
    tupleComp 1 i m r t = (if m = 0 then none else some (20 + m)) ∧
    tupleComp 2 i m r t = (if r = 0 then none else some (23 + r)) ∧
    tupleComp 3 i m r t = (if t = 0 then none else some (36 + t)) := by
  obtain ⟨h0, h1, h2, h3⟩ := h
  obtain ⟨m0, m1, m2, m3, -⟩ := maps_tbl
  refine ⟨?_, ?_, ?_, ?_⟩
  · simp only [tupleComp]
    by_cases hz : i = 0
    · simp [hz]
    · have := allLt_spec m0 (i - 1) (by omega); simp at this; simp [hz, this]
  · simp only [tupleComp]
    by_cases hz : m = 0
    · simp [hz]
    · have := allLt_spec m1 (m - 1) (by omega); simp at this; simp [hz, this]; omega
  · simp only [tupleComp]
    by_cases hz : r = 0
    · simp [hz]
    · have := allLt_spec m2 (r - 1) (by omega); simp at this; simp [hz, this]; omega
  · simp only [tupleComp]
    by_cases hz : t = 0
    · simp [hz]
    · have := allLt_spec m3 (t - 1) (by omega); simp at this; simp [hz, this]; omega

theorem comp_eq_iff {i m r t i' m' r' t' : Nat} (h : Tup 5 i m r t) (h' : Tup 5 i' m' r' t') :
    (comp 0 (encode i m r t) = comp 0 (encode i' m' r' t') ↔ i = i') ∧
    (comp 1 (encode i m r t) = comp 1 (encode i' m' r' t') ↔ m = m') ∧
    (comp 2 (encode i m r t) = comp 2 (encode i' m' r' t') ↔ r = r') ∧
    (comp 3 (encode i m r t) = comp 3 (encode i' m' r' t') ↔ t = t') := by
  obtain ⟨a0, a1, a2, a3⟩ := tupleComp_eq h
  obtain ⟨b0, b1, b2, b3⟩ := tupleComp_eq h'
  rw [comp_encode h (by omega), comp_encode h (by omega), comp_encode h (by omega), comp_encode h (by omega),
    comp_encode h' (by omega), comp_encode h' (by omega), comp_encode h' (by omega), comp_encode h' (by omega),
    a0, a1, a2, a3, b0, b1, b2, b3]
  refine ⟨?_, ?_, ?_, ?_⟩ <;> (split <;> split <;> simp <;> omega)

theorem lastPresent_encode {i m r t : Nat} (h : Tup 5 i m r t) :
    lastPresent (encode i m r t) = if t ≠ 0 then 3 else if r ≠ 0 then 2 else if m ≠ 0 then 1 else 0 := by
  obtain ⟨a0, a1, a2, a3⟩ := tupleComp_eq h
  have c1 := comp_encode h (k := 1) (by omega)
  have c2 := comp_encode h (k := 2) (by omega)
  have c3 := comp_encode h (k := 3) (by omega)
  simp only [comp] at c1 c2 c3
  unfold lastPresent
  rw [c1, c2, c3, a1, a2, a3]
  by_cases ht : t = 0 <;> by_cases hr : r = 0 <;> by_cases hm : m = 0 <;> simp [ht, hr, hm]

theorem shift_encode {i m r t : Nat} (h : Tup 5 i m r t) (hne : ¬ (i = 0 ∧ m = 0 ∧ r = 0 ∧ t = 0)) :
    startsWithShift (encode i m r t) = shiftSpec m r t := by
  have := allT_spec shift_tbl h.1 h.2.1 h.2.2.1 h.2.2.2
  simp only [decide_eq_true_eq] at this
  rcases this with h0 | h1
  · exact absurd h0 hne
  · exact h1

/-- C13, prefix relation: `s` starts with the non-empty `p` iff they agree on every component up to
    and including the last one present in `p`. -/
theorem startsWith_encode {i m r t i' m' r' t' : Nat} (hs : Tup 5 i m r t) (hp : Tup 5 i' m' r' t')
    (hne : ¬ (i' = 0 ∧ m' = 0 ∧ r' = 0 ∧ t' = 0)) :
    startsWith (encode i m r t) (encode i' m' r' t') = true ↔
      ∀ k, k ≤ lastPresent (encode i' m' r' t') →
        comp k (encode i m r t) = comp k (encode i' m' r' t') := by
  obtain ⟨e0, e1, e2, e3⟩ := comp_eq_iff hs hp
  have hall : ∀ n, n ≤ 3 → ((∀ k, k ≤ n → comp k (encode i m r t) = comp k (encode i' m' r' t')) ↔
      (i = i' ∧ (1 ≤ n → m = m') ∧ (2 ≤ n → r = r') ∧ (3 ≤ n → t = t'))) := by
    intro n hn
    constructor
    · intro h
      exact ⟨e0.mp (h 0 (by omega)), fun h1 => e1.mp (h 1 h1), fun h2 => e2.mp (h 2 h2), fun h3 => e3.mp (h 3 h3)⟩
    · rintro ⟨h0, h1, h2, h3⟩ k hk
      match k, hk with
      | 0, _ => exact e0.mpr h0
      | 1, hk => exact e1.mpr (h1 hk)
      | 2, hk => exact e2.mpr (h2 hk)
      | 3, hk => exact e3.mpr (h3 hk)
      | (k + 4), hk => omega
  rw [lastPresent_encode hp]
  unfold startsWith
  rw [shift_encode hp hne]
  simp only [beq_iff_eq, Nat.shiftRight_eq_div_pow]
  obtain ⟨s0, s1, s2, s3⟩ := hs
  obtain ⟨p0, p1, p2, p3⟩ := hp
  by_cases ht : t' = 0
  · by_cases hr : r' = 0
    · by_cases hm : m' = 0
      · have hK : shiftSpec m' r' t' = 9 := by simp [shiftSpec, ht, hr, hm]
        have hN : (if t' ≠ 0 then 3 else if r' ≠ 0 then 2 else if m' ≠ 0 then 1 else 0) = 0 := by
          simp [ht, hr, hm]
        rw [hK, hN, hall 0 (by omega)]
        unfold encode; simp; (repeat' split) <;> omega
      · have hK : shiftSpec m' r' t' = 7 := by simp [shiftSpec, ht, hr, hm]
        have hN : (if t' ≠ 0 then 3 else if r' ≠ 0 then 2 else if m' ≠ 0 then 1 else 0) = 1 := by
          simp [ht, hr, hm]
        rw [hK, hN, hall 1 (by omega)]
        unfold encode; simp; (repeat' split) <;> omega
    · have hK : shiftSpec m' r' t' = 3 := by simp [shiftSpec, ht, hr]
      have hN : (if t' ≠ 0 then 3 else if r' ≠ 0 then 2 else if m' ≠ 0 then 1 else 0) = 2 := by
        simp [ht, hr]
      rw [hK, hN, hall 2 (by omega)]
      unfold encode; simp; (repeat' split) <;> omega
  · have hK : shiftSpec m' r' t' = 0 := by simp [shiftSpec, ht]
    have hN : (if t' ≠ 0 then 3 else if r' ≠ 0 then 2 else if m' ≠ 0 then 1 else 0) = 3 := by
      simp [ht]
    rw [hK, hN, hall 3 (by omega)]
    unfold encode; simp; (repeat' split) <;> omega

end Chewing
