import Chewing.Proofs.SyllableTablesA
import Chewing.Proofs.SyllableTablesB
import Chewing.Proofs.SyllableTablesC
import Chewing.Proofs.SyllableTablesD
import Chewing.Proofs.SyllableTablesE
