import Chewing.Model.Syllable
import Chewing.Proofs.Enum
/-! Enumeration of the 22×4×14×nt component tuples. -/
namespace Chewing
open Gen

/-- all tuples `(i, m, r, t)` with `i < 22, m < 4, r < 14, t < nt` -/
def allT (nt : Nat) (p : Nat → Nat → Nat → Nat → Bool) : Bool :=
  allLt 22 fun i => allLt 4 fun m => allLt 14 fun r => allLt nt fun t => p i m r t

theorem allT_spec {nt : Nat} {p : Nat → Nat → Nat → Nat → Bool} (h : allT nt p = true)
    {i m r t : Nat} (hi : i < 22) (hm : m < 4) (hr : r < 14) (ht : t < nt) : p i m r t = true :=
  allLt_spec (allLt_spec (allLt_spec (allLt_spec h i hi) m hm) r hr) t ht

end Chewing
