import Chewing.Proofs.SyllableTables0
/-! Table facts over all composable tuples (kernel evaluation against the generated tables). -/
namespace Chewing
open Gen

theorem compose_tbl : allT 5 (fun i m r t => decide (compose i m r t = .ok (encode i m r t))) = true := by
  decide +kernel

/-- index tables are the identity embedding of each kind into the discriminants -/
theorem maps_tbl :
    (allLt 21 fun i => decide (initialMap[i]? = some i)) = true ∧
    (allLt 3 fun i => decide (medialMap[i]? = some (21 + i))) = true ∧
    (allLt 13 fun i => decide (rimeMap[i]? = some (24 + i))) = true ∧
    (allLt 4 fun i => decide (toneMap[i]? = some (37 + i))) = true ∧
    initialMap.length = 21 ∧ medialMap.length = 3 ∧ rimeMap.length = 13 ∧ toneMap.length = 4 := by
  decide +kernel

end Chewing
