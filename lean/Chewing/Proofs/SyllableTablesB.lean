import Chewing.Proofs.SyllableTables0
/-! Table facts over all composable tuples (kernel evaluation against the generated tables). -/
namespace Chewing
open Gen

theorem comp_tbl : allT 5 (fun i m r t => allLt 4 fun k =>
    decide (comp k (encode i m r t) = tupleComp k i m r t)) = true := by
  decide +kernel

end Chewing
