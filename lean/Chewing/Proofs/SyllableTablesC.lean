import Chewing.Proofs.SyllableTables0
/-! Table facts over all composable tuples (kernel evaluation against the generated tables). -/
namespace Chewing
open Gen

theorem spell_tbl : allT 5 (fun i m r t =>
    decide (spell (encode i m r t) = (tupleSyms i m r t).map charOf)) = true := by
  decide +kernel

/-- `starts_with` shift selected by a non-empty composable prefix -/
def shiftSpec (m r t : Nat) : Nat :=
  if m = 0 ∧ r = 0 ∧ t = 0 then 9 else if r = 0 ∧ t = 0 then 7 else if t = 0 then 3 else 0

theorem shift_tbl : allT 5 (fun i m r t =>
    decide (i = 0 ∧ m = 0 ∧ r = 0 ∧ t = 0 ∨ startsWithShift (encode i m r t) = shiftSpec m r t)) = true := by
  decide +kernel

end Chewing
