import Chewing.Proofs.SyllableTables0
/-! Table facts over all composable tuples (kernel evaluation against the generated tables). -/
namespace Chewing
open Gen

theorem parse_spell_tbl : allT 5 (fun i m r t =>
    decide (parse (spell (encode i m r t)) = .ok (encode i m r t))) = true := by
  decide +kernel


end Chewing
