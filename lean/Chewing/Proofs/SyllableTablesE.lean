import Chewing.Proofs.SyllableTables0
/-! Table facts over all composable tuples (kernel evaluation against the generated tables). -/
namespace Chewing
open Gen

/-- removing component `k` zeroes exactly that component -/
def zeroAt (k i m r t : Nat) : Nat × Nat × Nat × Nat :=
  match k with
  | 0 => (0, m, r, t)
  | 1 => (i, 0, r, t)
  | 2 => (i, m, 0, t)
  | _ => (i, m, r, 0)

def enc4 (x : Nat × Nat × Nat × Nat) : Nat := encode x.1 x.2.1 x.2.2.1 x.2.2.2

theorem remove_tbl : allT 5 (fun i m r t => allLt 4 fun k =>
    decide (removeKind k (encode i m r t) = enc4 (zeroAt k i m r t))) = true := by
  decide +kernel

end Chewing
