import Chewing.Model.Syllable
/-!
The one fact about `validCode` (the values `Syllable::try_from` accepts, `Model/Syllable.lean`) that the models of
the dictionary readers need: a valid code is not zero.  The exact characterisation is `Chewing.C13.decode_total_iff`.
-/
namespace Chewing

theorem validCode_ne_zero {s : Nat} (h : validCode s = true) : s ≠ 0 := by
  intro e
  subst e
  revert h
  decide

theorem validCode_zero : validCode 0 = false := by decide

theorem not_validCode_of_zero {s : Nat} (h : s = 0) : validCode s = false := by subst h; decide

end Chewing
