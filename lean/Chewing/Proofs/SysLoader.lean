import Chewing.Model.SysLoader
import Chewing.Proofs.Returns
import Chewing.Proofs.Loader
/-!
Lemmas about `Model/SysLoader.lean` (context creation, system-side loaders): splitting, sorting, the search functions,
the parsers, and the congruence ("locality") lemmas — every function reads the file system only at the paths it builds
from its own search path.
-/
namespace Chewing.SysLoader
open Chewing.Gen.SysLoader

/-! ### `splitSep` -/

theorem splitSep_ne_nil (sep : Char) : ∀ s, splitSep sep s ≠ []
  | [] => by simp [splitSep]
  | c :: cs => by
    unfold splitSep
    split
    · simp
    · split <;> simp

/-- `join` of the pieces with the separator -/
def joinSep (sep : Char) : List (List Char) → List Char
  | [] => []
  | [x] => x
  | x :: y :: r => x ++ sep :: joinSep sep (y :: r)

theorem joinSep_cons_cons (sep : Char) (c : Char) (h : List Char) (t : List (List Char)) :
    joinSep sep ((c :: h) :: t) = c :: joinSep sep (h :: t) := by
  cases t <;> simp [joinSep]

/-- splitting loses nothing: joining the pieces with the separator gives the string back -/
theorem joinSep_splitSep (sep : Char) : ∀ s, joinSep sep (splitSep sep s) = s
  | [] => by simp [splitSep, joinSep]
  | c :: cs => by
    have ih := joinSep_splitSep sep cs
    unfold splitSep
    split
    · next h =>
      have hne := splitSep_ne_nil sep cs
      cases hs : splitSep sep cs with
      | nil => exact absurd hs hne
      | cons a r => rw [hs] at ih; simp [joinSep, ih, h]
    · next h =>
      have hne := splitSep_ne_nil sep cs
      cases hs : splitSep sep cs with
      | nil => exact absurd hs hne
      | cons a r =>
        rw [hs] at ih
        simp only
        rw [joinSep_cons_cons, ih]

/-- one piece more than separators: EMPTY pieces are kept -/
theorem splitSep_length (sep : Char) : ∀ s, (splitSep sep s).length = s.count sep + 1
  | [] => by simp [splitSep]
  | c :: cs => by
    have ih := splitSep_length sep cs
    have hne := splitSep_ne_nil sep cs
    unfold splitSep
    split
    · next h => subst h; simp [ih]
    · next h =>
      cases hs : splitSep sep cs with
      | nil => exact absurd hs hne
      | cons a r =>
        rw [hs] at ih
        have : (c == sep) = false := by simpa using h
        simp [List.count_cons, this, ← ih]

/-- no piece contains the separator -/
theorem splitSep_no_sep (sep : Char) : ∀ s, ∀ p ∈ splitSep sep s, sep ∉ p
  | [] => by simp [splitSep]
  | c :: cs => by
    have ih := splitSep_no_sep sep cs
    have hne := splitSep_ne_nil sep cs
    unfold splitSep
    split
    · next h =>
      intro p hp
      rcases List.mem_cons.1 hp with rfl | hp
      · simp
      · exact ih p hp
    · next h =>
      cases hs : splitSep sep cs with
      | nil => exact absurd hs hne
      | cons a r =>
        rw [hs] at ih
        intro p hp
        rcases List.mem_cons.1 hp with rfl | hp
        · intro hm
          rcases List.mem_cons.1 hm with rfl | hm
          · exact h rfl
          · exact ih a (by simp) hm
        · exact ih p (by simp [hp])

/-! ### sorting -/

theorem nameLe_total : ∀ a b, nameLe a b = false → nameLe b a = true
  | [], _, h => by simp [nameLe] at h
  | _ :: _, [], _ => by simp [nameLe]
  | a :: as, b :: bs, h => by
    have ih := nameLe_total as bs
    simp only [nameLe, Bool.or_eq_false_iff, decide_eq_false_iff_not, Bool.and_eq_false_iff] at h
    simp only [nameLe, Bool.or_eq_true, decide_eq_true_eq, Bool.and_eq_true, beq_iff_eq]
    rcases h with ⟨h1, h2⟩
    by_cases he : a.toNat = b.toNat
    · right
      refine ⟨he.symm, ih ?_⟩
      rcases h2 with h2 | h2
      · simp [he] at h2
      · exact h2
    · left; omega

theorem nameLe_refl : ∀ a, nameLe a a = true
  | [] => rfl
  | a :: as => by simp [nameLe, nameLe_refl as]

theorem nameLe_trans : ∀ a b c, nameLe a b = true → nameLe b c = true → nameLe a c = true
  | [], _, _, _, _ => by simp [nameLe]
  | _ :: _, [], _, h, _ => by simp [nameLe] at h
  | _ :: _, _ :: _, [], _, h => by simp [nameLe] at h
  | a :: as, b :: bs, c :: cs, h1, h2 => by
    have ih := nameLe_trans as bs cs
    simp only [nameLe, Bool.or_eq_true, decide_eq_true_eq, Bool.and_eq_true, beq_iff_eq] at h1 h2 ⊢
    rcases h1 with h1 | ⟨h1, h1'⟩ <;> rcases h2 with h2 | ⟨h2, h2'⟩
    · left; omega
    · left; omega
    · left; omega
    · right; exact ⟨by omega, ih h1' h2'⟩

/-- sorted: every name is `≤` every later one -/
def Sorted (l : List Path) : Prop := l.Pairwise (fun a b => nameLe a b = true)

theorem insertSorted_perm (x : Path) : ∀ l, (insertSorted x l).Perm (x :: l)
  | [] => by simp [insertSorted]
  | y :: ys => by
    unfold insertSorted
    split
    · exact List.Perm.refl _
    · exact ((insertSorted_perm x ys).cons y).trans (List.Perm.swap x y ys)

theorem sortNames_perm : ∀ l, (sortNames l).Perm l
  | [] => by simp [sortNames]
  | x :: xs => by
    unfold sortNames
    exact (insertSorted_perm x _).trans ((sortNames_perm xs).cons x)

theorem insertSorted_sorted (x : Path) : ∀ l, Sorted l → Sorted (insertSorted x l)
  | [], _ => by simp [insertSorted, Sorted]
  | y :: ys, h => by
    unfold insertSorted
    have hy : ∀ z ∈ ys, nameLe y z = true := (List.pairwise_cons.1 h).1
    have hs : Sorted ys := (List.pairwise_cons.1 h).2
    split
    · next hxy =>
      refine List.pairwise_cons.2 ⟨?_, h⟩
      intro z hz
      rcases List.mem_cons.1 hz with rfl | hz
      · exact hxy
      · exact nameLe_trans _ _ _ hxy (hy z hz)
    · next hxy =>
      have hyx : nameLe y x = true := nameLe_total x y (by simpa using hxy)
      refine List.pairwise_cons.2 ⟨?_, insertSorted_sorted x ys hs⟩
      intro z hz
      have := (insertSorted_perm x ys).mem_iff.1 hz
      rcases List.mem_cons.1 this with rfl | hz
      · exact hyx
      · exact hy z hz

theorem sortNames_sorted : ∀ l, Sorted (sortNames l)
  | [] => by simp [sortNames, Sorted]
  | x :: xs => by
    unfold sortNames
    exact insertSorted_sorted x _ (sortNames_sorted xs)

theorem mem_sortNames {l : List Path} {x : Path} : x ∈ sortNames l ↔ x ∈ l := (sortNames_perm l).mem_iff

theorem charToNat_inj (a b : Char) (h : a.toNat = b.toNat) : a = b := by
  apply Char.ext
  apply UInt32.toNat_inj.1
  exact h

theorem nameLe_antisymm : ∀ a b, nameLe a b = true → nameLe b a = true → a = b
  | [], [], _, _ => rfl
  | [], _ :: _, _, h => by simp [nameLe] at h
  | _ :: _, [], h, _ => by simp [nameLe] at h
  | a :: as, b :: bs, h1, h2 => by
    simp only [nameLe, Bool.or_eq_true, decide_eq_true_eq, Bool.and_eq_true, beq_iff_eq] at h1 h2
    have he : a.toNat = b.toNat := by omega
    have hab : a = b := charToNat_inj a b he
    subst hab
    have h1' : nameLe as bs = true := by rcases h1 with h | ⟨_, h⟩; · omega
                                         · exact h
    have h2' : nameLe bs as = true := by rcases h2 with h | ⟨_, h⟩; · omega
                                         · exact h
    rw [nameLe_antisymm as bs h1' h2']

/-- a sorted list is determined by its elements: EVERY sorting algorithm gives `sortNames` -/
theorem sorted_perm_eq : ∀ {l1 l2 : List Path}, Sorted l1 → Sorted l2 → l1.Perm l2 → l1 = l2
  | [], l2, _, _, h => by simpa using h.symm.eq_nil
  | a :: t, [], _, _, h => by simpa using h.eq_nil
  | a :: t, b :: u, h1, h2, h => by
    have ha := List.pairwise_cons.1 h1
    have hb := List.pairwise_cons.1 h2
    have hab : a = b := by
      have hbm : b ∈ a :: t := h.mem_iff.2 (by simp)
      have ham : a ∈ b :: u := h.mem_iff.1 (by simp)
      have h_ab : nameLe a b = true := by
        rcases List.mem_cons.1 hbm with e | e
        · rw [e]; exact nameLe_refl _
        · exact ha.1 b e
      have h_ba : nameLe b a = true := by
        rcases List.mem_cons.1 ham with e | e
        · rw [e]; exact nameLe_refl _
        · exact hb.1 a e
      exact nameLe_antisymm a b h_ab h_ba
    subst hab
    rw [sorted_perm_eq ha.2 hb.2 (List.Perm.cons_inv h)]

/-! ### `find_path_by_files` -/

theorem findPathByFiles_some {fs : FS} {sp : Path} {files : List Path} {d : Path}
    (h : findPathByFiles fs sp files = some d) :
    ∃ before after, segments sp = before ++ d :: after ∧
      (∀ f ∈ files, (fs (joinPath d f)).present = true) ∧
      ∀ seg ∈ before, ∃ f ∈ files, (fs (joinPath seg f)).present = false := by
  unfold findPathByFiles at h
  rcases List.find?_eq_some_iff_append.1 h with ⟨hp, before, after, hs, hb⟩
  refine ⟨before, after, hs, ?_, ?_⟩
  · simpa [List.all_eq_true] using hp
  · intro seg hseg
    have := hb seg hseg
    simpa [List.all_eq_true] using this

theorem findPathByFiles_none {fs : FS} {sp : Path} {files : List Path} :
    findPathByFiles fs sp files = none ↔ ∀ seg ∈ segments sp, ∃ f ∈ files, (fs (joinPath seg f)).present = false := by
  unfold findPathByFiles
  simp [List.find?_eq_none, List.all_eq_true]

theorem findPathByFiles_mem {fs : FS} {sp : Path} {files : List Path} {d : Path}
    (h : findPathByFiles fs sp files = some d) : d ∈ segments sp := by
  unfold findPathByFiles at h
  exact List.mem_of_find?_eq_some h

/-! ### locality: the functions read the file system only where they say -/

theorem find?_congr' {α : Type} {p q : α → Bool} : ∀ {l : List α}, (∀ x ∈ l, p x = q x) → l.find? p = l.find? q
  | [], _ => rfl
  | x :: xs, h => by
    simp only [List.find?_cons, h x (by simp)]
    rw [find?_congr' (l := xs) (fun y hy => h y (by simp [hy]))]

theorem findPathByFiles_congr {fs fs' : FS} {sp : Path} {files : List Path}
    (h : ∀ seg ∈ segments sp, ∀ f ∈ files, fs (joinPath seg f) = fs' (joinPath seg f)) :
    findPathByFiles fs sp files = findPathByFiles fs' sp files := by
  unfold findPathByFiles
  apply find?_congr'
  intro seg hseg
  rw [Bool.eq_iff_iff]
  simp only [List.all_eq_true]
  constructor
  · intro hh f hf; rw [← h seg hseg f hf]; exact hh f hf
  · intro hh f hf; rw [h seg hseg f hf]; exact hh f hf

theorem dropInNames_congr {fs fs' : FS} {seg : Path}
    (h1 : fs (joinPath seg dictFolder) = fs' (joinPath seg dictFolder))
    (h2 : ∀ n, fs (joinPath (joinPath seg dictFolder) n) = fs' (joinPath (joinPath seg dictFolder) n)) :
    dropInNames fs seg = dropInNames fs' seg := by
  unfold dropInNames
  rw [h1]
  cases fs' (joinPath seg dictFolder) with
  | dir names =>
    simp only
    congr 1
    apply List.filter_congr
    intro n _
    rw [h2 n]
  | absent => rfl
  | file _ _ => rfl

theorem openFile_congr {D : Type} (op : List Nat → Option D) {fs fs' : FS} {p : Path} (h : fs p = fs' p) :
    openFile op fs p = openFile op fs' p := by
  unfold openFile; rw [h]

theorem flatMap_congr' {α β : Type} {f g : α → List β} : ∀ {l : List α}, (∀ x ∈ l, f x = g x) → l.flatMap f = l.flatMap g
  | [], _ => rfl
  | x :: xs, h => by
    simp only [List.flatMap_cons, h x (by simp)]
    rw [flatMap_congr' (l := xs) (fun y hy => h y (by simp [hy]))]

theorem filterMap_congr' {α β : Type} {f g : α → Option β} :
    ∀ {l : List α}, (∀ x ∈ l, f x = g x) → l.filterMap f = l.filterMap g
  | [], _ => rfl
  | x :: xs, h => by
    simp only [List.filterMap_cons, h x (by simp)]
    rw [filterMap_congr' (l := xs) (fun y hy => h y (by simp [hy]))]

theorem joinPath_head? {p f : Path} (h : p ≠ []) : (joinPath p f).head? = p.head? := by
  unfold joinPath
  cases p with
  | nil => exact absurd rfl h
  | cons c cs => simp only [reduceCtorEq, if_false]; split <;> rfl

theorem mem_dropInsOf {fs : FS} {seg p : Path} (h : p ∈ dropInsOf fs seg) :
    ∃ n, p = joinPath (joinPath seg dictFolder) n := by
  unfold dropInsOf at h
  rcases List.mem_map.1 h with ⟨n, _, rfl⟩
  exact ⟨n, rfl⟩

end Chewing.SysLoader
