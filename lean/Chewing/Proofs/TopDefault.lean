import Chewing.Model.Learn
/-!
Default conversion of a range that has a phrase of its own (C08 `top_is_default`): `find_best_phrase` picks the
strictly most frequent phrase, and once the single interval over the whole range is the first k-path,
`trim_paths` discards every other path (the single interval *contains* each of them), so no competing
segmentation is ever scored against it.
-/
namespace Chewing.Learn

theorem bestPhraseGo_top (x : Text × Nat) (es : List (Text × Nat)) :
    ∀ (best : Option (Text × Nat)),
      (∀ b, best = some b → b = x ∨ b.2 < x.2) →
      (x ∈ es ∨ best = some x) →
      (∀ q ∈ es, q = x ∨ q.2 < x.2) →
      bestPhraseGo es best = some x := by
  induction es with
  | nil =>
    intro best _ hx _
    rcases hx with hx | hx
    · cases hx
    · cases best <;> simp_all [bestPhraseGo]
  | cons p rest ih =>
    intro best hb hx hall
    have hp : p = x ∨ p.2 < x.2 := hall p (List.mem_cons_self ..)
    have hrest : ∀ q ∈ rest, q = x ∨ q.2 < x.2 := fun q hq => hall q (List.mem_cons_of_mem _ hq)
    have take_p : (x ∈ rest ∨ p = x) → bestPhraseGo rest (some p) = some x := fun h =>
      ih (some p) (fun b hb2 => by injection hb2 with hb2; subst hb2; exact hp)
        (h.imp id (fun e => by rw [e])) hrest
    have of_mem : x ∈ p :: rest → (x ∈ rest ∨ p = x) := fun h => by
      rcases List.mem_cons.mp h with e | h
      · exact Or.inr e.symm
      · exact Or.inl h
    cases best with
    | none =>
      simp only [bestPhraseGo]
      rcases hx with hx | hx
      · exact take_p (of_mem hx)
      · cases hx
    | some b =>
      simp only [bestPhraseGo]
      split
      · rename_i hgt
        rcases hx with hx | hx
        · exact take_p (of_mem hx)
        · injection hx with hx
          subst hx
          rcases hp with e | hlt
          · exact take_p (Or.inr e)
          · exfalso; omega
      · rename_i hle
        apply ih (some b) hb _ hrest
        rcases hx with hx | hx
        · rcases List.mem_cons.mp hx with e | hx
          · rcases hb b rfl with e2 | hlt
            · exact Or.inr (by rw [e2])
            · exfalso; rw [e] at hlt; omega
          · exact Or.inl hx
        · exact Or.inr hx

/-- `find_best_phrase` (no selections): a phrase strictly more frequent than every other one is chosen -/
theorem bestPhrase_top (x : Text × Nat) (es : List (Text × Nat)) (hx : x ∈ es)
    (hall : ∀ q ∈ es, q = x ∨ q.2 < x.2) : bestPhrase es = some x :=
  bestPhraseGo_top x es none (fun _ h => by cases h) (Or.inl hx) hall

/-! ### `trim_paths` when the first path is the single interval over the whole range -/

theorem advanceBig_direct (I o : PInterval) (h1 : I.start < o.stop) (h2 : I.start ≤ o.start) (h3 : o.stop ≤ I.stop) :
    advanceBig [I] o = some [I] := by
  simp [advanceBig, PInterval.contains, h1, h2, h3]

theorem pathContains_direct (I : PInterval) (p : Path)
    (h : ∀ o ∈ p, I.start < o.stop ∧ I.start ≤ o.start ∧ o.stop ≤ I.stop) : pathContains [I] p = true := by
  induction p with
  | nil => rfl
  | cons o os ih =>
    have ho := h o (List.mem_cons_self ..)
    simp only [pathContains, advanceBig_direct I o ho.1 ho.2.1 ho.2.2]
    exact ih (fun q hq => h q (List.mem_cons_of_mem _ hq))

theorem trimStep_direct (I : PInterval) (c : Path) (h : pathContains [I] c = true) : trimStep [[I]] c = [[I]] := by
  simp [trimStep, trimGo, h]

theorem trimPaths_direct (I : PInterval) (rest : List Path) (h : ∀ c ∈ rest, pathContains [I] c = true) :
    trimPaths ([I] :: rest) = [[I]] := by
  unfold trimPaths
  have h0 : trimStep [] [I] = [[I]] := by simp [trimStep, trimGo]
  rw [List.foldl_cons, h0]
  induction rest with
  | nil => rfl
  | cons c cs ih =>
    rw [List.foldl_cons, trimStep_direct I c (h c (List.mem_cons_self ..))]
    exact ih (fun q hq => h q (List.mem_cons_of_mem _ hq))

/-- the whole-range interval first ⇒ it is the (only) conversion, whatever the other k-paths score -/
theorem firstConversion_direct (I : PInterval) (rest : List Path)
    (h : ∀ c ∈ rest, ∀ o ∈ c, I.start < o.stop ∧ I.start ≤ o.start ∧ o.stop ≤ I.stop) :
    firstConversion ([I] :: rest) = some [I.toInterval] := by
  unfold firstConversion
  rw [trimPaths_direct I rest (fun c hc => pathContains_direct I c (h c hc))]
  rfl

/-! ### `shortest_path` takes the direct edge -/

theorem scanEdges_direct (len : Nat) (d : PInterval) (hd : d.stop = len) (pre post : List PInterval)
    (hpre : ∀ e ∈ pre, e.stop ≠ len) :
    ∀ (parent : Parents) (queue : List Nat), parent.get? len = none →
      ∃ p' q', scanEdges (fun _ _ => false) len (pre ++ d :: post) parent queue = (p', q', true) ∧ p'.get? len = some d := by
  induction pre with
  | nil =>
    intro parent queue hp
    simp only [List.nil_append, scanEdges, Bool.false_eq_true, if_false, hd, hp, Option.isNone_none, if_true]
    exact ⟨_, _, rfl, by simp [Parents.get?]⟩
  | cons e es ih =>
    intro parent queue hp
    have he : e.stop ≠ len := hpre e (List.mem_cons_self ..)
    simp only [List.cons_append, scanEdges, Bool.false_eq_true, if_false, he]
    apply ih (fun x hx => hpre x (List.mem_cons_of_mem _ hx))
    split
    · simp only [Parents.get?, List.find?]
      have : decide (e.stop = len) = false := by simp [he]
      rw [this]
      exact hp
    · exact hp

theorem split_first {d : PInterval} {es : List PInterval} (hmem : d ∈ es) :
    ∃ pre post, es = pre ++ d :: post ∧ d ∉ pre := by
  induction es with
  | nil => cases hmem
  | cons a r ih =>
    by_cases ha : a = d
    · exact ⟨[], r, by rw [ha]; rfl, by simp⟩
    · have hm : d ∈ r := by
        rcases List.mem_cons.mp hmem with h | h
        · exact absurd h.symm ha
        · exact h
      obtain ⟨pre, post, e1, e2⟩ := ih hm
      refine ⟨a :: pre, post, by rw [e1]; rfl, ?_⟩
      intro h
      rcases List.mem_cons.mp h with h | h
      · exact ha h.symm
      · exact e2 h

/-- with no removed edges, if node 0 has an edge `d` to the sink and it is the only one ending there, the
    breadth-first shortest path from 0 is `[d]` -/
theorem shortestPath_direct (graph : List (List PInterval)) (len : Nat) (d : PInterval) (es : List PInterval)
    (hg : graph[0]? = some es) (hmem : d ∈ es) (hs : d.start = 0) (hd : d.stop = len) (hlen : 0 < len)
    (huniq : ∀ e ∈ es, e.stop = len → e = d) :
    shortestPath graph (fun _ _ => false) 0 len = some [d] := by
  obtain ⟨pre, post, hsplit, hnot⟩ := split_first hmem
  have hpre : ∀ e ∈ pre, e.stop ≠ len := by
    intro e he h
    have : e = d := huniq e (by rw [hsplit]; exact List.mem_append_left _ he) h
    exact hnot (this ▸ he)
  obtain ⟨p', q', hscan, hp'⟩ := scanEdges_direct len d hd pre post hpre [] [] rfl
  unfold shortestPath
  have hb : bfs graph (fun _ _ => false) len (len + 2) [0] [] = p' := by
    simp only [bfs, hg, Option.getD_some, hsplit, hscan, if_true]
  rw [hb]
  have hne : ¬ len = 0 := by omega
  simp only [walkBack, hne, if_false, hp', hs, if_true]

/-! ### Without trimming: the score proviso (DESIGN §8 C08) -/

theorem insertDesc_head (p : Path) (l : List Path) (d : Path)
    (hl : ∀ q, l.head? = some q → q = d) (hp : p = d ∨ pathScore p < pathScore d) (hne : l ≠ [] ∨ p = d) :
    (insertDesc p l).head? = some d := by
  cases l with
  | nil =>
    rcases hne with h | h
    · exact absurd rfl h
    · simp [insertDesc, h]
  | cons q r =>
    have hq : q = d := hl q rfl
    simp only [insertDesc]
    split
    · rename_i hle
      rcases hp with e | hlt
      · simp [e]
      · rw [hq] at hle; omega
    · simp [hq]

/-- stable descending sort: a path that scores strictly above every other path (any path equal to it aside)
    comes out first -/
theorem sortDesc_head (d : Path) (ps : List Path) (hd : d ∈ ps)
    (hall : ∀ q ∈ ps, q = d ∨ pathScore q < pathScore d) : (sortDesc ps).head? = some d := by
  induction ps with
  | nil => cases hd
  | cons p r ih =>
    have hr : ∀ q ∈ r, q = d ∨ pathScore q < pathScore d := fun q hq => hall q (List.mem_cons_of_mem _ hq)
    show (insertDesc p (sortDesc r)).head? = some d
    by_cases hdr : d ∈ r
    · have := ih hdr hr
      apply insertDesc_head p _ d (fun q hq => by rw [this] at hq; injection hq with hq; exact hq.symm)
        (hall p (List.mem_cons_self ..))
      left; intro h; rw [h] at this; cases this
    · have e : p = d := by
        rcases List.mem_cons.mp hd with e | e
        · exact e.symm
        · exact absurd e hdr
      -- every element of r scores strictly below d
      have hlow : ∀ q ∈ r, pathScore q < pathScore d := fun q hq => by
        rcases hr q hq with e2 | h
        · exact absurd (e2 ▸ hq) hdr
        · exact h
      subst e
      -- the head of the sorted tail (if any) scores below p, so p is inserted in front
      cases hs : sortDesc r with
      | nil => simp [insertDesc]
      | cons q t =>
        have hq : q ∈ r := by
          have : q ∈ sortDesc r := by rw [hs]; exact List.mem_cons_self ..
          exact mem_sortDesc.mp this
        simp only [insertDesc]
        have := hlow q hq
        rw [if_pos (by omega)]
        rfl
where
  mem_sortDesc {q : Path} {r : List Path} : q ∈ sortDesc r ↔ q ∈ r := by
    induction r with
    | nil => simp [sortDesc]
    | cons a r ih =>
      show q ∈ insertDesc a (sortDesc r) ↔ _
      rw [mem_insertDesc, ih, List.mem_cons]
  mem_insertDesc {q a : Path} {l : List Path} : q ∈ insertDesc a l ↔ q = a ∨ q ∈ l := by
    induction l with
    | nil => simp [insertDesc]
    | cons b l ih =>
      simp only [insertDesc]
      split
      · simp
      · simp only [List.mem_cons, ih]
        constructor
        · rintro (h | h | h)
          · exact Or.inr (Or.inl h)
          · exact Or.inl h
          · exact Or.inr (Or.inr h)
        · rintro (h | h | h)
          · exact Or.inr (Or.inl h)
          · exact Or.inl h
          · exact Or.inr (Or.inr h)

end Chewing.Learn
