import Chewing.Proofs.TrieBuild
/-!
`TrieBuf`: the pending tree and the graveyard as finite maps / sets, the candidate list of an exact
lookup (`entriesIterFor … .standard`) in terms of membership, and how `put` / `remove` change the
denoted map over *any* persisted layer.
-/
namespace Chewing
open MapSpec

namespace TrieBuf
open Trie

/-- the pending tree has one entry per key -/
def KeysOk (bt : List (PKey × Val)) : Prop := bt.Pairwise (fun a b => a.1 ≠ b.1)

theorem KeysOk.unique {bt : List (PKey × Val)} (h : KeysOk bt) {a b : PKey × Val} (ha : a ∈ bt) (hb : b ∈ bt)
    (e : a.1 = b.1) : a = b := by
  induction bt with
  | nil => simp at ha
  | cons x r ih =>
    unfold KeysOk at h
    rw [List.pairwise_cons] at h
    simp only [List.mem_cons] at ha hb
    rcases ha with ha | ha <;> rcases hb with hb | hb
    · rw [ha, hb]
    · subst ha; exact absurd e (h.1 b hb)
    · subst hb; exact absurd e.symm (h.1 a ha)
    · exact ih h.2 ha hb

theorem btGet_iff {bt : List (PKey × Val)} (h : KeysOk bt) {k : PKey} {v : Val} :
    btGet bt k = some v ↔ (k, v) ∈ bt := by
  unfold btGet
  constructor
  · intro hg
    simp only [Option.map_eq_some_iff] at hg
    obtain ⟨e, he, hv⟩ := hg
    have hm := List.mem_of_find?_eq_some he
    have hk : e.1 = k := by simpa using List.find?_some he
    have : e = (k, v) := by rw [← hk, ← hv]
    rw [← this]; exact hm
  · intro hm
    cases hf : bt.find? (fun e => e.1 == k) with
    | none =>
      rw [List.find?_eq_none] at hf
      exact absurd (by simp) (hf (k, v) hm)
    | some e =>
      have he := List.mem_of_find?_eq_some hf
      have hk : e.1 = k := by simpa using List.find?_some hf
      have := h.unique he hm hk
      simp [this]

theorem btGet_eq_none {bt : List (PKey × Val)} {k : PKey} : btGet bt k = none ↔ ∀ v, (k, v) ∉ bt := by
  unfold btGet
  simp only [Option.map_eq_none_iff, List.find?_eq_none, beq_iff_eq]
  constructor
  · intro h v hm; exact h (k, v) hm rfl
  · intro h e he hk
    have : e = (k, e.2) := by rw [← hk]
    rw [this] at he
    exact h e.2 he

theorem mem_btInsert {bt : List (PKey × Val)} {k : PKey} {v : Val} {x : PKey × Val} :
    x ∈ btInsert bt k v ↔ x = (k, v) ∨ (x ∈ bt ∧ x.1 ≠ k) := by
  unfold btInsert
  rw [mem_place]
  simp [List.mem_filter]

theorem keysOk_btInsert {bt : List (PKey × Val)} (h : KeysOk bt) (k : PKey) (v : Val) : KeysOk (btInsert bt k v) := by
  unfold btInsert KeysOk
  have hp := place_perm (fun a b : PKey × Val => pkeyLt a.1 b.1) (k, v) (bt.filter (fun e => e.1 != k))
  rw [hp.pairwise_iff (fun {x y} (hxy : x.1 ≠ y.1) => fun e => hxy e.symm)]
  rw [List.pairwise_cons]
  refine ⟨?_, List.Pairwise.filter _ h⟩
  intro a ha
  simp only [List.mem_filter, bne_iff_ne, ne_eq] at ha
  exact fun e => ha.2 e.symm

theorem keysOk_btErase {bt : List (PKey × Val)} (h : KeysOk bt) (k : PKey) : KeysOk (btErase bt k) :=
  List.Pairwise.filter _ h

theorem btGet_btInsert {bt : List (PKey × Val)} (h : KeysOk bt) (k : PKey) (v : Val) (k' : PKey) :
    btGet (btInsert bt k v) k' = if k' = k then some v else btGet bt k' := by
  apply Option.ext
  intro w
  rw [btGet_iff (keysOk_btInsert h k v), mem_btInsert]
  by_cases e : k' = k
  · subst e
    simp only [if_true, Option.some.injEq]
    constructor
    · rintro (h1 | ⟨_, h2⟩)
      · simp only [Prod.mk.injEq, true_and] at h1; exact h1.symm
      · exact absurd rfl h2
    · intro h1; subst h1; exact Or.inl rfl
  · simp only [e, if_false]
    rw [btGet_iff h]
    constructor
    · rintro (h1 | ⟨h1, _⟩)
      · simp only [Prod.mk.injEq] at h1; exact absurd h1.1 e
      · exact h1
    · intro h1; exact Or.inr ⟨h1, e⟩

theorem btGet_btErase {bt : List (PKey × Val)} (h : KeysOk bt) (k : PKey) (k' : PKey) :
    btGet (btErase bt k) k' = if k' = k then none else btGet bt k' := by
  apply Option.ext
  intro w
  rw [btGet_iff (keysOk_btErase h k)]
  unfold btErase
  simp only [List.mem_filter, bne_iff_ne, ne_eq]
  by_cases e : k' = k
  · simp [e]
  · simp only [e, if_false, not_false_eq_true, and_true]
    rw [btGet_iff h]

theorem contains_graveErase (g : List PKey) (k k' : PKey) :
    (graveErase g k).contains k' = (g.contains k' && k' != k) := by
  unfold graveErase
  rw [List.contains_eq_mem, List.contains_eq_mem]
  simp only [List.mem_filter, bne_iff_ne, ne_eq]
  by_cases h1 : k' ∈ g <;> by_cases h2 : k' = k <;> simp [h1, h2]

theorem contains_graveInsert (g : List PKey) (k k' : PKey) :
    (graveInsert g k).contains k' = (g.contains k' || k' == k) := by
  rw [Bool.eq_iff_iff]
  simp only [List.contains_iff_mem, Bool.or_eq_true, beq_iff_eq]
  unfold graveInsert
  split
  · rename_i h
    rw [List.contains_iff_mem] at h
    constructor
    · intro hm; exact Or.inl hm
    · rintro (hm | rfl)
      · exact hm
      · exact h
  · simp only [List.mem_cons]
    constructor
    · rintro (rfl | hm)
      · exact Or.inr rfl
      · exact Or.inl hm
    · rintro (hm | rfl)
      · exact Or.inr hm
      · exact Or.inl rfl

/-- `add_phrase` / `update_phrase` write one key of the denoted map, whatever the persisted layer is -/
theorem absOver_put (b : List Leaf) {s : State} (h : KeysOk s.btree) (k : PKey) (v : Val) :
    absOver b (put s k v) = (absOver b s).set k (some v) := by
  funext k'
  unfold absOver put Map.set
  simp only [contains_graveErase, btGet_btInsert h]
  by_cases e : k' = k
  · subst e; simp
  · simp [e]

def removeSt (s : State) (k : PKey) : State :=
  { s with btree := btErase s.btree k, grave := graveInsert s.grave k, dirty := true }

theorem absOver_remove (b : List Leaf) {s : State} (h : KeysOk s.btree) (k : PKey) :
    absOver b (removeSt s k) = (absOver b s).set k none := by
  funext k'
  unfold absOver removeSt Map.set
  simp only [contains_graveInsert, btGet_btErase h]
  by_cases e : k' = k
  · subst e; simp
  · simp [e]

/-! ### candidates of an exact lookup -/

/-- with one leaf per key the exact trie lookup is "the leaf of that key" -/
theorem lookupAll_std {t : List Leaf} (h : t.Pairwise (fun a b => a.1 ≠ b.1)) (k : Key) :
    Trie.lookupAll t k .standard = match t.find? (fun l => l.1 == k) with
      | some l => l.2
      | none => [] := by
  have key : ∀ t : List Leaf,
      Trie.lookupAll t k .standard = ((t.filter (fun l => l.1 == k)).map (·.2)).flatten := fun _ => rfl
  rw [key]
  induction t with
  | nil => rfl
  | cons x r ih =>
    rw [List.pairwise_cons] at h
    by_cases e : x.1 = k
    · have hr : r.filter (fun l => l.1 == k) = [] := by
        rw [List.filter_eq_nil_iff]
        intro a ha
        simp only [beq_iff_eq]
        intro c
        exact h.1 a ha (by rw [e, c])
      have hb : (x.1 == k) = true := by simpa using e
      simp only [List.filter_cons, hb, if_true, hr, List.map_cons, List.map_nil, List.flatten_cons,
        List.flatten_nil, List.append_nil, List.find?_cons]
    · have hb : (x.1 == k) = false := by simpa using e
      simp only [List.filter_cons, hb, List.find?_cons]
      exact ih h.2

theorem mem_lookupAll_std {t : List Leaf} (h : SnapOk t) {k : Key} {p : Phrase} :
    p ∈ Trie.lookupAll t k .standard ↔ ∃ l ∈ t, l.1 = k ∧ p ∈ l.2 := by
  rw [lookupAll_std h.1]
  constructor
  · intro hp
    cases hf : t.find? (fun l => l.1 == k) with
    | none => simp [hf] at hp
    | some l =>
      simp only [hf] at hp
      obtain ⟨hl, e⟩ := (find_key_iff h.1).mp hf
      exact ⟨l, hl, e, hp⟩
  · rintro ⟨l, hl, e, hp⟩
    rw [(find_key_iff h.1).mpr ⟨hl, e⟩]
    exact hp

theorem leafOk_lookupAll_std {t : List Leaf} (h : SnapOk t) (k : Key) : LeafOk (Trie.lookupAll t k .standard) := by
  rw [lookupAll_std h.1]
  cases hf : t.find? (fun l => l.1 == k) with
  | none => exact List.Pairwise.nil
  | some l => exact h.2 l (List.mem_of_find?_eq_some hf)

theorem valOf_mkPhrase (t : Text) (v : Val) : valOf (mkPhrase t v) = v := by
  simp [valOf, mkPhrase]

theorem btHas_iff {bt : List (PKey × Val)} {k : PKey} : btHas bt k = true ↔ ∃ v, (k, v) ∈ bt := by
  unfold btHas
  simp only [List.any_eq_true, beq_iff_eq]
  constructor
  · rintro ⟨e, he, hk⟩
    refine ⟨e.2, ?_⟩
    rw [← hk]; exact he
  · rintro ⟨v, hv⟩; exact ⟨(k, v), hv, rfl⟩

theorem btHas_false {bt : List (PKey × Val)} {k : PKey} : btHas bt k = false ↔ ∀ v, (k, v) ∉ bt := by
  rw [← Bool.not_eq_true, btHas_iff]
  simp

theorem mem_btreeRange {bt : List (PKey × Val)} {k : Key} {p : Phrase} :
    p ∈ btreeRange bt k ↔ ∃ v, ((k, p.text), v) ∈ bt ∧ p = mkPhrase p.text v := by
  unfold btreeRange
  simp only [List.mem_map, List.mem_filter, beq_iff_eq]
  constructor
  · rintro ⟨e, ⟨he, hk⟩, rfl⟩
    refine ⟨e.2, ?_, rfl⟩
    have : e = ((k, e.1.2), e.2) := by rw [← hk]
    simp only [mkPhrase]
    rw [← this]; exact he
  · rintro ⟨v, hm, hp⟩
    exact ⟨((k, p.text), v), ⟨hm, rfl⟩, hp.symm⟩

theorem leafOk_btreeRange {bt : List (PKey × Val)} (h : KeysOk bt) (k : Key) : LeafOk (btreeRange bt k) := by
  unfold btreeRange LeafOk
  rw [List.pairwise_map]
  have h1 : (bt.filter (fun e => e.1.1 == k)).Pairwise (fun a b => a.1 ≠ b.1) :=
    List.Pairwise.filter _ h
  refine List.Pairwise.imp_of_mem ?_ h1
  intro a b ha hb hab
  simp only [List.mem_filter, beq_iff_eq] at ha hb
  simp only [mkPhrase]
  intro e
  apply hab
  exact Prod.ext (by rw [ha.2, hb.2]) e

end TrieBuf

end Chewing
