import Chewing.Proofs.TrieBufObs
/-!
Prefix (`FuzzyPartialPrefix`) lookup of a `TrieBuf` against the map it denotes.

Since fix c3d9fb2 (F36) the code answers a prefix lookup from the merged view `entries_iter()` — persisted
entries without a pending entry of the same key, then the pending entries, minus tombstones, every filter
keyed by the ENTRY's own key — restricted to the keys that match the query syllable by syllable.  The
answer is therefore the map's in **every** state: `fuzzy_of_entries` derives the prefix-lookup
specification from the enumeration specification for any matching predicate, `fuzzy_agrees` instantiates
it with `entries_agrees`.

Before the fix the code scanned the persisted leaves only, added the pending entries of exactly the query
key and applied the pending / tombstone filters keyed by the QUERY (`Trie::lookup_all_phrases` does not
return the key a phrase was found under); the theorem carried the exclusion `fuzzyClass s q = false`
(class `FuzzyOverTombstoneOrPending`) and the side condition `fuzzyMatch q q = true`.  Both are gone.
-/
namespace Chewing
open MapSpec

namespace TrieBuf
open Trie

theorem mem_lookupAll_fuzzy {t : List Leaf} {q : Key} {p : Phrase} :
    p ∈ Trie.lookupAll t q .fuzzyPartialPrefix ↔ ∃ l ∈ t, fuzzyMatch l.1 q = true ∧ p ∈ l.2 := by
  unfold Trie.lookupAll Trie.lookupLeaves
  simp only [List.mem_flatten, List.mem_map, List.mem_filter, keyMatch]
  constructor
  · rintro ⟨ps, ⟨l, ⟨hl, hm⟩, rfl⟩, hp⟩; exact ⟨l, hl, hm, hp⟩
  · rintro ⟨l, hl, hm, hp⟩; exact ⟨l.2, ⟨l, ⟨hl, hm⟩, rfl⟩, hp⟩

theorem mkPhrase_freq (t : Text) (v : Val) : (mkPhrase t v).freq = v.1 := rfl

/-- the candidates of a prefix lookup: the phrases of the enumerated entries whose key matches -/
theorem mem_fuzzy_cands {mt : Key → Key → Bool} {es : List Entry} {q : Key} {p : Phrase} :
    p ∈ (es.filter (fun e => mt e.1 q)).map (·.2) ↔ ∃ key, mt key q = true ∧ (key, p) ∈ es := by
  simp only [List.mem_map, List.mem_filter]
  constructor
  · rintro ⟨e, ⟨he, hm⟩, rfl⟩; exact ⟨e.1, hm, he⟩
  · rintro ⟨key, hm, he⟩; exact ⟨(key, p), ⟨he, hm⟩, rfl⟩

/-- **from the enumeration to the prefix lookup**, for any matching predicate: if `es` enumerates the map
    (`IsEntries`), then selecting the entries whose key matches `q` and running the de-duplication loop
    over their phrases is a correct prefix lookup (`IsFuzzyLookup`) -/
theorem fuzzy_of_entries (mt : Key → Key → Bool) {m : Map} {es : List Entry} (h : IsEntries m es) (q : Key) :
    IsFuzzyLookup mt m q (dedup ((es.filter (fun e => mt e.1 q)).map (·.2))) := by
  refine ⟨dedup_texts_nodup _, ?_, ?_⟩
  · intro p hp
    obtain ⟨key, hm, he⟩ := mem_fuzzy_cands.mp (mem_of_mem_dedup hp)
    exact ⟨key, hm, h.2.1 (key, p) he⟩
  · intro key t v hm hv
    obtain ⟨e, he, e1, e2⟩ := h.2.2 key t v hv
    have hc : e.2 ∈ (es.filter (fun e => mt e.1 q)).map (·.2) :=
      mem_fuzzy_cands.mpr ⟨e.1, by rw [e1]; exact hm, he⟩
    obtain ⟨r, hr, er, fr⟩ := dedup_max hc
    refine ⟨r, hr, by rw [er, e2], ?_⟩
    have hv' := h.2.1 e he
    rw [e1, e2, hv] at hv'
    have : v.1 = e.2.freq := by
      have := congrArg Prod.fst (Option.some.inj hv')
      simpa [valOf] using this
    rw [this]; exact fr

/-- the candidates of a prefix lookup are the matching entries of the enumeration -/
theorem entriesIterFor_fuzzy (s : State) (q : Key) :
    entriesIterFor s q .fuzzyPartialPrefix = ((entries s).filter (fun e => fuzzyMatch e.1 q)).map (·.2) := rfl

/-- membership in the candidates of a prefix lookup, in terms of the three layers: the phrase sits under
    a matching key, that key has no tombstone, and it is either pending or persisted without a pending
    entry — all keyed by the entry's OWN key (what F36 got wrong) -/
theorem mem_fuzzy_entriesIterFor {s : State} {q : Key} {p : Phrase} :
    p ∈ entriesIterFor s q .fuzzyPartialPrefix ↔ ∃ key, fuzzyMatch key q = true ∧ (key, p.text) ∉ s.grave ∧
      (((∃ l ∈ s.snap, l.1 = key ∧ p ∈ l.2) ∧ ∀ w, ((key, p.text), w) ∉ s.btree) ∨
        ∃ v, ((key, p.text), v) ∈ s.btree ∧ p = mkPhrase p.text v) := by
  rw [entriesIterFor_fuzzy, mem_fuzzy_cands]
  constructor
  · rintro ⟨key, hm, he⟩
    exact ⟨key, hm, mem_entries.mp he⟩
  · rintro ⟨key, hm, h⟩
    exact ⟨key, hm, mem_entries.mpr h⟩

/-- selecting the entries of a trie file by a predicate on the key = selecting its leaves -/
theorem trie_entries_of_pred (t : List Leaf) (P : Key → Bool) :
    ((Trie.entries t).filter (fun e => P e.1)).map (·.2) = ((t.filter (fun l => P l.1)).map (·.2)).flatten := by
  induction t with
  | nil => rfl
  | cons x r ih =>
    have hx : ∀ ps : List Phrase, ((ps.map (fun p => (x.1, p))).filter (fun e : Entry => P e.1)).map (·.2)
        = if P x.1 = true then ps else [] := by
      intro ps
      induction ps with
      | nil => simp
      | cons p ps ihp =>
        by_cases hb : P x.1 = true
        · simp only [hb, if_true] at ihp ⊢
          simp only [List.map_cons, List.filter_cons, hb, if_true, ihp]
        · have hb' : P x.1 = false := by simpa using hb
          simp only [hb', Bool.false_eq_true, if_false] at ihp ⊢
          simp only [List.map_cons, List.filter_cons, hb', Bool.false_eq_true, if_false, ihp]
    unfold Trie.entries at ih ⊢
    simp only [List.flatMap_cons, List.filter_append, List.map_append, hx, ih]
    by_cases hb : P x.1 = true
    · simp only [hb, if_true, List.filter_cons, List.map_cons, List.flatten_cons]
    · have hb' : P x.1 = false := by simpa using hb
      simp only [hb', Bool.false_eq_true, if_false, List.filter_cons, List.nil_append]

/-- the persisted candidates of a prefix lookup are what `Trie::lookup_all_phrases` returns for that
    strategy: with nothing pending and no tombstone the repaired code answers as the code before the fix -/
theorem trie_entries_fuzzy (t : List Leaf) (q : Key) :
    ((Trie.entries t).filter (fun e => fuzzyMatch e.1 q)).map (·.2) = Trie.lookupAll t q .fuzzyPartialPrefix :=
  trie_entries_of_pred t (fun k => fuzzyMatch k q)

/-- both strategies in one formula: the candidates of a lookup are the phrases of the enumerated entries
    whose key matches the query under the strategy's predicate (`==` / per-syllable prefix) -/
theorem entriesIterFor_uniform (s : State) (k : Key) (st : Strategy) :
    entriesIterFor s k st = ((entries s).filter (fun e => keyMatch st e.1 k)).map (·.2) := by
  cases st with
  | standard => exact (entries_of_key s k).symm
  | fuzzyPartialPrefix => rfl

/-- **prefix lookup**, in every state, for every query: one entry per phrase text that is live under some
    matching key, carrying the value of one such key and the highest frequency among them -/
theorem fuzzy_agrees {s : State} (hs : Inv s) (q : Key) :
    IsFuzzyLookup fuzzyMatch (abs s) q (lookupAll s q .fuzzyPartialPrefix) :=
  fuzzy_of_entries fuzzyMatch (entries_agrees hs) q

/-- the phrase texts a prefix lookup returns: exactly those live under a matching key, each once -/
theorem fuzzy_texts {s : State} (hs : Inv s) (q : Key) :
    (texts (lookupAll s q .fuzzyPartialPrefix)).Nodup ∧
      ∀ t, t ∈ texts (lookupAll s q .fuzzyPartialPrefix) ↔ ∃ key v, fuzzyMatch key q = true ∧ abs s (key, t) = some v := by
  obtain ⟨h1, h2, h3⟩ := fuzzy_agrees hs q
  refine ⟨h1, fun t => ⟨?_, ?_⟩⟩
  · intro ht
    obtain ⟨p, hp, rfl⟩ := mem_texts.mp ht
    obtain ⟨key, hm, hv⟩ := h2 p hp
    exact ⟨key, _, hm, hv⟩
  · rintro ⟨key, v, hm, hv⟩
    obtain ⟨p, hp, e, _⟩ := h3 key t v hm hv
    exact mem_texts.mpr ⟨p, hp, e⟩

end TrieBuf

end Chewing
