import Chewing.Proofs.TrieBufObs
/-!
Prefix (`FuzzyPartialPrefix`) lookup of a `TrieBuf` against the map it denotes.

The code scans the *persisted* leaves whose key matches the query, drops the phrases that have a pending
entry or a tombstone keyed by the *query*, and appends the pending entries of *exactly* the query key
(`Trie::lookup_all_phrases` does not return the key a persisted phrase was found under).
`fuzzyClass s q` (class `FuzzyOverTombstoneOrPending` of finding F36) says that this shortcut is
visible: a pending entry or a tombstone sits under a matching key other than `q`, or a tombstone /
a pending entry of `q` hides a persisted phrase of another matching key.  Outside the class the answer
is the map's (no further exclusion since fix 8e6d504).
-/
namespace Chewing
open MapSpec

namespace TrieBuf
open Trie

/-- F36 class `FuzzyOverTombstoneOrPending` -/
def fuzzyClass (s : State) (q : Key) : Bool :=
  s.btree.any (fun e => e.1.1 != q && fuzzyMatch e.1.1 q) ||
  s.grave.any (fun g => g.1 != q && fuzzyMatch g.1 q) ||
  s.grave.any (fun g => g.1 == q &&
    s.snap.any (fun l => l.1 != q && fuzzyMatch l.1 q && l.2.any (fun p => p.text == g.2))) ||
  s.btree.any (fun e => e.1.1 == q &&
    s.snap.any (fun l => l.1 != q && fuzzyMatch l.1 q && l.2.any (fun p => p.text == e.1.2)))

theorem mem_lookupAll_fuzzy {t : List Leaf} {q : Key} {p : Phrase} :
    p ∈ Trie.lookupAll t q .fuzzyPartialPrefix ↔ ∃ l ∈ t, fuzzyMatch l.1 q = true ∧ p ∈ l.2 := by
  unfold Trie.lookupAll Trie.lookupLeaves
  simp only [List.mem_flatten, List.mem_map, List.mem_filter, keyMatch]
  constructor
  · rintro ⟨ps, ⟨l, ⟨hl, hm⟩, rfl⟩, hp⟩; exact ⟨l, hl, hm, hp⟩
  · rintro ⟨l, hl, hm, hp⟩; exact ⟨l.2, ⟨l, ⟨hl, hm⟩, rfl⟩, hp⟩

theorem fuzzyClass_false {s : State} {q : Key} (h : fuzzyClass s q = false) :
    (∀ e ∈ s.btree, fuzzyMatch e.1.1 q = true → e.1.1 = q) ∧
    (∀ g ∈ s.grave, fuzzyMatch g.1 q = true → g.1 = q) ∧
    (∀ t, (q, t) ∈ s.grave → ∀ l ∈ s.snap, fuzzyMatch l.1 q = true → (∃ p ∈ l.2, p.text = t) → l.1 = q) ∧
    (∀ t w, ((q, t), w) ∈ s.btree → ∀ l ∈ s.snap, fuzzyMatch l.1 q = true → (∃ p ∈ l.2, p.text = t) → l.1 = q) := by
  unfold fuzzyClass at h
  simp only [Bool.or_eq_false_iff, List.any_eq_false, Bool.and_eq_true, bne_iff_ne, ne_eq, not_and,
    Bool.not_eq_true, beq_iff_eq, List.any_eq_true, not_exists] at h
  obtain ⟨⟨⟨h1, h2⟩, h3⟩, h4⟩ := h
  refine ⟨?_, ?_, ?_, ?_⟩
  · intro e he hm
    by_cases c : e.1.1 = q
    · exact c
    · have := h1 e he c; rw [hm] at this; exact absurd this (by simp)
  · intro g hg hm
    by_cases c : g.1 = q
    · exact c
    · have := h2 g hg c; rw [hm] at this; exact absurd this (by simp)
  · rintro t ht l hl hm ⟨p, hp, et⟩
    by_cases c : l.1 = q
    · exact c
    · exact absurd et (h3 (q, t) ht rfl l hl ⟨c, hm⟩ p hp)
  · rintro t w hw l hl hm ⟨p, hp, et⟩
    by_cases c : l.1 = q
    · exact c
    · exact absurd et (h4 ((q, t), w) hw rfl l hl ⟨c, hm⟩ p hp)

theorem mkPhrase_freq (t : Text) (v : Val) : (mkPhrase t v).freq = v.1 := rfl

/-- **prefix lookup** outside the class of F36 -/
theorem fuzzy_agrees {s : State} (hs : Inv s) (q : Key) (hq : fuzzyMatch q q = true)
    (hc : fuzzyClass s q = false) :
    IsFuzzyLookup fuzzyMatch (abs s) q (lookupAll s q .fuzzyPartialPrefix) := by
  obtain ⟨c1, c2, c3, c4⟩ := fuzzyClass_false hc
  have hmemC : ∀ p, p ∈ entriesIterFor s q .fuzzyPartialPrefix ↔
      (q, p.text) ∉ s.grave ∧ (((∃ l ∈ s.snap, fuzzyMatch l.1 q = true ∧ p ∈ l.2) ∧ ∀ w, ((q, p.text), w) ∉ s.btree) ∨
        ∃ v, ((q, p.text), v) ∈ s.btree ∧ p = mkPhrase p.text v) := by
    intro p
    unfold entriesIterFor
    simp only [List.mem_filter, List.mem_append, mem_lookupAll_fuzzy, mem_btreeRange, List.contains_eq_mem,
      Bool.not_eq_true', decide_eq_false_iff_not, btHas_false]
    constructor
    · rintro ⟨h1, h2⟩; exact ⟨h2, h1⟩
    · rintro ⟨h1, h2⟩; exact ⟨h2, h1⟩
  unfold lookupAll
  refine ⟨dedup_texts_nodup _, ?_, ?_⟩
  · intro p hp
    obtain ⟨hg, h⟩ := (hmemC p).mp (mem_of_mem_dedup hp)
    rcases h with ⟨⟨l, hl, hm, hpl⟩, hnq⟩ | ⟨v, hv, hpv⟩
    · refine ⟨l.1, hm, (absOver_eq_some hs.snap hs.bt).mpr ⟨?_, Or.inr ⟨?_, l, hl, rfl, p, hpl, rfl, rfl⟩⟩⟩
      · intro hgl
        have := c2 _ hgl hm
        simp only at this
        rw [this] at hgl
        exact hg hgl
      · intro w hw
        have e := c1 _ hw hm
        simp only at e
        rw [e] at hw
        exact hnq w hw
    · refine ⟨q, hq, (absOver_eq_some hs.snap hs.bt).mpr ⟨hg, Or.inl ?_⟩⟩
      have : valOf p = v := by rw [hpv, valOf_mkPhrase]
      rw [this]; exact hv
  · intro key t v hm hv
    obtain ⟨hg, h⟩ := (absOver_eq_some hs.snap hs.bt).mp hv
    rcases h with h | ⟨hn, l, hl, el, p, hp, et, hpv⟩
    · have e := c1 _ h hm
      simp only at e
      subst e
      have hC : mkPhrase t v ∈ entriesIterFor s key .fuzzyPartialPrefix :=
        (hmemC _).mpr ⟨hg, Or.inr ⟨v, h, rfl⟩⟩
      obtain ⟨r, hr, er, fr⟩ := dedup_max hC
      exact ⟨r, hr, er, fr⟩
    · have hgq : (q, t) ∉ s.grave := by
        intro hgq
        have e := c3 t hgq l hl (by rw [el]; exact hm) ⟨p, hp, et⟩
        rw [el] at e
        rw [e] at hg
        exact hg hgq
      have hbq : ∀ w, ((q, t), w) ∉ s.btree := by
        intro w hw
        have e := c4 t w hw l hl (by rw [el]; exact hm) ⟨p, hp, et⟩
        rw [el] at e
        rw [e] at hn
        exact hn w hw
      have hC : p ∈ entriesIterFor s q .fuzzyPartialPrefix :=
        (hmemC _).mpr ⟨by rw [et]; exact hgq, Or.inl ⟨⟨l, hl, by rw [el]; exact hm, hp⟩, by rw [et]; exact hbq⟩⟩
      obtain ⟨r, hr, er, fr⟩ := dedup_max hC
      refine ⟨r, hr, by rw [er, et], ?_⟩
      have : v.1 = p.freq := by rw [← hpv]; rfl
      rw [this]; exact fr

end TrieBuf

end Chewing
