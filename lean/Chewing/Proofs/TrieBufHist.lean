import Chewing.Proofs.TrieBufFuzzy
/-!
Lifting to histories (induction over the operation list), the in-memory special case, the
"removed stays absent" invariant of the specification, and `Trie`'s early-exit collection loop.
-/
namespace Chewing
open MapSpec

namespace TrieBuf
open Trie

theorem run_nil (s : State) : run s [] = s := rfl
theorem run_cons (s : State) (op : Op) (ops : List Op) : run s (op :: ops) = run (apply s op) ops := rfl

theorem run_append (s : State) (a b : List Op) : run s (a ++ b) = run (run s a) b := by
  unfold run; rw [List.foldl_append]

/-- invariant and refinement along any history -/
theorem run_refines {s : State} (hs : Inv s) (ops : List Op) :
    Inv (run s ops) ∧ abs (run s ops) = (abs s).run ops := by
  induction ops generalizing s with
  | nil => exact ⟨hs, rfl⟩
  | cons op ops ih =>
    have h1 := inv_apply hs op
    have h2 := ih h1
    refine ⟨h2.1, ?_⟩
    rw [run_cons, h2.2, abs_apply hs]
    rfl

theorem abs_initMem : abs initMem = Map.empty := by
  funext k; simp [abs, absOver, initMem, btGet, baseGet, Map.empty]

theorem abs_initFile : abs initFile = Map.empty := by
  funext k; simp [abs, absOver, initFile, initMem, btGet, baseGet, Map.empty]

/-! ### in-memory dictionaries have no persisted layer -/

/-- `trie: None` stays `None` -/
def MemInv (s : State) : Prop := s.fileBacked = false ∧ s.snap = [] ∧ s.inflight = none

theorem memInv_apply {s : State} (h : MemInv s) (op : Op) : MemInv (apply s op) := by
  obtain ⟨h1, h2, h3⟩ := h
  cases op with
  | add k t f tm =>
    simp only [apply]
    split
    · exact ⟨h1, h2, h3⟩
    · exact ⟨h1, h2, h3⟩
  | update k t f tm => exact ⟨h1, h2, h3⟩
  | remove k t => exact ⟨h1, h2, h3⟩
  | flush =>
    show MemInv (checkpoint s)
    rw [checkpoint_skip (Or.inr (Or.inl h1))]; exact ⟨h1, h2, h3⟩
  | reopen =>
    show MemInv (sync s)
    rw [sync_none_mem h3 h1]; exact ⟨h1, h2, h3⟩
  | closeOpen =>
    show MemInv (closeOpen s)
    have : closeOpen s = s := by simp [closeOpen, h1]
    rw [this]; exact ⟨h1, h2, h3⟩

theorem memInv_run {s : State} (h : MemInv s) (ops : List Op) : MemInv (run s ops) := by
  induction ops generalizing s with
  | nil => exact h
  | cons op ops ih => exact ih (memInv_apply h op)

end TrieBuf

namespace MapSpec
namespace Map

/-- does the operation write (add / update) the key? -/
def writes (key : PKey) : Op → Bool
  | .add k t _ _ => (k, t) == key
  | .update k t _ _ => (k, t) == key
  | _ => false

theorem apply_absent {m : Map} {key : PKey} (h : m key = none) (op : Op) (hw : writes key op = false) :
    m.apply op key = none := by
  cases op with
  | add k t f tm =>
    simp only [writes, beq_eq_false_iff_ne, ne_eq] at hw
    simp only [apply]
    split
    · rw [set_other _ _ (fun e => hw e.symm)]; exact h
    · exact h
  | update k t f tm =>
    simp only [writes, beq_eq_false_iff_ne, ne_eq] at hw
    simp only [apply]
    rw [set_other _ _ (fun e => hw e.symm)]; exact h
  | remove k t =>
    simp only [apply]
    by_cases e : key = (k, t)
    · rw [e, set_same]
    · rw [set_other _ _ e]; exact h
  | flush => exact h
  | reopen => exact h
  | closeOpen => exact h

/-- an absent key stays absent as long as it is not added or updated -/
theorem run_absent {m : Map} {key : PKey} (h : m key = none) (ops : List Op) (hw : ∀ op ∈ ops, writes key op = false) :
    m.run ops key = none := by
  induction ops generalizing m with
  | nil => exact h
  | cons op ops ih =>
    exact ih (apply_absent h op (hw op (by simp))) (fun o ho => hw o (by simp [ho]))

theorem apply_remove_absent (m : Map) (k : Key) (t : Text) : m.apply (.remove k t) (k, t) = none := by
  simp [apply]

theorem apply_add_absent {m : Map} {k : Key} {t : Text} (h : m (k, t) = none) (f : Nat) (tm : Option Nat) :
    m.apply (.add k t f tm) (k, t) = some (f, tm.getD 0) := by
  simp [apply, addOk, h]

theorem apply_update (m : Map) (k : Key) (t : Text) (f tm : Nat) : m.apply (.update k t f tm) (k, t) = some (f, tm) := by
  simp [apply]

end Map
end MapSpec

namespace Trie

/-- the early `break` of `Trie::lookup_first_n_phrases` never loses one of the first `n` phrases -/
theorem take_collect (n : Nat) (leaves : List (List Phrase)) (acc : List Phrase) :
    (collect n leaves acc).take n = (acc ++ leaves.flatten).take n := by
  induction leaves generalizing acc with
  | nil => simp [collect]
  | cons leaf rest ih =>
    simp only [collect, List.flatten_cons]
    split
    · rename_i h
      rw [← List.append_assoc]
      exact (List.take_append_of_le_length (l₂ := rest.flatten) (Nat.le_of_lt h)).symm
    · rw [ih, List.append_assoc]

end Trie

end Chewing
