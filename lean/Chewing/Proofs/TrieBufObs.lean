import Chewing.Proofs.TrieBufRefine
/-!
What `TrieBuf` *answers* (exact lookup, enumeration) against the map it denotes — in **every** state.

Before fix 8e6d504 (F10, class `UpdatePersisted`) a live key held both by the persisted snapshot and by
the pending tree was a candidate twice: `entries()` listed it twice and the exact lookup reported the
larger of the two frequencies; the theorems below carried the hypothesis "no key is shadowed".  The
persisted candidate is now dropped, the candidates of an exact lookup have pairwise different texts
(`leafOk_cands`) and the hypothesis is gone.
-/
namespace Chewing
open MapSpec

namespace TrieBuf
open Trie

/-- **exact lookup**: the answer is the map's -/
theorem lookup_agrees {s : State} (hs : Inv s) (k : Key) :
    IsLookup (abs s) k (lookupAll s k .standard) := by
  have hok := leafOk_cands hs k
  have hd : lookupAll s k .standard = entriesIterFor s k .standard := by
    unfold lookupAll
    exact dedup_of_nodup ((leafOk_iff _).mp hok)
  rw [hd]
  refine ⟨(leafOk_iff _).mp hok, ?_, ?_⟩
  · intro p hp
    obtain ⟨hg, h⟩ := (mem_cands hs).mp hp
    apply (absOver_eq_some hs.snap hs.bt).mpr
    refine ⟨hg, ?_⟩
    rcases h with ⟨⟨l, hl, e, hpl⟩, hn⟩ | ⟨v, hv, hpv⟩
    · exact Or.inr ⟨hn, l, hl, e, p, hpl, rfl, rfl⟩
    · left
      have : valOf p = v := by rw [hpv, valOf_mkPhrase]
      rw [this]; exact hv
  · intro t v hv
    exact mem_texts.mp ((cands_text_iff hs).mpr ⟨v, hv⟩)

/-- the de-duplication loop of `lookup_first_n_phrases` has nothing to do on an exact lookup -/
theorem lookupAll_std_eq_cands {s : State} (hs : Inv s) (k : Key) :
    lookupAll s k .standard = entriesIterFor s k .standard := by
  unfold lookupAll
  exact dedup_of_nodup ((leafOk_iff _).mp (leafOk_cands hs k))

/-- **exact lookup, phrases**: the answer lists exactly the live phrases of the syllables, each once -/
theorem lookup_texts {s : State} (hs : Inv s) (k : Key) :
    (texts (lookupAll s k .standard)).Nodup ∧
      ∀ t, t ∈ texts (lookupAll s k .standard) ↔ ∃ v, abs s (k, t) = some v := by
  unfold lookupAll
  refine ⟨dedup_texts_nodup _, ?_⟩
  intro t
  rw [mem_texts_dedup, cands_text_iff hs]

/-! ### enumeration -/

theorem mem_trie_entries {t : List Leaf} {e : Entry} : e ∈ Trie.entries t ↔ ∃ l ∈ t, l.1 = e.1 ∧ e.2 ∈ l.2 := by
  unfold Trie.entries
  simp only [List.mem_flatMap, List.mem_map]
  constructor
  · rintro ⟨l, hl, p, hp, rfl⟩; exact ⟨l, hl, rfl, hp⟩
  · rintro ⟨l, hl, e1, hp⟩; exact ⟨l, hl, e.2, hp, by rw [e1]⟩

theorem mem_btEntries {bt : List (PKey × Val)} {e : Entry} :
    e ∈ btEntries bt ↔ ∃ v, ((e.1, e.2.text), v) ∈ bt ∧ e.2 = mkPhrase e.2.text v := by
  unfold btEntries
  simp only [List.mem_map]
  constructor
  · rintro ⟨x, hx, rfl⟩; exact ⟨x.2, hx, rfl⟩
  · rintro ⟨v, hv, he⟩
    refine ⟨((e.1, e.2.text), v), hv, ?_⟩
    simp only
    rw [← he]

theorem mem_entries {s : State} {e : Entry} :
    e ∈ entries s ↔ (e.1, e.2.text) ∉ s.grave ∧
      (((∃ l ∈ s.snap, l.1 = e.1 ∧ e.2 ∈ l.2) ∧ ∀ w, ((e.1, e.2.text), w) ∉ s.btree) ∨
        ∃ v, ((e.1, e.2.text), v) ∈ s.btree ∧ e.2 = mkPhrase e.2.text v) := by
  unfold entries
  simp only [List.mem_filter, List.mem_append, mem_trie_entries, mem_btEntries, List.contains_eq_mem,
    Bool.not_eq_true', decide_eq_false_iff_not, btHas_false]
  constructor
  · rintro ⟨h1, h2⟩; exact ⟨h2, h1⟩
  · rintro ⟨h1, h2⟩; exact ⟨h2, h1⟩

/-- the entry's own key -/
def pkeyOf (e : Entry) : PKey := (e.1, e.2.text)

theorem pairwise_trie_entries {t : List Leaf} (h : SnapOk t) :
    (Trie.entries t).Pairwise (fun a b => pkeyOf a ≠ pkeyOf b) := by
  unfold Trie.entries
  rw [List.pairwise_flatMap]
  constructor
  · intro l hl
    rw [List.pairwise_map]
    refine List.Pairwise.imp ?_ (h.2 l hl)
    intro a b hab e
    simp only [pkeyOf, Prod.mk.injEq, true_and] at e
    exact hab e
  · refine List.Pairwise.imp ?_ h.1
    intro a b hab x hx y hy e
    simp only [List.mem_map] at hx hy
    obtain ⟨p, _, rfl⟩ := hx
    obtain ⟨q, _, rfl⟩ := hy
    simp only [pkeyOf, Prod.mk.injEq] at e
    exact hab e.1

theorem pairwise_btEntries {bt : List (PKey × Val)} (h : KeysOk bt) :
    (btEntries bt).Pairwise (fun a b => pkeyOf a ≠ pkeyOf b) := by
  unfold btEntries
  rw [List.pairwise_map]
  refine List.Pairwise.imp ?_ h
  intro a b hab e
  simp only [pkeyOf, mkPhrase] at e
  exact hab e

/-- **enumeration**: exactly the live entries, each once -/
theorem entries_agrees {s : State} (hs : Inv s) : IsEntries (abs s) (entries s) := by
  refine ⟨?_, ?_, ?_⟩
  · show ((entries s).map pkeyOf).Nodup
    unfold List.Nodup
    rw [List.pairwise_map]
    unfold entries
    refine List.Pairwise.filter _ ?_
    rw [List.pairwise_append]
    refine ⟨List.Pairwise.filter _ (pairwise_trie_entries hs.snap), pairwise_btEntries hs.bt, ?_⟩
    intro a ha b hb e
    -- a persisted entry that is listed has no pending entry of its key
    simp only [List.mem_filter, Bool.not_eq_true', btHas_false] at ha
    obtain ⟨w, hw, _⟩ := mem_btEntries.mp hb
    simp only [pkeyOf, Prod.mk.injEq] at e
    exact ha.2 w (by rw [e.1, e.2]; exact hw)
  · intro e he
    obtain ⟨hg, h⟩ := mem_entries.mp he
    apply (absOver_eq_some hs.snap hs.bt).mpr
    refine ⟨hg, ?_⟩
    rcases h with ⟨⟨l, hl, el, hpl⟩, hn⟩ | ⟨v, hv, hpv⟩
    · exact Or.inr ⟨hn, l, hl, el, e.2, hpl, rfl, rfl⟩
    · left
      have : valOf e.2 = v := by rw [hpv, valOf_mkPhrase]
      rw [this]; exact hv
  · intro k t v hv
    obtain ⟨hg, h⟩ := (absOver_eq_some hs.snap hs.bt).mp hv
    rcases h with h | ⟨hn, l, hl, el, p, hp, et, _⟩
    · exact ⟨(k, mkPhrase t v), mem_entries.mpr ⟨hg, Or.inr ⟨v, h, rfl⟩⟩, rfl, rfl⟩
    · refine ⟨(k, p), mem_entries.mpr ⟨by simp only [et]; exact hg, Or.inl ⟨⟨l, hl, el, hp⟩, ?_⟩⟩, rfl, et⟩
      simp only [et]; exact hn

end TrieBuf

end Chewing
