import Chewing.Proofs.TrieBufRefine
/-!
What `TrieBuf` *answers* (exact lookup, enumeration) against the map it denotes.

`shadowed s key`: the key is live, pending **and** present in the persisted snapshot — class
`UpdatePersisted` of finding F10.  Outside that class the answers are exactly those of the map;
inside it the set of phrases is still right (`lookup_texts`), the reported value / multiplicity is not.
-/
namespace Chewing
open MapSpec

namespace TrieBuf
open Trie

/-- F10 class `UpdatePersisted`: a live key held both by the persisted snapshot and by the pending tree -/
def shadowed (s : State) (key : PKey) : Bool :=
  !(s.grave.contains key) && (btGet s.btree key).isSome && (baseGet s.snap key).isSome

theorem shadowed_iff {s : State} (hs : Inv s) {k : Key} {t : Text} :
    shadowed s (k, t) = true ↔
      (k, t) ∉ s.grave ∧ (∃ w, ((k, t), w) ∈ s.btree) ∧ ∃ l ∈ s.snap, l.1 = k ∧ ∃ p ∈ l.2, p.text = t := by
  unfold shadowed
  simp only [Bool.and_eq_true, Bool.not_eq_true', List.contains_eq_mem, decide_eq_false_iff_not, Option.isSome_iff_exists,
    btGet_iff hs.bt, baseGet_iff hs.snap]
  constructor
  · rintro ⟨⟨h1, h2⟩, v, l, hl, e, p, hp, et, _⟩
    exact ⟨h1, h2, l, hl, e, p, hp, et⟩
  · rintro ⟨h1, h2, l, hl, e, p, hp, et⟩
    exact ⟨⟨h1, h2⟩, valOf p, l, hl, e, p, hp, et, rfl⟩

/-- without a shadowed key under `k`, the candidates of the exact lookup have pairwise different texts -/
theorem leafOk_cands {s : State} (hs : Inv s) (k : Key) (hn : ∀ t, shadowed s (k, t) = false) :
    LeafOk (entriesIterFor s k .standard) := by
  rw [cands_split]
  unfold LeafOk
  rw [List.pairwise_append]
  refine ⟨leafOk_filter (leafOk_lookupAll_std hs.snap k) _, leafOk_filter (leafOk_btreeRange hs.bt k) _, ?_⟩
  intro a ha b hb e
  rw [mem_filter_grave, mem_lookupAll_std hs.snap] at ha
  rw [mem_filter_grave, mem_btreeRange hs.range] at hb
  obtain ⟨⟨l, hl, el, hal⟩, hg⟩ := ha
  obtain ⟨⟨w, hw, _⟩, _⟩ := hb
  have : shadowed s (k, a.text) = true :=
    (shadowed_iff hs).mpr ⟨hg, ⟨w, by rw [e]; exact hw⟩, l, hl, el, a, hal, rfl⟩
  rw [hn a.text] at this
  exact absurd this (by simp)

/-- **exact lookup, values**: outside class `UpdatePersisted` the answer is the map's -/
theorem lookup_agrees {s : State} (hs : Inv s) (k : Key) (hn : ∀ t, shadowed s (k, t) = false) :
    IsLookup (abs s) k (lookupAll s k .standard) := by
  have hok := leafOk_cands hs k hn
  have hd : lookupAll s k .standard = entriesIterFor s k .standard := by
    unfold lookupAll
    exact dedup_of_nodup ((leafOk_iff _).mp hok)
  rw [hd]
  refine ⟨(leafOk_iff _).mp hok, ?_, ?_⟩
  · intro p hp
    obtain ⟨hg, h⟩ := (mem_cands hs).mp hp
    apply (absOver_eq_some hs.snap hs.bt).mpr
    refine ⟨hg, ?_⟩
    rcases h with ⟨l, hl, e, hpl⟩ | ⟨v, hv, hpv⟩
    · refine Or.inr ⟨?_, l, hl, e, p, hpl, rfl, rfl⟩
      intro w hw
      have : shadowed s (k, p.text) = true := (shadowed_iff hs).mpr ⟨hg, ⟨w, hw⟩, l, hl, e, p, hpl, rfl⟩
      rw [hn p.text] at this
      exact absurd this (by simp)
    · left
      have : valOf p = v := by rw [hpv, valOf_mkPhrase]
      rw [this]; exact hv
  · intro t v hv
    exact mem_texts.mp ((cands_text_iff hs).mpr ⟨v, hv⟩)

/-- **exact lookup, phrases**: in *every* reachable state the answer lists exactly the live phrases
    of the syllables, each once (only the value may be stale inside class `UpdatePersisted`) -/
theorem lookup_texts {s : State} (hs : Inv s) (k : Key) :
    (texts (lookupAll s k .standard)).Nodup ∧
      ∀ t, t ∈ texts (lookupAll s k .standard) ↔ ∃ v, abs s (k, t) = some v := by
  unfold lookupAll
  refine ⟨dedup_texts_nodup _, ?_⟩
  intro t
  rw [mem_texts_dedup, cands_text_iff hs]

/-! ### enumeration -/

theorem mem_trie_entries {t : List Leaf} {e : Entry} : e ∈ Trie.entries t ↔ ∃ l ∈ t, l.1 = e.1 ∧ e.2 ∈ l.2 := by
  unfold Trie.entries
  simp only [List.mem_flatMap, List.mem_map]
  constructor
  · rintro ⟨l, hl, p, hp, rfl⟩; exact ⟨l, hl, rfl, hp⟩
  · rintro ⟨l, hl, e1, hp⟩; exact ⟨l, hl, e.2, hp, by rw [e1]⟩

theorem mem_btEntries {bt : List (PKey × Val)} {e : Entry} :
    e ∈ btEntries bt ↔ ∃ v, ((e.1, e.2.text), v) ∈ bt ∧ e.2 = mkPhrase e.2.text v := by
  unfold btEntries
  simp only [List.mem_map]
  constructor
  · rintro ⟨x, hx, rfl⟩; exact ⟨x.2, hx, rfl⟩
  · rintro ⟨v, hv, he⟩
    refine ⟨((e.1, e.2.text), v), hv, ?_⟩
    simp only
    rw [← he]

theorem mem_entries {s : State} {e : Entry} :
    e ∈ entries s ↔ (e.1, e.2.text) ∉ s.grave ∧
      ((∃ l ∈ s.snap, l.1 = e.1 ∧ e.2 ∈ l.2) ∨ ∃ v, ((e.1, e.2.text), v) ∈ s.btree ∧ e.2 = mkPhrase e.2.text v) := by
  unfold entries
  simp only [List.mem_filter, List.mem_append, mem_trie_entries, mem_btEntries, List.contains_eq_mem,
    Bool.not_eq_true', decide_eq_false_iff_not]
  constructor
  · rintro ⟨h1, h2⟩; exact ⟨h2, h1⟩
  · rintro ⟨h1, h2⟩; exact ⟨h2, h1⟩

/-- the entry's own key -/
def pkeyOf (e : Entry) : PKey := (e.1, e.2.text)

theorem pairwise_trie_entries {t : List Leaf} (h : SnapOk t) :
    (Trie.entries t).Pairwise (fun a b => pkeyOf a ≠ pkeyOf b) := by
  unfold Trie.entries
  rw [List.pairwise_flatMap]
  constructor
  · intro l hl
    rw [List.pairwise_map]
    refine List.Pairwise.imp ?_ (h.2 l hl)
    intro a b hab e
    simp only [pkeyOf, Prod.mk.injEq, true_and] at e
    exact hab e
  · refine List.Pairwise.imp ?_ h.1
    intro a b hab x hx y hy e
    simp only [List.mem_map] at hx hy
    obtain ⟨p, _, rfl⟩ := hx
    obtain ⟨q, _, rfl⟩ := hy
    simp only [pkeyOf, Prod.mk.injEq] at e
    exact hab e.1

theorem pairwise_btEntries {bt : List (PKey × Val)} (h : KeysOk bt) :
    (btEntries bt).Pairwise (fun a b => pkeyOf a ≠ pkeyOf b) := by
  unfold btEntries
  rw [List.pairwise_map]
  refine List.Pairwise.imp ?_ h
  intro a b hab e
  simp only [pkeyOf, mkPhrase] at e
  exact hab e

/-- **enumeration**: outside class `UpdatePersisted` it yields exactly the live entries, each once -/
theorem entries_agrees {s : State} (hs : Inv s) (hn : ∀ key, shadowed s key = false) :
    IsEntries (abs s) (entries s) := by
  refine ⟨?_, ?_, ?_⟩
  · show ((entries s).map pkeyOf).Nodup
    unfold List.Nodup
    rw [List.pairwise_map]
    unfold entries
    rw [List.filter_append, List.pairwise_append]
    refine ⟨List.Pairwise.filter _ (pairwise_trie_entries hs.snap), List.Pairwise.filter _ (pairwise_btEntries hs.bt), ?_⟩
    intro a ha b hb e
    -- a persisted and a pending live entry with the same key: shadowed
    simp only [List.mem_filter, List.contains_eq_mem, Bool.not_eq_true', decide_eq_false_iff_not] at ha hb
    obtain ⟨ha, hg⟩ := ha
    obtain ⟨hb, _⟩ := hb
    rw [mem_trie_entries] at ha
    rw [mem_btEntries] at hb
    obtain ⟨l, hl, el, hal⟩ := ha
    obtain ⟨w, hw, _⟩ := hb
    simp only [pkeyOf, Prod.mk.injEq] at e
    have : shadowed s (a.1, a.2.text) = true :=
      (shadowed_iff hs).mpr ⟨hg, ⟨w, by rw [e.1, e.2]; exact hw⟩, l, hl, el, a.2, hal, rfl⟩
    rw [hn _] at this
    exact absurd this (by simp)
  · intro e he
    obtain ⟨hg, h⟩ := mem_entries.mp he
    apply (absOver_eq_some hs.snap hs.bt).mpr
    refine ⟨hg, ?_⟩
    rcases h with ⟨l, hl, el, hpl⟩ | ⟨v, hv, hpv⟩
    · refine Or.inr ⟨?_, l, hl, el, e.2, hpl, rfl, rfl⟩
      intro w hw
      have : shadowed s (e.1, e.2.text) = true := (shadowed_iff hs).mpr ⟨hg, ⟨w, hw⟩, l, hl, el, e.2, hpl, rfl⟩
      rw [hn _] at this
      exact absurd this (by simp)
    · left
      have : valOf e.2 = v := by rw [hpv, valOf_mkPhrase]
      rw [this]; exact hv
  · intro k t v hv
    obtain ⟨hg, h⟩ := (absOver_eq_some hs.snap hs.bt).mp hv
    rcases h with h | ⟨_, l, hl, el, p, hp, et, _⟩
    · exact ⟨(k, mkPhrase t v), mem_entries.mpr ⟨hg, Or.inr ⟨v, h, rfl⟩⟩, rfl, rfl⟩
    · refine ⟨(k, p), mem_entries.mpr ⟨by simp only [et]; exact hg, Or.inl ⟨l, hl, el, hp⟩⟩, rfl, et⟩

end TrieBuf

end Chewing
