import Chewing.Proofs.TrieBufAbs
/-!
The representation invariant of `TrieBuf`, the snapshot lemma (`build_abs`: the file the writer
produces denotes the same map as the dictionary it was taken from) and the refinement step:
every operation preserves the invariant and acts on the denoted map as `MapSpec.Map.apply`.
-/
namespace Chewing
open MapSpec

namespace TrieBuf
open Trie

/-- representation invariant (sequential schedules) -/
structure Inv (s : State) : Prop where
  /-- the pending tree is a map -/
  bt : KeysOk s.btree
  snap : SnapOk s.snap
  file : SnapOk s.file
  infl : ∀ t, s.inflight = some t → SnapOk t
  /-- re-reading the file does not change what the dictionary denotes -/
  fileAgree : absOver s.file s = abs s
  /-- nor does putting the writer's output on disk -/
  inflAgree : ∀ t, s.inflight = some t → absOver t s = abs s
  /-- unmodified since `checkpoint()`: the writer's output *is* the denoted map -/
  inflClean : ∀ t, s.inflight = some t → s.dirty = false → ∀ k, baseGet t k = abs s k
  /-- unmodified and no writer: the file is the denoted map -/
  cleanFile : s.dirty = false → s.inflight = none → ∀ k, baseGet s.file k = abs s k

theorem absOver_eq_some {b : List Leaf} {s : State} (hb : SnapOk b) (hk : KeysOk s.btree) {k : Key} {t : Text} {v : Val} :
    absOver b s (k, t) = some v ↔
      (k, t) ∉ s.grave ∧
        (((k, t), v) ∈ s.btree ∨
          ((∀ w, ((k, t), w) ∉ s.btree) ∧ ∃ l ∈ b, l.1 = k ∧ ∃ p ∈ l.2, p.text = t ∧ valOf p = v)) := by
  unfold absOver
  rw [List.contains_eq_mem]
  by_cases hg : (k, t) ∈ s.grave
  · simp [hg]
  · simp only [hg, decide_false, Bool.false_eq_true, if_false, not_false_eq_true, true_and, Option.or_eq_some_iff,
      btGet_iff hk, btGet_eq_none, baseGet_iff hb]

/-- candidates of an exact lookup, as membership: a persisted phrase of the key that has no pending
    entry, or a pending entry of the key — minus tombstones -/
theorem mem_cands {s : State} (hs : Inv s) {k : Key} {p : Phrase} :
    p ∈ entriesIterFor s k .standard ↔
      (k, p.text) ∉ s.grave ∧
        (((∃ l ∈ s.snap, l.1 = k ∧ p ∈ l.2) ∧ ∀ w, ((k, p.text), w) ∉ s.btree) ∨
          (∃ v, ((k, p.text), v) ∈ s.btree ∧ p = mkPhrase p.text v)) := by
  unfold entriesIterFor
  simp only [List.mem_filter, List.mem_append, mem_lookupAll_std hs.snap, mem_btreeRange,
    List.contains_eq_mem, Bool.not_eq_true', decide_eq_false_iff_not, btHas_false]
  constructor
  · rintro ⟨h1, h2⟩; exact ⟨h2, h1⟩
  · rintro ⟨h1, h2⟩; exact ⟨h2, h1⟩

theorem mem_filter_grave {s : State} {k : Key} {l : List Phrase} {p : Phrase} :
    p ∈ l.filter (fun p => !(s.grave.contains (k, p.text))) ↔ p ∈ l ∧ (k, p.text) ∉ s.grave := by
  simp only [List.mem_filter, List.contains_eq_mem, Bool.not_eq_true', decide_eq_false_iff_not]

/-- the value a pending phrase stands for -/
theorem mkPhrase_text (t : Text) (v : Val) : (mkPhrase t v).text = t := rfl

/-- a text is among the candidates iff the key is live in the denoted map -/
theorem cands_text_iff {s : State} (hs : Inv s) {k : Key} {t : Text} :
    t ∈ texts (entriesIterFor s k .standard) ↔ ∃ v, abs s (k, t) = some v := by
  rw [mem_texts]
  constructor
  · rintro ⟨p, hp, rfl⟩
    obtain ⟨hg, h⟩ := (mem_cands hs).mp hp
    rcases h with ⟨⟨l, hl, e, hpl⟩, hn⟩ | ⟨v, hv, _⟩
    · exact ⟨valOf p, (absOver_eq_some hs.snap hs.bt).mpr ⟨hg, Or.inr ⟨hn, l, hl, e, p, hpl, rfl, rfl⟩⟩⟩
    · exact ⟨v, (absOver_eq_some hs.snap hs.bt).mpr ⟨hg, Or.inl hv⟩⟩
  · rintro ⟨v, hv⟩
    obtain ⟨hg, h⟩ := (absOver_eq_some hs.snap hs.bt).mp hv
    rcases h with h | ⟨hn, l, hl, e, p, hp, et, _⟩
    · exact ⟨mkPhrase t v, (mem_cands hs).mpr ⟨hg, Or.inr ⟨v, h, rfl⟩⟩, rfl⟩
    · refine ⟨p, (mem_cands hs).mpr ⟨by rw [et]; exact hg, Or.inl ⟨⟨l, hl, e, hp⟩, by rw [et]; exact hn⟩⟩, et⟩

/-- `add_phrase` is accepted exactly when the key is not live -/
theorem addOk_eq {s : State} (hs : Inv s) (k : Key) (t : Text) : addOk s k t = (abs s).addOk k t := by
  unfold addOk Map.addOk
  rw [Bool.eq_iff_iff]
  simp only [Bool.not_eq_true', Option.isNone_iff_eq_none]
  constructor
  · intro h
    cases hv : abs s (k, t) with
    | none => rfl
    | some v =>
      have := (cands_text_iff hs).mpr ⟨v, hv⟩
      have h2 := (any_text_iff _ t).mpr this
      rw [h] at h2; exact absurd h2 (by simp)
  · intro h
    cases ha : (entriesIterFor s k .standard).any (fun p => p.text == t) with
    | false => rfl
    | true =>
      obtain ⟨v, hv⟩ := (cands_text_iff hs).mp ((any_text_iff _ t).mp ha)
      rw [h] at hv; exact absurd hv (by simp)

/-! ### the entries inserted under one key when a snapshot is built -/

theorem filter_key_entries (nt : Entry → Bool) (f : Phrase → Bool) (k : Key)
    (hf : ∀ e : Entry, e.1 = k → nt e = f e.2) (es : List Entry) :
    ((es.filter nt).filter (fun e => e.1 == k)).map (·.2) = ((es.filter (fun e => e.1 == k)).map (·.2)).filter f := by
  induction es with
  | nil => rfl
  | cons e r ih =>
    by_cases hk : e.1 = k
    · have hb : (e.1 == k) = true := by simpa using hk
      by_cases hn : nt e = true
      · have hfe : f e.2 = true := by rw [← hf e hk]; exact hn
        simp only [List.filter_cons, hn, hb, if_true, List.map_cons, hfe, ih]
      · have hn' : nt e = false := by simpa using hn
        have hfe : f e.2 = false := by rw [← hf e hk]; exact hn'
        simp only [List.filter_cons, hn', hb, if_true, List.map_cons, hfe, ih, Bool.false_eq_true, if_false]
    · have hb : (e.1 == k) = false := by simpa using hk
      by_cases hn : nt e = true
      · simp only [List.filter_cons, hn, hb, if_true, Bool.false_eq_true, if_false, ih]
      · have hn' : nt e = false := by simpa using hn
        simp only [List.filter_cons, hn', hb, Bool.false_eq_true, if_false, ih]

theorem trie_entries_of_key (t : List Leaf) (k : Key) :
    ((Trie.entries t).filter (fun e => e.1 == k)).map (·.2) = Trie.lookupAll t k .standard := by
  have key : ∀ t : List Leaf,
      Trie.lookupAll t k .standard = ((t.filter (fun l => l.1 == k)).map (·.2)).flatten := fun _ => rfl
  rw [key]
  induction t with
  | nil => rfl
  | cons x r ih =>
    have hx : ∀ ps : List Phrase, ((ps.map (fun p => (x.1, p))).filter (fun e : Entry => e.1 == k)).map (·.2)
        = if (x.1 == k) = true then ps else [] := by
      intro ps
      induction ps with
      | nil => simp
      | cons p ps ihp =>
        by_cases hb : (x.1 == k) = true
        · simp only [hb, if_true] at ihp ⊢
          simp only [List.map_cons, List.filter_cons, hb, if_true, ihp]
        · have hb' : (x.1 == k) = false := by simpa using hb
          simp only [hb', Bool.false_eq_true, if_false] at ihp ⊢
          simp only [List.map_cons, List.filter_cons, hb', Bool.false_eq_true, if_false, ihp]
    unfold Trie.entries at ih ⊢
    simp only [List.flatMap_cons, List.filter_append, List.map_append, hx, ih]
    by_cases hb : (x.1 == k) = true
    · simp only [hb, if_true, List.filter_cons, List.map_cons, List.flatten_cons]
    · have hb' : (x.1 == k) = false := by simpa using hb
      simp only [hb', Bool.false_eq_true, if_false, List.filter_cons, List.nil_append]

theorem bt_entries_of_key (bt : List (PKey × Val)) (k : Key) :
    ((btEntries bt).filter (fun e => e.1 == k)).map (·.2) = btreeRange bt k := by
  unfold btEntries btreeRange
  rw [List.filter_map, List.map_map]
  rfl

/-- the phrases a snapshot inserts under `k` are the candidates of the exact lookup of `k` -/
theorem entries_of_key (s : State) (k : Key) :
    ((entries s).filter (fun e => e.1 == k)).map (·.2) = entriesIterFor s k .standard := by
  unfold entries entriesIterFor
  rw [filter_key_entries (fun e => !(s.grave.contains (e.1, e.2.text))) (fun p => !(s.grave.contains (k, p.text))) k
    (by intro e he; simp [he])]
  rw [List.filter_append, List.map_append,
    filter_key_entries (fun e => !(btHas s.btree (e.1, e.2.text))) (fun p => !(btHas s.btree (k, p.text))) k
      (by intro e he; simp [he]),
    trie_entries_of_key, bt_entries_of_key]

theorem leafOk_filter {ps : List Phrase} (h : LeafOk ps) (f : Phrase → Bool) : LeafOk (ps.filter f) :=
  List.Pairwise.filter _ h

/-- the candidates of an exact lookup have pairwise different texts, in **every** state: a persisted
    phrase that has a pending entry is dropped (fix 8e6d504, F10) -/
theorem leafOk_cands {s : State} (hs : Inv s) (k : Key) : LeafOk (entriesIterFor s k .standard) := by
  unfold entriesIterFor
  refine leafOk_filter ?_ _
  unfold LeafOk
  rw [List.pairwise_append]
  refine ⟨leafOk_filter (leafOk_lookupAll_std hs.snap k) _, leafOk_btreeRange hs.bt k, ?_⟩
  intro a ha b hb e
  simp only [List.mem_filter, Bool.not_eq_true', btHas_false] at ha
  obtain ⟨w, hw, _⟩ := mem_btreeRange.mp hb
  exact ha.2 w (by rw [e]; exact hw)

/-- **snapshot lemma**: the file written from `entries()` holds, for every key, exactly the value
    the dictionary denotes -/
theorem build_abs {s : State} (hs : Inv s) (key : PKey) : baseGet (build (entries s)) key = abs s key := by
  obtain ⟨k, t⟩ := key
  apply Option.ext
  intro v
  rw [baseGet_build]
  unfold leafOf
  rw [entries_of_key]
  have hC := leafOk_cands hs k
  have hmem : ∀ p, p ∈ (entriesIterFor s k .standard).foldl insRepl [] ↔ p ∈ entriesIterFor s k .standard := by
    intro p; rw [mem_foldl_insRepl hC]; simp
  constructor
  · rintro ⟨p, hp, et, hv⟩
    rw [hmem] at hp
    obtain ⟨hg, h⟩ := (mem_cands hs).mp hp
    apply (absOver_eq_some hs.snap hs.bt).mpr
    rw [et] at hg
    refine ⟨hg, ?_⟩
    rcases h with ⟨⟨l, hl, e, hpl⟩, hn⟩ | ⟨w, hw, hpw⟩
    · rw [et] at hn
      exact Or.inr ⟨hn, l, hl, e, p, hpl, et, hv⟩
    · left
      rw [et] at hw
      have : w = v := by rw [← hv, hpw, valOf_mkPhrase]
      rw [← this]; exact hw
  · intro h
    obtain ⟨hg, h⟩ := (absOver_eq_some hs.snap hs.bt).mp h
    rcases h with h | ⟨hn, l, hl, e, p, hp, et, hv⟩
    · refine ⟨mkPhrase t v, ?_, rfl, valOf_mkPhrase t v⟩
      rw [hmem]
      exact (mem_cands hs).mpr ⟨hg, Or.inr ⟨v, h, rfl⟩⟩
    · refine ⟨p, ?_, et, hv⟩
      rw [hmem]
      exact (mem_cands hs).mpr ⟨by rw [et]; exact hg, Or.inl ⟨⟨l, hl, e, hp⟩, by rw [et]; exact hn⟩⟩

/-! ### invariant preservation and the refinement step -/

/-- a state without pending entries and tombstones denotes its snapshot -/
theorem absOver_empty (b : List Leaf) {s : State} (h1 : s.btree = []) (h2 : s.grave = []) (k : PKey) :
    absOver b s k = baseGet b k := by
  simp [absOver, btGet, h1, h2]

theorem inv_of_empty {s : State} (hsnap : SnapOk s.snap) (hfile : s.file = s.snap) (hi : s.inflight = none)
    (h1 : s.btree = []) (h2 : s.grave = []) : Inv s := by
  refine ⟨by rw [h1]; exact List.Pairwise.nil, hsnap, by rw [hfile]; exact hsnap, by simp [hi],
    by unfold abs; rw [hfile], by simp [hi], by simp [hi], ?_⟩
  intro _ _ k
  unfold abs
  rw [hfile, absOver_empty _ h1 h2]

theorem inv_initMem : Inv initMem :=
  inv_of_empty ⟨List.Pairwise.nil, by simp [initMem]⟩ rfl rfl rfl rfl

theorem inv_initFile : Inv initFile :=
  inv_of_empty ⟨List.Pairwise.nil, by simp [initFile, initMem]⟩ rfl rfl rfl rfl

theorem abs_put {s : State} (hs : Inv s) (k : PKey) (v : Val) : abs (put s k v) = (abs s).set k (some v) :=
  absOver_put s.snap hs.bt k v

theorem abs_removeSt {s : State} (hs : Inv s) (k : PKey) : abs (removeSt s k) = (abs s).set k none :=
  absOver_remove s.snap hs.bt k

theorem inv_put {s : State} (hs : Inv s) (k : PKey) (v : Val) : Inv (put s k v) := by
  refine ⟨keysOk_btInsert hs.bt k v, hs.snap, hs.file, hs.infl, ?_, ?_, ?_, ?_⟩
  · show absOver s.file (put s k v) = _
    rw [absOver_put s.file hs.bt, abs_put hs, hs.fileAgree]
  · intro t ht
    rw [absOver_put t hs.bt, abs_put hs, hs.inflAgree t ht]
  · intro t _ hd; simp [put] at hd
  · intro hd; simp [put] at hd

theorem inv_removeSt {s : State} (hs : Inv s) (k : PKey) : Inv (removeSt s k) := by
  refine ⟨keysOk_btErase hs.bt k, hs.snap, hs.file, hs.infl, ?_, ?_, ?_, ?_⟩
  · show absOver s.file (removeSt s k) = _
    rw [absOver_remove s.file hs.bt, abs_removeSt hs, hs.fileAgree]
  · intro t ht
    rw [absOver_remove t hs.bt, abs_removeSt hs, hs.inflAgree t ht]
  · intro t _ hd; simp [removeSt] at hd
  · intro hd; simp [removeSt] at hd

/-! `checkpoint` and `sync`, case by case -/

theorem checkpoint_fire {s : State} (hi : s.inflight = none) (hf : s.fileBacked = true) (hd : s.dirty = true) :
    checkpoint s = { s with inflight := some (build (entries s)), dirty := false } := by
  simp [checkpoint, hi, hf, hd]

theorem checkpoint_skip {s : State} (h : s.inflight ≠ none ∨ s.fileBacked = false ∨ s.dirty = false) :
    checkpoint s = s := by
  unfold checkpoint
  rcases h with h | h | h
  · cases hi : s.inflight with
    | none => exact absurd hi h
    | some t => simp
  · simp [h]
  · simp [h]

theorem sync_some_dirty {s : State} {t : List Leaf} (hi : s.inflight = some t) (hd : s.dirty = true) :
    sync s = { s with inflight := none, file := t } := by
  simp [sync, hi, hd]

theorem sync_some_clean {s : State} {t : List Leaf} (hi : s.inflight = some t) (hd : s.dirty = false) :
    sync s = { s with inflight := none, file := t, snap := t, btree := [], grave := [] } := by
  simp [sync, hi, hd]

theorem sync_none_file {s : State} (hi : s.inflight = none) (hf : s.fileBacked = true) :
    sync s = { s with snap := s.file } := by
  simp [sync, hi, hf]

theorem sync_none_mem {s : State} (hi : s.inflight = none) (hf : s.fileBacked = false) : sync s = s := by
  simp [sync, hi, hf]

theorem or_absorb (a b : Option Val) : a.or (a.or b) = a.or b := by cases a <;> simp

/-- if a file holds exactly the denoted map, laying the pending changes over it changes nothing -/
theorem absOver_of_clean {t : List Leaf} {s : State} (h : ∀ k, baseGet t k = abs s k) : absOver t s = abs s := by
  funext k
  unfold absOver
  rw [h k]
  unfold abs absOver
  by_cases hg : s.grave.contains k = true
  · simp only [hg, if_true]
  · simp only [hg]
    exact or_absorb _ _

theorem inv_checkpoint {s : State} (hs : Inv s) : Inv (checkpoint s) ∧ abs (checkpoint s) = abs s := by
  by_cases h : s.inflight = none ∧ s.fileBacked = true ∧ s.dirty = true
  · obtain ⟨hi, hf, hd⟩ := h
    rw [checkpoint_fire hi hf hd]
    have hclean : ∀ k, baseGet (build (entries s)) k = abs s k := build_abs hs
    refine ⟨⟨hs.bt, hs.snap, hs.file, ?_, hs.fileAgree, ?_, ?_, ?_⟩, rfl⟩
    · intro t ht
      simp only [Option.some.injEq] at ht
      rw [← ht]; exact snapOk_build _
    · intro t ht
      simp only [Option.some.injEq] at ht
      rw [← ht]; exact absOver_of_clean hclean
    · intro t ht _ k
      simp only [Option.some.injEq] at ht
      rw [← ht]; exact hclean k
    · intro _ hn; simp at hn
  · have : s.inflight ≠ none ∨ s.fileBacked = false ∨ s.dirty = false := by
      by_cases h1 : s.inflight = none
      · by_cases h2 : s.fileBacked = true
        · by_cases h3 : s.dirty = true
          · exact absurd ⟨h1, h2, h3⟩ h
          · exact Or.inr (Or.inr (by simpa using h3))
        · exact Or.inr (Or.inl (by simpa using h2))
      · exact Or.inl h1
    rw [checkpoint_skip this]
    exact ⟨hs, rfl⟩

theorem inv_sync {s : State} (hs : Inv s) : Inv (sync s) ∧ abs (sync s) = abs s := by
  cases hi : s.inflight with
  | some t =>
    cases hd : s.dirty with
    | true =>
      rw [sync_some_dirty hi hd]
      refine ⟨⟨hs.bt, hs.snap, hs.infl t hi, by simp, hs.inflAgree t hi, by simp, by simp, ?_⟩, rfl⟩
      intro hd'; simp [hd] at hd'
    | false =>
      rw [sync_some_clean hi hd]
      have habs : abs { s with inflight := none, file := t, snap := t, btree := [], grave := [] } = abs s := by
        funext k
        show absOver t _ k = _
        rw [absOver_empty t rfl rfl]
        exact hs.inflClean t hi hd k
      exact ⟨inv_of_empty (hs.infl t hi) rfl rfl rfl rfl, habs⟩
  | none =>
    cases hf : s.fileBacked with
    | true =>
      rw [sync_none_file hi hf]
      have habs : abs { s with snap := s.file } = abs s := hs.fileAgree
      refine ⟨⟨hs.bt, hs.file, hs.file, ?_, rfl, ?_, ?_, ?_⟩, habs⟩
      · intro t ht; simp [hi] at ht
      · intro t ht; simp [hi] at ht
      · intro t ht; simp [hi] at ht
      · intro hd _ k
        rw [habs]
        exact hs.cleanFile hd hi k
    | false =>
      rw [sync_none_mem hi hf]
      exact ⟨hs, rfl⟩

theorem sync_inflight (s : State) : (sync s).inflight = none := by
  cases hi : s.inflight with
  | some t =>
    cases hd : s.dirty with
    | true => rw [sync_some_dirty hi hd]
    | false => rw [sync_some_clean hi hd]
  | none =>
    cases hf : s.fileBacked with
    | true => rw [sync_none_file hi hf]; exact hi
    | false => rw [sync_none_mem hi hf]; exact hi

theorem sync_fileBacked (s : State) : (sync s).fileBacked = s.fileBacked := by
  cases hi : s.inflight with
  | some t =>
    cases hd : s.dirty with
    | true => rw [sync_some_dirty hi hd]
    | false => rw [sync_some_clean hi hd]
  | none =>
    cases hf : s.fileBacked with
    | true => rw [sync_none_file hi hf]; exact hf
    | false => rw [sync_none_mem hi hf]; exact hf

/-- what `closeOpen` finds in the file: a clean state whose file (or writer output) is the denoted map -/
theorem closeOpen_file {s : State} (hs : Inv s) (hf : s.fileBacked = true) :
    ∃ f, closeOpen s = { initFile with snap := f, file := f } ∧ SnapOk f ∧ ∀ k, baseGet f k = abs s k := by
  have h1 := inv_sync hs
  have hi := sync_inflight s
  have hfb : (sync s).fileBacked = true := by rw [sync_fileBacked, hf]
  cases hd : (sync s).dirty with
  | true =>
    refine ⟨build (entries (sync s)), ?_, snapOk_build _, ?_⟩
    · simp [closeOpen, hf, checkpoint_fire hi hfb hd]
    · intro k; rw [build_abs h1.1, h1.2]
  | false =>
    refine ⟨(sync s).file, ?_, h1.1.file, ?_⟩
    · simp [closeOpen, hf, checkpoint_skip (Or.inr (Or.inr hd)), hi]
    · intro k; rw [h1.1.cleanFile hd hi k, h1.2]

theorem inv_closeOpen {s : State} (hs : Inv s) : Inv (closeOpen s) ∧ abs (closeOpen s) = abs s := by
  cases hf : s.fileBacked with
  | true =>
    obtain ⟨f, e, hok, hv⟩ := closeOpen_file hs hf
    rw [e]
    refine ⟨inv_of_empty hok rfl rfl rfl rfl, ?_⟩
    funext k
    show absOver f _ k = _
    rw [absOver_empty f rfl rfl, hv k]
  | false =>
    have : closeOpen s = s := by simp [closeOpen, hf]
    rw [this]; exact ⟨hs, rfl⟩

theorem apply_remove (s : State) (k : Key) (t : Text) : apply s (.remove k t) = removeSt s (k, t) := rfl

/-- every operation preserves the invariant -/
theorem inv_apply {s : State} (hs : Inv s) (op : Op) : Inv (apply s op) := by
  cases op with
  | add k t f tm =>
    simp only [apply]
    split
    · exact inv_put hs _ _
    · exact hs
  | update k t f tm => exact inv_put hs _ _
  | remove k t => rw [apply_remove]; exact inv_removeSt hs _
  | flush => exact (inv_checkpoint hs).1
  | reopen => exact (inv_sync hs).1
  | closeOpen => exact (inv_closeOpen hs).1

/-- **refinement step**: an operation acts on the denoted map as the specification says -/
theorem abs_apply {s : State} (hs : Inv s) (op : Op) : abs (apply s op) = (abs s).apply op := by
  cases op with
  | add k t f tm =>
    simp only [apply, Map.apply, addOk_eq hs]
    split
    · exact abs_put hs _ _
    · rfl
  | update k t f tm => exact abs_put hs _ _
  | remove k t => rw [apply_remove]; exact abs_removeSt hs _
  | flush => exact (inv_checkpoint hs).2
  | reopen => exact (inv_sync hs).2
  | closeOpen => exact (inv_closeOpen hs).2

end TrieBuf

end Chewing
