import Chewing.Proofs.TrieBufHist
/-!
The snapshot-adoption path of a file-backed `TrieBuf` (sequential writer).

`Settled s`: nothing pending and no tombstone — every entry lives in the adopted snapshot.  (Until fix
c3d9fb2, F36, such a state was the only one in which a prefix lookup was guaranteed to be the map's; now
every state is, and `Settled` only serves the durability links of C10 / C08.)
`Quiet` is the extra invariant that makes adoption predictable: a dictionary that is not dirty and has
no writer in flight has nothing pending (its content is the file's).  With it,
`reopen; flush; reopen` (drain a writer that may be in flight, snapshot, adopt) always ends in a
settled state, and so does `Drop` + `open`.
-/
namespace Chewing
open MapSpec

namespace TrieBuf
open Trie

/-- nothing pending, no tombstones -/
def Settled (s : State) : Prop := s.btree = [] ∧ s.grave = []

instance (s : State) : Decidable (Settled s) := by unfold Settled; infer_instance

/-- not dirty and no writer in flight ⇒ nothing pending -/
def Quiet (s : State) : Prop := s.dirty = false → s.inflight = none → Settled s

theorem quiet_initMem : Quiet initMem := fun _ _ => ⟨rfl, rfl⟩
theorem quiet_initFile : Quiet initFile := fun _ _ => ⟨rfl, rfl⟩

theorem quiet_of_dirty {s : State} (h : s.dirty = true) : Quiet s := by
  intro hd; rw [h] at hd; exact absurd hd (by simp)

theorem quiet_checkpoint {s : State} (h : Quiet s) : Quiet (checkpoint s) := by
  cases hi : s.inflight with
  | some t => rw [checkpoint_skip (Or.inl (by simp [hi]))]; exact h
  | none =>
    cases hf : s.fileBacked with
    | false => rw [checkpoint_skip (Or.inr (Or.inl hf))]; exact h
    | true =>
      cases hd : s.dirty with
      | false => rw [checkpoint_skip (Or.inr (Or.inr hd))]; exact h
      | true =>
        rw [checkpoint_fire hi hf hd]
        intro _ hn; exact absurd hn (by simp)

theorem quiet_sync {s : State} (h : Quiet s) : Quiet (sync s) := by
  cases hi : s.inflight with
  | some t =>
    cases hd : s.dirty with
    | true => rw [sync_some_dirty hi hd]; exact quiet_of_dirty (s := { s with inflight := none, file := t }) hd
    | false => rw [sync_some_clean hi hd]; exact fun _ _ => ⟨rfl, rfl⟩
  | none =>
    cases hf : s.fileBacked with
    | true =>
      rw [sync_none_file hi hf]
      intro hd _; exact h hd hi
    | false => rw [sync_none_mem hi hf]; exact h

theorem quiet_closeOpen {s : State} (h : Quiet s) : Quiet (closeOpen s) := by
  cases hf : s.fileBacked with
  | true =>
    have : (closeOpen s).btree = [] ∧ (closeOpen s).grave = [] := by simp [closeOpen, hf, initFile, initMem]
    exact fun _ _ => this
  | false =>
    have : closeOpen s = s := by simp [closeOpen, hf]
    rw [this]; exact h

theorem quiet_apply {s : State} (h : Quiet s) (op : Op) : Quiet (apply s op) := by
  cases op with
  | add k t f tm =>
    simp only [apply]
    split
    · exact quiet_of_dirty rfl
    · exact h
  | update k t f tm => exact quiet_of_dirty rfl
  | remove k t => exact quiet_of_dirty rfl
  | flush => exact quiet_checkpoint h
  | reopen => exact quiet_sync h
  | closeOpen => exact quiet_closeOpen h

theorem quiet_run {s : State} (h : Quiet s) (ops : List Op) : Quiet (run s ops) := by
  induction ops generalizing s with
  | nil => exact h
  | cons op ops ih => exact ih (quiet_apply h op)

/-- drain the writer, snapshot, adopt -/
def settleOps : List Op := [.reopen, .flush, .reopen]

/-- after `sync` with no writer in flight left, `checkpoint; sync` settles a file-backed dictionary -/
theorem settled_checkpoint_sync {s : State} (h : Quiet s) (hi : s.inflight = none) (hf : s.fileBacked = true) :
    Settled (sync (checkpoint s)) := by
  cases hd : s.dirty with
  | true =>
    rw [checkpoint_fire hi hf hd]
    rw [sync_some_clean (t := build (entries s)) rfl rfl]
    exact ⟨rfl, rfl⟩
  | false =>
    rw [checkpoint_skip (Or.inr (Or.inr hd)), sync_none_file hi hf]
    exact h hd hi

/-- **adoption**: `reopen; flush; reopen` on a file-backed dictionary leaves nothing pending -/
theorem settled_settle {s : State} (h : Quiet s) (hf : s.fileBacked = true) : Settled (run s settleOps) := by
  show Settled (sync (checkpoint (sync s)))
  exact settled_checkpoint_sync (quiet_sync h) (sync_inflight s) (by rw [sync_fileBacked, hf])

/-- `Drop` + `open` leaves nothing pending -/
theorem settled_closeOpen {s : State} (hf : s.fileBacked = true) : Settled (closeOpen s) := by
  simp [Settled, closeOpen, hf, initFile, initMem]

theorem fileBacked_apply (s : State) (op : Op) : (apply s op).fileBacked = s.fileBacked := by
  cases op with
  | add k t f tm =>
    simp only [apply]
    split <;> rfl
  | update k t f tm => rfl
  | remove k t => rfl
  | flush =>
    show (checkpoint s).fileBacked = _
    unfold checkpoint
    split
    · rfl
    · split <;> rfl
  | reopen => exact sync_fileBacked s
  | closeOpen =>
    show (closeOpen s).fileBacked = _
    cases hf : s.fileBacked with
    | true => simp [closeOpen, hf, initFile, initMem]
    | false => simp [closeOpen, hf]

theorem fileBacked_run (s : State) (ops : List Op) : (run s ops).fileBacked = s.fileBacked := by
  induction ops generalizing s with
  | nil => rfl
  | cons op ops ih => rw [run_cons, ih, fileBacked_apply]

end TrieBuf

namespace MapSpec.Map

/-- `flush`, `reopen` and close-and-open do not change the map -/
def isIdle : Op → Bool
  | .flush => true
  | .reopen => true
  | .closeOpen => true
  | _ => false

theorem run_idle (m : Map) (ops : List Op) (h : ∀ op ∈ ops, isIdle op = true) : m.run ops = m := by
  induction ops generalizing m with
  | nil => rfl
  | cons op ops ih =>
    have h1 := h op (by simp)
    have : m.apply op = m := by cases op <;> first | rfl | simp [isIdle] at h1
    show (m.apply op).run ops = m
    rw [this]; exact ih m (fun o ho => h o (by simp [ho]))

theorem run_append (m : Map) (a b : List Op) : m.run (a ++ b) = (m.run a).run b := by
  unfold run; rw [List.foldl_append]

end MapSpec.Map

end Chewing
