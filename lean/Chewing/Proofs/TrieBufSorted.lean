import Chewing.Proofs.TrieBufHist
/-!
The pending list of the `TrieBuf` model is always strictly increasing in the order of `PhraseKey`
(`(Cow<[Syllable]>, Cow<str>)`: lexicographic on syllable codes, then on code points), i.e. it *is*
the iteration order of the `BTreeMap` it stands for.
-/
namespace Chewing
open MapSpec

theorem cmpList_eq_iff {a b : List Nat} : cmpList a b = .eq ↔ a = b := by
  induction a generalizing b with
  | nil => cases b <;> simp [cmpList]
  | cons x a ih =>
    cases b with
    | nil => simp [cmpList]
    | cons y b =>
      simp only [cmpList]
      by_cases h1 : x < y
      · simp [h1]; omega
      · by_cases h2 : y < x
        · simp [h1, h2]; omega
        · have : x = y := by omega
          simp [h1, h2, ih, this]

theorem cmpList_lt_trans {a b c : List Nat} (h1 : cmpList a b = .lt) (h2 : cmpList b c = .lt) : cmpList a c = .lt := by
  induction a generalizing b c with
  | nil =>
    cases b with
    | nil => simp [cmpList] at h1
    | cons y b =>
      cases c with
      | nil => simp [cmpList] at h2
      | cons z c => simp [cmpList]
  | cons x a ih =>
    cases b with
    | nil => simp [cmpList] at h1
    | cons y b =>
      cases c with
      | nil => simp [cmpList] at h2
      | cons z c =>
        simp only [cmpList] at h1 h2 ⊢
        by_cases xy : x < y
        · by_cases yz : y < z
          · have : x < z := by omega
            simp [this]
          · by_cases zy : z < y
            · simp [yz, zy] at h2
            · have : y = z := by omega
              subst this; simp [xy]
        · by_cases yx : y < x
          · simp [xy, yx] at h1
          · have e : x = y := by omega
            subst e
            simp only [xy, if_false] at h1
            by_cases xz : x < z
            · simp [xz]
            · by_cases zx : z < x
              · simp [xz, zx] at h2
              · simp only [xz, zx, if_false] at h2 ⊢
                exact ih h1 h2

theorem cmpList_gt_iff {a b : List Nat} : cmpList a b = .gt ↔ cmpList b a = .lt := by
  induction a generalizing b with
  | nil => cases b <;> simp [cmpList]
  | cons x a ih =>
    cases b with
    | nil => simp [cmpList]
    | cons y b =>
      simp only [cmpList]
      by_cases h1 : x < y
      · have : ¬ y < x := by omega
        simp [h1, this]
      · by_cases h2 : y < x
        · simp [h1, h2]
        · simp [h1, h2, ih]

namespace TrieBuf

theorem pkeyLt_iff {a b : PKey} :
    pkeyLt a b = true ↔ cmpList a.1 b.1 = .lt ∨ (a.1 = b.1 ∧ cmpList a.2 b.2 = .lt) := by
  unfold pkeyLt
  cases h : cmpList a.1 b.1 with
  | lt => simp
  | gt =>
    simp only [Bool.false_eq_true, false_iff, not_or, not_and]
    refine ⟨by simp, ?_⟩
    intro e
    have := cmpList_eq_iff.mpr e
    rw [this] at h; exact absurd h (by simp)
  | eq =>
    have e := cmpList_eq_iff.mp h
    simp [e]

theorem pkeyLt_irrefl (a : PKey) : pkeyLt a a = false := by
  cases h : pkeyLt a a with
  | false => rfl
  | true =>
    rcases pkeyLt_iff.mp h with h1 | ⟨_, h1⟩
    · rw [cmpList_eq_iff.mpr rfl] at h1; exact absurd h1 (by simp)
    · rw [cmpList_eq_iff.mpr rfl] at h1; exact absurd h1 (by simp)

theorem pkeyLt_trans {a b c : PKey} (h1 : pkeyLt a b = true) (h2 : pkeyLt b c = true) : pkeyLt a c = true := by
  rw [pkeyLt_iff] at *
  rcases h1 with h1 | ⟨e1, h1⟩ <;> rcases h2 with h2 | ⟨e2, h2⟩
  · exact Or.inl (cmpList_lt_trans h1 h2)
  · rw [← e2]; exact Or.inl h1
  · rw [e1]; exact Or.inl h2
  · exact Or.inr ⟨by rw [e1, e2], cmpList_lt_trans h1 h2⟩

theorem pkeyLt_total {a b : PKey} (h : pkeyLt a b = false) (hne : a ≠ b) : pkeyLt b a = true := by
  rw [pkeyLt_iff]
  have h' : ¬ (cmpList a.1 b.1 = .lt ∨ (a.1 = b.1 ∧ cmpList a.2 b.2 = .lt)) := by
    rw [← pkeyLt_iff, h]; simp
  rw [not_or, not_and] at h'
  cases c1 : cmpList a.1 b.1 with
  | lt => exact absurd c1 h'.1
  | gt => exact Or.inl (cmpList_gt_iff.mp c1)
  | eq =>
    have e1 := cmpList_eq_iff.mp c1
    refine Or.inr ⟨e1.symm, ?_⟩
    cases c2 : cmpList a.2 b.2 with
    | lt => exact absurd c2 (h'.2 e1)
    | gt => exact cmpList_gt_iff.mp c2
    | eq => exact absurd (Prod.ext e1 (cmpList_eq_iff.mp c2)) hne

/-- strictly increasing keys: the iteration order of a `BTreeMap<PhraseKey, _>` -/
def Sorted (bt : List (PKey × Val)) : Prop := bt.Pairwise (fun a b => pkeyLt a.1 b.1 = true)

theorem Sorted.keysOk {bt : List (PKey × Val)} (h : Sorted bt) : KeysOk bt := by
  refine List.Pairwise.imp ?_ h
  intro a b hab e
  rw [e, pkeyLt_irrefl] at hab
  exact absurd hab (by simp)

theorem sorted_place {bt : List (PKey × Val)} (h : Sorted bt) (x : PKey × Val) (hx : ∀ e ∈ bt, e.1 ≠ x.1) :
    Sorted (place (fun a b => pkeyLt a.1 b.1) x bt) := by
  induction bt with
  | nil => exact List.pairwise_singleton _ _
  | cons y r ih =>
    unfold Sorted at h
    rw [List.pairwise_cons] at h
    unfold place
    by_cases c : pkeyLt y.1 x.1 = true
    · simp only [c, if_true]
      unfold Sorted
      rw [List.pairwise_cons]
      refine ⟨?_, ih h.2 (fun e he => hx e (by simp [he]))⟩
      intro e he
      rcases (mem_place _).mp he with rfl | he
      · exact c
      · exact h.1 e he
    · have c' : pkeyLt y.1 x.1 = false := by simpa using c
      simp only [c', Bool.false_eq_true, if_false]
      have hxy : pkeyLt x.1 y.1 = true := pkeyLt_total c' (hx y (by simp))
      unfold Sorted
      rw [List.pairwise_cons, List.pairwise_cons]
      refine ⟨?_, h.1, h.2⟩
      intro e he
      simp only [List.mem_cons] at he
      rcases he with rfl | he
      · exact hxy
      · exact pkeyLt_trans hxy (h.1 e he)

theorem sorted_btInsert {bt : List (PKey × Val)} (h : Sorted bt) (k : PKey) (v : Val) : Sorted (btInsert bt k v) := by
  unfold btInsert
  apply sorted_place (List.Pairwise.filter _ h)
  intro e he
  simp only [List.mem_filter, bne_iff_ne, ne_eq] at he
  exact he.2

theorem sorted_apply {s : State} (h : Sorted s.btree) (op : Op) : Sorted (apply s op).btree := by
  cases op with
  | add k t f tm =>
    simp only [apply]
    split
    · exact sorted_btInsert h _ _
    · exact h
  | update k t f tm => exact sorted_btInsert h _ _
  | remove k t => exact List.Pairwise.filter _ h
  | flush =>
    show Sorted (checkpoint s).btree
    unfold checkpoint
    split
    · exact h
    · split
      · exact h
      · exact h
  | reopen =>
    show Sorted (sync s).btree
    unfold sync
    split
    · split
      · exact h
      · exact List.Pairwise.nil
    · split
      · exact h
      · exact h
  | closeOpen =>
    show Sorted (closeOpen s).btree
    unfold closeOpen
    split
    · exact List.Pairwise.nil
    · exact h

theorem sorted_run {s : State} (h : Sorted s.btree) (ops : List Op) : Sorted (run s ops).btree := by
  induction ops generalizing s with
  | nil => exact h
  | cons op ops ih => exact ih (sorted_apply h op)

end TrieBuf

end Chewing
