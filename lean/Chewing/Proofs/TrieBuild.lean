import Chewing.Model.TrieBuf
import Chewing.Proofs.Dedup
/-!
Lemmas about the abstract trie file: sorting is a permutation, `TrieBuilder::insert` is
"last insert of a (key, text) wins", a built file has one leaf per key and one phrase per text,
and what `baseGet` returns in terms of membership.
-/
namespace Chewing
open MapSpec

theorem place_perm {α : Type} (lt : α → α → Bool) (x : α) (l : List α) : (place lt x l).Perm (x :: l) := by
  induction l with
  | nil => exact List.Perm.refl _
  | cons y r ih =>
    unfold place
    split
    · exact ((List.Perm.cons y ih).trans (List.Perm.swap x y r))
    · exact List.Perm.refl _

theorem isort_perm {α : Type} (lt : α → α → Bool) (l : List α) : (isort lt l).Perm l := by
  induction l with
  | nil => exact List.Perm.refl _
  | cons x l ih =>
    show (place lt x (isort lt l)).Perm (x :: l)
    exact (place_perm lt x _).trans (List.Perm.cons x ih)

theorem mem_isort {α : Type} (lt : α → α → Bool) {l : List α} {x : α} : x ∈ isort lt l ↔ x ∈ l :=
  (isort_perm lt l).mem_iff

theorem mem_place {α : Type} (lt : α → α → Bool) {l : List α} {x y : α} : y ∈ place lt x l ↔ y = x ∨ y ∈ l := by
  rw [(place_perm lt x l).mem_iff]; simp

namespace Trie

/-- phrases of a leaf have pairwise different texts -/
def LeafOk (ps : List Phrase) : Prop := ps.Pairwise (fun p q => p.text ≠ q.text)

/-- one leaf per key, one phrase per text -/
def SnapOk (t : List Leaf) : Prop := t.Pairwise (fun a b => a.1 ≠ b.1) ∧ ∀ l ∈ t, LeafOk l.2

theorem leafOk_iff (ps : List Phrase) : LeafOk ps ↔ (texts ps).Nodup := by
  unfold LeafOk texts List.Nodup
  rw [List.pairwise_map]

theorem LeafOk.perm {a b : List Phrase} (h : a.Perm b) (ha : LeafOk a) : LeafOk b := by
  rw [leafOk_iff] at *
  exact (h.map _).nodup ha

theorem LeafOk.unique {ps : List Phrase} (h : LeafOk ps) {p q : Phrase} (hp : p ∈ ps) (hq : q ∈ ps)
    (e : p.text = q.text) : p = q := by
  induction ps with
  | nil => simp at hp
  | cons x r ih =>
    unfold LeafOk at h
    rw [List.pairwise_cons] at h
    simp only [List.mem_cons] at hp hq
    rcases hp with hp | hp <;> rcases hq with hq | hq
    · rw [hp, hq]
    · subst hp; exact absurd e (h.1 q hq)
    · subst hq; exact absurd e.symm (h.1 p hp)
    · exact ih h.2 hp hq

/-- `find?` by text in a leaf, as membership -/
theorem find_text_iff {ps : List Phrase} (h : LeafOk ps) {t : Text} {p : Phrase} :
    ps.find? (fun q => q.text == t) = some p ↔ p ∈ ps ∧ p.text = t := by
  constructor
  · intro hf
    exact ⟨List.mem_of_find?_eq_some hf, by simpa using List.find?_some hf⟩
  · rintro ⟨hp, e⟩
    cases hf : ps.find? (fun q => q.text == t) with
    | none =>
      rw [List.find?_eq_none] at hf
      exact absurd (by simpa using e) (hf p hp)
    | some q =>
      have hq := List.mem_of_find?_eq_some hf
      have eq : q.text = t := by simpa using List.find?_some hf
      rw [h.unique hq hp (by rw [eq, e])]

/-- `find?` of a leaf by key, as membership -/
theorem find_key_iff {t : List Leaf} (h : t.Pairwise (fun a b => a.1 ≠ b.1)) {k : Key} {l : Leaf} :
    t.find? (fun x => x.1 == k) = some l ↔ l ∈ t ∧ l.1 = k := by
  constructor
  · intro hf
    exact ⟨List.mem_of_find?_eq_some hf, by simpa using List.find?_some hf⟩
  · rintro ⟨hl, e⟩
    induction t with
    | nil => simp at hl
    | cons x r ih =>
      rw [List.pairwise_cons] at h
      simp only [List.mem_cons] at hl
      rcases hl with hl | hl
      · subst hl; simp [List.find?, e]
      · have : x.1 ≠ k := by rw [← e]; exact h.1 l hl
        have hb : (x.1 == k) = false := by simpa using this
        simp only [List.find?_cons, hb]
        exact ih h.2 hl

end Trie

namespace TrieBuf
open Trie

/-- `baseGet` in terms of membership -/
theorem baseGet_iff {t : List Leaf} (h : SnapOk t) {k : Key} {tx : Text} {v : Val} :
    baseGet t (k, tx) = some v ↔ ∃ l ∈ t, l.1 = k ∧ ∃ p ∈ l.2, p.text = tx ∧ valOf p = v := by
  unfold baseGet
  constructor
  · intro hb
    cases hf : t.find? (fun l => l.1 == k) with
    | none => simp [hf] at hb
    | some l =>
      simp only [hf, Option.bind_some, Option.map_eq_some_iff] at hb
      obtain ⟨p, hp, hv⟩ := hb
      obtain ⟨hl, e⟩ := (find_key_iff h.1).mp hf
      obtain ⟨hp', e'⟩ := (find_text_iff (h.2 l hl)).mp hp
      exact ⟨l, hl, e, p, hp', e', hv⟩
  · rintro ⟨l, hl, e, p, hp, e', hv⟩
    have hf := (find_key_iff h.1).mpr ⟨hl, e⟩
    have hp' := (find_text_iff (h.2 l hl)).mpr ⟨hp, e'⟩
    simp only [hf, Option.bind_some, hp', Option.map_some, hv]

end TrieBuf

namespace Trie

/-! ### `insRepl`: last insert wins -/

theorem mem_insRepl {acc : List Phrase} {p x : Phrase} :
    x ∈ insRepl acc p ↔ x = p ∨ (x ∈ acc ∧ x.text ≠ p.text) := by
  unfold insRepl
  split
  · rename_i h
    obtain ⟨q0, hq0, e0⟩ := mem_texts.mp ((any_text_iff acc p.text).mp h)
    simp only [List.mem_map]
    constructor
    · rintro ⟨q, hq, e⟩
      by_cases c : q.text = p.text
      · simp [c] at e; exact Or.inl e.symm
      · simp [c] at e; subst e; exact Or.inr ⟨hq, c⟩
    · rintro (rfl | ⟨hx, c⟩)
      · exact ⟨q0, hq0, by simp [e0]⟩
      · exact ⟨x, hx, by simp [c]⟩
  · rename_i h
    have hn : p.text ∉ texts acc := fun hm => h ((any_text_iff acc p.text).mpr hm)
    simp only [List.mem_append, List.mem_singleton]
    constructor
    · rintro (hx | rfl)
      · refine Or.inr ⟨hx, ?_⟩
        intro e; exact hn (mem_texts.mpr ⟨x, hx, e⟩)
      · exact Or.inl rfl
    · rintro (rfl | ⟨hx, _⟩)
      · exact Or.inr rfl
      · exact Or.inl hx

theorem texts_insRepl (acc : List Phrase) (p : Phrase) : texts (insRepl acc p) = firstOccStep (texts acc) p.text := by
  unfold insRepl firstOccStep
  by_cases h : p.text ∈ texts acc
  · have h' := (any_text_iff acc p.text).mpr h
    simp only [h', h, if_true]
    simp only [texts, List.map_map]
    apply List.map_congr_left
    intro q _
    simp only [Function.comp]
    by_cases e : q.text = p.text
    · simp [e]
    · simp [e]
  · have h' : acc.any (fun q => q.text == p.text) = false := by
      cases hh : acc.any (fun q => q.text == p.text)
      · rfl
      · exact absurd ((any_text_iff acc p.text).mp hh) h
    simp [h', h]

theorem texts_foldl_insRepl (l acc : List Phrase) :
    texts (l.foldl insRepl acc) = (texts l).foldl firstOccStep (texts acc) := by
  induction l generalizing acc with
  | nil => rfl
  | cons p l ih => simp [List.foldl, ih, texts_insRepl]

theorem leafOk_foldl_insRepl (l : List Phrase) : LeafOk (l.foldl insRepl []) := by
  rw [leafOk_iff, texts_foldl_insRepl]
  exact foldl_firstOccStep_nodup _ List.nodup_nil

/-- inserting phrases with pairwise different texts: they all end up in the leaf, and an older
    phrase survives iff none of them has its text -/
theorem mem_foldl_insRepl {b acc : List Phrase} (hb : LeafOk b) {x : Phrase} :
    x ∈ b.foldl insRepl acc ↔ x ∈ b ∨ (x ∈ acc ∧ x.text ∉ texts b) := by
  induction b generalizing acc with
  | nil => simp
  | cons p b ih =>
    unfold LeafOk at hb
    rw [List.pairwise_cons] at hb
    simp only [List.foldl]
    rw [ih hb.2, mem_insRepl]
    simp only [List.mem_cons, texts_cons, not_or]
    constructor
    · rintro (h | ⟨h | ⟨h1, h2⟩, h3⟩)
      · exact Or.inl (Or.inr h)
      · exact Or.inl (Or.inl h)
      · exact Or.inr ⟨h1, h2, h3⟩
    · rintro ((h | h) | ⟨h1, h2, h3⟩)
      · subst h
        refine Or.inr ⟨Or.inl rfl, ?_⟩
        intro hm
        obtain ⟨q, hq, e⟩ := mem_texts.mp hm
        exact hb.1 q hq e.symm
      · exact Or.inl h
      · exact Or.inr ⟨Or.inr ⟨h1, h2⟩, h3⟩

/-! ### keys of a built file -/

theorem mem_dedupKeys {l : List Key} {k : Key} : k ∈ dedupKeys l ↔ k ∈ l := by
  induction l with
  | nil => simp [dedupKeys]
  | cons x r ih =>
    simp only [dedupKeys, List.mem_cons, List.mem_filter, ih, bne_iff_ne, ne_eq]
    constructor
    · rintro (h | ⟨h, _⟩)
      · exact Or.inl h
      · exact Or.inr h
    · intro h
      by_cases e : k = x
      · exact Or.inl e
      · rcases h with h | h
        · exact absurd h e
        · exact Or.inr ⟨h, e⟩

theorem dedupKeys_nodup (l : List Key) : (dedupKeys l).Nodup := by
  induction l with
  | nil => simp [dedupKeys]
  | cons x r ih =>
    rw [dedupKeys, List.nodup_cons]
    refine ⟨?_, List.Pairwise.filter _ ih⟩
    simp [List.mem_filter]

theorem find_map_key {β : Type} (f : Key → β) (keys : List Key) (k : Key) :
    (keys.map (fun x => (x, f x))).find? (fun l => l.1 == k) = if k ∈ keys then some (k, f k) else none := by
  induction keys with
  | nil => simp
  | cons x r ih =>
    simp only [List.map_cons, List.find?, List.mem_cons]
    by_cases e : x = k
    · subst e; simp
    · have e' : ¬ k = x := fun h => e h.symm
      have hb : (x == k) = false := by simpa using e
      simp [hb, e', ih]

theorem snapOk_build (es : List Entry) : SnapOk (build es) := by
  unfold build
  constructor
  · rw [List.pairwise_map]
    have : (isort keyLt (dedupKeys (es.map (·.1)))).Nodup :=
      (isort_perm keyLt _).symm.nodup (dedupKeys_nodup _)
    exact this
  · intro l hl
    simp only [List.mem_map] at hl
    obtain ⟨k, _, rfl⟩ := hl
    exact LeafOk.perm (isort_perm leafLt _).symm (leafOk_foldl_insRepl _)

theorem leafOf_nil_of_not_mem {es : List Entry} {k : Key} (h : k ∉ es.map (·.1)) : leafOf es k = [] := by
  unfold leafOf
  have : es.filter (fun e => e.1 == k) = [] := by
    rw [List.filter_eq_nil_iff]
    intro e he
    simp only [beq_iff_eq]
    intro c
    exact h (List.mem_map.mpr ⟨e, he, c⟩)
  simp [this]

end Trie

namespace TrieBuf
open Trie

/-- the value of `(k, tx)` in a built file: the phrase with that text in `leafOf es k` -/
theorem baseGet_build (es : List Entry) (k : Key) (tx : Text) (v : Val) :
    baseGet (build es) (k, tx) = some v ↔ ∃ p ∈ leafOf es k, p.text = tx ∧ valOf p = v := by
  rw [baseGet_iff (snapOk_build es)]
  constructor
  · rintro ⟨l, hl, e, p, hp, et, hv⟩
    unfold build at hl
    simp only [List.mem_map] at hl
    obtain ⟨k', _, rfl⟩ := hl
    simp only at e hp
    subst e
    exact ⟨p, (mem_isort leafLt).mp hp, et, hv⟩
  · rintro ⟨p, hp, et, hv⟩
    have hk : k ∈ es.map (·.1) := by
      by_cases c : k ∈ es.map (·.1)
      · exact c
      · rw [leafOf_nil_of_not_mem c] at hp; simp at hp
    refine ⟨(k, isort leafLt (leafOf es k)), ?_, rfl, p, (mem_isort leafLt).mpr hp, et, hv⟩
    unfold build
    simp only [List.mem_map]
    exact ⟨k, (mem_isort keyLt).mpr (mem_dedupKeys.mpr hk), rfl⟩

end TrieBuf

end Chewing
