import Chewing.Model.TrieCodec
import Chewing.Proofs.TriePhrase
import Chewing.Proofs.SyllableValid
/-!
The builder tree: `insert` is a map update with in-place replacement (`find_insert`), and the
shape invariant `WF` (distinct sibling syllables, each the code of a `Syllable` — non-zero, 16 bits,
a value `Syllable::try_from` accepts (`validCode`) —, no empty leaf, no childless leafless node,
valid phrases) holds for everything built from valid entries.
-/
namespace Chewing.TrieCodec
open Chewing Chewing.Der

/-! ### `upsert` -/

theorem upsert_ne_nil (ps : List Phrase) (p : Phrase) : upsert ps p ≠ [] := by
  cases ps with
  | nil => simp [upsert]
  | cons q qs => simp only [upsert]; split <;> simp

theorem mem_upsert_self (ps : List Phrase) (p : Phrase) : p ∈ upsert ps p := by
  induction ps with
  | nil => simp [upsert]
  | cons q qs ih => simp only [upsert]; split <;> simp [ih]

theorem mem_upsert {ps : List Phrase} {p q : Phrase} (h : q ∈ upsert ps p) : q = p ∨ q ∈ ps := by
  induction ps with
  | nil => simp [upsert] at h; exact Or.inl h
  | cons r rs ih =>
    simp only [upsert] at h
    split at h
    · simp at h; rcases h with h | h
      · exact Or.inl h
      · exact Or.inr (by simp [h])
    · simp at h; rcases h with h | h
      · exact Or.inr (by simp [h])
      · rcases ih h with h | h
        · exact Or.inl h
        · exact Or.inr (by simp [h])

/-- the texts after an insert: unchanged if the text was present (the phrase is replaced where it
    stood), otherwise the new text is appended -/
theorem upsert_texts (ps : List Phrase) (p : Phrase) :
    (upsert ps p).map (·.text) =
      if p.text ∈ ps.map (·.text) then ps.map (·.text) else ps.map (·.text) ++ [p.text] := by
  induction ps with
  | nil => simp [upsert]
  | cons q qs ih =>
    simp only [upsert]
    by_cases h : q.text = p.text
    · simp [h]
    · rw [if_neg h]
      simp only [List.map_cons, List.mem_cons, ih]
      have h' : ¬ p.text = q.text := fun e => h e.symm
      by_cases hm : p.text ∈ qs.map (·.text)
      · simp [hm]
      · simp [hm, h']

/-- a re-inserted phrase replaces the earlier one: the stored phrase with that text is the new one -/
theorem upsert_find (ps : List Phrase) (p : Phrase) (hnd : (ps.map (·.text)).Nodup) :
    ∀ q ∈ upsert ps p, q.text = p.text → q = p := by
  induction ps with
  | nil => intro q hq _; simp [upsert] at hq; exact hq
  | cons r rs ih =>
    intro q hq ht
    simp only [upsert] at hq
    have hnd' := List.nodup_cons.mp hnd
    split at hq
    · rename_i hr
      simp at hq
      rcases hq with hq | hq
      · exact hq
      · exfalso
        apply hnd'.1
        exact List.mem_map.mpr ⟨q, hq, by show q.text = r.text; rw [ht, hr]⟩
    · rename_i hr
      simp at hq
      rcases hq with hq | hq
      · exact absurd (hq ▸ ht) hr
      · exact ih hnd'.2 q hq ht

theorem upsert_nodup (ps : List Phrase) (p : Phrase) (hnd : (ps.map (·.text)).Nodup) :
    ((upsert ps p).map (·.text)).Nodup := by
  rw [upsert_texts]
  split
  · exact hnd
  · rename_i h
    exact List.nodup_append.mpr ⟨hnd, by simp, by
      intro a ha b hb
      simp at hb
      subst hb
      intro e
      exact h (e ▸ ha)⟩

/-! ### `find` after `insert` -/

theorem child_modify (f : Forest) (s s' : Nat) (g : NodeData → NodeData) :
    (f.modify s g).child s' =
      if s' = s then some (g ((f.child s).getD (none, .nil))) else f.child s' := by
  induction f with
  | nil =>
    simp only [Forest.modify, Forest.child]
    by_cases h : s' = s
    · simp [h]
    · have : ¬ s = s' := fun e => h e.symm
      simp [h, this]
  | cons t l sub next _ ih =>
    simp only [Forest.modify]
    by_cases ht : t = s
    · subst ht
      simp only [if_true, Forest.child]
      by_cases h : s' = t
      · subst h; simp
      · have : ¬ t = s' := fun e => h e.symm
        simp [h, this]
    · rw [if_neg ht]
      simp only [Forest.child]
      by_cases h : s' = s
      · subst h
        simp [ht, ih]
      · by_cases h2 : t = s'
        · simp [h2, h]
        · simp [h2, ih, h]

theorem findNode_empty (k : List Nat) : findNode k (none, .nil) = none := by
  cases k <;> simp [findNode, Forest.child]

theorem findNode_insertNode (k k' : List Nat) (p : Phrase) (nd : NodeData) :
    findNode k' (insertNode k p nd) =
      if k' = k then some (upsert ((findNode k nd).getD []) p) else findNode k' nd := by
  induction k generalizing k' nd with
  | nil =>
    cases k' with
    | nil => simp [insertNode, findNode]
    | cons s' r' => simp [insertNode, findNode]
  | cons s rest ih =>
    cases k' with
    | nil => simp [insertNode, findNode]
    | cons s' rest' =>
      simp only [insertNode, findNode, child_modify]
      by_cases hs : s' = s
      · subst hs
        simp only [if_true, ih]
        cases hc : nd.2.child s' with
        | none =>
          simp only [Option.getD_none, findNode_empty]
          by_cases hr : rest' = rest <;> simp [hr]
        | some nd' =>
          simp only [Option.getD_some]
          by_cases hr : rest' = rest <;> simp [hr]
      · simp [hs]

/-- `insert` on the builder is an update of the map key ↦ phrase vector, the phrase replacing the
    one with the same text where it stood or being appended -/
theorem find_insert (b : Builder) (k k' : List Nat) (p : Phrase) :
    (b.insert k p).find k' = if k' = k then some (upsert ((b.find k).getD []) p) else b.find k' := by
  have := findNode_insertNode k k' p (b.leaf, b.kids)
  simpa [Builder.insert, Builder.find] using this

/-- the reference map of an entry list (what the statement calls "the phrases inserted for a key") -/
def refFind (es : List Entry) (k : List Nat) : Option (List Phrase) :=
  es.foldl (fun acc e => if e.1 = k then some (upsert (acc.getD []) e.2) else acc) none

theorem find_foldl_insert (es : List Entry) (b : Builder) (k : List Nat) :
    (es.foldl (fun b e => b.insert e.1 e.2) b).find k =
      es.foldl (fun acc e => if e.1 = k then some (upsert (acc.getD []) e.2) else acc) (b.find k) := by
  induction es generalizing b with
  | nil => rfl
  | cons e es ih =>
    simp only [List.foldl_cons, ih, find_insert]
    by_cases h : k = e.1
    · subst h; simp
    · have : ¬ e.1 = k := fun e' => h e'.symm
      simp [h, this]

theorem find_ofEntries (info : Info) (es : List Entry) (k : List Nat) :
    (Builder.ofEntries info es).find k = refFind es k := by
  unfold Builder.ofEntries
  rw [find_foldl_insert]
  have : ({ info := info } : Builder).find k = none := by cases k <;> rfl
  rw [this]
  rfl

theorem info_insert (b : Builder) (k : List Nat) (p : Phrase) : (b.insert k p).info = b.info := rfl

theorem info_ofEntries (info : Info) (es : List Entry) : (Builder.ofEntries info es).info = info := by
  unfold Builder.ofEntries
  generalize hb : ({ info := info } : Builder) = b
  have : b.info = info := by subst hb; rfl
  clear hb
  induction es generalizing b with
  | nil => exact this
  | cons e es ih => exact ih _ (by rw [info_insert]; exact this)

/-! ### shape invariant -/

/-- a leaf is never empty and holds valid phrases -/
def LeafOK (l : Option (List Phrase)) : Prop := ∀ ps, l = some ps → ps ≠ [] ∧ ∀ p ∈ ps, ValidPhrase p

def Forest.WF : Forest → Prop
  | .nil => True
  | .cons s l sub next =>
    0 < s ∧ s < 65536 ∧ validCode s = true ∧ next.child s = none ∧ LeafOK l ∧ (l.isSome = true ∨ sub ≠ .nil) ∧ sub.WF ∧ next.WF

/-- a non-root node: has a leaf or a child -/
def NodeOK (nd : NodeData) : Prop := LeafOK nd.1 ∧ (nd.1.isSome = true ∨ nd.2 ≠ .nil) ∧ nd.2.WF

def Builder.WF (b : Builder) : Prop := LeafOK b.leaf ∧ b.kids.WF

theorem modify_ne_nil (f : Forest) (s : Nat) (g : NodeData → NodeData) : f.modify s g ≠ .nil := by
  cases f with
  | nil => simp [Forest.modify]
  | cons t l sub next => simp only [Forest.modify]; split <;> simp

theorem child_modify_none (f : Forest) (s t : Nat) (g : NodeData → NodeData) (h : f.child t = none) (hts : t ≠ s) :
    (f.modify s g).child t = none := by
  rw [child_modify, if_neg hts, h]

theorem WF_modify (f : Forest) (s : Nat) (g : NodeData → NodeData) (hs : 0 < s ∧ s < 65536 ∧ validCode s = true)
    (hf : f.WF) (hg0 : NodeOK (g (none, .nil))) (hg : ∀ nd, NodeOK nd → NodeOK (g nd)) :
    (f.modify s g).WF := by
  induction f with
  | nil =>
    simp only [Forest.modify, Forest.WF, Forest.child]
    exact ⟨hs.1, hs.2.1, hs.2.2, trivial, hg0.1, hg0.2.1, hg0.2.2, trivial⟩
  | cons t l sub next _ ih =>
    obtain ⟨h1, h2, hv, h3, h4, h5, h6, h7⟩ := hf
    simp only [Forest.modify]
    by_cases ht : t = s
    · rw [if_pos ht]
      have := hg (l, sub) ⟨h4, h5, h6⟩
      exact ⟨h1, h2, hv, h3, this.1, this.2.1, this.2.2, h7⟩
    · rw [if_neg ht]
      exact ⟨h1, h2, hv, child_modify_none next s t g h3 ht, h4, h5, h6, ih h7⟩

theorem NodeOK_insertNode (k : List Nat) (p : Phrase) (hk : ∀ s ∈ k, 0 < s ∧ s < 65536 ∧ validCode s = true)
    (hp : ValidPhrase p) (nd : NodeData) (hl : LeafOK nd.1) (hw : nd.2.WF) : NodeOK (insertNode k p nd) := by
  induction k generalizing nd with
  | nil =>
    refine ⟨?_, Or.inl rfl, hw⟩
    intro ps hps
    simp only [insertNode, Option.some.injEq] at hps
    subst hps
    refine ⟨upsert_ne_nil _ _, fun q hq => ?_⟩
    rcases mem_upsert hq with h | h
    · exact h ▸ hp
    · cases hn : nd.1 with
      | none => simp [hn] at h
      | some ps' => simp [hn] at h; exact (hl ps' hn).2 q h
  | cons s rest ih =>
    have hrest : ∀ s ∈ rest, 0 < s ∧ s < 65536 ∧ validCode s = true := fun t ht => hk t (by simp [ht])
    refine ⟨hl, Or.inr (modify_ne_nil _ _ _), ?_⟩
    simp only [insertNode]
    refine WF_modify _ _ _ (hk s (by simp)) hw ?_ ?_
    · exact ih hrest (none, .nil) (by intro ps h; cases h) trivial
    · intro nd' hnd'
      exact ih hrest nd' hnd'.1 hnd'.2.2

theorem WF_insert (b : Builder) (k : List Nat) (p : Phrase) (hb : b.WF)
    (hk : ∀ s ∈ k, 0 < s ∧ s < 65536 ∧ validCode s = true) (hp : ValidPhrase p) : (b.insert k p).WF := by
  have := NodeOK_insertNode k p hk hp (b.leaf, b.kids) hb.1 hb.2
  exact ⟨this.1, this.2.2⟩

/-- what the Rust types guarantee of an entry `(&[Syllable], Phrase)`: every syllable is the code of a `Syllable`
    value — a non-zero `u16` that `Syllable::try_from` accepts (`validCode`: since the repair of C13's finding F47
    this is the invariant of the type `Syllable`, for `try_from`, the builder, `update` and `remove_*` alike; before
    it, every non-zero `u16` was a `Syllable`) —, and the phrase is valid.  `0 < s` follows from `validCode s`
    (`validCode_ne_zero`) and is kept for the proofs that use it directly. -/
def ValidEntry (e : Entry) : Prop := (∀ s ∈ e.1, 0 < s ∧ s < 65536 ∧ validCode s = true) ∧ ValidPhrase e.2

theorem WF_ofEntries (info : Info) (es : List Entry) (h : ∀ e ∈ es, ValidEntry e) :
    (Builder.ofEntries info es).WF := by
  unfold Builder.ofEntries
  generalize hb : ({ info := info } : Builder) = b
  have hw : b.WF := by
    subst hb
    exact ⟨fun ps h => by simp at h, trivial⟩
  clear hb
  induction es generalizing b with
  | nil => exact hw
  | cons e es ih =>
    exact ih (fun e' he' => h e' (by simp [he'])) _ (WF_insert b e.1 e.2 hw (h e (by simp)).1 (h e (by simp)).2)

end Chewing.TrieCodec
