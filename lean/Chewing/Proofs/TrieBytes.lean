import Chewing.Model.TrieCodec
/-!
Index bytes ↔ records: the reader's `viewAt` on the flattened index returns the record written.
-/
namespace Chewing.TrieCodec
open Chewing Chewing.Der

theorem recBytes_length (r : Rec) : (recBytes r).length = 8 := rfl

theorem flatMap_recBytes_length (recs : List Rec) : (recs.flatMap recBytes).length = recs.length * 8 := by
  induction recs with
  | nil => rfl
  | cons r rs ih => simp only [List.flatMap_cons, List.length_append, recBytes_length, ih, List.length_cons]; omega

theorem drop_flatMap_recBytes (recs : List Rec) (i : Nat) :
    (recs.flatMap recBytes).drop (i * 8) = (recs.drop i).flatMap recBytes := by
  induction recs generalizing i with
  | nil => simp
  | cons r rs ih =>
    cases i with
    | zero => simp
    | succ i =>
      simp only [List.flatMap_cons, List.drop_succ_cons]
      rw [← ih i]
      have : (i + 1) * 8 = (recBytes r).length + i * 8 := by rw [recBytes_length]; omega
      rw [this, List.drop_append]
      simp

theorem viewAt_cons (r : Rec) (rest : Bytes) (h1 : r.1 < 4294967296) (h2 : r.2.1 < 65536) (h3 : r.2.2 < 65536) :
    viewAt (recBytes r ++ rest) 0 = r := by
  obtain ⟨a, b, c⟩ := r
  simp only at h1 h2 h3
  simp only [viewAt, recBytes, u32be, u16be, List.drop_zero, List.cons_append, List.nil_append, List.take_succ_cons,
    List.take_zero, List.drop_succ_cons, fromBE, List.foldl_cons, List.foldl_nil]
  refine Prod.ext ?_ (Prod.ext ?_ ?_) <;> simp only <;> omega

theorem viewAt_recs (recs : List Rec) (i : Nat) (r : Rec) (h : recs[i]? = some r)
    (h1 : r.1 < 4294967296) (h2 : r.2.1 < 65536) (h3 : r.2.2 < 65536) :
    viewAt (recs.flatMap recBytes) (i * 8) = r := by
  have hi : i < recs.length := by
    rcases Nat.lt_or_ge i recs.length with h' | h'
    · exact h'
    · rw [List.getElem?_eq_none h'] at h; cases h
  have hr : recs[i] = r := by
    rw [List.getElem?_eq_getElem hi] at h
    exact Option.some.inj h
  have hd : recs.drop i = r :: recs.drop (i + 1) := by
    rw [← hr]; exact List.drop_eq_getElem_cons hi
  have := viewAt_cons r ((recs.drop (i + 1)).flatMap recBytes) h1 h2 h3
  unfold viewAt at this ⊢
  rw [drop_flatMap_recBytes, hd, List.flatMap_cons]
  simpa using this

end Chewing.TrieCodec
