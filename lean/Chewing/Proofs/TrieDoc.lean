import Chewing.Model.TrieCodec
import Chewing.Proofs.Der
import Chewing.Proofs.TrieBytes
/-!
The document level: `Trie::new` on the bytes of `write` gives back the metadata, the index and
the phrase section (`info_roundtrip`).
-/
namespace Chewing.TrieCodec
open Chewing Chewing.Der

/-- what `String` guarantees of the five metadata fields -/
def ValidInfo (i : Info) : Prop :=
  (∀ c ∈ i.name, IsScalar c) ∧ (∀ c ∈ i.copyright, IsScalar c) ∧ (∀ c ∈ i.license, IsScalar c) ∧
  (∀ c ∈ i.version, IsScalar c) ∧ (∀ c ∈ i.software, IsScalar c)

theorem tlv_content_le (tag : Nat) (c : Bytes) : c.length ≤ (tlv tag c).length := by
  have := tlv_length_ge tag c; omega

theorem decInfo_encInfo (i : Info) (r : Bytes) (hi : ValidInfo i) (hl : (encInfo i).length ≤ maxLen) :
    decInfo (encInfo i ++ r) = some (i, r) := by
  obtain ⟨h1, h2, h3, h4, h5⟩ := hi
  have hb := tlv_content_le tagSequence
    (encUtf8 i.name ++ encUtf8 i.copyright ++ encUtf8 i.license ++ encUtf8 i.version ++ encUtf8 i.software)
  have e1 := tlv_content_le tagUtf8String (utf8Enc i.name)
  have e2 := tlv_content_le tagUtf8String (utf8Enc i.copyright)
  have e3 := tlv_content_le tagUtf8String (utf8Enc i.license)
  have e4 := tlv_content_le tagUtf8String (utf8Enc i.version)
  have e5 := tlv_content_le tagUtf8String (utf8Enc i.software)
  unfold encInfo encSeq encUtf8 at hl
  unfold encUtf8 at hb
  simp only [List.length_append] at hb
  unfold decInfo encInfo
  refine decSeq_encSeq _ _ r i ?_ (by simp only [List.length_append]; unfold encUtf8; omega)
  simp only [List.append_assoc]
  rw [decUtf8_encUtf8 i.name _ h1 (by omega)]
  simp only
  rw [decUtf8_encUtf8 i.copyright _ h2 (by omega)]
  simp only
  rw [decUtf8_encUtf8 i.license _ h3 (by omega)]
  simp only
  rw [decUtf8_encUtf8 i.version _ h4 (by omega)]
  simp only
  have := decUtf8_encUtf8 i.software [] h5 (by omega)
  simp only [List.append_nil] at this
  rw [this]

theorem decBody_docBody (info : Info) (index data : Bytes) (hi : ValidInfo info)
    (hl : (docBody info index data).length ≤ maxLen) :
    decBody (docBody info index data) = some ({ info := info, index := index, data := data }, []) := by
  unfold docBody at hl ⊢
  simp only [List.length_append] at hl
  have e1 := tlv_content_le tagOctetString index
  have e2 := tlv_content_le tagSequence data
  unfold encOctets encSeq at hl
  unfold decBody
  simp only [List.append_assoc]
  rw [decUtf8_encUtf8 magic _ (by decide) (by decide)]
  simp only
  rw [decUint_encUint 1 0 _ (by decide) (by decide) (by decide)]
  simp only
  rw [if_neg (by simp)]
  rw [decInfo_encInfo info _ hi (by omega)]
  simp only
  rw [decOctets_encOctets index _ (by omega)]
  simp only
  have := decSeq_encSeq (fun d => some (d, [])) data [] data rfl (by omega)
  simp only [List.append_nil] at this
  rw [this]

/-- **info_roundtrip** (and the two sections): the real reader's view of a written file -/
theorem openTrie_write (b : Builder) (hi : ValidInfo b.info) (bytes : Bytes) (hw : b.write = some bytes)
    (hv : ∀ recs data, b.buffers = some (recs, data) → recs.length < 4294967296 → data.length < 4294967296 →
      validIndex (recs.flatMap recBytes) data = true) :
    ∃ recs data, b.buffers = some (recs, data) ∧
      bytes = encSeq (docBody b.info (recs.flatMap recBytes) data) ∧
      openTrie bytes = some { info := b.info, index := recs.flatMap recBytes, data := data } ∧
      recs.length < 4294967296 ∧ data.length < 4294967296 := by
  unfold Builder.write at hw
  cases hb : b.buffers with
  | none => rw [hb] at hw; cases hw
  | some rd =>
    obtain ⟨recs, data⟩ := rd
    rw [hb] at hw
    simp only at hw
    split at hw
    · rename_i hlen
      cases hw
      have hbody := tlv_content_le tagSequence (docBody b.info (recs.flatMap recBytes) data)
      have hbl : (docBody b.info (recs.flatMap recBytes) data).length ≤ maxLen := by
        unfold encSeq at hlen; omega
      have hrl : recs.length < 4294967296 := by
        have e1 := tlv_content_le tagOctetString (recs.flatMap recBytes)
        have hbl' := hbl
        unfold docBody at hbl'
        simp only [List.length_append] at hbl'
        unfold encOctets at hbl'
        rw [flatMap_recBytes_length] at e1
        unfold maxLen at hbl'
        omega
      have hdl : data.length < 4294967296 := by
        have e2 := tlv_content_le tagSequence data
        have hbl' := hbl
        unfold docBody at hbl'
        simp only [List.length_append] at hbl'
        unfold encSeq at hbl'
        unfold maxLen at hbl'
        omega
      refine ⟨recs, data, rfl, rfl, ?_, ?_, ?_⟩
      · unfold openTrie
        rw [if_neg (by omega)]
        have := decSeq_encSeq decBody _ [] _ (decBody_docBody b.info _ data hi hbl) hbl
        simp only [List.append_nil] at this
        rw [this]
        simp only
        rw [if_pos (hv recs data hb hrl hdl)]
      · have e1 := tlv_content_le tagOctetString (recs.flatMap recBytes)
        unfold docBody at hbl
        simp only [List.length_append] at hbl
        unfold encOctets at hbl
        rw [flatMap_recBytes_length] at e1
        unfold maxLen at hbl
        omega
      · have e2 := tlv_content_le tagSequence data
        unfold docBody at hbl
        simp only [List.length_append] at hbl
        unfold encSeq at hbl
        unfold maxLen at hbl
        omega
    · cases hw

end Chewing.TrieCodec
