import Chewing.Model.TrieCodec
import Chewing.Proofs.TrieEntriesTree
/-!
The reader's `entries()` on a laid-out index refines the DFS on the tree (`tLoop`), hence yields
every (key, leaf) exactly once.  The `unwrap` of `make_dict_entry` (`Syllable::try_from` on every syllable of the
stack; since the repair of C13's F47 it fails on every value that is not a `Syllable`, not only on 0) cannot fire:
the invariant is `∀ s ∈ syls, validCode s = true` — the stack holds syllables of forest nodes (`Item.WF.syl_valid`).
-/
namespace Chewing.TrieCodec
open Chewing Chewing.Der

/-- what the reader holds for a group: the key and the leaf as written (sorted) -/
def sortG (g : Group) : Found := (g.1, sortLeaf g.2)

/-- a stacked sibling view -/
def NRep (recs : List Rec) (data : Bytes) (w : Rec) (k : Item) : Prop :=
  Rep recs data w k ∧ k.WF ∧ k.syl ≠ 0 ∧ w.2.2 = k.syl

abbrev StackRep (recs : List Rec) (data : Bytes) : List (List Rec) → List (List Item) → Prop :=
  Forall₂ (Forall₂ (NRep recs data))

theorem KidRep.nrep {recs : List Rec} {data : Bytes} {w : Rec} {k : Item} (h : KidRep recs data w k)
    (hs : k.syl ≠ 0) : NRep recs data w k :=
  ⟨h.rep hs, h.choose_spec.2.2.1, hs, h.choose_spec.2.2.2⟩

theorem forall₂_kidrep_nrep {recs : List Rec} {data : Bytes} {ws : List Rec} {ks : List Item}
    (h : Forall₂ (KidRep recs data) ws ks) (hs : ∀ k ∈ ks, k.syl ≠ 0) : Forall₂ (NRep recs data) ws ks :=
  forall₂_imp_mem h (fun _ k hwk hk => hwk.nrep (hs k hk))

/-- the record of a leaf: reserved field zero, slice in bounds, decoding to the sorted vector -/
theorem kidrep_leaf {recs : List Rec} {data : Bytes} {w : Rec} {ps : List Phrase}
    (h : KidRep recs data w (.leaf ps)) :
    w.2.2 = 0 ∧ oob w.1 (w.1 + w.2.1) data.length = false ∧ decPhrases (dataSlice data w) = sortLeaf ps := by
  obtain ⟨pos, h1, h2, h3, h4⟩ := h
  cases h2 with
  | leaf hr hdb hln hsl hle =>
    rename_i db
    rw [h1] at hr
    cases hr
    have hne' : 0 < (encPhrases (sortLeaf ps)).length := by
      have e1 := encPhrases_length_ge (sortLeaf ps)
      have e2 := (sortLeaf_perm ps).length_eq
      have e3 : 0 < ps.length := List.length_pos_iff.mpr h3.1
      omega
    refine ⟨rfl, ?_, ?_⟩
    · simp only [oob, Bool.or_eq_false_iff, decide_eq_false_iff_not]
      constructor <;> omega
    · simp only [dataSlice, hsl]
      exact decPhrases_sortLeaf h3.2 hln

/-- `Syllable::try_from(syl_u16).unwrap()` of `make_dict_entry` does not panic: the syllable stack holds the
    syllable fields of node records standing for forest nodes, all valid codes -/
theorem any_invalid_false {syls : List Nat} (h : ∀ s ∈ syls, validCode s = true) :
    syls.any (fun s => !validCode s) = false := by
  rw [List.any_eq_false]
  intro s hs
  simp [h s hs]

/-- the reader's descent follows the tree's -/
theorem descend_rep {recs : List Rec} {data : Bytes} (f : Nat) :
    ∀ (v : Rec) (node : Item) (vstack : List (List Rec)) (istack : List (List Item)) (syls : List Nat)
      (tres : List Group),
      Rep recs data v node → StackRep recs data vstack istack → (∀ s ∈ syls, validCode s = true) →
      ∀ istack' syls' tres', tDescend f node istack syls tres = some (istack', syls', tres') →
        ∃ vstack', descend (recs.flatMap recBytes) data f v vstack syls (tres.map sortG) =
            .ok (some (vstack', syls', tres'.map sortG)) ∧
          StackRep recs data vstack' istack' ∧ (∀ s ∈ syls', validCode s = true) := by
  induction f with
  | zero => intro v node vstack istack syls tres _ _ _ istack' syls' tres' h; simp [tDescend] at h
  | succ f ih =>
    intro v node vstack istack syls tres hrep hst hsy istack' syls' tres' h
    cases node with
    | leaf ps => obtain ⟨_, _, _, _, hk⟩ := hrep; exact absurd rfl hk
    | node s l sub =>
      obtain ⟨hoob, _, hkids⟩ := rep_children hrep
      obtain ⟨_, _, _, hpre, _⟩ := hrep
      have hsub : sub.WF := hpre.2.2
      simp only [descend, hoob, Bool.false_eq_true, if_false]
      simp only [tDescend, Item.kids] at h
      cases hkl : kidsOf l sub with
      | nil => rw [hkl] at h; cases h
      | cons k1 ks =>
        rw [hkl] at h hkids
        cases hcv : childViews (recs.flatMap recBytes) v with
        | nil => rw [hcv] at hkids; cases hkids
        | cons w1 ws =>
          rw [hcv] at hkids
          cases hkids with
          | cons hw1 hws =>
            simp only
            cases k1 with
            | leaf ps =>
              -- the node has a leaf: `l = some ps`, the other queue entries are the sorted children
              obtain ⟨hz, hoobd, hdec⟩ := kidrep_leaf hw1
              have hks : ∀ k ∈ ks, k.syl ≠ 0 := by
                intro k hk
                cases l with
                | none =>
                  simp only [kidsOf_eq, leafItem, List.nil_append] at hkl
                  have hm : Item.leaf ps ∈ sortBy sylLt sub.toItems := by rw [hkl]; simp
                  have := toItems_syl_pos hsub _ (mem_sortBy.mp hm)
                  simp [Item.syl] at this
                | some ps' =>
                  simp only [kidsOf_eq, leafItem, List.cons_append, List.nil_append, List.cons.injEq] at hkl
                  have hm : k ∈ sortBy sylLt sub.toItems := by rw [hkl.2]; exact hk
                  have := toItems_syl_pos hsub _ (mem_sortBy.mp hm)
                  omega
              have hbeq : (w1.2.2 == 0) = true := by simp [hz]
              simp only [hbeq, if_true, hoobd, Bool.false_eq_true, if_false, any_invalid_false hsy, hdec]
              have hres : (syls.reverse, sortLeaf ps) :: tres.map sortG = ((syls.reverse, ps) :: tres).map sortG := rfl
              rw [hres]
              cases ks with
              | nil =>
                cases hws
                simp only at h ⊢
                cases h
                exact ⟨vstack, rfl, hst, hsy⟩
              | cons k2 ks' =>
                cases hws with
                | cons hw2 hws' =>
                  rename_i w2 ws'
                  simp only at h ⊢
                  have hk2 := hks k2 (by simp)
                  have hw2s : w2.2.2 = k2.syl := hw2.choose_spec.2.2.2
                  rw [hw2s]
                  refine ih w2 k2 (ws' :: vstack) (ks' :: istack) (k2.syl :: syls) _ (hw2.rep hk2)
                    (.cons (forall₂_kidrep_nrep hws' (fun k hk => hks k (by simp [hk]))) hst) ?_ istack' syls' tres' h
                  intro t ht
                  simp only [List.mem_cons] at ht
                  rcases ht with rfl | ht
                  · exact hw2.choose_spec.2.2.1.syl_valid hk2
                  · exact hsy t ht
            | node s1 l1 sub1 =>
              have hw1s : w1.2.2 = s1 := hw1.choose_spec.2.2.2
              have hs1 : s1 ≠ 0 := by
                have := hw1.choose_spec.2.2.1
                have := this.1
                omega
              have hks : ∀ k ∈ ks, k.syl ≠ 0 := by
                intro k hk
                cases l with
                | none =>
                  simp only [kidsOf_eq, leafItem, List.nil_append] at hkl
                  have hm : k ∈ sortBy sylLt sub.toItems := by rw [hkl]; simp [hk]
                  have := toItems_syl_pos hsub _ (mem_sortBy.mp hm)
                  omega
                | some ps' =>
                  simp only [kidsOf_eq, leafItem, List.cons_append, List.nil_append, List.cons.injEq] at hkl
                  cases hkl.1
              have hbeq : (w1.2.2 == 0) = false := by simp [hw1s, hs1]
              simp only [hbeq, Bool.false_eq_true, if_false]
              simp only at h
              rw [hw1s]
              refine ih w1 (.node s1 l1 sub1) (ws :: vstack) (ks :: istack) (s1 :: syls) tres
                (hw1.rep (by simpa [Item.syl] using hs1))
                (.cons (forall₂_kidrep_nrep hws hks) hst) ?_ istack' syls' tres' h
              intro t ht
              simp only [List.mem_cons] at ht
              rcases ht with rfl | ht
              · exact hw1.choose_spec.2.2.1.2.2.1
              · exact hsy t ht

theorem ascend_rep {recs : List Rec} {data : Bytes} :
    ∀ (vstack : List (List Rec)) (istack : List (List Item)) (syls : List Nat),
      StackRep recs data vstack istack → (∀ s ∈ syls, validCode s = true) →
      match tAscend istack syls with
      | none => ascend vstack syls = none
      | some (n, istack', syls') =>
        ∃ v vstack', ascend vstack syls = some (v, vstack', syls') ∧ Rep recs data v n ∧
          StackRep recs data vstack' istack' ∧ (∀ s ∈ syls', validCode s = true) := by
  intro vstack istack syls h
  induction h generalizing syls with
  | nil => intro _; rfl
  | @cons F G vstack istack hFG _ ih =>
    intro hsy
    cases hFG with
    | nil =>
      simp only [tAscend, ascend]
      exact ih syls.tail (fun s hs => hsy s (List.mem_of_mem_tail hs))
    | @cons w k ws ks hwk hws =>
      simp only [tAscend, ascend]
      refine ⟨w, ws :: vstack, ?_, hwk.1, .cons hws (by assumption), ?_⟩
      · rw [hwk.2.2.2]
      · intro s hs
        simp only [List.mem_cons] at hs
        rcases hs with rfl | hs
        · exact hwk.2.1.syl_valid hwk.2.2.1
        · exact hsy s (List.mem_of_mem_tail hs)

theorem entriesLoop_rep {recs : List Rec} {data : Bytes} (f : Nat) :
    ∀ (v : Rec) (node : Item) (vstack : List (List Rec)) (istack : List (List Item)) (syls : List Nat),
      Rep recs data v node → StackRep recs data vstack istack → (∀ s ∈ syls, validCode s = true) →
      ∀ out, tLoop ((recs.flatMap recBytes).length + 1) f node istack syls = some out →
        entriesLoop (recs.flatMap recBytes) data f v vstack syls = .ok (out.map sortG) := by
  induction f with
  | zero => intro v node vstack istack syls _ _ _ out h; simp [tLoop] at h
  | succ f ih =>
    intro v node vstack istack syls hrep hst hsy out h
    simp only [tLoop] at h
    cases hd : tDescend ((recs.flatMap recBytes).length + 1) node istack syls [] with
    | none => rw [hd] at h; cases h
    | some r =>
      obtain ⟨istack', syls', tres'⟩ := r
      rw [hd] at h
      simp only at h
      obtain ⟨vstack', hdesc, hst', hsy'⟩ := descend_rep _ v node vstack istack syls [] hrep hst hsy istack' syls' tres' hd
      simp only [List.map_nil] at hdesc
      simp only [entriesLoop, hdesc]
      have hasc := ascend_rep vstack' istack' syls' hst' hsy'
      cases hta : tAscend istack' syls' with
      | none =>
        rw [hta] at h hasc
        simp only at h hasc
        cases h
        rw [hasc]
      | some r2 =>
        obtain ⟨n, istack'', syls''⟩ := r2
        rw [hta] at h hasc
        simp only at h hasc
        obtain ⟨v2, vstack'', ha, hrep2, hst2, hsy2⟩ := hasc
        rw [ha]
        simp only
        cases hl : tLoop ((recs.flatMap recBytes).length + 1) f n istack'' syls'' with
        | none => rw [hl] at h; cases h
        | some more =>
          rw [hl] at h
          cases h
          rw [ih v2 n vstack'' istack'' syls'' hrep2 hst2 hsy2 more hl]
          simp

/-- number of records = number of nodes -/
theorem writeLoop_count (fuel : Nat) :
    ∀ (q : List Item) (cb : Nat) (dict : List Rec) (data : Bytes) (recs' : List Rec) (data' : Bytes),
      writeLoop fuel q cb dict data = some (recs', data') → recs'.length = dict.length + qsize q := by
  induction fuel with
  | zero =>
    intro q cb dict data recs' data' h
    cases q with
    | nil => rw [writeLoop_nil] at h; cases h; simp [qsize]
    | cons it q => simp [writeLoop] at h
  | succ fuel ih =>
    intro q cb dict data recs' data' h
    cases q with
    | nil => rw [writeLoop_nil] at h; cases h; simp [qsize]
    | cons it q =>
      cases it with
      | node s l sub =>
        simp only [writeLoop] at h
        split at h
        · cases h
        · have := ih _ _ _ _ _ _ h
          rw [this, qsize_append, qsize_kidsOf, qsize_cons]
          simp [Item.size]
          omega
      | leaf ps =>
        simp only [writeLoop] at h
        split at h
        · cases h
        · have := ih _ _ _ _ _ _ h
          rw [this, qsize_cons]
          simp [Item.size]
          omega

/-- **entries on a written file**: the groups of the tree, each once, leaves as written -/
theorem entries_laid {recs : List Rec} {data : Bytes} {info : Info} {l : Option (List Phrase)} {sub : Forest}
    (hl : Laid recs data 0 (.node 0 l sub)) (hp : (Item.node 0 l sub).Pre)
    (hcount : recs.length = (Item.node 0 l sub).size) :
    ∃ groups : List Group, groups.Perm (nodeGroups (l, sub)) ∧
      entries { info := info, index := recs.flatMap recBytes, data := data } =
        .ok (groups.flatMap fun g => (sortLeaf g.2).map fun p => (g.1, p)) := by
  obtain ⟨r, hr1, hr2, hr3, hr4, hr5⟩ := laid_rec hl hp
  have hv : viewAt (recs.flatMap recBytes) 0 = r := by
    simpa using viewAt_recs recs 0 r hr1 hr2 hr3 hr4
  have hlen : 1 ≤ recs.length := by
    rcases Nat.lt_or_ge 0 recs.length with h | h
    · exact h
    · rw [List.getElem?_eq_none h] at hr1; cases hr1
  simp only [entries, flatMap_recBytes_length, hv]
  rw [if_neg (by omega)]
  cases hl with
  | node hr hcb hn hle hk =>
    rename_i cb
    rw [hr1] at hr
    cases hr
    by_cases hkids : kidsOf l sub = []
    · -- empty dictionary
      have hl' : l = none := by
        cases l with
        | none => rfl
        | some ps => simp [kidsOf_eq, leafItem] at hkids
      have hsub : forestGroups sub = [] := by
        rw [forestGroups_toItems]
        have : sub.toItems = [] := by
          have h2 := congrArg List.length hkids
          simp only [kidsOf_eq, List.length_append, sortBy_length, List.length_nil] at h2
          exact List.eq_nil_of_length_eq_zero (by omega)
        rw [this]; rfl
      refine ⟨[], by simp [nodeGroups, hl', hsub, leafGroup], ?_⟩
      simp [cbOf, ceOf, hkids]
    · have hpos : 0 < (kidsOf l sub).length := List.length_pos_iff.mpr hkids
      rw [if_neg (by simp only [cbOf, ceOf]; omega)]
      have hrep : Rep recs data (cb, (kidsOf l sub).length, 0) (.node 0 l sub) :=
        ⟨0, hr1, Laid.node hr1 hcb hn hle hk, hp, hkids⟩
      have hninv : NodeInv (.node 0 l sub) := ⟨0, l, sub, rfl, hp.2.1, hp.2.2, hkids⟩
      obtain ⟨out, hout, hperm⟩ := tLoop_spec (recs.length * 8 + 1) (recs.length * 8 + 1) (.node 0 l sub) [] []
        hninv (by intro F hF; cases hF) (by intro s hs; cases hs)
        (by simp [fsize]; omega) (by simp [fsize]; omega)
      have := entriesLoop_rep (recs.length * 8 + 1) _ _ [] [] [] hrep .nil (by intro s hs; cases hs) out
        (by rw [flatMap_recBytes_length]; exact hout)
      rw [this]
      refine ⟨out, ?_, ?_⟩
      · refine hperm.trans ?_
        simp [framesGroups, itemGroups]
      · simp only [List.flatMap_map, sortG]

end Chewing.TrieCodec
