import Chewing.Proofs.TrieEntries
/-!
# The ORDER of `entries()` on the tree

`Proofs/TrieEntriesTree.lean` shows that the explicit-stack walk (`tDescend` / `tAscend` / `tLoop`, the
tree image of the reader's `descend` / `ascend` / `entriesLoop`) yields every group exactly once — as a
permutation.  Here the enumeration itself is computed: `tLoop` returns **exactly** `ord`, the list

* `ord π node pend`: the node's own leaf (if it has one) joins the *pending* chain `pend`; the walk goes on
  into the FIRST child (children in the index order = ascending by syllable) with that chain; a node that has
  only a leaf ends the descent and the chain is emitted deepest first (`results.pop()`); then the remaining
  children follow, each with an empty chain (they are taken from the stack by `ascend`, innermost frame first).

No well-formedness is needed for this part: it is an equation between two programs.
-/
namespace Chewing.TrieCodec
open Chewing Chewing.Der

/-- the key a node contributes itself -/
def leafKey (π : List Nat) : Option (List Phrase) → List (List Nat)
  | some _ => [π]
  | none => []

/-- first child with the pending chain, the other children with an empty one -/
def ordKids (r : List Nat → Item → List (List Nat) → List (List Nat)) (π : List Nat) (kids : List Item)
    (pend : List (List Nat)) : List (List Nat) :=
  match kids with
  | [] => pend
  | k1 :: ks => r (π ++ [k1.syl]) k1 pend ++ ks.flatMap fun k => r (π ++ [k.syl]) k []

/-- the keys in the order `entries()` yields them, below the node at path `π`, `pend` = the leaves of
    the ancestors on the current descent that wait in `results` (deepest first) -/
def ordK : Nat → List Nat → Item → List (List Nat) → List (List Nat)
  | 0, _, _, pend => pend
  | _ + 1, _, .leaf _, pend => pend
  | f + 1, π, .node _ l sub, pend => ordKids (ordK f) π (sortBy sylLt sub.toItems) (leafKey π l ++ pend)

/-- … with the fuel the node needs -/
def ord (π : List Nat) (it : Item) (pend : List (List Nat)) : List (List Nat) := ordK it.size π it pend

/-- pre-order: the node's own key, then the children in index order -/
def preK : Nat → List Nat → Item → List (List Nat)
  | 0, _, _ => []
  | _ + 1, _, .leaf _ => []
  | f + 1, π, .node _ l sub => leafKey π l ++ (sortBy sylLt sub.toItems).flatMap fun k => preK f (π ++ [k.syl]) k

def pre (π : List Nat) (it : Item) : List (List Nat) := preK it.size π it

theorem flatMap_congr' {α β : Type} {l : List α} {f g : α → List β} (h : ∀ a ∈ l, f a = g a) :
    l.flatMap f = l.flatMap g := by
  induction l with
  | nil => rfl
  | cons a l ih =>
    simp only [List.flatMap_cons]
    rw [h a (by simp), ih (fun b hb => h b (by simp [hb]))]

theorem ordKids_congr {r1 r2 : List Nat → Item → List (List Nat) → List (List Nat)} {kids : List Item}
    (h : ∀ k ∈ kids, ∀ π p, r1 π k p = r2 π k p) (π : List Nat) (pend : List (List Nat)) :
    ordKids r1 π kids pend = ordKids r2 π kids pend := by
  cases kids with
  | nil => rfl
  | cons k1 ks =>
    simp only [ordKids]
    rw [h k1 (by simp), flatMap_congr' (fun k hk => h k (by simp [hk]) _ _)]

theorem size_le_qsize {q : List Item} {k : Item} (h : k ∈ q) : k.size ≤ qsize q := by
  induction q with
  | nil => cases h
  | cons a q ih =>
    rw [qsize_cons]
    simp only [List.mem_cons] at h
    rcases h with rfl | h
    · omega
    · have := ih h; omega

theorem sorted_kid_size {sub : Forest} {k : Item} (h : k ∈ sortBy sylLt sub.toItems) : k.size ≤ sub.size := by
  have h1 := size_le_qsize h
  have h2 : qsize (sortBy sylLt sub.toItems) = sub.size := by
    rw [← qsize_toItems]
    exact ((sortBy_perm sylLt sub.toItems).map Item.size).sum_nat
  omega

theorem ordK_fuel (f : Nat) : ∀ (g : Nat) (π : List Nat) (it : Item) (pend : List (List Nat)),
    it.size ≤ f → it.size ≤ g → ordK f π it pend = ordK g π it pend := by
  induction f with
  | zero => intro g π it pend h; have := item_size_pos it; omega
  | succ f ih =>
    intro g π it pend hf hg
    cases g with
    | zero => have := item_size_pos it; omega
    | succ g =>
      cases it with
      | leaf ps => rfl
      | node s l sub =>
        simp only [ordK]
        refine ordKids_congr (fun k hk π' p => ?_) _ _
        have := sorted_kid_size hk
        simp only [Item.size] at hf hg
        exact ih g π' k p (by omega) (by omega)

theorem preK_fuel (f : Nat) : ∀ (g : Nat) (π : List Nat) (it : Item),
    it.size ≤ f → it.size ≤ g → preK f π it = preK g π it := by
  induction f with
  | zero => intro g π it h; have := item_size_pos it; omega
  | succ f ih =>
    intro g π it hf hg
    cases g with
    | zero => have := item_size_pos it; omega
    | succ g =>
      cases it with
      | leaf ps => rfl
      | node s l sub =>
        simp only [preK]
        congr 1
        refine flatMap_congr' (fun k hk => ?_)
        have := sorted_kid_size hk
        simp only [Item.size] at hf hg
        exact ih g _ k (by omega) (by omega)

/-- the defining equation of `ord` -/
theorem ord_node (π : List Nat) (s : Nat) (l : Option (List Phrase)) (sub : Forest) (pend : List (List Nat)) :
    ord π (.node s l sub) pend = ordKids ord π (sortBy sylLt sub.toItems) (leafKey π l ++ pend) := by
  have hsz : (Item.node s l sub).size = ((if l.isSome then 1 else 0) + sub.size) + 1 := by
    simp only [Item.size]; omega
  unfold ord
  rw [hsz]
  simp only [ordK]
  refine ordKids_congr (fun k hk π' p => ?_) _ _
  have := sorted_kid_size hk
  exact ordK_fuel _ _ _ _ _ (by omega) (Nat.le_refl _)

theorem ord_leaf (π : List Nat) (ps : List Phrase) (pend : List (List Nat)) : ord π (.leaf ps) pend = pend := rfl

theorem pre_node (π : List Nat) (s : Nat) (l : Option (List Phrase)) (sub : Forest) :
    pre π (.node s l sub) = leafKey π l ++ (sortBy sylLt sub.toItems).flatMap fun k => pre (π ++ [k.syl]) k := by
  have hsz : (Item.node s l sub).size = ((if l.isSome then 1 else 0) + sub.size) + 1 := by
    simp only [Item.size]; omega
  unfold pre
  rw [hsz]
  simp only [preK]
  congr 1
  refine flatMap_congr' (fun k hk => ?_)
  have := sorted_kid_size hk
  exact preK_fuel _ _ _ _ (by omega) (Nat.le_refl _)

/-! ### the walk computes `ord` -/

/-- what the frames of the stack still produce, innermost frame first -/
def framesOrd : List (List Item) → List Nat → List (List Nat)
  | [], _ => []
  | F :: stack, syls =>
    (F.flatMap fun X => ord ((X.syl :: syls.tail).reverse) X []) ++ framesOrd stack syls.tail

theorem toItems_node {f : Forest} {k : Item} (h : k ∈ f.toItems) : ∃ s l sub, k = .node s l sub := by
  induction f with
  | nil => cases h
  | cons s l sub next _ ih =>
    simp only [Forest.toItems, List.mem_cons] at h
    rcases h with rfl | h
    · exact ⟨s, l, sub, rfl⟩
    · exact ih h

/-- one descent: what it returns, followed by what the new stack holds, is the node's enumeration (with
    the pending results) followed by what the old stack held -/
theorem tDescend_ord (f : Nat) : ∀ (node : Item) (stack : List (List Item)) (syls : List Nat) (results : List Group)
    (stack' : List (List Item)) (syls' : List Nat) (R : List Group),
    tDescend f node stack syls results = some (stack', syls', R) →
    R.map (·.1) ++ framesOrd stack' syls' = ord syls.reverse node (results.map (·.1)) ++ framesOrd stack syls := by
  induction f with
  | zero => intro node stack syls results stack' syls' R h; simp [tDescend] at h
  | succ f ih =>
    intro node stack syls results stack' syls' R h
    cases node with
    | leaf ps => simp [tDescend, Item.kids] at h
    | node s l sub =>
      rw [ord_node]
      simp only [tDescend, Item.kids, kidsOf_eq] at h
      cases l with
      | some ps =>
        simp only [leafItem, List.cons_append, List.nil_append] at h
        cases hk : sortBy sylLt sub.toItems with
        | nil =>
          rw [hk] at h
          simp only [Option.some.injEq, Prod.mk.injEq] at h
          obtain ⟨rfl, rfl, rfl⟩ := h
          simp [ordKids, leafKey]
        | cons k2 ks =>
          rw [hk] at h
          simp only at h
          have := ih k2 (ks :: stack) (k2.syl :: syls) ((syls.reverse, ps) :: results) stack' syls' R h
          rw [this]
          simp [ordKids, leafKey, framesOrd, List.append_assoc]
      | none =>
        simp only [leafItem, List.nil_append] at h
        cases hk : sortBy sylLt sub.toItems with
        | nil => rw [hk] at h; simp at h
        | cons k1 ks =>
          rw [hk] at h
          obtain ⟨s1, l1, sub1, rfl⟩ := toItems_node (mem_sortBy.mp (by rw [hk]; simp : k1 ∈ sortBy sylLt sub.toItems))
          simp only at h
          have := ih (.node s1 l1 sub1) (ks :: stack) (s1 :: syls) results stack' syls' R h
          rw [this]
          simp [ordKids, leafKey, framesOrd, List.append_assoc, Item.syl]

theorem tAscend_ord : ∀ (stack : List (List Item)) (syls : List Nat),
    match tAscend stack syls with
    | none => framesOrd stack syls = []
    | some (n, stack', syls') => framesOrd stack syls = ord syls'.reverse n [] ++ framesOrd stack' syls' := by
  intro stack
  induction stack with
  | nil => intro syls; rfl
  | cons F stack ih =>
    intro syls
    cases F with
    | nil =>
      simp only [tAscend]
      have := ih syls.tail
      cases hta : tAscend stack syls.tail with
      | none => rw [hta] at this; simpa [framesOrd] using this
      | some r =>
        obtain ⟨n, stack', syls'⟩ := r
        rw [hta] at this
        simpa [framesOrd] using this
    | cons X Xs =>
      simp only [tAscend]
      simp [framesOrd, List.append_assoc]

/-- **the iteration yields exactly `ord`** -/
theorem tLoop_ord (D : Nat) (f : Nat) : ∀ (node : Item) (stack : List (List Item)) (syls : List Nat) (out : List Group),
    tLoop D f node stack syls = some out →
    out.map (·.1) = ord syls.reverse node [] ++ framesOrd stack syls := by
  induction f with
  | zero => intro node stack syls out h; simp [tLoop] at h
  | succ f ih =>
    intro node stack syls out h
    simp only [tLoop] at h
    cases hd : tDescend D node stack syls [] with
    | none => rw [hd] at h; cases h
    | some r =>
      obtain ⟨stack', syls', R⟩ := r
      rw [hd] at h
      simp only at h
      have hdo := tDescend_ord D node stack syls [] stack' syls' R hd
      simp only [List.map_nil] at hdo
      rw [← hdo]
      have hasc := tAscend_ord stack' syls'
      cases hta : tAscend stack' syls' with
      | none =>
        rw [hta] at h hasc
        simp only at h hasc
        cases h
        rw [hasc, List.append_nil]
      | some r2 =>
        obtain ⟨n, stack'', syls''⟩ := r2
        rw [hta] at h hasc
        simp only at h hasc
        cases hl : tLoop D f n stack'' syls'' with
        | none => rw [hl] at h; cases h
        | some more =>
          rw [hl] at h
          cases h
          rw [List.map_append, ih n stack'' syls'' more hl, hasc]

end Chewing.TrieCodec
