import Chewing.Proofs.TrieEntriesOrder
import Chewing.Proofs.TrieConforms
import Chewing.Proofs.CliSort
/-!
# `entries()` order = sorted keys, prefix chains reversed

`Proofs/TrieEntriesOrder.lean` computes the enumeration of the explicit-stack walk as `ord`.  Here, for a
well-formed tree (children with pairwise different syllables, visited in ascending order; every node has a
leaf or a child):

* `pre_sorted` — the pre-order key list `pre` is sorted by `Cli.keyLe` (lexicographic by syllable code, a
  prefix first);
* `ord_eq_runs` — `ord` is that sorted list cut into its maximal runs "each key a prefix of the next"
  (`Cli.runs`: in pre-order, `x` is a prefix of its successor exactly when the successor is the first key
  below `x` — the descent chain) with every run reversed (`results.pop()` — deepest first);
* `ord_eq_trieOrder` — hence `ord [] root [] = Cli.trieOrder keys` for ANY list `keys` that is a permutation
  of the keys of the tree.
-/
namespace Chewing.Cli

theorem isPrefix_iff : ∀ (p k : Key), isPrefix p k = true ↔ ∃ x, k = p ++ x
  | [], k => by simp [isPrefix]
  | a :: p, [] => by simp [isPrefix]
  | a :: p, b :: k => by
    simp only [isPrefix, Bool.and_eq_true, beq_iff_eq, isPrefix_iff p k, List.cons_append, List.cons.injEq]
    constructor
    · rintro ⟨rfl, x, rfl⟩; exact ⟨x, rfl, rfl⟩
    · rintro ⟨x, rfl, rfl⟩; exact ⟨rfl, x, rfl⟩

theorem isPrefix_append_self (p x : Key) : isPrefix p (p ++ x) = true := (isPrefix_iff _ _).mpr ⟨x, rfl⟩
theorem isPrefix_refl (p : Key) : isPrefix p p = true := (isPrefix_iff _ _).mpr ⟨[], by simp⟩

theorem isPrefix_trans {a b c : Key} (h1 : isPrefix a b = true) (h2 : isPrefix b c = true) : isPrefix a c = true := by
  obtain ⟨x, rfl⟩ := (isPrefix_iff _ _).mp h1
  obtain ⟨y, rfl⟩ := (isPrefix_iff _ _).mp h2
  exact (isPrefix_iff _ _).mpr ⟨x ++ y, by simp⟩

/-- keys below different children of one node: neither is a prefix of the other -/
theorem ext_not_prefix {π a b : Key} {s1 s2 : Nat} (ha : isPrefix (π ++ [s1]) a = true)
    (hb : isPrefix (π ++ [s2]) b = true) (hne : s1 ≠ s2) : isPrefix a b = false := by
  obtain ⟨x, rfl⟩ := (isPrefix_iff _ _).mp ha
  obtain ⟨y, rfl⟩ := (isPrefix_iff _ _).mp hb
  cases h : isPrefix (π ++ [s1] ++ x) (π ++ [s2] ++ y) with
  | false => rfl
  | true =>
    obtain ⟨z, hz⟩ := (isPrefix_iff _ _).mp h
    simp only [List.append_assoc, List.cons_append, List.nil_append, List.append_cancel_left_eq, List.cons.injEq] at hz
    exact absurd hz.1.symm hne

theorem keyLe_append_left : ∀ (π a b : Key), keyLe (π ++ a) (π ++ b) = keyLe a b
  | [], _, _ => rfl
  | s :: π, a, b => by simp [keyLe, keyLe_append_left π a b]

theorem keyLe_of_isPrefix {p k : Key} (h : isPrefix p k = true) : keyLe p k = true := by
  obtain ⟨x, rfl⟩ := (isPrefix_iff _ _).mp h
  have := keyLe_append_left p [] x
  rw [List.append_nil] at this
  rw [this]
  cases x <;> rfl

theorem keyLe_ext_lt {π a b : Key} {s1 s2 : Nat} (ha : isPrefix (π ++ [s1]) a = true)
    (hb : isPrefix (π ++ [s2]) b = true) (hlt : s1 < s2) : keyLe a b = true := by
  obtain ⟨x, rfl⟩ := (isPrefix_iff _ _).mp ha
  obtain ⟨y, rfl⟩ := (isPrefix_iff _ _).mp hb
  simp only [List.append_assoc, keyLe_append_left, List.cons_append, List.nil_append, keyLe, Bool.or_eq_true,
    decide_eq_true_eq]
  exact Or.inl hlt

/-! ### `runs` -/

theorem runs_cons_shape (y : Key) (l : List Key) : ∃ ys rs, runs (y :: l) = (y :: ys) :: rs := by
  rw [runs]
  split
  · split
    · exact ⟨_, _, rfl⟩
    · exact ⟨_, _, rfl⟩
  · exact ⟨_, _, rfl⟩

theorem runs_cons_cons {x y : Key} {l : List Key} {ys : List Key} {rs : List (List Key)}
    (h : runs (y :: l) = (y :: ys) :: rs) :
    runs (x :: y :: l) = if isPrefix x y then (x :: y :: ys) :: rs else [x] :: (y :: ys) :: rs := by
  rw [runs, h]

theorem runs_single (x : Key) : runs [x] = [[x]] := rfl

/-- where no key is a prefix of its successor the runs split -/
theorem runs_append : ∀ (A B : List Key),
    (∀ a, A.getLast? = some a → ∀ b, B.head? = some b → isPrefix a b = false) →
    runs (A ++ B) = runs A ++ runs B
  | [], _, _ => by simp [runs]
  | [x], [], _ => by simp [runs]
  | [x], y :: B', h => by
    obtain ⟨ys, rs, hs⟩ := runs_cons_shape y B'
    have hp : isPrefix x y = false := h x rfl y rfl
    show runs (x :: y :: B') = runs [x] ++ runs (y :: B')
    rw [runs_cons_cons hs, hp, hs, runs_single]
    rfl
  | x :: x' :: A, B, h => by
    have ih := runs_append (x' :: A) B (fun a ha b hb => h a (by simpa using ha) b hb)
    obtain ⟨ys, rs, hs⟩ := runs_cons_shape x' A
    have h2 : runs (x' :: (A ++ B)) = (x' :: ys) :: (rs ++ runs B) := by
      rw [← List.cons_append, ih, hs]; rfl
    show runs (x :: x' :: (A ++ B)) = runs (x :: x' :: A) ++ runs B
    rw [runs_cons_cons h2, runs_cons_cons hs]
    split <;> rfl

/-- a chain is one run -/
theorem runs_chain : ∀ (C : List Key), C ≠ [] → C.Pairwise (fun a b => isPrefix a b = true) → runs C = [C]
  | [], h, _ => absurd rfl h
  | [x], _, _ => rfl
  | x :: y :: C, _, hp => by
    have hp' := List.pairwise_cons.mp hp
    have ih := runs_chain (y :: C) (by simp) hp'.2
    rw [runs_cons_cons ih, hp'.1 y (by simp)]
    rfl

end Chewing.Cli

namespace Chewing.TrieCodec
open Chewing Chewing.Der Chewing.Cli

/-- induction over the nodes of a well-formed tree -/
theorem nodeInv_induction {P : Item → Prop}
    (h : ∀ s l sub, LeafOK l → sub.WF → kidsOf l sub ≠ [] →
      (∀ k ∈ sortBy sylLt sub.toItems, NodeInv k ∧ P k) → P (.node s l sub)) :
    ∀ it, NodeInv it → P it := by
  have key : ∀ n : Nat, ∀ it : Item, it.size ≤ n → NodeInv it → P it := by
    intro n
    induction n with
    | zero => intro it hs; have := item_size_pos it; omega
    | succ n ih =>
      intro it hs hn
      obtain ⟨s, l, sub, rfl, hl, hw, hne⟩ := hn
      refine h s l sub hl hw hne (fun k hk => ?_)
      have hk' := sorted_kids_inv hw k hk
      have hni := WF_node_inv hk'.1 hk'.2
      have := sorted_kid_size hk
      simp only [Item.size] at hs
      exact ⟨hni, ih k (by omega) hni⟩
  exact fun it hn => key it.size it (Nat.le_refl _) hn

/-- every subtree holds a key, and all its keys extend the path of its root -/
theorem pre_props : ∀ it, NodeInv it → ∀ π, pre π it ≠ [] ∧ ∀ k ∈ pre π it, isPrefix π k = true := by
  refine nodeInv_induction (fun s l sub _ _ hne ih π => ?_)
  rw [pre_node]
  constructor
  · cases l with
    | some ps => simp [leafKey]
    | none =>
      cases hk : sortBy sylLt sub.toItems with
      | nil => simp [kidsOf_eq, leafItem, hk] at hne
      | cons k1 ks =>
        have := ((ih k1 (by rw [hk]; simp)).2 (π ++ [k1.syl])).1
        simp only [leafKey, List.nil_append, List.flatMap_cons]
        intro hc
        exact this (List.append_eq_nil_iff.mp hc).1
  · intro k hk
    rw [List.mem_append] at hk
    rcases hk with hk | hk
    · cases l with
      | some ps => simp only [leafKey, List.mem_singleton] at hk; rw [hk]; exact isPrefix_refl π
      | none => cases hk
    · obtain ⟨c, hc, hkc⟩ := List.mem_flatMap.mp hk
      exact isPrefix_trans (isPrefix_append_self π [c.syl]) (((ih c hc).2 _).2 k hkc)

/-- the pre-order key list is sorted: lexicographic by syllable code, a prefix first -/
theorem pre_sorted : ∀ it, NodeInv it → ∀ π, (pre π it).Pairwise (fun a b => keyLe a b = true) := by
  refine nodeInv_induction (fun s l sub _ hw _ ih π => ?_)
  rw [pre_node, List.pairwise_append]
  refine ⟨?_, ?_, ?_⟩
  · cases l <;> simp [leafKey]
  · rw [List.pairwise_flatMap]
    refine ⟨fun c hc => (ih c hc).2 _, ?_⟩
    refine (sorted_kids_ascending hw).imp_of_mem ?_
    intro a b ha hb hlt x hx y hy
    exact keyLe_ext_lt ((pre_props a (ih a ha).1 _).2 x hx) ((pre_props b (ih b hb).1 _).2 y hy) hlt
  · intro a ha b hb
    cases l with
    | none => cases ha
    | some ps =>
      simp only [leafKey, List.mem_singleton] at ha
      subst ha
      obtain ⟨c, hc, hbc⟩ := List.mem_flatMap.mp hb
      exact keyLe_of_isPrefix (isPrefix_trans (isPrefix_append_self a [c.syl]) ((pre_props c (ih c hc).1 _).2 b hbc))

/-- the runs of a list that goes on into subtrees under pairwise different further syllables -/
theorem runs_kids (π : Key) (P : Item → List Key) : ∀ (ks : List Item) (A : List Key) (a : Key) (s0 : Nat),
    A.getLast? = some a → isPrefix (π ++ [s0]) a = true → (∀ k ∈ ks, k.syl ≠ s0) →
    ks.Pairwise (fun x y => x.syl ≠ y.syl) →
    (∀ k ∈ ks, P k ≠ [] ∧ ∀ x ∈ P k, isPrefix (π ++ [k.syl]) x = true) →
    runs (A ++ ks.flatMap P) = runs A ++ ks.flatMap fun k => runs (P k) := by
  intro ks
  induction ks with
  | nil => intro A a s0 _ _ _ _ _; simp
  | cons k ks ih =>
    intro A a s0 hA ha hs0 hpw hP
    have hpw' := List.pairwise_cons.mp hpw
    obtain ⟨hne, hext⟩ := hP k (by simp)
    obtain ⟨C, a', hC⟩ : ∃ C a', P k = C ++ [a'] := by
      rcases List.eq_nil_or_concat (P k) with h | ⟨C, a', h⟩
      · exact absurd h hne
      · exact ⟨C, a', by simpa using h⟩
    have hlast : (A ++ P k).getLast? = some a' := by
      rw [List.getLast?_append, hC]; simp
    have ha' : isPrefix (π ++ [k.syl]) a' = true := hext a' (by rw [hC]; simp)
    have h1 := ih (A ++ P k) a' k.syl hlast ha' (fun k' hk' => (hpw'.1 k' hk').symm) hpw'.2
      (fun k' hk' => hP k' (by simp [hk']))
    have h2 : runs (A ++ P k) = runs A ++ runs (P k) := by
      refine runs_append A (P k) (fun a0 ha0 b hb => ?_)
      rw [hA] at ha0
      cases ha0
      have hb' : b ∈ P k := List.mem_of_mem_head? hb
      exact ext_not_prefix ha (hext b hb') (hs0 k (by simp)).symm
    simp only [List.flatMap_cons]
    rw [← List.append_assoc, h1, h2, List.append_assoc]

/-- the pending leaves of a descent: a chain of prefixes of the current path, deepest first -/
def ChainTo (pend : List Key) (π : Key) : Prop :=
  pend.reverse.Pairwise (fun a b => isPrefix a b = true) ∧ ∀ p ∈ pend, isPrefix p π = true

theorem chainTo_nil (π : Key) : ChainTo [] π := ⟨by simp, fun _ h => by cases h⟩

theorem chainTo_step {pend : List Key} {π : Key} (h : ChainTo pend π) (l : Option (List Phrase)) (s : Nat) :
    ChainTo (leafKey π l ++ pend) (π ++ [s]) := by
  cases l with
  | none =>
    exact ⟨h.1, fun p hp => isPrefix_trans (h.2 p hp) (isPrefix_append_self π [s])⟩
  | some ps =>
    simp only [leafKey, List.cons_append, List.nil_append]
    refine ⟨?_, ?_⟩
    · rw [List.reverse_cons, List.pairwise_append]
      refine ⟨h.1, by simp, ?_⟩
      intro a ha b hb
      simp only [List.mem_singleton] at hb
      subst hb
      exact h.2 a (List.mem_reverse.mp ha)
    · intro p hp
      simp only [List.mem_cons] at hp
      rcases hp with rfl | hp
      · exact isPrefix_append_self _ _
      · exact isPrefix_trans (h.2 p hp) (isPrefix_append_self π [s])

theorem leafKey_reverse (π : Key) (l : Option (List Phrase)) : (leafKey π l).reverse = leafKey π l := by
  cases l <;> rfl

/-- **the enumeration below a node is its sorted key list cut into prefix chains, each chain reversed** -/
theorem ord_eq_runs : ∀ it, NodeInv it → ∀ (π : Key) (pend : List Key), ChainTo pend π →
    ord π it pend = (runs (pend.reverse ++ pre π it)).flatMap List.reverse := by
  refine nodeInv_induction (fun s l sub _ hw hne ih π pend hch => ?_)
  rw [ord_node, pre_node]
  cases hk : sortBy sylLt sub.toItems with
  | nil =>
    cases l with
    | none => simp [kidsOf_eq, leafItem, hk] at hne
    | some ps =>
      simp only [ordKids, leafKey, List.flatMap_nil, List.append_nil, List.cons_append, List.nil_append]
      have hc := (chainTo_step hch (some ps) 0).1
      simp only [leafKey, List.cons_append, List.nil_append, List.reverse_cons] at hc
      rw [runs_chain _ (by simp) hc]
      simp
  | cons k1 ks =>
    have hasc := sorted_kids_ascending hw
    rw [hk] at hasc ih
    have hasc' := List.pairwise_cons.mp hasc
    have ih1 := ih k1 (by simp)
    simp only [ordKids]
    rw [ih1.2 (π ++ [k1.syl]) _ (chainTo_step hch l k1.syl)]
    have hks : ∀ k ∈ ks, ord (π ++ [k.syl]) k [] = (runs (pre (π ++ [k.syl]) k)).flatMap List.reverse := by
      intro k hk'
      have := (ih k (by simp [hk'])).2 (π ++ [k.syl]) [] (chainTo_nil _)
      simpa using this
    rw [flatMap_congr' hks]
    -- the right-hand side
    obtain ⟨hne1, hext1⟩ := pre_props k1 ih1.1 (π ++ [k1.syl])
    obtain ⟨C, a', hC⟩ : ∃ C a', pre (π ++ [k1.syl]) k1 = C ++ [a'] := by
      rcases List.eq_nil_or_concat (pre (π ++ [k1.syl]) k1) with h | ⟨C, a', h⟩
      · exact absurd h hne1
      · exact ⟨C, a', by simpa using h⟩
    have hA : ((leafKey π l ++ pend).reverse ++ pre (π ++ [k1.syl]) k1).getLast? = some a' := by
      rw [List.getLast?_append, hC]; simp
    have hrk := runs_kids π (fun k => pre (π ++ [k.syl]) k) ks _ a' k1.syl hA (hext1 a' (by rw [hC]; simp))
      (fun k hk' => Nat.ne_of_gt (hasc'.1 k hk')) (hasc'.2.imp (fun h => Nat.ne_of_lt h))
      (fun k hk' => pre_props k (ih k (by simp [hk'])).1 _)
    have hre : pend.reverse ++ (leafKey π l ++ List.flatMap (fun k => pre (π ++ [k.syl]) k) (k1 :: ks)) =
        ((leafKey π l ++ pend).reverse ++ pre (π ++ [k1.syl]) k1) ++ ks.flatMap fun k => pre (π ++ [k.syl]) k := by
      rw [List.reverse_append, leafKey_reverse]
      simp [List.append_assoc]
    rw [hre, hrk, List.flatMap_append, List.flatMap_assoc]

/-- **for every key list that is a permutation of the tree's keys, the enumeration is `Cli.trieOrder`** -/
theorem ord_eq_trieOrder {it : Item} (hn : NodeInv it) {keys : List Key} (hp : keys.Perm (ord [] it [])) :
    ord [] it [] = trieOrder keys := by
  have h1 := ord_eq_runs it hn [] [] (chainTo_nil _)
  simp only [List.reverse_nil, List.nil_append] at h1
  have hperm : keys.Perm (pre [] it) := by
    refine hp.trans ?_
    rw [h1]
    refine (flatMap_reverse_perm _).trans ?_
    rw [runs_flatten]
  unfold trieOrder
  rw [sortKeys_congr hperm, insSort_of_pairwise (pre_sorted it hn []), h1]

/-! ### the reader on a written index -/

/-- `entries_laid` with the walk's result kept: besides being a permutation of the tree's groups, the list
    the reader's loop returns has its keys in the order `ord` -/
theorem entries_laid_out {recs : List Rec} {data : Bytes} {info : Info} {l : Option (List Phrase)} {sub : Forest}
    (hl : Laid recs data 0 (.node 0 l sub)) (hp : (Item.node 0 l sub).Pre)
    (hcount : recs.length = (Item.node 0 l sub).size) :
    ∃ out : List Group, out.Perm (nodeGroups (l, sub)) ∧
      (kidsOf l sub = [] → out = []) ∧
      (kidsOf l sub ≠ [] → out.map (·.1) = ord [] (.node 0 l sub) []) ∧
      entries { info := info, index := recs.flatMap recBytes, data := data } =
        .ok (out.flatMap fun g => (sortLeaf g.2).map fun p => (g.1, p)) := by
  obtain ⟨r, hr1, hr2, hr3, hr4, hr5⟩ := laid_rec hl hp
  have hv : viewAt (recs.flatMap recBytes) 0 = r := by
    simpa using viewAt_recs recs 0 r hr1 hr2 hr3 hr4
  have hlen : 1 ≤ recs.length := by
    rcases Nat.lt_or_ge 0 recs.length with h | h
    · exact h
    · rw [List.getElem?_eq_none h] at hr1; cases hr1
  simp only [entries, flatMap_recBytes_length, hv]
  rw [if_neg (by omega)]
  cases hl with
  | node hr hcb hn hle hk =>
    rename_i cb
    rw [hr1] at hr
    cases hr
    by_cases hkids : kidsOf l sub = []
    · have hl' : l = none := by
        cases l with
        | none => rfl
        | some ps => simp [kidsOf_eq, leafItem] at hkids
      have hsub : forestGroups sub = [] := by
        rw [forestGroups_toItems]
        have : sub.toItems = [] := by
          have h2 := congrArg List.length hkids
          simp only [kidsOf_eq, List.length_append, sortBy_length, List.length_nil] at h2
          exact List.eq_nil_of_length_eq_zero (by omega)
        rw [this]; rfl
      refine ⟨[], by simp [nodeGroups, hl', hsub, leafGroup], fun _ => rfl, fun h => absurd hkids h, ?_⟩
      simp [cbOf, ceOf, hkids]
    · have hpos : 0 < (kidsOf l sub).length := List.length_pos_iff.mpr hkids
      rw [if_neg (by simp only [cbOf, ceOf]; omega)]
      have hrep : Rep recs data (cb, (kidsOf l sub).length, 0) (.node 0 l sub) :=
        ⟨0, hr1, Laid.node hr1 hcb hn hle hk, hp, hkids⟩
      have hninv : NodeInv (.node 0 l sub) := ⟨0, l, sub, rfl, hp.2.1, hp.2.2, hkids⟩
      obtain ⟨out, hout, hperm⟩ := tLoop_spec (recs.length * 8 + 1) (recs.length * 8 + 1) (.node 0 l sub) [] []
        hninv (by intro F hF; cases hF) (by intro s hs; cases hs)
        (by simp [fsize]; omega) (by simp [fsize]; omega)
      have := entriesLoop_rep (recs.length * 8 + 1) _ _ [] [] [] hrep .nil (by intro s hs; cases hs) out
        (by rw [flatMap_recBytes_length]; exact hout)
      rw [this]
      refine ⟨out, ?_, fun h => absurd h hkids, fun _ => ?_, ?_⟩
      · refine hperm.trans ?_
        simp [framesGroups, itemGroups]
      · have := tLoop_ord _ _ _ _ _ _ hout
        simpa [framesOrd] using this
      · simp only [List.flatMap_map, sortG]

/-- **`entries()` of a written file, as a list**: for every duplicate-free list `keys` of the keys of the
    tree, the reader yields the keys in the order `Cli.trieOrder keys` and under each key its leaf as written -/
theorem entries_laid_order {recs : List Rec} {data : Bytes} {info : Info} {l : Option (List Phrase)} {sub : Forest}
    (hl : Laid recs data 0 (.node 0 l sub)) (hp : (Item.node 0 l sub).Pre)
    (hcount : recs.length = (Item.node 0 l sub).size)
    (keys : List Key) (hnd : keys.Nodup) (hkeys : ∀ k, k ∈ keys ↔ ∃ ps, findNode k (l, sub) = some ps) :
    entries { info := info, index := recs.flatMap recBytes, data := data } =
      .ok ((trieOrder keys).flatMap fun k => (sortLeaf ((findNode k (l, sub)).getD [])).map fun p => (k, p)) := by
  obtain ⟨out, hperm, hnil, hord, hent⟩ := entries_laid_out (info := info) hl hp hcount
  rw [hent]
  have hw : sub.WF := hp.2.2
  have hmem : ∀ g ∈ out, findNode g.1 (l, sub) = some g.2 := by
    intro g hg
    exact (mem_nodeGroups hw g.1 g.2).mp (hperm.mem_iff.mp hg)
  have hnd' : (out.map (·.1)).Nodup := (hperm.map (·.1)).nodup_iff.mpr (nodeGroups_keys_nodup hw)
  have hkp : keys.Perm (out.map (·.1)) := by
    rw [List.perm_ext_iff_of_nodup hnd hnd']
    intro k
    rw [hkeys k, List.mem_map]
    constructor
    · rintro ⟨ps, h⟩
      exact ⟨(k, ps), hperm.mem_iff.mpr ((mem_nodeGroups hw k ps).mpr h), rfl⟩
    · rintro ⟨g, hg, rfl⟩
      exact ⟨g.2, hmem g hg⟩
  have hto : out.map (·.1) = trieOrder keys := by
    by_cases hk : kidsOf l sub = []
    · have ho := hnil hk
      subst ho
      have : keys = [] := List.Perm.eq_nil (by simpa using hkp)
      rw [this]; rfl
    · rw [hord hk]
      refine ord_eq_trieOrder ⟨0, l, sub, rfl, hp.2.1, hw, hk⟩ ?_
      rw [← hord hk]; exact hkp
  rw [← hto, List.flatMap_map]
  congr 1
  refine flatMap_congr' (fun g hg => ?_)
  rw [hmem g hg]
  rfl

end Chewing.TrieCodec
