import Chewing.Model.TrieCodec
import Chewing.Proofs.TrieFuzzy
/-!
`entries()` on the tree: the explicit-stack DFS (descend along first children collecting leaves,
ascend to the next sibling) yields every (key, leaf) of the tree exactly once.

`tDescend`/`tAscend`/`tLoop` mirror the reader's `descend`/`ascend`/`entriesLoop` with tree nodes
instead of record views (the refinement is `Proofs/TrieEntries.lean`).
-/
namespace Chewing.TrieCodec
open Chewing Chewing.Der

/-- (key, inserted phrase vector) -/
abbrev Group := List Nat × List Phrase

def leafGroup : Option (List Phrase) → List Group
  | some ps => [([], ps)]
  | none => []

/-- all groups below a child list, keys relative to the parent -/
def forestGroups : Forest → List Group
  | .nil => []
  | .cons s l sub next =>
    (leafGroup l ++ forestGroups sub).map (fun g => (s :: g.1, g.2)) ++ forestGroups next

def nodeGroups (nd : NodeData) : List Group := leafGroup nd.1 ++ forestGroups nd.2

/-- the groups below an item whose node sits at the absolute path `π` -/
def itemGroups (π : List Nat) : Item → List Group
  | .node _ l sub => (nodeGroups (l, sub)).map fun g => (π ++ g.1, g.2)
  | .leaf ps => [(π, ps)]

/-! ### the groups are the builder's map -/

theorem mem_forestGroups {f : Forest} (hf : f.WF) (k : List Nat) (ps : List Phrase) :
    (k, ps) ∈ forestGroups f ↔ ∃ s r nd, k = s :: r ∧ f.child s = some nd ∧ findNode r nd = some ps := by
  induction f generalizing k ps with
  | nil => simp [forestGroups, Forest.child]
  | cons t l sub next ihs ihn =>
    obtain ⟨_, _, _, h3, _, _, h6, h7⟩ := hf
    simp only [forestGroups, List.mem_append, List.mem_map, Forest.child]
    constructor
    · rintro (⟨g, hg, heq⟩ | h)
      · cases heq
        refine ⟨t, g.1, (l, sub), rfl, by simp, ?_⟩
        rcases hg with hg | hg
        · cases l with
          | none => cases hg
          | some ps' =>
            simp [leafGroup] at hg
            obtain ⟨g1, g2⟩ := g
            simp only [Prod.mk.injEq] at hg
            obtain ⟨rfl, rfl⟩ := hg
            rfl
        · obtain ⟨g1, g2⟩ := g
          obtain ⟨s, r, nd, rfl, hc, hfn⟩ := (ihs h6 g1 g2).mp hg
          simp only [findNode, hc, hfn]
      · obtain ⟨s, r, nd, rfl, hc, hfn⟩ := (ihn h7 k ps).mp h
        have : t ≠ s := by
          intro e; rw [e] at h3; rw [h3] at hc; cases hc
        exact ⟨s, r, nd, rfl, by rw [if_neg this]; exact hc, hfn⟩
    · rintro ⟨s, r, nd, rfl, hc, hfn⟩
      by_cases hts : t = s
      · rw [if_pos hts] at hc
        cases hc
        left
        refine ⟨(r, ps), ?_, by rw [hts]⟩
        cases r with
        | nil =>
          simp only [findNode] at hfn
          left
          rw [hfn]; simp [leafGroup]
        | cons s' r' =>
          right
          simp only [findNode] at hfn
          cases hc' : sub.child s' with
          | none => rw [hc'] at hfn; cases hfn
          | some nd' =>
            rw [hc'] at hfn
            exact (ihs h6 (s' :: r') ps).mpr ⟨s', r', nd', rfl, hc', hfn⟩
      · rw [if_neg hts] at hc
        exact Or.inr ((ihn h7 (s :: r) ps).mpr ⟨s, r, nd, rfl, hc, hfn⟩)

theorem forestGroups_key_ne_nil {f : Forest} {g : Group} (h : g ∈ forestGroups f) : g.1 ≠ [] := by
  induction f with
  | nil => cases h
  | cons t l sub next _ ihn =>
    simp only [forestGroups, List.mem_append, List.mem_map] at h
    rcases h with ⟨g', _, rfl⟩ | h
    · simp
    · exact ihn h

/-- a group of the tree = an entry of the builder's map -/
theorem mem_nodeGroups {l : Option (List Phrase)} {sub : Forest} (hw : sub.WF) (k : List Nat) (ps : List Phrase) :
    (k, ps) ∈ nodeGroups (l, sub) ↔ findNode k (l, sub) = some ps := by
  simp only [nodeGroups, List.mem_append]
  constructor
  · rintro (h | h)
    · cases l with
      | none => cases h
      | some ps' => simp [leafGroup] at h; obtain ⟨rfl, rfl⟩ := h; rfl
    · obtain ⟨s, r, nd, rfl, hc, hfn⟩ := (mem_forestGroups hw k ps).mp h
      simp only [findNode, hc, hfn]
  · intro h
    cases k with
    | nil =>
      simp only [findNode] at h
      left; rw [h]; simp [leafGroup]
    | cons s r =>
      right
      simp only [findNode] at h
      cases hc : sub.child s with
      | none => rw [hc] at h; cases h
      | some nd =>
        rw [hc] at h
        exact (mem_forestGroups hw (s :: r) ps).mpr ⟨s, r, nd, rfl, hc, h⟩

theorem leafGroup_keys_nodup (l : Option (List Phrase)) : ((leafGroup l).map (·.1)).Nodup := by
  cases l <;> simp [leafGroup]

theorem forestGroups_keys_nodup {f : Forest} (hf : f.WF) : ((forestGroups f).map (·.1)).Nodup := by
  induction f with
  | nil => simp [forestGroups]
  | cons t l sub next ihs ihn =>
    obtain ⟨_, _, _, h3, _, _, h6, h7⟩ := hf
    rw [forestGroups, List.map_append, List.map_map]
    have h2 : List.map ((fun x : Group => x.1) ∘ fun g : Group => (t :: g.1, g.2)) (leafGroup l ++ forestGroups sub) =
        List.map (fun r => t :: r) ((leafGroup l ++ forestGroups sub).map (·.1)) := by
      simp [List.map_map, Function.comp_def]
    rw [h2, List.nodup_append]
    refine ⟨?_, ihn h7, ?_⟩
    · have hinner : ((leafGroup l ++ forestGroups sub).map (·.1)).Nodup := by
        rw [List.map_append, List.nodup_append]
        refine ⟨leafGroup_keys_nodup l, ihs h6, ?_⟩
        intro a ha b hb e
        obtain ⟨g, hg, rfl⟩ := List.mem_map.mp ha
        obtain ⟨g', hg', rfl⟩ := List.mem_map.mp hb
        have := forestGroups_key_ne_nil hg'
        cases l with
        | none => cases hg
        | some ps => simp [leafGroup] at hg; rw [hg] at e; exact this e.symm
      exact List.Pairwise.map (S := fun a b => a ≠ b) (fun r => t :: r)
        (fun a b hne e => hne (by simpa using e)) hinner
    · intro a ha b hb e
      obtain ⟨r, _, rfl⟩ := List.mem_map.mp ha
      obtain ⟨g', hg', rfl⟩ := List.mem_map.mp hb
      obtain ⟨g1, g2⟩ := g'
      obtain ⟨s, r', nd, hk, hc, _⟩ := (mem_forestGroups h7 g1 g2).mp hg'
      simp only at e hk
      rw [hk] at e
      simp only [List.cons.injEq] at e
      rw [← e.1, h3] at hc
      cases hc

theorem nodeGroups_keys_nodup {l : Option (List Phrase)} {sub : Forest} (hw : sub.WF) :
    ((nodeGroups (l, sub)).map (·.1)).Nodup := by
  simp only [nodeGroups, List.map_append]
  rw [List.nodup_append]
  refine ⟨leafGroup_keys_nodup l, forestGroups_keys_nodup hw, ?_⟩
  intro a ha b hb e
  obtain ⟨g, hg, rfl⟩ := List.mem_map.mp ha
  obtain ⟨g', hg', rfl⟩ := List.mem_map.mp hb
  have := forestGroups_key_ne_nil hg'
  cases l with
  | none => cases hg
  | some ps => simp [leafGroup] at hg; rw [hg] at e; exact this e.symm

/-! ### groups of a node through its queue entries -/

theorem forestGroups_toItems (f : Forest) :
    forestGroups f = f.toItems.flatMap fun k => itemGroups [k.syl] k := by
  induction f with
  | nil => rfl
  | cons t l sub next _ ihn =>
    simp only [forestGroups, Forest.toItems, List.flatMap_cons, ihn, itemGroups, nodeGroups, Item.syl]
    simp

/-- the groups below a node: its own leaf, then those of its children in any order of the children -/
theorem itemGroups_node_perm (π : List Nat) (s : Nat) (l : Option (List Phrase)) (sub : Forest) :
    (itemGroups π (.node s l sub)).Perm
      ((leafGroup l).map (fun g => (π ++ g.1, g.2)) ++
        (sortBy sylLt sub.toItems).flatMap fun k => itemGroups (π ++ [k.syl]) k) := by
  have hl : itemGroups π (.node s l sub) =
      (leafGroup l).map (fun g => (π ++ g.1, g.2)) ++ (forestGroups sub).map (fun g => (π ++ g.1, g.2)) := by
    simp only [itemGroups, nodeGroups, List.map_append]
  rw [hl]
  refine List.Perm.append_left _ ?_
  rw [forestGroups_toItems, List.map_flatMap]
  have hfun : (fun k : Item => (itemGroups [k.syl] k).map fun g => (π ++ g.1, g.2)) =
      fun k => itemGroups (π ++ [k.syl]) k := by
    funext k
    cases k with
    | node s' l' sub' => simp [itemGroups, List.map_map, Function.comp_def, List.append_assoc]
    | leaf ps => simp [itemGroups]
  rw [hfun]
  exact (List.Perm.flatMap_right _ (sortBy_perm sylLt sub.toItems)).symm

/-! ### the state machine on the tree -/

/-- descend along first children; `none` = out of fuel (or a node without records below it) -/
def tDescend : Nat → Item → List (List Item) → List Nat → List Group →
    Option (List (List Item) × List Nat × List Group)
  | 0, _, _, _, _ => none
  | f + 1, node, stack, syls, results =>
    match node.kids with
    | [] => none
    | .leaf ps :: more =>
      match more with
      | [] => some (stack, syls, (syls.reverse, ps) :: results)
      | second :: more' => tDescend f second (more' :: stack) (second.syl :: syls) ((syls.reverse, ps) :: results)
    | .node s l sub :: more =>
      tDescend f (.node s l sub) (more :: stack) (s :: syls) results

def tAscend : List (List Item) → List Nat → Option (Item × List (List Item) × List Nat)
  | [], _ => none
  | [] :: stack, syls => tAscend stack syls.tail
  | (next :: it) :: stack, syls => some (next, it :: stack, next.syl :: syls.tail)

def tLoop (D : Nat) : Nat → Item → List (List Item) → List Nat → Option (List Group)
  | 0, _, _, _ => none
  | f + 1, node, stack, syls =>
    match tDescend D node stack syls [] with
    | none => none
    | some (stack', syls', results) =>
      match tAscend stack' syls' with
      | none => some results
      | some (node', stack'', syls'') =>
        match tLoop D f node' stack'' syls'' with
        | none => none
        | some more => some (results ++ more)

/-- what is still to be produced from the frames of the stack -/
def framesGroups : List (List Item) → List Nat → List Group
  | [], _ => []
  | F :: stack, syls =>
    (F.flatMap fun X => itemGroups ((X.syl :: syls.tail).reverse) X) ++ framesGroups stack syls.tail

def fsize (stack : List (List Item)) : Nat := (stack.map qsize).sum

/-- the current node of the iteration: a node (root or not) with something below it -/
def NodeInv (it : Item) : Prop :=
  ∃ s l sub, it = .node s l sub ∧ LeafOK l ∧ sub.WF ∧ kidsOf l sub ≠ []

/-- stacked siblings are non-root nodes -/
def FramesInv (stack : List (List Item)) : Prop := ∀ F ∈ stack, ∀ X ∈ F, X.WF ∧ X.syl ≠ 0

theorem WF_node_inv {it : Item} (h : it.WF) (hs : it.syl ≠ 0) : NodeInv it := by
  cases it with
  | leaf ps => exact absurd rfl hs
  | node s l sub => exact ⟨s, l, sub, rfl, h.2.2.2.1, h.2.2.2.2.2, h.kids_ne_nil⟩

theorem sorted_kids_inv {sub : Forest} (hw : sub.WF) : ∀ X ∈ sortBy sylLt sub.toItems, X.WF ∧ X.syl ≠ 0 := by
  intro X hX
  have hm := mem_sortBy.mp hX
  have := toItems_syl_pos hw X hm
  exact ⟨toItems_WF hw X hm, by omega⟩

theorem qsize_cons (k : Item) (ks : List Item) : qsize (k :: ks) = k.size + qsize ks := by
  simp [qsize]

theorem item_size_pos (it : Item) : 1 ≤ it.size := by
  cases it <;> simp [Item.size] <;> omega

/-- one descent: the leaves of the chain are produced, the remaining work is on the stack -/
theorem tDescend_spec (f : Nat) : ∀ (node : Item) (stack : List (List Item)) (syls : List Nat) (results : List Group),
    NodeInv node → FramesInv stack → (∀ s ∈ syls, s ≠ 0) → node.size ≤ f →
    ∃ stack' syls' chain, tDescend f node stack syls results = some (stack', syls', chain ++ results) ∧
      (chain ++ framesGroups stack' syls').Perm (itemGroups syls.reverse node ++ framesGroups stack syls) ∧
      fsize stack' + 1 ≤ node.size + fsize stack ∧ FramesInv stack' ∧ (∀ s ∈ syls', s ≠ 0) := by
  induction f with
  | zero =>
    intro node stack syls results _ _ _ hsz
    have := item_size_pos node
    omega
  | succ f ih =>
    intro node stack syls results hn hfr hsy hsz
    obtain ⟨s, l, sub, rfl, hl, hw, hne⟩ := hn
    have hperm := itemGroups_node_perm syls.reverse s l sub
    have hkinv := sorted_kids_inv hw
    have hsize : qsize (sortBy sylLt sub.toItems) = sub.size := by
      rw [← qsize_toItems]
      exact ((sortBy_perm sylLt sub.toItems).map Item.size).sum_nat
    simp only [tDescend, Item.kids, kidsOf_eq]
    cases l with
    | some ps =>
      simp only [leafItem, List.cons_append, List.nil_append]
      have hleaf : (leafGroup (some ps)).map (fun g => (syls.reverse ++ g.1, g.2)) = [(syls.reverse, ps)] := by
        simp [leafGroup]
      rw [hleaf] at hperm
      cases hk : sortBy sylLt sub.toItems with
      | nil =>
        rw [hk] at hperm
        refine ⟨stack, syls, [(syls.reverse, ps)], rfl, ?_, ?_, hfr, hsy⟩
        · simp only [List.flatMap_nil, List.append_nil] at hperm
          exact List.Perm.append_right _ hperm.symm
        · simp [Item.size]; omega
      | cons k2 ks =>
        rw [hk] at hperm hkinv hsize
        have hk2 := hkinv k2 (by simp)
        have hfr' : FramesInv (ks :: stack) := by
          intro F hF X hX
          simp only [List.mem_cons] at hF
          rcases hF with rfl | hF
          · exact hkinv X (by simp [hX])
          · exact hfr F hF X hX
        have hsy' : ∀ t ∈ k2.syl :: syls, t ≠ 0 := by
          intro t ht
          simp only [List.mem_cons] at ht
          rcases ht with rfl | ht
          · exact hk2.2
          · exact hsy t ht
        rw [qsize_cons] at hsize
        have hsz2 : k2.size ≤ f := by simp [Item.size] at hsz; omega
        obtain ⟨stack', syls', chain, hd, hp, hfs, hfi, hsi⟩ :=
          ih k2 (ks :: stack) (k2.syl :: syls) ((syls.reverse, ps) :: results) (WF_node_inv hk2.1 hk2.2) hfr' hsy' hsz2
        refine ⟨stack', syls', chain ++ [(syls.reverse, ps)], by simpa using hd, ?_, ?_, hfi, hsi⟩
        · -- (chain ++ C) ++ B ~ C ++ (chain ++ B) ~ C ++ (D ++ (E ++ G)) ~ node ++ G
          simp only [framesGroups, List.reverse_cons, List.tail_cons, List.flatMap_cons] at hp hperm
          refine List.Perm.trans ?_ (List.Perm.append_right _ hperm.symm)
          have h1 : (chain ++ [(syls.reverse, ps)] ++ framesGroups stack' syls').Perm
              ([(syls.reverse, ps)] ++ (chain ++ framesGroups stack' syls')) := by
            rw [List.append_assoc]
            exact List.perm_append_comm_assoc _ _ _
          refine h1.trans ?_
          rw [List.append_assoc]
          refine List.Perm.append_left _ ?_
          refine hp.trans ?_
          simp [List.append_assoc]
        · simp only [fsize, List.map_cons, List.sum_cons] at hfs ⊢
          simp [Item.size]
          omega
    | none =>
      simp only [leafItem, List.nil_append]
      have hleaf : (leafGroup none).map (fun g : Group => (syls.reverse ++ g.1, g.2)) = [] := rfl
      rw [hleaf, List.nil_append] at hperm
      cases hk : sortBy sylLt sub.toItems with
      | nil => simp [kidsOf_eq, leafItem, hk] at hne
      | cons k1 ks =>
        rw [hk] at hperm hkinv hsize
        have hk1 := hkinv k1 (by simp)
        have hfr' : FramesInv (ks :: stack) := by
          intro F hF X hX
          simp only [List.mem_cons] at hF
          rcases hF with rfl | hF
          · exact hkinv X (by simp [hX])
          · exact hfr F hF X hX
        have hsy' : ∀ t ∈ k1.syl :: syls, t ≠ 0 := by
          intro t ht
          simp only [List.mem_cons] at ht
          rcases ht with rfl | ht
          · exact hk1.2
          · exact hsy t ht
        rw [qsize_cons] at hsize
        have hsz1 : k1.size ≤ f := by simp [Item.size] at hsz; omega
        obtain ⟨stack', syls', chain, hd, hp, hfs, hfi, hsi⟩ :=
          ih k1 (ks :: stack) (k1.syl :: syls) results (WF_node_inv hk1.1 hk1.2) hfr' hsy' hsz1
        cases k1 with
        | leaf ps' => exact absurd rfl hk1.2
        | node s1 l1 sub1 =>
          refine ⟨stack', syls', chain, hd, ?_, ?_, hfi, hsi⟩
          · simp only [framesGroups, List.reverse_cons, List.tail_cons, List.flatMap_cons] at hp hperm
            refine List.Perm.trans ?_ (List.Perm.append_right _ hperm.symm)
            refine hp.trans ?_
            simp [List.append_assoc, Item.syl]
          · simp only [fsize, List.map_cons, List.sum_cons] at hfs ⊢
            simp [Item.size]
            omega

/-- ascending keeps what remains -/
theorem tAscend_spec : ∀ (stack : List (List Item)) (syls : List Nat), FramesInv stack → (∀ s ∈ syls, s ≠ 0) →
    match tAscend stack syls with
    | none => framesGroups stack syls = []
    | some (n, stack', syls') =>
      framesGroups stack syls = itemGroups syls'.reverse n ++ framesGroups stack' syls' ∧
      n.size + fsize stack' = fsize stack ∧ NodeInv n ∧ FramesInv stack' ∧ (∀ s ∈ syls', s ≠ 0) := by
  intro stack
  induction stack with
  | nil => intro syls _ _; rfl
  | cons F stack ih =>
    intro syls hfr hsy
    cases F with
    | nil =>
      simp only [tAscend]
      have := ih syls.tail (fun F hF => hfr F (by simp [hF])) (fun s hs => hsy s (List.mem_of_mem_tail hs))
      cases hta : tAscend stack syls.tail with
      | none => rw [hta] at this; simpa [framesGroups] using this
      | some r =>
        obtain ⟨n, stack', syls'⟩ := r
        rw [hta] at this
        simp only at this ⊢
        refine ⟨by simpa [framesGroups] using this.1, ?_, this.2.2⟩
        simpa [fsize, qsize] using this.2.1
    | cons X Xs =>
      simp only [tAscend]
      have hX := hfr (X :: Xs) (by simp) X (by simp)
      refine ⟨?_, ?_, WF_node_inv hX.1 hX.2, ?_, ?_⟩
      · simp [framesGroups, List.append_assoc]
      · simp [fsize, qsize]; omega
      · intro F hF Y hY
        simp only [List.mem_cons] at hF
        rcases hF with rfl | hF
        · exact hfr (X :: F) (by simp) Y (by simp [hY])
        · exact hfr F (by simp [hF]) Y hY
      · intro s hs
        simp only [List.mem_cons] at hs
        rcases hs with rfl | hs
        · exact hX.2
        · exact hsy s (List.mem_of_mem_tail hs)

/-- the whole iteration produces what remains, each group once -/
theorem tLoop_spec (D : Nat) (f : Nat) : ∀ (node : Item) (stack : List (List Item)) (syls : List Nat),
    NodeInv node → FramesInv stack → (∀ s ∈ syls, s ≠ 0) →
    node.size + fsize stack ≤ f → node.size + fsize stack ≤ D →
    ∃ out, tLoop D f node stack syls = some out ∧
      out.Perm (itemGroups syls.reverse node ++ framesGroups stack syls) := by
  induction f with
  | zero =>
    intro node stack syls _ _ _ hsz _
    have := item_size_pos node
    omega
  | succ f ih =>
    intro node stack syls hn hfr hsy hsz hD
    obtain ⟨stack', syls', chain, hd, hp, hfs, hfi, hsi⟩ :=
      tDescend_spec D node stack syls [] hn hfr hsy (by omega)
    simp only [List.append_nil] at hd
    simp only [tLoop, hd]
    have hasc := tAscend_spec stack' syls' hfi hsi
    cases hta : tAscend stack' syls' with
    | none =>
      rw [hta] at hasc
      simp only at hasc ⊢
      rw [hasc, List.append_nil] at hp
      exact ⟨chain, rfl, hp⟩
    | some r =>
      obtain ⟨n, stack'', syls''⟩ := r
      rw [hta] at hasc
      simp only at hasc ⊢
      obtain ⟨hg, hs2, hn2, hf2, hy2⟩ := hasc
      obtain ⟨out, ho, hop⟩ := ih n stack'' syls'' hn2 hf2 hy2 (by omega) (by omega)
      rw [ho]
      refine ⟨chain ++ out, rfl, ?_⟩
      refine List.Perm.trans (List.Perm.append_left _ hop) ?_
      rw [← hg]
      exact hp

end Chewing.TrieCodec
