import Chewing.Model.TrieCodec
import Chewing.Proofs.TrieLookup
import Chewing.Proofs.TrieSpec
/-!
`lookup_first_n_phrases` / `lookup_first_phrase` on a written file: the threads' leaves are appended
one whole leaf at a time until more than `first` phrases are held (`cutoff`), then the vector is
truncated to `first` (`result.truncate(first)`).  The loop's result is a prefix of
`lookup_all_phrases` that is either all of it or longer than `first`, so after the truncation the
result is exactly the first `first` phrases of `lookup_all_phrases` (`lookupFirstN_eq_take`).
-/
namespace Chewing.TrieCodec
open Chewing Chewing.Der

/-- leaves appended one at a time until more than `first` phrases are held -/
def cutoff (first : Nat) : List Phrase → List (List Phrase) → List Phrase
  | acc, [] => acc
  | acc, g :: gs => if (acc ++ g).length > first then acc ++ g else cutoff first (acc ++ g) gs

/-- the cut-off result is a prefix of everything -/
theorem cutoff_prefix (first : Nat) : ∀ (gs : List (List Phrase)) (acc : List Phrase),
    ∃ rest, acc ++ gs.flatten = cutoff first acc gs ++ rest := by
  intro gs
  induction gs with
  | nil => intro acc; exact ⟨[], by simp [cutoff]⟩
  | cons g gs ih =>
    intro acc
    simp only [cutoff]
    split
    · exact ⟨gs.flatten, by simp⟩
    · obtain ⟨rest, h⟩ := ih (acc ++ g)
      exact ⟨rest, by rw [← h]; simp⟩

/-- … and is everything, or holds more than `first` phrases -/
theorem cutoff_all_or_more (first : Nat) : ∀ (gs : List (List Phrase)) (acc : List Phrase),
    cutoff first acc gs = acc ++ gs.flatten ∨ first < (cutoff first acc gs).length := by
  intro gs
  induction gs with
  | nil => intro acc; left; simp [cutoff]
  | cons g gs ih =>
    intro acc
    simp only [cutoff]
    split
    · right; assumption
    · rcases ih (acc ++ g) with h | h
      · left; rw [h]; simp
      · right; exact h

/-- nothing is cut off when `first` is at least the number of phrases (`first = usize::MAX`) -/
theorem cutoff_all {first : Nat} {gs : List (List Phrase)} {acc : List Phrase}
    (h : (acc ++ gs.flatten).length ≤ first) : cutoff first acc gs = acc ++ gs.flatten := by
  rcases cutoff_all_or_more first gs acc with h1 | h1
  · exact h1
  · obtain ⟨rest, h2⟩ := cutoff_prefix first gs acc
    have := congrArg List.length h2
    simp only [List.length_append] at this h
    omega

/-- the loop followed by `truncate(first)`: exactly the first `first` phrases of everything -/
theorem cutoff_take (first : Nat) (gs : List (List Phrase)) (acc : List Phrase) :
    (cutoff first acc gs).take first = (acc ++ gs.flatten).take first := by
  rcases cutoff_all_or_more first gs acc with h | h
  · rw [h]
  · obtain ⟨rest, h2⟩ := cutoff_prefix first gs acc
    rw [h2, List.take_append_of_le_length (Nat.le_of_lt h)]

theorem collectN_rep {recs : List Rec} {data : Bytes} {views : List Rec} {items : List Item} (first : Nat)
    (h : Forall₂ (Rep recs data) views items) :
    ∀ acc, acc.length ≤ first →
      collectN (recs.flatMap recBytes) data first views acc = cutoff first acc (items.map Item.leafPhrases) := by
  induction h with
  | nil => intro acc _; simp [collectN, cutoff]
  | @cons v it views items hab _ ih =>
    intro acc hacc
    cases it with
    | leaf ps => obtain ⟨_, _, _, _, hk⟩ := hab; exact absurd rfl hk
    | node s l sub =>
      obtain ⟨hoob, hlen, hkids⟩ := rep_children hab
      have hoob2 : oob 0 8 ((recs.flatMap recBytes).length - cbOf v) = false := by
        simp only [oob, cbOf, flatMap_recBytes_length, Bool.or_eq_false_iff, decide_eq_false_iff_not]
        constructor <;> omega
      obtain ⟨pos, _, _, hpre, hne⟩ := hab
      simp only [collectN, hoob, hoob2, Bool.false_eq_true, if_false]
      cases hkl : kidsOf l sub with
      | nil => exact absurd hkl hne
      | cons k ks =>
        rw [hkl] at hkids
        cases hcv : childViews (recs.flatMap recBytes) v with
        | nil => rw [hcv] at hkids; cases hkids
        | cons w ws =>
          rw [hcv] at hkids
          cases hkids with
          | cons hwk _ =>
            have hw : viewAt (recs.flatMap recBytes) (cbOf v) = w := by
              have : (childViews (recs.flatMap recBytes) v)[0]? = some w := by rw [hcv]; rfl
              have hn : 0 < v.2.1 := by
                rcases Nat.eq_zero_or_pos v.2.1 with h0 | h0
                · simp [childViews, h0] at hcv
                · exact h0
              simp only [childViews, List.getElem?_map, List.getElem?_range hn, Option.map_some,
                Option.some.injEq, Nat.add_zero] at this
              exact this
            rw [hw]
            obtain ⟨kpos, hk1, hk2, hk3, hk4⟩ := hwk
            cases l with
            | some ps =>
              have hk : k = .leaf ps := by
                simp only [kidsOf_eq, leafItem, List.cons_append, List.nil_append, List.cons.injEq] at hkl
                exact hkl.1.symm
              subst hk
              cases hk2 with
              | leaf hr hdb hln hsl hle =>
                rename_i db
                rw [hk1] at hr
                cases hr
                have hne' : 0 < (encPhrases (sortLeaf ps)).length := by
                  have h1 := encPhrases_length_ge (sortLeaf ps)
                  have h2 := (sortLeaf_perm ps).length_eq
                  have h3 : 0 < ps.length := List.length_pos_iff.mpr hk3.1
                  omega
                have hoob3 : oob db (db + (encPhrases (sortLeaf ps)).length) data.length = false := by
                  simp only [oob, Bool.or_eq_false_iff, decide_eq_false_iff_not]
                  constructor <;> omega
                simp only [ne_eq, not_true_eq_false, if_false, hoob3, Bool.false_eq_true, dataSlice, hsl]
                rw [decPhrases_sortLeaf hk3.2 hln]
                simp only [List.map_cons, cutoff, Item.leafPhrases]
                split
                · rfl
                · exact ih _ (by omega)
            | none =>
              have hkm : k ∈ sortBy sylLt sub.toItems := by
                simp only [kidsOf_eq, leafItem, List.nil_append] at hkl
                rw [hkl]; simp
              have hksyl : k.syl ≠ 0 := by
                have := toItems_syl_pos hpre.2.2 k (mem_sortBy.mp hkm)
                omega
              rw [if_pos (by rw [hk4]; exact hksyl), ih acc hacc]
              simp only [List.map_cons, cutoff, Item.leafPhrases, List.append_nil]
              rw [if_neg (by omega)]

/-- **`lookup_first_n_phrases` on a written file**: the leaves of the nodes the key reaches, appended
    until more than `first` phrases are held, then truncated to `first` -/
theorem lookupFirstN_eq_cutoff {recs : List Rec} {data : Bytes} {info : Info} {root : Item}
    (hl : Laid recs data 0 root) (hp : root.Pre) (hroot : ∃ l sub, root = .node 0 l sub)
    (st : Strategy) (key : List Nat) (hkey : ∀ s ∈ key, s ≠ 0) (first : Nat) :
    lookupFirstN { info := info, index := recs.flatMap recBytes, data := data } key first st =
      (cutoff first [] ((tWalk st key [root]).map Item.leafPhrases)).take first := by
  obtain ⟨l, sub, rfl⟩ := hroot
  obtain ⟨r, hr1, hr2, hr3, hr4, hr5⟩ := laid_rec hl hp
  have hv : viewAt (recs.flatMap recBytes) 0 = r := by
    simpa using viewAt_recs recs 0 r hr1 hr2 hr3 hr4
  have hlen : 1 ≤ recs.length := by
    rcases Nat.lt_or_ge 0 recs.length with h | h
    · exact h
    · rw [List.getElem?_eq_none h] at hr1; cases hr1
  have hoob : oob 0 8 (recs.flatMap recBytes).length = false := by
    simp only [oob, flatMap_recBytes_length, Bool.or_eq_false_iff, decide_eq_false_iff_not]
    constructor <;> omega
  simp only [lookupFirstN, hoob, Bool.false_eq_true, if_false, hv]
  cases hl with
  | node hr hcb hn hle hk =>
    rename_i cb
    rw [hr1] at hr
    cases hr
    by_cases hkids : kidsOf l sub = []
    · have hl' : l = none := by
        cases l with
        | none => rfl
        | some ps => simp [kidsOf_eq, leafItem] at hkids
      have : (tWalk st key [Item.node 0 l sub]).map Item.leafPhrases = [[]] ∨
          (tWalk st key [Item.node 0 l sub]).map Item.leafPhrases = [] := by
        cases key with
        | nil => left; simp [tWalk, Item.leafPhrases, hl']
        | cons t rest => right; simp [tWalk, tStep, Item.kids, hkids, tWalk_nil]
      rcases this with h | h <;> rw [h] <;> simp [cbOf, ceOf, hkids, cutoff]
    · have hpos : 0 < (kidsOf l sub).length := List.length_pos_iff.mpr hkids
      rw [if_neg (by simp only [cbOf, ceOf]; omega)]
      have hrep : Forall₂ (Rep recs data) [(cb, (kidsOf l sub).length, 0)] [Item.node 0 l sub] :=
        .cons ⟨0, hr1, Laid.node hr1 hcb hn hle hk, hp, hkids⟩ .nil
      have hw := walk_rep (st := st) key hkey hrep
      cases hwalk : walk (recs.flatMap recBytes) st key [(cb, (kidsOf l sub).length, 0)] with
      | none =>
        rw [hwalk] at hw
        simp only at hw ⊢
        simp [hw, cutoff]
      | some views' =>
        rw [hwalk] at hw
        simp only at hw ⊢
        rw [collectN_rep first hw [] (by simp)]

/-- **first n = prefix of the full result**: on a written file `lookup_first_n_phrases(key, n, st)`
    is exactly the first `n` phrases of `lookup_all_phrases(key, st)`, for both strategies -/
theorem lookupFirstN_eq_take {recs : List Rec} {data : Bytes} {info : Info} {root : Item}
    (hl : Laid recs data 0 root) (hp : root.Pre) (hroot : ∃ l sub, root = .node 0 l sub)
    (st : Strategy) (key : List Nat) (hkey : ∀ s ∈ key, s ≠ 0) (first : Nat) :
    lookupFirstN { info := info, index := recs.flatMap recBytes, data := data } key first st =
      (lookupAll { info := info, index := recs.flatMap recBytes, data := data } key st).take first := by
  rw [lookupFirstN_eq_cutoff hl hp hroot st key hkey first, lookupAll_eq_tLookup hl hp hroot st key hkey,
    tLookup, List.flatMap_def, cutoff_take, List.nil_append]

end Chewing.TrieCodec
