import Chewing.Model.TrieCodec
import Chewing.Proofs.TrieSpec
/-!
The fuzzy-prefix walk on the tree reaches exactly the nodes whose path has the query's length and
matches it syllable by syllable, each once.  (The code's predicate is false for a stored syllable field that
`Syllable::try_from` rejects — `matchSyl … = n != 0 && validCode n && startsWith n syl`; every node of a
well-formed forest carries a valid code (`Forest.WF`), so on the builder tree the predicate is `startsWith`.)
-/
namespace Chewing.TrieCodec
open Chewing Chewing.Der

/-- every syllable of the key begins with the corresponding partial syllable, same length -/
def fuzzyMatch : List Nat → List Nat → Bool
  | [], [] => true
  | s :: k, p :: q => startsWith s p && fuzzyMatch k q
  | _, _ => false

def Item.leaf? : Item → Option (List Phrase)
  | .node _ l _ => l
  | .leaf _ => none

theorem leafPhrases_eq (it : Item) : it.leafPhrases = (it.leaf?.map sortLeaf).getD [] := by
  cases it with
  | node s l sub => cases l <;> rfl
  | leaf ps => rfl

/-- the node at a relative path -/
def itemAt : Item → List Nat → Option Item
  | n, [] => some n
  | .node _ _ sub, s :: r =>
    match sub.child s with
    | some nd => itemAt (.node s nd.1 nd.2) r
    | none => none
  | .leaf _, _ :: _ => none

theorem findNode_itemAt (s : Nat) (l : Option (List Phrase)) (sub : Forest) (path : List Nat) :
    findNode path (l, sub) = (itemAt (.node s l sub) path).bind Item.leaf? := by
  induction path generalizing s l sub with
  | nil => rfl
  | cons t r ih =>
    simp only [findNode, itemAt]
    cases hc : sub.child t with
    | none => rfl
    | some nd => simp only; exact ih t nd.1 nd.2

/-- nodes reached from `n`, with their relative paths, in thread order -/
def reach (st : Strategy) : List Nat → Item → List (List Nat × Item)
  | [], n => [([], n)]
  | p :: q, n =>
    (n.kids.filter fun k => matchSyl st k.syl p).flatMap fun k =>
      (reach st q k).map fun r => (k.syl :: r.1, r.2)

theorem tStep_append (st : Strategy) (p : Nat) (a b : List Item) :
    tStep st p (a ++ b) = tStep st p a ++ tStep st p b := by
  simp [tStep]

theorem tWalk_append (st : Strategy) (q : List Nat) (a b : List Item) :
    tWalk st q (a ++ b) = tWalk st q a ++ tWalk st q b := by
  induction q generalizing a b with
  | nil => rfl
  | cons p q ih => simp only [tWalk, tStep_append, ih]

theorem tWalk_flatMap (st : Strategy) (q : List Nat) (items : List Item) :
    tWalk st q items = items.flatMap fun n => tWalk st q [n] := by
  induction items with
  | nil => simp [tWalk_nil]
  | cons n ns ih =>
    have : n :: ns = [n] ++ ns := rfl
    rw [this, tWalk_append, ih]
    simp

theorem tWalk_eq_reach (st : Strategy) (q : List Nat) (n : Item) :
    tWalk st q [n] = (reach st q n).map (·.2) := by
  induction q generalizing n with
  | nil => rfl
  | cons p q ih =>
    simp only [tWalk, reach]
    rw [tWalk_flatMap]
    simp only [tStep, List.flatMap_cons, List.flatMap_nil, List.append_nil, List.map_flatMap, List.map_map]
    congr 1
    funext k
    rw [ih k]
    simp [Function.comp_def]

/-! ### which nodes are reached -/

theorem mem_toItems_iff {f : Forest} (hf : f.WF) (k : Item) :
    k ∈ f.toItems ↔ ∃ nd, f.child k.syl = some nd ∧ k = .node k.syl nd.1 nd.2 := by
  induction f with
  | nil => simp [Forest.toItems, Forest.child]
  | cons t l sub next _ ih =>
    obtain ⟨_, _, _, h3, _, _, _, h7⟩ := hf
    simp only [Forest.toItems, List.mem_cons, Forest.child]
    constructor
    · rintro (h | h)
      · subst h
        exact ⟨(l, sub), by simp [Item.syl], rfl⟩
      · obtain ⟨nd, h1, h2⟩ := (ih h7).mp h
        have : t ≠ k.syl := by
          intro e
          rw [← e, h3] at h1
          cases h1
        exact ⟨nd, by rw [if_neg this]; exact h1, h2⟩
    · rintro ⟨nd, h1, h2⟩
      by_cases hts : t = k.syl
      · rw [if_pos hts] at h1
        cases h1
        left
        rw [h2, ← hts]
      · rw [if_neg hts] at h1
        exact Or.inr ((ih h7).mpr ⟨nd, h1, h2⟩)

theorem mem_kids_node {s : Nat} {l : Option (List Phrase)} {sub : Forest} (hw : sub.WF) (k : Item) (hk : k.syl ≠ 0) :
    k ∈ (Item.node s l sub).kids ↔ ∃ nd, sub.child k.syl = some nd ∧ k = .node k.syl nd.1 nd.2 := by
  simp only [Item.kids, kidsOf_eq, List.mem_append]
  rw [← mem_toItems_iff hw k]
  constructor
  · rintro (h | h)
    · cases l with
      | none => cases h
      | some ps => simp [leafItem] at h; subst h; exact absurd rfl hk
    · exact mem_sortBy.mp h
  · intro h; exact Or.inr (mem_sortBy.mpr h)

theorem fuzzy_syl_ne_zero {n p : Nat} (h : matchSyl .fuzzyPartialPrefix n p = true) : n ≠ 0 := by
  simp [matchSyl] at h; exact h.1.1

/-- the fuzzy walk reaches the node at `path` iff `path` matches the query -/
theorem mem_reach_fuzzy (q : List Nat) :
    ∀ (s : Nat) (l : Option (List Phrase)) (sub : Forest), sub.WF → ∀ (path : List Nat) (it : Item),
      (path, it) ∈ reach .fuzzyPartialPrefix q (.node s l sub) ↔
        (fuzzyMatch path q = true ∧ itemAt (.node s l sub) path = some it) := by
  induction q with
  | nil =>
    intro s l sub _ path it
    simp only [reach, List.mem_singleton, Prod.mk.injEq]
    constructor
    · rintro ⟨rfl, rfl⟩; exact ⟨rfl, rfl⟩
    · rintro ⟨h1, h2⟩
      cases path with
      | nil => simp [itemAt] at h2; exact ⟨rfl, h2.symm⟩
      | cons t r => simp [fuzzyMatch] at h1
  | cons p q ih =>
    intro s l sub hw path it
    simp only [reach, List.mem_flatMap, List.mem_filter, List.mem_map]
    constructor
    · rintro ⟨k, ⟨hk, hm⟩, r, hr, heq⟩
      have hk0 := fuzzy_syl_ne_zero hm
      obtain ⟨nd, hc, hknd⟩ := (mem_kids_node hw k hk0).mp hk
      have hsub : nd.2.WF := (child_WF hw hc).1.2.2
      cases heq
      rw [hknd] at hr
      have := (ih k.syl nd.1 nd.2 hsub r.1 r.2).mp hr
      refine ⟨?_, ?_⟩
      · simp only [fuzzyMatch, this.1, Bool.and_true]
        simp [matchSyl] at hm
        exact hm.2
      · simp only [itemAt, hc]
        exact this.2
    · rintro ⟨h1, h2⟩
      cases path with
      | nil => simp [fuzzyMatch] at h1
      | cons t r =>
        simp only [fuzzyMatch, Bool.and_eq_true] at h1
        simp only [itemAt] at h2
        cases hc : sub.child t with
        | none => rw [hc] at h2; cases h2
        | some nd =>
          rw [hc] at h2
          simp only at h2
          obtain ⟨hnd, ht0, _, htv⟩ := child_WF hw hc
          have hkm : Item.node t nd.1 nd.2 ∈ (Item.node s l sub).kids :=
            (mem_kids_node hw (.node t nd.1 nd.2) (by simp [Item.syl]; omega)).mpr ⟨nd, hc, rfl⟩
          refine ⟨.node t nd.1 nd.2, ⟨hkm, ?_⟩, (r, it), (ih t nd.1 nd.2 hnd.2.2 r it).mpr ⟨h1.2, h2⟩, rfl⟩
          simp only [matchSyl, Item.syl, Bool.and_eq_true, bne_iff_ne, ne_eq]
          exact ⟨⟨by omega, htv⟩, h1.1⟩

/-! ### each once -/

theorem nodup_flatMap_paths {ks : List Item} {f : Item → List (List Nat)}
    (hk : (ks.map Item.syl).Nodup) (hf : ∀ k ∈ ks, (f k).Nodup) :
    (ks.flatMap fun k => (f k).map fun r => k.syl :: r).Nodup := by
  induction ks with
  | nil => simp
  | cons k ks ih =>
    simp only [List.map_cons, List.nodup_cons] at hk
    simp only [List.flatMap_cons]
    rw [List.nodup_append]
    refine ⟨?_, ih hk.2 (fun k' hk' => hf k' (by simp [hk'])), ?_⟩
    · exact List.Pairwise.map (fun r => k.syl :: r) (fun a b hne e => hne (by simpa using e)) (hf k (by simp))
    · intro a ha b hb
      simp only [List.mem_map] at ha
      simp only [List.mem_flatMap, List.mem_map] at hb
      obtain ⟨r, _, rfl⟩ := ha
      obtain ⟨k', hk', r', _, rfl⟩ := hb
      intro e
      simp only [List.cons.injEq] at e
      exact hk.1 (List.mem_map.mpr ⟨k', hk', e.1.symm⟩)

theorem toItems_syl_nodup {f : Forest} (hf : f.WF) : (f.toItems.map Item.syl).Nodup := by
  induction f with
  | nil => simp [Forest.toItems]
  | cons t l sub next _ ih =>
    obtain ⟨_, _, _, h3, _, _, _, h7⟩ := hf
    simp only [Forest.toItems, List.map_cons, List.nodup_cons]
    refine ⟨?_, ih h7⟩
    intro hm
    obtain ⟨k, hk, hks⟩ := List.mem_map.mp hm
    obtain ⟨nd, hc, _⟩ := (mem_toItems_iff h7 k).mp hk
    have hks' : k.syl = t := hks
    rw [hks', h3] at hc
    cases hc

theorem kids_filter_syl_nodup {st : Strategy} {p : Nat} (hp : p ≠ 0) {s : Nat} {l : Option (List Phrase)} {sub : Forest}
    (hw : sub.WF) : (((Item.node s l sub).kids.filter fun k => matchSyl st k.syl p).map Item.syl).Nodup := by
  simp only [Item.kids, kidsOf_eq, List.filter_append]
  have h1 : (leafItem l).filter (fun (k : Item) => matchSyl st k.syl p) = [] := by
    cases l with
    | none => rfl
    | some ps =>
      have hsyl : (Item.leaf ps).syl = 0 := rfl
      have : matchSyl st 0 p = false := by
        cases st with
        | standard => simp [matchSyl]; omega
        | fuzzyPartialPrefix => simp [matchSyl]
      simp [leafItem, hsyl, this]
  rw [h1, List.nil_append]
  have hperm := ((sortBy_perm sylLt sub.toItems).map Item.syl)
  have hnd : ((sortBy sylLt sub.toItems).map Item.syl).Nodup := hperm.nodup_iff.mpr (toItems_syl_nodup hw)
  exact (List.filter_sublist.map Item.syl).nodup hnd

theorem reach_paths_nodup (st : Strategy) (q : List Nat) (hq : ∀ p ∈ q, p ≠ 0) :
    ∀ (s : Nat) (l : Option (List Phrase)) (sub : Forest), sub.WF →
      ((reach st q (.node s l sub)).map (·.1)).Nodup := by
  induction q with
  | nil => intro s l sub _; simp [reach]
  | cons p q ih =>
    intro s l sub hw
    have hp : p ≠ 0 := hq p (by simp)
    simp only [reach, List.map_flatMap, List.map_map]
    have := nodup_flatMap_paths (ks := (Item.node s l sub).kids.filter fun k => matchSyl st k.syl p)
      (f := fun k => (reach st q k).map (·.1)) (kids_filter_syl_nodup hp hw) ?_
    · simpa [Function.comp_def] using this
    · intro k hk
      simp only [List.mem_filter] at hk
      have hk0 : k.syl ≠ 0 := matchSyl_ne_zero hp hk.2
      obtain ⟨nd, hc, hknd⟩ := (mem_kids_node hw k hk0).mp hk.1
      rw [hknd]
      exact ih (fun p' hp' => hq p' (by simp [hp'])) k.syl nd.1 nd.2 (child_WF hw hc).1.2.2

/-! ### the groups a fuzzy lookup returns -/

/-- (key, inserted phrase vector) of every reached node that has a leaf -/
def fuzzyGroups (q : List Nat) (root : Item) : List (List Nat × List Phrase) :=
  (reach .fuzzyPartialPrefix q root).filterMap fun r => r.2.leaf?.map fun ps => (r.1, ps)

theorem tLookup_fuzzy_groups (q : List Nat) (root : Item) :
    tLookup .fuzzyPartialPrefix q root = (fuzzyGroups q root).flatMap fun g => sortLeaf g.2 := by
  simp only [tLookup, tWalk_eq_reach, fuzzyGroups, List.flatMap_map]
  generalize reach .fuzzyPartialPrefix q root = rs
  induction rs with
  | nil => rfl
  | cons r rs ih =>
    simp only [List.flatMap_cons, List.filterMap_cons, ih]
    rw [leafPhrases_eq]
    cases r.2.leaf? <;> simp

theorem mem_fuzzyGroups (q : List Nat) (s : Nat) (l : Option (List Phrase)) (sub : Forest) (hw : sub.WF)
    (k : List Nat) (ps : List Phrase) :
    (k, ps) ∈ fuzzyGroups q (.node s l sub) ↔ (findNode k (l, sub) = some ps ∧ fuzzyMatch k q = true) := by
  simp only [fuzzyGroups, List.mem_filterMap, Option.map_eq_some_iff, Prod.mk.injEq]
  rw [findNode_itemAt s]
  constructor
  · rintro ⟨r, hr, ps', hps, rfl, rfl⟩
    have := (mem_reach_fuzzy q s l sub hw r.1 r.2).mp hr
    exact ⟨by rw [this.2]; exact hps, this.1⟩
  · rintro ⟨h1, h2⟩
    cases hi : itemAt (.node s l sub) k with
    | none => rw [hi] at h1; cases h1
    | some it =>
      rw [hi] at h1
      exact ⟨(k, it), (mem_reach_fuzzy q s l sub hw k it).mpr ⟨h2, hi⟩, ps, h1, rfl, rfl⟩

theorem fuzzyGroups_nodup (q : List Nat) (hq : ∀ p ∈ q, p ≠ 0) (s : Nat) (l : Option (List Phrase)) (sub : Forest)
    (hw : sub.WF) : ((fuzzyGroups q (.node s l sub)).map (·.1)).Nodup := by
  have h := reach_paths_nodup .fuzzyPartialPrefix q hq s l sub hw
  refine List.Nodup.sublist ?_ h
  simp only [fuzzyGroups]
  generalize reach .fuzzyPartialPrefix q (.node s l sub) = rs
  induction rs with
  | nil => exact List.Sublist.refl _
  | cons r rs ih =>
    simp only [List.filterMap_cons, List.map_cons]
    cases r.2.leaf? with
    | none => exact List.Sublist.cons _ ih
    | some ps => exact List.Sublist.cons₂ _ ih

end Chewing.TrieCodec
