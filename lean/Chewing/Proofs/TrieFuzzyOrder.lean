import Chewing.Proofs.TrieLinkOrder
import Chewing.Proofs.TrieBufFuzzy
/-!
# TrieFuzzyOrder — a prefix lookup through `entries()` sees the persisted phrases in FILE order (C09, F36)

Since fix c3d9fb2 `TrieBuf` answers a prefix lookup from `entries_iter()`, whose persisted part is the REAL
`Trie::entries()` — a depth-first iterator that lists the leaves of the file with every maximal chain "each
key a prefix of the next" of the sorted key list reversed (`TrieLink.build_entries_exact`).  C09's model
lists the persisted candidates in file order instead (`Trie.entries`).  The two agree on what a prefix
lookup selects: the matching keys all have the query's number of syllables, a chain of proper prefixes
holds at most one key of a given length, so reversing the chains does not move the selected keys relative
to each other.  Hence the persisted candidates of the repaired code are, as a LIST, what
`Trie::lookup_all_phrases(q, FuzzyPartialPrefix)` returned before the fix (`real_entries_fuzzy`).
-/
namespace Chewing.Cli
open Chewing

theorem isPrefix_length_lt {a b : Key} (h : isPrefix a b = true) (hne : a ≠ b) : a.length < b.length := by
  obtain ⟨x, rfl⟩ := (isPrefix_iff _ _).mp h
  cases x with
  | nil => simp at hne
  | cons y ys => simp [List.length_append]

/-- inside a run of distinct keys the lengths increase strictly -/
theorem runs_lengths : ∀ ks : List Key, ks.Nodup → ∀ r ∈ runs ks, r.Pairwise (fun a b => a.length < b.length)
  | [], _, r, hr => by simp [runs] at hr
  | [x], _, r, hr => by
    rw [runs_single] at hr
    simp only [List.mem_cons, List.not_mem_nil, or_false] at hr
    subst hr; simp
  | x :: y :: l, hn, r, hr => by
    have hn' := List.nodup_cons.mp hn
    have ih := runs_lengths (y :: l) hn'.2
    obtain ⟨ys, rs, hs⟩ := runs_cons_shape y l
    rw [hs] at ih
    rw [runs_cons_cons hs] at hr
    split at hr
    · rename_i hp
      rcases List.mem_cons.mp hr with rfl | hr'
      · have hy := ih (y :: ys) (by simp)
        have hxy : x.length < y.length :=
          isPrefix_length_lt hp (by intro e; exact hn'.1 (by rw [e]; simp))
        refine List.pairwise_cons.mpr ⟨?_, hy⟩
        intro b hb
        rcases List.mem_cons.mp hb with rfl | hb'
        · exact hxy
        · exact Nat.lt_trans hxy ((List.pairwise_cons.mp hy).1 b hb')
      · exact ih r (List.mem_cons_of_mem _ hr')
    · rcases List.mem_cons.mp hr with rfl | hr'
      · simp
      · exact ih r hr'

/-- reversing a list of strictly increasing lengths does not change what "length = n" selects -/
theorem filter_reverse_of_lengths {r : List Key} (h : r.Pairwise (fun a b => a.length < b.length)) (n : Nat) :
    r.reverse.filter (fun k => k.length == n) = r.filter (fun k => k.length == n) := by
  rw [List.filter_reverse]
  have hp : (r.filter (fun k => k.length == n)).Pairwise (fun a b => a.length < b.length) := h.filter _
  have hall : ∀ k ∈ r.filter (fun k => k.length == n), k.length = n := by
    intro k hk; simpa using (List.mem_filter.mp hk).2
  generalize r.filter (fun k => k.length == n) = l at hp hall
  match l, hp, hall with
  | [], _, _ => rfl
  | [a], _, _ => rfl
  | a :: b :: t, hp, hall =>
    have := (List.pairwise_cons.mp hp).1 b (by simp)
    rw [hall a (by simp), hall b (by simp)] at this
    exact absurd this (Nat.lt_irrefl n)

/-- **the visiting order of `Trie::entries()` restricted to the keys of one length is the sorted order** -/
theorem trieOrder_filter_length (ks : List Key) (hn : ks.Nodup) (n : Nat) :
    ((runs ks).flatMap List.reverse).filter (fun k => k.length == n) = ks.filter (fun k => k.length == n) := by
  have h := runs_lengths ks hn
  have hf : ks.filter (fun k => k.length == n) = ((runs ks).flatten).filter (fun k => k.length == n) := by
    rw [runs_flatten]
  rw [hf]
  generalize runs ks = L at h
  induction L with
  | nil => rfl
  | cons r L ih =>
    simp only [List.flatMap_cons, List.filter_append, List.flatten_cons]
    rw [filter_reverse_of_lengths (h r (by simp)) n, ih (fun r' hr' => h r' (List.mem_cons_of_mem _ hr'))]

end Chewing.Cli

namespace Chewing.TrieLink
open Chewing Chewing.TrieCodec MapSpec

theorem fuzzyMatch_length : ∀ {k q : Key}, Trie.fuzzyMatch k q = true → k.length = q.length
  | [], [], _ => rfl
  | [], _ :: _, h => by simp [Trie.fuzzyMatch] at h
  | _ :: _, [], h => by simp [Trie.fuzzyMatch] at h
  | a :: as, b :: bs, h => by
    simp only [Trie.fuzzyMatch, Bool.and_eq_true] at h
    simp [fuzzyMatch_length h.2]

/-- selecting by key from a key-indexed concatenation = concatenating over the selected keys -/
theorem filter_flatMap_key (g : Key → List Entry) (hg : ∀ k, ∀ e ∈ g k, e.1 = k) (P : Key → Bool) :
    ∀ ks : List Key, (ks.flatMap g).filter (fun e => P e.1) = (ks.filter P).flatMap g
  | [] => rfl
  | k :: ks => by
    rw [List.flatMap_cons, List.filter_append, filter_flatMap_key g hg P ks, List.filter_cons]
    cases hp : P k with
    | true =>
      have : (g k).filter (fun e => P e.1) = g k :=
        List.filter_eq_self.mpr (fun e he => by rw [hg k e he]; exact hp)
      rw [this]; simp
    | false =>
      have : (g k).filter (fun e => P e.1) = [] :=
        List.filter_eq_nil_iff.mpr (fun e he => by rw [hg k e he, hp]; simp)
      rw [this]; simp

/-- the keys a prefix query selects, in the visiting order of `Trie::entries()` = in sorted (file) order -/
theorem trieOrder_filter_fuzzy (ks : List Key) (hn : ks.Nodup) (q : Key) :
    ((Cli.runs ks).flatMap List.reverse).filter (fun k => Trie.fuzzyMatch k q) = ks.filter (fun k => Trie.fuzzyMatch k q) := by
  have key : ∀ l : List Key, l.filter (fun k => Trie.fuzzyMatch k q) =
      (l.filter (fun k => k.length == q.length)).filter (fun k => Trie.fuzzyMatch k q) := by
    intro l
    rw [List.filter_filter]
    apply List.filter_congr
    intro k _
    cases hm : Trie.fuzzyMatch k q with
    | false => simp
    | true => simp [fuzzyMatch_length hm]
  rw [key, key ks, Cli.trieOrder_filter_length ks hn]

/-- **the real enumeration, filtered by a prefix query, is the model's**: for the bytes `TrieBuilder::write`
    produces from valid entries, the REAL `Trie::entries()` (byte-level model of C11, depth first) restricted
    to the keys matching `q` lists the same phrases in the same order as C09's file-order enumeration
    restricted to them — which is `Trie.lookupAll … .fuzzyPartialPrefix`, the list `Trie::lookup_all_phrases`
    returns for the prefix strategy -/
theorem real_entries_fuzzy (info : TrieCodec.Info) (es : List Entry) (hv : C11.ValidInput info es) (bytes : Der.Bytes)
    (hw : (TrieCodec.Builder.ofEntries info es).write = some bytes) (q : Key) :
    ∃ tr real, openTrie bytes = some tr ∧ TrieCodec.entries tr = .ok real ∧
      real.filter (fun e => Trie.fuzzyMatch e.1 q) = (Trie.entries (Trie.build es)).filter (fun e => Trie.fuzzyMatch e.1 q) ∧
      (real.filter (fun e => Trie.fuzzyMatch e.1 q)).map (·.2) = Trie.lookupAll (Trie.build es) q .fuzzyPartialPrefix := by
  obtain ⟨tr, ho, hreal, hmodel⟩ := build_entries_exact info es hv bytes hw
  have hg : ∀ k, ∀ e ∈ (sortLeaf ((refFind es k).getD [])).map (fun p => ((k, p) : Entry)), e.1 = k := by
    intro k e he
    obtain ⟨p, _, rfl⟩ := List.mem_map.mp he
    rfl
  have heq : (((Cli.runs (buildKeys es)).flatMap List.reverse).flatMap fun k =>
        (sortLeaf ((refFind es k).getD [])).map fun p => ((k, p) : Entry)).filter (fun e => Trie.fuzzyMatch e.1 q) =
      (Trie.entries (Trie.build es)).filter (fun e => Trie.fuzzyMatch e.1 q) := by
    rw [hmodel, filter_flatMap_key _ hg (fun k => Trie.fuzzyMatch k q), filter_flatMap_key _ hg (fun k => Trie.fuzzyMatch k q),
      trieOrder_filter_fuzzy _ (buildKeys_nodup es)]
  refine ⟨tr, _, ho, hreal, heq, ?_⟩
  rw [heq]
  exact TrieBuf.trie_entries_fuzzy _ q

end Chewing.TrieLink
