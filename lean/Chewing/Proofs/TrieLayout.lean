import Chewing.Model.TrieCodec
import Chewing.Proofs.TrieBuilder
import Chewing.Proofs.TrieSort
/-!
`bfs_layout`: the BFS of `write` lays the tree out so that the record of a node holds the index
range of exactly its leaf and its sorted children.

Loop invariant: `written ++ queue = enqueued` and `child_begin = |enqueued|`, i.e.
`cb = dict.length + q.length`; the j-th queued item will be record `dict.length + j`.
-/
namespace Chewing.TrieCodec
open Chewing Chewing.Der

/-! ### items -/

/-- a queued non-root item of a well-formed builder -/
def Item.WF : Item → Prop
  | .node s l sub => 0 < s ∧ s < 65536 ∧ validCode s = true ∧ LeafOK l ∧ (l.isSome = true ∨ sub ≠ .nil) ∧ sub.WF
  | .leaf ps => ps ≠ [] ∧ ∀ p ∈ ps, ValidPhrase p

/-- what `write` needs of any queued item (root included) -/
def Item.Pre : Item → Prop
  | .node s l sub => s < 65536 ∧ LeafOK l ∧ sub.WF
  | .leaf ps => ps ≠ [] ∧ ∀ p ∈ ps, ValidPhrase p

theorem Item.WF.pre {it : Item} (h : it.WF) : it.Pre := by
  cases it with
  | node s l sub => exact ⟨h.2.1, h.2.2.2.1, h.2.2.2.2.2⟩
  | leaf ps => exact h

/-- the syllable of a queued non-root node is the code of a `Syllable` (leaf entries carry 0) -/
theorem Item.WF.syl_valid {it : Item} (h : it.WF) : it.syl ≠ 0 → validCode it.syl = true := by
  cases it with
  | node s l sub => exact fun _ => h.2.2.1
  | leaf ps => exact fun hz => absurd rfl hz

theorem toItems_WF {f : Forest} (hf : f.WF) : ∀ it ∈ f.toItems, it.WF := by
  induction f with
  | nil => intro it h; cases h
  | cons s l sub next _ ih =>
    obtain ⟨h1, h2, hv, _, h4, h5, h6, h7⟩ := hf
    intro it h
    simp only [Forest.toItems, List.mem_cons] at h
    rcases h with h | h
    · subst h; exact ⟨h1, h2, hv, h4, h5, h6⟩
    · exact ih h7 it h

def sylLt (a b : Item) : Bool := decide (a.syl < b.syl)

theorem kidsOf_eq (l : Option (List Phrase)) (sub : Forest) :
    kidsOf l sub = leafItem l ++ sortBy sylLt sub.toItems := rfl

theorem kidsOf_WF {l : Option (List Phrase)} {sub : Forest} (hl : LeafOK l) (hs : sub.WF) :
    ∀ it ∈ kidsOf l sub, it.WF := by
  intro it h
  rw [kidsOf_eq, List.mem_append] at h
  rcases h with h | h
  · cases l with
    | none => cases h
    | some ps => simp [leafItem] at h; subst h; exact hl ps rfl
  · exact toItems_WF hs it (mem_sortBy.mp h)

theorem Item.Pre.kids {s : Nat} {l : Option (List Phrase)} {sub : Forest} (h : (Item.node s l sub).Pre) :
    ∀ it ∈ kidsOf l sub, it.WF := kidsOf_WF h.2.1 h.2.2

/-! ### the layout predicate -/

/-- `Laid recs data pos it`: record `pos` of the index describes `it`, and recursively its children
    sit at the consecutive positions the record names; a leaf's slice of `data` is its sorted,
    encoded phrase vector.  Stored fields are the true values (no truncation happened). -/
inductive Laid (recs : List Rec) (data : Bytes) : Nat → Item → Prop
  | leaf {pos : Nat} {ps : List Phrase} {db : Nat} :
      recs[pos]? = some (db, (encPhrases (sortLeaf ps)).length, 0) →
      db < 4294967296 → (encPhrases (sortLeaf ps)).length < 65536 →
      (data.drop db).take (encPhrases (sortLeaf ps)).length = encPhrases (sortLeaf ps) →
      db + (encPhrases (sortLeaf ps)).length ≤ data.length →
      Laid recs data pos (.leaf ps)
  | node {pos s : Nat} {l : Option (List Phrase)} {sub : Forest} {cb : Nat} :
      recs[pos]? = some (cb, (kidsOf l sub).length, s) →
      cb < 4294967296 → (kidsOf l sub).length < 65536 →
      cb + (kidsOf l sub).length ≤ recs.length →
      (∀ j it, (kidsOf l sub)[j]? = some it → Laid recs data (cb + j) it) →
      Laid recs data pos (.node s l sub)

theorem writeLoop_nil (fuel cb : Nat) (dict : List Rec) (data : Bytes) :
    writeLoop fuel [] cb dict data = some (dict, data) := by
  cases fuel <;> rfl

/-- the loop invariant -/
theorem writeLoop_laid (fuel : Nat) :
    ∀ (q : List Item) (cb : Nat) (dict : List Rec) (data : Bytes) (recs' : List Rec) (data' : Bytes),
      writeLoop fuel q cb dict data = some (recs', data') →
      cb = dict.length + q.length →
      (∀ it ∈ q, it.Pre) →
      recs'.length < 4294967296 → data'.length < 4294967296 →
      (∃ r2, recs' = dict ++ r2) ∧ (∃ d2, data' = data ++ d2) ∧ dict.length + q.length ≤ recs'.length ∧
      ∀ j it, q[j]? = some it → Laid recs' data' (dict.length + j) it := by
  induction fuel with
  | zero =>
    intro q cb dict data recs' data' h hcb hpre hr hd
    cases q with
    | nil =>
      rw [writeLoop_nil] at h
      cases h
      exact ⟨⟨[], by simp⟩, ⟨[], by simp⟩, by simp, fun j it hj => by simp at hj⟩
    | cons it q => simp [writeLoop] at h
  | succ fuel ih =>
    intro q cb dict data recs' data' h hcb hpre hr hd
    cases q with
    | nil =>
      rw [writeLoop_nil] at h
      cases h
      exact ⟨⟨[], by simp⟩, ⟨[], by simp⟩, by simp, fun j it hj => by simp at hj⟩
    | cons it q =>
      cases it with
      | node s l sub =>
        simp only [writeLoop] at h
        split at h
        · cases h
        · rename_i hk
          have hnode : (Item.node s l sub).Pre := hpre _ (by simp)
          have hpre' : ∀ it ∈ q ++ kidsOf l sub, it.Pre := by
            intro it hit
            rw [List.mem_append] at hit
            rcases hit with hit | hit
            · exact hpre it (by simp [hit])
            · exact (hnode.kids it hit).pre
          obtain ⟨⟨r2, hr2⟩, hd2, hlen, hl⟩ :=
            ih (q ++ kidsOf l sub) (cb + (kidsOf l sub).length)
              (dict ++ [(cb % 4294967296, (kidsOf l sub).length, s)]) data recs' data' h
              (by simp at hcb ⊢; omega) hpre' hr hd
          simp only [List.length_append, List.length_cons, List.length_nil] at hlen hcb
          have hcb32 : cb < 4294967296 := by omega
          refine ⟨⟨(cb % 4294967296, (kidsOf l sub).length, s) :: r2, by simp [hr2]⟩, hd2, by simp; omega, ?_⟩
          intro j it hj
          cases j with
          | zero =>
            simp at hj
            subst hj
            refine Laid.node (cb := cb) ?_ hcb32 (by omega) (by omega) ?_
            · rw [hr2, Nat.mod_eq_of_lt hcb32]
              simp
            · intro j it hj'
              have := hl (q.length + j) it (by rw [List.getElem?_append_right (by omega)]; simpa using hj')
              simp only [List.length_append, List.length_cons, List.length_nil] at this
              have e : dict.length + 0 + 1 + (q.length + j) = cb + j := by omega
              simpa [e] using this
          | succ j =>
            simp at hj
            have hjq : j < q.length := by
              rcases Nat.lt_or_ge j q.length with h' | h'
              · exact h'
              · rw [List.getElem?_eq_none h'] at hj; cases hj
            have := hl j it (by rw [List.getElem?_append_left hjq]; exact hj)
            simp only [List.length_append, List.length_cons, List.length_nil] at this
            have e : dict.length + 0 + 1 + j = dict.length + (j + 1) := by omega
            simpa [e] using this
      | leaf ps =>
        simp only [writeLoop] at h
        split at h
        · cases h
        · rename_i hk
          have hpre' : ∀ it ∈ q, it.Pre := fun it hit => hpre it (by simp [hit])
          obtain ⟨⟨r2, hr2⟩, ⟨d2, hd2⟩, hlen, hl⟩ :=
            ih q cb (dict ++ [(data.length % 4294967296, (encPhrases (sortLeaf ps)).length, 0)])
              (data ++ encPhrases (sortLeaf ps)) recs' data' h
              (by simp at hcb ⊢; omega) hpre' hr hd
          simp only [List.length_append, List.length_cons, List.length_nil] at hlen hcb
          have hd32 : data.length < 4294967296 := by
            have : data'.length = data.length + (encPhrases (sortLeaf ps)).length + d2.length := by
              rw [hd2]; simp only [List.length_append]
            omega
          refine ⟨⟨(data.length % 4294967296, (encPhrases (sortLeaf ps)).length, 0) :: r2, by simp [hr2]⟩,
            ⟨encPhrases (sortLeaf ps) ++ d2, by simp [hd2]⟩, by simp; omega, ?_⟩
          intro j it hj
          cases j with
          | zero =>
            simp at hj
            subst hj
            refine Laid.leaf (db := data.length) ?_ hd32 (by omega) ?_ ?_
            · rw [hr2, Nat.mod_eq_of_lt hd32]
              simp
            · rw [hd2]
              simp
            · rw [hd2]; simp
          | succ j =>
            simp at hj
            have := hl j it hj
            simp only [List.length_append, List.length_cons, List.length_nil] at this
            have e : dict.length + 0 + 1 + j = dict.length + (j + 1) := by omega
            simpa [e] using this

theorem root_pre (b : Builder) (hb : b.WF) : b.root.Pre := ⟨by decide, hb.1, hb.2⟩

/-- **bfs_layout**: in the buffers `write` produces the root is laid out at record 0 -/
theorem bfs_layout (b : Builder) (hb : b.WF) (recs : List Rec) (data : Bytes)
    (h : b.buffers = some (recs, data)) (hr : recs.length < 4294967296) (hd : data.length < 4294967296) :
    Laid recs data 0 b.root := by
  have := writeLoop_laid b.root.size [b.root] 1 [] [] recs data h rfl
    (by intro it hit; simp at hit; subst hit; exact root_pre b hb) hr hd
  have := this.2.2.2 0 b.root rfl
  simpa using this

/-! ### the fuel of `write` suffices; within the limits `write` succeeds -/

def qsize (q : List Item) : Nat := (q.map Item.size).sum

theorem qsize_toItems (f : Forest) : qsize f.toItems = f.size := by
  induction f with
  | nil => rfl
  | cons s l sub next _ ih =>
    simp only [Forest.toItems, qsize, List.map_cons, List.sum_cons, Item.size, Forest.size] at ih ⊢
    omega

theorem qsize_kidsOf (l : Option (List Phrase)) (sub : Forest) :
    qsize (kidsOf l sub) = (if l.isSome then 1 else 0) + sub.size := by
  rw [kidsOf_eq]
  have hp : qsize (sortBy sylLt sub.toItems) = sub.size := by
    rw [← qsize_toItems]
    exact ((sortBy_perm sylLt sub.toItems).map Item.size).sum_nat
  cases l with
  | none => simpa [qsize, leafItem] using hp
  | some ps =>
    simp only [qsize, List.map_append, List.sum_append] at hp ⊢
    simp [leafItem, Item.size, hp]

theorem qsize_append (a b : List Item) : qsize (a ++ b) = qsize a + qsize b := by
  simp [qsize]

/-- the format's per-node limits on a queued item and everything below it -/
def LeafFits (l : Option (List Phrase)) : Prop := ∀ ps, l = some ps → (encPhrases (sortLeaf ps)).length < 65536

def Forest.Fits : Forest → Prop
  | .nil => True
  | .cons _ l sub next => LeafFits l ∧ (kidsOf l sub).length < 65536 ∧ sub.Fits ∧ next.Fits

def Item.Fits : Item → Prop
  | .node _ l sub => LeafFits l ∧ (kidsOf l sub).length < 65536 ∧ sub.Fits
  | .leaf ps => (encPhrases (sortLeaf ps)).length < 65536

theorem toItems_Fits {f : Forest} (hf : f.Fits) : ∀ it ∈ f.toItems, it.Fits := by
  induction f with
  | nil => intro it h; cases h
  | cons s l sub next _ ih =>
    obtain ⟨h1, h2, h3, h4⟩ := hf
    intro it h
    simp only [Forest.toItems, List.mem_cons] at h
    rcases h with h | h
    · subst h; exact ⟨h1, h2, h3⟩
    · exact ih h4 it h

theorem kidsOf_Fits {l : Option (List Phrase)} {sub : Forest} (hl : LeafFits l) (hs : sub.Fits) :
    ∀ it ∈ kidsOf l sub, it.Fits := by
  intro it h
  rw [kidsOf_eq, List.mem_append] at h
  rcases h with h | h
  · cases l with
    | none => cases h
    | some ps => simp [leafItem] at h; subst h; exact hl ps rfl
  · exact toItems_Fits hs it (mem_sortBy.mp h)

/-- with enough fuel the loop fails only on a limit -/
theorem writeLoop_isSome (fuel : Nat) :
    ∀ (q : List Item) (cb : Nat) (dict : List Rec) (data : Bytes),
      qsize q ≤ fuel → (∀ it ∈ q, it.Fits) → (writeLoop fuel q cb dict data).isSome = true := by
  induction fuel with
  | zero =>
    intro q cb dict data hq _
    cases q with
    | nil => rfl
    | cons it q =>
      exfalso
      have : 1 ≤ it.size := by cases it <;> simp [Item.size] <;> omega
      simp [qsize] at hq
      omega
  | succ fuel ih =>
    intro q cb dict data hq hf
    cases q with
    | nil => rfl
    | cons it q =>
      cases it with
      | node s l sub =>
        have hn : (Item.node s l sub).Fits := hf _ (by simp)
        simp only [writeLoop]
        rw [if_neg (by have := hn.2.1; omega)]
        refine ih _ _ _ _ ?_ ?_
        · rw [qsize_append, qsize_kidsOf]
          simp only [qsize, List.map_cons, List.sum_cons, Item.size] at hq ⊢
          omega
        · intro it hit
          rw [List.mem_append] at hit
          rcases hit with hit | hit
          · exact hf it (by simp [hit])
          · exact kidsOf_Fits hn.1 hn.2.2 it hit
      | leaf ps =>
        have hn : (Item.leaf ps).Fits := hf _ (by simp)
        simp only [writeLoop]
        rw [if_neg (by unfold Item.Fits at hn; omega)]
        refine ih _ _ _ _ ?_ (fun it hit => hf it (by simp [hit]))
        simp only [qsize, List.map_cons, List.sum_cons, Item.size] at hq ⊢
        omega

/-- the limits of the format on a builder: every leaf's encoded phrases < 2¹⁶ bytes, every node
    < 2¹⁶ children (its leaf counted), and the document within `Length::MAX` of the `der` crate -/
def Builder.Fits (b : Builder) : Prop :=
  b.root.Fits ∧
  ∀ recs data, b.buffers = some (recs, data) →
    (encSeq (docBody b.info (recs.flatMap recBytes) data)).length ≤ maxLen

/-- within the limits `write` does not fail (in particular its fuel suffices) -/
theorem write_isSome (b : Builder) (hf : b.Fits) : b.write.isSome = true := by
  have h := writeLoop_isSome b.root.size [b.root] 1 [] [] (by simp [qsize])
    (by intro it hit; simp at hit; subst hit; exact hf.1)
  unfold Builder.write
  cases hb : b.buffers with
  | none => unfold Builder.buffers at hb; rw [hb] at h; cases h
  | some rd =>
    obtain ⟨recs, data⟩ := rd
    simp only
    rw [if_pos (hf.2 recs data hb)]
    rfl

end Chewing.TrieCodec
