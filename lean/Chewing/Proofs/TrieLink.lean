import Chewing.Proofs.StableSort
import Chewing.Proofs.TrieBufSorted
import Chewing.Props.C11
/-!
# TrieLink — C09's abstract trie file *is* C11's byte-level file

C09 (`Model/TrieBuf.lean`) treats a trie file as the list of its leaves (`List Leaf`) and models
"insert all entries into a `TrieBuilder`, write, open" as `Trie.build`.  C11 (`Model/TrieCodec.lean`)
models the same code at the level of the bytes: `Builder.ofEntries`, `Builder.write`, `openTrie`
(`Trie::new`), `lookupAll`, `lookupFirstN`, `entries`.  This file proves that the first is the
denotation of the second, using only C11's exported theorems (`C11.read_write`, `lookup_correct`,
`first_n_prefix`, `first_phrase_correct`, `entries_correct`, `writes_within_limits`) and the tree
lemmas of `Proofs/Trie{Builder,Spec,Fuzzy}.lean`:

* `leafLt_eq_phraseLt` — the two transcriptions of the comparator of `TrieBuilder::write` agree;
* `isort_leafLt_eq_sortLeaf` — C09's insertion sort and C11's give the same leaf (stable sorts under a
  total preorder are unique, `Proofs/StableSort.lean`);
* `upsert_eq_insRepl`, `leafOf_eq_refFind` — the two models of `TrieBuilder::insert` agree;
* `lookupAll_build_standard`, `lookupAll_build_fuzzy` — C09's lookups on `Trie.build es` in closed form;
* `reach_paths_sorted` — the byte-level fuzzy walk visits the matching keys in lexicographic order
  (children sorted by syllable), which is the order of C09's leaf list;
* **`build_denotes`** — for valid input, whatever `write` produced opens, and the real reader's
  `lookup_all_phrases` (both strategies), `lookup_first_n_phrases`, `lookup_first_phrase` return
  **the same lists** as C09's abstract functions on `Trie.build es`; `entries()` enumerates the same
  entries, key by key in the same order.
-/
namespace Chewing.TrieLink
open Chewing Chewing.Der Chewing.TrieCodec Chewing.StableSort

/-! ## the comparator and the leaf sort -/

theorem cmpList_lt_eq_lexLt : ∀ (x y : List Nat), (cmpList x y == .lt) = lexLt x y := by
  intro x
  induction x with
  | nil => intro y; cases y <;> rfl
  | cons a x ih =>
    intro y
    cases y with
    | nil => rfl
    | cons b y =>
      simp only [cmpList, lexLt]
      by_cases h1 : a < b
      · simp [h1]
      · by_cases h2 : b < a
        · simp [h1, h2]
        · simp only [h1, h2, if_false]
          exact ih y

theorem cmpNat_lt (a b : Nat) : (Trie.cmpNat a b == .lt) = decide (a < b) := by
  unfold Trie.cmpNat
  by_cases h1 : a < b
  · simp [h1]
  · by_cases h2 : b < a <;> simp [h1, h2]

/-- C09's and C11's transcription of the comparator of `TrieBuilder::write` are the same function -/
theorem leafLt_eq_phraseLt (a b : Phrase) : Trie.leafLt a b = phraseLt a b := by
  unfold Trie.leafLt Trie.leafCmp phraseLt
  by_cases ha : a.text.length = 1 <;> by_cases hb : b.text.length = 1
  · simp [ha, hb]
  · simp [ha, hb]
  · simp [ha, hb]
  · have h1 : (a.text.length == 1) = false := by simpa using ha
    have h2 : (b.text.length == 1) = false := by simpa using hb
    simp only [h1, h2, Bool.and_self, Bool.false_eq_true, if_false, ha, hb, false_and]
    by_cases hf : a.freq = b.freq
    · have h3 : (a.freq == b.freq) = true := by simpa using hf
      rw [if_pos hf]
      simp only [h3, if_true]
      exact cmpList_lt_eq_lexLt _ _
    · have h3 : (a.freq == b.freq) = false := by simpa using hf
      rw [if_neg hf]
      simp only [h3, if_false, Bool.false_eq_true]
      rw [cmpNat_lt]

theorem tp_phraseLt : TPOn phraseLt (fun _ => True) :=
  ⟨fun a b _ _ => phraseLt_asymm a b, fun a b c _ _ _ => phraseLt_negtrans a b c⟩

/-- **C09's leaf = C11's leaf**: `isort leafLt` (insertion from the left, right to left) and `sortLeaf`
    (`sortBy phraseLt`: insertion from the right, left to right) return the same list -/
theorem isort_leafLt_eq_sortLeaf (ps : List Phrase) : isort Trie.leafLt ps = sortLeaf ps := by
  have : Trie.leafLt = phraseLt := by funext a b; exact leafLt_eq_phraseLt a b
  rw [this]
  exact isort_eq_sortBy tp_phraseLt ps (fun _ _ => trivial)

/-- any stable sort of a leaf by the comparator of `write` is the model's leaf (so the model of
    `slice::sort_by` does not depend on the algorithm std picks) -/
theorem stable_sort_is_sortLeaf (ps r : List Phrase) (hs : Sorted phraseLt r)
    (hst : StableOf phraseLt (fun _ => True) ps r) : r = sortLeaf ps :=
  stable_sort_is_sortBy tp_phraseLt ps r (fun _ _ => trivial) (fun _ _ => trivial) hs hst

/-! ## `TrieBuilder::insert` -/

theorem leafOk_insRepl {ps : List Phrase} (h : Trie.LeafOk ps) (p : Phrase) : Trie.LeafOk (Trie.insRepl ps p) := by
  rw [Trie.leafOk_iff] at h ⊢
  rw [Trie.texts_insRepl]
  exact firstOccStep_nodup h _

/-- on a leaf with pairwise different texts C11's `upsert` (replace the first phrase with that text)
    and C09's `insRepl` (replace every phrase with that text) are the same -/
theorem upsert_eq_insRepl {ps : List Phrase} (h : Trie.LeafOk ps) (p : Phrase) : upsert ps p = Trie.insRepl ps p := by
  induction ps with
  | nil => simp [upsert, Trie.insRepl]
  | cons q qs ih =>
    unfold Trie.LeafOk at h
    rw [List.pairwise_cons] at h
    have ih' := ih h.2
    by_cases e : q.text = p.text
    · have hq : ∀ x ∈ qs, ¬ x.text = p.text := fun x hx c => h.1 x hx (e.trans c.symm)
      have hmap : qs.map (fun x => if x.text == p.text then p else x) = qs := by
        conv => rhs; rw [← List.map_id qs]
        apply List.map_congr_left
        intro x hx
        simp [hq x hx]
      simp only [upsert, e, if_true, Trie.insRepl, List.any_cons, beq_self_eq_true, Bool.true_or, List.map_cons, hmap]
    · have hb : (q.text == p.text) = false := by simpa using e
      rw [upsert, if_neg e, ih']
      unfold Trie.insRepl
      simp only [List.any_cons, hb, Bool.false_or, List.map_cons, Bool.false_eq_true, if_false]
      split <;> simp

/-- the phrases C09's builder holds for a key are those of C11's reference map -/
theorem leafOf_eq_refFind (es : List Entry) (k : List Nat) : Trie.leafOf es k = (refFind es k).getD [] := by
  unfold Trie.leafOf refFind
  have key : ∀ (es : List Entry) (acc : Option (List Phrase)), Trie.LeafOk (acc.getD []) →
      ((es.filter (fun e => e.1 == k)).map (·.2)).foldl Trie.insRepl (acc.getD []) =
        (es.foldl (fun acc e => if e.1 = k then some (upsert (acc.getD []) e.2) else acc) acc).getD [] := by
    intro es
    induction es with
    | nil => intro acc _; rfl
    | cons e es ih =>
      intro acc hacc
      simp only [List.foldl_cons, List.filter_cons]
      by_cases hk : e.1 = k
      · have hb : (e.1 == k) = true := by simpa using hk
        rw [if_pos hk]
        simp only [hb, if_true, List.map_cons, List.foldl_cons]
        rw [upsert_eq_insRepl hacc]
        exact ih (some (Trie.insRepl (acc.getD []) e.2)) (leafOk_insRepl hacc _)
      · have hb : (e.1 == k) = false := by simpa using hk
        simp only [hb, hk, if_false, Bool.false_eq_true]
        exact ih acc hacc
  exact key es none List.Pairwise.nil

theorem mem_foldl_insRepl_sub (l acc : List Phrase) {x : Phrase} (h : x ∈ l.foldl Trie.insRepl acc) : x ∈ acc ∨ x ∈ l := by
  induction l generalizing acc with
  | nil => exact Or.inl h
  | cons p l ih =>
    rcases ih _ h with h1 | h1
    · rcases Trie.mem_insRepl.mp h1 with e | e
      · exact Or.inr (by rw [e]; exact List.mem_cons_self)
      · exact Or.inl e.1
    · exact Or.inr (List.mem_cons_of_mem _ h1)

theorem mem_leafOf {es : List Entry} {k : List Nat} {p : Phrase} (h : p ∈ Trie.leafOf es k) : (k, p) ∈ es := by
  unfold Trie.leafOf at h
  rcases mem_foldl_insRepl_sub _ _ h with h1 | h1
  · cases h1
  · obtain ⟨e, he, rfl⟩ := List.mem_map.mp h1
    rw [List.mem_filter] at he
    have : e.1 = k := by simpa using he.2
    rw [← this]
    exact he.1

theorem mem_refFind {es : List Entry} {k : List Nat} {p : Phrase} (h : p ∈ (refFind es k).getD []) : (k, p) ∈ es := by
  rw [← leafOf_eq_refFind] at h
  exact mem_leafOf h

/-! ## keys of `Trie.build`: strictly ascending -/

theorem keyLt_irrefl (a : List Nat) : Trie.keyLt a a = false := by
  have := (cmpList_eq_iff (a := a) (b := a)).mpr rfl
  simp [Trie.keyLt, this]

theorem keyLt_trans {a b c : List Nat} (h1 : Trie.keyLt a b = true) (h2 : Trie.keyLt b c = true) : Trie.keyLt a c = true := by
  simp only [Trie.keyLt, beq_iff_eq] at *
  exact cmpList_lt_trans h1 h2

theorem keyLt_total {a b : List Nat} (h : Trie.keyLt a b = false) (hne : a ≠ b) : Trie.keyLt b a = true := by
  simp only [Trie.keyLt, beq_iff_eq, beq_eq_false_iff_ne, ne_eq] at *
  cases hc : cmpList a b with
  | lt => exact absurd hc h
  | eq => exact absurd (cmpList_eq_iff.mp hc) hne
  | gt => exact cmpList_gt_iff.mp hc

theorem keyLt_asymm {a b : List Nat} (h : Trie.keyLt a b = true) : Trie.keyLt b a = false := by
  cases e : Trie.keyLt b a with
  | false => rfl
  | true => have := keyLt_trans h e; rw [keyLt_irrefl] at this; cases this

theorem tp_keyLt : TPOn Trie.keyLt (fun _ => True) := by
  refine ⟨fun a b _ _ => keyLt_asymm, ?_⟩
  intro a b c _ _ _ h1 h2
  -- a ≤ b, b ≤ c ⇒ a ≤ c
  cases e : Trie.keyLt c a with
  | false => rfl
  | true =>
    exfalso
    by_cases e1 : b = a
    · subst e1; rw [e] at h2; cases h2
    · have hab := keyLt_total h1 e1
      have hcb := keyLt_trans e hab
      rw [hcb] at h2; cases h2

/-- two strictly ascending lists with the same members are equal -/
theorem strict_sorted_ext {α : Type} (lt : α → α → Prop) (irr : ∀ a, ¬ lt a a) (tr : ∀ a b c, lt a b → lt b c → lt a c) :
    ∀ (l1 l2 : List α), l1.Pairwise lt → l2.Pairwise lt → (∀ x, x ∈ l1 ↔ x ∈ l2) → l1 = l2 := by
  intro l1
  induction l1 with
  | nil =>
    intro l2 _ _ h
    cases l2 with
    | nil => rfl
    | cons b l2 => exact absurd ((h b).mpr List.mem_cons_self) (by simp)
  | cons a l1 ih =>
    intro l2 s1 s2 h
    cases l2 with
    | nil => exact absurd ((h a).mp List.mem_cons_self) (by simp)
    | cons b l2 =>
      rw [List.pairwise_cons] at s1 s2
      have eab : a = b := by
        rcases List.mem_cons.mp ((h a).mp List.mem_cons_self) with e | e
        · exact e
        · rcases List.mem_cons.mp ((h b).mpr List.mem_cons_self) with e' | e'
          · exact e'.symm
          · exact absurd (tr _ _ _ (s1.1 b e') (s2.1 a e)) (irr a)
      subst eab
      congr 1
      refine ih l2 s1.2 s2.2 ?_
      intro x
      constructor
      · intro hx
        rcases List.mem_cons.mp ((h x).mp (List.mem_cons_of_mem _ hx)) with e | e
        · subst e; exact absurd (s1.1 x hx) (irr x)
        · exact e
      · intro hx
        rcases List.mem_cons.mp ((h x).mpr (List.mem_cons_of_mem _ hx)) with e | e
        · subst e; exact absurd (s2.1 x hx) (irr x)
        · exact e

/-- the keys of `Trie.build es`, in file order -/
def buildKeys (es : List Entry) : List (List Nat) := isort Trie.keyLt (Trie.dedupKeys (es.map (·.1)))

theorem mem_buildKeys {es : List Entry} {k : List Nat} : k ∈ buildKeys es ↔ k ∈ es.map (·.1) := by
  unfold buildKeys
  rw [mem_isort, Trie.mem_dedupKeys]

theorem buildKeys_nodup (es : List Entry) : (buildKeys es).Nodup :=
  (isort_perm Trie.keyLt _).symm.nodup (Trie.dedupKeys_nodup _)

theorem buildKeys_sorted (es : List Entry) : (buildKeys es).Pairwise (fun a b => Trie.keyLt a b = true) := by
  have h1 : Sorted Trie.keyLt (buildKeys es) := isort_sorted tp_keyLt _ (fun _ _ => trivial)
  have h2 := buildKeys_nodup es
  unfold Sorted at h1
  unfold List.Nodup at h2
  have := h1.and h2
  exact this.imp (fun ⟨h, hne⟩ => keyLt_total h (fun e => hne e.symm))

theorem build_eq (es : List Entry) :
    Trie.build es = (buildKeys es).map (fun k => (k, sortLeaf ((refFind es k).getD []))) := by
  unfold Trie.build buildKeys
  apply List.map_congr_left
  intro k _
  rw [isort_leafLt_eq_sortLeaf, leafOf_eq_refFind]

/-- a key was inserted iff the reference map has a leaf for it -/
theorem refFind_isSome_iff (es : List Entry) (k : List Nat) : (refFind es k).isSome = true ↔ k ∈ es.map (·.1) := by
  unfold refFind
  have key : ∀ (es : List Entry) (acc : Option (List Phrase)),
      (es.foldl (fun acc e => if e.1 = k then some (upsert (acc.getD []) e.2) else acc) acc).isSome = true ↔
        (acc.isSome = true ∨ k ∈ es.map (·.1)) := by
    intro es
    induction es with
    | nil => intro acc; simp
    | cons e es ih =>
      intro acc
      simp only [List.foldl_cons, List.map_cons, List.mem_cons]
      rw [ih]
      by_cases hk : e.1 = k
      · simp [hk]
      · have : ¬ k = e.1 := fun c => hk c.symm
        simp [hk, this]
  rw [key es none]
  simp

/-! ## C09's lookups on a built file, in closed form -/

theorem lookupLeaves_build (es : List Entry) (q : List Nat) (st : Strategy) :
    Trie.lookupLeaves (Trie.build es) q st =
      ((buildKeys es).filter (fun k => Trie.keyMatch st k q)).map (fun k => sortLeaf ((refFind es k).getD [])) := by
  unfold Trie.lookupLeaves
  rw [build_eq, List.filter_map, List.map_map]
  rfl

theorem filter_beq_nodup {l : List (List Nat)} (h : l.Nodup) (k : List Nat) :
    l.filter (fun x => x == k) = if k ∈ l then [k] else [] := by
  induction l with
  | nil => rfl
  | cons x l ih =>
    rw [List.nodup_cons] at h
    simp only [List.filter_cons, List.mem_cons]
    by_cases e : x = k
    · subst e
      have : l.filter (fun y => y == x) = [] := by
        rw [ih h.2, if_neg h.1]
      simp [this]
    · have e' : ¬ k = x := fun c => e c.symm
      have hb : (x == k) = false := by simpa using e
      simp only [hb, Bool.false_eq_true, if_false, e', false_or]
      exact ih h.2

/-- exact lookup of C09's abstract file: the leaf of the key as C11 orders it -/
theorem lookupAll_build_standard (es : List Entry) (k : List Nat) :
    Trie.lookupAll (Trie.build es) k .standard = sortLeaf ((refFind es k).getD []) := by
  unfold Trie.lookupAll
  rw [lookupLeaves_build]
  simp only [Trie.keyMatch]
  rw [filter_beq_nodup (buildKeys_nodup es)]
  by_cases hk : k ∈ buildKeys es
  · simp [hk]
  · rw [if_neg hk]
    have : refFind es k = none := by
      cases h : refFind es k with
      | none => rfl
      | some ps =>
        have := (refFind_isSome_iff es k).mp (by rw [h]; rfl)
        exact absurd (mem_buildKeys.mpr this) hk
    rw [this]
    rfl

/-- C09's `fuzzyMatch` (with its explicit non-zero test) is C11's on keys of non-zero syllables -/
theorem fuzzyMatch_eq {k : List Nat} (hk : ∀ s ∈ k, s ≠ 0) (q : List Nat) :
    Trie.fuzzyMatch k q = TrieCodec.fuzzyMatch k q := by
  induction k generalizing q with
  | nil => cases q <;> rfl
  | cons s k ih =>
    cases q with
    | nil => rfl
    | cons p q =>
      simp only [Trie.fuzzyMatch, TrieCodec.fuzzyMatch]
      rw [ih (fun s' hs' => hk s' (List.mem_cons_of_mem _ hs'))]
      have : (s != 0) = true := by simpa using hk s List.mem_cons_self
      simp [this]

/-! ## the byte-level fuzzy walk visits the keys in lexicographic order -/

theorem keyLt_cons_lt {a b : Nat} (h : a < b) (x y : List Nat) : Trie.keyLt (a :: x) (b :: y) = true := by
  simp [Trie.keyLt, cmpList, h]

theorem keyLt_cons_same (a : Nat) (x y : List Nat) : Trie.keyLt (a :: x) (a :: y) = Trie.keyLt x y := by
  simp [Trie.keyLt, cmpList]

theorem kids_filter_ascending {st : Strategy} {p : Nat} (hp : p ≠ 0) {s : Nat} {l : Option (List Phrase)} {sub : Forest}
    (hw : sub.WF) : ((Item.node s l sub).kids.filter fun k => matchSyl st k.syl p).Pairwise (fun a b => a.syl < b.syl) := by
  simp only [Item.kids, kidsOf_eq, List.filter_append]
  have h1 : (leafItem l).filter (fun (k : Item) => matchSyl st k.syl p) = [] := by
    cases l with
    | none => rfl
    | some ps =>
      have hsyl : (Item.leaf ps).syl = 0 := rfl
      have : matchSyl st 0 p = false := by
        cases st with
        | standard => simp [matchSyl]; omega
        | fuzzyPartialPrefix => simp [matchSyl]
      simp [leafItem, hsyl, this]
  rw [h1, List.nil_append]
  exact (sorted_kids_ascending hw).filter _

theorem reach_paths_sorted (st : Strategy) (q : List Nat) (hq : ∀ p ∈ q, p ≠ 0) :
    ∀ (s : Nat) (l : Option (List Phrase)) (sub : Forest), sub.WF →
      ((reach st q (.node s l sub)).map (·.1)).Pairwise (fun a b => Trie.keyLt a b = true) := by
  induction q with
  | nil => intro s l sub _; simp [reach]
  | cons p q ih =>
    intro s l sub hw
    have hp : p ≠ 0 := hq p (by simp)
    simp only [reach, List.map_flatMap, List.map_map]
    rw [List.pairwise_flatMap]
    constructor
    · intro k hk
      simp only [List.mem_filter] at hk
      have hk0 : k.syl ≠ 0 := matchSyl_ne_zero hp hk.2
      obtain ⟨nd, hc, hknd⟩ := (mem_kids_node hw k hk0).mp hk.1
      have := ih (fun p' hp' => hq p' (by simp [hp'])) k.syl nd.1 nd.2 (child_WF hw hc).1.2.2
      rw [← hknd] at this
      rw [List.pairwise_map] at this ⊢
      refine this.imp ?_
      intro a b hab
      simp only [Function.comp]
      rw [keyLt_cons_same]
      exact hab
    · refine (kids_filter_ascending hp hw).imp ?_
      intro a b hab x hx y hy
      simp only [List.mem_map, Function.comp] at hx hy
      obtain ⟨_, _, rfl⟩ := hx
      obtain ⟨_, _, rfl⟩ := hy
      exact keyLt_cons_lt hab _ _

theorem fuzzyGroups_keys_sublist (q : List Nat) (root : Item) :
    ((fuzzyGroups q root).map (·.1)).Sublist ((reach .fuzzyPartialPrefix q root).map (·.1)) := by
  simp only [fuzzyGroups]
  generalize reach .fuzzyPartialPrefix q root = rs
  induction rs with
  | nil => exact List.Sublist.refl _
  | cons r rs ih =>
    simp only [List.filterMap_cons, List.map_cons]
    cases r.2.leaf? with
    | none => exact List.Sublist.cons _ ih
    | some ps => exact List.Sublist.cons_cons _ ih

/-- the groups of a fuzzy lookup on the builder tree of `es`, explicitly: the matching keys of C09's
    file in file order, each with its inserted phrase vector -/
theorem fuzzyGroups_ofEntries (info : Info) (es : List Entry) (hv : ∀ e ∈ es, ValidEntry e) (q : List Nat)
    (hq : ∀ p ∈ q, p ≠ 0) :
    fuzzyGroups q (Builder.ofEntries info es).root =
      ((buildKeys es).filter (fun k => TrieCodec.fuzzyMatch k q)).map (fun k => (k, (refFind es k).getD [])) := by
  have hwf := WF_ofEntries info es hv
  have hmem : ∀ k ps, (k, ps) ∈ fuzzyGroups q (Builder.ofEntries info es).root ↔
      (refFind es k = some ps ∧ TrieCodec.fuzzyMatch k q = true) := by
    intro k ps
    rw [Builder.root, mem_fuzzyGroups q 0 _ _ hwf.2 k ps]
    have := find_ofEntries info es k
    unfold Builder.find at this
    rw [this]
  -- the keys
  have hkeys : (fuzzyGroups q (Builder.ofEntries info es).root).map (·.1) =
      (buildKeys es).filter (fun k => TrieCodec.fuzzyMatch k q) := by
    refine strict_sorted_ext (fun a b => Trie.keyLt a b = true) (fun a h => by rw [keyLt_irrefl] at h; cases h)
      (fun a b c => keyLt_trans) _ _ ?_ ((buildKeys_sorted es).filter _) ?_
    · exact List.Pairwise.sublist (fuzzyGroups_keys_sublist q _)
        (reach_paths_sorted .fuzzyPartialPrefix q hq 0 _ _ hwf.2)
    · intro k
      simp only [List.mem_map, List.mem_filter]
      constructor
      · rintro ⟨g, hg, rfl⟩
        have := (hmem g.1 g.2).mp hg
        exact ⟨mem_buildKeys.mpr ((refFind_isSome_iff es g.1).mp (by rw [this.1]; rfl)), this.2⟩
      · rintro ⟨h1, h2⟩
        have := (refFind_isSome_iff es k).mpr (mem_buildKeys.mp h1)
        cases hr : refFind es k with
        | none => rw [hr] at this; cases this
        | some ps => exact ⟨(k, ps), (hmem k ps).mpr ⟨hr, h2⟩, rfl⟩
  rw [← hkeys, List.map_map]
  conv => lhs; rw [← List.map_id (fuzzyGroups q (Builder.ofEntries info es).root)]
  apply List.map_congr_left
  intro g hg
  have := (hmem g.1 g.2).mp hg
  simp [Function.comp, this.1]

/-- prefix lookup of C09's abstract file, in closed form -/
theorem lookupAll_build_fuzzy (es : List Entry) (hv : ∀ e ∈ es, ValidEntry e) (q : List Nat) :
    Trie.lookupAll (Trie.build es) q .fuzzyPartialPrefix =
      ((buildKeys es).filter (fun k => TrieCodec.fuzzyMatch k q)).flatMap (fun k => sortLeaf ((refFind es k).getD [])) := by
  unfold Trie.lookupAll
  rw [lookupLeaves_build, List.flatMap_def]
  congr 2
  apply List.filter_congr
  intro k hk
  simp only [Trie.keyMatch]
  have hk' := mem_buildKeys.mp hk
  obtain ⟨e, he, rfl⟩ := List.mem_map.mp hk'
  exact fuzzyMatch_eq (fun s hs => by have := (hv e he).1 s hs; omega) q

/-! ## the denotation -/

/-- C09's abstract trie file `t` is the content of the byte file `bytes`: the file opens
    (`Trie::new`), and every function of the `Dictionary` trait the real reader implements returns, on
    queries of non-zero syllables, what C09's abstract function returns on `t` — the same list, in the
    same order; `entries()` enumerates the same entries (a permutation: the real iterator is depth
    first, deepest first), key by key in the same order -/
structure Denotes (bytes : Bytes) (t : List Leaf) : Prop where
  reads : ∃ tr, openTrie bytes = some tr ∧
    (∀ k st, C11.ValidKey k → TrieCodec.lookupAll tr k st = Trie.lookupAll t k st) ∧
    (∀ k n st, C11.ValidKey k → TrieCodec.lookupFirstN tr k n st = Trie.lookupFirstN t k n st) ∧
    (∀ k st, C11.ValidKey k → TrieCodec.lookupFirst tr k st = (Trie.lookupAll t k st).head?) ∧
    ∃ ents, TrieCodec.entries tr = .ok ents ∧ ents.Perm (Trie.entries t) ∧
      ∀ k, ents.filter (fun e => e.1 == k) = (Trie.entries t).filter (fun e => e.1 == k)

theorem take_collect' (n : Nat) (leaves : List (List Phrase)) :
    (Trie.collect n leaves []).take n = leaves.flatten.take n := by
  have := Trie.take_collect n leaves []
  simpa using this

theorem nodup_of_map_fst {l : List (List Nat × List Phrase)} (h : (l.map (·.1)).Nodup) : l.Nodup := by
  unfold List.Nodup at h ⊢
  rw [List.pairwise_map] at h
  exact h.imp (fun hne e => hne (congrArg _ e))

/-- entries of one key in a grouped enumeration with distinct keys -/
theorem filter_groups_key (groups : List (List Nat × List Phrase)) (hnd : (groups.map (·.1)).Nodup)
    (F : List Nat × List Phrase → List Phrase) (k : List Nat) (g : List Nat × List Phrase) (hg : g ∈ groups) (hk : g.1 = k) :
    (groups.flatMap fun g => (F g).map fun p => (g.1, p)).filter (fun e => e.1 == k) = (F g).map fun p => (k, p) := by
  induction groups with
  | nil => cases hg
  | cons x xs ih =>
    simp only [List.map_cons, List.nodup_cons] at hnd
    simp only [List.flatMap_cons, List.filter_append]
    have hfx : ∀ (y : List Nat × List Phrase), ((F y).map fun p => (y.1, p)).filter (fun e => e.1 == k) =
        if y.1 = k then (F y).map fun p => (y.1, p) else [] := by
      intro y
      by_cases e : y.1 = k
      · rw [if_pos e, List.filter_eq_self]
        intro a ha
        obtain ⟨p, _, rfl⟩ := List.mem_map.mp ha
        simpa using e
      · rw [if_neg e, List.filter_eq_nil_iff]
        intro a ha
        obtain ⟨p, _, rfl⟩ := List.mem_map.mp ha
        simpa using e
    rcases List.mem_cons.mp hg with e | e
    · subst e
      rw [hfx, if_pos hk]
      have : (xs.flatMap fun g => (F g).map fun p => (g.1, p)).filter (fun e => e.1 == k) = [] := by
        rw [List.filter_eq_nil_iff]
        intro a ha
        obtain ⟨y, hy, hay⟩ := List.mem_flatMap.mp ha
        obtain ⟨p, _, rfl⟩ := List.mem_map.mp hay
        have : y.1 ≠ k := by
          intro c
          exact hnd.1 (List.mem_map.mpr ⟨y, hy, c.trans hk.symm⟩)
        simpa using this
      rw [this, List.append_nil, hk]
    · have hxk : x.1 ≠ k := by
        intro c
        exact hnd.1 (List.mem_map.mpr ⟨g, e, hk.trans c.symm⟩)
      rw [hfx, if_neg hxk, List.nil_append]
      exact ih hnd.2 e

theorem filter_groups_none (groups : List (List Nat × List Phrase))
    (F : List Nat × List Phrase → List Phrase) (k : List Nat) (hk : ∀ g ∈ groups, g.1 ≠ k) :
    (groups.flatMap fun g => (F g).map fun p => (g.1, p)).filter (fun e => e.1 == k) = [] := by
  rw [List.filter_eq_nil_iff]
  intro a ha
  obtain ⟨y, hy, hay⟩ := List.mem_flatMap.mp ha
  obtain ⟨p, _, rfl⟩ := List.mem_map.mp hay
  simpa using hk y hy

/-- C09's enumeration of a built file, as a grouped enumeration -/
theorem entries_build (es : List Entry) :
    Trie.entries (Trie.build es) =
      ((buildKeys es).map (fun k => (k, (refFind es k).getD []))).flatMap fun g => (C11.leafOut g).map fun p => (g.1, p) := by
  unfold Trie.entries
  rw [build_eq, List.flatMap_map, List.flatMap_map]
  rfl

/-- **the file layer of C09 is C11**: for every metadata record and every list of valid entries, the
    bytes `TrieBuilder::write` produces (when it succeeds) denote C09's abstract file `Trie.build es` -/
theorem build_denotes (info : Info) (es : List Entry) (hv : C11.ValidInput info es) (bytes : Bytes)
    (hw : (Builder.ofEntries info es).write = some bytes) : Denotes bytes (Trie.build es) := by
  have hwf := WF_ofEntries info es hv.2
  have hi : ValidInfo (Builder.ofEntries info es).info := by rw [info_ofEntries]; exact hv.1
  obtain ⟨tr, hopen, _, hall⟩ := C11.read_write _ hwf hi bytes hw
  obtain ⟨t1, ho1, hstd⟩ := C11.lookup_correct info es hv bytes hw
  obtain ⟨t2, ho2, hn⟩ := C11.first_n_prefix info es hv bytes hw
  obtain ⟨t3, ho3, hfp, _⟩ := C11.first_phrase_correct info es hv bytes hw
  obtain ⟨t4, ho4, groups, ⟨hgnd, hgmem⟩, hent⟩ := C11.entries_correct info es hv bytes hw
  have e1 : t1 = tr := Option.some.inj (ho1.symm.trans hopen)
  have e2 : t2 = tr := Option.some.inj (ho2.symm.trans hopen)
  have e3 : t3 = tr := Option.some.inj (ho3.symm.trans hopen)
  have e4 : t4 = tr := Option.some.inj (ho4.symm.trans hopen)
  rw [e1] at hstd; rw [e2] at hn; rw [e3] at hfp; rw [e4] at hent
  have hlook : ∀ k st, C11.ValidKey k → TrieCodec.lookupAll tr k st = Trie.lookupAll (Trie.build es) k st := by
    intro k st hk
    cases st with
    | standard =>
      rw [hstd k hk, lookupAll_build_standard]
      rfl
    | fuzzyPartialPrefix =>
      rw [hall .fuzzyPartialPrefix k hk, tLookup_fuzzy_groups, fuzzyGroups_ofEntries info es hv.2 k hk,
        lookupAll_build_fuzzy es hv.2, List.flatMap_map]
  refine ⟨tr, hopen, hlook, ?_, ?_, ?_⟩
  · intro k n st hk
    rw [hn st k n hk, hlook k st hk]
    unfold Trie.lookupFirstN Trie.lookupAll
    rw [take_collect']
  · intro k st hk
    rw [hfp st k hk, hlook k st hk]
  · refine ⟨_, hent, ?_, ?_⟩
    · -- the two group lists are permutations of each other: distinct keys, same members
      rw [entries_build]
      apply List.Perm.flatMap_right
      have hnd1 : groups.Nodup := nodup_of_map_fst hgnd
      have hnd2 : ((buildKeys es).map (fun k => (k, (refFind es k).getD []))).Nodup := by
        apply nodup_of_map_fst
        rw [List.map_map]
        have : ((fun (x : List Nat × List Phrase) => x.1) ∘ fun k => (k, (refFind es k).getD [])) = id := rfl
        rw [this, List.map_id]
        exact buildKeys_nodup es
      rw [List.perm_ext_iff_of_nodup hnd1 hnd2]
      intro g
      obtain ⟨k, ps⟩ := g
      rw [hgmem k ps]
      simp only [List.mem_map, Prod.mk.injEq, C11.inserted, and_true]
      constructor
      · intro h
        refine ⟨k, mem_buildKeys.mpr ((refFind_isSome_iff es k).mp (by rw [h]; rfl)), rfl, by rw [h]; rfl⟩
      · rintro ⟨k', hk', rfl, hps⟩
        have := (refFind_isSome_iff es k').mpr (mem_buildKeys.mp hk')
        cases hr : refFind es k' with
        | none => rw [hr] at this; cases this
        | some ps' => rw [hr] at hps; simp at hps; rw [hps]
    · intro k
      rw [entries_build]
      by_cases hk : k ∈ buildKeys es
      · have hsome := (refFind_isSome_iff es k).mpr (mem_buildKeys.mp hk)
        cases hr : refFind es k with
        | none => rw [hr] at hsome; cases hsome
        | some ps =>
          have hg1 : (k, ps) ∈ groups := (hgmem k ps).mpr ⟨hr, trivial⟩
          rw [filter_groups_key groups hgnd C11.leafOut k (k, ps) hg1 rfl]
          have hg2 : (k, ps) ∈ (buildKeys es).map (fun k => (k, (refFind es k).getD [])) :=
            List.mem_map.mpr ⟨k, hk, by rw [hr]; rfl⟩
          rw [filter_groups_key _ ?_ C11.leafOut k (k, ps) hg2 rfl]
          rw [List.map_map]
          have : ((fun (x : List Nat × List Phrase) => x.1) ∘ fun k => (k, (refFind es k).getD [])) = id := rfl
          rw [this, List.map_id]
          exact buildKeys_nodup es
      · rw [filter_groups_none groups C11.leafOut k, filter_groups_none _ C11.leafOut k]
        · intro g hg c
          obtain ⟨k', hk', rfl⟩ := List.mem_map.mp hg
          exact hk (c ▸ hk')
        · intro g hg c
          obtain ⟨k', ps⟩ := g
          have := ((hgmem k' ps).mp hg).1
          exact hk (mem_buildKeys.mpr ((refFind_isSome_iff es k').mp (by
            show (refFind es k').isSome = true
            have h' : refFind es k' = some ps := this
            rw [h']; rfl)) |> fun h => c ▸ h)

/-- … and inside the format's limits `write` does succeed, so the file exists -/
theorem build_denotes_fits (info : Info) (es : List Entry) (hv : C11.ValidInput info es)
    (hf : (Builder.ofEntries info es).Fits) :
    ∃ bytes, (Builder.ofEntries info es).write = some bytes ∧ Denotes bytes (Trie.build es) := by
  have := C11.writes_within_limits _ hf
  cases hw : (Builder.ofEntries info es).write with
  | none => rw [hw] at this; cases this
  | some bytes => exact ⟨bytes, rfl, build_denotes info es hv bytes hw⟩

end Chewing.TrieLink
