import Chewing.Proofs.TrieLink
/-!
# TrieLinkOrder — the order of `Trie::entries()` across keys, for C09's abstract file

`Proofs/TrieLink.lean` (`Denotes`) ties C09's abstract file `Trie.build es` to the bytes: same lookups, and
`entries()` "a permutation, key by key in the same order".  With C11's `entries_order` the permutation is
determined: C09's enumeration lists the leaves in file order (`buildKeys es`, sorted lexicographically with a
prefix first); the real iterator lists the same leaves with every maximal chain "each key a prefix of the
next" of that sorted list reversed (depth first, `results.pop()` = deepest first).
-/
namespace Chewing.TrieLink
open Chewing Chewing.TrieCodec

/-- the order of the file's key list (`Ord` of syllable slices, strict) implies the order of the visiting
    order's sort -/
theorem keyLe_of_keyLt : ∀ a b : List Nat, Trie.keyLt a b = true → Cli.keyLe a b = true
  | [], [], h => by simp [Trie.keyLt, cmpList] at h
  | [], _ :: _, _ => rfl
  | _ :: _, [], h => by simp [Trie.keyLt, cmpList] at h
  | a :: as, b :: bs, h => by
    simp only [Trie.keyLt, cmpList] at h
    simp only [Cli.keyLe, Bool.or_eq_true, Bool.and_eq_true, decide_eq_true_eq, beq_iff_eq]
    by_cases h1 : a < b
    · exact Or.inl h1
    · rw [if_neg h1] at h
      by_cases h2 : b < a
      · rw [if_pos h2] at h; simp at h
      · rw [if_neg h2] at h
        exact Or.inr ⟨by omega, keyLe_of_keyLt as bs h⟩

theorem buildKeys_keyLe (es : List Entry) : (buildKeys es).Pairwise (fun a b => Cli.keyLe a b = true) :=
  (buildKeys_sorted es).imp (keyLe_of_keyLt _ _)

/-- the visiting order of the file's own (sorted) key list: no sorting left, only the chains reversed -/
theorem trieOrder_buildKeys (es : List Entry) :
    Cli.trieOrder (buildKeys es) = (Cli.runs (buildKeys es)).flatMap List.reverse := by
  unfold Cli.trieOrder
  rw [Cli.insSort_of_pairwise (buildKeys_keyLe es)]

/-- **the enumeration of the byte-level file, exactly**: C09's `Trie.entries (Trie.build es)` lists the leaves
    in the order of `buildKeys es`; the real `entries()` lists the same leaves in the order
    `(runs (buildKeys es)).flatMap reverse` -/
theorem build_entries_exact (info : TrieCodec.Info) (es : List Entry) (hv : C11.ValidInput info es) (bytes : Der.Bytes)
    (hw : (TrieCodec.Builder.ofEntries info es).write = some bytes) :
    ∃ tr, openTrie bytes = some tr ∧
      TrieCodec.entries tr = .ok (((Cli.runs (buildKeys es)).flatMap List.reverse).flatMap fun k =>
        (sortLeaf ((refFind es k).getD [])).map fun p => (k, p)) ∧
      Trie.entries (Trie.build es) = (buildKeys es).flatMap fun k =>
        (sortLeaf ((refFind es k).getD [])).map fun p => (k, p) := by
  obtain ⟨tr, ho, he⟩ := C11.entries_order info es hv bytes hw (buildKeys es) (buildKeys_nodup es)
    (fun k => by rw [mem_buildKeys, C11.inserted_some_iff])
  refine ⟨tr, ho, ?_, ?_⟩
  · rw [he, trieOrder_buildKeys]
    rfl
  · rw [entries_build, List.flatMap_map]
    rfl

end Chewing.TrieLink
